//go:build verif

package discovery

// C20, the node's own channels: ProcessLocalAnnouncement and the
// announcement_signatures exchange.
//
// A local channel_announcement carries no proof; the channel is stored
// without one and nothing about it is relayed. The proof is assembled by
// handleAnnSig from the local half (funding manager) and the remote half
// (channel peer). The statement's clause for channel announcements is the
// oracle for the assembled proof: it may enter the graph (AuthProof set) and
// the full channel_announcement may be relayed only if all four signatures
// verify over the announcement digest under the stated node and bitcoin keys.
//
// TestVerifC20AnnSigs, per case: this node is one side (drawn which) of one
// channel with a good funding output; ProofMatureDelta is drawn; the chain
// tip starts at the funding height + 0..delta+1. A generated history
// delivers the local announcement, local/remote updates, valid local and
// remote halves in any order and any number of times, and bad halves: wrong
// node signature, wrong bitcoin signature, the two signatures swapped, the
// halves of another channel's announcement (valid signatures, wrong
// channel), valid signatures sent by a peer that is not a channel party, a
// bad local half, halves for an unknown scid; block steps (halves that came
// before the required confirmations are kept and re-processed, see
// c20_future_test.go).
//
// After every step:
//   - safety: if the stored channel has a proof, its four signatures verify
//     (btcec, digest computed by the harness from its own announcement) in
//     their slots - whatever was delivered before;
//   - as long as only valid halves were delivered ("clean"), the proof is
//     present exactly when the reference model says so: a valid half processed
//     (after the required confirmations) while the channel is known and the
//     valid opposite half has been received; never before the confirmations;
//   - nothing about the channel is handed to Broadcast before the proof is
//     complete; a relayed channel_announcement must be the authentic one
//     (identity = 4 signatures + signed data); the full announcement lnd sends
//     to the peer in reply to a late half must be the authentic one as well.
// At the end the valid halves are delivered as remote, local, remote (which
// completes the exchange from any state of the waiting-proof store) and the
// proof must be there.

import (
	"bytes"
	"context"
	"fmt"
	"sort"
	"testing"
	"time"

	"github.com/btcsuite/btcd/btcec/v2"
	"github.com/btcsuite/btcd/btcec/v2/ecdsa"
	"github.com/btcsuite/btcd/btcutil/v2"
	"github.com/btcsuite/btcd/chainhash/v2"
	"github.com/btcsuite/btcd/wire/v2"
	"github.com/lightningnetwork/lnd/channeldb"
	"github.com/lightningnetwork/lnd/graph/db/models"
	"github.com/lightningnetwork/lnd/internal/verif/vstats"
	"github.com/lightningnetwork/lnd/lnpeer"
	"github.com/lightningnetwork/lnd/lnwire"
	"pgregory.net/rapid"
)

// c20asWipe empties the waiting-proof store shared by the cases of a test.
func c20asWipe(wps *channeldb.WaitingProofStore) error {
	var keys []channeldb.WaitingProofKey
	err := wps.ForAll(func(p *channeldb.WaitingProof) error {
		keys = append(keys, p.Key())
		return nil
	}, func() { keys = nil })
	if err != nil && err != channeldb.ErrWaitingProofNotFound {
		return err
	}
	for _, k := range keys {
		if err := wps.Remove(k); err != nil &&
			err != channeldb.ErrWaitingProofNotFound {

			return err
		}
	}

	return nil
}

func c20asSig(raw []byte) lnwire.Sig {
	s, err := lnwire.NewSigFromWireECDSA(raw)
	if err != nil {
		panic(err)
	}

	return s
}

// c20asHalf is one announcement_signatures message to deliver.
type c20asHalf struct {
	name  string
	local bool // via ProcessLocalAnnouncement
	valid bool // the side's two authentic signatures, sent by that side
	side  int  // whose signatures it claims to carry (0: node1, 1: node2)
	peer  *btcec.PrivateKey
	msg   *lnwire.AnnounceSignatures1
}

type c20asEvent struct {
	what string
	out  c20Outcome
	err  error
}

func TestVerifC20AnnSigs(t *testing.T) {
	st := vstats.New("TestVerifC20AnnSigs")
	defer st.Flush()
	wps := c20WPS(t)
	bg := context.Background()

	rapid.Check(t, func(rt *rapid.T) {
		if err := c20asWipe(wps); err != nil {
			rt.Fatalf("harness: wipe waiting proofs: %v", err)
		}
		u := c20DrawUniverse(rt, 1, true, false)
		c := u.chans[0]
		scid := c.scid.ToUint64()
		H := c.scid.BlockHeight
		selfSide := rapid.IntRange(0, 1).Draw(rt, "selfSide")
		remSide := 1 - selfSide
		delta := uint32(rapid.SampledFrom([]int{0, 1, 3, 6}).
			Draw(rt, "proofDelta"))
		needTip := H
		if delta > 0 {
			needTip = H + delta - 1
		}
		tip := H + uint32(rapid.IntRange(0, int(delta)+1).
			Draw(rt, "startAbove"))
		u.chain.setBest(int32(tip))

		sent := make(chan lnwire.Message, 256)
		quit := make(chan struct{})
		defer close(quit)
		ctx, err := c20NewCtxOpts(t, wps, u.chain, tip, nil, c20CtxOpts{
			self:       c.nodePriv[selfSide],
			proofDelta: delta,
			onlinePeer: func(pk *btcec.PublicKey) lnpeer.Peer {
				return &mockPeer{pk: pk, sentMsgs: sent, quit: quit}
			},
		})
		if err != nil {
			rt.Fatalf("harness: gossiper start: %v", err)
		}
		cctx, cancel := context.WithCancel(bg)
		defer func() {
			cancel()
			ctx.stop()
		}()

		// ---------------------------------------------------------
		// the authentic announcement, its digest and the halves
		annMsg, err := c.ann.parse()
		if err != nil {
			rt.Fatalf("harness: %v", err)
		}
		ann := annMsg.(*lnwire.ChannelAnnouncement1)
		data, err := ann.DataToSign()
		if err != nil {
			rt.Fatalf("harness: %v", err)
		}
		digest := chainhash.DoubleHashB(data)
		w := c.ann.wire
		nodeSig := func(side int) []byte { return w[2+64*side : 66+64*side] }
		btcSig := func(side int) []byte {
			return w[130+64*side : 194+64*side]
		}
		fundingPoint := func() wire.OutPoint {
			h, err := u.chain.GetBlockHash(int64(H))
			if err != nil {
				rt.Fatalf("harness: funding block: %v", err)
			}
			b, err := u.chain.GetBlock(h)
			if err != nil {
				rt.Fatalf("harness: funding block: %v", err)
			}

			return wire.OutPoint{
				Hash:  b.Transactions[c.scid.TxIndex].TxHash(),
				Index: uint32(c.scid.TxPosition),
			}
		}
		op := fundingPoint()
		chanID := lnwire.NewChanIDFromOutPoint(op)

		mkHalf := func(name string, local, valid bool, side int,
			peer *btcec.PrivateKey, sc lnwire.ShortChannelID, ns,
			bs []byte) *c20asHalf {

			return &c20asHalf{
				name: name, local: local, valid: valid, side: side,
				peer: peer,
				msg: &lnwire.AnnounceSignatures1{
					ChannelID:        chanID,
					ShortChannelID:   sc,
					NodeSignature:    c20asSig(ns),
					BitcoinSignature: c20asSig(bs),
				},
			}
		}
		remPriv := c.nodePriv[remSide]
		stranger := c20PrivFrom(u.seed, "annsig/stranger")

		// Another channel of the same two nodes and bitcoin keys, one
		// output further: its halves are perfectly valid - for it.
		other := *c
		other.scid.TxPosition++
		otherAnn := u.makeCA(&other, c20Features(), nil, c20Mainnet)
		ow := otherAnn.wire
		// A stranger's signatures over the right digest.
		strangerSig := c20SigOver(stranger, data)

		validLocal := func() *c20asHalf {
			return mkHalf("local_valid", true, true, selfSide, nil,
				c.scid, nodeSig(selfSide), btcSig(selfSide))
		}
		validRemote := func() *c20asHalf {
			return mkHalf("remote_valid", false, true, remSide, remPriv,
				c.scid, nodeSig(remSide), btcSig(remSide))
		}
		badHalves := []func() *c20asHalf{
			func() *c20asHalf {
				return mkHalf("remote_bad_node_sig", false, false,
					remSide, remPriv, c.scid, strangerSig,
					btcSig(remSide))
			},
			func() *c20asHalf {
				return mkHalf("remote_bad_bitcoin_sig", false, false,
					remSide, remPriv, c.scid, nodeSig(remSide),
					strangerSig)
			},
			func() *c20asHalf {
				return mkHalf("remote_sigs_swapped", false, false,
					remSide, remPriv, c.scid, btcSig(remSide),
					nodeSig(remSide))
			},
			func() *c20asHalf {
				return mkHalf("remote_other_channels_sigs", false,
					false, remSide, remPriv, c.scid,
					ow[2+64*remSide:66+64*remSide],
					ow[130+64*remSide:194+64*remSide])
			},
			func() *c20asHalf {
				return mkHalf("remote_sends_local_sides_sigs", false,
					false, remSide, remPriv, c.scid,
					nodeSig(selfSide), btcSig(selfSide))
			},
			func() *c20asHalf {
				return mkHalf("nonparty_sends_valid_sigs", false,
					false, remSide, stranger, c.scid,
					nodeSig(remSide), btcSig(remSide))
			},
			func() *c20asHalf {
				return mkHalf("local_bad_node_sig", true, false,
					selfSide, nil, c.scid, strangerSig,
					btcSig(selfSide))
			},
		}
		orphan := func() *c20asHalf {
			sc := c.scid
			sc.TxIndex += 7
			return mkHalf("remote_unknown_scid", false, true, remSide,
				remPriv, sc, nodeSig(remSide), btcSig(remSide))
		}

		// ---------------------------------------------------------
		// model
		var (
			known     bool
			proofDone bool
			clean     = true
			store     [2]bool // valid half received and waiting: [local, remote]
			events    []*c20asEvent
			labels    = map[string]bool{}
			fp        = []any{u.seed, selfSide, delta, tip}
			pol       [2]*c20Msg
			applied   = map[string]bool{}
			nMade     int
			nRemoteCU int
			timedOut  bool
			everBad   bool
			everKept  bool
		)
		type keptHalf struct {
			h      *c20asHalf
			copy   *networkMsg
			height uint32
			ev     *c20asEvent
		}
		var kept []*keptHalf

		history := func() string {
			var b bytes.Buffer
			for i, e := range events {
				o := [...]string{"result", "parked", "timeout"}[e.out]
				fmt.Fprintf(&b, "\n    %2d. %s -> %s err=%v", i+1, e.what,
					o, c20zgShortErr(e.err))
			}

			return b.String()
		}
		fail := func(format string, args ...any) {
			rt.Fatalf("C20 annsig (self=node%d, delta=%d, funding "+
				"height %d): %s\n  history:%s", selfSide+1, delta, H,
				fmt.Sprintf(format, args...), history())
		}

		// verifyProof: the statement's clause on a stored proof.
		pubs := [4]*btcec.PublicKey{
			c.nodePriv[0].PubKey(), c.nodePriv[1].PubKey(),
			c.btc[0].PubKey(), c.btc[1].PubKey(),
		}
		verifyProof := func(p *models.ChannelAuthProof, when string) {
			sigs := [4][]byte{
				p.NodeSig1Bytes.UnwrapOr(nil),
				p.NodeSig2Bytes.UnwrapOr(nil),
				p.BitcoinSig1Bytes.UnwrapOr(nil),
				p.BitcoinSig2Bytes.UnwrapOr(nil),
			}
			names := [4]string{"node_signature_1", "node_signature_2",
				"bitcoin_signature_1", "bitcoin_signature_2"}
			for i, raw := range sigs {
				sig, err := ecdsa.ParseDERSignature(raw)
				if err != nil || !sig.Verify(digest, pubs[i]) {
					fail("%s: the channel has a proof whose %s does "+
						"not verify over the announcement digest "+
						"under the stated key", when, names[i])
				}
			}
		}
		checkState := func(when string) {
			info, has := ctx.graph.info(scid)
			if has != known {
				fail("%s: channel in graph=%v, model %v", when, has,
					known)
			}
			if !has {
				return
			}
			if info.AuthProof != nil {
				verifyProof(info.AuthProof, when)
				labels["proof_present_and_verified"] = true
			}
			if !clean {
				if info.AuthProof != nil {
					proofDone = true
				}

				return
			}
			switch {
			case info.AuthProof != nil && !proofDone && tip < needTip:
				fail("%s: proof assembled at tip %d, before the "+
					"required confirmations (needs tip %d)", when,
					tip, needTip)
			case info.AuthProof != nil && !proofDone:
				fail("%s: the channel has a proof although the two "+
					"valid halves have not both been received", when)
			case info.AuthProof == nil && proofDone:
				fail("%s: both valid halves were received after the "+
					"required confirmations, but the channel has no "+
					"proof", when)
			}
		}

		// process moves the model along for a half that lnd has
		// (re-)processed now.
		process := func(h *c20asHalf) {
			if !h.valid {
				return
			}
			if h.msg.ShortChannelID != c.scid {
				return
			}
			me, opp := 1, 0
			if h.local {
				me, opp = 0, 1
			}
			switch {
			case !known:
				store[me] = true
			case proofDone:
			case store[opp]:
				proofDone = true
				store[opp] = false
				if h.local {
					labels["proof_completed_by_local_half"] = true
				} else {
					labels["proof_completed_by_remote_half"] = true
				}
			default:
				store[me] = true
			}
		}

		noRelayYet := func(when string) {
			time.Sleep(3 * c20Trickle)
			for _, b := range ctx.broadcasts() {
				switch m := b.(type) {
				case *lnwire.ChannelAnnouncement1:
					if m.ShortChannelID == c.scid {
						fail("%s: channel_announcement relayed "+
							"before the proof is complete", when)
					}
				case *lnwire.ChannelUpdate1:
					if m.ShortChannelID == c.scid {
						fail("%s: channel_update of the unannounced "+
							"channel relayed", when)
					}
				}
			}
		}

		deliverHalf := func(h *c20asHalf) bool {
			if !h.valid {
				clean = false
				everBad = true
			}
			if clean && known && !proofDone && h.valid &&
				tip >= needTip && h.msg.ShortChannelID == c.scid &&
				((h.local && store[1]) || (!h.local && store[0])) {

				noRelayYet("before the half that completes the proof")
				labels["checked_no_relay_before_proof"] = true
			}
			ev := &c20asEvent{what: fmt.Sprintf("%s (tip %d)", h.name,
				tip)}
			events = append(events, ev)
			fp = append(fp, h.name)
			labels["half_"+h.name] = true
			msg := *h.msg
			var p *c20Pending
			if h.local {
				p = &c20Pending{msg: &msg, done: make(chan error, 1)}
				fut := ctx.g.ProcessLocalAnnouncement(&msg)
				go func() { p.done <- AwaitGossipResult(cctx, fut) }()
			} else {
				peer := &mockPeer{pk: h.peer.PubKey(), sentMsgs: sent,
					quit: quit}
				p = ctx.send(cctx, &msg, peer)
			}
			ev.out, ev.err = ctx.await(p, c20Deadline, false)
			if ev.out == c20TimedOut {
				timedOut = true
				return false
			}
			if cp, hh := ctx.lookupFuture(&msg); cp != nil {
				if tip >= needTip {
					fail("half kept as premature at tip %d although "+
						"%d confirmations are reached at tip %d", tip,
						delta, needTip)
				}
				kept = append(kept, &keptHalf{h: h, copy: cp,
					height: hh, ev: ev})
				ev.what += " [kept until block " +
					fmt.Sprint(hh) + "]"
				everKept = true
				labels["half_before_confirmations_kept"] = true
				if h.local {
					labels["kept_local_half"] = true
				} else {
					labels["kept_remote_half"] = true
				}
			} else {
				if tip < needTip && clean {
					// processed before the confirmations: the
					// model does not count it; checkState flags a
					// proof that shows up early.
					labels["half_before_confirmations_not_kept"] = true
				} else {
					process(h)
				}
			}
			checkState("after " + h.name)

			return true
		}

		mkCU := func(side int, ts uint32) *c20Msg {
			nMade++
			f := c20DrawUpdFields(rt, c.capacity, side, ts,
				fmt.Sprintf("cu%d", nMade))
			f.extra = nil
			f.feeRate = uint32(20_000 + nMade)
			m := c20MakeCU(c.scid, f, c.nodePriv[side])
			if ok, why := m.fill(); !ok {
				rt.Fatalf("harness: %s", why)
			}

			return m
		}
		deliverCU := func(side int) bool {
			ts := u.baseTS + uint32(10*nMade+10)
			m := mkCU(side, ts)
			parsed, _ := m.parse()
			local := side == selfSide
			ev := &c20asEvent{what: fmt.Sprintf("channel_update dir=%d "+
				"local=%v ts=%d", side, local, ts)}
			events = append(events, ev)
			fp = append(fp, "CU", side)
			var p *c20Pending
			if local {
				p = &c20Pending{msg: parsed, done: make(chan error, 1)}
				fut := ctx.g.ProcessLocalAnnouncement(parsed)
				go func() { p.done <- AwaitGossipResult(cctx, fut) }()
			} else {
				p = ctx.send(cctx, parsed, &mockPeer{
					pk: remPriv.PubKey(), sentMsgs: sent, quit: quit})
			}
			ev.out, ev.err = ctx.await(p, c20Deadline, true)
			if ev.out == c20TimedOut {
				timedOut = true
				return false
			}
			got, ok := ctx.graph.policy(scid, side)
			if !ok || got.LastUpdate.Unix() != int64(ts) {
				fail("authentic update of direction %d for the known "+
					"channel not applied: %v", side, ev.err)
			}
			pol[side] = m
			applied[m.key] = true
			labels[fmt.Sprintf("cu_local=%v_applied", local)] = true
			checkState("after a channel_update")

			return true
		}

		deliverLocalCA := func() bool {
			ev := &c20asEvent{what: "local channel_announcement"}
			events = append(events, ev)
			fp = append(fp, "LCA")
			// The funding manager's announcement carries no
			// signatures; sometimes send it with all four (as lnd's
			// unit tests do) - the local path must ignore them.
			lw := append([]byte(nil), c.ann.wire...)
			if rapid.Bool().Draw(rt, fmt.Sprintf("lcaBlank%d",
				len(events))) {

				for i := 2; i < 258; i++ {
					lw[i] = 0
				}
				labels["local_ca_without_signatures"] = true
			} else {
				labels["local_ca_with_signatures"] = true
			}
			parsed, err := lnwire.ReadMessage(bytes.NewReader(lw), 0)
			if err != nil {
				rt.Fatalf("harness: %v", err)
			}
			p := &c20Pending{msg: parsed, done: make(chan error, 1)}
			fut := ctx.g.ProcessLocalAnnouncement(parsed,
				ChannelCapacity(btcutil.Amount(c.capacity)),
				ChannelPoint(op))
			go func() { p.done <- AwaitGossipResult(cctx, fut) }()
			ev.out, ev.err = ctx.await(p, c20Deadline, false)
			if ev.out == c20TimedOut {
				timedOut = true
				return false
			}
			if !known {
				if ev.err != nil {
					fail("local announcement of a channel with a "+
						"good funding output refused: %v", ev.err)
				}
				known = true
				labels["local_ca_applied"] = true
			} else {
				labels["local_ca_duplicate"] = true
			}
			info, _ := ctx.graph.info(scid)
			if info.AuthProof != nil && !proofDone {
				fail("a local announcement produced a proof")
			}
			checkState("after the local channel_announcement")

			return true
		}

		block := func(n uint32) bool {
			tip += n
			ev := &c20asEvent{what: fmt.Sprintf("block: tip %d", tip)}
			events = append(events, ev)
			fp = append(fp, "B", n)
			u.chain.setBest(int32(tip))
			ctx.newTip(tip)
			var rest []*keptHalf
			for _, k := range kept {
				if k.height > tip {
					rest = append(rest, k)
					continue
				}
				if again, _ := ctx.lookupFuture(k.copy.msg); again !=
					nil {

					fail("block %d arrived but the half kept for "+
						"height %d was not re-processed", tip, k.height)
				}
				p := &c20Pending{msg: k.copy.msg,
					done: make(chan error, 1)}
				fut := k.copy.errPromise.Future()
				go func() { p.done <- AwaitGossipResult(cctx, fut) }()
				out, err := ctx.await(p, c20Deadline, false)
				if out == c20TimedOut {
					timedOut = true
					return false
				}
				k.ev.what += fmt.Sprintf(" [re-processed at tip %d: "+
					"err=%v]", tip, c20zgShortErr(err))
				labels["kept_half_reprocessed_at_block"] = true
			}
			// model: the released halves in any order
			for _, k := range kept {
				if k.height <= tip {
					process(k.h)
				}
			}
			kept = rest
			checkState(fmt.Sprintf("after block %d", tip))

			return true
		}

		// ---------------------------------------------------------
		// history
		nSteps := rapid.IntRange(3, 12).Draw(rt, "nSteps")
		for i := 0; i < nSteps && !timedOut; i++ {
			l := fmt.Sprintf("s%d", i)
			// (rapid leans towards the low end of a range: the more
			// interesting kinds come first)
			kinds := []string{
				"LH", "RH", "BAD", "RH", "LH", "BLK", "CU", "BAD", "LCA",
				"BLK", "ORPHAN", "LCA",
			}
			kind := kinds[rapid.IntRange(0, len(kinds)-1).Draw(rt, l+"k")]
			if i == 0 && rapid.IntRange(0, 2).Draw(rt, l+"first") > 0 {
				kind = "LCA"
			}
			ok := true
			switch kind {
			case "LCA":
				ok = deliverLocalCA()
			case "LH":
				ok = deliverHalf(validLocal())
			case "RH":
				ok = deliverHalf(validRemote())
			case "BAD":
				bi := rapid.IntRange(0, len(badHalves)-1).Draw(rt, l+"bad")
				bad := badHalves[bi]()
				if bad.local && !known {
					// (a bad half of the own funding manager is only
					// sent for a channel the gossiper already knows:
					// stored as an orphan next to a bad remote
					// orphan, the two would block each other for
					// good, which is about a misbehaving local
					// subsystem, not about gossip)
					continue
				}
				ok = deliverHalf(bad)
			case "ORPHAN":
				ok = deliverHalf(orphan())
			case "CU":
				if !known || nRemoteCU >= 8 {
					continue
				}
				side := rapid.IntRange(0, 1).Draw(rt, l+"side")
				if side != selfSide {
					nRemoteCU++
				}
				ok = deliverCU(side)
			default:
				ok = block(uint32(rapid.IntRange(1, int(delta)+2).
					Draw(rt, l+"n")))
			}
			if !ok {
				break
			}
		}
		if timedOut {
			st.Count("inconclusive", 1)
			return
		}

		// ---------------------------------------------------------
		// closing: everything needed for the proof, then the final
		// assertions.
		if clean {
			labels["history_clean"] = true
		} else {
			labels["history_with_bad_halves"] = true
		}
		cleanProofBefore := clean && proofDone
		if !known && !deliverLocalCA() {
			st.Count("inconclusive", 1)
			return
		}
		if tip < needTip && !block(needTip-tip) {
			st.Count("inconclusive", 1)
			return
		}
		if info, _ := ctx.graph.info(scid); info.AuthProof == nil {
			noRelayYet("before the closing exchange")
		}
		// From here on only the final state is asserted.
		clean = false
		for _, h := range []*c20asHalf{validRemote(), validLocal(),
			validRemote()} {

			h.name = "closing_" + h.name
			if !deliverHalf(h) {
				st.Count("inconclusive", 1)
				return
			}
		}
		info, _ := ctx.graph.info(scid)
		if info.AuthProof == nil {
			fail("after the valid remote, local, remote halves (all " +
				"after the required confirmations) the channel still " +
				"has no proof")
		}
		verifyProof(info.AuthProof, "at the end")

		// Relay: the authentic announcement (positive wait, counted
		// only), and nothing else about channels.
		deadline := time.Now().Add(2 * time.Second)
		seen := false
		for !seen && time.Now().Before(deadline) {
			for _, b := range ctx.broadcasts() {
				if k, ok := c20KeyOf(b); ok && k == c.ann.key {
					seen = true
				}
			}
			if !seen {
				time.Sleep(200 * time.Microsecond)
			}
		}
		if seen {
			labels["assembled_announcement_relayed"] = true
		} else {
			st.Count("relay_not_observed", 1)
		}
		time.Sleep(2 * c20Trickle)
		for _, b := range ctx.broadcasts() {
			k, _ := c20KeyOf(b)
			switch b.(type) {
			case *lnwire.ChannelAnnouncement1:
				if k != c.ann.key {
					fail("a channel_announcement was relayed that is " +
						"not the authentic one (signatures or signed " +
						"data differ)")
				}
			case *lnwire.ChannelUpdate1:
				if !applied[k] {
					fail("a channel_update was relayed that was " +
						"never applied")
				}
				labels["updates_relayed_with_the_proof"] = true
			}
		}
		// What lnd sent directly to the channel peer.
	drain:
		for {
			select {
			case m := <-sent:
				switch x := m.(type) {
				case *lnwire.ChannelAnnouncement1:
					if k, _ := c20KeyOf(x); k != c.ann.key {
						fail("lnd sent the peer a full " +
							"channel_announcement that is not the " +
							"authentic one")
					}
					labels["full_proof_sent_to_late_peer"] = true
				case *lnwire.AnnounceSignatures1:
					if x.ShortChannelID == c.scid &&
						(!bytes.Equal(x.NodeSignature.RawBytes(),
							nodeSig(selfSide)) ||
							!bytes.Equal(
								x.BitcoinSignature.RawBytes(),
								btcSig(selfSide))) {

						labels["bad_local_half_forwarded_to_peer"] =
							true
					}
				}
			default:
				break drain
			}
		}
		if cleanProofBefore {
			labels["proof_completed_within_clean_history"] = true
		}
		_ = pol

		ll := make([]string, 0, len(labels))
		for k := range labels {
			ll = append(ll, "as:"+k)
		}
		sort.Strings(ll)
		ll = append(ll, fmt.Sprintf("as:delta=%d", delta),
			fmt.Sprintf("as:self_is_node%d", selfSide+1))
		var sample any
		if st.WantSample() {
			var d []string
			for _, e := range events {
				d = append(d, e.what)
			}
			sample = map[string]any{"seed": u.seed, "events": d}
		}
		st.Case(vstats.FP(fp...), everBad || everKept, ll, sample)
	})
}
