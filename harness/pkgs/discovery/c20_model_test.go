//go:build verif

package discovery

// C20 engine: runs a list of steps (message, sending peer, "pipelined")
// against a real gossiper and checks every step against a reference model of
// the statement:
//
//   - a channel announcement enters the graph only if it is authentic (four
//     signatures by the named keys over its own digest, our chain) and the
//     funding output exists, is unspent and pays to the script of its bitcoin
//     keys;
//   - a channel update is applied only if it is authentic for the direction
//     it names (signed by that node of a *known* channel, consistent fields)
//     and strictly newer than the stored one;
//   - a node announcement only if signed by the node, strictly newer, and the
//     node has a known channel;
//   - everything else leaves channels / policies / nodes untouched, and only
//     applied messages are ever handed to Broadcast.
//
// The model is written from the statement; it shares no code with lnd's
// validation. Where lnd is allowed to *drop* an acceptable message for
// reasons outside the statement (reject cache after an earlier error from the
// same peer for the same scid, keep-alive suppression) the model accepts
// both outcomes and labels the case.

import (
	"bytes"
	"context"
	"fmt"
	"sort"
	"strings"
	"time"

	"github.com/btcsuite/btcd/wire/v2"
	"github.com/lightningnetwork/lnd/graph/db/models"
	"github.com/lightningnetwork/lnd/lnwire"
	"github.com/lightningnetwork/lnd/routing/route"
)

const c20Deadline = 30 * time.Second

type c20Step struct {
	msg       *c20Msg
	peer      int  // index into the universe's peers, -1: a fresh peer
	pipelined bool // send the next step without waiting for this result

	// block > 0: not a message but a new chain tip at this height (msg is
	// nil): the chain shows its blocks up to it and the gossiper gets the
	// block epoch. Only used by the future-height histories
	// (c20_future_test.go).
	block uint32
}

type c20Item struct {
	step   c20Step
	msg    *c20Msg
	parsed lnwire.Message
	peer   *mockPeer
	p      *c20Pending
	out    c20Outcome
	err    error

	inBatch  bool // evaluated as part of a premature-update replay
	behindCA bool // sent right behind a channel announcement, not awaited

	// future-height stash (c20_future_test.go): the gossiper's private copy
	// of the message that waits for block futHeight.
	future    *networkMsg
	futHeight uint32
}

func (it *c20Item) describe() string {
	o := [...]string{"done", "stashed", "timeout"}[it.out]

	return fmt.Sprintf("%s[%s scid=%d dir=%d ts=%d peer=%x] -> %s err=%v",
		it.msg.kind, it.msg.why, it.msg.scid.ToUint64(), it.msg.dir,
		it.msg.ts, it.peer.pk.SerializeCompressed()[1:4], o, it.err)
}

type c20Fatal interface {
	Fatalf(format string, args ...any)
}

type c20Run struct {
	t   c20Fatal
	u   *c20Universe
	ctx *c20Ctx

	cctx   context.Context
	cancel context.CancelFunc

	// model
	chans   map[uint64]*c20Chan
	pol     map[uint64]*[2]*c20Msg
	nodes   map[[33]byte]*c20Msg
	pending map[uint64][]*c20Item
	taint   map[string]bool
	mayCast map[string][]byte // identity -> wire bytes of applied messages

	peers      map[int]*mockPeer
	nFreshPeer int

	before *c20Snap // snapshot taken before the current group

	// future-height mode: best is the model's chain tip, stash the
	// messages the gossiper keeps for a later block.
	futureOn bool
	best     uint32
	stash    []*c20Item

	labels       map[string]int
	inconclusive string
	onItem       func(it *c20Item, changedGraph bool)
	onKnown      func(key string)
}

func c20NewRun(t c20Fatal, u *c20Universe, ctx *c20Ctx) *c20Run {
	cctx, cancel := context.WithCancel(context.Background())

	return &c20Run{
		t: t, u: u, ctx: ctx, cctx: cctx, cancel: cancel,
		chans:   make(map[uint64]*c20Chan),
		pol:     make(map[uint64]*[2]*c20Msg),
		nodes:   make(map[[33]byte]*c20Msg),
		pending: make(map[uint64][]*c20Item),
		taint:   make(map[string]bool),
		mayCast: make(map[string][]byte),
		peers:   make(map[int]*mockPeer),
		labels:  make(map[string]int),
	}
}

func (r *c20Run) label(l string) { r.labels[l]++ }

// applied records that m went into the graph and may therefore be relayed;
// the wire form kept is that of the authentic message of that identity.
func (r *c20Run) applied(m *c20Msg) {
	w := m.wire
	if a, ok := r.u.byKey[m.key]; ok {
		w = a.wire
	}
	r.mayCast[m.key] = w
}

func (r *c20Run) peerFor(idx int) *mockPeer {
	if idx >= 0 {
		if p, ok := r.peers[idx]; ok {
			return p
		}
		p := &mockPeer{pk: r.u.peers[idx].PubKey()}
		r.peers[idx] = p

		return p
	}
	r.nFreshPeer++
	k := c20PrivFrom(r.u.seed, fmt.Sprintf("freshpeer/%d", r.nFreshPeer))

	return &mockPeer{pk: k.PubKey()}
}

func c20TaintKey(scid uint64, peer *mockPeer) string {
	return fmt.Sprintf("%d|%x", scid, peer.pk.SerializeCompressed())
}

func (r *c20Run) fail(group []*c20Item, format string, args ...any) {
	var b strings.Builder
	fmt.Fprintf(&b, format, args...)
	b.WriteString("\n  steps of this group:")
	for _, it := range group {
		b.WriteString("\n    " + it.describe())
		fmt.Fprintf(&b, "\n      wire=%x", it.msg.wire)
	}
	r.t.Fatalf("C20: %s", b.String())
}

// canPipeline: the second message may be sent without waiting for the first
// (a channel announcement) only if its processing order is decided by the
// validation barrier or by the per-channel mutex, i.e. it is a channel update
// or a node announcement of one of the announcement's nodes. (An unrelated
// node announcement would run concurrently with AddEdge, and the fixture's
// mockGraphSource.IsPublicNode iterates the channel map without its lock.)
func c20CanPipeline(a, b *c20Msg) bool {
	if a.kind != c20CA {
		return false
	}
	switch b.kind {
	case c20CU:
		return true
	case c20NA:
		return b.node == a.ids[0] || b.node == a.ids[1]
	}

	return false
}

// exec runs the steps. It returns false if the run had to be abandoned
// because a result did not arrive within the (generous) deadline.
func (r *c20Run) exec(steps []c20Step) bool {
	for i := 0; i < len(steps); {
		if steps[i].block > 0 {
			if !r.execBlock(steps[i].block) {
				return false
			}
			i++

			continue
		}
		group := []c20Step{steps[i]}
		if steps[i].pipelined && i+1 < len(steps) &&
			steps[i+1].block == 0 &&
			c20CanPipeline(steps[i].msg, steps[i+1].msg) {

			group = append(group, steps[i+1])
			r.label("pipelined_pair")
		}
		if !r.execGroup(group) {
			return false
		}
		i += len(group)
	}

	return true
}

func (r *c20Run) execGroup(steps []c20Step) bool {
	before := r.ctx.graph.snap()
	r.before = before

	var items []*c20Item
	for _, s := range steps {
		parsed, err := s.msg.parse()
		if err != nil {
			r.t.Fatalf("C20 harness: step message does not parse: %v",
				err)
		}
		it := &c20Item{
			step: s, msg: s.msg, parsed: parsed,
			peer: r.peerFor(s.peer),
		}
		it.behindCA = len(items) > 0
		it.p = r.ctx.send(r.cctx, parsed, it.peer)
		items = append(items, it)
	}

	var released []*c20Item
	for _, it := range items {
		it.out, it.err = r.ctx.await(it.p, c20Deadline,
			it.msg.kind == c20CU)
		if it.out == c20TimedOut {
			r.inconclusive = "no result for " + it.describe()
			return false
		}
		if r.futureOn {
			r.noteFuture(it, items)
		}

		// A channel announcement that put a new channel into the graph
		// replays the premature updates parked for its scid; their
		// results are collected before the "after" snapshot.
		if it.msg.kind != c20CA {
			continue
		}
		scid := it.msg.scid.ToUint64()
		if _, had := before.infos[scid]; had {
			continue
		}
		if _, has := r.ctx.graph.info(scid); !has {
			continue
		}
		for _, pend := range r.pending[scid] {
			pend.out, pend.err = r.ctx.await(pend.p, c20Deadline,
				false)
			if pend.out == c20TimedOut {
				r.inconclusive = "no result for replayed " +
					pend.describe()
				return false
			}
			released = append(released, pend)
		}
	}
	after := r.ctx.graph.snap()

	changed := make(map[string]bool)
	for _, tok := range before.diff(after) {
		changed[tok] = true
	}
	explained := make(map[string]bool)

	all := append(append([]*c20Item(nil), items...), released...)
	for i, it := range items {
		if it.inBatch || it.future != nil {
			// (a message kept for a later block must not have
			// changed anything: nothing is marked as explained)
			continue
		}
		switch it.msg.kind {
		case c20CA:
			r.evalCA(it, items[i+1:], changed, explained, all)
		case c20CU:
			r.evalCU(it, changed, explained, all)
		case c20NA:
			r.evalNA(it, changed, explained, all)
		}
	}

	var left []string
	for tok := range changed {
		if !explained[tok] {
			left = append(left, tok)
		}
	}
	sort.Strings(left)
	if len(left) > 0 {
		r.fail(all, "graph changed although no authentic, fresh message "+
			"accounts for it: %v", left)
	}
	for zid := range after.zombies {
		if !before.zombies[zid] {
			r.label("zombie_marked")
		}
	}

	if r.onItem != nil {
		for _, it := range items {
			r.onItem(it, len(changed) > 0)
		}
	}

	return true
}

func (r *c20Run) recordErr(it *c20Item) {
	if it.out == c20Done && it.err != nil && it.msg.kind != c20NA {
		r.taint[c20TaintKey(it.msg.scid.ToUint64(), it.peer)] = true
	}
}

// ---------------------------------------------------------------------------
// channel announcements

func (r *c20Run) evalCA(it *c20Item, rest []*c20Item, changed,
	explained map[string]bool, all []*c20Item) {

	m := it.msg
	scid := m.scid.ToUint64()
	tok := fmt.Sprintf("chan:%d", scid)
	tainted := r.taint[c20TaintKey(scid, it.peer)]
	defer r.recordErr(it)

	if !m.authentic {
		r.label("ca_inauthentic")
		return
	}
	c := r.u.chanOf(m)
	if !c.fundable() {
		r.label("ca_funding_" + c.variant)
		return
	}
	if _, known := r.chans[scid]; known {
		r.label("ca_duplicate")
		return
	}
	if !changed[tok] {
		if tainted && it.err != nil {
			r.label("ca_valid_dropped_reject_cache")
			return
		}
		r.fail(all, "authentic channel announcement with a valid, "+
			"unspent funding output was not applied (err=%v)", it.err)
	}
	if it.err != nil {
		r.fail(all, "channel entered the graph but the result is an "+
			"error: %v", it.err)
	}
	explained[tok] = true
	// A real graph stores the two endpoints as shell nodes if it did not
	// know them yet.
	for _, pub := range c.nodePub {
		if _, had := r.before.nodes[route.Vertex(pub)]; !had {
			ntok := fmt.Sprintf("node:%x", pub)
			if changed[ntok] && !explained[ntok] {
				n, _ := r.ctx.graph.node(route.Vertex(pub))
				if len(n.AuthSigBytes) == 0 {
					explained[ntok] = true
				}
			}
		}
	}
	r.verifyInfo(it, c, all)
	r.chans[scid] = c
	r.applied(m)
	r.label("ca_applied")

	// Replay of parked updates (+ a pipelined update for this channel,
	// which runs concurrently with them).
	batch := append([]*c20Item(nil), r.pending[scid]...)
	for _, nx := range rest {
		if nx.msg.kind == c20CU && nx.msg.scid.ToUint64() == scid &&
			nx.out == c20Done {

			nx.inBatch = true
			batch = append(batch, nx)
		}
	}
	delete(r.pending, scid)
	if len(batch) > 0 {
		r.evalReplay(scid, batch, changed, explained, all)
	}
}

func (r *c20Run) verifyInfo(it *c20Item, c *c20Chan, all []*c20Item) {
	info, ok := r.ctx.graph.info(c.scid.ToUint64())
	if !ok {
		r.fail(all, "harness: channel vanished")
	}
	ann := it.parsed.(*lnwire.ChannelAnnouncement1)
	var problems []string
	chk := func(name string, good bool) {
		if !good {
			problems = append(problems, name)
		}
	}
	chk("NodeKey1", info.NodeKey1Bytes == route.Vertex(c.nodePub[0]))
	chk("NodeKey2", info.NodeKey2Bytes == route.Vertex(c.nodePub[1]))
	b1, b2 := c20Pub(c.btc[0]), c20Pub(c.btc[1])
	chk("BitcoinKey1",
		info.BitcoinKey1Bytes.UnwrapOr(route.Vertex{}) == route.Vertex(b1))
	chk("BitcoinKey2",
		info.BitcoinKey2Bytes.UnwrapOr(route.Vertex{}) == route.Vertex(b2))
	chk("Capacity", int64(info.Capacity) == c.capacity)
	chk("ChannelPoint", info.ChannelPoint == r.fundingPoint(c))
	chk("ChainHash", info.ChainHash == c20Mainnet)
	if info.AuthProof == nil {
		chk("AuthProof", false)
	} else {
		p := info.AuthProof
		chk("NodeSig1", bytes.Equal(p.NodeSig1Bytes.UnwrapOr(nil),
			ann.NodeSig1.ToSignatureBytes()))
		chk("NodeSig2", bytes.Equal(p.NodeSig2Bytes.UnwrapOr(nil),
			ann.NodeSig2.ToSignatureBytes()))
		chk("BitcoinSig1", bytes.Equal(p.BitcoinSig1Bytes.UnwrapOr(nil),
			ann.BitcoinSig1.ToSignatureBytes()))
		chk("BitcoinSig2", bytes.Equal(p.BitcoinSig2Bytes.UnwrapOr(nil),
			ann.BitcoinSig2.ToSignatureBytes()))
	}
	chk("Extra", bytes.Equal(info.ExtraOpaqueData, ann.ExtraOpaqueData))
	if len(problems) > 0 {
		r.fail(all, "stored channel differs from the announcement in %v",
			problems)
	}
}

func (r *c20Run) fundingPoint(c *c20Chan) wire.OutPoint {
	h, err := r.u.chain.GetBlockHash(int64(c.scid.BlockHeight))
	if err != nil {
		return wire.OutPoint{}
	}
	b, err := r.u.chain.GetBlock(h)
	if err != nil {
		return wire.OutPoint{}
	}

	return wire.OutPoint{
		Hash:  b.Transactions[c.scid.TxIndex].TxHash(),
		Index: uint32(c.scid.TxPosition),
	}
}

// ---------------------------------------------------------------------------
// channel updates

func (r *c20Run) policyMatches(it *c20Item, scid uint64,
	pol models.ChannelEdgePolicy) []string {

	u := it.parsed.(*lnwire.ChannelUpdate1)
	var problems []string
	chk := func(name string, good bool) {
		if !good {
			problems = append(problems, name)
		}
	}
	chk("ChannelID", pol.ChannelID == scid)
	chk("LastUpdate", pol.LastUpdate.Unix() == int64(u.Timestamp))
	chk("MessageFlags", pol.MessageFlags == u.MessageFlags)
	chk("ChannelFlags", pol.ChannelFlags == u.ChannelFlags)
	chk("TimeLockDelta", pol.TimeLockDelta == u.TimeLockDelta)
	chk("MinHTLC", pol.MinHTLC == u.HtlcMinimumMsat)
	chk("MaxHTLC", pol.MaxHTLC == u.HtlcMaximumMsat)
	chk("FeeBase", uint64(pol.FeeBaseMSat) == uint64(u.BaseFee))
	chk("FeeRate",
		uint64(pol.FeeProportionalMillionths) == uint64(u.FeeRate))
	chk("Signature",
		bytes.Equal(pol.SigBytes, u.Signature.ToSignatureBytes()))
	chk("Extra", bytes.Equal(pol.ExtraOpaqueData, u.ExtraOpaqueData))

	return problems
}

func (r *c20Run) evalCU(it *c20Item, changed, explained map[string]bool,
	all []*c20Item) {

	m := it.msg
	scid := m.scid.ToUint64()
	tok := fmt.Sprintf("pol:%d/%d", scid, m.dir)
	tainted := r.taint[c20TaintKey(scid, it.peer)]
	defer r.recordErr(it)

	if it.out == c20Stashed {
		r.pending[scid] = append(r.pending[scid], it)
		r.label("cu_parked_premature")
	}
	if !m.authentic {
		r.label("cu_inauthentic")
		return
	}
	if _, known := r.chans[scid]; !known {
		r.label("cu_valid_channel_unknown")
		return
	}
	if it.out == c20Stashed {
		r.fail(all, "authentic update for a channel that is in the "+
			"graph was parked as premature")
	}
	pols := r.pol[scid]
	if pols == nil {
		pols = &[2]*c20Msg{}
		r.pol[scid] = pols
	}
	cur := pols[m.dir]
	switch {
	case cur != nil && cur.ts == m.ts:
		if cur.key == m.key {
			r.label("cu_exact_duplicate")
		} else {
			r.label("cu_equal_timestamp_other_content")
		}

		return

	case cur != nil && cur.ts > m.ts:
		r.label("cu_older_timestamp")
		return
	}

	if !changed[tok] {
		switch {
		case tainted && it.err != nil:
			r.label("cu_valid_dropped_reject_cache")
		case cur != nil && cur.content == m.content:
			r.label("cu_keepalive_dropped")
		default:
			r.fail(all, "authentic, strictly newer update for a "+
				"known channel was not applied (err=%v)", it.err)
		}

		return
	}
	explained[tok] = true
	pol, _ := r.ctx.graph.policy(scid, m.dir)
	if p := r.policyMatches(it, scid, pol); len(p) > 0 {
		r.fail(all, "stored policy differs from the applied update "+
			"in %v", p)
	}
	pols[m.dir] = m
	r.applied(m)
	if cur == nil {
		r.label("cu_applied_first")
	} else {
		r.label("cu_applied_newer")
	}
}

// evalReplay checks the outcome of the concurrent replay of parked updates
// after their channel arrived. The replay order is the scheduler's, so per
// direction any authentic candidate may have been applied first; the final
// policy must be an authentic one, and the newest unless a keep-alive pair
// or a possibly reject-cached sender makes the order matter.
func (r *c20Run) evalReplay(scid uint64, batch []*c20Item, changed,
	explained map[string]bool, all []*c20Item) {

	r.label("replay_after_channel")
	suspect := make(map[string]bool)
	for _, it := range batch {
		k := c20TaintKey(scid, it.peer)
		if r.taint[k] || !it.msg.authentic {
			suspect[k] = true
		}
	}
	pols := r.pol[scid]
	if pols == nil {
		pols = &[2]*c20Msg{}
		r.pol[scid] = pols
	}
	for d := 0; d < 2; d++ {
		tok := fmt.Sprintf("pol:%d/%d", scid, d)
		var cands, certain []*c20Item
		for _, it := range batch {
			m := it.msg
			if m.kind != c20CU || !m.authentic || m.dir != d ||
				m.scid.ToUint64() != scid {

				continue
			}
			cands = append(cands, it)
			if !suspect[c20TaintKey(scid, it.peer)] {
				certain = append(certain, it)
			}
		}
		if !changed[tok] {
			if len(certain) > 0 {
				r.fail(all, "authentic premature update(s) for "+
					"direction %d were not applied after "+
					"their channel arrived", d)
			}

			continue
		}
		explained[tok] = true
		pol, _ := r.ctx.graph.policy(scid, d)
		var winner *c20Item
		for _, it := range cands {
			if len(r.policyMatches(it, scid, pol)) == 0 {
				winner = it
				break
			}
		}
		if winner == nil {
			r.fail(all, "after the replay the policy of direction "+
				"%d is not one of the authentic updates", d)
		}
		// strict only if the replay order cannot matter: every sender
		// is certainly not reject-cached and no two different
		// messages share their content (keep-alive pair).
		byContent := make(map[string]map[string]bool)
		keepAlivePair := false
		for _, it := range cands {
			ks := byContent[it.msg.content]
			if ks == nil {
				ks = make(map[string]bool)
				byContent[it.msg.content] = ks
			}
			ks[it.msg.key] = true
			if len(ks) > 1 {
				keepAlivePair = true
			}
		}
		strict := len(certain) == len(cands) && !keepAlivePair
		var maxTS uint32
		for _, it := range cands {
			if it.msg.ts > maxTS {
				maxTS = it.msg.ts
			}
		}
		if strict && winner.msg.ts != maxTS {
			r.fail(all, "after the replay direction %d holds "+
				"timestamp %d although an authentic update with "+
				"%d was replayed", d, winner.msg.ts, maxTS)
		}
		if len(cands) > 1 {
			r.label("replay_several_candidates")
		}
		pols[d] = winner.msg
		for _, it := range cands {
			r.applied(it.msg)
		}
		r.label("cu_applied_after_replay")
	}
	for _, it := range batch {
		r.recordErr(it)
	}
}

// ---------------------------------------------------------------------------
// node announcements

func (r *c20Run) evalNA(it *c20Item, changed, explained map[string]bool,
	all []*c20Item) {

	m := it.msg
	tok := fmt.Sprintf("node:%x", m.node)
	if !m.authentic {
		r.label("na_inauthentic")
		return
	}
	cur := r.nodes[m.node]
	hasChan := false
	for _, c := range r.chans {
		if c.nodePub[0] == m.node || c.nodePub[1] == m.node {
			hasChan = true
		}
	}
	switch {
	case cur != nil && cur.ts == m.ts:
		r.label("na_equal_timestamp")
		return
	case cur != nil && cur.ts > m.ts:
		r.label("na_older_timestamp")
		return
	case !hasChan:
		// cur == nil follows: a node is only ever stored once it has
		// a channel, and channels are never removed here.
		r.label("na_no_known_channel")
		return
	}
	if it.behindCA {
		// Did the node have a channel before this group? If not, only
		// the validation barrier makes the announcement wait for the
		// channel announcement sent right before it.
		hadChan := false
		for id, c := range r.chans {
			if _, was := r.before.infos[id]; was &&
				(c.nodePub[0] == m.node || c.nodePub[1] == m.node) {

				hadChan = true
			}
		}
		if !hadChan {
			r.label("na_pipelined_behind_its_first_channel")
		}
	}
	if !changed[tok] {
		r.fail(all, "authentic, strictly newer node announcement of a "+
			"node with a known channel was not applied (err=%v)",
			it.err)
	}
	explained[tok] = true
	n, cnt := r.ctx.graph.node(m.node)
	na := it.parsed.(*lnwire.NodeAnnouncement1)
	var problems []string
	chk := func(name string, good bool) {
		if !good {
			problems = append(problems, name)
		}
	}
	chk("single_entry", cnt == 1)
	chk("LastUpdate", n.LastUpdate.Unix() == int64(na.Timestamp))
	chk("Signature",
		bytes.Equal(n.AuthSigBytes, na.Signature.ToSignatureBytes()))
	chk("Alias", n.Alias.UnwrapOr("") == na.Alias.String())
	chk("Extra", bytes.Equal(n.ExtraOpaqueData, na.ExtraOpaqueData))
	chk("Addresses", len(n.Addresses) == len(na.Addresses))
	if len(problems) > 0 {
		r.fail(all, "stored node differs from the announcement in %v",
			problems)
	}
	r.nodes[m.node] = m
	r.applied(m)
	if cur == nil {
		r.label("na_applied_first")
	} else {
		r.label("na_applied_newer")
	}
}

// ---------------------------------------------------------------------------
// end of run

// finish flushes the broadcast batches with a sentinel channel and node
// announcement, then checks that only applied messages were relayed and that
// the graph equals the model.
func (r *c20Run) finish() bool {
	ok := r.exec([]c20Step{
		{msg: r.u.sentinel.ch.ann, peer: -1},
		{msg: r.u.sentinel.node, peer: -1},
	})
	if !ok {
		return false
	}

	// Positive wait (never asserted): the sentinel node announcement is
	// emitted last within its trickle batch.
	deadline := time.Now().Add(5 * time.Second)
	seen := false
	for !seen && time.Now().Before(deadline) {
		for _, b := range r.ctx.broadcasts() {
			if k, ok := c20KeyOf(b); ok && k == r.u.sentinel.node.key {
				seen = true
			}
		}
		if !seen {
			time.Sleep(200 * time.Microsecond)
		}
	}
	if !seen {
		r.label("broadcast_flush_not_observed")
	}
	time.Sleep(2 * c20Trickle)

	casts := r.ctx.broadcasts()
	relayedApplied := 0
	for _, b := range casts {
		k, isGossip := c20KeyOf(b)
		if !isGossip {
			r.t.Fatalf("C20: unexpected message type %T handed to "+
				"Broadcast", b)
		}
		// What a peer connection would put on the wire. (Encoding
		// after c20KeyOf: ChannelUpdate1.Encode rewrites the struct's
		// ExtraOpaqueData.)
		var buf bytes.Buffer
		if _, err := lnwire.WriteMessage(&buf, b, 0); err != nil {
			r.t.Fatalf("C20: relayed message does not encode: %v", err)
		}
		want, ok := r.mayCast[k]
		if !ok {
			r.t.Fatalf("C20: a message that was never applied to the "+
				"graph was relayed to peers: %T %x", b, buf.Bytes())
		}
		relayedApplied++
		if bytes.Equal(buf.Bytes(), want) {
			continue
		}
		// Candidate finding (reported, C10 territory): the re-encoding
		// of a channel_update drops unknown extension records, so the
		// relayed bytes no longer carry a valid signature. That input
		// class is excluded from the byte-level comparison.
		if _, isCU := b.(*lnwire.ChannelUpdate1); isCU &&
			c20HasUnknownExtra(want) {

			r.label("relay_reencode_drops_unknown_tlv")
			if r.onKnown != nil {
				r.onKnown("C20:relay-reencode-drops-unknown-tlv")
			}

			continue
		}
		r.t.Fatalf("C20: an applied message is relayed with different "+
			"bytes than it was received with:\n  applied %x\n  relayed %x",
			want, buf.Bytes())
	}
	if relayedApplied > 2 {
		r.label("relay_observed")
	}

	// graph == model
	snap := r.ctx.graph.snap()
	if len(snap.infos) != len(r.chans) {
		r.t.Fatalf("C20: graph has %d channels, model %d",
			len(snap.infos), len(r.chans))
	}
	for scid, pols := range r.pol {
		for d := 0; d < 2; d++ {
			_, has := r.ctx.graph.policy(scid, d)
			if has != (pols[d] != nil) {
				r.t.Fatalf("C20: policy %d/%d presence: graph %v "+
					"model %v", scid, d, has, pols[d] != nil)
			}
		}
	}
	announced := 0
	for _, v := range snap.nodes {
		if v != c20ShellNode {
			announced++
		}
	}
	if announced != len(r.nodes) {
		r.t.Fatalf("C20: graph has %d announced nodes, model %d",
			announced, len(r.nodes))
	}

	return true
}

func (r *c20Run) close() {
	r.cancel()
	r.ctx.stop()
}

// c20HasUnknownExtra reports whether the extension data of a channel_update
// (wire bytes) holds a record other than the inbound fee (type 55555).
func c20HasUnknownExtra(w []byte) bool {
	lay, ok := c20LayoutCU(w)
	if !ok {
		return false
	}
	e := w[lay["Extra"].off:]
	inbound := c20TLV(55555, make([]byte, 8))

	return !(len(e) == 0 || (len(e) == len(inbound) &&
		bytes.Equal(e[:4], inbound[:4])))
}
