//go:build verif

package discovery

// C20 end-to-end variant: the same histories and the same model as
// TestVerifC20Histories, but the gossiper writes to a real graph.Builder over
// a real graph database (kvdb test backend, bbolt unless a test_db_* tag says
// otherwise) instead of the fixture's mockGraphSource. Freshness is then
// decided by lnd's own IsStaleEdgePolicy / IsStaleNode / UpdateEdge / AddNode
// and the stored state is read back from the database.

import (
	"context"
	"os"
	"testing"
	"time"

	"github.com/btcsuite/btcd/chainhash/v2"
	"github.com/lightningnetwork/lnd/chainntnfs"
	"github.com/lightningnetwork/lnd/graph"
	graphdb "github.com/lightningnetwork/lnd/graph/db"
	"github.com/lightningnetwork/lnd/graph/db/models"
	"github.com/lightningnetwork/lnd/kvdb"
	"github.com/lightningnetwork/lnd/lntest/mock"
	"github.com/lightningnetwork/lnd/lnwire"
	"github.com/lightningnetwork/lnd/routing/chainview"
	"github.com/lightningnetwork/lnd/routing/route"
)

// c20ChainView is an inert FilteredChainView: no block ever connects or
// disconnects during a history.
type c20ChainView struct {
	newBlocks   chan *chainview.FilteredBlock
	staleBlocks chan *chainview.FilteredBlock
}

var _ chainview.FilteredChainView = (*c20ChainView)(nil)

func (v *c20ChainView) FilteredBlocks() <-chan *chainview.FilteredBlock {
	return v.newBlocks
}

func (v *c20ChainView) DisconnectedBlocks() <-chan *chainview.FilteredBlock {
	return v.staleBlocks
}

func (v *c20ChainView) UpdateFilter([]graphdb.EdgePoint, uint32) error {
	return nil
}

func (v *c20ChainView) FilterBlock(*chainhash.Hash) (*chainview.FilteredBlock,
	error) {

	return &chainview.FilteredBlock{}, nil
}

func (v *c20ChainView) Start() error { return nil }
func (v *c20ChainView) Stop() error  { return nil }

// c20RealGraph is a started graph.Builder plus read-back from its database.
type c20RealGraph struct {
	*graph.Builder

	cg      *graphdb.ChannelGraph
	vg      *graphdb.VersionedGraph
	dir     string
	cleanup func()
	self    route.Vertex
}

var _ c20GraphView = (*c20RealGraph)(nil)

func c20NewRealGraph(chain *c20Chain) (*c20RealGraph, error) {
	return c20NewRealGraphCfg(chain, nil)
}

// c20NewRealGraphCfg is c20NewRealGraph with a hook to adjust the Builder's
// configuration (strict zombie pruning in c20_zombie_test.go).
func c20NewRealGraphCfg(chain *c20Chain,
	tweak func(*graph.Config)) (*c20RealGraph, error) {

	dir, err := os.MkdirTemp("", "c20e2e")
	if err != nil {
		return nil, err
	}
	fail := func(err error) (*c20RealGraph, error) {
		_ = os.RemoveAll(dir)
		return nil, err
	}
	backend, cleanup, err := kvdb.GetTestBackend(dir, "cgr")
	if err != nil {
		return fail(err)
	}
	// The gossiper adds remote gossip with batch.LazyAdd(): the commit
	// waits for the batch interval (500ms by default).
	store, err := graphdb.NewKVStore(
		backend, graphdb.WithBatchCommitInterval(time.Millisecond),
	)
	if err != nil {
		cleanup()
		return fail(err)
	}
	cg, err := graphdb.NewChannelGraph(
		store, graphdb.WithSyncGraphCachePopulation(),
	)
	if err != nil {
		cleanup()
		return fail(err)
	}
	if err := cg.Start(); err != nil {
		cleanup()
		return fail(err)
	}

	g := &c20RealGraph{
		cg:      cg,
		vg:      graphdb.NewVersionedGraph(cg, lnwire.GossipVersion1),
		dir:     dir,
		cleanup: cleanup,
		self:    route.NewVertex(c20SelfPriv.PubKey()),
	}
	selfSig := c20SigOver(c20SelfPriv, []byte("c20 self"))
	ws, err := lnwire.NewSigFromWireECDSA(selfSig)
	if err != nil {
		g.shutdown()
		return nil, err
	}
	self := models.NewV1Node(g.self, &models.NodeV1Fields{
		LastUpdate:   time.Unix(1_000_000_000, 0),
		Alias:        "c20-self",
		AuthSigBytes: ws.ToSignatureBytes(),
		Features:     lnwire.NewRawFeatureVector(),
	})
	if err := cg.SetSourceNode(context.Background(), self); err != nil {
		g.shutdown()
		return nil, err
	}

	bcfg := &graph.Config{
		SelfNode: g.self,
		Graph:    cg,
		Chain:    chain,
		ChainView: &c20ChainView{
			newBlocks:   make(chan *chainview.FilteredBlock),
			staleBlocks: make(chan *chainview.FilteredBlock),
		},
		Notifier: &mock.ChainNotifier{
			EpochChan: make(chan *chainntnfs.BlockEpoch),
			SpendChan: make(chan *chainntnfs.SpendDetail),
			ConfChan:  make(chan *chainntnfs.TxConfirmation),
		},
		ChannelPruneExpiry: graph.DefaultChannelPruneExpiry,
		GraphPruneInterval: time.Hour * 2,
		IsAlias: func(lnwire.ShortChannelID) bool {
			return false
		},
	}
	if tweak != nil {
		tweak(bcfg)
	}
	b, err := graph.NewBuilder(bcfg)
	if err != nil {
		g.shutdown()
		return nil, err
	}
	if err := b.Start(); err != nil {
		g.shutdown()
		return nil, err
	}
	g.Builder = b

	return g, nil
}

func (g *c20RealGraph) shutdown() {
	if g.Builder != nil {
		_ = g.Builder.Stop()
	}
	_ = g.cg.Stop()
	g.cleanup()
	_ = os.RemoveAll(g.dir)
}

func (g *c20RealGraph) snap() *c20Snap {
	s := &c20Snap{
		infos:   make(map[uint64]string),
		edges:   make(map[uint64][2]string),
		nodes:   make(map[route.Vertex]string),
		zombies: make(map[uint64]bool),
	}
	ctx := context.Background()
	reset := func() {
		s.infos = make(map[uint64]string)
		s.edges = make(map[uint64][2]string)
	}
	dump := func(p *models.ChannelEdgePolicy) string {
		if p == nil {
			return ""
		}

		return c20Spew.Sdump(*p)
	}
	err := g.vg.ForEachChannel(ctx, func(info *models.ChannelEdgeInfo,
		p1, p2 *models.ChannelEdgePolicy) error {

		s.infos[info.ChannelID] = c20Spew.Sdump(*info)
		s.edges[info.ChannelID] = [2]string{dump(p1), dump(p2)}

		return nil
	}, reset)
	if err != nil {
		panic("c20: ForEachChannel: " + err.Error())
	}
	err = g.vg.ForEachNode(ctx, func(n *models.Node) error {
		switch {
		case n.PubKeyBytes == g.self:
		case !n.HaveAnnouncement():
			s.nodes[n.PubKeyBytes] = c20ShellNode
		default:
			s.nodes[n.PubKeyBytes] = c20Spew.Sdump(*n)
		}

		return nil
	}, func() {
		s.nodes = make(map[route.Vertex]string)
	})
	if err != nil {
		panic("c20: ForEachNode: " + err.Error())
	}

	return s
}

func (g *c20RealGraph) info(scid uint64) (models.ChannelEdgeInfo, bool) {
	info, _, _, err := g.vg.FetchChannelEdgesByID(
		context.Background(), scid,
	)
	if err != nil || info == nil {
		return models.ChannelEdgeInfo{}, false
	}

	return *info, true
}

func (g *c20RealGraph) policy(scid uint64, dir int) (models.ChannelEdgePolicy,
	bool) {

	_, p1, p2, err := g.vg.FetchChannelEdgesByID(context.Background(), scid)
	if err != nil {
		return models.ChannelEdgePolicy{}, false
	}
	p := p1
	if dir == 1 {
		p = p2
	}
	if p == nil {
		return models.ChannelEdgePolicy{}, false
	}

	return *p, true
}

func (g *c20RealGraph) node(k route.Vertex) (models.Node, int) {
	n, err := g.vg.FetchNode(context.Background(), k)
	if err != nil || n == nil {
		return models.Node{}, 0
	}

	return *n, 1
}

func TestVerifC20EndToEnd(t *testing.T) {
	c20HistoriesTest(t, "TestVerifC20EndToEnd", true)
}
