//go:build verif

package discovery

// C20, zombie channels: the zombie index is part of the channel graph (see
// anchors.state of the property), and the only gossip that may change it is
// a channel_update that is signed by the node owning the direction it names
// (the statement's rule for every channel update), is fresh, and - under
// strict zombie pruning - comes from the node the documented rule of
// graphdb.makeZombiePubkeys lets resurrect the channel:
//
//	non-strict prune, or neither policy known   -> either node
//	policy 1 missing / the older one            -> only node 1
//	otherwise (policy 2 missing / older)        -> only node 2
//
// TestVerifC20ZombieGossip: a real AuthenticatedGossiper over a real
// graph.Builder (StrictZombiePruning drawn) and graph DB. Per case one
// channel is announced, gets a drawn policy situation (none / 1 only / 2 only
// / both with either one older / equal), is pruned exactly the way
// Builder.pruneZombieChans does it (DeleteChannelEdges(strict, markZombie=
// true) + PruneGraphNodes), and then a generated history of channel_updates
// (direction 0/1 x signed by node 1 / node 2 / a stranger x fresh / older than
// the zombie horizon) and re-announcements is delivered. After every message
// the zombie index entry and the live graph are compared with a reference
// model; parked updates are followed through the re-announcement and their
// replay. A second prune of the resurrected channel may follow.
//
// Wall clock: lnd compares update timestamps with time.Now() (zombie horizon
// 14 days). Fresh timestamps are 1..25 hours old, stale ones >= 15 days, so no
// decision is close to the horizon.

import (
	"bytes"
	"context"
	"fmt"
	"sort"
	"strings"
	"testing"
	"time"

	"github.com/btcsuite/btcd/btcec/v2"
	"github.com/lightningnetwork/lnd/graph"
	"github.com/lightningnetwork/lnd/internal/verif/vstats"
	"github.com/lightningnetwork/lnd/lnwire"
	"pgregory.net/rapid"
)

type c20zgPhase int

const (
	c20zgLive c20zgPhase = iota
	c20zgZombie
	c20zgGone // resurrected (or never known): waits for its announcement
)

func (p c20zgPhase) String() string {
	return [...]string{"live", "zombie", "unknown (neither live nor zombie)"}[p]
}

// c20zgSent is one delivered message with what came back.
type c20zgSent struct {
	m      *c20Msg
	signer int // updates: 0 node1, 1 node2, 2 stranger
	fresh  bool
	p      *c20Pending
	out    c20Outcome
	err    error
	phase  c20zgPhase // model phase at delivery
	note   string     // not a message: a harness action
}

func (s *c20zgSent) String() string {
	if s.note != "" {
		return s.note
	}
	if s.err != nil {
		c := *s
		c.err = c20zgShortErr(s.err)
		s = &c
	}
	o := [...]string{"result", "parked (no result)", "timeout"}[s.out]
	switch s.m.kind {
	case c20CA:
		return fmt.Sprintf("channel_announcement to a %s channel -> %s "+
			"err=%v", s.phase, o, s.err)
	default:
		who := [...]string{"node1", "node2", "a stranger"}[s.signer]
		age := "stale"
		if s.fresh {
			age = "fresh"
		}

		return fmt.Sprintf("channel_update dir=%d signed by %s, %s "+
			"(ts=%d) to a %s channel -> %s err=%v", s.m.dir, who, age,
			s.m.ts, s.phase, o, s.err)
	}
}

// c20zgShortErr cuts lnd's error texts (they spew the whole message).
func c20zgShortErr(err error) error {
	if err == nil {
		return nil
	}
	msg := err.Error()
	if i := strings.Index(msg, "(*lnwire."); i > 0 {
		msg = msg[:i] + "..."
	}
	if len(msg) > 160 {
		msg = msg[:160] + "..."
	}

	return fmt.Errorf("%s", msg)
}

var c20zgBlank [33]byte

// c20zgRuleKeys: the documented rule (see file comment), ts == 0 for an
// unknown policy.
func c20zgRuleKeys(strict bool, k1, k2 [33]byte, ts1, ts2 uint32) ([33]byte,
	[33]byte) {

	switch {
	case !strict:
		return k1, k2
	case ts1 == 0 && ts2 == 0:
		return k1, k2
	case ts1 == 0:
		return k1, c20zgBlank
	case ts2 == 0:
		return c20zgBlank, k2
	case ts1 < ts2:
		return k1, c20zgBlank
	default:
		return c20zgBlank, k2
	}
}

func c20zgClass(ts1, ts2 uint32) string {
	switch {
	case ts1 == 0 && ts2 == 0:
		return "pol_none"
	case ts1 == 0:
		return "pol_2_only"
	case ts2 == 0:
		return "pol_1_only"
	case ts1 < ts2:
		return "pol_both_1_older"
	case ts1 > ts2:
		return "pol_both_2_older"
	default:
		return "pol_both_equal"
	}
}

func TestVerifC20ZombieGossip(t *testing.T) {
	st := vstats.New("TestVerifC20ZombieGossip")
	defer st.Flush()
	wps := c20WPS(t)
	bg := context.Background()

	rapid.Check(t, func(rt *rapid.T) {
		u := c20DrawUniverse(rt, 1, true, false)
		c := u.chans[0]
		scid := c.scid.ToUint64()
		strict := rapid.Bool().Draw(rt, "strict")
		now := uint32(time.Now().Unix())

		rg, err := c20NewRealGraphCfg(u.chain, func(cfg *graph.Config) {
			cfg.StrictZombiePruning = strict
		})
		if err != nil {
			rt.Fatalf("harness: real graph: %v", err)
		}
		ctx, err := c20NewCtx(t, wps, u.chain, u.best, rg)
		if err != nil {
			rg.shutdown()
			rt.Fatalf("harness: gossiper start: %v", err)
		}
		cctx, cancel := context.WithCancel(bg)
		defer func() {
			cancel()
			ctx.stop()
		}()

		labels := map[string]bool{}
		if strict {
			labels["strict"] = true
		} else {
			labels["nonstrict"] = true
		}
		var (
			log        []*c20zgSent
			fpParts    = []any{u.seed, strict}
			nontrivial bool
			nPeer      int
			timedOut   bool
		)
		stranger := c20PrivFrom(u.seed, "zombie/stranger")
		signers := []*btcec.PrivateKey{
			c.nodePriv[0], c.nodePriv[1], stranger,
		}

		// model
		phase := c20zgGone
		var (
			zk      [2][33]byte
			pol     [2]*c20Msg
			parked  []*c20zgSent
			applied = map[string]bool{}
			keyDiff string
		)

		history := func() string {
			var b strings.Builder
			for i, s := range log {
				fmt.Fprintf(&b, "\n    %2d. %s", i+1, s)
			}

			return b.String()
		}
		fail := func(format string, args ...any) {
			rt.Fatalf("C20 zombie (strict=%v): %s\n  node1=%x\n  "+
				"node2=%x\n  history:%s", strict,
				fmt.Sprintf(format, args...), c.nodePub[0][:],
				c.nodePub[1][:], history())
		}
		keyName := func(k [33]byte) string {
			switch k {
			case c20zgBlank:
				return "blank"
			case c.nodePub[0]:
				return "node1"
			case c.nodePub[1]:
				return "node2"
			}

			return fmt.Sprintf("other:%x", k[:6])
		}

		zombieEntry := func() (bool, [33]byte, [33]byte) {
			z, k1, k2, err := rg.vg.IsZombieEdge(bg, scid)
			if err != nil {
				rt.Fatalf("harness: IsZombieEdge: %v", err)
			}

			return z, k1, k2
		}

		// deliver sends m from a fresh peer and waits for its fate.
		deliver := func(m *c20Msg, signer int, fresh bool) *c20zgSent {
			parsed, err := m.parse()
			if err != nil {
				rt.Fatalf("harness: message does not parse: %v", err)
			}
			nPeer++
			peer := &mockPeer{pk: c20PrivFrom(u.seed,
				fmt.Sprintf("zombie/peer/%d", nPeer)).PubKey()}
			s := &c20zgSent{m: m, signer: signer, fresh: fresh,
				phase: phase}
			s.p = ctx.send(cctx, parsed, peer)
			s.out, s.err = ctx.await(s.p, c20Deadline, m.kind == c20CU)
			log = append(log, s)
			if s.out == c20TimedOut {
				timedOut = true
			}

			return s
		}

		// checkPolicy compares the stored policy of a direction with the
		// update the model expects there (nil: none).
		checkPolicy := func(d int, want *c20Msg, when string) {
			got, ok := rg.policy(scid, d)
			switch {
			case want == nil && !ok:
				return
			case want == nil:
				fail("%s: direction %d has a policy (ts=%d) that no "+
					"authentic update accounts for", when, d,
					got.LastUpdate.Unix())
			case !ok:
				fail("%s: direction %d has no policy, the authentic "+
					"update ts=%d should be stored", when, d, want.ts)
			}
			parsed, _ := want.parse()
			w := parsed.(*lnwire.ChannelUpdate1)
			if got.LastUpdate.Unix() != int64(w.Timestamp) ||
				!bytes.Equal(got.SigBytes,
					w.Signature.ToSignatureBytes()) ||
				got.ChannelFlags != w.ChannelFlags ||
				uint64(got.FeeProportionalMillionths) !=
					uint64(w.FeeRate) ||
				uint64(got.FeeBaseMSat) != uint64(w.BaseFee) ||
				got.TimeLockDelta != w.TimeLockDelta ||
				got.MinHTLC != w.HtlcMinimumMsat ||
				got.MaxHTLC != w.HtlcMaximumMsat {

				fail("%s: direction %d stores ts=%d sig=%x.., want "+
					"the update ts=%d sig=%x..", when, d,
					got.LastUpdate.Unix(), got.SigBytes[:6],
					w.Timestamp, w.Signature.ToSignatureBytes()[:6])
			}
		}

		// checkState compares zombie entry and live channel with the
		// model.
		checkState := func(when string) {
			z, k1, k2 := zombieEntry()
			if z != (phase == c20zgZombie) {
				fail("%s: IsZombieEdge=%v but the channel should be "+
					"%s", when, z, phase)
			}
			if z && (k1 != zk[0] || k2 != zk[1]) && keyDiff == "" {
				keyDiff = fmt.Sprintf("%s: zombie index stores "+
					"(%s, %s), the documented rule gives (%s, %s)",
					when, keyName(k1), keyName(k2), keyName(zk[0]),
					keyName(zk[1]))
			}
			_, has := rg.info(scid)
			if has != (phase == c20zgLive) {
				fail("%s: channel in the live graph=%v but should "+
					"be %s", when, has, phase)
			}
			if phase == c20zgLive {
				for d := 0; d < 2; d++ {
					checkPolicy(d, pol[d], when)
				}
			}
		}

		// -----------------------------------------------------------
		// distinct timestamps
		nSteps := rapid.IntRange(3, 9).Draw(rt, "nSteps")
		slots := rapid.SliceOfNDistinct(rapid.IntRange(0, 23), nSteps,
			nSteps, rapid.ID[int]).Draw(rt, "slots")
		tsFor := func(i int, fresh bool) uint32 {
			if fresh {
				return now - 3600 - uint32(slots[i])*3600
			}

			return now - 15*86400 - uint32(slots[i])*86400
		}
		nMade := 0
		mkCU := func(l string, d, signer int, ts uint32) *c20Msg {
			f := c20DrawUpdFields(rt, c.capacity, d, ts, l)
			// distinct content: never a keep-alive of another one
			nMade++
			f.feeRate = uint32(10_000 + nMade)
			f.extra = nil
			m := c20MakeCU(c.scid, f, signers[signer])
			if ok, why := m.fill(); !ok {
				rt.Fatalf("harness: update does not parse: %s", why)
			}
			m.authentic = signer == d

			return m
		}

		// announce delivers the channel announcement to a channel that
		// is neither live nor a zombie, follows the replay of parked
		// updates and moves the model to live.
		announce := func(when string) bool {
			s := deliver(c.ann, -1, false)
			if timedOut {
				return false
			}
			if _, has := rg.info(scid); !has {
				fail("%s: authentic announcement of a channel that "+
					"is neither known nor a zombie was not applied "+
					"(%v)", when, c20zgShortErr(s.err))
			}
			applied[c.ann.key] = true
			for _, pk := range parked {
				pk.out, pk.err = ctx.await(pk.p, c20Deadline, false)
				if pk.out == c20TimedOut {
					timedOut = true
					return false
				}
			}
			phase = c20zgLive
			pol = [2]*c20Msg{}
			for _, pk := range parked {
				if !pk.m.authentic {
					continue
				}
				d := pk.m.dir
				if pol[d] == nil || pol[d].ts < pk.m.ts {
					pol[d] = pk.m
				}
				labels["replay_authentic_parked"] = true
			}
			for d := 0; d < 2; d++ {
				if pol[d] != nil {
					applied[pol[d].key] = true
				}
			}
			// any authentic parked update may have been applied
			// before a newer one replaced it
			for _, pk := range parked {
				if pk.m.authentic {
					applied[pk.m.key] = true
				}
			}
			if len(parked) > 0 {
				labels["reannounced_with_parked_updates"] = true
			}
			parked = nil
			checkState(when)

			return true
		}

		// -----------------------------------------------------------
		// set-up: announce, policies, prune
		// One case in ten: the scid was never in the graph, it was put
		// into the zombie index with two blank keys (what the gossiper
		// does through Builder.MarkZombieEdge when the funding output of
		// an announcement does not validate): nobody may resurrect it.
		failedValidation := rapid.IntRange(0, 9).Draw(rt, "failedVal") == 0
		if !failedValidation && !announce("set-up announcement") {
			st.Count("inconclusive", 1)
			return
		}
		var oldTS [2]uint32
		switch k := rapid.IntRange(0, 11).Draw(rt, "class"); {
		case k == 0 || failedValidation:
		case k <= 2:
			oldTS[0] = u.baseTS + 5
		case k <= 4:
			oldTS[1] = u.baseTS + 5
		case k <= 7:
			oldTS = [2]uint32{u.baseTS + 5, u.baseTS + 9}
		case k <= 10:
			oldTS = [2]uint32{u.baseTS + 9, u.baseTS + 5}
		default:
			oldTS = [2]uint32{u.baseTS + 7, u.baseTS + 7}
		}
		for d := 0; d < 2; d++ {
			if oldTS[d] == 0 {
				continue
			}
			m := mkCU(fmt.Sprintf("old%d", d), d, d, oldTS[d])
			s := deliver(m, d, false)
			if timedOut {
				st.Count("inconclusive", 1)
				return
			}
			if s.out != c20Done || s.err != nil {
				fail("set-up: authentic first update of direction %d "+
					"not applied", d)
			}
			pol[d] = m
			applied[m.key] = true
		}
		checkState("set-up")
		fpParts = append(fpParts, oldTS[0], oldTS[1])

		prune := func(when string) {
			var ts [2]uint32
			for d := 0; d < 2; d++ {
				if pol[d] != nil {
					ts[d] = pol[d].ts
				}
			}
			class := c20zgClass(ts[0], ts[1])
			// What Builder.pruneZombieChans does with a channel it
			// found to be a zombie.
			err := rg.vg.DeleteChannelEdges(bg, strict, true, scid)
			if err != nil {
				rt.Fatalf("harness: DeleteChannelEdges: %v", err)
			}
			_ = rg.cg.PruneGraphNodes(bg)
			phase = c20zgZombie
			zk[0], zk[1] = c20zgRuleKeys(strict, c.nodePub[0],
				c.nodePub[1], ts[0], ts[1])
			pol = [2]*c20Msg{}
			mode := "nonstrict"
			if strict {
				mode = "strict"
			}
			labels["prune_"+mode+"/"+class] = true
			labels[fmt.Sprintf("prune_%s_may_resurrect/node1=%v,"+
				"node2=%v", mode, zk[0] != c20zgBlank,
				zk[1] != c20zgBlank)] = true
			fpParts = append(fpParts, "P", class)
			log = append(log, &c20zgSent{note: fmt.Sprintf("-- zombie "+
				"prune: DeleteChannelEdges(strict=%v, markZombie=true)"+
				" of the channel with %s (ts1=%d ts2=%d)", strict,
				class, ts[0], ts[1])})
			checkState(when)
		}
		if failedValidation {
			if err := rg.MarkZombieEdge(scid); err != nil {
				rt.Fatalf("harness: MarkZombieEdge: %v", err)
			}
			phase = c20zgZombie
			zk = [2][33]byte{}
			labels["marked_zombie_blank_keys_no_prune"] = true
			fpParts = append(fpParts, "MZ")
			log = append(log, &c20zgSent{note: "-- Builder." +
				"MarkZombieEdge (blank, blank) of the unknown scid"})
			checkState("after MarkZombieEdge")
		} else {
			prune("after the zombie prune")
		}

		// -----------------------------------------------------------
		// history
		for i := 0; i < nSteps; i++ {
			l := fmt.Sprintf("s%d", i)
			before := rg.snap()
			k := rapid.IntRange(0, 99).Draw(rt, l+"k")

			switch {
			// re-announcement
			case k < 15 || (phase == c20zgGone && k < 40):
				fpParts = append(fpParts, "CA")
				if phase == c20zgGone {
					if !announce("re-announcement after the " +
						"resurrection") {

						st.Count("inconclusive", 1)
						return
					}
					labels["ca_after_resurrection_applied"] = true

					continue
				}
				s := deliver(c.ann, -1, false)
				if timedOut {
					st.Count("inconclusive", 1)
					return
				}
				if s.out != c20Done {
					fail("announcement got no result")
				}
				if d := before.diff(rg.snap()); len(d) > 0 {
					fail("announcement of a %s channel changed the "+
						"graph: %v", phase, d)
				}
				labels["ca_for_"+phase.String()+"_ignored"] = true
				checkState("after an announcement for a " +
					phase.String() + " channel")

			// second prune of a resurrected, re-announced channel
			case k < 25 && phase == c20zgLive:
				labels["second_prune"] = true
				prune("after another zombie prune")

			// channel update
			default:
				d := rapid.IntRange(0, 1).Draw(rt, l+"d")
				signer := d
				switch sk := rapid.IntRange(0, 9).Draw(rt, l+"who"); {
				case sk < 4:
				case sk < 8:
					signer = 1 - d
				default:
					signer = 2
				}
				fresh := rapid.IntRange(0, 4).Draw(rt, l+"fresh") > 0
				ts := tsFor(i, fresh)
				m := mkCU(l, d, signer, ts)
				fpParts = append(fpParts, "CU", d, signer, fresh,
					slots[i])
				who := "other_channel_node"
				switch signer {
				case d:
					who = "owner"
				case 2:
					who = "stranger"
				}
				age := "stale"
				if fresh {
					age = "fresh"
				}

				s := deliver(m, signer, fresh)
				if timedOut {
					st.Count("inconclusive", 1)
					return
				}
				after := rg.snap()
				diff := before.diff(after)
				z, _, _ := zombieEntry()

				switch phase {
				case c20zgZombie:
					cls := fmt.Sprintf("zombie_cu/dir%d/%s/%s", d, who,
						age)
					labels[cls] = true
					if len(diff) > 0 {
						fail("an update for a zombie channel "+
							"changed the live graph: %v", diff)
					}
					allowed := zk[d] != c20zgBlank
					switch {
					case !fresh:
						if !z {
							fail("an update older than the " +
								"zombie horizon removed the " +
								"channel from the zombie index")
						}
						if s.out == c20Stashed {
							parked = append(parked, s)
						}
						labels["zombie_cu_stale_ignored"] = true

					case !z && signer != d:
						fail("the channel left the zombie index "+
							"through a channel_update for "+
							"direction %d that is NOT signed by "+
							"the node owning that direction "+
							"(node%d) but by %s", d, d+1,
							[...]string{"node1", "node2",
								"a stranger"}[signer])

					case !z && !allowed:
						fail("strictly pruned channel (index "+
							"should hold (%s, %s)) was "+
							"resurrected by node%d, which the "+
							"documented rule does not allow to "+
							"resurrect it", keyName(zk[0]),
							keyName(zk[1]), d+1)

					case z && signer == d && allowed:
						fail("fresh update for direction %d, "+
							"signed by its owner node%d whom the "+
							"documented rule (index should hold "+
							"(%s, %s)) allows to resurrect the "+
							"channel, did not resurrect it: %v",
							d, d+1, keyName(zk[0]),
							keyName(zk[1]), c20zgShortErr(s.err))

					case !z:
						// resurrected by the right node
						phase = c20zgGone
						zk = [2][33]byte{}
						if s.out == c20Stashed {
							parked = append(parked, s)
						}
						labels["zombie_cu_resurrected"] = true
						labels[fmt.Sprintf("resurrected_by_node%d",
							d+1)] = true

					default:
						// Stays a zombie, as it must. (Whether
						// lnd answers with an error or parks
						// the update is not part of the
						// statement; a parked one is followed
						// through a later replay.)
						if s.out == c20Stashed {
							parked = append(parked, s)
						}
						nontrivial = true
						switch {
						case signer != d:
							labels["zombie_cu_rejected_wrong_"+
								"signer"] = true
						case zk[1-d] == c20zgBlank:
							labels["zombie_cu_rejected_nobody_"+
								"may_resurrect"] = true
						default:
							labels["zombie_cu_rejected_by_"+
								"strict_rule"] = true
						}
					}

				case c20zgGone:
					labels["gone_cu/"+who+"/"+age] = true
					if len(diff) > 0 || z {
						fail("an update for a channel that is "+
							"neither known nor a zombie changed "+
							"the graph: %v zombie=%v", diff, z)
					}
					if s.out == c20Stashed {
						parked = append(parked, s)
					}

				case c20zgLive:
					labels["live_cu/"+who+"/"+age] = true
					if z {
						fail("a live channel is in the zombie " +
							"index")
					}
					cur := pol[d]
					if m.authentic && (cur == nil || cur.ts < ts) {
						if s.out != c20Done || s.err != nil {
							fail("authentic newer update for "+
								"the re-announced channel not "+
								"applied: %v", c20zgShortErr(s.err))
						}
						pol[d] = m
						applied[m.key] = true
						labels["live_cu_applied"] = true
					}
					want := fmt.Sprintf("pol:%d/%d", scid, d)
					for _, tok := range diff {
						if tok != want || pol[d] != m {
							fail("update changed %v", diff)
						}
					}
				}
				checkState("after the update")
			}
		}

		if keyDiff != "" {
			fail("%s", keyDiff)
		}

		// Relay: nothing but applied messages.
		time.Sleep(4 * c20Trickle)
		for _, b := range ctx.broadcasts() {
			key, ok := c20KeyOf(b)
			if !ok || !applied[key] {
				fail("a message that was never applied to the graph "+
					"was relayed to peers: %T", b)
			}
		}

		ll := make([]string, 0, len(labels))
		for k := range labels {
			ll = append(ll, "zg:"+k)
		}
		sort.Strings(ll)
		var sample any
		if st.WantSample() {
			var desc []string
			for _, s := range log {
				desc = append(desc, s.String())
			}
			sample = map[string]any{"seed": u.seed, "strict": strict,
				"history": desc}
		}
		st.Case(vstats.FP(fpParts...), nontrivial, ll, sample)
	})
}
