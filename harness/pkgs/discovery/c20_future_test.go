//go:build verif

package discovery

// C20, future-height ("premature") announcements: a channel_announcement or
// channel_update whose short channel id names a block above the gossiper's
// best height is kept (isPremature -> futureMsgs) and processed again when a
// block epoch reaches that height (syncBlockHeight -> resendFutureMessages).
//
// TestVerifC20Future: the universes, message classes (authentic, every
// single-field replacement, byte flips, correctly signed but excluded) and the
// reference model of TestVerifC20Histories, but the gossiper starts at a chain
// tip below some of the channels' funding blocks; the in-memory chain hides
// blocks above its tip, block steps move the tip and deliver the block epoch.
// Oracle:
//   - while a message waits for its block nothing changes (the ordinary
//     "every graph change is explained by an authentic, fresh message" check
//     runs on every step, and a kept message explains nothing): nothing is
//     applied before its funding block exists;
//   - an authentic message for a future block must be kept (lnd's documented
//     behaviour, isPremature) - found by pointer identity in futureMsgs;
//   - at a block step all kept messages with height <= tip are re-processed
//     in an unspecified order (lru.Cache.Range: "without any ordering"); the
//     results of the gossiper's private copies are awaited, then the batch is
//     evaluated with the same rules as a delivery after the block: authentic
//     announcements with a good funding output are applied, per direction the
//     newest authentic update wins (leniency only where the order can matter,
//     as for the premature-update replay), nothing else changes;
//   - relay and graph == model at the end as in Histories.
//
// TestVerifC20FutureBound: the documented bound ("maxFutureMessages tracks
// the max amount of future messages that we'll hold onto", 1000): after more
// than 1000 messages for future blocks the gossiper holds at most 1000, the
// evicted ones are simply dropped (never applied), and what was delivered
// last is still applied when its block arrives.

import (
	"context"
	"fmt"
	"sort"
	"strings"
	"testing"
	"time"

	"github.com/lightningnetwork/lnd/internal/verif/vstats"
	"github.com/lightningnetwork/lnd/lnwire"
	"pgregory.net/rapid"
)

// c20MaxFutureDocumented is the bound stated in gossiper.go's constant
// documentation (deliberately a literal, not the identifier).
const c20MaxFutureDocumented = 1000

// lookupFuture finds the gossiper's kept copy of a delivered message.
func (c *c20Ctx) lookupFuture(parsed lnwire.Message) (*networkMsg, uint32) {
	var (
		found  *networkMsg
		height uint32
	)
	c.g.futureMsgs.Range(func(_ uint64, cm *cachedFutureMsg) bool {
		if cm.msg != nil && cm.msg.msg == parsed {
			found, height = cm.msg, cm.height

			return false
		}

		return true
	})

	return found, height
}

// newTip delivers the block epoch for height h twice. syncBlockHeight
// handles one epoch completely (best height, resendFutureMessages, whose sends
// into the main loop are unbuffered) before it takes the next one from the
// unbuffered epoch channel, so when the second delivery returns the first has
// been fully handled: no timing involved.
func (c *c20Ctx) newTip(h uint32) {
	hash := c.chain.hashAt(h)
	c.notifier.notifyBlock(hash, h)
	c.notifier.notifyBlock(hash, h)
}

// noteFuture is called for every awaited item in future-height mode.
func (r *c20Run) noteFuture(it *c20Item, group []*c20Item) {
	if it.msg.kind == c20NA {
		return
	}
	cp, h := r.ctx.lookupFuture(it.parsed)
	if cp != nil {
		it.future, it.futHeight = cp, h
		r.stash = append(r.stash, it)
		cls := "inauthentic"
		if it.msg.authentic {
			cls = "authentic"
		}
		r.label(fmt.Sprintf("future_kept_%s_%s", it.msg.kind, cls))
		if h <= r.best {
			r.fail(group, "a message for height %d was kept as "+
				"premature although the tip is %d", h, r.best)
		}
		if it.err != nil {
			r.label("future_kept_with_error_result")
		}

		return
	}
	tainted := r.taint[c20TaintKey(it.msg.scid.ToUint64(), it.peer)]
	if it.msg.authentic && it.msg.scid.BlockHeight > r.best && tainted &&
		it.err != nil {

		// the sender was answered with an error for this scid before:
		// lnd may refuse it at the door (reject cache)
		r.label("future_valid_dropped_reject_cache")

		return
	}
	if it.msg.authentic && it.msg.scid.BlockHeight > r.best {
		if it.out == c20Stashed {
			// parked with the premature updates instead: followed
			// through the replay like any parked update
			r.label("future_cu_parked_not_kept")

			return
		}
		r.fail(group, "authentic %s for block %d (tip %d) was dropped: "+
			"neither kept for re-processing when that block arrives "+
			"(isPremature) nor parked", it.msg.kind,
			it.msg.scid.BlockHeight, r.best)
	}
	if it.msg.scid.BlockHeight > r.best {
		r.label("future_inauthentic_rejected_at_once")
	}
}

// pendingForCopy wires a c20Pending to the promise of the gossiper's private
// copy of a kept message. The parsed message is shared with the copy, so the
// premature-update cache is searched with the same pointer.
func (r *c20Run) pendingForCopy(it *c20Item) *c20Pending {
	p := &c20Pending{msg: it.parsed, done: make(chan error, 1)}
	fut := it.future.errPromise.Future()
	go func() {
		p.done <- AwaitGossipResult(r.cctx, fut)
	}()

	return p
}

// execBlock moves the chain tip to h, delivers the block epoch and evaluates
// the re-processing of the kept messages.
func (r *c20Run) execBlock(h uint32) bool {
	before := r.ctx.graph.snap()
	r.before = before

	r.ctx.chain.setBest(int32(h))
	r.ctx.newTip(h)
	r.best = h
	r.label("block_step")

	r.ctx.g.Lock()
	got := r.ctx.g.bestHeight
	r.ctx.g.Unlock()
	if got != h {
		r.t.Fatalf("C20: after the block epoch for height %d the "+
			"gossiper's best height is %d", h, got)
	}

	var rel, keep []*c20Item
	for _, it := range r.stash {
		if it.futHeight <= h {
			rel = append(rel, it)
		} else {
			keep = append(keep, it)
		}
	}
	r.stash = keep
	if len(rel) == 0 {
		if d := before.diff(r.ctx.graph.snap()); len(d) > 0 {
			r.t.Fatalf("C20: a block without kept messages changed "+
				"the graph: %v", d)
		}

		return true
	}
	r.label("block_releases_kept_messages")

	// newTip returned: whatever lnd re-processes at this block has been
	// handed to its main loop. A kept message for a height <= tip that is
	// still in the future cache was not re-processed at its block.
	for _, it := range rel {
		if cp, _ := r.ctx.lookupFuture(it.parsed); cp != nil {
			r.fail(rel, "block %d arrived but the message kept for "+
				"height %d was not re-processed: %s", h, it.futHeight,
				it.describe())
		}
		it.p = r.pendingForCopy(it)
	}
	// Announcements first, then updates (which may get parked as
	// premature updates if they ran before their announcement).
	for _, it := range rel {
		if it.msg.kind != c20CA {
			continue
		}
		it.out, it.err = r.ctx.await(it.p, c20Deadline, false)
		if it.out == c20TimedOut {
			r.inconclusive = "no result for re-processed " +
				it.describe()

			return false
		}
	}
	for _, it := range rel {
		if it.msg.kind != c20CU {
			continue
		}
		it.out, it.err = r.ctx.await(it.p, c20Deadline, true)
		if it.out == c20TimedOut {
			r.inconclusive = "no result for re-processed " +
				it.describe()

			return false
		}
	}
	// Channels that entered the graph with this block replay their parked
	// updates: those parked just now and those from earlier steps.
	var released []*c20Item
	newScid := make(map[uint64]bool)
	for _, it := range rel {
		if it.msg.kind != c20CA {
			continue
		}
		scid := it.msg.scid.ToUint64()
		if _, had := before.infos[scid]; had {
			continue
		}
		if _, has := r.ctx.graph.info(scid); has {
			newScid[scid] = true
		}
	}
	for _, it := range rel {
		if it.msg.kind != c20CU || it.out != c20Stashed ||
			!newScid[it.msg.scid.ToUint64()] {

			continue
		}
		it.out, it.err = r.ctx.await(it.p, c20Deadline, false)
		if it.out == c20TimedOut {
			r.inconclusive = "no result for replayed " + it.describe()
			return false
		}
	}
	for scid := range newScid {
		for _, pend := range r.pending[scid] {
			pend.out, pend.err = r.ctx.await(pend.p, c20Deadline,
				false)
			if pend.out == c20TimedOut {
				r.inconclusive = "no result for replayed " +
					pend.describe()

				return false
			}
			released = append(released, pend)
		}
	}
	after := r.ctx.graph.snap()

	changed := make(map[string]bool)
	for _, tok := range before.diff(after) {
		changed[tok] = true
	}
	explained := make(map[string]bool)
	all := append(append([]*c20Item(nil), rel...), released...)

	// The batch ran concurrently: an announcement is evaluated together
	// with every update of its channel in the batch. Of several
	// announcements of one channel the one without an error goes first.
	cas := make([]*c20Item, 0, len(rel))
	var cus []*c20Item
	for _, it := range rel {
		// The order within the batch is not specified: an error answer
		// to any message of a (scid, peer) pair may have preceded the
		// other messages of that pair (reject cache).
		r.recordErr(it)
	}
	for _, it := range rel {
		it.future = nil
		if it.msg.kind == c20CA {
			cas = append(cas, it)
		} else {
			cus = append(cus, it)
		}
	}
	sort.SliceStable(cas, func(i, j int) bool {
		return cas[i].err == nil && cas[j].err != nil
	})
	for _, it := range cas {
		wasKnown := r.chans[it.msg.scid.ToUint64()] != nil
		r.evalCA(it, cus, changed, explained, all)
		if !wasKnown && r.chans[it.msg.scid.ToUint64()] != nil {
			r.label("future_ca_applied_at_its_block")
		}
	}
	for _, it := range cus {
		if it.inBatch {
			r.label("future_cu_evaluated_with_its_channel")

			continue
		}
		r.evalCU(it, changed, explained, all)
	}

	var left []string
	for tok := range changed {
		if !explained[tok] {
			left = append(left, tok)
		}
	}
	sort.Strings(left)
	if len(left) > 0 {
		r.fail(all, "after block %d the graph changed although no "+
			"authentic, fresh message accounts for it: %v", h, left)
	}
	if r.onItem != nil {
		for _, it := range rel {
			r.onItem(it, len(changed) > 0)
		}
	}

	return true
}

// c20InsertBlocks picks the starting tip and puts block steps into a drawn
// history. The last block step (tip = u.best) comes after all messages, so
// that the closing sentinel announcement is mature.
func c20InsertBlocks(t *rapid.T, u *c20Universe, steps []c20Step) (uint32,
	[]c20Step) {

	hs := make([]int, 0, len(u.chans))
	for _, c := range u.chans {
		hs = append(hs, int(c.scid.BlockHeight))
	}
	sort.Ints(hs)
	// Start below the k-th lowest channel: k = 0 means every channel is in
	// the future.
	k := rapid.IntRange(0, len(hs)-1).Draw(t, "matureChans")
	lo := 0
	if k > 0 {
		lo = hs[k-1]
	}
	hi := hs[k] - 1
	if hi < lo {
		hi = lo
	}
	start := uint32(rapid.IntRange(lo, hi).Draw(t, "startTip"))

	nBlocks := rapid.IntRange(0, 3).Draw(t, "nBlocks")
	type ins struct {
		pos    int
		height uint32
	}
	var list []ins
	cur := start
	for i := 0; i < nBlocks && cur < u.best; i++ {
		l := fmt.Sprintf("blk%d", i)
		// Lean towards heights at which something becomes mature.
		var cand []int
		for _, h := range hs {
			if uint32(h) > cur {
				cand = append(cand, h)
			}
		}
		var h uint32
		if len(cand) > 0 && rapid.IntRange(0, 3).Draw(t, l+"exact") > 0 {
			h = uint32(c20Sample(t, cand, l+"h"))
		} else {
			h = uint32(rapid.IntRange(int(cur)+1, int(u.best)).
				Draw(t, l+"h"))
		}
		list = append(list, ins{height: h})
		cur = h
	}
	// positions, non-decreasing so that heights increase along the history
	pos := make([]int, len(list))
	for i := range pos {
		pos[i] = rapid.IntRange(0, len(steps)).Draw(t,
			fmt.Sprintf("blk%dpos", i))
	}
	sort.Ints(pos)
	for i := range list {
		list[i].pos = pos[i]
	}

	// (A block step right behind a "pipelined" announcement just means the
	// announcement is awaited on its own.)
	var out []c20Step
	li := 0
	for i := 0; i <= len(steps); i++ {
		for li < len(list) && list[li].pos == i {
			out = append(out, c20Step{block: list[li].height})
			li++
		}
		if i < len(steps) {
			out = append(out, steps[i])
		}
	}
	if cur < u.best {
		out = append(out, c20Step{block: u.best})
	}

	return start, out
}

// c20AliasTxIndex marks the short channel ids the gossiper is told to regard
// as aliases in TestVerifC20Future (IsAlias is a callback; lnd proper uses
// block heights from 16,000,000).
const c20AliasTxIndex = 0xA11A5

// c20AliasMsgs: what a remote peer must not get through with an alias scid. A
// channel_announcement with four valid signatures whose scid is an alias (lnd
// skips the funding validation for aliases, so only the "remote alias"
// rejection stands between it and the graph), and an update for an alias
// that maps to nothing.
func c20AliasMsgs(t *rapid.T, u *c20Universe, c *c20Chan) []*c20Msg {
	clone := *c
	clone.scid = lnwire.ShortChannelID{
		BlockHeight: c.scid.BlockHeight,
		TxIndex:     c20AliasTxIndex,
		TxPosition:  uint16(c.idx),
	}
	ca := u.makeCA(&clone, c20Features(), nil, c20Mainnet)
	ca.why = "sem:remote_alias_scid_announcement"
	f := c20DrawUpdFields(t, c.capacity, 0, u.baseTS+50,
		fmt.Sprintf("alias%d", c.idx))
	cu := c20MakeCU(clone.scid, f, c.nodePriv[0])
	cu.why = "sem:remote_alias_scid_update"
	out := []*c20Msg{ca, cu}
	for _, m := range out {
		if ok, why := m.fill(); !ok {
			panic("c20: alias message does not parse: " + why)
		}
		m.authentic = false
		m.ch = c.idx
	}

	return out
}

func c20FutureFP(u *c20Universe, start uint32, steps []c20Step) uint64 {
	parts := []any{u.seed, start}
	for _, s := range steps {
		if s.block > 0 {
			parts = append(parts, "B", s.block)

			continue
		}
		parts = append(parts, s.msg.wire, s.peer, s.pipelined)
	}

	return vstats.FP(parts...)
}

func TestVerifC20Future(t *testing.T) {
	st := vstats.New("TestVerifC20Future")
	defer st.Flush()
	wps := c20WPS(t)
	maxLen := vstats.EnvInt("VERIF_C20_MAXLEN", 40)

	rapid.Check(t, func(rt *rapid.T) {
		u := c20DrawUniverse(rt, 3, false, false)
		dropped := make(map[string]int)
		msgSteps := c20DrawHistory(rt, u, maxLen, dropped)
		// (3) a few messages with alias scids from remote peers
		nAlias := rapid.IntRange(0, 2).Draw(rt, "nAlias")
		for i := 0; i < nAlias; i++ {
			l := fmt.Sprintf("alias%d", i)
			c := c20Sample(rt, u.chans, l+"c")
			m := c20Sample(rt, c20AliasMsgs(rt, u, c), l+"m")
			pos := rapid.IntRange(0, len(msgSteps)).Draw(rt, l+"pos")
			msgSteps = append(msgSteps[:pos], append([]c20Step{
				{msg: m, peer: -1}}, msgSteps[pos:]...)...)
		}
		start, steps := c20InsertBlocks(rt, u, msgSteps)
		realGraph := rapid.IntRange(0, 3).Draw(rt, "realGraph") == 0

		u.chain.setBest(int32(start))
		var gv c20GraphView
		if realGraph {
			rg, err := c20NewRealGraph(u.chain)
			if err != nil {
				rt.Fatalf("harness: real graph: %v", err)
			}
			gv = rg
		}
		ctx, err := c20NewCtxOpts(t, wps, u.chain, start, gv, c20CtxOpts{
			isAlias: func(scid lnwire.ShortChannelID) bool {
				return scid.TxIndex == c20AliasTxIndex
			},
		})
		if err != nil {
			rt.Fatalf("harness: gossiper start: %v", err)
		}
		run := c20NewRun(rt, u, ctx)
		defer run.close()
		run.futureOn = true
		run.best = start
		run.onKnown = func(key string) {
			if vstats.IsKnown(key) {
				st.Known(key)
			}
			st.Count("excluded_known", 1)
		}
		classes := make(map[string]int)
		run.onItem = func(it *c20Item, _ bool) {
			cls := it.msg.why
			if i := strings.Index(cls, ":"); i > 0 {
				cls = cls[:i]
			}
			classes["sent_"+cls]++
			if strings.Contains(it.msg.why, "alias_scid") {
				run.label("sent_" + strings.TrimPrefix(it.msg.why,
					"sem:"))
			}
		}

		if !(run.exec(steps) && run.finish()) {
			st.Count("inconclusive", 1)
			return
		}
		for range run.stash {
			run.label("future_never_mined_still_kept")
		}
		if n := ctx.g.futureMsgs.Len(); n != len(run.stash) {
			rt.Fatalf("C20: the gossiper keeps %d future messages at "+
				"the end, the model %d", n, len(run.stash))
		}

		lb := run.labels
		nontrivial := lb["block_releases_kept_messages"] > 0
		labels := make([]string, 0, len(lb)+2)
		for _, k := range c20LabelList(lb) {
			labels = append(labels, "fut:"+k)
		}
		for k := range classes {
			labels = append(labels, "fut:"+k)
		}
		if realGraph {
			labels = append(labels, "fut:real_graph")
		} else {
			labels = append(labels, "fut:mock_graph")
		}
		var sample any
		if st.WantSample() {
			var desc []string
			for _, s := range steps {
				if s.block > 0 {
					desc = append(desc, fmt.Sprintf("block %d",
						s.block))

					continue
				}
				desc = append(desc, fmt.Sprintf("%s/%s@%d", s.msg.kind,
					s.msg.why, s.msg.scid.BlockHeight))
			}
			sample = map[string]any{"seed": u.seed, "startTip": start,
				"steps": desc}
		}
		st.Case(c20FutureFP(u, start, steps), nontrivial, labels, sample)
	})
}

// TestVerifC20FutureBound: more future messages than the documented bound.
func TestVerifC20FutureBound(t *testing.T) {
	st := vstats.New("TestVerifC20FutureBound")
	defer st.Flush()
	wps := c20WPS(t)

	rapid.Check(t, func(rt *rapid.T) {
		u := c20DrawUniverse(rt, 1, true, false)
		c := u.chans[0]
		h := c.scid.BlockHeight
		start := uint32(rapid.IntRange(0, int(h)-1).Draw(rt, "startTip"))
		u.chain.setBest(int32(start))
		ctx, err := c20NewCtx(t, wps, u.chain, start, nil)
		if err != nil {
			rt.Fatalf("harness: gossiper start: %v", err)
		}
		cctx, cancel := context.WithCancel(context.Background())
		defer func() {
			cancel()
			ctx.stop()
		}()

		nPeer := 0
		parkedOwn := make(map[lnwire.Message]bool)
		send := func(m *c20Msg) (lnwire.Message, bool) {
			parsed, err := m.parse()
			if err != nil {
				rt.Fatalf("harness: %v", err)
			}
			nPeer++
			peer := &mockPeer{pk: c20PrivFrom(u.seed,
				fmt.Sprintf("bound/peer/%d", nPeer%50)).PubKey()}
			p := ctx.send(cctx, parsed, peer)
			out, _ := ctx.await(p, c20Deadline, m.kind == c20CU)
			if out == c20Stashed {
				parkedOwn[parsed] = true
			}

			return parsed, out != c20TimedOut
		}

		// The channel's own messages go in first (they will be the
		// oldest, i.e. the ones evicted) or last (kept), or both.
		first := rapid.Bool().Draw(rt, "ownFirst")
		last := rapid.Bool().Draw(rt, "ownLast")
		own := []*c20Msg{c.ann, c.upds[0][0], c.upds[1][0]}
		var ownParsed []lnwire.Message
		sendOwn := func() bool {
			for _, m := range own {
				p, ok := send(m)
				if !ok {
					return false
				}
				ownParsed = append(ownParsed, p)
			}

			return true
		}
		before := ctx.graph.snap()
		if first && !sendOwn() {
			st.Count("inconclusive", 1)
			return
		}

		// Flood: updates for unknown channels at future heights, signed
		// by a stranger (whatever happens to them, they can never be
		// applied).
		extra := rapid.IntRange(1, 60).Draw(rt, "over")
		nFlood := c20MaxFutureDocumented + extra
		stranger := c20PrivFrom(u.seed, "bound/stranger")
		far := rapid.Bool().Draw(rt, "farFuture")
		var futs []*c20Pending
		for i := 0; i < nFlood; i++ {
			fh := h
			if far {
				fh = h + 100_000 + uint32(i)
			}
			f := &c20UpdFields{
				ts: u.baseTS + uint32(i), msgFlags: 1,
				chFlags: byte(i & 1), timelock: 40, minHtlc: 1,
				maxHtlc: 1000, feeRate: uint32(i), chain: c20Mainnet,
			}
			m := c20MakeCU(lnwire.ShortChannelID{
				BlockHeight: fh, TxIndex: 9_000 + uint32(i),
			}, f, stranger)
			parsed, err := m.parse()
			if err != nil {
				rt.Fatalf("harness: %v", err)
			}
			nPeer++
			peer := &mockPeer{pk: c20PrivFrom(u.seed,
				fmt.Sprintf("bound/peer/%d", nPeer%50)).PubKey()}
			// (returns when the gossiper's main loop has taken the
			// message; the results are collected below)
			futs = append(futs, ctx.send(cctx, parsed, peer))
			if n := ctx.g.futureMsgs.Len(); n >
				c20MaxFutureDocumented {

				rt.Fatalf("C20: the gossiper holds %d future "+
					"messages, documented maximum %d", n,
					c20MaxFutureDocumented)
			}
		}
		for _, p := range futs {
			if out, _ := ctx.await(p, c20Deadline, true); out ==
				c20TimedOut {

				st.Count("inconclusive", 1)
				return
			}
		}
		if last && !sendOwn() {
			st.Count("inconclusive", 1)
			return
		}
		if n := ctx.g.futureMsgs.Len(); n > c20MaxFutureDocumented {
			rt.Fatalf("C20: the gossiper holds %d future messages, "+
				"documented maximum %d", n, c20MaxFutureDocumented)
		}
		if d := before.diff(ctx.graph.snap()); len(d) > 0 {
			rt.Fatalf("C20: messages for future blocks changed the "+
				"graph: %v", d)
		}

		// Which of the channel's own messages are still kept?
		var keptCopies []*networkMsg
		keptOwnLast := 0
		for i, p := range ownParsed {
			cp, _ := ctx.lookupFuture(p)
			if cp == nil && !parkedOwn[p] {
				continue
			}
			if cp != nil {
				keptCopies = append(keptCopies, cp)
			}
			if !first || i >= len(own) {
				// kept for its block (or parked with the premature
				// updates, which serves the same purpose)
				keptOwnLast++
			}
		}
		if last && keptOwnLast < len(own) {
			rt.Fatalf("C20: the most recent future messages were "+
				"dropped (%d of %d kept) although the bound was "+
				"exceeded by older ones", keptOwnLast, len(own))
		}

		// The block arrives.
		ctx.chain.setBest(int32(u.best))
		ctx.newTip(u.best)
		for _, cp := range keptCopies {
			if again, _ := ctx.lookupFuture(cp.msg); again != nil {
				rt.Fatalf("C20: kept message for height <= tip was " +
					"not re-processed at the block")
			}
		}
		// Only the announcement's result is awaited: with a flood for the
		// same height the channel's own updates may get parked and then
		// pushed out of the (100 entry) premature-update cache by the
		// flood before the announcement is through - they get no result.
		for _, cp := range keptCopies {
			if _, ok := cp.msg.(*lnwire.ChannelAnnouncement1); !ok {
				continue
			}
			p := &c20Pending{msg: cp.msg, done: make(chan error, 1)}
			fut := cp.errPromise.Future()
			go func() { p.done <- AwaitGossipResult(cctx, fut) }()
			out, _ := ctx.await(p, c20Deadline, false)
			if out == c20TimedOut {
				st.Count("inconclusive", 1)
				return
			}
		}
		// Parked updates are replayed by the announcement; wait until
		// the policies are there (positive wait only).
		_, inGraph := ctx.graph.info(c.scid.ToUint64())
		wantIn := last
		caKept := false
		for _, cp := range keptCopies {
			if _, ok := cp.msg.(*lnwire.ChannelAnnouncement1); ok {
				caKept = true
			}
		}
		switch {
		case wantIn && !inGraph:
			rt.Fatalf("C20: announcement delivered after the flood " +
				"was not applied when its block arrived")
		case inGraph && !caKept:
			rt.Fatalf("C20: channel in the graph although its " +
				"announcement was evicted")
		}
		if inGraph {
			deadline := time.Now().Add(300 * time.Millisecond)
			for time.Now().Before(deadline) {
				_, ok0 := ctx.graph.policy(c.scid.ToUint64(), 0)
				_, ok1 := ctx.graph.policy(c.scid.ToUint64(), 1)
				if ok0 && ok1 {
					break
				}
				time.Sleep(200 * time.Microsecond)
			}
		}
		// Nothing but this channel (and its nodes) may be there.
		snap := ctx.graph.snap()
		for id := range snap.infos {
			if id != c.scid.ToUint64() {
				rt.Fatalf("C20: unknown channel %d in the graph", id)
			}
		}
		for id := range snap.edges {
			if id != c.scid.ToUint64() {
				rt.Fatalf("C20: policy for unknown channel %d", id)
			}
		}
		for _, b := range ctx.broadcasts() {
			k, _ := c20KeyOf(b)
			if k != c.ann.key && k != c.upds[0][0].key &&
				k != c.upds[1][0].key {

				rt.Fatalf("C20: %T relayed that was never applied", b)
			}
		}

		labels := []string{
			fmt.Sprintf("bound:own_first=%v", first),
			fmt.Sprintf("bound:own_last=%v", last),
			fmt.Sprintf("bound:far_future=%v", far),
			fmt.Sprintf("bound:channel_applied=%v", inGraph),
			fmt.Sprintf("bound:kept_own=%d", len(keptCopies)),
		}
		st.Case(vstats.FP(u.seed, start, first, last, far, extra), true,
			labels, map[string]any{"seed": u.seed, "flood": nFlood})
	})
}
