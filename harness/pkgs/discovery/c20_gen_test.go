//go:build verif

package discovery

// C20 generator: a universe of nodes, channels (with their on-chain funding
// situation) and validly signed gossip, plus single-field and single-byte
// corruptions of those messages. Everything is built and corrupted at the
// level of wire bytes and then parsed with lnwire.ReadMessage, exactly as a
// message arriving from a peer would be (ChannelUpdate1.Encode rewrites
// ExtraOpaqueData, so struct-level construction would not give byte control).
//
// Signatures are produced here with btcec directly (double-SHA256 of the
// struct's DataToSign), not with lnd's netann signing helpers.

import (
	"bytes"
	"crypto/sha256"
	"encoding/binary"
	"fmt"

	"github.com/btcsuite/btcd/btcec/v2"
	"github.com/btcsuite/btcd/btcec/v2/ecdsa"
	"github.com/btcsuite/btcd/chaincfg/v2"
	"github.com/btcsuite/btcd/chainhash/v2"
	"github.com/btcsuite/btcd/wire/v2"
	"github.com/lightningnetwork/lnd/fn/v2"
	"github.com/lightningnetwork/lnd/input"
	"github.com/lightningnetwork/lnd/lnwire"
	"pgregory.net/rapid"
)

type c20Kind int

const (
	c20CA c20Kind = iota
	c20CU
	c20NA
)

func (k c20Kind) String() string {
	return [...]string{"chan_ann", "chan_upd", "node_ann"}[k]
}

// c20Msg is one wire message of the universe.
type c20Msg struct {
	kind c20Kind
	wire []byte // including the 2-byte type
	key  string // identity: type, signature bytes, DataToSign of the parsed message

	// authentic: every signature is by the key the message names (for
	// updates: the node owning the stated direction of channel ch) over
	// the message's own digest, and the fields are consistent (chain hash,
	// non-zero timestamp, max_htlc flag and bounds). It says nothing about
	// the funding output or freshness.
	authentic bool
	why       string // class label

	// decoded attributes (of the parsed message, whatever its validity)
	scid lnwire.ShortChannelID
	dir  int
	ts   uint32
	node [33]byte    // node announcements
	ids  [2][33]byte // channel announcements: NodeID1/2

	// for authentic messages
	ch      int    // channel index
	nodeIdx int    // node index
	content string // updates: all signed fields except the timestamp
}

func (m *c20Msg) parse() (lnwire.Message, error) {
	return lnwire.ReadMessage(bytes.NewReader(m.wire), 0)
}

// c20KeyOf is the identity of a parsed gossip message: two messages with the
// same key carry the same signatures over the same signed content.
func c20KeyOf(msg lnwire.Message) (string, bool) {
	switch m := msg.(type) {
	case *lnwire.ChannelAnnouncement1:
		d, err := m.DataToSign()
		if err != nil {
			return "", false
		}

		return fmt.Sprintf("CA|%x|%x|%x|%x|%x", m.NodeSig1.RawBytes(),
			m.NodeSig2.RawBytes(), m.BitcoinSig1.RawBytes(),
			m.BitcoinSig2.RawBytes(), d), true

	case *lnwire.ChannelUpdate1:
		d, err := m.DataToSign()
		if err != nil {
			return "", false
		}

		return fmt.Sprintf("CU|%x|%x", m.Signature.RawBytes(), d), true

	case *lnwire.NodeAnnouncement1:
		d, err := m.DataToSign()
		if err != nil {
			return "", false
		}

		return fmt.Sprintf("NA|%x|%x", m.Signature.RawBytes(), d), true
	}

	return "", false
}

// fill sets key and the decoded attributes from the wire bytes. ok is false
// when the bytes do not parse as one of the three gossip messages.
func (m *c20Msg) fill() (ok bool, reason string) {
	msg, err := m.parse()
	if err != nil {
		return false, "undecodable"
	}
	key, isGossip := c20KeyOf(msg)
	if !isGossip {
		return false, "other_msg_type"
	}
	m.key = key
	switch x := msg.(type) {
	case *lnwire.ChannelAnnouncement1:
		m.kind = c20CA
		m.scid = x.ShortChannelID
		m.ids = [2][33]byte{x.NodeID1, x.NodeID2}
	case *lnwire.ChannelUpdate1:
		m.kind = c20CU
		m.scid = x.ShortChannelID
		m.dir = int(x.ChannelFlags & lnwire.ChanUpdateDirection)
		m.ts = x.Timestamp
	case *lnwire.NodeAnnouncement1:
		m.kind = c20NA
		m.node = x.NodeID
		m.ts = x.Timestamp
	}

	return true, ""
}

// ---------------------------------------------------------------------------
// keys and signatures

func c20PrivFrom(seed uint64, label string) *btcec.PrivateKey {
	var b [8]byte
	binary.BigEndian.PutUint64(b[:], seed)
	h := sha256.Sum256(append(b[:], []byte("c20/"+label)...))
	// Keep well inside the group order.
	h[0] &= 0x7f
	h[31] |= 1
	priv, _ := btcec.PrivKeyFromBytes(h[:])

	return priv
}

func c20Pub(p *btcec.PrivateKey) [33]byte {
	var out [33]byte
	copy(out[:], p.PubKey().SerializeCompressed())

	return out
}

// c20SigOver returns the 64-byte wire form of an ECDSA signature by priv over
// the double-SHA256 of data.
func c20SigOver(priv *btcec.PrivateKey, data []byte) []byte {
	sig := ecdsa.Sign(priv, chainhash.DoubleHashB(data))
	ws, err := lnwire.NewSigFromSignature(sig)
	if err != nil {
		panic(err)
	}

	return ws.RawBytes()
}

// ---------------------------------------------------------------------------
// wire layouts (offsets include the 2-byte message type)

type c20Field struct {
	name string
	off  int
	n    int
}

func be16(b []byte) int { return int(binary.BigEndian.Uint16(b)) }

func c20LayoutCA(w []byte) (map[string]c20Field, bool) {
	if len(w) < 2+256+2 {
		return nil, false
	}
	fl := be16(w[258:])
	o := 260 + fl
	if len(w) < o+32+8+4*33 {
		return nil, false
	}
	f := map[string]c20Field{
		"NodeSig1":    {"NodeSig1", 2, 64},
		"NodeSig2":    {"NodeSig2", 66, 64},
		"BitcoinSig1": {"BitcoinSig1", 130, 64},
		"BitcoinSig2": {"BitcoinSig2", 194, 64},
		"Features":    {"Features", 258, 2 + fl},
		"ChainHash":   {"ChainHash", o, 32},
		"SCID":        {"SCID", o + 32, 8},
		"NodeID1":     {"NodeID1", o + 40, 33},
		"NodeID2":     {"NodeID2", o + 73, 33},
		"BitcoinKey1": {"BitcoinKey1", o + 106, 33},
		"BitcoinKey2": {"BitcoinKey2", o + 139, 33},
		"Extra":       {"Extra", o + 172, len(w) - (o + 172)},
	}

	return f, true
}

func c20LayoutCU(w []byte) (map[string]c20Field, bool) {
	if len(w) < 130 {
		return nil, false
	}
	f := map[string]c20Field{
		"Signature":     {"Signature", 2, 64},
		"ChainHash":     {"ChainHash", 66, 32},
		"SCID":          {"SCID", 98, 8},
		"Timestamp":     {"Timestamp", 106, 4},
		"MessageFlags":  {"MessageFlags", 110, 1},
		"ChannelFlags":  {"ChannelFlags", 111, 1},
		"TimeLockDelta": {"TimeLockDelta", 112, 2},
		"HtlcMinimum":   {"HtlcMinimum", 114, 8},
		"BaseFee":       {"BaseFee", 122, 4},
		"FeeRate":       {"FeeRate", 126, 4},
	}
	o := 130
	if w[110]&1 == 1 {
		if len(w) < 138 {
			return nil, false
		}
		f["HtlcMaximum"] = c20Field{"HtlcMaximum", 130, 8}
		o = 138
	}
	f["Extra"] = c20Field{"Extra", o, len(w) - o}

	return f, true
}

func c20LayoutNA(w []byte) (map[string]c20Field, bool) {
	if len(w) < 68 {
		return nil, false
	}
	fl := be16(w[66:])
	o := 68 + fl
	if len(w) < o+4+33+3+32+2 {
		return nil, false
	}
	al := be16(w[o+72:])
	if len(w) < o+74+al {
		return nil, false
	}
	f := map[string]c20Field{
		"Signature": {"Signature", 2, 64},
		"Features":  {"Features", 66, 2 + fl},
		"Timestamp": {"Timestamp", o, 4},
		"NodeID":    {"NodeID", o + 4, 33},
		"RGB":       {"RGB", o + 37, 3},
		"Alias":     {"Alias", o + 40, 32},
		"Addresses": {"Addresses", o + 72, 2 + al},
		"Extra":     {"Extra", o + 74 + al, len(w) - (o + 74 + al)},
	}

	return f, true
}

func c20Layout(kind c20Kind, w []byte) (map[string]c20Field, bool) {
	switch kind {
	case c20CA:
		return c20LayoutCA(w)
	case c20CU:
		return c20LayoutCU(w)
	default:
		return c20LayoutNA(w)
	}
}

// c20Splice returns w with field f replaced by repl (any length).
func c20Splice(w []byte, f c20Field, repl []byte) []byte {
	out := make([]byte, 0, len(w)-f.n+len(repl))
	out = append(out, w[:f.off]...)
	out = append(out, repl...)
	out = append(out, w[f.off+f.n:]...)

	return out
}

func c20Features(bits ...int) []byte {
	max := -1
	for _, b := range bits {
		if b > max {
			max = b
		}
	}
	n := 0
	if max >= 0 {
		n = max/8 + 1
	}
	out := make([]byte, 2+n)
	binary.BigEndian.PutUint16(out, uint16(n))
	for _, b := range bits {
		out[2+n-1-b/8] |= 1 << uint(b%8)
	}

	return out
}

func c20ScidBytes(s lnwire.ShortChannelID) []byte {
	var b [8]byte
	binary.BigEndian.PutUint64(b[:], s.ToUint64())

	return b[:]
}

// c20TLV encodes one TLV record (BigSize type and length).
func c20TLV(typ uint64, val []byte) []byte {
	var out []byte
	big := func(v uint64) {
		switch {
		case v < 0xfd:
			out = append(out, byte(v))
		case v <= 0xffff:
			out = append(out, 0xfd, byte(v>>8), byte(v))
		default:
			out = append(out, 0xfe, byte(v>>24), byte(v>>16),
				byte(v>>8), byte(v))
		}
	}
	big(typ)
	big(uint64(len(val)))

	return append(out, val...)
}

// ---------------------------------------------------------------------------
// universe

var c20FundingVariants = []string{
	"good", "good", "good", "good", "good", "good", "good", "good", "good",
	"good", "good", "good",
	"spent", "wrong_keys", "p2wkh", "script_kind_mismatch", "no_block",
	"txindex_oob", "txpos_oob", "wrong_txpos", "wrong_txindex",
}

type c20Chan struct {
	idx      int
	n        [2]int // node indices (NodeID1, NodeID2); -1 for the sentinel
	nodePriv [2]*btcec.PrivateKey
	nodePub  [2][33]byte
	btc      [2]*btcec.PrivateKey
	scid     lnwire.ShortChannelID
	variant  string
	taproot  bool // announcement carries the simple-taproot feature bit
	lastSlot bool // funding tx is the block's last, funding output the tx's last
	capacity int64
	ann      *c20Msg
	upds     [2][]*c20Msg // authentic updates per direction
}

// fundable reports whether the referenced output exists, is unspent and pays
// to the script lnd derives from the announcement's bitcoin keys/features.
func (c *c20Chan) fundable() bool { return c.variant == "good" }

type c20Universe struct {
	seed   uint64
	nodes  []*btcec.PrivateKey
	pubs   [][33]byte
	peers  []*btcec.PrivateKey
	chans  []*c20Chan
	nanns  [][]*c20Msg // authentic node announcements per node
	best   uint32
	chain  *c20Chain
	byKey  map[string]*c20Msg // authentic messages by identity
	baseTS uint32

	sentinel struct {
		ch   *c20Chan
		node *c20Msg
	}

	nFresh int
}

func (u *c20Universe) freshKey(label string) *btcec.PrivateKey {
	u.nFresh++

	return c20PrivFrom(u.seed, fmt.Sprintf("fresh/%s/%d", label, u.nFresh))
}

func (u *c20Universe) register(m *c20Msg) *c20Msg {
	if ok, why := m.fill(); !ok {
		panic("c20: generated message does not parse: " + why)
	}
	u.byKey[m.key] = m

	return m
}

// fundingScripts returns the p2wsh 2-of-2 and the simple-taproot funding
// scripts for two bitcoin keys.
func c20FundingScripts(k1, k2 *btcec.PrivateKey) (legacy, taproot []byte) {
	p1, p2 := c20Pub(k1), c20Pub(k2)
	ws, err := input.GenMultiSigScript(p1[:], p2[:])
	if err != nil {
		panic(err)
	}
	legacy, err = input.WitnessScriptHash(ws)
	if err != nil {
		panic(err)
	}
	taproot, _, err = input.GenTaprootFundingScript(
		k1.PubKey(), k2.PubKey(), 1, fn.None[chainhash.Hash](),
	)
	if err != nil {
		panic(err)
	}

	return legacy, taproot
}

func c20P2WKH(k *btcec.PrivateKey) []byte {
	s, err := input.WitnessPubKeyHash(k.PubKey().SerializeCompressed())
	if err != nil {
		panic(err)
	}

	return s
}

// c20BuildChainFor adds the block for channel c to the chain according to
// its funding variant.
func (u *c20Universe) buildChainFor(c *c20Chan) {
	legacy, taproot := c20FundingScripts(c.btc[0], c.btc[1])
	right := legacy
	otherKind := taproot
	if c.taproot {
		right, otherKind = taproot, legacy
	}
	decoy := c20P2WKH(c.btc[0])

	script := right
	switch c.variant {
	case "wrong_keys":
		script, _ = c20FundingScripts(c.btc[0], u.freshKey("wrongkeys"))
		if c.taproot {
			_, script = c20FundingScripts(
				c.btc[0], u.freshKey("wrongkeys"),
			)
		}
	case "p2wkh":
		script = decoy
	case "script_kind_mismatch":
		script = otherKind
	case "no_block":
		return
	}

	mkTx := func(tag uint32, outs ...*wire.TxOut) *wire.MsgTx {
		tx := wire.NewMsgTx(2)
		tx.LockTime = tag // makes txids distinct
		tx.TxIn = append(tx.TxIn, &wire.TxIn{
			PreviousOutPoint: wire.OutPoint{Index: tag},
		})
		tx.TxOut = outs

		return tx
	}
	out := func(s []byte, v int64) *wire.TxOut {
		return &wire.TxOut{PkScript: s, Value: v}
	}

	pos := int(c.scid.TxPosition)
	idx := int(c.scid.TxIndex)

	// The funding transaction: outputs 0..pos (+1 spare), the funding
	// script at pos.
	// (the spare output / transaction after the funding one is present
	// unless the channel sits, legitimately, in the last slot)
	spare := 1
	if c.lastSlot && (c.variant == "good" || c.variant == "spent") {
		spare = 0
	}
	var outs []*wire.TxOut
	for i := 0; i <= pos+spare; i++ {
		if i == pos {
			outs = append(outs, out(script, c.capacity))
		} else {
			outs = append(outs, out(decoy, 546+int64(i)))
		}
	}
	switch c.variant {
	case "txpos_oob":
		outs = outs[:pos]
		if len(outs) == 0 {
			// A transaction needs an output; move the claim
			// beyond it instead.
			outs = []*wire.TxOut{out(decoy, 546)}
			c.scid.TxPosition = 1
		}
	case "wrong_txpos":
		// right script one output further, decoy at the claimed one
		outs[pos], outs[pos+1] = out(decoy, c.capacity),
			out(script, c.capacity)
	}
	funding := mkTx(c.scid.BlockHeight<<8|uint32(idx), outs...)

	// Block: a coinbase-like tx first, fillers, the funding tx at idx.
	var txs []*wire.MsgTx
	for i := 0; i <= idx+spare; i++ {
		if i == idx {
			txs = append(txs, funding)
		} else {
			txs = append(txs, mkTx(
				c.scid.BlockHeight<<8|uint32(i)|0x80,
				out(decoy, 1000+int64(i)),
			))
		}
	}
	switch c.variant {
	case "txindex_oob":
		txs = txs[:idx]
		if len(txs) == 0 {
			// Blocks are never empty (coinbase).
			txs = []*wire.MsgTx{mkTx(
				c.scid.BlockHeight<<8|0x81, out(decoy, 1000),
			)}
			c.scid.TxIndex = 1
		}
	case "wrong_txindex":
		txs[idx], txs[idx+1] = txs[idx+1], txs[idx]
	}

	spent := map[wire.OutPoint]bool{}
	if c.variant == "spent" {
		spent[wire.OutPoint{
			Hash: funding.TxHash(), Index: uint32(pos),
		}] = true
	}
	u.chain.addBlock(c.scid.BlockHeight, txs, spent)
}

// c20MakeCA builds and signs the channel announcement of c.
func (u *c20Universe) makeCA(c *c20Chan, features, extra []byte,
	chainHash chainhash.Hash) *c20Msg {

	w := []byte{0x01, 0x00}
	w = append(w, make([]byte, 256)...)
	w = append(w, features...)
	w = append(w, chainHash[:]...)
	w = append(w, c20ScidBytes(c.scid)...)
	for _, p := range c.nodePub {
		w = append(w, p[:]...)
	}
	for _, k := range c.btc {
		p := c20Pub(k)
		w = append(w, p[:]...)
	}
	w = append(w, extra...)

	m := &c20Msg{kind: c20CA, wire: w, ch: c.idx}
	msg, err := m.parse()
	if err != nil {
		panic(fmt.Sprintf("c20: CA does not parse: %v", err))
	}
	data, err := msg.(*lnwire.ChannelAnnouncement1).DataToSign()
	if err != nil {
		panic(err)
	}
	signers := []*btcec.PrivateKey{
		c.nodePriv[0], c.nodePriv[1], c.btc[0], c.btc[1],
	}
	for i, k := range signers {
		copy(w[2+64*i:], c20SigOver(k, data))
	}

	return m
}

type c20UpdFields struct {
	ts       uint32
	msgFlags byte
	chFlags  byte
	timelock uint16
	minHtlc  uint64
	baseFee  uint32
	feeRate  uint32
	maxHtlc  uint64
	extra    []byte
	chain    chainhash.Hash
}

func (f *c20UpdFields) content() string {
	return fmt.Sprintf("%d/%d/%d/%d/%d/%d/%d/%x", f.msgFlags, f.chFlags,
		f.timelock, f.minHtlc, f.baseFee, f.feeRate, f.maxHtlc, f.extra)
}

// c20MakeCU builds a channel update for scid and signs it with signer.
func c20MakeCU(scid lnwire.ShortChannelID, f *c20UpdFields,
	signer *btcec.PrivateKey) *c20Msg {

	w := []byte{0x01, 0x02}
	w = append(w, make([]byte, 64)...)
	w = append(w, f.chain[:]...)
	w = append(w, c20ScidBytes(scid)...)
	w = binary.BigEndian.AppendUint32(w, f.ts)
	w = append(w, f.msgFlags, f.chFlags)
	w = binary.BigEndian.AppendUint16(w, f.timelock)
	w = binary.BigEndian.AppendUint64(w, f.minHtlc)
	w = binary.BigEndian.AppendUint32(w, f.baseFee)
	w = binary.BigEndian.AppendUint32(w, f.feeRate)
	if f.msgFlags&1 == 1 {
		w = binary.BigEndian.AppendUint64(w, f.maxHtlc)
	}
	w = append(w, f.extra...)

	m := &c20Msg{kind: c20CU, wire: w, content: f.content()}
	msg, err := m.parse()
	if err != nil {
		panic(fmt.Sprintf("c20: CU does not parse: %v", err))
	}
	data, err := msg.(*lnwire.ChannelUpdate1).DataToSign()
	if err != nil {
		panic(err)
	}
	copy(w[2:], c20SigOver(signer, data))

	return m
}

type c20NodeFields struct {
	features []byte
	ts       uint32
	rgb      [3]byte
	alias    [32]byte
	addrs    []byte // descriptors without the length prefix
	extra    []byte
}

func c20MakeNA(id [33]byte, f *c20NodeFields,
	signer *btcec.PrivateKey) *c20Msg {

	w := []byte{0x01, 0x01}
	w = append(w, make([]byte, 64)...)
	w = append(w, f.features...)
	w = binary.BigEndian.AppendUint32(w, f.ts)
	w = append(w, id[:]...)
	w = append(w, f.rgb[:]...)
	w = append(w, f.alias[:]...)
	w = binary.BigEndian.AppendUint16(w, uint16(len(f.addrs)))
	w = append(w, f.addrs...)
	w = append(w, f.extra...)

	m := &c20Msg{kind: c20NA, wire: w}
	msg, err := m.parse()
	if err != nil {
		panic(fmt.Sprintf("c20: NA does not parse: %v", err))
	}
	data, err := msg.(*lnwire.NodeAnnouncement1).DataToSign()
	if err != nil {
		panic(err)
	}
	copy(w[2:], c20SigOver(signer, data))

	return m
}

var c20Mainnet = *chaincfg.MainNetParams.GenesisHash

// drawUpdFields draws the signed content of a channel update that is
// consistent for a channel of the given capacity.
func c20DrawUpdFields(t *rapid.T, capSat int64, dir int, ts uint32,
	label string) *c20UpdFields {

	capMsat := uint64(capSat) * 1000
	f := &c20UpdFields{
		ts:       ts,
		msgFlags: 1,
		chFlags:  byte(dir),
		chain:    c20Mainnet,
	}
	if rapid.IntRange(0, 4).Draw(t, label+"dis") == 0 {
		f.chFlags |= 2
	}
	f.timelock = uint16(rapid.SampledFrom([]int{0, 1, 40, 144, 65535}).
		Draw(t, label+"tl"))
	f.minHtlc = rapid.SampledFrom([]uint64{0, 1, 1000, capMsat}).
		Draw(t, label+"min")
	lo := f.minHtlc
	if lo == 0 {
		lo = 1
	}
	switch rapid.IntRange(0, 3).Draw(t, label+"maxk") {
	case 0:
		f.maxHtlc = capMsat
	case 1:
		f.maxHtlc = lo
	default:
		f.maxHtlc = rapid.Uint64Range(lo, capMsat).Draw(t, label+"max")
	}
	f.baseFee = uint32(rapid.SampledFrom([]int{0, 1, 1000, 1 << 30}).
		Draw(t, label+"bf"))
	f.feeRate = uint32(rapid.IntRange(0, 5000).Draw(t, label+"fr"))
	switch rapid.IntRange(0, 5).Draw(t, label+"ex") {
	case 0: // inbound fee record
		v := make([]byte, 8)
		binary.BigEndian.PutUint32(v, uint32(int32(
			-rapid.IntRange(0, 2000).Draw(t, label+"ib"))))
		binary.BigEndian.PutUint32(v[4:], uint32(int32(
			-rapid.IntRange(0, 500).Draw(t, label+"ir"))))
		f.extra = c20TLV(55555, v)
	case 1: // unknown odd record
		f.extra = c20TLV(70001, []byte{byte(rapid.IntRange(0, 255).
			Draw(t, label+"ev"))})
	case 2: // both
		v := make([]byte, 8)
		v[3], v[7] = 7, 9
		f.extra = append(c20TLV(55555, v),
			c20TLV(70001, []byte{1, 2, 3})...)
	}

	return f
}

func c20DrawNodeFields(t *rapid.T, ts uint32, label string) *c20NodeFields {
	f := &c20NodeFields{ts: ts}
	switch rapid.IntRange(0, 2).Draw(t, label+"ft") {
	case 0:
		f.features = c20Features()
	case 1:
		f.features = c20Features(1, 9, 15)
	default:
		f.features = c20Features(5, 201)
	}
	v := rapid.Uint32().Draw(t, label+"look")
	f.rgb = [3]byte{byte(v), byte(v >> 8), byte(v >> 16)}
	copy(f.alias[:], fmt.Sprintf("c20-node-%08x", v))
	switch rapid.IntRange(0, 3).Draw(t, label+"ad") {
	case 1:
		f.addrs = []byte{1, 10, 0, byte(v >> 4), 1, 0x23, 0x28}
	case 2:
		f.addrs = append([]byte{1, 192, 168, 1, byte(v), 0x26, 0x07},
			append([]byte{2}, append(bytes.Repeat(
				[]byte{0x20, byte(v >> 3)}, 8), 0x26, 0x08)...)...)
	case 3:
		host := []byte("n.example.org")
		f.addrs = append([]byte{5, byte(len(host))}, host...)
		f.addrs = append(f.addrs, 0x26, 0x07)
	}
	if rapid.IntRange(0, 3).Draw(t, label+"ex") == 0 {
		f.extra = c20TLV(1, []byte{byte(v >> 7)})
	}

	return f
}

// c20DrawUniverse draws nodes, channels with their chain situation, and the
// authentic message set.
func c20DrawUniverse(t *rapid.T, maxChans int, forceGoodFirst,
	allVariants bool) *c20Universe {

	u := &c20Universe{
		seed:  rapid.Uint64().Draw(t, "seed"),
		byKey: make(map[string]*c20Msg),
	}
	nNodes := rapid.IntRange(3, 4).Draw(t, "nNodes")
	for i := 0; i < nNodes; i++ {
		k := c20PrivFrom(u.seed, fmt.Sprintf("node/%d", i))
		u.nodes = append(u.nodes, k)
		u.pubs = append(u.pubs, c20Pub(k))
	}
	for i := 0; i < 3; i++ {
		u.peers = append(u.peers, c20PrivFrom(u.seed,
			fmt.Sprintf("peer/%d", i)))
	}
	// 2001..2020: far enough in the past for lnd's wall-clock rules
	// (zombie horizon, "too far in the future") to be constant.
	u.baseTS = uint32(rapid.IntRange(1_000_000_000, 1_600_000_000).
		Draw(t, "baseTS"))

	nChans := rapid.IntRange(1, maxChans).Draw(t, "nChans")
	var forced []string
	if allVariants {
		seen := map[string]bool{"good": true}
		for _, v := range c20FundingVariants {
			if !seen[v] {
				seen[v] = true
				forced = append(forced, v)
			}
		}
	}
	nDrawn := nChans
	nChans += len(forced)
	heights := rapid.SliceOfNDistinct(rapid.IntRange(1, 300), nChans+1,
		nChans+1, rapid.ID[int]).Draw(t, "heights")
	best := 0
	for _, h := range heights {
		if h > best {
			best = h
		}
	}
	u.best = uint32(best + rapid.IntRange(0, 3).Draw(t, "tipGap"))
	u.chain = c20NewChain(int32(u.best))

	mkChan := func(i int, label string, variant string, n1, n2 int,
		height int) *c20Chan {

		c := &c20Chan{
			idx:      i,
			n:        [2]int{n1, n2},
			nodePriv: [2]*btcec.PrivateKey{u.nodes[n1], u.nodes[n2]},
			nodePub:  [2][33]byte{u.pubs[n1], u.pubs[n2]},
			variant:  variant,
			btc: [2]*btcec.PrivateKey{
				c20PrivFrom(u.seed, label+"/btc1"),
				c20PrivFrom(u.seed, label+"/btc2"),
			},
			scid: lnwire.ShortChannelID{
				BlockHeight: uint32(height),
				TxIndex: uint32(rapid.IntRange(0, 2).
					Draw(t, label+"txi")),
				TxPosition: uint16(rapid.IntRange(0, 1).
					Draw(t, label+"txp")),
			},
			taproot:  rapid.IntRange(0, 5).Draw(t, label+"tap") == 0,
			lastSlot: rapid.Bool().Draw(t, label+"last"),
			capacity: rapid.SampledFrom([]int64{
				1000, 20_000, 1_000_000, 16_777_215, 500_000_000,
			}).Draw(t, label+"cap"),
		}
		u.buildChainFor(c)

		var feat []byte
		switch {
		case c.taproot:
			feat = c20Features(181)
		case rapid.IntRange(0, 3).Draw(t, label+"ft") == 0:
			feat = c20Features(201)
		default:
			feat = c20Features()
		}
		var extra []byte
		if rapid.IntRange(0, 3).Draw(t, label+"ex") == 0 {
			extra = c20TLV(3, []byte{byte(i), 0xc2})
		}
		c.ann = u.makeCA(c, feat, extra, c20Mainnet)
		c.ann.authentic = true
		c.ann.why = "valid"
		u.register(c.ann)

		return c
	}

	for i := 0; i < nChans; i++ {
		label := fmt.Sprintf("ch%d", i)
		variant := rapid.SampledFrom(c20FundingVariants).
			Draw(t, label+"var")
		if i == 0 && forceGoodFirst {
			variant = "good"
		}
		if i >= nDrawn {
			variant = forced[i-nDrawn]
		}
		n1 := rapid.IntRange(0, nNodes-1).Draw(t, label+"n1")
		n2 := rapid.IntRange(0, nNodes-2).Draw(t, label+"n2")
		if n2 >= n1 {
			n2++
		}
		c := mkChan(i, label, variant, n1, n2, heights[i])
		u.chans = append(u.chans, c)

		// authentic updates: a few versions per direction on a small
		// timestamp grid so that equal / older / newer all occur.
		for d := 0; d < 2; d++ {
			nv := rapid.IntRange(2, 4).Draw(t, label+"nv")
			for v := 0; v < nv; v++ {
				l := fmt.Sprintf("%sd%dv%d", label, d, v)
				ts := u.baseTS + uint32(rapid.IntRange(0, 3).
					Draw(t, l+"ts"))
				var f *c20UpdFields
				if v > 0 && rapid.IntRange(0, 3).
					Draw(t, l+"ka") == 0 {

					// keep-alive: same content as the
					// previous version, other timestamp.
					prev := c.upds[d][v-1]
					f = c20UpdFieldsOf(prev)
					f.ts = ts
				} else {
					f = c20DrawUpdFields(
						t, c.capacity, d, ts, l,
					)
				}
				m := c20MakeCU(c.scid, f, c.nodePriv[d])
				m.authentic, m.why, m.ch = true, "valid", i
				c.upds[d] = append(c.upds[d], u.register(m))
			}
		}
	}

	for n := 0; n < nNodes; n++ {
		var list []*c20Msg
		nv := rapid.IntRange(2, 3).Draw(t, fmt.Sprintf("n%dnv", n))
		for v := 0; v < nv; v++ {
			l := fmt.Sprintf("n%dv%d", n, v)
			ts := u.baseTS + 100 + uint32(rapid.IntRange(0, 2).
				Draw(t, l+"ts"))
			m := c20MakeNA(u.pubs[n], c20DrawNodeFields(t, ts, l),
				u.nodes[n])
			m.authentic, m.why, m.nodeIdx = true, "valid", n
			list = append(list, u.register(m))
		}
		u.nanns = append(u.nanns, list)
	}

	// Sentinel channel + node announcement: sent at the very end of a
	// history to learn when the broadcast batches have been flushed.
	sk1 := c20PrivFrom(u.seed, "sentinel/node1")
	sk2 := c20PrivFrom(u.seed, "sentinel/node2")
	u.sentinel.ch = &c20Chan{
		idx:      -1,
		n:        [2]int{-1, -1},
		nodePriv: [2]*btcec.PrivateKey{sk1, sk2},
		nodePub:  [2][33]byte{c20Pub(sk1), c20Pub(sk2)},
		variant:  "good",
		btc: [2]*btcec.PrivateKey{
			c20PrivFrom(u.seed, "sentinel/btc1"),
			c20PrivFrom(u.seed, "sentinel/btc2"),
		},
		scid: lnwire.ShortChannelID{
			BlockHeight: uint32(heights[nChans]),
		},
		capacity: 50_000,
	}
	u.buildChainFor(u.sentinel.ch)
	// A block at the tip, so that the best block has a hash.
	if _, err := u.chain.GetBlockHash(int64(u.best)); err != nil {
		tip := wire.NewMsgTx(2)
		tip.LockTime = u.best<<8 | 0xff
		tip.TxIn = append(tip.TxIn, &wire.TxIn{})
		tip.TxOut = append(tip.TxOut, &wire.TxOut{
			PkScript: c20P2WKH(c20PrivFrom(u.seed, "tip")), Value: 5000,
		})
		u.chain.addBlock(u.best, []*wire.MsgTx{tip}, nil)
	}

	u.sentinel.ch.ann = u.makeCA(u.sentinel.ch, c20Features(), nil,
		c20Mainnet)
	u.sentinel.ch.ann.ch = -1
	u.sentinel.ch.ann.authentic, u.sentinel.ch.ann.why = true, "valid"
	if ok, why := u.sentinel.ch.ann.fill(); !ok {
		panic(why)
	}
	var al [32]byte
	copy(al[:], "c20-sentinel")
	u.sentinel.node = c20MakeNA(c20Pub(sk1), &c20NodeFields{
		features: c20Features(), ts: u.baseTS + 500, alias: al,
	}, sk1)
	u.sentinel.node.authentic, u.sentinel.node.why = true, "valid"
	u.sentinel.node.nodeIdx = -1
	if ok, why := u.sentinel.node.fill(); !ok {
		panic(why)
	}

	return u
}

// c20UpdFieldsOf recovers the field set of a generated update.
func c20UpdFieldsOf(m *c20Msg) *c20UpdFields {
	w := m.wire
	f := &c20UpdFields{
		ts:       binary.BigEndian.Uint32(w[106:]),
		msgFlags: w[110],
		chFlags:  w[111],
		timelock: binary.BigEndian.Uint16(w[112:]),
		minHtlc:  binary.BigEndian.Uint64(w[114:]),
		baseFee:  binary.BigEndian.Uint32(w[122:]),
		feeRate:  binary.BigEndian.Uint32(w[126:]),
	}
	copy(f.chain[:], w[66:98])
	o := 130
	if f.msgFlags&1 == 1 {
		f.maxHtlc = binary.BigEndian.Uint64(w[130:])
		o = 138
	}
	f.extra = append([]byte(nil), w[o:]...)

	return f
}

// ---------------------------------------------------------------------------
// inauthentic messages

// derive makes a corrupted copy of orig with the given wire bytes. ok is
// false when the bytes do not parse as gossip. A copy whose identity equals
// an authentic message of the universe (possible only through parser
// leniency, e.g. padding address descriptors) is that message.
func (u *c20Universe) derive(orig *c20Msg, w []byte, why string) (*c20Msg,
	bool, string) {

	m := &c20Msg{wire: w, why: why, ch: -1, nodeIdx: -1}
	ok, reason := m.fill()
	if !ok {
		return m, false, reason
	}
	if a, same := u.byKey[m.key]; same {
		alias := *a
		alias.wire = w
		alias.why = "alias_of_valid"

		return &alias, true, ""
	}

	return m, true, ""
}

// c20Mutation is one single-field replacement: field name, variant label and
// the replacement bytes.
type c20Mutation struct {
	field string
	how   string
	repl  []byte
}

func c20Inc(b []byte, delta int) []byte {
	out := append([]byte(nil), b...)
	for i := len(out) - 1; i >= 0 && delta != 0; i-- {
		v := int(out[i]) + delta
		out[i] = byte(v)
		if v >= 0 && v < 256 {
			break
		}
		if delta > 0 {
			delta = 1
		} else {
			delta = -1
		}
	}

	return out
}

// fieldMutations enumerates single-field replacements of an authentic
// message: for every field of the wire layout at least one replacement, for
// signatures and keys several (random, swapped with a sibling, valid-but-
// for-other-data).
func (u *c20Universe) fieldMutations(m *c20Msg) []c20Mutation {
	lay, ok := c20Layout(m.kind, m.wire)
	if !ok {
		panic("c20: authentic message without layout")
	}
	get := func(name string) []byte {
		f := lay[name]
		return append([]byte(nil), m.wire[f.off:f.off+f.n]...)
	}
	var out []c20Mutation
	add := func(field, how string, repl []byte) {
		if bytes.Equal(repl, get(field)) {
			return
		}
		out = append(out, c20Mutation{field, how, repl})
	}
	stranger := u.freshKey("stranger")
	strangerPub := c20Pub(stranger)
	otherData := []byte("c20 other data")
	testnet := *chaincfg.TestNet3Params.GenesisHash

	scidVariants := func() {
		s := lnwire.NewShortChanIDFromInt(
			binary.BigEndian.Uint64(get("SCID")))
		for _, v := range []struct {
			how string
			s   lnwire.ShortChannelID
		}{
			{"height+1", lnwire.ShortChannelID{BlockHeight: s.BlockHeight + 1,
				TxIndex: s.TxIndex, TxPosition: s.TxPosition}},
			{"height-1", lnwire.ShortChannelID{BlockHeight: s.BlockHeight - 1,
				TxIndex: s.TxIndex, TxPosition: s.TxPosition}},
			{"txindex+1", lnwire.ShortChannelID{BlockHeight: s.BlockHeight,
				TxIndex: s.TxIndex + 1, TxPosition: s.TxPosition}},
			{"txpos+1", lnwire.ShortChannelID{BlockHeight: s.BlockHeight,
				TxIndex: s.TxIndex, TxPosition: s.TxPosition + 1}},
		} {
			add("SCID", v.how, c20ScidBytes(v.s))
		}
		for _, c := range u.chans {
			if c.scid != s {
				add("SCID", fmt.Sprintf("chan%d", c.idx),
					c20ScidBytes(c.scid))
			}
		}
	}
	extraVariants := func() {
		cur := get("Extra")
		add("Extra", "append_record",
			append(append([]byte(nil), cur...),
				c20TLV(80001, []byte{0xaa})...))
		if len(cur) > 0 {
			add("Extra", "drop", nil)
			add("Extra", "last_byte+1", c20Inc(cur, 1))
		} else {
			add("Extra", "set", c20TLV(9, []byte{1}))
		}
	}
	featureVariants := func() {
		add("Features", "set_bit_203", c20Features(203))
		add("Features", "empty", c20Features())
		add("Features", "taproot_bit", c20Features(181))
		cur := get("Features")
		if len(cur) > 2 {
			add("Features", "low_bit", c20Inc(cur, 1))
		}
	}

	switch m.kind {
	case c20CA:
		msg, _ := m.parse()
		data, _ := msg.(*lnwire.ChannelAnnouncement1).DataToSign()
		sigs := []string{"NodeSig1", "NodeSig2", "BitcoinSig1",
			"BitcoinSig2"}
		c := u.chanOf(m)
		signers := []*btcec.PrivateKey{c.nodePriv[0], c.nodePriv[1],
			c.btc[0], c.btc[1]}
		for i, s := range sigs {
			add(s, "stranger_sig", c20SigOver(stranger, data))
			for j, o := range sigs {
				if j != i {
					add(s, "swap_"+o, get(o))
				}
			}
			if signers[i] != nil {
				add(s, "right_key_other_data",
					c20SigOver(signers[i], otherData))
			}
			add(s, "zero", make([]byte, 64))
		}
		keys := []string{"NodeID1", "NodeID2", "BitcoinKey1",
			"BitcoinKey2"}
		for i, k := range keys {
			add(k, "stranger", strangerPub[:])
			for j, o := range keys {
				if j != i {
					add(k, "swap_"+o, get(o))
				}
			}
			bad := get(k)
			bad[0] = 0x05
			add(k, "bad_prefix", bad)
			flipY := get(k)
			flipY[0] ^= 1 // 02 <-> 03: the negated point
			add(k, "negated_point", flipY)
		}
		add("ChainHash", "testnet", testnet[:])
		add("ChainHash", "last_byte+1", c20Inc(get("ChainHash"), 1))
		scidVariants()
		featureVariants()
		extraVariants()

	case c20CU:
		msg, _ := m.parse()
		data, _ := msg.(*lnwire.ChannelUpdate1).DataToSign()
		add("Signature", "stranger_sig", c20SigOver(stranger, data))
		add("Signature", "zero", make([]byte, 64))
		if m.ch >= 0 {
			c := u.chans[m.ch]
			// valid signature by the node owning the *other*
			// direction
			add("Signature", "other_direction_node",
				c20SigOver(u.nodes[c.n[1-m.dir]], data))
			add("Signature", "right_key_other_data",
				c20SigOver(u.nodes[c.n[m.dir]], otherData))
			for _, o := range c.upds[m.dir] {
				if o != m {
					add("Signature", "sig_of_other_version",
						o.wire[2:66])
					break
				}
			}
		}
		add("ChainHash", "testnet", testnet[:])
		scidVariants()
		ts := get("Timestamp")
		add("Timestamp", "+1", c20Inc(ts, 1))
		add("Timestamp", "-1", c20Inc(ts, -1))
		add("Timestamp", "zero", make([]byte, 4))
		add("Timestamp", "+1000", c20Inc(ts, 1000))
		add("Timestamp", "max", []byte{0xff, 0xff, 0xff, 0xff})
		add("MessageFlags", "set_bit1", []byte{get("MessageFlags")[0] | 2})
		add("MessageFlags", "clear_maxhtlc_raw",
			[]byte{get("MessageFlags")[0] &^ 1})
		cf := get("ChannelFlags")[0]
		add("ChannelFlags", "flip_direction", []byte{cf ^ 1})
		add("ChannelFlags", "flip_disabled", []byte{cf ^ 2})
		add("ChannelFlags", "set_bit7", []byte{cf | 0x80})
		for _, f := range []string{"TimeLockDelta", "HtlcMinimum",
			"BaseFee", "FeeRate", "HtlcMaximum"} {

			if _, has := lay[f]; !has {
				continue
			}
			add(f, "+1", c20Inc(get(f), 1))
			add(f, "-1", c20Inc(get(f), -1))
			add(f, "zero", make([]byte, lay[f].n))
		}
		extraVariants()
		if e := get("Extra"); len(e) >= 11 && e[0] == 0xfd {
			// inbound fee record present: change its value
			v := append([]byte(nil), e...)
			v[10]++
			add("Extra", "inbound_fee_value", v)
		}

	case c20NA:
		msg, _ := m.parse()
		data, _ := msg.(*lnwire.NodeAnnouncement1).DataToSign()
		add("Signature", "stranger_sig", c20SigOver(stranger, data))
		add("Signature", "zero", make([]byte, 64))
		if m.nodeIdx >= 0 {
			other := (m.nodeIdx + 1) % len(u.nodes)
			add("Signature", "other_node_sig",
				c20SigOver(u.nodes[other], data))
			add("Signature", "right_key_other_data",
				c20SigOver(u.nodes[m.nodeIdx], otherData))
			add("NodeID", "other_node", u.pubs[other][:])
			for _, o := range u.nanns[m.nodeIdx] {
				if o != m {
					add("Signature", "sig_of_other_version",
						o.wire[2:66])
					break
				}
			}
		}
		add("NodeID", "stranger", strangerPub[:])
		neg := get("NodeID")
		neg[0] ^= 1
		add("NodeID", "negated_point", neg)
		featureVariants()
		ts := get("Timestamp")
		add("Timestamp", "+1", c20Inc(ts, 1))
		add("Timestamp", "-1", c20Inc(ts, -1))
		add("Timestamp", "zero", make([]byte, 4))
		add("RGB", "+1", c20Inc(get("RGB"), 1))
		al := get("Alias")
		al[0] ^= 0x20
		add("Alias", "case_flip", al)
		add("Alias", "zero", make([]byte, 32))
		ad := get("Addresses")
		add("Addresses", "add_ipv4", func() []byte {
			body := append(append([]byte(nil), ad[2:]...),
				1, 8, 8, 8, 8, 0x26, 0x07)
			return append(binary.BigEndian.AppendUint16(nil,
				uint16(len(body))), body...)
		}())
		if len(ad) > 2 {
			add("Addresses", "none", []byte{0, 0})
			add("Addresses", "port+1", c20Inc(ad, 1))
		}
		extraVariants()
	}

	return out
}

func (u *c20Universe) chanOf(m *c20Msg) *c20Chan {
	if m.ch >= 0 && m.ch < len(u.chans) {
		return u.chans[m.ch]
	}
	if u.sentinel.ch != nil && m == u.sentinel.ch.ann {
		return u.sentinel.ch
	}
	panic("c20: message without channel")
}

// applyMutation returns the corrupted message for one field mutation.
func (u *c20Universe) applyMutation(orig *c20Msg, mu c20Mutation) (*c20Msg,
	bool, string) {

	lay, _ := c20Layout(orig.kind, orig.wire)
	w := c20Splice(orig.wire, lay[mu.field], mu.repl)

	return u.derive(orig, w, fmt.Sprintf("field:%s:%s:%s", orig.kind,
		mu.field, mu.how))
}

// flip returns orig with the byte at pos XORed with mask (mask != 0).
func (u *c20Universe) flip(orig *c20Msg, pos int, mask byte) (*c20Msg, bool,
	string) {

	w := append([]byte(nil), orig.wire...)
	w[pos] ^= mask
	region := "payload"
	if pos < 2 {
		region = "type"
	}

	return u.derive(orig, w, fmt.Sprintf("flip:%s:%s", orig.kind, region))
}

// semanticInvalids returns correctly *formed and signed* messages that the
// statement nevertheless excludes: signed by a node that does not own the
// direction, by a stranger, inconsistent fields, zero timestamp, foreign
// chain.
func (u *c20Universe) semanticInvalids(t *rapid.T, c *c20Chan) []*c20Msg {
	var out []*c20Msg
	add := func(m *c20Msg, why string) {
		m.why, m.ch, m.nodeIdx = "sem:"+why, -1, -1
		if ok, r := m.fill(); !ok {
			panic("c20: semantic invalid does not parse: " + r)
		}
		if _, clash := u.byKey[m.key]; clash {
			return
		}
		out = append(out, m)
	}
	testnet := *chaincfg.TestNet3Params.GenesisHash
	capMsat := uint64(c.capacity) * 1000
	stranger := u.freshKey("semstranger")

	for d := 0; d < 2; d++ {
		owner := u.nodes[c.n[d]]
		base := func(l string) *c20UpdFields {
			return c20DrawUpdFields(t, c.capacity, d,
				u.baseTS+5+uint32(d), fmt.Sprintf("sem%d%d%s",
					c.idx, d, l))
		}
		// (a) wrong signer, fields fine, timestamp newer than all
		add(c20MakeCU(c.scid, base("wd"), u.nodes[c.n[1-d]]),
			"update_signed_by_other_direction")
		add(c20MakeCU(c.scid, base("st"), stranger),
			"update_signed_by_stranger")
		// (b) right signer, inconsistent fields
		f := base("nomax")
		f.msgFlags = 0
		add(c20MakeCU(c.scid, f, owner), "update_without_max_htlc_flag")
		f = base("max0")
		f.maxHtlc, f.minHtlc = 0, 0
		add(c20MakeCU(c.scid, f, owner), "update_max_htlc_zero")
		f = base("maxlt")
		f.minHtlc, f.maxHtlc = 2000, 1999
		if capMsat >= 2000 {
			add(c20MakeCU(c.scid, f, owner), "update_max_below_min")
		}
		f = base("maxcap")
		f.maxHtlc = capMsat + 1
		add(c20MakeCU(c.scid, f, owner), "update_max_above_capacity")
		f = base("ts0")
		f.ts = 0
		add(c20MakeCU(c.scid, f, owner), "update_timestamp_zero")
		f = base("chain")
		f.chain = testnet
		add(c20MakeCU(c.scid, f, owner), "update_foreign_chain")
	}
	// channel announcement for a foreign chain, all four signatures valid
	ca := u.makeCA(c, c20Features(), nil, testnet)
	add(ca, "chan_ann_foreign_chain")

	for _, n := range c.n {
		nf := c20DrawNodeFields(t, u.baseTS+200,
			fmt.Sprintf("semn%d%d", c.idx, n))
		add(c20MakeNA(u.pubs[n], nf, stranger),
			"node_ann_signed_by_stranger")
		add(c20MakeNA(u.pubs[n], nf, u.nodes[(n+1)%len(u.nodes)]),
			"node_ann_signed_by_other_node")
		nf0 := *nf
		nf0.ts = 0
		add(c20MakeNA(u.pubs[n], &nf0, u.nodes[n]),
			"node_ann_timestamp_zero")
	}

	return out
}
