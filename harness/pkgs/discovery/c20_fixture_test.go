//go:build verif

package discovery

// C20 fixture: the repo's createTestCtx re-assembled so that one gossiper can
// be created and torn down per generated history (createTestCtx registers
// t.Cleanup handlers on the outer test and would accumulate thousands of
// gossipers and temp dirs). Same parts: real AuthenticatedGossiper, the
// fixture's mockGraphSource / mockNotifier / mockPeer / mockMessageStore /
// mockScidCloser, with three differences that are stated in notes/C20.md:
//
//   - the chain is c20Chain, a deterministic in-memory block/UTXO store that
//     answers every query consistently (lnmock.MockChain needs one canned
//     expectation per call and panics on an unexpected one, and the gossiper
//     turns a panic into a "rejected" result);
//   - the graph is c20Graph = mockGraphSource with AddNode made an upsert
//     (the mock appends and IsStaleNode/FetchNode look at the first, i.e.
//     oldest entry, so "older node announcement is ignored" would be decided
//     by the mock's artifact, not by lnd);
//   - TrickleDelay is 2ms instead of 100ms.

import (
	"context"
	"fmt"
	"sort"
	"sync"
	"testing"
	"time"

	"github.com/btcsuite/btcd/btcec/v2"
	"github.com/btcsuite/btcd/btcec/v2/ecdsa"
	"github.com/btcsuite/btcd/chaincfg/v2"
	"github.com/btcsuite/btcd/chainhash/v2"
	"github.com/btcsuite/btcd/wire/v2"
	"github.com/davecgh/go-spew/spew"
	"github.com/lightningnetwork/lnd/batch"
	"github.com/lightningnetwork/lnd/channeldb"
	"github.com/lightningnetwork/lnd/graph"
	"github.com/lightningnetwork/lnd/graph/db/models"
	"github.com/lightningnetwork/lnd/keychain"
	"github.com/lightningnetwork/lnd/lnpeer"
	"github.com/lightningnetwork/lnd/lntest/mock"
	"github.com/lightningnetwork/lnd/lnwallet"
	"github.com/lightningnetwork/lnd/lnwallet/btcwallet"
	"github.com/lightningnetwork/lnd/lnwire"
	"github.com/lightningnetwork/lnd/routing/route"
	"github.com/lightningnetwork/lnd/ticker"
)

const c20Trickle = 2 * time.Millisecond

// ---------------------------------------------------------------------------
// chain

// c20Chain is a tiny deterministic blockchain: blocks by height, and the set
// of unspent outputs. It implements lnwallet.BlockChainIO.
type c20Chain struct {
	mu       sync.Mutex
	best     int32
	byHeight map[int64]chainhash.Hash
	blocks   map[chainhash.Hash]*wire.MsgBlock
	utxos    map[wire.OutPoint]*wire.TxOut

	// Blocks above best are "not mined yet": invisible to every query
	// until setBest moves the tip (future-height tests).
	heightOf   map[chainhash.Hash]int64
	utxoHeight map[wire.OutPoint]int64

	// counters, read by the harness for labels only.
	nGetBlock int
	nGetUtxo  int
}

var _ lnwallet.BlockChainIO = (*c20Chain)(nil)

func c20NewChain(best int32) *c20Chain {
	return &c20Chain{
		best:     best,
		byHeight: make(map[int64]chainhash.Hash),
		blocks:   make(map[chainhash.Hash]*wire.MsgBlock),
		utxos:    make(map[wire.OutPoint]*wire.TxOut),

		heightOf:   make(map[chainhash.Hash]int64),
		utxoHeight: make(map[wire.OutPoint]int64),
	}
}

// setBest moves the chain tip; blocks up to it become visible.
func (c *c20Chain) setBest(best int32) {
	c.mu.Lock()
	defer c.mu.Unlock()
	c.best = best
}

// hashAt returns the hash of the block stored for a height (zero if none),
// whether visible or not.
func (c *c20Chain) hashAt(height uint32) chainhash.Hash {
	c.mu.Lock()
	defer c.mu.Unlock()

	return c.byHeight[int64(height)]
}

// addBlock stores a block at the given height. Every output of every
// transaction is unspent unless listed in spent.
func (c *c20Chain) addBlock(height uint32, txs []*wire.MsgTx,
	spent map[wire.OutPoint]bool) {

	blk := &wire.MsgBlock{
		Header: wire.BlockHeader{
			Version:   2,
			Timestamp: time.Unix(1231006505+int64(height)*600, 0),
			Nonce:     height,
		},
		Transactions: txs,
	}
	h := blk.BlockHash()

	c.mu.Lock()
	defer c.mu.Unlock()
	c.byHeight[int64(height)] = h
	c.blocks[h] = blk
	c.heightOf[h] = int64(height)
	for _, tx := range txs {
		txid := tx.TxHash()
		for i, out := range tx.TxOut {
			op := wire.OutPoint{Hash: txid, Index: uint32(i)}
			if spent[op] {
				continue
			}
			c.utxos[op] = out
			c.utxoHeight[op] = int64(height)
		}
	}
}

func (c *c20Chain) GetBestBlock() (*chainhash.Hash, int32, error) {
	c.mu.Lock()
	defer c.mu.Unlock()
	h := c.byHeight[int64(c.best)]

	return &h, c.best, nil
}

func (c *c20Chain) GetBlockHash(height int64) (*chainhash.Hash, error) {
	c.mu.Lock()
	defer c.mu.Unlock()
	h, ok := c.byHeight[height]
	if !ok || height > int64(c.best) {
		// btcd: "-1: Block number out of range", bitcoind:
		// "Block height out of range".
		return nil, fmt.Errorf("-1: Block number out of range")
	}

	return &h, nil
}

func (c *c20Chain) GetBlock(hash *chainhash.Hash) (*wire.MsgBlock, error) {
	c.mu.Lock()
	defer c.mu.Unlock()
	c.nGetBlock++
	b, ok := c.blocks[*hash]
	if !ok || c.heightOf[*hash] > int64(c.best) {
		return nil, fmt.Errorf("-5: Block not found")
	}

	return b, nil
}

func (c *c20Chain) GetBlockHeader(hash *chainhash.Hash) (*wire.BlockHeader,
	error) {

	c.mu.Lock()
	defer c.mu.Unlock()
	b, ok := c.blocks[*hash]
	if !ok || c.heightOf[*hash] > int64(c.best) {
		return nil, fmt.Errorf("-5: Block not found")
	}
	hdr := b.Header

	return &hdr, nil
}

// GetUtxo answers like a full node's gettxout: the output as it is on
// chain when unspent, ErrOutputSpent otherwise.
func (c *c20Chain) GetUtxo(op *wire.OutPoint, _ []byte, _ uint32,
	_ <-chan struct{}) (*wire.TxOut, error) {

	c.mu.Lock()
	defer c.mu.Unlock()
	c.nGetUtxo++
	out, ok := c.utxos[*op]
	if !ok || c.utxoHeight[*op] > int64(c.best) {
		return nil, btcwallet.ErrOutputSpent
	}

	return out, nil
}

// ---------------------------------------------------------------------------
// graph

// c20GraphView is what the engine needs from the graph the gossiper writes
// to: the ChannelGraphSource handed to the gossiper plus read-back.
type c20GraphView interface {
	graph.ChannelGraphSource

	snap() *c20Snap
	info(scid uint64) (models.ChannelEdgeInfo, bool)
	policy(scid uint64, dir int) (models.ChannelEdgePolicy, bool)
	node(k route.Vertex) (models.Node, int)
	shutdown()
}

// c20Graph is the fixture's mockGraphSource with AddNode as an upsert.
type c20Graph struct {
	*mockGraphSource
}

var _ c20GraphView = (*c20Graph)(nil)

func (g *c20Graph) shutdown() {}

// c20ShellNode is the snapshot rendering of a node that exists only as the
// endpoint of a channel (no announcement stored).
const c20ShellNode = "SHELL"

func (g *c20Graph) AddNode(_ context.Context, node *models.Node,
	_ ...batch.SchedulerOption) error {

	g.mu.Lock()
	defer g.mu.Unlock()
	for i := range g.nodes {
		if g.nodes[i].PubKeyBytes == node.PubKeyBytes {
			g.nodes[i] = *node
			return nil
		}
	}
	g.nodes = append(g.nodes, *node)

	return nil
}

var c20Spew = spew.ConfigState{
	Indent:                  " ",
	DisablePointerAddresses: true,
	DisableCapacities:       true,
	SortKeys:                true,
	DisableMethods:          true,
}

// c20Snap is a value copy of what pathfinding trusts: channels, policies,
// nodes (rendered canonically); the zombie index is kept apart.
type c20Snap struct {
	infos   map[uint64]string
	edges   map[uint64][2]string
	nodes   map[route.Vertex]string
	zombies map[uint64]bool
}

func (g *c20Graph) snap() *c20Snap {
	g.mu.Lock()
	defer g.mu.Unlock()

	s := &c20Snap{
		infos:   make(map[uint64]string),
		edges:   make(map[uint64][2]string),
		nodes:   make(map[route.Vertex]string),
		zombies: make(map[uint64]bool),
	}
	for id, info := range g.infos {
		s.infos[id] = c20Spew.Sdump(info)
	}
	for id, e := range g.edges {
		var pair [2]string
		for d := 0; d < 2 && d < len(e); d++ {
			pair[d] = c20Spew.Sdump(e[d])
		}
		s.edges[id] = pair
	}
	for i, n := range g.nodes {
		if _, dup := s.nodes[n.PubKeyBytes]; dup {
			s.nodes[n.PubKeyBytes] += fmt.Sprintf("DUP@%d", i)
		}
		s.nodes[n.PubKeyBytes] += c20Spew.Sdump(n)
	}
	for id := range g.zombies {
		s.zombies[id] = true
	}

	return s
}

// diff lists what differs between two snapshots (zombie index excluded) as
// tokens "chan:<scid>", "pol:<scid>/<dir>", "node:<pubkey hex>".
func (a *c20Snap) diff(b *c20Snap) []string {
	var out []string
	for id, v := range a.infos {
		if w, ok := b.infos[id]; !ok {
			out = append(out, fmt.Sprintf("chan:%d", id))
		} else if v != w {
			out = append(out, fmt.Sprintf("chan:%d", id))
		}
	}
	for id := range b.infos {
		if _, ok := a.infos[id]; !ok {
			out = append(out, fmt.Sprintf("chan:%d", id))
		}
	}
	ids := make(map[uint64]bool)
	for id := range a.edges {
		ids[id] = true
	}
	for id := range b.edges {
		ids[id] = true
	}
	emptyPol := c20Spew.Sdump(models.ChannelEdgePolicy{})
	norm := func(s string) string {
		if s == emptyPol {
			return ""
		}

		return s
	}
	for id := range ids {
		x, y := a.edges[id], b.edges[id]
		for d := 0; d < 2; d++ {
			if norm(x[d]) != norm(y[d]) {
				out = append(out, fmt.Sprintf(
					"pol:%d/%d", id, d))
			}
		}
	}
	for k, v := range a.nodes {
		if w, ok := b.nodes[k]; !ok {
			out = append(out, fmt.Sprintf("node:%x", k[:]))
		} else if v != w {
			out = append(out, fmt.Sprintf("node:%x", k[:]))
		}
	}
	for k := range b.nodes {
		if _, ok := a.nodes[k]; !ok {
			out = append(out, fmt.Sprintf("node:%x", k[:]))
		}
	}
	sort.Strings(out)

	return out
}

func (g *c20Graph) info(scid uint64) (models.ChannelEdgeInfo, bool) {
	g.mu.Lock()
	defer g.mu.Unlock()
	i, ok := g.infos[scid]

	return i, ok
}

func (g *c20Graph) policy(scid uint64, dir int) (models.ChannelEdgePolicy,
	bool) {

	g.mu.Lock()
	defer g.mu.Unlock()
	e, ok := g.edges[scid]
	if !ok || len(e) != 2 || e[dir].SigBytes == nil {
		return models.ChannelEdgePolicy{}, false
	}

	return e[dir], true
}

func (g *c20Graph) node(k route.Vertex) (models.Node, int) {
	g.mu.Lock()
	defer g.mu.Unlock()
	var (
		res models.Node
		cnt int
	)
	for _, n := range g.nodes {
		if n.PubKeyBytes == k {
			if cnt == 0 {
				res = n
			}
			cnt++
		}
	}

	return res, cnt
}

// ---------------------------------------------------------------------------
// gossiper

type c20Ctx struct {
	g        *AuthenticatedGossiper
	graph    c20GraphView
	chain    *c20Chain
	notifier *mockNotifier

	bmu   sync.Mutex
	bcast []lnwire.Message
}

func (c *c20Ctx) broadcasts() []lnwire.Message {
	c.bmu.Lock()
	defer c.bmu.Unlock()

	return append([]lnwire.Message(nil), c.bcast...)
}

// c20Self is this node's identity; never part of a generated universe.
var c20SelfPriv, _ = btcec.PrivKeyFromBytes([]byte(
	"c20-self-key-c20-self-key-c20-se"))

// c20NewCtx is createTestCtx (gossiper_test.go) with the differences listed
// at the top of this file. wps is shared by all cases of a test: the
// waiting-proof store is only touched by AnnounceSignatures, which this
// check never sends.
func c20NewCtx(t *testing.T, wps *channeldb.WaitingProofStore,
	chain *c20Chain, height uint32, gv c20GraphView) (*c20Ctx, error) {

	return c20NewCtxOpts(t, wps, chain, height, gv, c20CtxOpts{})
}

// c20CtxOpts: what the local-announcement tests need to vary.
type c20CtxOpts struct {
	self       *btcec.PrivateKey // this node's identity (c20SelfPriv)
	proofDelta uint32            // ProofMatureDelta (fixture: 0)

	// isAlias, if set, is the gossiper's IsAlias predicate (fixture:
	// nothing is an alias).
	isAlias func(lnwire.ShortChannelID) bool

	// onlinePeer, if set, supplies the peer object the reliable sender
	// gets for a node that "comes online".
	onlinePeer func(pk *btcec.PublicKey) lnpeer.Peer
}

func c20NewCtxOpts(t *testing.T, wps *channeldb.WaitingProofStore,
	chain *c20Chain, height uint32, gv c20GraphView,
	opts c20CtxOpts) (*c20Ctx, error) {

	selfPriv := opts.self
	if selfPriv == nil {
		selfPriv = c20SelfPriv
	}
	if gv == nil {
		gv = &c20Graph{newMockRouter(t, height)}
	}
	ctx := &c20Ctx{
		graph:    gv,
		chain:    chain,
		notifier: newMockNotifier(),
	}
	selfDesc := &keychain.KeyDescriptor{
		PubKey:     selfPriv.PubKey(),
		KeyLocator: testKeyLoc,
	}
	hID := lnwire.ShortChannelID{BlockHeight: height}

	ctx.g = New(Config{
		ChanSeries:  newMockChannelGraphTimeSeries(hID),
		ChainIO:     chain,
		ChainParams: &chaincfg.MainNetParams,
		Notifier:    ctx.notifier,
		Broadcast: func(_ map[route.Vertex]struct{},
			msgs ...lnwire.Message) error {

			ctx.bmu.Lock()
			ctx.bcast = append(ctx.bcast, msgs...)
			ctx.bmu.Unlock()

			return nil
		},
		NotifyWhenOnline: func(target [33]byte,
			peerChan chan<- lnpeer.Peer) {

			pk, _ := btcec.ParsePubKey(target[:])
			if opts.onlinePeer != nil {
				peerChan <- opts.onlinePeer(pk)
				return
			}
			peerChan <- &mockPeer{pk: pk}
		},
		NotifyWhenOffline: func(_ [33]byte) <-chan struct{} {
			return make(chan struct{})
		},
		FetchSelfAnnouncement: func() lnwire.NodeAnnouncement1 {
			return lnwire.NodeAnnouncement1{Timestamp: testTimestamp}
		},
		UpdateSelfAnnouncement: func() (lnwire.NodeAnnouncement1,
			error) {

			return lnwire.NodeAnnouncement1{
				Timestamp: testTimestamp,
			}, nil
		},
		Graph:                 ctx.graph,
		TrickleDelay:          c20Trickle,
		RetransmitTicker:      ticker.NewForce(retransmitDelay),
		RebroadcastInterval:   rebroadcastInterval,
		ProofMatureDelta:      proofMatureDelta + opts.proofDelta,
		WaitingProofStore:     wps,
		MessageStore:          newMockMessageStore(),
		RotateTicker:          ticker.NewForce(DefaultSyncerRotationInterval),
		HistoricalSyncTicker:  ticker.NewForce(DefaultHistoricalSyncInterval),
		NumActiveSyncers:      3,
		AnnSigner:             &mock.SingleSigner{Privkey: selfPriv},
		SubBatchDelay:         time.Millisecond,
		MinimumBatchSize:      10,
		MaxChannelUpdateBurst: DefaultMaxChannelUpdateBurst,
		ChannelUpdateInterval: DefaultChannelUpdateInterval,
		IsAlias: func(scid lnwire.ShortChannelID) bool {
			if opts.isAlias != nil {
				return opts.isAlias(scid)
			}

			return false
		},
		SignAliasUpdate: func(*lnwire.ChannelUpdate1) (*ecdsa.Signature,
			error) {

			return nil, nil
		},
		FindBaseByAlias: func(lnwire.ShortChannelID) (
			lnwire.ShortChannelID, error) {

			return lnwire.ShortChannelID{}, fmt.Errorf("no base scid")
		},
		GetAlias: func(lnwire.ChannelID) (lnwire.ShortChannelID,
			error) {

			return lnwire.ShortChannelID{}, fmt.Errorf("no peer alias")
		},
		FindChannel:  mockFindChannel,
		ScidCloser:   newMockScidCloser(false),
		BanThreshold: DefaultBanThreshold,
	}, selfDesc)

	if err := ctx.g.Start(); err != nil {
		return nil, err
	}
	ctx.g.syncMgr.markGraphSynced()

	return ctx, nil
}

func (c *c20Ctx) stop() {
	_ = c.g.Stop()
	c.graph.shutdown()
}

// c20Pending is a message handed to ProcessRemoteAnnouncement whose result
// is collected asynchronously.
type c20Pending struct {
	msg  lnwire.Message
	done chan error
}

// send hands msg to the gossiper as coming from peer. It returns once the
// gossiper's main loop has taken the message (ProcessRemoteAnnouncement
// blocks on the unbuffered networkMsgs channel).
func (c *c20Ctx) send(ctx context.Context, msg lnwire.Message,
	peer lnpeer.Peer) *c20Pending {

	p := &c20Pending{msg: msg, done: make(chan error, 1)}
	fut := c.g.ProcessRemoteAnnouncement(ctx, msg, peer)
	go func() {
		err := AwaitGossipResult(ctx, fut)
		p.done <- err
	}()

	return p
}

// c20Outcome of waiting for a message.
type c20Outcome int

const (
	c20Done     c20Outcome = iota // result delivered
	c20Stashed                    // parked in the premature-update cache
	c20TimedOut                   // neither within the deadline
)

// await waits for the result of p. Channel updates for an unknown channel
// get no result at all (gossiper.go: "We don't return anything on the error
// channel for this message"); they are recognised by their presence in
// prematureChannelUpdates (pointer identity of the message).
func (c *c20Ctx) await(p *c20Pending, deadline time.Duration,
	allowStash bool) (c20Outcome, error) {

	upd, isUpd := p.msg.(*lnwire.ChannelUpdate1)
	isUpd = isUpd && allowStash
	timeout := time.After(deadline)
	poll := 50 * time.Microsecond
	for {
		select {
		case err := <-p.done:
			return c20Done, err
		case <-timeout:
			return c20TimedOut, nil
		case <-time.After(poll):
		}
		if poll < 2*time.Millisecond {
			poll *= 2
		}
		if !isUpd {
			continue
		}
		cached, err := c.g.prematureChannelUpdates.Get(
			upd.ShortChannelID.ToUint64(),
		)
		if err != nil {
			continue
		}
		for _, pm := range cached.msgs {
			if pm.msg != nil && pm.msg.msg == p.msg {
				// A result may still have raced in.
				select {
				case err := <-p.done:
					return c20Done, err
				default:
				}

				return c20Stashed, nil
			}
		}
	}
}
