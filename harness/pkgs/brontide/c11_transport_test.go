//go:build verif

package brontide

// C11 transport part (Machine level): generated message plans in both
// directions, long enough to cross several key rotations, flushed through a
// scripted writer that accepts a generated number of bytes and then times
// out. Oracles: byte-exact in-order delivery, Flush plaintext-byte
// accounting, byte-identical ciphertext with the independent BOLT-8
// reference (c11_ref_test.go) and the direct (key, nonce) monitor.

import (
	"errors"
	"fmt"
	"testing"

	"github.com/lightningnetwork/lnd/internal/verif/vstats"
	"pgregory.net/rapid"
)

// Size classes of a step.
const (
	c11SzZero = iota
	c11SzOne
	c11SzSmall  // 2..64
	c11SzBlock  // around ChaCha20 block / Poly1305 16-byte boundaries
	c11SzMedium // 65..1500
	c11SzMax1   // 65534
	c11SzMax    // 65535
	c11SzAny    // 0..65535
	c11SzClasses
)

func c11Size(p *c11PRNG, class int) int {
	switch class {
	case c11SzZero:
		return 0
	case c11SzOne:
		return 1
	case c11SzSmall:
		return 2 + p.intn(63)
	case c11SzBlock:
		base := []int{15, 16, 17, 31, 32, 33, 63, 64, 65, 127, 128, 129,
			255, 256, 257, 4095, 4096, 4097}

		return base[p.intn(len(base))]
	case c11SzMedium:
		return 65 + p.intn(1436)
	case c11SzMax1:
		return 65534
	case c11SzMax:
		return 65535
	default:
		return p.intn(65536)
	}
}

// Partial-write budget kinds, relative to a frame of 18+len+16 bytes.
const (
	c11FrZero      = iota // accept nothing
	c11FrInHdrLen         // inside the 2 length bytes
	c11FrInHdrMac         // inside the header MAC
	c11FrHdrEnd           // exactly after the header
	c11FrBodyFirst        // one byte into the body
	c11FrInBody           // anywhere in the body ciphertext
	c11FrBodyEnd          // exactly before the body MAC
	c11FrInMac            // inside the body MAC
	c11FrLast             // all but the last byte
	c11FrAny              // anywhere
	c11FrKinds
)

// c11Budget returns an absolute offset (bytes accepted before the timeout)
// inside a frame with n payload bytes.
func c11Budget(p *c11PRNG, kind, n int) int {
	total := 18 + n + 16
	switch kind {
	case c11FrZero:
		return 0
	case c11FrInHdrLen:
		return 1 + p.intn(2)
	case c11FrInHdrMac:
		return 2 + p.intn(16)
	case c11FrHdrEnd:
		return 18
	case c11FrBodyFirst:
		return 19
	case c11FrInBody:
		if n == 0 {
			return 18
		}

		return 18 + p.intn(n+1)
	case c11FrBodyEnd:
		return 18 + n
	case c11FrInMac:
		return 18 + n + 1 + p.intn(15)
	case c11FrLast:
		return total - 1
	default:
		return p.intn(total)
	}
}

// c11Script turns sorted absolute cut offsets into the writer's budget
// queue (each budget is relative to the previous timeout).
func c11Script(cuts []int) []int {
	// insertion sort, tiny slices
	for i := 1; i < len(cuts); i++ {
		for j := i; j > 0 && cuts[j] < cuts[j-1]; j-- {
			cuts[j], cuts[j-1] = cuts[j-1], cuts[j]
		}
	}
	out := make([]int, 0, len(cuts))
	prev := 0
	for _, c := range cuts {
		out = append(out, c-prev)
		prev = c
	}

	return out
}

// c11Step is one generated plan step: `repeat` messages in one direction.
type c11Step struct {
	dir      int
	repeat   int
	kind     string
	sizeCls  int
	seed     uint64
	fragMask int // bit set over c11Fr* kinds; 0 = unfragmented
	nfrag    int // cuts per message
	fragEach int // fragment every fragEach-th message of the step
	mid      c11MidAction
	oversize bool
	mode     c11ReadMode
	chunk    int
	drain    bool
}

// c11PlanLimits bound a plan.
type c11PlanLimits struct {
	maxSteps  int
	maxPerDir int
}

// c11DrawPlan generates a plan. sent[dir] tracks messages already sent so
// "to-boundary" steps can aim at the next rotation (every 500 messages: two
// encryptions per message, rotation after 1000 encryptions).
func c11DrawPlan(s c11Src, lim c11PlanLimits, sent [2]int) []c11Step {
	n := s.Int("nsteps", 1, lim.maxSteps)
	plan := make([]c11Step, 0, n)
	for i := 0; i < n; i++ {
		st := c11Step{
			dir:  s.Int("dir", 0, 1),
			seed: uint64(s.Int("seed", 0, 1<<30)),
		}
		switch k := s.Int("kind", 0, 9); {
		case k <= 4:
			st.kind = "detail"
			st.repeat = s.Int("repeat", 1, 6)
			st.sizeCls = s.Int("size", 0, c11SzClasses-1)
		case k <= 7:
			st.kind = "to_boundary"
			// land 0..3 messages before the next rotation
			left := 500 - sent[st.dir]%500
			st.repeat = left - s.Int("short", 0, 3)
			if st.repeat < 1 {
				st.repeat = 1
			}
			st.sizeCls = s.Int("size", 0, c11SzMedium)
		default:
			st.kind = "bulk"
			st.repeat = s.Int("repeat", 7, 120)
			st.sizeCls = s.Int("size", 0, c11SzMedium)
		}
		if room := lim.maxPerDir - sent[st.dir]; st.repeat > room {
			st.repeat = room
		}
		if st.repeat <= 0 {
			continue
		}
		if s.Int("frag", 0, 2) > 0 {
			st.fragMask = s.Int("fragMask", 1, 1<<c11FrKinds-1)
			st.nfrag = s.Int("nfrag", 1, 4)
			st.fragEach = 1
			if st.repeat > 8 {
				st.fragEach = s.Int("fragEach", 1, 7)
			}
			st.mid = c11MidAction(s.Int("mid", 0, 3) % 3)
		}
		st.oversize = s.Int("oversize", 0, 15) == 0
		st.mode = c11ReadMode(s.Int("readMode", 0, 1))
		switch s.Int("chunkCls", 0, 3) {
		case 0:
			st.chunk = 0
		case 1:
			st.chunk = 1
		case 2:
			st.chunk = s.Int("chunk", 2, 40)
		default:
			st.chunk = s.Int("chunk", 41, 70000)
		}
		if st.repeat > 8 && st.chunk == 1 && st.sizeCls >= c11SzMedium {
			st.chunk = 7
		}
		st.drain = s.Int("drain", 0, 4) > 0
		sent[st.dir] += st.repeat
		plan = append(plan, st)
	}

	return plan
}

// c11RunStats is what a plan run observed.
type c11RunStats struct {
	msgs       [2]int
	partials   [2]int
	bytes      int
	sizeSeen   [c11SzClasses]bool
	fragSeen   [c11FrKinds]bool
	midWrite   int
	midPeer    int
	oversize   int
	partialRot int // partial flush of a message adjacent to a rotation
}

var c11Big = make([]byte, 65536)

// c11RunPlan executes a plan on an established session.
func c11RunPlan(t c11TB, ses *c11Session, plan []c11Step, rs *c11RunStats) {
	for _, st := range plan {
		from, _ := ses.side(st.dir)
		p := &c11PRNG{s: st.seed}
		for i := 0; i < st.repeat; i++ {
			n := c11Size(p, st.sizeCls)
			rs.sizeSeen[st.sizeCls] = true
			payload := make([]byte, n)
			p.fill(payload)

			var script []int
			mid := c11MidNone
			var midPayload []byte
			if st.fragMask != 0 && i%st.fragEach == 0 {
				cuts := make([]int, 0, st.nfrag)
				for c := 0; c < st.nfrag; c++ {
					// pick an enabled kind
					kind := p.intn(c11FrKinds)
					for st.fragMask&(1<<uint(kind)) == 0 {
						kind = (kind + 1) % c11FrKinds
					}
					rs.fragSeen[kind] = true
					cuts = append(cuts, c11Budget(p, kind, n))
				}
				script = c11Script(cuts)
				mid = st.mid
				if mid != c11MidNone {
					midPayload = make([]byte, p.intn(40))
					p.fill(midPayload)
				}
				idx := from.sent % 500
				if idx >= 498 || idx <= 1 {
					rs.partialRot++
				}
			}

			if st.oversize && i == 0 {
				// A too large message is refused and leaves the stream
				// untouched (the differential below would notice).
				err := from.m.WriteMessage(c11Big)
				if !errors.Is(err, ErrMaxMessageLengthExceeded) {
					t.Fatalf("WriteMessage(65536 bytes) returned %v", err)
				}
				rs.oversize++
			}

			before := from.partials
			ses.c11Send(t, st.dir, payload, script, mid, midPayload)
			if from.partials > before {
				switch mid {
				case c11MidWrite:
					rs.midWrite++
				case c11MidPeer:
					rs.midPeer++
				}
			}
			rs.bytes += n
		}
		if st.drain {
			var chunks []int
			if st.chunk > 0 {
				chunks = []int{st.chunk}
			}
			ses.c11Drain(t, st.dir, st.mode, chunks)
			// A mid-flush peer message may be waiting the other way.
			ses.c11Drain(t, 1-st.dir, st.mode, chunks)
		}
	}
	ses.c11Drain(t, 0, c11ReadWhole, nil)
	ses.c11Drain(t, 1, c11ReadSplit, []int{5})

	rs.msgs = [2]int{ses.a.sent, ses.b.sent}
	rs.partials = [2]int{ses.a.partials, ses.b.partials}

	// Both directions end in the state the reference predicts.
	for _, sd := range []*c11Side{ses.a, ses.b} {
		if c11B32(sd.m.sendCipher.secretKey) != sd.ref.key ||
			c11B32(sd.m.sendCipher.salt) != sd.ref.ck ||
			sd.m.sendCipher.nonce != sd.ref.n {

			t.Fatalf("%s send cipher state diverged from the reference "+
				"after %d messages (nonce %d vs %d)", sd.name, sd.sent,
				sd.m.sendCipher.nonce, sd.ref.n)
		}
	}
	if c11B32(ses.a.m.recvCipher.secretKey) != ses.b.ref.key ||
		c11B32(ses.b.m.recvCipher.secretKey) != ses.a.ref.key {

		t.Fatalf("receive keys diverged from the peer's send keys")
	}
	if want := 2 * (ses.a.sent + ses.b.sent); ses.mon.seals != want {
		t.Fatalf("monitor saw %d encryptions for %d messages",
			ses.mon.seals, want/2)
	}
	if len(ses.mon.seen) != ses.mon.seals {
		t.Fatalf("(key, nonce) reuse: %d distinct pairs for %d encryptions",
			len(ses.mon.seen), ses.mon.seals)
	}
}

func c11Bucket(n int) string {
	switch {
	case n == 0:
		return "0"
	case n == 1:
		return "1"
	case n == 2:
		return "2"
	default:
		return "3+"
	}
}

func (rs *c11RunStats) labels(ses *c11Session) (labels []string,
	nontrivial bool) {

	for d, sd := range []*c11Side{ses.a, ses.b} {
		labels = append(labels, fmt.Sprintf("rot[%d]:%s", d,
			c11Bucket(sd.ref.rotations)))
		if sd.ref.rotations >= 1 && rs.partials[d] >= 1 {
			nontrivial = true
		}
	}
	if ses.a.ref.rotations >= 2 && ses.b.ref.rotations >= 2 {
		labels = append(labels, "rot:both>=2")
	}
	if rs.partials[0]+rs.partials[1] > 0 {
		labels = append(labels, "partial_flush")
	}
	if rs.partialRot > 0 {
		labels = append(labels, "partial_flush_at_rotation")
	}
	if rs.midWrite > 0 {
		labels = append(labels, "mid:write_refused")
	}
	if rs.midPeer > 0 {
		labels = append(labels, "mid:peer_message")
	}
	if rs.oversize > 0 {
		labels = append(labels, "oversize_refused")
	}
	names := []string{"0", "1", "small", "block", "medium", "65534",
		"65535", "any"}
	for i, v := range rs.sizeSeen {
		if v {
			labels = append(labels, "size:"+names[i])
		}
	}
	fr := []string{"zero", "hdr_len", "hdr_mac", "hdr_end", "body_first",
		"body", "body_end", "body_mac", "last", "any"}
	for i, v := range rs.fragSeen {
		if v {
			labels = append(labels, "cut:"+fr[i])
		}
	}

	return labels, nontrivial
}

func c11PlanFP(plan []c11Step) []byte {
	var b []byte
	for _, s := range plan {
		b = append(b, fmt.Sprintf("%d.%d.%d.%d.%d.%d.%d.%d.%v.%d.%d.%v|",
			s.dir, s.repeat, s.sizeCls, s.seed, s.fragMask, s.nfrag,
			s.fragEach, s.mid, s.oversize, s.mode, s.chunk, s.drain)...)
	}

	return b
}

func c11PlanSample(plan []c11Step) []string {
	var out []string
	for i, s := range plan {
		if i == 12 {
			out = append(out, fmt.Sprintf("... %d more steps", len(plan)-i))
			break
		}
		out = append(out, fmt.Sprintf(
			"%s dir=%d x%d size=%d frag=%#x/%d every=%d mid=%d chunk=%d",
			s.kind, s.dir, s.repeat, s.sizeCls, s.fragMask, s.nfrag,
			s.fragEach, s.mid, s.chunk))
	}

	return out
}

// TestVerifC11Transport: generated bidirectional message plans.
func TestVerifC11Transport(t *testing.T) {
	st := vstats.New("TestVerifC11Transport")
	defer st.Flush()

	lim := c11PlanLimits{
		maxSteps:  vstats.EnvInt("VERIF_C11_STEPS", 40),
		maxPerDir: vstats.EnvInt("VERIF_C11_MAXMSG", 2600),
	}

	rapid.Check(t, func(rt *rapid.T) {
		s := c11RapidSrc{rt}
		k := c11DrawKeys(s)
		ses := c11NewSession(rt, k)
		plan := c11DrawPlan(s, lim, [2]int{})

		var rs c11RunStats
		c11RunPlan(rt, ses, plan, &rs)

		labels, nontrivial := rs.labels(ses)
		var sample any
		if nontrivial && st.WantSample() {
			sample = map[string]any{
				"test": "transport", "msgs": rs.msgs,
				"partial_flushes": rs.partials,
				"rotations": []int{ses.a.ref.rotations,
					ses.b.ref.rotations},
				"plan": c11PlanSample(plan),
			}
		}
		st.Count("messages", int64(rs.msgs[0]+rs.msgs[1]))
		st.Count("partial_flushes", int64(rs.partials[0]+rs.partials[1]))
		st.Count("plaintext_bytes", int64(rs.bytes))
		st.Case(vstats.FP(k.fp(), c11PlanFP(plan)), nontrivial, labels,
			sample)
	})
}
