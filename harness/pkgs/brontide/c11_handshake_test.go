//go:build verif

package brontide

// C11 handshake part: the three-act handshake completes exactly when the
// initiator targets the responder's real static key; on completion the send
// keys of each side equal the receive keys of the other (and the BOLT-8
// reference); every corruption / zero-padded truncation / wrong version /
// cross-session splice of each act is rejected by the corresponding
// RecvAct*. The same at the Conn/Listener layer (Dial + doHandshake over an
// in-memory connection with wire faults).

import (
	"fmt"
	"net"
	"sync"
	"testing"
	"time"

	"github.com/btcsuite/btcd/btcec/v2"
	"github.com/lightningnetwork/lnd/internal/verif/pipe"
	"github.com/lightningnetwork/lnd/internal/verif/vstats"
	"github.com/lightningnetwork/lnd/lnwire"
	"pgregory.net/rapid"
)

// c11Target picks the static key the initiator dials: the responder's real
// key or one of several wrong ones.
func c11Target(s c11Src, k c11Keys) (*btcec.PublicKey, string) {
	real := k.rs.PubKey()
	var (
		pub  *btcec.PublicKey
		name string
	)
	switch s.Int("target", 0, 9) {
	case 0:
		pub, name = c11Key(s, "wrongStatic").PubKey(), "other"
	case 1:
		// -R: same X coordinate, other parity.
		var neg btcec.ModNScalar
		neg.Set(&k.rs.Key).Negate()
		pub, name = btcec.PrivKeyFromScalar(&neg).PubKey(), "negated"
	case 2:
		pub, name = k.ls.PubKey(), "own_static"
	case 3:
		pub, name = k.re.PubKey(), "resp_ephemeral"
	default:
		return real, "real"
	}
	if pub.IsEqual(real) {
		return real, "real"
	}

	return pub, "wrong:" + name
}

// c11ActFaults enumerates corrupted versions of an act: every single byte
// position with a generated non-zero mask, plus generated multi-byte
// corruptions, zero-padded truncations and wrong versions.
func c11ActFaults(s c11Src, act []byte, name string,
	emit func(kind string, bad []byte)) {

	masks := s.Bytes(name+".masks", len(act))
	for i := range act {
		m := masks[i]
		if m == 0 {
			m = 1 << uint(i%8)
		}
		bad := append([]byte(nil), act...)
		bad[i] ^= m
		kind := "byte"
		if i == 0 {
			kind = "version"
		}
		emit(kind, bad)
	}

	// Every wrong version class: a generated one and the extremes.
	for _, v := range []byte{1, 0xff, byte(1 + s.Int(name+".version", 0, 254))} {
		bad := append([]byte(nil), act...)
		bad[0] = v
		emit("version", bad)
	}

	// Multi-byte corruptions.
	for j, n := 0, s.Int(name+".nmulti", 1, 4); j < n; j++ {
		bad := append([]byte(nil), act...)
		cnt := s.Int(name+".multi.count", 2, 8)
		for c := 0; c < cnt; c++ {
			p := s.Int(name+".multi.pos", 0, len(act)-1)
			bad[p] ^= byte(1 + s.Int(name+".multi.mask", 0, 254))
		}
		emit("multi", bad)
	}

	// Truncation, zero padded to the fixed act size (the Machine API takes
	// fixed-size arrays; short reads are exercised at the Conn layer).
	for j, n := 0, s.Int(name+".ntrunc", 1, 3); j < n; j++ {
		keep := s.Int(name+".trunc.keep", 0, len(act)-1)
		bad := make([]byte, len(act))
		copy(bad, act[:keep])
		emit("truncate", bad)
	}

	// A shifted act (one byte inserted at / deleted from the front).
	shiftR := make([]byte, len(act))
	copy(shiftR[1:], act)
	emit("shift", shiftR)
	shiftL := make([]byte, len(act))
	copy(shiftL, act[1:])
	emit("shift", shiftL)
}

func c11Equal(a, b []byte) bool {
	if len(a) != len(b) {
		return false
	}
	for i := range a {
		if a[i] != b[i] {
			return false
		}
	}

	return true
}

// c11HandshakeCase is one generated machine-level handshake case. It returns
// labels and the number of rejected corrupt acts.
func c11HandshakeCase(t c11TB, s c11Src) (k c11Keys, labels []string,
	faults int) {

	k = c11DrawKeys(s)
	target, tname := c11Target(s, k)
	labels = append(labels, "target:"+tname)
	if k.ls.PubKey().IsEqual(k.rs.PubKey()) {
		labels = append(labels, "same_static_both_sides")
	}

	hs := c11Handshake(t, k, target)
	if tname != "real" {
		if hs.ok {
			t.Fatalf("handshake completed with wrong target %s", tname)
		}
		// An initiator with the wrong key cannot proceed either: whatever
		// the responder would answer was derived from different secrets.
		// (The responder aborts, so there is no act two to check.)
		labels = append(labels, "hs:rejected")

		return k, labels, 0
	}
	if !hs.ok {
		t.Fatalf("handshake with the real static key did not complete")
	}
	labels = append(labels, "hs:completed")

	// Sanity of the snapshot technique: the genuine acts are accepted by
	// copies of the snapshots, so a rejection below is due to the fault.
	{
		m := hs.iniAfter1
		if err := m.RecvActTwo(hs.ref.act2); err != nil {
			t.Fatalf("snapshot initiator rejected genuine act two: %v", err)
		}
		r := hs.rspAfter2
		if err := r.RecvActThree(hs.ref.act3); err != nil {
			t.Fatalf("snapshot responder rejected genuine act three: %v", err)
		}
		fresh := NewBrontideMachine(false, c11ECDHKey(k.rs), nil,
			c11FixedEphemeral(k.re))
		if err := fresh.RecvActOne(hs.ref.act1); err != nil {
			t.Fatalf("fresh responder rejected genuine act one: %v", err)
		}
	}

	// Act one faults against a fresh responder.
	c11ActFaults(s, hs.ref.act1[:], "act1", func(kind string, bad []byte) {
		if c11Equal(bad, hs.ref.act1[:]) {
			return
		}
		var a [ActOneSize]byte
		copy(a[:], bad)
		r := NewBrontideMachine(false, c11ECDHKey(k.rs), nil,
			c11FixedEphemeral(k.re))
		if err := r.RecvActOne(a); err == nil {
			t.Fatalf("RecvActOne accepted a corrupted act one (%s):\n "+
				"bad %x\ngood %x", kind, bad, hs.ref.act1)
		}
		faults++
	})

	// Act two faults against the initiator snapshot.
	c11ActFaults(s, hs.ref.act2[:], "act2", func(kind string, bad []byte) {
		if c11Equal(bad, hs.ref.act2[:]) {
			return
		}
		var a [ActTwoSize]byte
		copy(a[:], bad)
		m := hs.iniAfter1
		if err := m.RecvActTwo(a); err == nil {
			t.Fatalf("RecvActTwo accepted a corrupted act two (%s):\n "+
				"bad %x\ngood %x", kind, bad, hs.ref.act2)
		}
		faults++
	})

	// Act three faults against the responder snapshot.
	c11ActFaults(s, hs.ref.act3[:], "act3", func(kind string, bad []byte) {
		if c11Equal(bad, hs.ref.act3[:]) {
			return
		}
		var a [ActThreeSize]byte
		copy(a[:], bad)
		m := hs.rspAfter2
		if err := m.RecvActThree(a); err == nil {
			t.Fatalf("RecvActThree accepted a corrupted act three (%s):"+
				"\n bad %x\ngood %x", kind, bad, hs.ref.act3)
		}
		faults++
	})

	// Splices: act one offered as act two and vice versa (same size); acts
	// two and three of another session between the same static keys (other
	// ephemerals); an act two carrying another valid ephemeral key under
	// the genuine MAC.
	{
		m := hs.iniAfter1
		if err := m.RecvActTwo(hs.ref.act1); err == nil {
			t.Fatalf("RecvActTwo accepted the session's own act one")
		}
		r := NewBrontideMachine(false, c11ECDHKey(k.rs), nil,
			c11FixedEphemeral(k.re))
		if hs.ref.act2 != hs.ref.act1 {
			if err := r.RecvActOne(hs.ref.act2); err == nil {
				// Act two is an ephemeral key and a MAC under another
				// key and digest: not a valid act one.
				t.Fatalf("RecvActOne accepted the session's act two")
			}
		}
		faults += 2

		k2 := k
		k2.le = c11Key(s, "otherInitEphemeral")
		k2.re = c11Key(s, "otherRespEphemeral")
		if !k2.le.PubKey().IsEqual(k.le.PubKey()) &&
			!k2.re.PubKey().IsEqual(k.re.PubKey()) {

			other := c11RefHandshake(k2.ls, k2.le, k2.rs, k2.re, target)
			m := hs.iniAfter1
			if err := m.RecvActTwo(other.act2); err == nil {
				t.Fatalf("RecvActTwo accepted act two of another session")
			}
			r := hs.rspAfter2
			if err := r.RecvActThree(other.act3); err == nil {
				t.Fatalf("RecvActThree accepted act three of another " +
					"session")
			}
			faults += 2
			labels = append(labels, "hs:cross_session_splice")

			// Genuine MAC, other (valid) ephemeral key.
			var a [ActTwoSize]byte
			a = hs.ref.act2
			copy(a[1:34], k2.re.PubKey().SerializeCompressed())
			m2 := hs.iniAfter1
			if err := m2.RecvActTwo(a); err == nil {
				t.Fatalf("RecvActTwo accepted a substituted ephemeral key")
			}
			var a1 [ActOneSize]byte
			a1 = hs.ref.act1
			copy(a1[1:34], k2.le.PubKey().SerializeCompressed())
			r1 := NewBrontideMachine(false, c11ECDHKey(k.rs), nil,
				c11FixedEphemeral(k.re))
			if err := r1.RecvActOne(a1); err == nil {
				t.Fatalf("RecvActOne accepted a substituted ephemeral key")
			}
			faults += 2
		}
	}

	return k, labels, faults
}

// TestVerifC11Handshake: machine-level handshake cases.
func TestVerifC11Handshake(t *testing.T) {
	st := vstats.New("TestVerifC11Handshake")
	defer st.Flush()

	rapid.Check(t, func(rt *rapid.T) {
		s := c11RapidSrc{rt}
		k, labels, faults := c11HandshakeCase(rt, s)
		st.Count("act_faults_rejected", int64(faults))
		var sample any
		if st.WantSample() {
			sample = map[string]any{
				"test":   "handshake",
				"labels": labels,
				"faults": faults,
				"initStatic": fmt.Sprintf("%x",
					k.ls.PubKey().SerializeCompressed()),
			}
		}
		// Non-trivial: a wrong-key case or a case whose acts were swept
		// with corruptions (a tamper case).
		st.Case(vstats.FP(k.fp(), labels[0]), true, labels, sample)
	})
}

// ---- Conn / Listener layer ------------------------------------------------

// c11EphemeralQueue installs a package-level ephemeral generator that hands
// out the given keys in order. Dial's GenActOne strictly precedes the
// listener's GenActTwo (which needs act one), so the order is determined.
func c11EphemeralQueue(keys ...*btcec.PrivateKey) (restore func()) {
	var mu sync.Mutex
	old := ephemeralGen
	i := 0
	ephemeralGen = func() (*btcec.PrivateKey, error) {
		mu.Lock()
		defer mu.Unlock()
		if i >= len(keys) {
			return nil, fmt.Errorf("c11: ephemeral queue exhausted")
		}
		k, _ := btcec.PrivKeyFromBytes(keys[i].Serialize())
		i++

		return k, nil
	}

	return func() { ephemeralGen = old }
}

// c11ConnPair is the outcome of a Conn-layer handshake.
type c11ConnPair struct {
	ini, rsp       *Conn
	iniErr, rspErr error
	pi, pr         *pipe.Conn
	rspResults     int
}

// c11ConnHandshake runs Dial against Listener.doHandshake over an in-memory
// connection. prep may install wire faults on the raw ends first.
func c11ConnHandshake(k c11Keys, target *btcec.PublicKey,
	prep func(ini, rsp *pipe.Conn)) *c11ConnPair {

	restore := c11EphemeralQueue(k.le, k.re)
	defer restore()

	pi, pr := pipe.NewPair()
	if prep != nil {
		prep(pi, pr)
	}

	l := &Listener{
		localStatic:   c11ECDHKey(k.rs),
		shouldAccept:  DisabledBanClosure,
		handshakeSema: make(chan struct{}, 1),
		conns:         make(chan maybeConn, 8),
		quit:          make(chan struct{}),
	}

	res := &c11ConnPair{pi: pi, pr: pr}
	var wg sync.WaitGroup
	wg.Add(2)
	go func() {
		defer wg.Done()
		l.doHandshake(pr)
	}()
	go func() {
		defer wg.Done()
		addr := &lnwire.NetAddress{
			IdentityKey: target,
			Address: &net.TCPAddr{
				IP: net.IPv4(10, 0, 0, 2), Port: 9735,
			},
		}
		dial := func(_, _ string, _ time.Duration) (net.Conn, error) {
			return pi, nil
		}
		res.ini, res.iniErr = Dial(c11ECDHKey(k.ls), addr, time.Minute, dial)
	}()
	wg.Wait()

	// The listener reports exactly one outcome per connection. Should it
	// ever report several, any produced connection counts as "accepted".
	n := 0
	for done := false; !done; {
		select {
		case mc := <-l.conns:
			if n == 0 || (mc.conn != nil && res.rsp == nil) {
				res.rsp, res.rspErr = mc.conn, mc.err
			}
			n++
		default:
			done = true
		}
	}
	res.rspResults = n
	if n == 0 {
		res.rspErr = fmt.Errorf("c11: listener produced no result")
	}

	return res
}

// TestVerifC11ConnHandshake: the handshake through Dial and the Listener,
// with generated wire faults in either direction.
func TestVerifC11ConnHandshake(t *testing.T) {
	st := vstats.New("TestVerifC11ConnHandshake")
	defer st.Flush()

	rapid.Check(t, func(rt *rapid.T) {
		s := c11RapidSrc{rt}
		k := c11DrawKeys(s)
		target, tname := c11Target(s, k)
		labels := []string{"conn:target:" + tname}

		// Wire fault.
		const (
			fNone = iota
			fXorI // initiator -> responder stream (act one 0..49, act three 50..115)
			fXorR // responder -> initiator stream (act two 0..49)
			fCutI
			fCutR
		)
		fault := fNone
		if s.Int("faulty", 0, 2) > 0 {
			fault = s.Int("fault", fXorI, fCutR)
		}
		var off int
		var mask byte
		switch fault {
		case fXorI:
			off = s.Int("xorI.off", 0, ActOneSize+ActThreeSize-1)
			mask = byte(1 + s.Int("mask", 0, 254))
		case fXorR:
			off = s.Int("xorR.off", 0, ActTwoSize-1)
			mask = byte(1 + s.Int("mask", 0, 254))
		case fCutI:
			off = s.Int("cutI.off", 0, ActOneSize+ActThreeSize-1)
		case fCutR:
			// Strictly inside act two: a cut after the complete act would
			// race with the initiator's act three (the closing goroutine is
			// the responder's), making the outcome schedule dependent.
			off = s.Int("cutR.off", 0, ActTwoSize-1)
		}
		labels = append(labels, fmt.Sprintf("conn:fault:%d", fault))

		// The stream may arrive in small segments at either end.
		segI, segR := 0, 0
		if s.Int("segmented", 0, 1) == 1 {
			segI = s.Int("segI", 1, 20)
			segR = s.Int("segR", 1, 20)
			labels = append(labels, "conn:segmented_reads")
		}

		res := c11ConnHandshake(k, target, func(pi, pr *pipe.Conn) {
			pi.SetReadChunk(segI)
			pr.SetReadChunk(segR)
			switch fault {
			case fXorI:
				pi.XorOut(off, mask)
			case fXorR:
				pr.XorOut(off, mask)
			case fCutI:
				pi.CutOut(off)
			case fCutR:
				pr.CutOut(off)
			}
		})

		// What must happen.
		wantRsp := tname == "real"
		wantIni := tname == "real"
		iniMay := false // initiator cannot know (fault only hits act three)
		if tname == "real" {
			switch fault {
			case fXorI:
				wantRsp = false
				if off < ActOneSize {
					wantIni = false
				} else {
					iniMay = true
				}
			case fCutI:
				wantRsp = false
				if off <= ActOneSize {
					wantIni = false
				} else {
					iniMay = true
				}
			case fXorR, fCutR:
				wantRsp, wantIni = false, false
			}
		}

		if (res.rspErr == nil) != wantRsp {
			rt.Fatalf("listener handshake: err=%v, want success=%v "+
				"(target %s, fault %d at %d mask %#x)", res.rspErr, wantRsp,
				tname, fault, off, mask)
		}
		if res.rspResults != 1 {
			rt.Fatalf("listener reported %d outcomes for one connection",
				res.rspResults)
		}
		if !wantRsp && res.rsp != nil {
			rt.Fatalf("listener returned a connection with an error")
		}
		if !iniMay && (res.iniErr == nil) != wantIni {
			rt.Fatalf("Dial: err=%v, want success=%v (target %s, fault %d "+
				"at %d mask %#x)", res.iniErr, wantIni, tname, fault, off,
				mask)
		}
		if res.iniErr != nil && res.ini != nil {
			rt.Fatalf("Dial returned a connection with an error")
		}
		if !wantRsp && !res.pr.Closed() {
			rt.Fatalf("a failed handshake left the connection open")
		}

		if wantRsp && wantIni {
			labels = append(labels, "conn:completed")
			ref := c11RefHandshake(k.ls, k.le, k.rs, k.re, target)
			c11CheckKeys(rt, res.ini.noise, res.rsp.noise, k, ref)
			if !res.ini.RemotePub().IsEqual(k.rs.PubKey()) ||
				!res.rsp.RemotePub().IsEqual(k.ls.PubKey()) ||
				!res.ini.LocalPub().IsEqual(k.ls.PubKey()) ||
				!res.rsp.LocalPub().IsEqual(k.rs.PubKey()) {

				rt.Fatalf("Conn reports wrong static keys")
			}
			// The wire carried exactly the three reference acts.
			wi, wr := res.pi.WireOut(), res.pr.WireOut()
			if !c11Equal(wi, append(append([]byte(nil), ref.act1[:]...),
				ref.act3[:]...)) || !c11Equal(wr, ref.act2[:]) {

				rt.Fatalf("wire bytes of the handshake differ from the " +
					"reference acts")
			}
		} else {
			labels = append(labels, "conn:rejected")
		}

		nontrivial := tname != "real" || fault != fNone
		st.Case(vstats.FP(k.fp(), tname, fault, off, int(mask), segI, segR),
			nontrivial,
			labels, map[string]any{
				"test": "conn_handshake", "target": tname, "fault": fault,
				"off": off, "mask": mask,
				"dialErr":   fmt.Sprint(res.iniErr),
				"acceptErr": fmt.Sprint(res.rspErr),
			})
	})
}
