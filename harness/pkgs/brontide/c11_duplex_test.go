//go:build verif

package brontide

// C11 full-duplex part: lnd's peer runs a read handler and a write handler on
// the same connection at the same time, so the two directions of one Machine
// are used concurrently. A generated plan (message counts and size mixes per
// direction, expanded from a generated seed) is sent in both directions at
// once over synchronous in-memory pipes by four goroutines; every message
// must be read back identical and in order. The job is built with the race
// detector, which turns state shared between the read and write paths of one
// Machine into a failure independent of the interleaving that happened.
//
// No wall clock is involved: a writer closes its pipe end when it is done or
// has failed, a reader closes its end when it has failed, so a mis-framed
// stream ends in an error on the other goroutine rather than in a wait.

import (
	"bytes"
	"fmt"
	"io"
	"sync"
	"testing"

	"github.com/lightningnetwork/lnd/internal/verif/vstats"
	"pgregory.net/rapid"
)

type c11DuplexDir struct {
	n     int
	mix   int
	seed  uint64
	chunk int
}

// c11DuplexSize picks the i-th message size of a direction.
func c11DuplexSize(p *c11PRNG, mix int) int {
	switch mix {
	case 0: // tiny messages: maximal rate of header operations
		return p.intn(4)
	case 1:
		return c11Size(p, c11SzSmall)
	case 2:
		return c11Size(p, c11SzBlock)
	case 3:
		return c11Size(p, c11SzMedium)
	default:
		// mostly small with a large one now and then
		if p.intn(40) == 0 {
			return c11Size(p, c11SzAny)
		}

		return c11Size(p, p.intn(c11SzMedium+1))
	}
}

// c11ChunkWriter hands the ciphertext to the pipe in pieces, so that a reader
// sees headers and bodies split at arbitrary points.
type c11ChunkWriter struct {
	w     io.Writer
	chunk int
}

func (c *c11ChunkWriter) Write(b []byte) (int, error) {
	if c.chunk <= 0 {
		return c.w.Write(b)
	}
	done := 0
	for done < len(b) {
		end := done + c.chunk
		if end > len(b) {
			end = len(b)
		}
		n, err := c.w.Write(b[done:end])
		done += n
		if err != nil {
			return done, err
		}
	}

	return done, nil
}

func c11DuplexCase(t c11TB, s c11Src, maxMsgs int) (k c11Keys,
	dirs [2]c11DuplexDir, rotated bool) {

	k = c11DrawKeys(s)
	for d := 0; d < 2; d++ {
		n := 200 + s.Int("msgs", 0, maxMsgs-200)
		if s.Int("fewMsgs", 0, 5) == 0 {
			n = s.Int("msgsFew", 1, 199)
		}
		dirs[d] = c11DuplexDir{
			n:     n,
			mix:   s.Int("mix", 0, 4),
			seed:  uint64(s.Int("seedHi", 0, 1<<30))<<31 | uint64(s.Int("seedLo", 0, 1<<30)),
			chunk: []int{0, 0, 1, 2, 7, 18, 19, 64}[s.Int("chunk", 0, 7)],
		}
		if dirs[d].n >= 500 {
			rotated = true
		}
	}

	hs := c11Handshake(t, k, k.rs.PubKey())
	if !hs.ok {
		t.Fatalf("handshake with the correct key did not complete")
	}
	m := [2]*Machine{hs.ini, hs.rsp}

	// pipes[d] carries direction d: m[d] writes, m[1-d] reads.
	var pr [2]*io.PipeReader
	var pw [2]*io.PipeWriter
	for d := 0; d < 2; d++ {
		pr[d], pw[d] = io.Pipe()
	}

	var (
		wg   sync.WaitGroup
		mu   sync.Mutex
		errs []string
	)
	fail := func(format string, args ...any) {
		mu.Lock()
		errs = append(errs, fmt.Sprintf(format, args...))
		mu.Unlock()
	}

	for d := 0; d < 2; d++ {
		d := d
		plan := dirs[d]
		name := []string{"initiator->responder", "responder->initiator"}[d]

		// Writer of direction d.
		wg.Add(1)
		go func() {
			defer wg.Done()
			defer pw[d].Close()

			p := &c11PRNG{s: plan.seed}
			w := &c11ChunkWriter{w: pw[d], chunk: plan.chunk}
			for i := 0; i < plan.n; i++ {
				msg := make([]byte, c11DuplexSize(p, plan.mix))
				p.fill(msg)
				if err := m[d].WriteMessage(msg); err != nil {
					fail("%s: WriteMessage %d: %v", name, i, err)
					return
				}
				if _, err := m[d].Flush(w); err != nil {
					// The reader gave up (it reports why).
					if err == io.ErrClosedPipe {
						return
					}
					fail("%s: Flush %d: %v", name, i, err)

					return
				}
			}
		}()

		// Reader of direction d.
		wg.Add(1)
		go func() {
			defer wg.Done()
			defer pr[d].Close()

			p := &c11PRNG{s: plan.seed}
			for i := 0; i < plan.n; i++ {
				want := make([]byte, c11DuplexSize(p, plan.mix))
				p.fill(want)

				got, err := m[1-d].ReadMessage(pr[d])
				if err != nil {
					fail("%s: message %d of %d (%d bytes) was "+
						"sent unmodified but reading it "+
						"failed: %v", name, i, plan.n,
						len(want), err)

					return
				}
				if !bytes.Equal(got, want) {
					fail("%s: message %d of %d read back "+
						"altered: sent %d bytes, got %d "+
						"bytes", name, i, plan.n, len(want),
						len(got))

					return
				}
			}
			// Nothing may follow the last message.
			var one [1]byte
			if n, err := pr[d].Read(one[:]); n != 0 || err != io.EOF {
				fail("%s: extra bytes after the last message "+
					"(n=%d err=%v)", name, n, err)
			}
		}()
	}
	wg.Wait()

	if len(errs) > 0 {
		t.Fatalf("C11 violated: full-duplex session (both directions in "+
			"flight at once): %v", errs)
	}

	return k, dirs, rotated
}

func TestVerifC11Duplex(t *testing.T) {
	st := vstats.New("TestVerifC11Duplex")
	defer st.Flush()
	maxMsgs := vstats.EnvInt("VERIF_C11_DUPLEX_MAX", 1300)

	rapid.Check(t, func(t *rapid.T) {
		k, dirs, rotated := c11DuplexCase(t, c11RapidSrc{t}, maxMsgs)

		labels := []string{
			fmt.Sprintf("duplex_mix_%d_%d", dirs[0].mix, dirs[1].mix),
		}
		if rotated {
			labels = append(labels, "duplex_crosses_rotation")
		}
		if dirs[0].chunk > 0 || dirs[1].chunk > 0 {
			labels = append(labels, "duplex_fragmented_wire")
		}
		fp := vstats.FP(k.fp(), []byte(fmt.Sprintf("%v", dirs)))
		// Non-trivial: both directions carry at least 200 messages, so
		// thousands of header operations of the two paths overlap.
		st.Case(fp, dirs[0].n >= 200 && dirs[1].n >= 200, labels,
			fmt.Sprintf("duplex %+v", dirs))
	})
}
