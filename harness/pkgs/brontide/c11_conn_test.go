//go:build verif

package brontide

// C11 Conn layer: a session established through Dial and the Listener's
// handshake over an in-memory connection, then generated Write (incl.
// chunking above 65535 bytes), WriteMessage/Flush with scripted timeouts,
// Read (stream), ReadNextMessage and ReadNextHeader/ReadNextBody, a wire
// differential against the BOLT-8 reference and a final tamper step.

import (
	"bytes"
	"errors"
	"fmt"
	"sort"
	"testing"

	"github.com/lightningnetwork/lnd/internal/verif/pipe"
	"github.com/lightningnetwork/lnd/internal/verif/vstats"
	"pgregory.net/rapid"
)

// c11KeyZeroRead identifies the input class "Conn.Read (stream API) meets a
// zero-length message".
const c11KeyZeroRead = "C11:conn.read@zero-length-message"

type c11ConnDir struct {
	name    string
	w, r    *Conn
	wp, rp  *pipe.Conn
	ref     *c11RefCipher
	pending [][]byte
	headOff int
	wireOff int
	msgs    int
	partial int
}

func (d *c11ConnDir) pendingBytes() int {
	n := -d.headOff
	for _, m := range d.pending {
		n += len(m)
	}

	return n
}

func c11Chunks(b []byte) [][]byte {
	if len(b) <= 65535 {
		return [][]byte{b}
	}
	var out [][]byte
	for len(b) > 0 {
		n := 65535
		if n > len(b) {
			n = len(b)
		}
		out = append(out, b[:n])
		b = b[n:]
	}

	return out
}

// write sends b with Conn.Write, resuming after scripted timeouts the way
// the API documents it: Flush until done, then Write the rest.
func (d *c11ConnDir) write(t c11TB, b []byte, script []int, viaMsg bool) {
	t.Helper()
	orig := append([]byte(nil), b...)
	d.wp.ScriptWrites(script...)
	total := 0
	guard := 0
	flushAll := func() {
		for {
			m, err := d.w.Flush()
			total += m
			if err == nil {
				return
			}
			if !errors.Is(err, pipe.ErrTimeout) {
				t.Fatalf("%s Conn.Flush: %v", d.name, err)
			}
			d.partial++
			if guard++; guard > len(script)+8 {
				t.Fatalf("%s Conn.Flush makes no progress", d.name)
			}
		}
	}

	if viaMsg {
		if err := d.w.WriteMessage(b); err != nil {
			t.Fatalf("%s Conn.WriteMessage(%d): %v", d.name, len(b), err)
		}
		flushAll()
	} else {
		n, err := d.w.Write(b)
		total += n
		for err != nil {
			if !errors.Is(err, pipe.ErrTimeout) {
				t.Fatalf("%s Conn.Write(%d): %v", d.name, len(b), err)
			}
			d.partial++
			flushAll()
			if total >= len(b) {
				break
			}
			n, err = d.w.Write(b[total:])
			total += n
			if guard++; guard > len(script)+8 {
				t.Fatalf("%s Conn.Write makes no progress", d.name)
			}
		}
	}
	d.wp.ScriptWrites()
	if total != len(b) {
		t.Fatalf("%s Conn write of %d bytes reported %d written "+
			"(script %v)", d.name, len(b), total, script)
	}
	if !bytes.Equal(orig, b) {
		t.Fatalf("Conn write modified the caller's buffer")
	}

	var want []byte
	for _, c := range c11Chunks(orig) {
		want = append(want, d.ref.frame(c)...)
		d.pending = append(d.pending, c)
		d.msgs++
	}
	got := d.wp.WireTail(d.wireOff)
	if !bytes.Equal(got, want) {
		t.Fatalf("%s Conn wire bytes for a %d byte write differ from the "+
			"BOLT-8 reference (%d vs %d bytes, script %v)", d.name, len(b),
			len(got), len(want), script)
	}
	d.wireOff += len(got)
}

const (
	c11ConnReadStream = iota
	c11ConnReadMsg
	c11ConnReadSplit
)

// drain reads everything pending in this direction.
func (d *c11ConnDir) drain(t c11TB, mode, bufSize int, st *vstats.Collector) {
	t.Helper()
	// Whole messages handed out by ReadNextMessage stay as they were while
	// later ones are read (added after seeded change C11f).
	type heldMsg struct{ got, want []byte }
	var held []heldMsg
	defer func() {
		for i, h := range held {
			if !bytes.Equal(h.got, h.want) {
				t.Fatalf("%s: message %d of this batch (%d bytes) was "+
					"altered after ReadNextMessage had handed it out, by "+
					"a later read", d.name, i, len(h.got))
			}
		}
	}()
	for len(d.pending) > 0 {
		m := mode
		if d.r.readBuf.Len() > 0 {
			// Conn.Read buffered the rest of a message; only Read may
			// continue.
			m = c11ConnReadStream
		}
		head := d.pending[0]
		if m == c11ConnReadStream && d.headOff == 0 && len(head) == 0 {
			if vstats.IsKnown(c11KeyZeroRead) {
				// Known finding: keep the stream API away from empty
				// messages (excluded by construction).
				st.Known(c11KeyZeroRead)
				st.Count("excluded_known", 1)
				m = c11ConnReadMsg
			} else {
				st.Count("stream_read_meets_empty_message", 1)
			}
		}
		if m == c11ConnReadStream && d.pendingBytes() == 0 {
			// Only empty messages are in flight: the byte stream has
			// nothing to deliver, so a stream Read has to wait. It must
			// not report an error of its own (in particular not io.EOF
			// on a healthy connection); the pipe signals "would block".
			n, err := d.r.Read(make([]byte, bufSize))
			if n != 0 || (err != nil && !errors.Is(err, pipe.ErrWouldBlock)) {
				t.Fatalf("%s Conn.Read(buf %d) returned (%d, %v) with only "+
					"%d empty message(s) in flight; want it to wait for data",
					d.name, bufSize, n, err, len(d.pending))
			}
			if err == nil {
				d.pending = d.pending[1:]
			} else {
				if d.rp.Unread() != 0 {
					t.Fatalf("%s Conn.Read blocked with %d unread wire bytes",
						d.name, d.rp.Unread())
				}
				d.pending = d.pending[:0]
			}
			st.Count("stream_read_waits_on_empty_messages", 1)

			continue
		}

		switch m {
		case c11ConnReadStream:
			buf := make([]byte, bufSize)
			n, err := d.r.Read(buf)
			if err != nil {
				t.Fatalf("%s Conn.Read(buf %d) returned (%d, %v) with %d "+
					"genuine messages pending (next has %d bytes, %d "+
					"already consumed)", d.name, bufSize, n, err,
					len(d.pending), len(head), d.headOff)
			}
			if n < 0 || n > bufSize {
				t.Fatalf("Conn.Read returned n=%d for a %d byte buffer", n,
					bufSize)
			}
			if n == 0 && len(head) > 0 {
				t.Fatalf("%s Conn.Read returned no data and no error",
					d.name)
			}
			// The bytes are the next bytes of the sent stream.
			got := buf[:n]
			for {
				cur := d.pending[0]
				if d.headOff == len(cur) {
					d.pending = d.pending[1:]
					d.headOff = 0
					if len(got) == 0 {
						break
					}
					if len(d.pending) == 0 {
						t.Fatalf("%s Conn.Read returned %d bytes that "+
							"were never sent", d.name, len(got))
					}

					continue
				}
				if len(got) == 0 {
					break
				}
				rest := cur[d.headOff:]
				k := len(rest)
				if k > len(got) {
					k = len(got)
				}
				if !bytes.Equal(got[:k], rest[:k]) {
					t.Fatalf("%s Conn.Read returned altered bytes", d.name)
				}
				got = got[k:]
				d.headOff += k
			}

		case c11ConnReadMsg:
			msg, err := d.r.ReadNextMessage()
			if err != nil {
				t.Fatalf("%s ReadNextMessage: %v", d.name, err)
			}
			if !bytes.Equal(msg, head) {
				t.Fatalf("%s ReadNextMessage returned %d altered bytes "+
					"(sent %d)", d.name, len(msg), len(head))
			}
			held = append(held, heldMsg{got: msg, want: head})
			d.pending = d.pending[1:]

		default:
			n, err := d.r.ReadNextHeader()
			if err != nil {
				t.Fatalf("%s ReadNextHeader: %v", d.name, err)
			}
			if int(n) != len(head)+macSize {
				t.Fatalf("ReadNextHeader %d for %d bytes", n, len(head))
			}
			msg, err := d.r.ReadNextBody(make([]byte, n))
			if err != nil {
				t.Fatalf("%s ReadNextBody: %v", d.name, err)
			}
			if !bytes.Equal(msg, head) {
				t.Fatalf("%s ReadNextBody returned altered bytes", d.name)
			}
			d.pending = d.pending[1:]
		}
	}
	if d.rp.Unread() != 0 || d.r.readBuf.Len() != 0 {
		t.Fatalf("%s: %d wire bytes / %d buffered bytes left after all "+
			"messages were read", d.name, d.rp.Unread(), d.r.readBuf.Len())
	}
}

// readFails reads once with the given API and requires failure.
func c11ConnReadFails(t c11TB, c *Conn, mode int, what string) {
	t.Helper()
	switch mode {
	case c11ConnReadStream:
		buf := make([]byte, 4096)
		if n, err := c.Read(buf); err == nil {
			t.Fatalf("%s: Conn.Read yielded %d bytes", what, n)
		} else if n != 0 {
			t.Fatalf("%s: failed Conn.Read returned n=%d", what, n)
		}
	case c11ConnReadMsg:
		if msg, err := c.ReadNextMessage(); err == nil {
			t.Fatalf("%s: ReadNextMessage yielded %d bytes", what, len(msg))
		} else if len(msg) != 0 {
			t.Fatalf("%s: failed ReadNextMessage returned data", what)
		}
	default:
		n, err := c.ReadNextHeader()
		if err != nil {
			return
		}
		if msg, err := c.ReadNextBody(make([]byte, n)); err == nil {
			t.Fatalf("%s: ReadNextBody yielded %d bytes", what, len(msg))
		} else if len(msg) != 0 {
			t.Fatalf("%s: failed ReadNextBody returned data", what)
		}
	}
}

func c11ConnCase(t c11TB, s c11Src, st *vstats.Collector, maxSteps int) (
	fp []byte, labels []string, nontrivial bool) {

	k := c11DrawKeys(s)
	res := c11ConnHandshake(k, k.rs.PubKey(), nil)
	if res.iniErr != nil || res.rspErr != nil {
		t.Fatalf("Conn handshake failed: dial %v, accept %v", res.iniErr,
			res.rspErr)
	}
	ref := c11RefHandshake(k.ls, k.le, k.rs, k.re, k.rs.PubKey())
	c11CheckKeys(t, res.ini.noise, res.rsp.noise, k, ref)
	res.pi.SetNonBlocking(true)
	res.pr.SetNonBlocking(true)

	dirs := [2]*c11ConnDir{
		{name: "initiator->responder", w: res.ini, r: res.rsp,
			wp: res.pi, rp: res.pr,
			ref:     &c11RefCipher{key: ref.sk, ck: ref.ck},
			wireOff: ActOneSize + ActThreeSize},
		{name: "responder->initiator", w: res.rsp, r: res.ini,
			wp: res.pr, rp: res.pi,
			ref:     &c11RefCipher{key: ref.rk, ck: ref.ck},
			wireOff: ActTwoSize},
	}
	fp = append(fp, k.fp()...)

	seen := map[string]bool{}
	nsteps := s.Int("nsteps", 1, maxSteps)
	for i := 0; i < nsteps; i++ {
		d := dirs[s.Int("dir", 0, 1)]
		p := &c11PRNG{s: uint64(s.Int("seed", 0, 1<<30))}
		op := s.Int("op", 0, 9)
		switch {
		case op <= 4: // one Write / WriteMessage
			var n int
			switch cls := s.Int("len", 0, 9); cls {
			case 0:
				n = 0
				seen["len:0"] = true
			case 1, 2, 3:
				n = 1 + p.intn(300)
			case 4:
				n = 301 + p.intn(65234)
			case 5:
				n = 65535
			case 6:
				n = 65536
				seen["len:65536"] = true
			case 7:
				n = 65535*2 + p.intn(3) - 1
				seen["len:2chunks"] = true
			default:
				n = 65537 + p.intn(140000)
				seen["len:chunked"] = true
			}
			viaMsg := n <= 65535 && s.Int("viaMsg", 0, 1) == 1
			b := make([]byte, n)
			p.fill(b)
			var script []int
			if s.Int("faulty", 0, 2) == 0 {
				wire := 0
				for _, c := range c11Chunks(b) {
					wire += 18 + len(c) + 16
				}
				cuts := make([]int, s.Int("ncuts", 1, 4))
				for j := range cuts {
					switch p.intn(5) {
					case 0:
						cuts[j] = p.intn(19)
					case 1:
						cuts[j] = wire - 1 - p.intn(17)
					case 2:
						// around the first chunk boundary
						cuts[j] = 18 + 65535 + 16 - 20 + p.intn(60)
					default:
						cuts[j] = p.intn(wire)
					}
					if cuts[j] >= wire {
						cuts[j] = wire - 1
					}
					if cuts[j] < 0 {
						cuts[j] = 0
					}
				}
				script = c11Script(cuts)
				seen["partial"] = true
			}
			d.write(t, b, script, viaMsg)
			fp = append(fp, fmt.Sprintf("w%d.%d.%v.%v|", n, p.s, script,
				viaMsg)...)

		case op <= 8: // bulk, to cross rotations
			cnt := s.Int("bulk", 20, 520)
			if op >= 7 {
				// stop 0..3 messages before the next rotation
				cnt = 500 - d.msgs%500 - s.Int("short", 0, 3)
				if cnt < 1 {
					cnt = 1
				}
			}
			for j := 0; j < cnt; j++ {
				b := make([]byte, 1+p.intn(24))
				p.fill(b)
				d.write(t, b, nil, j%2 == 0)
			}
			fp = append(fp, fmt.Sprintf("b%d.%d|", cnt, p.s)...)
		}

		// Reader.
		if s.Int("drain", 0, 3) > 0 {
			for _, dd := range dirs {
				mode := s.Int("readMode", 0, 2)
				bufSize := 1
				switch s.Int("bufCls", 0, 3) {
				case 0:
					bufSize = 1 + s.Int("buf", 0, 15)
				case 1:
					bufSize = 16 + s.Int("buf", 0, 2000)
				case 2:
					bufSize = 65535
				default:
					bufSize = 1 + s.Int("buf", 0, 140000)
				}
				pendingBytes := 0
				for _, m := range dd.pending {
					pendingBytes += len(m)
				}
				if pendingBytes > 20000 && bufSize < 64 {
					bufSize = 64 + bufSize
				}
				if mode == c11ConnReadStream && len(dd.pending) > 0 {
					seen["read:stream"] = true
				}
				// The wire may arrive in small segments.
				seg := 0
				switch s.Int("segCls", 0, 3) {
				case 1:
					seg = 1 + s.Int("seg", 0, 40)
				case 2:
					seg = 41 + s.Int("seg", 0, 3000)
				}
				if pendingBytes > 20000 && seg > 0 && seg < 64 {
					seg += 64
				}
				if seg > 0 && len(dd.pending) > 0 {
					seen["read:segmented"] = true
				}
				dd.rp.SetReadChunk(seg)
				dd.drain(t, mode, bufSize, st)
				dd.rp.SetReadChunk(0)
				fp = append(fp, fmt.Sprintf("r%d.%d.%d|", mode, bufSize, seg)...)
			}
		}
	}
	for _, dd := range dirs {
		dd.drain(t, s.Int("finalReadMode", 0, 2), 1+s.Int("finalBuf", 0, 70000), st)
	}

	// Final state equals the reference's.
	for _, dd := range dirs {
		c := &dd.w.noise.sendCipher
		if c11B32(c.secretKey) != dd.ref.key || c11B32(c.salt) != dd.ref.ck ||
			c.nonce != dd.ref.n {

			t.Fatalf("%s send cipher diverged from the reference", dd.name)
		}
	}

	// Tamper step on the live connection.
	tam := s.Int("tamper", 0, 5)
	if tam > 0 {
		d := dirs[s.Int("tamperDir", 0, 1)]
		p := &c11PRNG{s: uint64(s.Int("tamperSeed", 0, 1<<30))}
		b := make([]byte, s.Int("tamperLen", 0, 600))
		p.fill(b)
		d.wp.HoldOut(true)
		d.write(t, b, nil, false)
		d.wp.HoldOut(false)
		held := d.wp.TakeHeld()
		d.pending = d.pending[:0]
		mode := s.Int("tamperRead", 0, 2)
		what := ""
		switch tam {
		case 1: // flip
			pos := s.Int("flipPos", 0, len(held)-1)
			T := append([]byte(nil), held...)
			T[pos] ^= byte(1 << uint(s.Int("flipBit", 0, 7)))
			d.rp.Inject(T)
			what = fmt.Sprintf("flip@%d", pos)
			c11ConnReadFails(t, d.r, mode, "Conn "+what)
		case 2: // truncate
			cut := s.Int("cut", 0, len(held)-1)
			d.rp.Inject(held[:cut])
			what = fmt.Sprintf("truncate@%d", cut)
			c11ConnReadFails(t, d.r, mode, "Conn "+what)
		case 3: // replay
			d.rp.Inject(held)
			msg, err := d.r.ReadNextMessage()
			if err != nil || !bytes.Equal(msg, b) {
				t.Fatalf("Conn: genuine message before replay: %v", err)
			}
			d.rp.Inject(held)
			what = "replay"
			c11ConnReadFails(t, d.r, mode, "Conn replay")
		case 4: // reflect to the sender
			d.wp.Inject(held)
			what = "reflect"
			c11ConnReadFails(t, d.w, mode, "Conn reflect")
		default: // delete one byte
			pos := s.Int("delPos", 0, len(held)-1)
			T := append(append([]byte(nil), held[:pos]...), held[pos+1:]...)
			d.rp.Inject(T)
			what = fmt.Sprintf("delete@%d", pos)
			c11ConnReadFails(t, d.r, mode, "Conn "+what)
		}
		seen["conn_tamper:"+what[:3]] = true
		fp = append(fp, what...)
		nontrivial = true
	}

	for di, dd := range dirs {
		labels = append(labels, fmt.Sprintf("conn_rot[%d]:%s", di,
			c11Bucket(dd.ref.rotations)))
		if dd.ref.rotations > 0 && dd.partial > 0 {
			nontrivial = true
		}
	}
	extra := make([]string, 0, len(seen))
	for l := range seen {
		extra = append(extra, l)
	}
	sort.Strings(extra)
	labels = append(labels, extra...)

	return fp, labels, nontrivial
}

// TestVerifC11Conn: Conn-level sessions.
func TestVerifC11Conn(t *testing.T) {
	st := vstats.New("TestVerifC11Conn")
	defer st.Flush()

	maxSteps := vstats.EnvInt("VERIF_C11_CONN_STEPS", 14)
	rapid.Check(t, func(rt *rapid.T) {
		fp, labels, nontrivial := c11ConnCase(rt, c11RapidSrc{rt}, st,
			maxSteps)
		st.Case(vstats.FP(fp), nontrivial, labels,
			map[string]any{"test": "conn", "labels": labels})
	})
}
