//go:build verif

package brontide

// C11 pinned cases: (1) the harness's BOLT-8 reference is validated against
// the test vectors published in BOLT-8 Appendix A (handshake acts, keys,
// transport ciphertexts around two rotations), so the differential oracle is
// anchored in the specification rather than in lnd; (2) regression scenario
// for finding C11:conn.read@zero-length-message.

import (
	"bytes"
	"encoding/hex"
	"testing"

	"github.com/btcsuite/btcd/btcec/v2"
	"github.com/lightningnetwork/lnd/internal/verif/vstats"
)

func c11Hex(t *testing.T, s string) []byte {
	b, err := hex.DecodeString(s)
	if err != nil {
		t.Fatalf("bad hex: %v", err)
	}

	return b
}

func c11Rep(b byte) *btcec.PrivateKey {
	k, _ := btcec.PrivKeyFromBytes(bytes.Repeat([]byte{b}, 32))
	return k
}

// TestVerifC11RefVectors checks the reference against BOLT-8 Appendix A.
func TestVerifC11RefVectors(t *testing.T) {
	st := vstats.New("TestVerifC11RefVectors")
	defer st.Flush()

	k := c11Keys{ls: c11Rep(0x11), le: c11Rep(0x12), rs: c11Rep(0x21),
		re: c11Rep(0x22)}
	ref := c11RefHandshake(k.ls, k.le, k.rs, k.re, k.rs.PubKey())
	if !ref.ok {
		t.Fatalf("reference rejects the BOLT-8 vector handshake")
	}
	for _, c := range []struct {
		name string
		got  []byte
		want string
	}{
		{"act one", ref.act1[:], "00036360e856310ce5d294e8be33fc807077dc56ac80d95d9cd4ddbd21325eff73f70df6086551151f58b8afe6c195782c6a"},
		{"act two", ref.act2[:], "0002466d7fcae563e5cb09a0d1870bb580344804617879a14949cf22285f1bae3f276e2470b93aac583c9ef6eafca3f730ae"},
		{"act three", ref.act3[:], "00b9e3a702e93e3a9948c2ed6e5fd7590a6e1c3a0344cfc9d5b57357049aa22355361aa02e55a8fc28fef5bd6d71ad0c38228dc68b1c466263b47fdf31e560e139ba"},
		{"sk", ref.sk[:], "969ab31b4d288cedf6218839b27a3e2140827047f2c0f01bf5c04435d43511a9"},
		{"rk", ref.rk[:], "bb9020b8965f4df047e07f955f3c4b88418984aadc5cdb35096b9ea8fa5c3442"},
		{"ck", ref.ck[:], "919219dbb2920afa8db80f9a51787a840bcf111ed8d588caf9ab4be716e42b01"},
	} {
		if !bytes.Equal(c.got, c11Hex(t, c.want)) {
			t.Fatalf("reference %s = %x, BOLT-8 says %s", c.name, c.got,
				c.want)
		}
	}

	vectors := map[int]string{
		0:    "cf2b30ddf0cf3f80e7c35a6e6730b59fe802473180f396d88a8fb0db8cbcf25d2f214cf9ea1d95",
		1:    "72887022101f0b6753e0c7de21657d35a4cb2a1f5cde2650528bbc8f837d0f0d7ad833b1a256a1",
		500:  "178cb9d7387190fa34db9c2d50027d21793c9bc2d40b1e14dcf30ebeeeb220f48364f7a4c68bf8",
		501:  "1b186c57d44eb6de4c057c49940d79bb838a145cb528d6e8fd26dbe50a60ca2c104b56b60e45bd",
		1000: "4a2f3cc3b5e78ddb83dcb426d9863d9d9a723b0337c89dd0b005d89f8d3c05c52b76b29b740f09",
		1001: "2ecd8c8a5629d0d02ab457a0fdd0f7b90a192cd46be5ecb6ca570bfc5e268338b1a16cf4ef2d36",
	}
	rc := &c11RefCipher{key: ref.sk, ck: ref.ck}
	open := &c11RefCipher{key: ref.sk, ck: ref.ck}
	for i := 0; i < 1002; i++ {
		f := rc.frame([]byte("hello"))
		if want, ok := vectors[i]; ok && !bytes.Equal(f, c11Hex(t, want)) {
			t.Fatalf("reference message %d = %x, BOLT-8 says %s", i, f, want)
		}
		pt, err := open.open(f)
		if err != nil || string(pt) != "hello" {
			t.Fatalf("reference cannot open its own message %d: %v", i, err)
		}
	}
	if rc.rotations != 2 {
		t.Fatalf("reference rotated %d times over 1002 messages", rc.rotations)
	}

	// And the real machines agree with the vectors through the harness
	// path (acts, keys) -- the same comparison every generated case makes.
	ses := c11NewSession(t, k)
	for i := 0; i < 1002; i++ {
		ses.c11Send(t, 0, []byte("hello"), nil, c11MidNone, nil)
	}
	ses.c11Drain(t, 0, c11ReadWhole, nil)
	st.Case(vstats.FP("bolt8-vectors"), true, []string{"pinned:bolt8_vectors"},
		"BOLT-8 Appendix A vectors: acts, sk/rk/ck, messages 0,1,500,501,1000,1001")
}

// TestVerifC11Pinned replays fixed regression scenarios.
func TestVerifC11Pinned(t *testing.T) {
	st := vstats.New("TestVerifC11Pinned")
	defer st.Flush()

	// Finding C11:conn.read@zero-length-message: a stream Read that meets
	// an empty message must not report io.EOF on a healthy connection.
	k := c11Keys{ls: c11Rep(0x31), le: c11Rep(0x32), rs: c11Rep(0x41),
		re: c11Rep(0x42)}
	res := c11ConnHandshake(k, k.rs.PubKey(), nil)
	if res.iniErr != nil || res.rspErr != nil {
		t.Fatalf("handshake: %v / %v", res.iniErr, res.rspErr)
	}
	res.pi.SetNonBlocking(true)
	res.pr.SetNonBlocking(true)

	for _, msg := range [][]byte{{}, {}, []byte("x"), {}, []byte("yz")} {
		if n, err := res.ini.Write(msg); err != nil || n != len(msg) {
			t.Fatalf("Write(%q) = (%d, %v)", msg, n, err)
		}
	}
	var got []byte
	for len(got) < 3 {
		buf := make([]byte, 1)
		n, err := res.rsp.Read(buf)
		if err != nil {
			t.Fatalf("Conn.Read returned (%d, %v) after %q; empty messages "+
				"must not surface as errors on the byte stream", n, err, got)
		}
		got = append(got, buf[:n]...)
	}
	if string(got) != "xyz" {
		t.Fatalf("stream read %q, want \"xyz\"", got)
	}

	// Message API still delivers empty messages as such.
	for _, msg := range [][]byte{{}, []byte("m")} {
		if _, err := res.rsp.Write(msg); err != nil {
			t.Fatalf("Write: %v", err)
		}
	}
	for _, want := range []string{"", "m"} {
		m, err := res.ini.ReadNextMessage()
		if err != nil || string(m) != want {
			t.Fatalf("ReadNextMessage = (%q, %v), want %q", m, err, want)
		}
	}
	st.Case(vstats.FP("zero-length-stream-read"), true,
		[]string{"pinned:zero_length_stream_read"},
		"Write(empty) x2, Write(x), Write(empty), Write(yz); Read 1 byte at a time == xyz")
}
