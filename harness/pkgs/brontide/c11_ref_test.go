//go:build verif

package brontide

// C11 reference model: an independent BOLT-8 implementation written from the
// specification text (not from noise.go). It provides
//   - c11RefHandshake: god-view Noise_XK_secp256k1_ChaChaPoly_SHA256 handshake
//     that, given all four private keys, yields the exact three act messages
//     and the two transport keys + chaining key;
//   - c11RefCipher: the transport cipher (LE 64-bit counter nonce in a 96-bit
//     field, rotation after 1000 uses via HKDF(ck, k)), which produces the
//     wire bytes of a message (encrypted length || encrypted body).
// HKDF is written out with crypto/hmac; the AEAD is x/crypto's
// chacha20poly1305 (the primitive is trusted; the protocol around it is what
// is checked).

import (
	"crypto/hmac"
	"crypto/sha256"
	"encoding/binary"
	"errors"

	"github.com/btcsuite/btcd/btcec/v2"
	"golang.org/x/crypto/chacha20poly1305"
)

// c11HKDF is BOLT-8's HKDF(salt, ikm) with zero-length info returning 64
// bytes split in two.
func c11HKDF(salt, ikm []byte) (a, b [32]byte) {
	ext := hmac.New(sha256.New, salt)
	ext.Write(ikm)
	prk := ext.Sum(nil)

	t1m := hmac.New(sha256.New, prk)
	t1m.Write([]byte{1})
	t1 := t1m.Sum(nil)

	t2m := hmac.New(sha256.New, prk)
	t2m.Write(t1)
	t2m.Write([]byte{2})
	t2 := t2m.Sum(nil)

	copy(a[:], t1)
	copy(b[:], t2)

	return a, b
}

func c11Nonce(n uint64) []byte {
	var nb [12]byte
	binary.LittleEndian.PutUint64(nb[4:], n)

	return nb[:]
}

func c11Seal(key [32]byte, n uint64, ad, pt []byte) []byte {
	aead, err := chacha20poly1305.New(key[:])
	if err != nil {
		panic(err)
	}

	return aead.Seal(nil, c11Nonce(n), pt, ad)
}

func c11Open(key [32]byte, n uint64, ad, ct []byte) ([]byte, error) {
	aead, err := chacha20poly1305.New(key[:])
	if err != nil {
		panic(err)
	}

	return aead.Open(nil, c11Nonce(n), ct, ad)
}

// c11ECDH is BOLT-8 ECDH(k, rk): SHA256 of the compressed k*rk point.
func c11ECDH(priv *btcec.PrivateKey, pub *btcec.PublicKey) []byte {
	var p, r btcec.JacobianPoint
	pub.AsJacobian(&p)
	btcec.ScalarMultNonConst(&priv.Key, &p, &r)
	r.ToAffine()
	h := sha256.Sum256(btcec.NewPublicKey(&r.X, &r.Y).SerializeCompressed())

	return h[:]
}

func c11Hash(parts ...[]byte) [32]byte {
	h := sha256.New()
	for _, p := range parts {
		h.Write(p)
	}
	var out [32]byte
	copy(out[:], h.Sum(nil))

	return out
}

// c11RefResult is what the reference handshake yields.
type c11RefResult struct {
	act1 [50]byte
	act2 [50]byte
	act3 [66]byte
	// sk encrypts initiator->responder, rk responder->initiator.
	sk, rk, ck [32]byte
	// ok is false when the responder must reject act one (the initiator
	// targeted a key that is not the responder's static key); only act1 is
	// meaningful then.
	ok bool
}

// c11RefHandshake runs BOLT-8 with the initiator static key ls, initiator
// ephemeral le, responder static rs, responder ephemeral re. target is the
// static public key the initiator believes the responder has.
func c11RefHandshake(ls, le, rs, re *btcec.PrivateKey,
	target *btcec.PublicKey) c11RefResult {

	var res c11RefResult

	// Initiator view and responder view of (h, ck) are tracked separately
	// up to act one: they only coincide when target == rs.pub.
	proto := []byte("Noise_XK_secp256k1_ChaChaPoly_SHA256")
	h0 := sha256.Sum256(proto)
	ck := h0
	h1 := c11Hash(h0[:], []byte("lightning"))

	hI := c11Hash(h1[:], target.SerializeCompressed())
	hR := c11Hash(h1[:], rs.PubKey().SerializeCompressed())

	// Act one.
	ePub := le.PubKey().SerializeCompressed()
	hI = c11Hash(hI[:], ePub)
	es := c11ECDH(le, target)
	ckI, tk1 := c11HKDF(ck[:], es)
	c1 := c11Seal(tk1, 0, hI[:], nil)
	hI = c11Hash(hI[:], c1)
	res.act1[0] = 0
	copy(res.act1[1:34], ePub)
	copy(res.act1[34:], c1)

	// Responder processes act one.
	hR = c11Hash(hR[:], ePub)
	esR := c11ECDH(rs, le.PubKey())
	ckR, tk1R := c11HKDF(ck[:], esR)
	if _, err := c11Open(tk1R, 0, hR[:], c1); err != nil {
		return res
	}
	hR = c11Hash(hR[:], c1)
	if hR != hI || ckR != ckI {
		panic("c11 reference: views diverge after a valid act one")
	}
	res.ok = true
	h := hI
	ck = ckI

	// Act two.
	e2Pub := re.PubKey().SerializeCompressed()
	h = c11Hash(h[:], e2Pub)
	ee := c11ECDH(re, le.PubKey())
	ck, tk2 := c11HKDF(ck[:], ee)
	c2 := c11Seal(tk2, 0, h[:], nil)
	h = c11Hash(h[:], c2)
	res.act2[0] = 0
	copy(res.act2[1:34], e2Pub)
	copy(res.act2[34:], c2)

	// Act three.
	c3 := c11Seal(tk2, 1, h[:], ls.PubKey().SerializeCompressed())
	h = c11Hash(h[:], c3)
	se := c11ECDH(ls, re.PubKey())
	ck, tk3 := c11HKDF(ck[:], se)
	t := c11Seal(tk3, 0, h[:], nil)
	res.act3[0] = 0
	copy(res.act3[1:50], c3)
	copy(res.act3[50:], t)

	res.sk, res.rk = c11HKDF(ck[:], nil)
	res.ck = ck

	return res
}

// c11RefCipher is one direction of the BOLT-8 transport.
type c11RefCipher struct {
	key, ck [32]byte
	n       uint64
	// rotations counts the key rotations performed.
	rotations int
}

func (c *c11RefCipher) step() {
	c.n++
	if c.n == 1000 {
		c.ck, c.key = c11HKDF(c.ck[:], c.key[:])
		c.n = 0
		c.rotations++
	}
}

func (c *c11RefCipher) seal(pt []byte) []byte {
	ct := c11Seal(c.key, c.n, nil, pt)
	c.step()

	return ct
}

// frame returns the wire bytes of one message: enc(len) || enc(body).
func (c *c11RefCipher) frame(msg []byte) []byte {
	var l [2]byte
	binary.BigEndian.PutUint16(l[:], uint16(len(msg)))
	out := c.seal(l[:])

	return append(out, c.seal(msg)...)
}

// open decrypts one frame (used to cross-check the reader independently).
func (c *c11RefCipher) open(frame []byte) ([]byte, error) {
	if len(frame) < 18+16 {
		return nil, errors.New("short frame")
	}
	l, err := c11Open(c.key, c.n, nil, frame[:18])
	if err != nil {
		return nil, err
	}
	c.step()
	n := int(binary.BigEndian.Uint16(l))
	if len(frame) != 18+n+16 {
		return nil, errors.New("frame length mismatch")
	}
	pt, err := c11Open(c.key, c.n, nil, frame[18:])
	if err != nil {
		return nil, err
	}
	c.step()

	return pt, nil
}
