//go:build verif

package brontide

// C11 native fuzz target (thorough tier): the input bytes are decoded into
// the same generated choices the rapid tests draw (keys, plan steps, write
// budgets, manipulations), so coverage-guided mutation explores the same
// property: handshake, transport differential and tamper oracle.

import (
	"testing"

	"github.com/lightningnetwork/lnd/internal/verif/vstats"
)

func c11FuzzSeeds() [][]byte {
	var seeds [][]byte
	// Structured seeds: scenario byte followed by PRNG bytes, a few lengths.
	for sc := 0; sc < 4; sc++ {
		for _, n := range []int{0, 40, 200, 900} {
			p := &c11PRNG{s: uint64(1000*sc + n)}
			b := make([]byte, n+1)
			p.fill(b)
			b[0] = byte(sc)
			seeds = append(seeds, b)
		}
	}
	// All 0xff: maximal choices everywhere.
	ff := make([]byte, 600)
	for i := range ff {
		ff[i] = 0xff
	}
	for sc := 0; sc < 4; sc++ {
		b := append([]byte{byte(sc)}, ff...)
		seeds = append(seeds, b)
	}

	return seeds
}

// FuzzVerifC11Plan decodes a plan from bytes and runs it.
func FuzzVerifC11Plan(f *testing.F) {
	st := vstats.New("FuzzVerifC11Plan")
	defer st.Flush()

	for _, s := range c11FuzzSeeds() {
		f.Add(s)
	}

	limT := c11PlanLimits{
		maxSteps:  vstats.EnvInt("VERIF_C11_FUZZ_STEPS", 10),
		maxPerDir: vstats.EnvInt("VERIF_C11_FUZZ_MAXMSG", 1100),
	}
	limTam := c11PlanLimits{maxSteps: 3, maxPerDir: 600}

	f.Fuzz(func(t *testing.T, data []byte) {
		if len(data) > 4096 {
			data = data[:4096]
		}
		s := &c11ByteSrc{data: data}
		switch s.Int("scenario", 0, 3) {
		case 0:
			k, labels, faults := c11HandshakeCase(t, s)
			st.Count("act_faults_rejected", int64(faults))
			st.Case(vstats.FP(k.fp(), labels[0]), true,
				append(labels, "fuzz:handshake"), nil)
		case 1:
			k := c11DrawKeys(s)
			ses := c11NewSession(t, k)
			plan := c11DrawPlan(s, limT, [2]int{})
			var rs c11RunStats
			c11RunPlan(t, ses, plan, &rs)
			labels, nontrivial := rs.labels(ses)
			st.Case(vstats.FP(k.fp(), c11PlanFP(plan)), nontrivial,
				append(labels, "fuzz:transport"), nil)
		default:
			fp, labels := c11TamperCase(t, s, limTam)
			st.Case(vstats.FP(fp), true, append(labels, "fuzz:tamper"), nil)
		}
	})
}
