//go:build verif

package brontide

// C11 tamper part: after a generated honest prefix, a few genuine frames S
// are produced and the reader is handed a manipulated stream T (bit flips,
// inserted / deleted bytes, truncation, dropped / swapped / replayed frames,
// swapped headers, frames reflected back to their sender, frames of another
// session between the same static keys, trailing garbage).
//
// Oracle (the same for every manipulation): let d be the first offset where
// T deviates from S. Every frame that ends at or before d is read correctly;
// the read that would consume offset d fails and yields no data. Nothing is
// asserted about reads after the first failure (lnd disconnects; the cipher
// state is no longer synchronised).

import (
	"bytes"
	"fmt"
	"io"
	"strings"
	"testing"

	"github.com/lightningnetwork/lnd/internal/verif/pipe"
	"github.com/lightningnetwork/lnd/internal/verif/vstats"
	"pgregory.net/rapid"
)

const (
	c11OpFlip = iota
	c11OpInsert
	c11OpDelete
	c11OpDropFrame
	c11OpTruncate
	c11OpSwapFrames
	c11OpReplayNow
	c11OpReplayLate
	c11OpReplayOld
	c11OpReflect
	c11OpCrossSession
	c11OpSwapHeaders
	c11OpAppend
	c11OpNone
	c11Ops
)

var c11OpNames = []string{"flip", "insert", "delete", "drop_frame",
	"truncate", "swap_frames", "replay_now", "replay_late", "replay_old",
	"reflect", "cross_session", "swap_headers", "append", "none"}

// c11RelFrame is a frame relative to the start of S.
type c11RelFrame struct {
	off, end int
	payload  []byte
}

// c11CheckTampered applies the oracle. It returns a short description of
// where the failure was observed.
func c11CheckTampered(t c11TB, reader *Machine, S []byte,
	frames []c11RelFrame, T []byte, mode c11ReadMode, chunks []int,
	what string) string {

	t.Helper()
	d := 0
	for d < len(S) && d < len(T) && S[d] == T[d] {
		d++
	}
	identical := d == len(S) && d == len(T)

	r := &pipe.Reader{Data: T, Chunks: chunks}
	expectFail := func(f *c11RelFrame) string {
		if mode == c11ReadWhole {
			msg, err := reader.ReadMessage(r)
			if err == nil {
				t.Fatalf("%s: ReadMessage returned %d bytes without error "+
					"although the stream deviates at offset %d", what,
					len(msg), d)
			}
			if len(msg) != 0 {
				t.Fatalf("%s: failed ReadMessage still returned %d bytes",
					what, len(msg))
			}

			return "message"
		}
		hdrOK := f != nil && d >= f.off+encHeaderSize
		n, err := reader.ReadHeader(r)
		if !hdrOK {
			if err == nil {
				t.Fatalf("%s: ReadHeader accepted a header (len %d) "+
					"although the stream deviates at offset %d", what, n, d)
			}
			if n != 0 {
				t.Fatalf("%s: failed ReadHeader returned length %d", what, n)
			}

			return "header"
		}
		if err != nil {
			t.Fatalf("%s: ReadHeader rejected an untouched header: %v",
				what, err)
		}
		if int(n) != len(f.payload)+macSize {
			t.Fatalf("%s: ReadHeader returned %d for %d payload bytes",
				what, n, len(f.payload))
		}
		buf := make([]byte, n)
		msg, err := reader.ReadBody(r, buf)
		if err == nil {
			t.Fatalf("%s: ReadBody returned %d bytes without error "+
				"although the body deviates at offset %d", what, len(msg), d)
		}
		if len(msg) != 0 {
			t.Fatalf("%s: failed ReadBody still returned %d bytes", what,
				len(msg))
		}
		if err != io.EOF && err != io.ErrUnexpectedEOF &&
			len(f.payload) >= 16 &&
			bytes.Contains(buf, f.payload[:16]) {

			t.Fatalf("%s: failed ReadBody left plaintext in the caller's "+
				"buffer", what)
		}

		return "body"
	}

	for i := range frames {
		f := &frames[i]
		if f.end <= d {
			msg, hdrLen, _, err := c11ReadOne(reader, r, mode)
			if err != nil {
				t.Fatalf("%s: untouched frame %d (ends %d <= first "+
					"deviation %d) failed: %v", what, i, f.end, d, err)
			}
			if mode == c11ReadSplit &&
				int(hdrLen) != len(f.payload)+macSize {

				t.Fatalf("%s: ReadHeader length %d for %d payload bytes",
					what, hdrLen, len(f.payload))
			}
			if !bytes.Equal(msg, f.payload) {
				t.Fatalf("%s: untouched frame %d read altered", what, i)
			}

			continue
		}

		return fmt.Sprintf("frame%d:%s", i, expectFail(f))
	}
	if identical {
		// Honest control: nothing left to read.
		if _, err := reader.ReadMessage(r); err == nil {
			t.Fatalf("%s: read succeeded on an exhausted stream", what)
		}

		return "none"
	}

	// All genuine frames were intact; T carries extra bytes.
	return "extra:" + expectFail(nil)
}

// c11TamperCase runs one generated tamper case.
func c11TamperCase(t c11TB, s c11Src, lim c11PlanLimits) (fp []byte,
	labels []string) {

	k := c11DrawKeys(s)
	ses := c11NewSession(t, k)

	// Honest prefix, fully drained.
	var plan []c11Step
	if s.Int("prefix", 0, 2) > 0 {
		plan = c11DrawPlan(s, lim, [2]int{})
		var rs c11RunStats
		c11RunPlan(t, ses, plan, &rs)
	}
	fp = append(fp, k.fp()...)
	fp = append(fp, c11PlanFP(plan)...)

	dir := s.Int("victimDir", 0, 1)
	from, to := ses.side(dir)
	labels = append(labels, fmt.Sprintf("prefix:%s/%s",
		c11PrefixBucket(from.sent), c11PrefixBucket(to.sent)))
	if from.ref.rotations > 0 {
		labels = append(labels, "after_rotation")
	}

	// Frames the reader itself sends (for reflection); the peer never
	// reads them.
	p := &c11PRNG{s: uint64(s.Int("tamperSeed", 0, 1<<30))}
	nOwn := s.Int("ownFrames", 1, 2)
	for i := 0; i < nOwn; i++ {
		pl := make([]byte, c11Size(p, s.Int("ownSize", 0, c11SzMedium)))
		p.fill(pl)
		ses.c11Send(t, 1-dir, pl, nil, c11MidNone, nil)
	}
	own := append([]byte(nil), to.w.Buf[to.delivered:]...)

	// An already consumed genuine frame (for replay of old traffic).
	var old []byte
	if s.Int("oldFrame", 0, 1) == 1 {
		pl := make([]byte, c11Size(p, s.Int("oldSize", 0, c11SzMedium)))
		p.fill(pl)
		ses.c11Send(t, dir, pl, nil, c11MidNone, nil)
		old = append([]byte(nil), from.w.Buf[from.delivered:]...)
		ses.c11Drain(t, dir, c11ReadWhole, nil)
	}

	// The victim frames.
	nf := s.Int("frames", 1, 4)
	var payloads [][]byte
	for i := 0; i < nf; i++ {
		cls := s.Int("frameSize", 0, c11SzClasses-1)
		pl := make([]byte, c11Size(p, cls))
		p.fill(pl)
		payloads = append(payloads, pl)
		ses.c11Send(t, dir, pl, nil, c11MidNone, nil)
	}
	S := append([]byte(nil), from.w.Buf[from.delivered:]...)
	frames := make([]c11RelFrame, 0, nf)
	for _, f := range from.queue {
		o := f.off - from.delivered
		frames = append(frames, c11RelFrame{
			off: o, end: o + f.wireLen(), payload: f.payload,
		})
	}
	if frames[len(frames)-1].end != len(S) {
		t.Fatalf("harness: frame table does not cover S")
	}

	op := s.Int("op", 0, c11Ops-1)
	j := s.Int("frame", 0, nf-1)
	fj := frames[j]
	var T []byte
	switch op {
	case c11OpFlip:
		var pos int
		switch reg := s.Int("region", 0, 5); reg {
		case 0:
			pos = fj.off + s.Int("pos", 0, 1)
		case 1:
			pos = fj.off + 2 + s.Int("pos", 0, 15)
		case 2:
			if n := len(fj.payload); n > 0 {
				pos = fj.off + 18 + s.Int("pos", 0, n-1)
			} else {
				pos = fj.off + 18
			}
		case 3:
			pos = fj.end - 16 + s.Int("pos", 0, 15)
		case 4:
			pos = fj.end - 1
		default:
			pos = s.Int("pos", 0, len(S)-1)
		}
		mask := byte(1 << uint(s.Int("bit", 0, 7)))
		if s.Int("wholeByte", 0, 3) == 0 {
			mask = byte(1 + s.Int("mask", 0, 254))
		}
		T = append([]byte(nil), S...)
		T[pos] ^= mask
		labels = append(labels, c11Region(fj, pos))

	case c11OpInsert:
		o := c11Offset(s, S, fj)
		n := s.Int("insLen", 1, 40)
		var ins []byte
		if s.Int("insSrc", 0, 1) == 0 || len(S) <= n {
			ins = s.Bytes("ins", n)
		} else {
			x := s.Int("insFrom", 0, len(S)-n)
			ins = S[x : x+n]
		}
		T = append(append(append([]byte(nil), S[:o]...), ins...), S[o:]...)

	case c11OpDelete:
		o := c11Offset(s, S, fj)
		if o >= len(S) {
			o = len(S) - 1
		}
		n := s.Int("delLen", 1, 40)
		if o+n > len(S) {
			n = len(S) - o
		}
		T = append(append([]byte(nil), S[:o]...), S[o+n:]...)

	case c11OpDropFrame:
		T = append(append([]byte(nil), S[:fj.off]...), S[fj.end:]...)

	case c11OpTruncate:
		o := c11Offset(s, S, fj)
		if o >= len(S) {
			o = len(S) - 1
		}
		T = append([]byte(nil), S[:o]...)

	case c11OpSwapFrames:
		i2 := s.Int("frame2", 0, nf-1)
		a, b := frames[j], frames[i2]
		if a.off > b.off {
			a, b = b, a
		}
		if a.off == b.off {
			// same frame: honest control
			T = append([]byte(nil), S...)
			break
		}
		T = append([]byte(nil), S[:a.off]...)
		T = append(T, S[b.off:b.end]...)
		T = append(T, S[a.end:b.off]...)
		T = append(T, S[a.off:a.end]...)
		T = append(T, S[b.end:]...)

	case c11OpReplayNow:
		T = append([]byte(nil), S[:fj.end]...)
		T = append(T, S[fj.off:fj.end]...)
		T = append(T, S[fj.end:]...)

	case c11OpReplayLate:
		T = append(append([]byte(nil), S...), S[fj.off:fj.end]...)

	case c11OpReplayOld:
		if old == nil {
			// No consumed frame available: replay the first victim frame
			// after the reader consumed it (same thing, later).
			T = append(append([]byte(nil), S[:frames[0].end]...),
				S[:frames[0].end]...)
			T = append(T, S[frames[0].end:]...)
		} else {
			T = append(append([]byte(nil), old...), S...)
		}

	case c11OpReflect:
		// The reader's own ciphertext comes back to it, either instead of
		// or after some genuine frames.
		keep := frames[j].off
		T = append(append([]byte(nil), S[:keep]...), own...)
		if s.Int("reflectThenRest", 0, 1) == 1 {
			T = append(T, S[keep:]...)
		}

	case c11OpCrossSession:
		k2 := k
		k2.le = c11Key(s, "otherInitEphemeral")
		k2.re = c11Key(s, "otherRespEphemeral")
		if k2.le.PubKey().IsEqual(k.le.PubKey()) ||
			k2.re.PubKey().IsEqual(k.re.PubKey()) {

			// Same ephemerals would be the same session; fall back.
			T = append([]byte(nil), S[:len(S)-1]...)
			break
		}
		ses2 := c11NewSession(t, k2)
		// Bring the other session's sender to the same message count so
		// only the keys differ.
		from2, _ := ses2.side(dir)
		if from.sent-nf <= 1200 {
			for from2.sent < from.sent-nf {
				ses2.c11Send(t, dir, nil, nil, c11MidNone, nil)
			}
			ses2.c11Drain(t, dir, c11ReadWhole, nil)
		}
		for _, pl := range payloads {
			ses2.c11Send(t, dir, pl, nil, c11MidNone, nil)
		}
		T = append([]byte(nil), from2.w.Buf[from2.delivered:]...)

	case c11OpSwapHeaders:
		i2 := s.Int("frame2", 0, nf-1)
		T = append([]byte(nil), S...)
		copy(T[frames[j].off:frames[j].off+18],
			S[frames[i2].off:frames[i2].off+18])
		copy(T[frames[i2].off:frames[i2].off+18],
			S[frames[j].off:frames[j].off+18])

	case c11OpAppend:
		T = append(append([]byte(nil), S...),
			s.Bytes("garbage", s.Int("garbageLen", 1, 60))...)

	default:
		T = append([]byte(nil), S...)
	}

	mode := c11ReadMode(s.Int("readMode", 0, 1))
	var chunks []int
	switch s.Int("chunkCls", 0, 2) {
	case 1:
		chunks = []int{s.Int("chunk", 1, 40)}
	case 2:
		chunks = []int{s.Int("chunkA", 1, 20), s.Int("chunkB", 1, 70000)}
	}
	if len(S)+len(T) > 200000 && len(chunks) > 0 && chunks[0] < 8 {
		chunks[0] = 8
	}

	// Independent confirmation that S itself is what the reference reader
	// accepts (guards the harness's frame table).
	{
		rc := *to.refRecvState(ses, dir)
		for i, f := range frames {
			pt, err := rc.open(S[f.off:f.end])
			if err != nil || !bytes.Equal(pt, f.payload) {
				t.Fatalf("harness: reference cannot open genuine frame "+
					"%d: %v", i, err)
			}
		}
	}

	what := fmt.Sprintf("tamper %s (frame %d of %d, dir %d, |S|=%d |T|=%d)",
		c11OpNames[op], j, nf, dir, len(S), len(T))
	where := c11CheckTampered(t, to.m, S, frames, T, mode, chunks, what)

	labels = append(labels, "op:"+c11OpNames[op])
	switch {
	case where == "none":
		labels = append(labels, "outcome:identical_stream_ok")
	case len(where) > 6 && where[:6] == "extra:":
		labels = append(labels, "outcome:extra_rejected")
	default:
		labels = append(labels, "outcome:rejected_"+
			where[strings.IndexByte(where, ':')+1:])
	}
	fp = append(fp, fmt.Sprintf("|%d.%d.%d.%d.%x", dir, op, j, mode,
		vstats.FP(T))...)

	return fp, labels
}

// refRecvState returns a copy-able reference cipher positioned where the
// reader of direction dir currently is (all earlier frames consumed).
func (sd *c11Side) refRecvState(ses *c11Session, dir int) *c11RefCipher {
	from, _ := ses.side(dir)
	// The sender's reference is ahead by the queued frames; rebuild the
	// reader position by replaying the count.
	rc := &c11RefCipher{ck: ses.ref.ck}
	if dir == 0 {
		rc.key = ses.ref.sk
	} else {
		rc.key = ses.ref.rk
	}
	for i := 0; i < 2*(from.sent-len(from.queue)); i++ {
		rc.step()
	}

	return rc
}

func c11PrefixBucket(n int) string {
	switch {
	case n == 0:
		return "0"
	case n < 10:
		return "<10"
	case n < 495:
		return "<495"
	case n <= 505:
		return "~500"
	case n < 995:
		return "<995"
	case n <= 1005:
		return "~1000"
	default:
		return ">1005"
	}
}

// c11Offset picks an offset in [0, len(S)]: frame relative landmarks or
// anywhere.
func c11Offset(s c11Src, S []byte, f c11RelFrame) int {
	switch s.Int("offCls", 0, 7) {
	case 0:
		return f.off
	case 1:
		return f.off + 1
	case 2:
		return f.off + 17
	case 3:
		return f.off + 18
	case 4:
		return f.end - 16
	case 5:
		return f.end - 1
	case 6:
		return f.end
	default:
		return s.Int("off", 0, len(S))
	}
}

func c11Region(f c11RelFrame, pos int) string {
	switch {
	case pos < f.off || pos >= f.end:
		return "flip:other_frame"
	case pos < f.off+2:
		return "flip:len_ct"
	case pos < f.off+18:
		return "flip:hdr_mac"
	case pos < f.end-16:
		return "flip:body_ct"
	default:
		return "flip:body_mac"
	}
}

// TestVerifC11Tamper: generated manipulations of the ciphertext stream.
func TestVerifC11Tamper(t *testing.T) {
	st := vstats.New("TestVerifC11Tamper")
	defer st.Flush()

	lim := c11PlanLimits{
		maxSteps:  vstats.EnvInt("VERIF_C11_TAMPER_STEPS", 5),
		maxPerDir: vstats.EnvInt("VERIF_C11_TAMPER_MAXMSG", 1100),
	}

	rapid.Check(t, func(rt *rapid.T) {
		fp, labels := c11TamperCase(rt, c11RapidSrc{rt}, lim)
		nontrivial := true
		for _, l := range labels {
			if l == "outcome:identical_stream_ok" {
				// honest control, not a tamper case
				nontrivial = false
			}
		}
		st.Case(vstats.FP(fp), nontrivial, labels,
			map[string]any{"test": "tamper", "labels": labels})
	})
}
