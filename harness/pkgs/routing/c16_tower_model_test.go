//go:build verif

package routing

// C16 (control tower extension) — the sequential reference model, the
// model-independent invariants and the linearizability checker.
//
// The model is a port of harness/pkgs/payments/db/c16_model_test.go (that
// file is an external test package of payments/db and cannot be imported
// here), reduced to what the tower test generates: plain and MPP attempts.
// It is written from the documentation, not from the implementation:
//   * status: the truth table in payments/db/payment_status.go;
//   * initialisable / updatable / removable statuses: the comments on
//     PaymentControl (interface.go) and on the status helpers;
//   * admission of an attempt: the doc comments of the Err* values — the model
//     computes the *set* of violated conditions, the store must refuse with
//     one of them;
//   * Fail: "mark the payment as failed as long as it is known".

import (
	"errors"
	"fmt"
	"sort"
	"strings"

	"github.com/lightningnetwork/lnd/lntypes"
	"github.com/lightningnetwork/lnd/lnwire"
	paymentsdb "github.com/lightningnetwork/lnd/payments/db"
)

// Attempt states.
const (
	c16xInFlight = 0
	c16xSettled  = 1
	c16xFailed   = 2
	c16xCorrupt  = 3
)

// c16xAtt / c16xView: backend-neutral rendering of an MPPayment ("status,
// attempt set with amounts and settle/fail marks, failure reason").
type c16xAtt struct {
	ID    uint64
	Amt   int64
	Fee   int64
	MPP   bool
	Total int64
	Addr  byte
	State int
	Pre   lntypes.Preimage
}

type c16xView struct {
	Value  int64
	Status paymentsdb.PaymentStatus
	Reason int // -1: none
	Atts   []c16xAtt
}

func (v *c16xView) String() string {
	if v == nil {
		return "<absent>"
	}
	var sb strings.Builder
	fmt.Fprintf(&sb, "{value=%d status=%v reason=%d atts=[", v.Value,
		v.Status, v.Reason)
	for i, a := range v.Atts {
		if i > 0 {
			sb.WriteString(" ")
		}
		kind := "plain"
		if a.MPP {
			kind = fmt.Sprintf("mpp(%d,%d)", a.Total, a.Addr)
		}
		fmt.Fprintf(&sb, "%d:%d+%d/%s/%s", a.ID, a.Amt, a.Fee, kind,
			[]string{"inflight", "settled", "failed",
				"CORRUPT"}[a.State])
	}
	sb.WriteString("]}")

	return sb.String()
}

func c16xViewOf(p *paymentsdb.MPPayment) *c16xView {
	v := &c16xView{
		Value:  int64(p.Info.Value),
		Status: p.Status,
		Reason: -1,
	}
	if p.FailureReason != nil {
		v.Reason = int(*p.FailureReason)
	}
	for _, h := range p.HTLCs {
		a := c16xAtt{
			ID:  h.AttemptID,
			Amt: int64(h.Route.ReceiverAmt()),
			Fee: int64(h.Route.TotalFees()),
		}
		if fh := h.Route.FinalHop(); fh != nil && fh.MPP != nil {
			a.MPP = true
			a.Total = int64(fh.MPP.TotalMsat())
			addr := fh.MPP.PaymentAddr()
			a.Addr = addr[0]
		}
		switch {
		case h.Settle != nil && h.Failure != nil:
			a.State = c16xCorrupt
		case h.Settle != nil:
			a.State = c16xSettled
			a.Pre = h.Settle.Preimage
		case h.Failure != nil:
			a.State = c16xFailed
		}
		v.Atts = append(v.Atts, a)
	}
	// KV orders attempts by id, SQL by attempt time: the property speaks
	// of the attempt *set*.
	sort.SliceStable(v.Atts, func(i, j int) bool {
		return v.Atts[i].ID < v.Atts[j].ID
	})

	return v
}

func c16xViewsEqual(a, b *c16xView) bool {
	if a == nil || b == nil {
		return a == nil && b == nil
	}
	if a.Value != b.Value || a.Status != b.Status || a.Reason != b.Reason ||
		len(a.Atts) != len(b.Atts) {

		return false
	}
	for i := range a.Atts {
		if a.Atts[i] != b.Atts[i] {
			return false
		}
	}

	return true
}

// c16xTable is decidePaymentStatus's documented truth table
// (payment_status.go), row by row:
// index = inflight<<3 | settled<<2 | htlcFailed<<1 | paymentFailed.
var c16xTable = [16]paymentsdb.PaymentStatus{
	0b1111: paymentsdb.StatusInFlight,
	0b1110: paymentsdb.StatusInFlight,
	0b1101: paymentsdb.StatusInFlight,
	0b1100: paymentsdb.StatusInFlight,
	0b1011: paymentsdb.StatusInFlight,
	0b1010: paymentsdb.StatusInFlight,
	0b1001: paymentsdb.StatusInFlight,
	0b1000: paymentsdb.StatusInFlight,
	0b0111: paymentsdb.StatusSucceeded,
	0b0110: paymentsdb.StatusSucceeded,
	0b0101: paymentsdb.StatusSucceeded,
	0b0100: paymentsdb.StatusSucceeded,
	0b0011: paymentsdb.StatusFailed,
	0b0010: paymentsdb.StatusInFlight,
	0b0001: paymentsdb.StatusFailed,
	0b0000: paymentsdb.StatusInitiated,
}

func c16xTableStatus(inflight, settled, htlcFailed,
	payFailed bool) paymentsdb.PaymentStatus {

	ix := 0
	if inflight {
		ix |= 8
	}
	if settled {
		ix |= 4
	}
	if htlcFailed {
		ix |= 2
	}
	if payFailed {
		ix |= 1
	}

	return c16xTable[ix]
}

// c16xCheckPayment evaluates the model-independent invariants of the property
// on one MPPayment exactly as the tower (a fetch, a notification) or the store
// below it handed it out.
func c16xCheckPayment(p *paymentsdb.MPPayment) error {
	if p == nil || p.Info == nil {
		return errors.New("nil payment / nil creation info")
	}
	var (
		sent, fees                    lnwire.MilliSatoshi
		inflight, settled, htlcFailed bool
		nInflight                     int
		seen                          = make(map[uint64]bool)
	)
	for _, h := range p.HTLCs {
		if seen[h.AttemptID] {
			return fmt.Errorf("attempt id %d listed twice", h.AttemptID)
		}
		seen[h.AttemptID] = true
		if h.Settle != nil && h.Failure != nil {
			return fmt.Errorf("attempt %d is both settled and failed",
				h.AttemptID)
		}
		switch {
		case h.Failure != nil:
			htlcFailed = true
		case h.Settle != nil:
			settled = true
		default:
			inflight = true
			nInflight++
		}
		if h.Failure == nil {
			sent += h.Route.ReceiverAmt()
			fees += h.Route.TotalFees()
		}
	}
	// Never beyond its amount.
	if sent > p.Info.Value {
		return fmt.Errorf("settled+in-flight amount %d exceeds payment "+
			"value %d", sent, p.Info.Value)
	}
	// Status is exactly the documented function.
	want := c16xTableStatus(inflight, settled, htlcFailed,
		p.FailureReason != nil)
	if p.Status != want {
		return fmt.Errorf("status %v, documented table says %v "+
			"(inflight=%v settled=%v htlcFailed=%v paymentFailed=%v)",
			p.Status, want, inflight, settled, htlcFailed,
			p.FailureReason != nil)
	}
	if settled && p.Status == paymentsdb.StatusFailed {
		return errors.New("payment with a settled attempt reported Failed")
	}
	if p.State == nil {
		return errors.New("nil State")
	}
	if p.State.RemainingAmt != p.Info.Value-sent {
		return fmt.Errorf("RemainingAmt %d, want %d", p.State.RemainingAmt,
			p.Info.Value-sent)
	}
	if p.State.NumAttemptsInFlight != nInflight {
		return fmt.Errorf("NumAttemptsInFlight %d, want %d",
			p.State.NumAttemptsInFlight, nInflight)
	}
	if p.State.HasSettledHTLC != settled {
		return fmt.Errorf("HasSettledHTLC %v, want %v",
			p.State.HasSettledHTLC, settled)
	}
	if p.State.FeesPaid != fees {
		return fmt.Errorf("FeesPaid %d, want %d", p.State.FeesPaid, fees)
	}
	// Terminated() is what the tower uses to end a subscription: it must
	// agree with the status.
	term := p.Status == paymentsdb.StatusSucceeded ||
		p.Status == paymentsdb.StatusFailed
	if p.Terminated() != term {
		return fmt.Errorf("Terminated()=%v for status %v", p.Terminated(),
			p.Status)
	}

	return nil
}

// ---------------------------------------------------------------------------
// Sequential model of one payment hash (immutable value semantics: apply
// returns a new state).

type c16xMPay struct {
	Exists bool
	Value  int64
	Reason int       // -1 none
	Atts   []c16xAtt // sorted by ID
}

func (p c16xMPay) key() string {
	if !p.Exists {
		return "-"
	}
	var sb strings.Builder
	fmt.Fprintf(&sb, "%d/%d", p.Value, p.Reason)
	for _, a := range p.Atts {
		fmt.Fprintf(&sb, "|%d:%d:%d:%v:%d:%d:%d", a.ID, a.Amt, a.Fee,
			a.MPP, a.Total, a.Addr, a.State)
	}

	return sb.String()
}

func (p c16xMPay) clone() c16xMPay {
	q := p
	q.Atts = append([]c16xAtt(nil), p.Atts...)

	return q
}

func (p c16xMPay) flags() (inflight, settled, failed bool) {
	for _, a := range p.Atts {
		switch a.State {
		case c16xInFlight:
			inflight = true
		case c16xSettled:
			settled = true
		case c16xFailed:
			failed = true
		}
	}

	return
}

func (p c16xMPay) status() paymentsdb.PaymentStatus {
	i, s, f := p.flags()

	return c16xTableStatus(i, s, f, p.Reason >= 0)
}

func (p c16xMPay) sent() int64 {
	var s int64
	for _, a := range p.Atts {
		if a.State != c16xFailed {
			s += a.Amt
		}
	}

	return s
}

func (p c16xMPay) find(id uint64) int {
	for i, a := range p.Atts {
		if a.ID == id {
			return i
		}
	}

	return -1
}

func (p c16xMPay) view() *c16xView {
	if !p.Exists {
		return nil
	}

	return &c16xView{Value: p.Value, Status: p.status(), Reason: p.Reason,
		Atts: append([]c16xAtt(nil), p.Atts...)}
}

// admission returns the documented conditions a new attempt violates.
func (p c16xMPay) admission(s c16xSpec) []error {
	switch p.status() {
	case paymentsdb.StatusSucceeded:
		return []error{paymentsdb.ErrPaymentAlreadySucceeded}
	case paymentsdb.StatusFailed:
		return []error{paymentsdb.ErrPaymentAlreadyFailed}
	}
	var bad []error
	_, settled, _ := p.flags()
	if settled {
		bad = append(bad, paymentsdb.ErrPaymentPendingSettled)
	}
	if p.Reason >= 0 {
		bad = append(bad, paymentsdb.ErrPaymentPendingFailed)
	}
	if len(bad) > 0 {
		return bad
	}
	for _, a := range p.Atts {
		if a.State != c16xInFlight {
			continue
		}
		switch {
		case !s.MPP && a.MPP:
			bad = append(bad, paymentsdb.ErrMPPayment)
		case s.MPP && !a.MPP:
			bad = append(bad, paymentsdb.ErrNonMPPayment)
		case s.MPP:
			if s.Addr != a.Addr {
				bad = append(bad,
					paymentsdb.ErrMPPPaymentAddrMismatch)
			}
			if s.Total != a.Total {
				bad = append(bad,
					paymentsdb.ErrMPPTotalAmountMismatch)
			}
		}
	}
	if !s.MPP && s.Amt != p.Value {
		bad = append(bad, paymentsdb.ErrValueMismatch)
	}
	if p.sent()+s.Amt > p.Value {
		bad = append(bad, paymentsdb.ErrValueExceedsAmt)
	}

	return bad
}

func c16xIsAny(err error, set []error) bool {
	for _, s := range set {
		if errors.Is(err, s) {
			return true
		}
	}

	return false
}

// c16xApply applies one recorded call to the model state and judges the
// recorded response. why == "" means the response is what the documentation
// promises at this point of a sequential history.
func c16xApply(st c16xMPay, r *c16xRec) (c16xMPay, string) {
	refuse := func(anyOf ...error) (c16xMPay, string) {
		if r.Err == nil {
			return st, fmt.Sprintf("succeeded, model refuses (%v)",
				anyOf)
		}
		if len(anyOf) > 0 && !c16xIsAny(r.Err, anyOf) {
			return st, fmt.Sprintf("refused with %q, documented: "+
				"one of %v", r.Err, anyOf)
		}

		return st, ""
	}
	mustOK := func() string {
		if r.Err != nil {
			return fmt.Sprintf("refused with %q, model admits", r.Err)
		}

		return ""
	}
	op := r.Op
	switch op.Kind {
	case c16xOpInit:
		if st.Exists {
			switch st.status() {
			case paymentsdb.StatusInitiated:
				return refuse(paymentsdb.ErrPaymentExists)
			case paymentsdb.StatusInFlight:
				return refuse(paymentsdb.ErrPaymentInFlight)
			case paymentsdb.StatusSucceeded:
				return refuse(paymentsdb.ErrAlreadyPaid)
			}
		}
		if why := mustOK(); why != "" {
			return st, why
		}

		return c16xMPay{Exists: true, Value: op.Value, Reason: -1}, ""

	case c16xOpRegister:
		if !st.Exists {
			return refuse(paymentsdb.ErrPaymentNotInitiated)
		}
		if bad := st.admission(op.Spec); len(bad) > 0 {
			// If the id is also a duplicate, refusing for that
			// reason is as correct (check order is not part of
			// the property).
			if st.find(op.Spec.ID) >= 0 {
				return refuse()
			}

			return refuse(bad...)
		}
		if st.find(op.Spec.ID) >= 0 {
			return refuse()
		}
		if why := mustOK(); why != "" {
			return st, why
		}
		ns := st.clone()
		a := c16xAtt{ID: op.Spec.ID, Amt: op.Spec.Amt, Fee: op.Spec.Fee,
			MPP: op.Spec.MPP, State: c16xInFlight}
		if a.MPP {
			a.Total, a.Addr = op.Spec.Total, op.Spec.Addr
		}
		ns.Atts = append(ns.Atts, a)
		sort.Slice(ns.Atts, func(i, j int) bool {
			return ns.Atts[i].ID < ns.Atts[j].ID
		})

		return ns, ""

	case c16xOpSettle, c16xOpFailAttempt:
		if !st.Exists {
			return refuse(paymentsdb.ErrPaymentNotInitiated)
		}
		switch st.status() {
		case paymentsdb.StatusSucceeded:
			return refuse(paymentsdb.ErrPaymentAlreadySucceeded)
		case paymentsdb.StatusFailed:
			return refuse(paymentsdb.ErrPaymentAlreadyFailed)
		}
		i := st.find(op.ID)
		if i < 0 || st.Atts[i].State != c16xInFlight {
			return refuse()
		}
		if why := mustOK(); why != "" {
			return st, why
		}
		ns := st.clone()
		if op.Kind == c16xOpSettle {
			ns.Atts[i].State = c16xSettled
			ns.Atts[i].Pre = c16xPreimage(op.ID)
		} else {
			ns.Atts[i].State = c16xFailed
		}
		// The attempt handed back must be the resolved one.
		switch {
		case r.Att == nil:
			return st, "nil attempt returned"
		case r.Att.AttemptID != op.ID:
			return st, fmt.Sprintf("returned attempt %d",
				r.Att.AttemptID)
		case op.Kind == c16xOpSettle && (r.Att.Settle == nil ||
			r.Att.Settle.Preimage != c16xPreimage(op.ID) ||
			r.Att.Failure != nil):

			return st, "returned attempt is not settled with the " +
				"given preimage"
		case op.Kind == c16xOpFailAttempt && (r.Att.Failure == nil ||
			r.Att.Settle != nil):

			return st, "returned attempt is not failed"
		}

		return ns, ""

	case c16xOpFailPayment:
		if !st.Exists {
			return refuse(paymentsdb.ErrPaymentNotInitiated)
		}
		if why := mustOK(); why != "" {
			return st, why
		}
		ns := st.clone()
		ns.Reason = op.Reason

		return ns, ""

	case c16xOpDeleteFailed:
		if !st.Exists {
			return refuse(paymentsdb.ErrPaymentNotInitiated)
		}
		if st.status() == paymentsdb.StatusInFlight {
			return refuse(paymentsdb.ErrPaymentInFlight)
		}
		if why := mustOK(); why != "" {
			return st, why
		}
		ns := st.clone()
		ns.Atts = ns.Atts[:0]
		for _, a := range st.Atts {
			if a.State != c16xFailed {
				ns.Atts = append(ns.Atts, a)
			}
		}

		return ns, ""

	case c16xOpFetch, c16xOpSubscribe:
		if !st.Exists {
			return refuse(paymentsdb.ErrPaymentNotInitiated)
		}
		if why := mustOK(); why != "" {
			return st, why
		}
		if !c16xViewsEqual(r.View, st.view()) {
			return st, fmt.Sprintf("saw %v, model has %v", r.View,
				st.view())
		}

		return st, ""
	}

	return st, "unknown op"
}

// c16xLinearizable decides whether the recorded calls on ONE payment hash
// (invocation / response stamped with the harness' logical clock) can be
// explained by some sequential order that respects real-time precedence
// (a call that returned before another was invoked comes first). Wing & Gong's
// search with memoisation on (set of linearised calls, model state); at most
// 64 calls. On failure it returns the longest explainable prefix and, for
// every call that could come next, why its response does not fit.
func c16xLinearizable(recs []*c16xRec) (bool, string) {
	ops := append([]*c16xRec(nil), recs...)
	sort.Slice(ops, func(i, j int) bool { return ops[i].Inv < ops[j].Inv })
	n := len(ops)
	if n > 64 {
		panic("c16x: more than 64 calls on one hash")
	}
	full := uint64(0)
	if n == 64 {
		full = ^uint64(0)
	} else {
		full = (uint64(1) << uint(n)) - 1
	}

	var (
		dead     = make(map[string]struct{})
		path     []int
		bestPath []int
		bestWhy  []string
		dfs      func(mask uint64, st c16xMPay) bool
	)
	dfs = func(mask uint64, st c16xMPay) bool {
		if mask == full {
			return true
		}
		key := fmt.Sprintf("%x#%s", mask, st.key())
		if _, ok := dead[key]; ok {
			return false
		}
		minRes := int64(-1)
		for i := 0; i < n; i++ {
			if mask&(1<<uint(i)) != 0 {
				continue
			}
			if minRes < 0 || ops[i].Res < minRes {
				minRes = ops[i].Res
			}
		}
		var whys []string
		for i := 0; i < n; i++ {
			if mask&(1<<uint(i)) != 0 {
				continue
			}
			// Some pending call returned before this one was
			// invoked: it cannot be next.
			if ops[i].Inv > minRes {
				continue
			}
			ns, why := c16xApply(st, ops[i])
			if why != "" {
				whys = append(whys, fmt.Sprintf("    %s: %s",
					ops[i], why))
				continue
			}
			path = append(path, i)
			if dfs(mask|1<<uint(i), ns) {
				return true
			}
			path = path[:len(path)-1]
		}
		if len(path) >= len(bestPath) && len(whys) > 0 {
			bestPath = append([]int(nil), path...)
			bestWhy = append([]string{fmt.Sprintf("    model state "+
				"there: %v", st.view())}, whys...)
		}
		dead[key] = struct{}{}

		return false
	}
	if dfs(0, c16xMPay{}) {
		return true, ""
	}

	var sb strings.Builder
	sb.WriteString("  calls on this hash (by invocation):\n")
	for _, o := range ops {
		fmt.Fprintf(&sb, "    %s\n", o)
	}
	sb.WriteString("  longest explainable prefix:\n")
	for _, i := range bestPath {
		fmt.Fprintf(&sb, "    %s\n", ops[i])
	}
	sb.WriteString("  no call can come next:\n")
	sb.WriteString(strings.Join(bestWhy, "\n"))

	return false, sb.String()
}
