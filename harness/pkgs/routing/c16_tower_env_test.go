//go:build verif

package routing

// C16 (control tower extension) — plumbing: the two real payment stores
// (KVStore on bbolt, SQLStore on sqlite) in one process, attempt
// construction, and a spy that sits between the control tower and the store.
//
// The spy never changes a call or an answer. It
//   * stamps entry and exit of every store call with the harness' logical
//     clock,
//   * detects two calls for the same payment hash being inside the store at
//     the same time although the tower promises to serialise them,
//   * keeps, per payment hash, the ordered log of the payments the store
//     handed back to the tower inside the tower's critical section — this is
//     what subscribers must be told, in this order,
//   * yields the processor a generated number of times before and after the
//     real call, which widens every window a missing lock would open (the
//     yields are rapid draws; no sleeps, no wall clock).

import (
	"context"
	"crypto/sha256"
	"database/sql"
	"encoding/binary"
	"errors"
	"fmt"
	"reflect"
	"runtime"
	"strings"
	"sync"
	"sync/atomic"
	"testing"
	"time"

	"github.com/btcsuite/btcd/btcec/v2"
	"github.com/lightningnetwork/lnd/internal/verif/vstats"
	"github.com/lightningnetwork/lnd/kvdb"
	"github.com/lightningnetwork/lnd/lntypes"
	"github.com/lightningnetwork/lnd/lnwire"
	paymentsdb "github.com/lightningnetwork/lnd/payments/db"
	"github.com/lightningnetwork/lnd/record"
	"github.com/lightningnetwork/lnd/routing/route"
	"github.com/lightningnetwork/lnd/sqldb"
	"go.etcd.io/bbolt"
)

var c16xNames = [2]string{"kv", "sql"}

// c16xStores holds one instance of each backend, created once per test
// function (a migrated sqlite file costs ~1.7 s) and purged before every case.
type c16xStores struct {
	both [2]paymentsdb.DB
}

func c16xNewStores(t *testing.T) *c16xStores {
	t.Helper()

	backend, cleanup, err := kvdb.GetTestBackend(t.TempDir(), "c16xkv")
	if err != nil {
		t.Fatalf("kv backend: %v", err)
	}
	t.Cleanup(cleanup)

	// bbolt's DB.Batch waits MaxBatchDelay (10 ms) for other callers before
	// it commits; with a per-hash mutex above it every call would pay it.
	// It is a latency knob of the bbolt handle, no lnd code is involved.
	// VERIF_C16_KEEP_BATCH_DELAY=1 keeps the default.
	if vstats.EnvInt("VERIF_C16_KEEP_BATCH_DELAY", 0) == 0 &&
		fmt.Sprintf("%T", backend) == "*bdb.db" {

		// walletdb's bdb.db is `type db bbolt.DB`.
		bdb := (*bbolt.DB)(reflect.ValueOf(backend).UnsafePointer())
		bdb.MaxBatchDelay = 0
	}

	kv, err := paymentsdb.NewKVStore(backend)
	if err != nil {
		t.Fatalf("NewKVStore: %v", err)
	}

	base := sqldb.NewTestSqliteDB(t).BaseDB
	exec := sqldb.NewTransactionExecutor(
		base, func(tx *sql.Tx) paymentsdb.SQLQueries {
			return base.WithTx(tx)
		},
	)
	sqlStore, err := paymentsdb.NewSQLStore(
		&paymentsdb.SQLStoreConfig{
			QueryCfg: sqldb.DefaultSQLiteConfig(),
		}, exec,
	)
	if err != nil {
		t.Fatalf("NewSQLStore: %v", err)
	}

	return &c16xStores{both: [2]paymentsdb.DB{kv, sqlStore}}
}

// c16xPurge empties a store through its public API.
func c16xPurge(db paymentsdb.DB) error {
	ctx := context.Background()
	for round := 0; round < 4; round++ {
		if _, err := db.DeletePayments(ctx, false, false); err != nil {
			return fmt.Errorf("DeletePayments: %w", err)
		}
		left, err := db.FetchInFlightPayments(ctx)
		if err != nil {
			return fmt.Errorf("FetchInFlightPayments: %w", err)
		}
		if len(left) == 0 {
			return nil
		}
		for _, p := range left {
			hash := p.Info.PaymentIdentifier
			for _, h := range p.InFlightHTLCs() {
				_, _ = db.FailAttempt(ctx, hash, h.AttemptID,
					c16xFailInfo())
			}
			_, _ = db.Fail(ctx, hash, paymentsdb.FailureReasonError)
		}
	}

	return errors.New("store not empty after 4 purge rounds")
}

// c16xBusy reports errors that stem from sqlite lock contention or retry
// exhaustion; they make a case inconclusive.
func c16xBusy(err error) bool {
	if err == nil {
		return false
	}
	s := err.Error()

	return errors.Is(err, sqldb.ErrRetriesExceeded) ||
		strings.Contains(s, "database is locked") ||
		strings.Contains(s, "SQLITE_BUSY")
}

// Process-wide nonces: payment hashes, attempt ids ("one node-wide
// sequencer") and session keys never repeat within a process.
var (
	c16xHashCtr uint64
	c16xIDCtr   uint64 = 5000
	c16xKeyCtr  uint64
)

func c16xFreshHash() lntypes.Hash {
	n := atomic.AddUint64(&c16xHashCtr, 1)
	var b [16]byte
	copy(b[:], "c16xhash")
	binary.BigEndian.PutUint64(b[8:], n)

	return lntypes.Hash(sha256.Sum256(b[:]))
}

func c16xFreshID() uint64 {
	return atomic.AddUint64(&c16xIDCtr, 1)
}

func c16xFreshKey() *btcec.PrivateKey {
	n := atomic.AddUint64(&c16xKeyCtr, 1)
	var b [16]byte
	copy(b[:], "c16xkey")
	binary.BigEndian.PutUint64(b[8:], n)
	h := sha256.Sum256(b[:])
	k, _ := btcec.PrivKeyFromBytes(h[:])

	return k
}

var (
	c16xVertex = func() route.Vertex {
		k, _ := btcec.PrivKeyFromBytes([]byte{
			0x2b, 0xd8, 0x06, 0xc9, 0x7f, 0x0e, 0x00, 0xaf,
			0x1a, 0x1f, 0xc3, 0x32, 0x8f, 0xa7, 0x63, 0xa9,
			0x26, 0x97, 0x23, 0xc8, 0xdb, 0x8f, 0xac, 0x4f,
			0x93, 0xaf, 0x71, 0xdb, 0x18, 0x6d, 0x6e, 0x90,
		})

		return route.NewVertex(k.PubKey())
	}()

	c16xBaseTime = time.Unix(1_700_000_000, 0)
)

// c16xSpec is the generated description of one HTLC attempt (plain or MPP).
type c16xSpec struct {
	ID    uint64
	Amt   int64 // receiver amount
	Fee   int64 // TotalAmount - Amt
	MPP   bool
	Total int64 // MPP total
	Addr  byte  // MPP payment address tag
}

func (s c16xSpec) String() string {
	if !s.MPP {
		return fmt.Sprintf("{id=%d amt=%d fee=%d plain}", s.ID, s.Amt,
			s.Fee)
	}

	return fmt.Sprintf("{id=%d amt=%d fee=%d mpp(%d,%d)}", s.ID, s.Amt,
		s.Fee, s.Total, s.Addr)
}

func c16xAddr(tag byte) [32]byte {
	var a [32]byte
	for i := range a {
		a[i] = tag
	}

	return a
}

// c16xMakeAttempt builds the HTLCAttemptInfo the way lnd's own tests do:
// NewHtlcAttempt with a fresh session key, then the generated route.
func c16xMakeAttempt(hash lntypes.Hash, s c16xSpec) *paymentsdb.HTLCAttemptInfo {
	baseRoute := route.Route{
		TotalTimeLock: 100,
		TotalAmount:   1,
		SourcePubKey:  c16xVertex,
		Hops: []*route.Hop{{
			PubKeyBytes:      c16xVertex,
			ChannelID:        1,
			OutgoingTimeLock: 90,
			AmtToForward:     1,
		}},
	}
	at := c16xBaseTime.Add(time.Duration(s.ID%100000) * time.Second)
	h := hash
	a, err := paymentsdb.NewHtlcAttempt(
		s.ID, c16xFreshKey(), baseRoute, at, &h,
	)
	if err != nil {
		panic(fmt.Sprintf("NewHtlcAttempt: %v", err))
	}
	final := &route.Hop{
		PubKeyBytes:      c16xVertex,
		ChannelID:        7,
		OutgoingTimeLock: 90,
		AmtToForward:     lnwire.MilliSatoshi(s.Amt),
	}
	if s.MPP {
		final.MPP = record.NewMPP(
			lnwire.MilliSatoshi(s.Total), c16xAddr(s.Addr),
		)
	}
	a.Route = route.Route{
		TotalTimeLock: 100,
		TotalAmount:   lnwire.MilliSatoshi(s.Amt + s.Fee),
		SourcePubKey:  c16xVertex,
		Hops:          []*route.Hop{final},
	}

	return &a.HTLCAttemptInfo
}

func c16xInfo(hash lntypes.Hash, value int64) *paymentsdb.PaymentCreationInfo {
	return &paymentsdb.PaymentCreationInfo{
		PaymentIdentifier: hash,
		Value:             lnwire.MilliSatoshi(value),
		CreationTime:      c16xBaseTime,
		PaymentRequest:    []byte("c16x"),
	}
}

func c16xPreimage(id uint64) lntypes.Preimage {
	var b [16]byte
	copy(b[:], "c16xpre")
	binary.BigEndian.PutUint64(b[8:], id)

	return lntypes.Preimage(sha256.Sum256(b[:]))
}

func c16xSettleInfo(id uint64) *paymentsdb.HTLCSettleInfo {
	return &paymentsdb.HTLCSettleInfo{
		Preimage:   c16xPreimage(id),
		SettleTime: c16xBaseTime.Add(time.Hour),
	}
}

func c16xFailInfo() *paymentsdb.HTLCFailInfo {
	return &paymentsdb.HTLCFailInfo{
		FailTime:           c16xBaseTime.Add(2 * time.Hour),
		Reason:             paymentsdb.HTLCFailUnknown,
		FailureSourceIndex: 1,
	}
}

// ---------------------------------------------------------------------------
// The spy.

// c16xTagKey carries the tower-level call kind down to the store through the
// context the tower forwards. SubscribePayment uses context.TODO(): its fetch
// arrives untagged.
type c16xTagKey struct{}

const (
	c16xTagFetch = "fetch" // tower.FetchPayment
	c16xTagInit  = "init"  // tower.InitPayment (store Init, then the fetch for the notification)
	c16xTagOther = "other"
)

// Kinds of log entries (store answers produced inside the tower's per-hash
// critical section).
const (
	c16xEntRegister    = "register"
	c16xEntSettle      = "settle"
	c16xEntFailAttempt = "failattempt"
	c16xEntFail        = "fail"
	c16xEntInitNotify  = "init-notify"     // InitPayment's fetch for the notification
	c16xEntSubFetch    = "subscribe-fetch" // SubscribePayment's fetch
)

type c16xEntry struct {
	Kind  string
	Enter int64
	Exit  int64
	P     *paymentsdb.MPPayment
	View  *c16xView
	Term  bool
}

// c16xSpan is a successful store-level InitPayment.
type c16xSpan struct{ Enter, Exit int64 }

type c16xHashLog struct {
	mu      sync.Mutex
	active  []string // exclusive calls currently inside the store
	entries []c16xEntry
	inits   []c16xSpan
	overlap []string
}

type c16xSpy struct {
	paymentsdb.DB

	clk    *atomic.Int64
	logs   map[lntypes.Hash]*c16xHashLog // fixed key set, built up front
	yields []int
	yix    atomic.Int64
}

func (s *c16xSpy) yield() {
	if len(s.yields) == 0 {
		return
	}
	i := int(s.yix.Add(1)) % len(s.yields)
	for k := 0; k < s.yields[i]; k++ {
		runtime.Gosched()
	}
}

// exclusive runs one store call that the tower promises to make inside its
// per-hash critical section.
func (s *c16xSpy) exclusive(h lntypes.Hash, kind string,
	call func() (*paymentsdb.MPPayment, error)) (*paymentsdb.MPPayment,
	error) {

	l := s.logs[h]
	if l == nil {
		return call()
	}
	l.mu.Lock()
	enter := s.clk.Add(1)
	if len(l.active) > 0 {
		l.overlap = append(l.overlap, fmt.Sprintf("%s entered the "+
			"store at t=%d while %v for the same payment hash "+
			"had not returned", kind, enter, l.active))
	}
	l.active = append(l.active, kind)
	l.mu.Unlock()

	s.yield()
	p, err := call()
	s.yield()

	l.mu.Lock()
	for i, k := range l.active {
		if k == kind {
			l.active = append(l.active[:i], l.active[i+1:]...)
			break
		}
	}
	if err == nil && p != nil {
		l.entries = append(l.entries, c16xEntry{
			Kind: kind, Enter: enter, Exit: s.clk.Add(1), P: p,
			View: c16xViewOf(p), Term: p.Terminated(),
		})
	}
	l.mu.Unlock()

	// Linger between the store's answer and what the tower does with it
	// (notification, subscriber registration): no harness synchronisation
	// happens from here until the tower call returns, so the race detector
	// sees the tower's own synchronisation only.
	s.yield()

	return p, err
}

func (s *c16xSpy) InitPayment(ctx context.Context, h lntypes.Hash,
	info *paymentsdb.PaymentCreationInfo) error {

	enter := s.clk.Add(1)
	s.yield()
	err := s.DB.InitPayment(ctx, h, info)
	s.yield()
	if l := s.logs[h]; l != nil && err == nil {
		l.mu.Lock()
		l.inits = append(l.inits, c16xSpan{enter, s.clk.Add(1)})
		l.mu.Unlock()
	}

	return err
}

func (s *c16xSpy) RegisterAttempt(ctx context.Context, h lntypes.Hash,
	a *paymentsdb.HTLCAttemptInfo) (*paymentsdb.MPPayment, error) {

	return s.exclusive(h, c16xEntRegister, func() (*paymentsdb.MPPayment,
		error) {

		return s.DB.RegisterAttempt(ctx, h, a)
	})
}

func (s *c16xSpy) SettleAttempt(ctx context.Context, h lntypes.Hash,
	id uint64, i *paymentsdb.HTLCSettleInfo) (*paymentsdb.MPPayment,
	error) {

	return s.exclusive(h, c16xEntSettle, func() (*paymentsdb.MPPayment,
		error) {

		return s.DB.SettleAttempt(ctx, h, id, i)
	})
}

func (s *c16xSpy) FailAttempt(ctx context.Context, h lntypes.Hash,
	id uint64, i *paymentsdb.HTLCFailInfo) (*paymentsdb.MPPayment, error) {

	return s.exclusive(h, c16xEntFailAttempt, func() (*paymentsdb.MPPayment,
		error) {

		return s.DB.FailAttempt(ctx, h, id, i)
	})
}

func (s *c16xSpy) Fail(ctx context.Context, h lntypes.Hash,
	r paymentsdb.FailureReason) (*paymentsdb.MPPayment, error) {

	return s.exclusive(h, c16xEntFail, func() (*paymentsdb.MPPayment,
		error) {

		return s.DB.Fail(ctx, h, r)
	})
}

func (s *c16xSpy) FetchPayment(ctx context.Context,
	h lntypes.Hash) (*paymentsdb.MPPayment, error) {

	tag, _ := ctx.Value(c16xTagKey{}).(string)
	switch tag {
	// InitPayment fetches the payment it notifies "after taking the lock".
	case c16xTagInit:
		return s.exclusive(h, c16xEntInitNotify,
			func() (*paymentsdb.MPPayment, error) {
				return s.DB.FetchPayment(ctx, h)
			})

	// SubscribePayment (context.TODO()) fetches the first update under the
	// lock "to prevent missing or duplicating an update".
	case "":
		return s.exclusive(h, c16xEntSubFetch,
			func() (*paymentsdb.MPPayment, error) {
				return s.DB.FetchPayment(ctx, h)
			})
	}
	s.yield()
	p, err := s.DB.FetchPayment(ctx, h)
	s.yield()

	return p, err
}

func (s *c16xSpy) DeleteFailedAttempts(ctx context.Context,
	h lntypes.Hash) error {

	s.yield()
	err := s.DB.DeleteFailedAttempts(ctx, h)
	s.yield()

	return err
}
