//go:build verif

package routing

// C19 — oracle side. c19Validate is a validity predicate on a returned
// route.Route, written from BOLT-7 (fee = base + amt*ppm/1e6, rounded down),
// BOLT-4 (each forwarding node needs amt_in - amt_out >= fee and
// cltv_in - cltv_out >= cltv_expiry_delta; onion payloads <= 1300 bytes) and
// lnd's documented inbound-fee rule (htlcswitch CheckHtlcForward /
// models.InboundFee.CalcFee: inbound fee is charged by the forwarding node on
// its incoming channel, computed on amt_out + outbound fee, proportional part
// rounded toward zero, and the node's total fee is floored at zero). All fee
// arithmetic is exact math/big. It looks only at the generated model and
// the route; it never calls findPath, the unifier or ComputeFee/CalcFee.

import (
	"bytes"
	"fmt"
	"math/big"

	"github.com/btcsuite/btcd/btcec/v2"
	sphinx "github.com/lightningnetwork/lightning-onion"
	"github.com/lightningnetwork/lnd/lnwire"
	"github.com/lightningnetwork/lnd/routing/route"
)

var c19Million = big.NewInt(1_000_000)

func c19Big(v uint64) *big.Int { return new(big.Int).SetUint64(v) }

// c19OutFee is the BOLT-7 forwarding fee for sending amt out.
func c19OutFee(base, ppm uint64, amt *big.Int) *big.Int {
	f := new(big.Int).Mul(amt, c19Big(ppm))
	f.Quo(f, c19Million) // non-negative: floor
	return f.Add(f, c19Big(base))
}

// c19InFee is lnd's inbound fee on amt (= amt_out + outbound fee): base +
// rate*amt/1e6 with the proportional part rounded toward zero.
func c19InFee(base, rate int32, amt *big.Int) *big.Int {
	f := new(big.Int).Mul(amt, big.NewInt(int64(rate)))
	f.Quo(f, c19Million) // Quo truncates toward zero
	return f.Add(f, big.NewInt(int64(base)))
}

// c19Edge is one usable channel direction as the oracle sees it.
type c19Edge struct {
	Kind     string // "graph", "hint", "blinded"
	From, To route.Vertex
	ID       uint64
	Base     uint64
	PPM      uint64
	Min, Max uint64
	HasMax   bool
	Delta    uint16
	Disabled bool
	CapMsat  uint64 // 0 = unknown
	// Inbound fee the To node charges for HTLCs arriving on this channel.
	ToInBase, ToInRate int32
}

// hintEdges derives the directed edges a set of invoice hint chains
// describes (BOLT-11 'r' field: each hop hint names the node at the start
// of the channel; the end is the next hint's node or the payee).
func (q *c19Query) hintEdges() []c19Edge {
	var out []c19Edge
	for _, chain := range q.Hints {
		for i, h := range chain {
			to := q.Target
			if i+1 < len(chain) {
				to = c19Vtx(chain[i+1].From)
			}
			out = append(out, c19Edge{
				Kind: "hint", From: c19Vtx(h.From), To: to, ID: h.ID,
				Base: uint64(h.Base), PPM: uint64(h.PPM),
				Delta: h.Delta,
			})
		}
	}

	return out
}

// findEdge returns the model's candidates for "channel id from u to v".
func (q *c19Query) findEdge(u, v route.Vertex, id uint64) []c19Edge {
	var out []c19Edge
	for _, a := range q.m.adj[u] {
		ch, k := a.ch, a.side
		if ch.ID != id || q.m.Nodes[ch.N[1-k]] != v || ch.Pol[k] == nil {
			continue
		}
		p := ch.Pol[k]
		e := c19Edge{
			Kind: "graph", From: u, To: v, ID: id, Base: p.Base,
			PPM: p.PPM, Min: p.Min, Max: p.Max, HasMax: p.HasMax,
			Delta: p.Delta, Disabled: p.Disabled,
			CapMsat: uint64(ch.Cap) * 1000,
		}
		if other := ch.Pol[1-k]; other != nil {
			e.ToInBase, e.ToInRate = other.InBase, other.InRate
		}
		out = append(out, e)
	}
	for _, e := range q.hintEdges() {
		if e.From == u && e.To == v && e.ID == id {
			out = append(out, e)
		}
	}

	return out
}

// c19Facts is what the oracle learned about a valid route (for labels).
type c19Facts struct {
	Hops          int
	InboundOnPath bool
	NegInbound    bool
	FloorHit      bool // some node's out+in fee was negative (floored)
	Parallel      bool // a hop had parallel channels with different policy
	Fee           uint64
	TimeLock      uint32
	Payload       int
	UsedHint      bool
	BlindedLen    int
	LocalDisabled bool
	FinalDelta    uint64 // final delta the payee's hop was judged against
	Kinds         []string
}

type c19Violation struct {
	Rule string
	Msg  string
}

func (v c19Violation) String() string { return v.Rule + ": " + v.Msg }

// c19Expect carries the parts of the request that depend on the entry
// point (findPath+newRoute vs RequestRoute).
type c19Expect struct {
	Amt        uint64 // amount the final hop must receive
	FinalDelta uint16 // delta newRoute was told to give the final hop
	TotalAmt   uint64 // MPP / blinded total
}

// c19Validate decides whether rt is payable under everything q states.
func c19Validate(q *c19Query, ex c19Expect, rt *route.Route) (
	[]c19Violation, c19Facts) {

	var (
		viol  []c19Violation
		facts c19Facts
	)
	bad := func(rule, format string, args ...any) {
		viol = append(viol, c19Violation{rule, fmt.Sprintf(format, args...)})
	}
	m := q.m

	if rt == nil || len(rt.Hops) == 0 {
		bad("shape", "nil or empty route without error")
		return viol, facts
	}
	n := len(rt.Hops)
	facts.Hops = n
	if rt.SourcePubKey != q.Source {
		bad("connected", "route source %s != %s",
			m.nodeName(rt.SourcePubKey), m.nodeName(q.Source))
	}

	// --- blinded tail: identify the path the route ends in -------------
	var (
		blind     *c19BlindPath
		introIdx  = -1
		finalDlt  = ex.FinalDelta
		payments  = q.blindedPayments()
		blindPaym *BlindedPayment
	)
	if q.isBlinded() {
		for i := range q.Blinded {
			bp := &q.Blinded[i]
			L := len(bp.Hops)
			k := n - L
			if k < 0 {
				continue
			}
			if rt.Hops[k].PubKeyBytes != m.Nodes[bp.Intro] {
				continue
			}
			ok := true
			for j := 1; j < L; j++ {
				if rt.Hops[k+j].PubKeyBytes != c19Vtx(bp.Hops[j].Key) {
					ok = false
				}
			}
			// Single-hop paths win over everything else in the
			// set (NewBlindedPaymentPathSet documents that).
			if ok {
				blind, introIdx, blindPaym = bp, k, payments[i]
				break
			}
		}
		if blind == nil {
			bad("blinded", "route tail matches none of the blinded "+
				"paths: %v", c19RouteString(m, rt))
			return viol, facts
		}
		facts.BlindedLen = len(blind.Hops)
		finalDlt = 0
		if len(blind.Hops) == 1 {
			finalDlt = blind.Delta
		}
		// Onion fields of the blinded part.
		for j := 0; j < len(blind.Hops); j++ {
			h := rt.Hops[introIdx+j]
			if !bytes.Equal(h.EncryptedData,
				c19Cipher(blind.Hops[j].Cipher)) {

				bad("blinded", "hop %d carries the wrong encrypted "+
					"data (%d bytes)", introIdx+j,
					len(h.EncryptedData))
			}
			wantPoint := j == 0
			if (h.BlindingPoint != nil) != wantPoint {
				bad("blinded", "hop %d blinding point presence=%v",
					introIdx+j, h.BlindingPoint != nil)
			}
			if wantPoint && h.BlindingPoint != nil &&
				!h.BlindingPoint.IsEqual(
					blindPaym.BlindedPath.BlindingPoint) {

				bad("blinded", "wrong blinding point")
			}
			last := introIdx+j == n-1
			if !last && (h.AmtToForward != 0 ||
				h.OutgoingTimeLock != 0) {

				bad("blinded", "intermediate blinded hop %d has "+
					"amt=%d timelock=%d", introIdx+j,
					h.AmtToForward, h.OutgoingTimeLock)
			}
		}
		for i := 0; i < introIdx; i++ {
			if rt.Hops[i].EncryptedData != nil ||
				rt.Hops[i].BlindingPoint != nil {

				bad("blinded", "clear hop %d carries blinded "+
					"fields", i)
			}
		}
		if uint64(rt.Hops[n-1].TotalAmtMsat) != ex.TotalAmt {
			bad("blinded", "final total_amount_msat=%d want %d",
				rt.Hops[n-1].TotalAmtMsat, ex.TotalAmt)
		}
	} else {
		if rt.Hops[n-1].PubKeyBytes != q.Target {
			bad("connected", "route ends at %s, target is %s",
				m.nodeName(rt.Hops[n-1].PubKeyBytes),
				m.nodeName(q.Target))
		}
	}

	// --- per-hop HTLCs: amount and expiry on each channel ---------------
	final := rt.Hops[n-1]
	if uint64(final.AmtToForward) != ex.Amt {
		bad("totals", "final hop receives %d, requested %d",
			final.AmtToForward, ex.Amt)
	}
	A := make([]uint64, n) // amount of the HTLC on hop i's channel
	T := make([]uint32, n) // expiry of the HTLC on hop i's channel
	A[0], T[0] = uint64(rt.TotalAmount), rt.TotalTimeLock
	for i := 1; i < n; i++ {
		A[i] = uint64(rt.Hops[i-1].AmtToForward)
		T[i] = rt.Hops[i-1].OutgoingTimeLock
		if blind != nil && i > introIdx {
			// Inside the blinded part the sender does not state
			// amounts; the aggregate relay parameters were paid to
			// the introduction node, the remainder travels on.
			A[i] = uint64(final.AmtToForward)
			T[i] = final.OutgoingTimeLock
		}
	}

	// Final hop: the payee must see at least height + its final delta.
	facts.FinalDelta = uint64(finalDlt)
	needFinal := uint64(q.Height) + uint64(finalDlt)
	if uint64(final.OutgoingTimeLock) < needFinal {
		bad("final_cltv", "final hop outgoing_cltv %d < height %d + "+
			"final delta %d", final.OutgoingTimeLock, q.Height, finalDlt)
	}
	if T[n-1] < final.OutgoingTimeLock {
		bad("final_cltv", "HTLC reaching the payee expires at %d < "+
			"payload value %d", T[n-1], final.OutgoingTimeLock)
	}

	// --- edges -------------------------------------------------------------
	edges := make([]*c19Edge, n)
	prev := rt.SourcePubKey
	seen := map[route.Vertex]bool{prev: true}
	for i, h := range rt.Hops {
		u, v := prev, h.PubKeyBytes
		prev = v
		if seen[v] && !(i == n-1 && v == q.Source && q.Target == q.Source) {
			// Not demanded by the property text; recorded only.
			facts.Kinds = append(facts.Kinds, "revisit")
		}
		seen[v] = true

		var e *c19Edge
		switch {
		case blind != nil && i == introIdx+1:
			e = &c19Edge{
				Kind: "blinded", From: u, To: v, ID: 0,
				Base: uint64(blind.BaseFee), PPM: uint64(blind.PPM),
				Min: blind.Min, Max: blind.Max, HasMax: true,
				Delta: blind.Delta,
			}
			if h.ChannelID != 0 {
				bad("blinded", "blinded hop %d names channel %d", i,
					h.ChannelID)
			}
		case blind != nil && i > introIdx+1:
			e = &c19Edge{Kind: "blinded", From: u, To: v}
			if h.ChannelID != 0 {
				bad("blinded", "blinded hop %d names channel %d", i,
					h.ChannelID)
			}
		default:
			cands := q.findEdge(u, v, h.ChannelID)
			if len(cands) == 0 {
				bad("connected", "hop %d: no channel %d with a policy "+
					"from %s to %s", i, h.ChannelID, m.nodeName(u),
					m.nodeName(v))
				continue
			}
			e = &cands[0]
			// Parallel channels with a different policy?
			for _, a := range m.adj[u] {
				ch, k := a.ch, a.side
				if m.Nodes[ch.N[1-k]] != v || ch.ID == h.ChannelID ||
					ch.Pol[k] == nil {

					continue
				}
				if *ch.Pol[k] != *c19PolOf(m, u, h.ChannelID) {
					facts.Parallel = true
				}
			}
		}
		edges[i] = e
		facts.Kinds = append(facts.Kinds, e.Kind)
		if e.Kind == "hint" {
			facts.UsedHint = true
		}

		local := u == q.Self
		amt := A[i]

		// Enabled. For the node's own channels lnd documents that the
		// bandwidth hints replace the disabled flag.
		if e.Disabled && !local {
			bad("enabled", "hop %d uses disabled channel %d", i, e.ID)
		}
		if e.Disabled && local {
			facts.LocalDisabled = true
		}
		if amt < e.Min {
			bad("min_htlc", "hop %d: %d < min_htlc %d of channel %d", i,
				amt, e.Min, e.ID)
		}
		if e.HasMax && amt > e.Max {
			bad("max_htlc", "hop %d (%s): %d > max_htlc %d of channel "+
				"%d", i, e.Kind, amt, e.Max, e.ID)
		}
		if e.CapMsat > 0 && amt > e.CapMsat {
			bad("capacity", "hop %d: %d > capacity %d of channel %d", i,
				amt, e.CapMsat, e.ID)
		}
		if local && !q.BWNil {
			if bw, ok := q.BW[e.ID]; ok && amt > bw {
				bad("bandwidth", "hop %d: %d > local bandwidth %d of "+
					"channel %d", i, amt, bw, e.ID)
			}
		}
		if q.Probs.prob(u, v, amt) == 0 {
			bad("ignored", "hop %d %s->%s is ignored (probability 0 "+
				"for amount %d)", i, m.nodeName(u), m.nodeName(v), amt)
		}
	}

	// --- forwarding nodes ----------------------------------------------
	for i := 0; i+1 < n; i++ {
		in, out := edges[i], edges[i+1]
		if in == nil || out == nil {
			continue
		}
		amtIn, amtOut := c19Big(A[i]), c19Big(A[i+1])
		outFee := c19OutFee(out.Base, out.PPM, amtOut)
		inFee := c19InFee(in.ToInBase, in.ToInRate,
			new(big.Int).Add(amtOut, outFee))
		need := new(big.Int).Add(outFee, inFee)
		if need.Sign() < 0 {
			need.SetInt64(0)
			facts.FloorHit = true
		}
		if in.ToInBase != 0 || in.ToInRate != 0 {
			facts.InboundOnPath = true
			if inFee.Sign() < 0 {
				facts.NegInbound = true
			}
		}
		got := new(big.Int).Sub(amtIn, amtOut)
		if got.Cmp(need) < 0 {
			bad("fee", "node %s (hop %d): gets %v for forwarding %v, "+
				"policy demands %v (out %v via ch %d, inbound %v via "+
				"ch %d)", m.nodeName(rt.Hops[i].PubKeyBytes), i, got,
				amtOut, need, outFee, out.ID, inFee, in.ID)
		}
		if T[i] < T[i+1] ||
			uint64(T[i])-uint64(T[i+1]) < uint64(out.Delta) {

			bad("cltv_delta", "node %s (hop %d): expiry in %d out %d, "+
				"needs delta %d of channel %d",
				m.nodeName(rt.Hops[i].PubKeyBytes), i, T[i], T[i+1],
				out.Delta, out.ID)
		}
	}

	// --- totals and limits -------------------------------------------
	if uint64(rt.TotalAmount) < ex.Amt {
		bad("totals", "total amount %d < received %d", rt.TotalAmount,
			ex.Amt)
	} else {
		fee := uint64(rt.TotalAmount) - ex.Amt
		facts.Fee = fee
		if uint64(rt.TotalFees()) != fee {
			bad("totals", "TotalFees()=%d, TotalAmount-amt=%d",
				rt.TotalFees(), fee)
		}
		var sum uint64
		for i := range rt.Hops {
			sum += uint64(rt.HopFee(i))
		}
		if sum != fee {
			bad("totals", "sum of HopFee = %d, total fee %d", sum, fee)
		}
		if fee > q.FeeLimit {
			bad("fee_limit", "fees %d > limit %d", fee, q.FeeLimit)
		}
	}
	if uint64(rt.ReceiverAmt()) != ex.Amt {
		bad("totals", "ReceiverAmt()=%d want %d", rt.ReceiverAmt(), ex.Amt)
	}
	facts.TimeLock = rt.TotalTimeLock
	// RestrictParams.CltvLimit excludes the final delta: the total time
	// lock may be at most height + final delta + limit.
	maxTL := uint64(q.Height) + uint64(finalDlt) + uint64(q.CltvLimit)
	if uint64(rt.TotalTimeLock) > maxTL {
		bad("cltv_limit", "total time lock %d > height %d + final "+
			"delta %d + limit %d", rt.TotalTimeLock, q.Height, finalDlt,
			q.CltvLimit)
	}

	// --- restrictions --------------------------------------------------
	if len(q.OutChans) > 0 && q.Source == q.Self {
		ok := false
		for _, id := range q.OutChans {
			ok = ok || id == rt.Hops[0].ChannelID
		}
		if !ok {
			bad("outgoing_chan", "first hop channel %d not in %v",
				rt.Hops[0].ChannelID, q.OutChans)
		}
	}
	if q.LastHop != nil {
		pen := rt.SourcePubKey
		if n >= 2 {
			pen = rt.Hops[n-2].PubKeyBytes
		}
		if pen != *q.LastHop {
			bad("last_hop", "penultimate node %s, restriction %s",
				m.nodeName(pen), m.nodeName(*q.LastHop))
		}
	}

	// Route success probability as the config promises it (same
	// multiplication order as a backward search; tolerance for safety).
	if q.Cfg.MinProbability > 0 {
		p := 1.0
		prevs := make([]route.Vertex, n)
		pv := rt.SourcePubKey
		for i, h := range rt.Hops {
			prevs[i] = pv
			pv = h.PubKeyBytes
		}
		for i := n - 1; i >= 0; i-- {
			p *= q.Probs.prob(prevs[i], rt.Hops[i].PubKeyBytes, A[i])
		}
		if p < q.Cfg.MinProbability*(1-1e-9) {
			bad("min_probability", "route probability %v < %v", p,
				q.Cfg.MinProbability)
		}
	}

	// --- onion ----------------------------------------------------------
	path, err := rt.ToSphinxPath()
	if err != nil {
		bad("onion", "ToSphinxPath: %v", err)
	} else {
		facts.Payload = path.TotalPayloadSize()
		if facts.Payload > sphinx.MaxRoutingPayloadSize {
			bad("onion_size", "hop payloads need %d bytes > %d",
				facts.Payload, sphinx.MaxRoutingPayloadSize)
		}
	}
	if q.PayAddr {
		if final.MPP == nil {
			bad("onion", "payment address requested, no MPP record")
		} else if uint64(final.MPP.TotalMsat()) != ex.TotalAmt {
			bad("onion", "MPP total %d want %d", final.MPP.TotalMsat(),
				ex.TotalAmt)
		}
	}

	return viol, facts
}

func c19PolOf(m *c19Model, u route.Vertex, id uint64) *c19Pol {
	for _, a := range m.adj[u] {
		if a.ch.ID == id {
			return a.ch.Pol[a.side]
		}
	}

	return &c19Pol{}
}

// c19OnionRoundTrip builds the real onion for the route; used on a sample
// of cases as a second opinion on "the payload fits".
func c19OnionRoundTrip(rt *route.Route) error {
	path, err := rt.ToSphinxPath()
	if err != nil {
		return err
	}
	var kb [32]byte
	kb[31] = 7
	sess, _ := btcec.PrivKeyFromBytes(kb[:])
	_, err = sphinx.NewOnionPacket(
		path, sess, []byte{1, 2, 3}, sphinx.DeterministicPacketFiller,
	)

	return err
}

func c19RouteString(m *c19Model, rt *route.Route) string {
	if rt == nil {
		return "<nil>"
	}
	s := fmt.Sprintf("%s --[amt %d, cltv %d]", m.nodeName(rt.SourcePubKey),
		rt.TotalAmount, rt.TotalTimeLock)
	for _, h := range rt.Hops {
		s += fmt.Sprintf("--ch%d--> %s (fwd %d, cltv %d", h.ChannelID,
			m.nodeName(h.PubKeyBytes), h.AmtToForward, h.OutgoingTimeLock)
		if h.EncryptedData != nil {
			s += fmt.Sprintf(", enc %dB", len(h.EncryptedData))
		}
		if h.BlindingPoint != nil {
			s += ", bp"
		}
		s += ") "
	}

	return s
}

var _ = lnwire.MilliSatoshi(0)
