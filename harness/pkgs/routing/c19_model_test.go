//go:build verif

package routing

// C19 — model side: a light in-memory channel graph that implements the
// routing Graph / GraphSessionFactory interfaces, bandwidth hints, a
// probability source, and the rapid generators for graphs and requests.
// Nothing in this file decides the property; the oracle is in
// c19_oracle_test.go.

import (
	"context"
	"fmt"
	"sort"
	"strings"
	"sync"

	"github.com/btcsuite/btcd/btcec/v2"
	"github.com/btcsuite/btcd/btcutil/v2"
	sphinx "github.com/lightningnetwork/lightning-onion"
	"github.com/lightningnetwork/lnd/fn/v2"
	graphdb "github.com/lightningnetwork/lnd/graph/db"
	"github.com/lightningnetwork/lnd/graph/db/models"
	"github.com/lightningnetwork/lnd/lnwire"
	"github.com/lightningnetwork/lnd/record"
	"github.com/lightningnetwork/lnd/routing/route"
	"github.com/lightningnetwork/lnd/zpay32"
	"pgregory.net/rapid"
)

// ---------------------------------------------------------------------------
// key pool

const (
	c19GraphKeys   = 24 // pool indices [0,24): graph nodes
	c19PrivateBase = 24 // [24,36): private (hint-only) nodes
	c19BlindBase   = 36 // [36,64): blinded node ids and blinding points
	c19PoolSize    = 64
)

var c19Pool struct {
	once sync.Once
	pub  []*btcec.PublicKey
	v    []route.Vertex
}

func c19InitPool() {
	c19Pool.once.Do(func() {
		for i := 0; i < c19PoolSize; i++ {
			var b [32]byte
			b[0] = 0x19
			b[30] = byte(i >> 8)
			b[31] = byte(i + 1)
			_, pub := btcec.PrivKeyFromBytes(b[:])
			c19Pool.pub = append(c19Pool.pub, pub)
			c19Pool.v = append(c19Pool.v, route.NewVertex(pub))
		}
	})
}

func c19Pub(i int) *btcec.PublicKey { c19InitPool(); return c19Pool.pub[i] }
func c19Vtx(i int) route.Vertex     { c19InitPool(); return c19Pool.v[i] }

// ---------------------------------------------------------------------------
// graph model

// c19Pol is one direction's channel_update as the announcing node set it:
// its outgoing forwarding policy for the channel plus the inbound fee it
// charges for HTLCs arriving over that channel.
type c19Pol struct {
	Base, PPM uint64
	Min, Max  uint64
	HasMax    bool
	Delta     uint16
	Disabled  bool
	InBase    int32
	InRate    int32
}

// c19Chan is a channel between nodes N[0] and N[1]; Pol[k] was announced by
// N[k] and governs forwarding N[k] -> N[1-k]. nil = never announced.
type c19Chan struct {
	ID  uint64
	N   [2]int
	Cap int64 // satoshis; 0 = unknown
	Pol [2]*c19Pol
}

type c19Adj struct {
	ch   *c19Chan
	side int
}

type c19Model struct {
	Nodes []route.Vertex
	Feat  []int // 0 empty, 1 tlv+payaddr+mpp, 2 unknown required bit
	Chans []*c19Chan

	adj  map[route.Vertex][]c19Adj
	feat map[route.Vertex]int
}

func (m *c19Model) index() {
	m.adj = make(map[route.Vertex][]c19Adj)
	m.feat = make(map[route.Vertex]int)
	for i, v := range m.Nodes {
		m.feat[v] = m.Feat[i]
	}
	for _, ch := range m.Chans {
		for k := 0; k < 2; k++ {
			v := m.Nodes[ch.N[k]]
			m.adj[v] = append(m.adj[v], c19Adj{ch: ch, side: k})
		}
	}
}

func c19Features(kind int) *lnwire.FeatureVector {
	switch kind {
	case 1:
		return lnwire.NewFeatureVector(lnwire.NewRawFeatureVector(
			lnwire.TLVOnionPayloadOptional,
			lnwire.PaymentAddrOptional,
			lnwire.MPPOptional,
		), lnwire.Features)
	case 2:
		// An even (required) bit nobody knows.
		return lnwire.NewFeatureVector(lnwire.NewRawFeatureVector(
			lnwire.FeatureBit(9000),
		), lnwire.Features)
	default:
		return lnwire.EmptyFeatureVector()
	}
}

// ForEachNodeDirectedChannel is the routing.Graph method. Like lnd's graph
// cache it hands out fresh copies (findPath writes ToNodeFeatures) and
// reports nothing for unknown nodes.
func (m *c19Model) ForEachNodeDirectedChannel(_ context.Context,
	node route.Vertex, cb func(*graphdb.DirectedChannel) error,
	_ func()) error {

	for _, a := range m.adj[node] {
		ch, k := a.ch, a.side
		dc := &graphdb.DirectedChannel{
			ChannelID: ch.ID,
			IsNode1:   k == 0,
			OtherNode: m.Nodes[ch.N[1-k]],
			Capacity:  btcutil.Amount(ch.Cap),
		}
		if own := ch.Pol[k]; own != nil {
			dc.OutPolicySet = true
			dc.InboundFee = lnwire.Fee{
				BaseFee: own.InBase, FeeRate: own.InRate,
			}
		}
		if in := ch.Pol[1-k]; in != nil {
			to := node
			p := &models.CachedEdgePolicy{
				ChannelID:                 ch.ID,
				HasMaxHTLC:                in.HasMax,
				IsNode1:                   1-k == 0,
				IsDisabled:                in.Disabled,
				TimeLockDelta:             in.Delta,
				MinHTLC:                   lnwire.MilliSatoshi(in.Min),
				MaxHTLC:                   lnwire.MilliSatoshi(in.Max),
				FeeBaseMSat:               lnwire.MilliSatoshi(in.Base),
				FeeProportionalMillionths: lnwire.MilliSatoshi(in.PPM),
				ToNodePubKey: func() route.Vertex {
					return to
				},
				ToNodeFeatures: c19Features(m.feat[node]),
			}
			if in.InBase != 0 || in.InRate != 0 {
				p.InboundFee = fn.Some(lnwire.Fee{
					BaseFee: in.InBase, FeeRate: in.InRate,
				})
			}
			dc.InPolicy = p
		}
		if err := cb(dc); err != nil {
			return err
		}
	}

	return nil
}

func (m *c19Model) FetchNodeFeatures(_ context.Context,
	node route.Vertex) (*lnwire.FeatureVector, error) {

	return c19Features(m.feat[node]), nil
}

// GraphSession makes the model a GraphSessionFactory.
func (m *c19Model) GraphSession(_ context.Context,
	cb func(graphdb.NodeTraverser) error, _ func()) error {

	return cb(m)
}

var (
	_ Graph               = (*c19Model)(nil)
	_ GraphSessionFactory = (*c19Model)(nil)
)

// ---------------------------------------------------------------------------
// bandwidth hints

type c19BW struct {
	hints map[uint64]uint64 // nil map = manager knows no channel at all
}

func (b *c19BW) availableChanBandwidth(id uint64,
	_ lnwire.MilliSatoshi) (lnwire.MilliSatoshi, bool) {

	v, ok := b.hints[id]

	return lnwire.MilliSatoshi(v), ok
}

func (b *c19BW) isCustomHTLCPayment() bool { return false }

var _ bandwidthHints = (*c19BW)(nil)

// ---------------------------------------------------------------------------
// probability source (mission control stand-in)

type c19Pair struct{ From, To route.Vertex }

type c19Probs struct {
	Default  float64
	Pair     map[c19Pair]float64
	Ignored  map[route.Vertex]bool // nodes that may not be used at all
	AmtAbove map[c19Pair]uint64    // probability 0 above this amount
}

func (p *c19Probs) prob(from, to route.Vertex, amt uint64) float64 {
	if p.Ignored[from] || p.Ignored[to] {
		return 0
	}
	k := c19Pair{from, to}
	if thr, ok := p.AmtAbove[k]; ok && amt > thr {
		return 0
	}
	if v, ok := p.Pair[k]; ok {
		return v
	}

	return p.Default
}

func (p *c19Probs) source() func(route.Vertex, route.Vertex,
	lnwire.MilliSatoshi, btcutil.Amount) float64 {

	return func(f, t route.Vertex, a lnwire.MilliSatoshi,
		_ btcutil.Amount) float64 {

		return p.prob(f, t, uint64(a))
	}
}

// ---------------------------------------------------------------------------
// request

type c19Hint struct {
	From  int // pool index of the node at the start of the channel
	ID    uint64
	Base  uint32
	PPM   uint32
	Delta uint16
}

// c19HintUpd is a channel_update for a private (hint) edge, as a payment
// failure from the hint's source node carries it. Signer is the pool index
// of the key that signs it: the edge's source node (authentic) or another
// node (forged, must be refused and change nothing).
type c19HintUpd struct {
	From   int
	ID     uint64
	Base   uint32
	PPM    uint32
	Delta  uint16
	Signer int
}

func c19Priv(i int) *btcec.PrivateKey {
	var b [32]byte
	b[0] = 0x19
	b[30] = byte(i >> 8)
	b[31] = byte(i + 1)
	priv, _ := btcec.PrivKeyFromBytes(b[:])

	return priv
}

type c19BlindHop struct {
	Key    int // pool index of the blinded node id; -1 = nil (intro only)
	Cipher int // cipher text length
}

type c19BlindPath struct {
	Intro    int // node index in the model
	Point    int // pool index of the blinding point
	Hops     []c19BlindHop
	BaseFee  uint32
	PPM      uint32
	Delta    uint16
	Min, Max uint64
}

type c19Query struct {
	m *c19Model

	Self, Source route.Vertex
	// Target is the clear target; ignored when Blinded != nil.
	Target route.Vertex

	Amt       uint64
	FeeLimit  uint64
	CltvLimit uint32 // RestrictParams.CltvLimit: excludes the final delta
	OutChans  []uint64
	LastHop   *route.Vertex
	Height    uint32
	FinalDlt  uint16
	TimePref  float64
	Probs     *c19Probs
	Cfg       PathFindingConfig
	BW        map[uint64]uint64
	BWNil     bool
	Hints     [][]c19Hint
	// InvoiceHints, when set, are the hints the payment session is created
	// with; HintUpdates are channel updates for those private edges that
	// the session is handed afterwards (payment-failure path); Hints then
	// describe the edges after the updates - what a returned route must
	// respect.
	InvoiceHints [][]c19Hint
	HintUpdates  []c19HintUpd
	Blinded      []c19BlindPath
	BlindFeat    int // 0 nil, 1 empty vector
	PayAddr      bool
	DestFeat     int // -1 nil (look up in graph), else feature kind
	MetaLen      int // -1 nil
	CustomLen    int // -1 none; else one custom record of that length
}

func (q *c19Query) isBlinded() bool { return len(q.Blinded) > 0 }

func (q *c19Query) metadata() []byte {
	if q.MetaLen < 0 {
		return nil
	}

	return make([]byte, q.MetaLen)
}

func (q *c19Query) customRecords() record.CustomSet {
	if q.CustomLen < 0 {
		return nil
	}

	return record.CustomSet{70001: make([]byte, q.CustomLen)}
}

func (q *c19Query) payAddr() fn.Option[[32]byte] {
	if !q.PayAddr {
		return fn.None[[32]byte]()
	}

	return fn.Some([32]byte{0xc1, 0x9})
}

func (q *c19Query) destFeatures() *lnwire.FeatureVector {
	if q.DestFeat < 0 {
		return nil
	}

	return c19Features(q.DestFeat)
}

// zpayHints renders the hint chains the way an invoice carries them.
func (q *c19Query) zpayHints() [][]zpay32.HopHint {
	var out [][]zpay32.HopHint
	src := q.Hints
	if q.InvoiceHints != nil {
		src = q.InvoiceHints
	}
	for _, chain := range src {
		var hh []zpay32.HopHint
		for _, h := range chain {
			hh = append(hh, zpay32.HopHint{
				NodeID:                    c19Pub(h.From),
				ChannelID:                 h.ID,
				FeeBaseMSat:               h.Base,
				FeeProportionalMillionths: h.PPM,
				CLTVExpiryDelta:           h.Delta,
			})
		}
		out = append(out, hh)
	}

	return out
}

// blindedPayments renders the blinded paths as the RPC layer would hand
// them to routing.
func (q *c19Query) blindedPayments() []*BlindedPayment {
	var out []*BlindedPayment
	for _, bp := range q.Blinded {
		path := &sphinx.BlindedPath{
			IntroductionPoint: c19PubOfVertex(q.m, bp.Intro),
			BlindingPoint:     c19Pub(bp.Point),
		}
		for _, h := range bp.Hops {
			info := &sphinx.BlindedHopInfo{
				CipherText: c19Cipher(h.Cipher),
			}
			if h.Key >= 0 {
				info.BlindedNodePub = c19Pub(h.Key)
			}
			path.BlindedHops = append(path.BlindedHops, info)
		}
		p := &BlindedPayment{
			BlindedPath:         path,
			BaseFee:             bp.BaseFee,
			ProportionalFeeRate: bp.PPM,
			CltvExpiryDelta:     bp.Delta,
			HtlcMinimum:         bp.Min,
			HtlcMaximum:         bp.Max,
		}
		if q.BlindFeat == 1 {
			p.Features = lnwire.EmptyFeatureVector()
		}
		out = append(out, p)
	}

	return out
}

func c19Cipher(n int) []byte {
	b := make([]byte, n)
	for i := range b {
		b[i] = byte(0xa0 + i%7)
	}

	return b
}

// nodeKeyIdx remembers which pool key each model node uses.
var c19NodeKey sync.Map // route.Vertex -> int

func c19PubOfVertex(m *c19Model, node int) *btcec.PublicKey {
	idx, _ := c19NodeKey.Load(m.Nodes[node])

	return c19Pub(idx.(int))
}

// ---------------------------------------------------------------------------
// generators

func c19Pick[T any](t *rapid.T, name string, xs ...T) T {
	return rapid.SampledFrom(xs).Draw(t, name)
}

func c19Chance(t *rapid.T, name string, pct int) bool {
	// rapid's integers lean towards small values, so "rare" must sit at
	// the top of the range (effective rate is roughly pct/2).
	return rapid.IntRange(0, 99).Draw(t, name) >= 100-pct
}

func c19GenPol(t *rapid.T, tag string, capMsat uint64) *c19Pol {
	if c19Chance(t, tag+"missing", 8) {
		return nil
	}
	ceil := capMsat
	if ceil == 0 {
		ceil = 5_000_000_000
	}
	p := &c19Pol{}
	switch c19Pick(t, tag+"baseKind", 0, 1, 2, 2, 3) {
	case 0:
		p.Base = 0
	case 1:
		p.Base = 1
	case 2:
		p.Base = 1000
	default:
		p.Base = rapid.Uint64Range(0, 20_000).Draw(t, tag+"base")
	}
	switch c19Pick(t, tag+"ppmKind", 0, 1, 2, 3, 3, 4) {
	case 0:
		p.PPM = 0
	case 1:
		p.PPM = 1
	case 2:
		p.PPM = 100
	case 3:
		p.PPM = rapid.Uint64Range(0, 5000).Draw(t, tag+"ppm")
	default:
		p.PPM = rapid.Uint64Range(5000, 1_000_000).Draw(t, tag+"ppmBig")
	}
	switch c19Pick(t, tag+"minKind", 1, 0, 1, 2, 1, 0, 1, 0, 3) {
	case 0:
		p.Min = 0
	case 1:
		p.Min = 1
	case 2:
		p.Min = 1000
	default:
		p.Min = rapid.Uint64Range(0, ceil/4+1).Draw(t, tag+"min")
	}
	p.HasMax = !c19Chance(t, tag+"noMax", 16)
	switch c19Pick(t, tag+"maxKind", 0, 0, 1, 0, 2, 0, 3) {
	case 0:
		p.Max = ceil
	case 1:
		p.Max = ceil - ceil/100
	case 2:
		p.Max = rapid.Uint64Range(p.Min, ceil).Draw(t, tag+"max")
	default:
		p.Max = p.Min + rapid.Uint64Range(0, 100_000).Draw(
			t, tag+"maxSmall")
	}
	p.Delta = c19Pick(t, tag+"dltKind", uint16(0), 1, 18, 40, 40, 80, 144,
		uint16(rapid.IntRange(0, 400).Draw(t, tag+"dlt")))
	p.Disabled = c19Chance(t, tag+"disabled", 9)
	switch c19Pick(t, tag+"inKind", 0, 0, 0, 1, 2, 3, 4) {
	case 0:
	case 1:
		p.InBase = int32(rapid.IntRange(-5000, 5000).Draw(t, tag+"inB"))
	case 2:
		p.InRate = int32(rapid.IntRange(-50_000, 50_000).Draw(
			t, tag+"inR"))
	case 3:
		p.InBase = int32(rapid.IntRange(-5000, 5000).Draw(t, tag+"inB"))
		p.InRate = int32(rapid.IntRange(-50_000, 50_000).Draw(
			t, tag+"inR"))
	default:
		p.InBase = int32(rapid.IntRange(-2_000_000, 2_000_000).Draw(
			t, tag+"inBx"))
		p.InRate = int32(rapid.IntRange(-1_000_000, 1_000_000).Draw(
			t, tag+"inRx"))
	}

	return p
}

func c19GenModel(t *rapid.T) *c19Model {
	c19InitPool()
	n := rapid.IntRange(3, 7).Draw(t, "nodes")
	off := rapid.IntRange(0, c19GraphKeys-1).Draw(t, "keyOff")
	stride := c19Pick(t, "keyStride", 1, 5, 7, 11)
	m := &c19Model{}
	for i := 0; i < n; i++ {
		idx := (off + i*stride) % c19GraphKeys
		v := c19Vtx(idx)
		c19NodeKey.Store(v, idx)
		m.Nodes = append(m.Nodes, v)
		m.Feat = append(m.Feat, c19Pick(t, "feat", 0, 0, 0, 0, 1, 1, 1,
			1, 1, 1, 1, 1, 1, 1, 1, 1, 1, 1, 1, 1, 1, 1, 1, 1, 1, 1, 1,
			1, 1, 2))
	}
	nc := rapid.IntRange(3, 12).Draw(t, "chans")
	for j := 0; j < nc; j++ {
		ch := &c19Chan{ID: uint64(100 + j)}
		tag := fmt.Sprintf("c%d.", j)
		kind := rapid.IntRange(0, 9).Draw(t, tag+"topo")
		switch {
		case (kind < 5 || j == 0) && j < n-1:
			// spine: keeps most graphs connected
			ch.N = [2]int{j, j + 1}
		case kind < 8 && len(m.Chans) > 0:
			// parallel to an existing channel
			o := m.Chans[rapid.IntRange(0, len(m.Chans)-1).Draw(
				t, tag+"par")]
			ch.N = o.N
		default:
			a := rapid.IntRange(0, n-1).Draw(t, tag+"a")
			b := rapid.IntRange(0, n-2).Draw(t, tag+"b")
			if b >= a {
				b++
			}
			ch.N = [2]int{a, b}
		}
		if rapid.Bool().Draw(t, tag+"flip") {
			ch.N[0], ch.N[1] = ch.N[1], ch.N[0]
		}
		switch c19Pick(t, tag+"capKind", 1, 1, 3, 1, 1, 0, 2) {
		case 0:
			ch.Cap = 0
		case 1:
			ch.Cap = rapid.Int64Range(20_000, 5_000_000).Draw(
				t, tag+"cap")
		case 2:
			ch.Cap = rapid.Int64Range(1, 20_000).Draw(t, tag+"capS")
		default:
			ch.Cap = 16_777_215
		}
		capMsat := uint64(ch.Cap) * 1000
		ch.Pol[0] = c19GenPol(t, tag+"p0.", capMsat)
		ch.Pol[1] = c19GenPol(t, tag+"p1.", capMsat)
		m.Chans = append(m.Chans, ch)
	}
	m.index()

	return m
}

// c19TightAmounts lists amounts sitting on some limit of the model.
func c19TightAmounts(m *c19Model, bw map[uint64]uint64) []uint64 {
	var out []uint64
	add := func(v uint64) {
		if v > 1 {
			out = append(out, v-1)
		}
		if v > 0 {
			out = append(out, v)
		}
		out = append(out, v+1)
	}
	for _, ch := range m.Chans {
		if ch.Cap > 0 {
			add(uint64(ch.Cap) * 1000)
		}
		for _, p := range ch.Pol {
			if p == nil {
				continue
			}
			add(p.Min)
			if p.HasMax {
				add(p.Max)
			}
		}
		if v, ok := bw[ch.ID]; ok {
			add(v)
		}
	}
	sort.Slice(out, func(i, j int) bool { return out[i] < out[j] })

	return out
}

func c19GenAmount(t *rapid.T, m *c19Model, bw map[uint64]uint64) uint64 {
	tight := c19TightAmounts(m, bw)
	kind := c19Pick(t, "amtKind", "mid", "mid", "small", "mid", "tight",
		"mid", "small", "tight", "big", "mid")
	switch {
	case kind == "tight" && len(tight) > 0:
		return tight[rapid.IntRange(0, len(tight)-1).Draw(t, "amtTight")]
	case kind == "small":
		return rapid.Uint64Range(1, 2000).Draw(t, "amtSmall")
	case kind == "big":
		return rapid.Uint64Range(100_000_000, 20_000_000_000).Draw(
			t, "amtBig")
	default:
		exp := rapid.IntRange(3, 7).Draw(t, "amtExp")
		hi := uint64(1)
		for i := 0; i < exp; i++ {
			hi *= 10
		}

		return rapid.Uint64Range(hi/10, hi).Draw(t, "amtMid")
	}
}

func c19GenProbs(t *rapid.T, m *c19Model) *c19Probs {
	p := &c19Probs{
		Default:  c19Pick(t, "pDefault", 1.0, 1.0, 0.95, 0.6),
		Pair:     map[c19Pair]float64{},
		Ignored:  map[route.Vertex]bool{},
		AmtAbove: map[c19Pair]uint64{},
	}
	if !c19Chance(t, "pUse", 50) {
		return p
	}
	n := len(m.Nodes)
	cnt := rapid.IntRange(1, 6).Draw(t, "pCnt")
	for i := 0; i < cnt; i++ {
		a := rapid.IntRange(0, n-1).Draw(t, "pA")
		b := rapid.IntRange(0, n-1).Draw(t, "pB")
		if a == b {
			continue
		}
		k := c19Pair{m.Nodes[a], m.Nodes[b]}
		switch rapid.IntRange(0, 5).Draw(t, "pKind") {
		case 0, 1:
			p.Pair[k] = 0
		case 2:
			p.AmtAbove[k] = rapid.Uint64Range(0, 5_000_000).Draw(
				t, "pThr")
		default:
			p.Pair[k] = c19Pick(t, "pVal", 0.02, 0.2, 0.5, 0.9, 1.0)
		}
	}
	if c19Chance(t, "pIgnNode", 20) {
		p.Ignored[m.Nodes[rapid.IntRange(1, n-1).Draw(t, "pIgn")]] = true
	}

	return p
}

func c19GenCfg(t *rapid.T) PathFindingConfig {
	return PathFindingConfig{
		AttemptCost: c19Pick(t, "attemptCost", lnwire.MilliSatoshi(100_000),
			100_000, 0, 1, 1_000_000),
		AttemptCostPPM: c19Pick(t, "attemptPPM", int64(1000), 1000, 0,
			10_000),
		MinProbability: c19Pick(t, "minProb", 0.01, 0.01, 0, 0.3),
	}
}

// c19GenQuery draws a request against m. Limits are generous in most
// cases; binding limits are produced afterwards by c19Tighten from the first
// answer (generator feedback).
func c19GenQuery(t *rapid.T, m *c19Model) *c19Query {
	n := len(m.Nodes)
	q := &c19Query{
		m:         m,
		Self:      m.Nodes[0],
		Source:    m.Nodes[0],
		MetaLen:   -1,
		CustomLen: -1,
		DestFeat:  -1,
	}

	// Local bandwidth.
	q.BW = map[uint64]uint64{}
	for _, a := range m.adj[q.Self] {
		capMsat := uint64(a.ch.Cap) * 1000
		if capMsat == 0 {
			capMsat = 1_000_000_000
		}
		tag := fmt.Sprintf("bw%d", a.ch.ID)
		switch c19Pick(t, tag+"Kind", 1, 1, 4, 1, 0, 2, 1, 3) {
		case 0:
			// no hint for this channel
		case 1:
			q.BW[a.ch.ID] = capMsat / 2
		case 4:
			q.BW[a.ch.ID] = capMsat
		case 2:
			q.BW[a.ch.ID] = capMsat - rapid.Uint64Range(0, capMsat).Draw(
				t, tag)
		default:
			q.BW[a.ch.ID] = 0
		}
	}
	q.BWNil = c19Chance(t, "bwNil", 6)

	// Who pays whom.
	mode := c19Pick(t, "mode", "plain", "plain", "hints", "blinded", "plain",
		"self", "hints", "blinded", "plain", "plain", "foreign", "hints",
		"blinded", "self", "plain", "plain")
	tgt := rapid.IntRange(1, n-1).Draw(t, "target")
	q.Target = m.Nodes[n-tgt]
	switch mode {
	case "self":
		// Self payment (circular route).
		q.Target = q.Source
	case "foreign":
		// Foreign source (QueryRoutes source_pub_key).
		src := rapid.IntRange(1, n-1).Draw(t, "source")
		q.Source = m.Nodes[src]
		if q.Target == q.Source {
			q.Target = m.Nodes[0]
		}
	case "hints":
		// Route hints, possibly to a private target.
		if c19Chance(t, "privTarget", 70) {
			q.Target = c19Vtx(c19PrivateBase)
		}
		nChains := rapid.IntRange(1, 2).Draw(t, "hintChains")
		for c := 0; c < nChains; c++ {
			tag := fmt.Sprintf("h%d.", c)
			ln := rapid.IntRange(1, 2).Draw(t, tag+"len")
			var chain []c19Hint
			for i := 0; i < ln; i++ {
				h := c19Hint{
					ID: uint64(9000 + 10*c + i),
					Base: uint32(c19Pick(t, tag+"base", 0, 1, 1000,
						rapid.IntRange(0, 50_000).Draw(t, tag+"b"))),
					PPM: uint32(c19Pick(t, tag+"ppm", 0, 1, 100,
						rapid.IntRange(0, 20_000).Draw(t, tag+"p"))),
					Delta: uint16(c19Pick(t, tag+"dlt", 0, 9, 40, 144,
						rapid.IntRange(0, 500).Draw(t, tag+"d"))),
				}
				if i == 0 {
					nd := rapid.IntRange(0, n-1).Draw(t, tag+"from")
					idx, _ := c19NodeKey.Load(m.Nodes[nd])
					h.From = idx.(int)
				} else {
					h.From = c19PrivateBase + 1 + c
				}
				chain = append(chain, h)
			}
			q.Hints = append(q.Hints, chain)
		}
	case "blinded":
		// Blinded tail(s).
		np := c19Pick(t, "blindPaths", 1, 1, 2)
		key := c19BlindBase
		for p := 0; p < np; p++ {
			tag := fmt.Sprintf("bl%d.", p)
			bp := c19BlindPath{
				Intro: n - rapid.IntRange(1, n-1).Draw(t, tag+"intro"),
				Point: key,
			}
			key++
			hops := c19Pick(t, tag+"hops", 1, 2, 2, 3, 3)
			for i := 0; i < hops; i++ {
				h := c19BlindHop{
					Key: key,
					Cipher: c19Pick(t, tag+"ctKind", 16, 50, 50, 90,
						rapid.IntRange(1, 300).Draw(t, tag+"ct")),
				}
				key++
				if i == 0 && rapid.Bool().Draw(t, tag+"introNil") {
					h.Key = -1
				}
				bp.Hops = append(bp.Hops, h)
			}
			bp.BaseFee = uint32(c19Pick(t, tag+"base", 0, 1, 1000,
				rapid.IntRange(0, 50_000).Draw(t, tag+"b")))
			bp.PPM = uint32(c19Pick(t, tag+"ppm", 0, 1, 500,
				rapid.IntRange(0, 20_000).Draw(t, tag+"p")))
			bp.Delta = uint16(c19Pick(t, tag+"dlt", 0, 18, 80, 200,
				rapid.IntRange(0, 600).Draw(t, tag+"d")))
			q.Blinded = append(q.Blinded, bp)
		}
		q.BlindFeat = rapid.IntRange(0, 1).Draw(t, "blindFeat")
	}

	q.Amt = c19GenAmount(t, m, q.BW)

	for i := range q.Blinded {
		bp := &q.Blinded[i]
		tag := fmt.Sprintf("bl%d.", i)
		bp.Min = c19Pick(t, tag+"min", 0, 1, q.Amt, q.Amt+1,
			rapid.Uint64Range(0, q.Amt).Draw(t, tag+"minR"))
		bp.Max = bp.Min + c19Pick(t, tag+"max", 10_000_000_000,
			10_000_000_000, q.Amt, 0,
			rapid.Uint64Range(0, 2*q.Amt).Draw(t, tag+"maxR"))
	}

	// Restrictions.
	q.FeeLimit = c19Pick(t, "feeLimit", uint64(lnwire.MaxMilliSatoshi),
		uint64(lnwire.MaxMilliSatoshi), uint64(lnwire.MaxMilliSatoshi),
		q.Amt/10+10_000, q.Amt,
		rapid.Uint64Range(0, 50_000).Draw(t, "feeLimitR"), 0)
	q.CltvLimit = c19Pick(t, "cltvLimit", uint32(2016), 2016, 1008,
		^uint32(0), 2016,
		uint32(rapid.IntRange(0, 600).Draw(t, "cltvLimitR")))
	q.Height = c19Pick(t, "height", uint32(800_000), 100, 1, 16_777_000)
	if !q.isBlinded() {
		q.FinalDlt = c19Pick(t, "finalDelta", uint16(80), 40, 9, 0,
			uint16(rapid.IntRange(0, 400).Draw(t, "finalDeltaR")))
	}
	if q.Source == q.Self && c19Chance(t, "outRestr", 25) {
		cnt := rapid.IntRange(1, 3).Draw(t, "outCnt")
		for i := 0; i < cnt; i++ {
			own := m.adj[q.Self]
			if len(own) > 0 && !c19Chance(t, "outAny", 30) {
				q.OutChans = append(q.OutChans, own[rapid.IntRange(
					0, len(own)-1).Draw(t, "outOwn")].ch.ID)
				continue
			}
			ch := m.Chans[rapid.IntRange(0, len(m.Chans)-1).Draw(
				t, "outCh")]
			q.OutChans = append(q.OutChans, ch.ID)
		}
	}
	if !q.isBlinded() && c19Chance(t, "lastHop", 14) {
		v := m.Nodes[rapid.IntRange(0, n-1).Draw(t, "lastHopN")]
		q.LastHop = &v
	}
	q.TimePref = c19Pick(t, "timePref", 0.0, 0.0, 0.0, -1, 1, 0.5)
	q.Probs = c19GenProbs(t, m)
	q.Cfg = c19GenCfg(t)

	// Final hop payload.
	if !q.isBlinded() {
		if c19Chance(t, "payAddr", 55) {
			q.PayAddr = true
			q.DestFeat = 1
		} else if c19Chance(t, "destFeat", 30) {
			q.DestFeat = c19Pick(t, "destFeatKind", 0, 1)
		}
		if c19Chance(t, "meta", 30) {
			q.MetaLen = c19Pick(t, "metaLen", 0, 16, 300,
				rapid.IntRange(0, 1200).Draw(t, "metaLenR"))
		}
		if c19Chance(t, "custom", 20) {
			q.CustomLen = rapid.IntRange(0, 600).Draw(t, "customLen")
		}
	}

	return q
}

// ---------------------------------------------------------------------------
// rendering

func (p *c19Pol) String() string {
	if p == nil {
		return "-"
	}
	s := fmt.Sprintf("fee=%d+%dppm htlc=[%d,", p.Base, p.PPM, p.Min)
	if p.HasMax {
		s += fmt.Sprintf("%d]", p.Max)
	} else {
		s += "inf]"
	}
	s += fmt.Sprintf(" dlt=%d", p.Delta)
	if p.InBase != 0 || p.InRate != 0 {
		s += fmt.Sprintf(" in=%d%+dppm", p.InBase, p.InRate)
	}
	if p.Disabled {
		s += " DISABLED"
	}

	return s
}

func (m *c19Model) nodeName(v route.Vertex) string {
	for i, n := range m.Nodes {
		if n == v {
			return fmt.Sprintf("n%d", i)
		}
	}
	c19InitPool()
	for i, n := range c19Pool.v {
		if n == v {
			return fmt.Sprintf("k%d", i)
		}
	}
	if IsBlindedRouteNUMSTargetKey(v[:]) {
		return "NUMS"
	}

	return fmt.Sprintf("%x", v[:4])
}

func (m *c19Model) String() string {
	var b strings.Builder
	fmt.Fprintf(&b, "nodes=%d feat=%v\n", len(m.Nodes), m.Feat)
	for _, ch := range m.Chans {
		fmt.Fprintf(&b, "  ch%d n%d<->n%d cap=%dsat  n%d:{%v}  n%d:{%v}\n",
			ch.ID, ch.N[0], ch.N[1], ch.Cap, ch.N[0], ch.Pol[0],
			ch.N[1], ch.Pol[1])
	}

	return b.String()
}

func (q *c19Query) String() string {
	m := q.m
	var b strings.Builder
	fmt.Fprintf(&b, "self=%s src=%s", m.nodeName(q.Self),
		m.nodeName(q.Source))
	if q.isBlinded() {
		fmt.Fprintf(&b, " blinded=%+v feat=%d", q.Blinded, q.BlindFeat)
	} else {
		fmt.Fprintf(&b, " tgt=%s", m.nodeName(q.Target))
	}
	fmt.Fprintf(&b, " amt=%d feeLimit=%d cltvLimit=%d height=%d "+
		"finalDelta=%d", q.Amt, q.FeeLimit, q.CltvLimit, q.Height,
		q.FinalDlt)
	if len(q.OutChans) > 0 {
		fmt.Fprintf(&b, " outChans=%v", q.OutChans)
	}
	if q.LastHop != nil {
		fmt.Fprintf(&b, " lastHop=%s", m.nodeName(*q.LastHop))
	}
	var bwIDs []uint64
	for id := range q.BW {
		bwIDs = append(bwIDs, id)
	}
	sort.Slice(bwIDs, func(i, j int) bool { return bwIDs[i] < bwIDs[j] })
	b.WriteString(" bw={")
	for _, id := range bwIDs {
		fmt.Fprintf(&b, "%d:%d ", id, q.BW[id])
	}
	fmt.Fprintf(&b, "} bwNil=%v", q.BWNil)
	if len(q.Hints) > 0 {
		fmt.Fprintf(&b, " hints=%+v", q.Hints)
	}
	fmt.Fprintf(&b, " cfg=%+v timePref=%v payAddr=%v destFeat=%d meta=%d "+
		"custom=%d", q.Cfg, q.TimePref, q.PayAddr, q.DestFeat, q.MetaLen,
		q.CustomLen)
	fmt.Fprintf(&b, " probs{def=%v", q.Probs.Default)
	var lines []string
	for k, v := range q.Probs.Pair {
		lines = append(lines, fmt.Sprintf("%s>%s=%v", m.nodeName(k.From),
			m.nodeName(k.To), v))
	}
	for k, v := range q.Probs.AmtAbove {
		lines = append(lines, fmt.Sprintf("%s>%s=0 above %d",
			m.nodeName(k.From), m.nodeName(k.To), v))
	}
	for k := range q.Probs.Ignored {
		lines = append(lines, "ignore "+m.nodeName(k))
	}
	sort.Strings(lines)
	fmt.Fprintf(&b, " %s}", strings.Join(lines, ", "))

	return b.String()
}
