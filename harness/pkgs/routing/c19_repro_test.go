//go:build verif

package routing

// Deterministic reproductions of the C19 findings. They are not part of any
// job table (the job patterns are anchored); run them with
//
//	VERIF_C19_REPRO=1 ./check C19 --run 'TestVerifC19Repro' --checks 1 --shards 1 --verbose
//
// A FAIL means the defect is present in the tree.

import (
	"os"
	"testing"

	sphinx "github.com/lightningnetwork/lightning-onion"
	"github.com/lightningnetwork/lnd/lnwire"
	"github.com/lightningnetwork/lnd/routing/route"
)

func c19ReproModel() *c19Model {
	c19InitPool()
	pol := func() *c19Pol {
		return &c19Pol{Base: 1000, PPM: 100, Min: 1, Max: 10_000_000_000,
			HasMax: true, Delta: 40}
	}
	m := &c19Model{
		Nodes: []route.Vertex{c19Vtx(0), c19Vtx(1), c19Vtx(2)},
		Feat:  []int{1, 1, 1},
		Chans: []*c19Chan{
			{ID: 100, N: [2]int{0, 1}, Cap: 10_000_000,
				Pol: [2]*c19Pol{pol(), pol()}},
			{ID: 101, N: [2]int{1, 2}, Cap: 10_000_000,
				Pol: [2]*c19Pol{pol(), pol()}},
		},
	}
	for i := range m.Nodes {
		c19NodeKey.Store(m.Nodes[i], i)
	}
	m.index()

	return m
}

func c19ReproQuery(m *c19Model) *c19Query {
	return &c19Query{
		m: m, Self: m.Nodes[0], Source: m.Nodes[0], Target: m.Nodes[2],
		Amt: 5_000_000, FeeLimit: uint64(lnwire.MaxMilliSatoshi),
		CltvLimit: 2016, Height: 800_000,
		Probs: &c19Probs{Default: 1},
		Cfg: PathFindingConfig{AttemptCost: 100_000, AttemptCostPPM: 1000,
			MinProbability: 0.01},
		BW:      map[uint64]uint64{100: 5_000_000_000},
		MetaLen: -1, CustomLen: -1, DestFeat: -1,
	}
}

func c19ReproGate(t *testing.T) {
	if os.Getenv("VERIF_C19_REPRO") == "" {
		t.Skip("set VERIF_C19_REPRO=1")
	}
}

// F8: htlc_maximum_msat of a blinded path is not enforced.
func TestVerifC19ReproBlindedMax(t *testing.T) {
	c19ReproGate(t)
	m := c19ReproModel()
	q := c19ReproQuery(m)
	q.Blinded = []c19BlindPath{{
		Intro: 1, Point: c19BlindBase,
		Hops: []c19BlindHop{{Key: -1, Cipher: 50},
			{Key: c19BlindBase + 1, Cipher: 50}},
		Delta: 80, Min: 0, Max: 1000,
	}}
	res := c19RunFindPath(q)
	if res.err != nil {
		t.Logf("no route: %v (defect absent)", res.err)
		return
	}
	viol, _ := c19Validate(q, c19ExpectFor(q), res.rt)
	t.Errorf("amt=%d > blinded htlc_maximum_msat=1000, yet route: %v\n%v",
		q.Amt, c19RouteString(m, res.rt), viol)
}

// F9a: findPath's size estimate for a blinded recipient that is its own
// introduction node misses the total_amount_msat record.
func TestVerifC19ReproBlindedPayloadFindPath(t *testing.T) {
	c19ReproGate(t)
	m := c19ReproModel()
	for cipher := 1100; cipher < 1300; cipher++ {
		q := c19ReproQuery(m)
		q.Blinded = []c19BlindPath{{
			Intro: 2, Point: c19BlindBase,
			Hops:  []c19BlindHop{{Key: -1, Cipher: cipher}},
			Delta: 80, Min: 0, Max: 10_000_000_000,
		}}
		res := c19RunFindPath(q)
		if res.err != nil {
			continue
		}
		path, err := res.rt.ToSphinxPath()
		if err != nil {
			t.Fatalf("ToSphinxPath: %v", err)
		}
		if sz := path.TotalPayloadSize(); sz > sphinx.MaxRoutingPayloadSize {
			t.Errorf("cipher text %d bytes: findPath returned %v whose "+
				"hop payloads need %d bytes; NewOnionPacket: %v", cipher,
				c19RouteString(m, res.rt), sz,
				c19OnionRoundTrip(res.rt))
			return
		}
	}
	t.Logf("every returned route fits (defect absent)")
}

// F9b: paymentSession.RequestRoute does not hand the blinded path set to
// the restrictions, so the final hop is sized as a clear hop.
func TestVerifC19ReproBlindedPayloadSession(t *testing.T) {
	c19ReproGate(t)
	m := c19ReproModel()
	q := c19ReproQuery(m)
	q.Blinded = []c19BlindPath{{
		Intro: 2, Point: c19BlindBase,
		Hops:  []c19BlindHop{{Key: -1, Cipher: 1250}},
		Delta: 80, Min: 0, Max: 10_000_000_000,
	}}
	res := c19RunSession(q, c19SessionPlan{
		Total: q.Amt, MaxAmt: q.Amt, MaxParts: 1, PayCltv: 2016,
		FinalDltPay: 80,
	})
	if res.err != nil {
		t.Logf("no route: %v (defect absent)", res.err)
		return
	}
	path, err := res.rt.ToSphinxPath()
	if err != nil {
		t.Fatalf("ToSphinxPath: %v", err)
	}
	if sz := path.TotalPayloadSize(); sz > sphinx.MaxRoutingPayloadSize {
		t.Errorf("RequestRoute returned %v whose hop payloads need %d "+
			"bytes; NewOnionPacket: %v", c19RouteString(m, res.rt), sz,
			c19OnionRoundTrip(res.rt))
	}
}

// F9c: for an MPP shard the final hop's MPP record carries the payment
// total, but the size estimate uses the shard amount.
func TestVerifC19ReproMppTotalPayloadSession(t *testing.T) {
	c19ReproGate(t)
	m := c19ReproModel()
	for meta := 1000; meta < 1300; meta++ {
		q := c19ReproQuery(m)
		q.Amt = 200
		q.PayAddr, q.DestFeat, q.MetaLen = true, 1, meta
		res := c19RunSession(q, c19SessionPlan{
			Total: 5_000_000_000, MaxAmt: 200, MaxParts: 16, Active: 3,
			PayCltv: 2016, FinalDltPay: 80,
		})
		if res.err != nil {
			continue
		}
		path, err := res.rt.ToSphinxPath()
		if err != nil {
			t.Fatalf("ToSphinxPath: %v", err)
		}
		if sz := path.TotalPayloadSize(); sz > sphinx.MaxRoutingPayloadSize {
			t.Errorf("metadata %d bytes, shard 200 of total 5e9: "+
				"RequestRoute returned %v whose hop payloads need %d "+
				"bytes; NewOnionPacket: %v", meta,
				c19RouteString(m, res.rt), sz,
				c19OnionRoundTrip(res.rt))
			return
		}
	}
	t.Logf("every returned route fits (defect absent)")
}
