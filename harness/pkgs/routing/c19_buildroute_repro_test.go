//go:build verif

package routing

// Deterministic reproductions of the BuildRoute findings of C19. Not part of
// any job table; run with
//
//	VERIF_C19_REPRO=1 ./check C19 --run 'TestVerifC19ReproBuildRoute' --checks 1 --shards 1 --verbose
//
// A FAIL means the defect is present in the tree.

import (
	"testing"

	"github.com/lightningnetwork/lnd/routing/route"
)

func c19bReproPol() *c19Pol {
	return &c19Pol{Min: 1, Max: 20_000_000, HasMax: true, Delta: 40}
}

// c19bReproModel: n0 - n1 - n2 - n3 in a line, zero fees everywhere.
func c19bReproModel() *c19Model {
	c19InitPool()
	m := &c19Model{
		Nodes: []route.Vertex{c19Vtx(0), c19Vtx(1), c19Vtx(2), c19Vtx(3)},
		Feat:  []int{1, 1, 1, 1},
	}
	for i := 0; i < 3; i++ {
		m.Chans = append(m.Chans, &c19Chan{
			ID: uint64(100 + i), N: [2]int{i, i + 1}, Cap: 20_000,
			Pol: [2]*c19Pol{c19bReproPol(), c19bReproPol()},
		})
	}
	for i := range m.Nodes {
		c19NodeKey.Store(m.Nodes[i], i)
	}
	m.index()

	return m
}

func c19bReproInput(m *c19Model, hops ...int) *c19bInput {
	in := &c19bInput{
		m: m, Class: "repro", MinMode: true, FinalDelta: 80,
		Height: 800_000,
		Links:  map[uint64]c19bLinkState{100: {Kind: "ok", BW: 10_000_000}},
	}
	for _, h := range hops {
		in.Hops = append(in.Hops, m.Nodes[h])
	}

	return in
}

func c19bReproJudge(t *testing.T, in *c19bInput) {
	rt, err := c19bBuildRoute(in)
	if err != nil {
		t.Logf("no route: %v (defect absent)", err)
		return
	}
	recv := uint64(rt.ReceiverAmt())
	viol, _ := c19Validate(in.query(recv), c19Expect{
		Amt: recv, FinalDelta: uint16(in.FinalDelta), TotalAmt: recv,
	}, rt)
	if len(viol) > 0 {
		t.Fatalf("defect present: %v\nmodel:\n%vinput: %v\nroute: %v", viol,
			in.m, in, c19RouteString(in.m, rt))
	}
	t.Logf("route is payable (defect absent): %v", c19RouteString(in.m, rt))
}

// BuildRoute returns a 26-hop route whose hop payloads do not fit the onion.
func TestVerifC19ReproBuildRouteOnion(t *testing.T) {
	c19ReproGate(t)
	m := c19bReproModel()
	hops := []int{1}
	for len(hops) < 26 {
		hops = append(hops, 2, 1)
	}
	in := c19bReproInput(m, hops[:26]...)
	in.MinMode, in.Amt = false, 1
	c19bReproJudge(t, in)
}

// Minimum-amount mode, no inbound fees: n0 -> n1 demands at least 26 msat,
// n2 charges 50 %. The passes check 26 msat on n1 -> n2 (max_htlc 26); the
// returned route sends 27.
func TestVerifC19ReproBuildRouteMinAmtCeil(t *testing.T) {
	c19ReproGate(t)
	m := c19bReproModel()
	m.Chans[0].Pol[0].Min = 26      // n0 -> n1
	m.Chans[1].Pol[0].Max = 26      // n1 -> n2
	m.Chans[2].Pol[0].PPM = 500_000 // n2 -> n3
	c19bReproJudge(t, c19bReproInput(m, 1, 2, 3))
}

// Minimum-amount mode, negative inbound fee rate: n1 charges 1 msat base for
// n1 -> n2 and gives -1 ppm on what comes in from n0. The forward pass floors
// 1 - 0.000002 to 0 and believes 2 msat in gives 2 msat out; the returned
// route sends 3 msat over n0 -> n1 (max_htlc 2).
func TestVerifC19ReproBuildRouteMinAmtNegInbound(t *testing.T) {
	c19ReproGate(t)
	m := c19bReproModel()
	m.Chans[0].Pol[0].Max = 2     // n0 -> n1
	m.Chans[0].Pol[1].InRate = -1 // n1's inbound fee on the n0 channel
	m.Chans[1].Pol[0].Base = 1    // n1 -> n2
	c19bReproJudge(t, c19bReproInput(m, 1, 2))
}

// Minimum-amount mode over n0 -> n1 -> n2 -> n3: n2 charges 1000 msat and
// announces min_htlc 0 for n2 -> n3, n1 charges 900 ppm plus an inbound fee of
// 200 ppm. The backward pass aims at 1 msat for n3: 1001 msat into n2, and
// (both proportional fees floor to 0) 1001 msat into n1. The forward pass
// inverts with real-valued fees: 1001 into n1 gives 1000 out, 1000 into n2
// gives 0 out, and a route that delivers 0 msat is returned (it cannot be
// encoded: "required tlv missing: amount to forward").
func TestVerifC19ReproBuildRouteZeroReceiver(t *testing.T) {
	c19ReproGate(t)
	m := c19bReproModel()
	m.Chans[0].Pol[1].InRate = 200 // n1's inbound fee on the n0 channel
	m.Chans[1].Pol[0].PPM = 900    // n1 -> n2
	m.Chans[2].Pol[0].Base = 1000  // n2 -> n3
	m.Chans[2].Pol[0].Min = 0
	in := c19bReproInput(m, 1, 2, 3)
	rt, err := c19bBuildRoute(in)
	if err != nil {
		t.Logf("no route: %v (defect absent)", err)
		return
	}
	if rt.ReceiverAmt() < 1 {
		_, err := rt.ToSphinxPath()
		t.Fatalf("defect present: route delivers %d msat (ToSphinxPath: "+
			"%v)\nmodel:\n%vinput: %v\nroute: %v", rt.ReceiverAmt(), err,
			m, in, c19RouteString(m, rt))
	}
	t.Logf("receiver gets %d (defect absent)", rt.ReceiverAmt())
}

// Minimum-amount mode, inbound fee rate != 0: n1 gives -171974 ppm on what
// arrives from n0 and charges 1000 msat + 5000 ppm for n1 -> n2. The backward
// pass aims at 1 msat for n2 and checks 829 msat on n0 -> n1 (max_htlc 1000);
// the forward pass takes the "fee is not positive" branch (Ro*Ri in place of
// Bo*Ri), reports 829 msat for the receiver, and the returned route sends
// 1518 msat over n0 -> n1.
func TestVerifC19ReproBuildRouteMinAmtInRate(t *testing.T) {
	c19ReproGate(t)
	m := c19bReproModel()
	m.Chans[0].Pol[0].Max = 1000        // n0 -> n1
	m.Chans[0].Pol[1].InRate = -171_974 // n1's inbound fee on the n0 channel
	m.Chans[1].Pol[0].Base = 1000       // n1 -> n2
	m.Chans[1].Pol[0].PPM = 5000
	c19bReproJudge(t, c19bReproInput(m, 1, 2))
}

// Minimum-amount mode, falling below min_htlc: n0 -> n1 demands at least
// 1 000 000 msat, n2 charges 1 ppm plus an inbound fee of 1 ppm. The passes
// check 1 000 000 msat on n0 -> n1; the forward pass inverts n2's fee with
// real numbers (999 999 out), both proportional fees on 999 999 floor to 0,
// and the returned route sends 999 999 msat over n0 -> n1.
func TestVerifC19ReproBuildRouteMinAmtBelowMin(t *testing.T) {
	c19ReproGate(t)
	m := c19bReproModel()
	m.Chans[0].Pol[0].Min = 1_000_000 // n0 -> n1
	m.Chans[1].Pol[1].InRate = 1      // n2's inbound fee on the n1 channel
	m.Chans[2].Pol[0].PPM = 1         // n2 -> n3
	c19bReproJudge(t, c19bReproInput(m, 1, 2, 3))
}
