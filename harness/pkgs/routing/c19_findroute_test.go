//go:build verif

package routing

// C19 extension — the same requests as TestVerifC19FindPath, answered by the
// real ChannelRouter.FindRoute (routerrpc QueryRoutes): bandwidth hints come
// from a bandwidthManager over a link lookup, the height from the chain
// backend, the path finding configuration from the router's Config.

import (
	"errors"
	"testing"

	"github.com/lightningnetwork/lnd/fn/v2"
	"github.com/lightningnetwork/lnd/htlcswitch"
	"github.com/lightningnetwork/lnd/internal/verif/vstats"
	"github.com/lightningnetwork/lnd/lnwire"
	"pgregory.net/rapid"
)

// c19bLinksOf turns the request's bandwidth hints into what the switch
// knows: a hint is a live link with that bandwidth; no hint (or no hints at
// all) is a channel without a link, which the bandwidth manager documents as
// "offline": bandwidth zero.
func c19bLinksOf(q *c19Query) map[uint64]c19bLinkState {
	links := map[uint64]c19bLinkState{}
	if q.BWNil {
		return links
	}
	for id, bw := range q.BW {
		links[id] = c19bLinkState{Kind: "ok", BW: bw}
	}

	return links
}

func c19bRunFindRoute(q *c19Query) c19Result {
	req, res := c19NewRequest(q)
	if req == nil {
		return res
	}
	links := c19bLinksOf(q)
	r, err := New(Config{
		SelfNode:     q.Self,
		RoutingGraph: q.m,
		Chain:        &c19bChain{height: int32(q.Height)},
		GetLink: func(id lnwire.ShortChannelID) (htlcswitch.ChannelLink,
			error) {

			st, ok := links[id.ToUint64()]
			if !ok {
				return nil, errors.New("c19: link not found")
			}

			return &c19bLink{bw: st.BW}, nil
		},
		PathFindingConfig: q.Cfg,
		TrafficShaper:     fn.None[htlcswitch.AuxTrafficShaper](),
	})
	if err != nil {
		return c19Result{err: err, stage: "router"}
	}
	rt, _, err := r.FindRoute(req)
	if err != nil {
		return c19Result{err: err, stage: "FindRoute"}
	}

	return c19Result{rt: rt}
}

// c19bFindRouteJudged is q as the oracle has to see it for FindRoute: every
// own channel has a bandwidth (zero without a link), and the route carries no
// payment address (FindRoute leaves the MPP record to its caller; the address
// only enters the payload size estimate).
func c19bFindRouteJudged(q *c19Query) *c19Query {
	qj := *q
	qj.BW = map[uint64]uint64{}
	links := c19bLinksOf(q)
	for _, a := range q.m.adj[q.Self] {
		qj.BW[a.ch.ID] = links[a.ch.ID].BW
	}
	qj.BWNil = false
	qj.PayAddr = false

	return &qj
}

// TestVerifC19FindRoute: ChannelRouter.FindRoute on generated graphs and
// requests, with the same generator feedback as TestVerifC19FindPath.
func TestVerifC19FindRoute(t *testing.T) {
	st := vstats.New("TestVerifC19FindRoute")
	defer st.Flush()

	rapid.Check(t, func(t *rapid.T) {
		m := c19GenModel(t)
		q := c19GenQuery(t, m)
		c19ApplyKnown(st, q)

		res := c19bRunFindRoute(q)
		if errors.Is(res.err, errC19Domain) {
			st.Count("outside_domain", 1)
			return
		}
		qj := c19bFindRouteJudged(q)
		f, ok := c19Judge(t, st, qj, c19ExpectFor(qj), res, "first", false)
		if !ok {
			return
		}

		q2, mode := c19Tighten(t, q, res.rt, f)
		if q2 == nil {
			return
		}
		c19ApplyKnown(st, q2)
		res2 := c19bRunFindRoute(q2)
		if errors.Is(res2.err, errC19Domain) {
			st.Count("outside_domain", 1)
			return
		}
		qj2 := c19bFindRouteJudged(q2)
		c19Judge(t, st, qj2, c19ExpectFor(qj2), res2, "tight_"+mode, false)
	})
}
