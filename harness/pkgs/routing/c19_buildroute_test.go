//go:build verif

package routing

// C19 extension — routes handed out by ChannelRouter.BuildRoute (routerrpc
// BuildRoute: explicit hop pubkeys, explicit amount or "minimum routable
// amount", outgoing channel, final CLTV delta, payment address, first-hop
// blob). A real ChannelRouter (routing.New, never started) is put over the
// generated model graph with a link lookup and a chain height; whatever route
// comes back is judged by the same validity predicate as the pathfinder's
// routes (c19Validate). Errors are always accepted.
//
// The unexported passes (getEdgeUnifiers, senderAmtBackwardPass,
// receiverAmtForwardPass) are additionally called directly with the same
// inputs and their amounts compared with exact big-integer arithmetic from
// internal/verif/bigref.

import (
	"errors"
	"fmt"
	"math"
	"math/big"
	"sort"
	"strings"
	"testing"

	"github.com/btcsuite/btcd/chainhash/v2"
	"github.com/lightningnetwork/lnd/fn/v2"
	"github.com/lightningnetwork/lnd/htlcswitch"
	"github.com/lightningnetwork/lnd/internal/verif/bigref"
	"github.com/lightningnetwork/lnd/internal/verif/vstats"
	"github.com/lightningnetwork/lnd/lnwallet"
	"github.com/lightningnetwork/lnd/lnwire"
	"github.com/lightningnetwork/lnd/routing/route"
	"github.com/lightningnetwork/lnd/tlv"
	"pgregory.net/rapid"
)

// Known-finding key: BuildRoute returns routes that cannot be put into an
// onion (more than 27 hops / more than 1300 payload bytes).
const c19KnownBuildRouteOnion = "C19:buildroute-onion-size-unchecked"

// Known-finding key: in minimum-amount mode the hop amounts of the returned
// route (newRoute walking backwards from the forward pass's receiver amount)
// can exceed the amounts the two passes range-checked by a few msat.
const c19KnownBuildRouteMinAmt = "C19:buildroute-minamt-rounding-exceeds-limits"

// Known-finding key: minimum-amount mode hands out a route that delivers
// 0 msat although senderAmtBackwardPass documents "aim to deliver at least
// 1 msat to the destination".
const c19KnownBuildRouteZero = "C19:buildroute-minamt-zero-receiver"

// Known-finding key: outgoingFromIncoming decides "is the node's total fee
// positive" with Ro*Ri where Bo*Ri belongs (and floors where CalcFee
// truncates); with an inbound fee rate != 0 on the path the forward pass of
// minimum-amount mode can be off by the node's whole fee.
const c19KnownBuildRouteInRate = "C19:buildroute-minamt-inbound-rate-misjudged"

// c19bLongRoute: hop lists longer than this only come from the "pingpong"
// and "revisit" classes.
const c19bLongRoute = 15

// ---------------------------------------------------------------------------
// the router's collaborators

// c19bLink is the part of a channel link the bandwidth manager looks at.
type c19bLink struct {
	htlcswitch.ChannelLink
	bw         uint64
	ineligible bool
	mayAddErr  bool
}

func (l *c19bLink) Bandwidth() lnwire.MilliSatoshi {
	return lnwire.MilliSatoshi(l.bw)
}

func (l *c19bLink) EligibleToForward() bool { return !l.ineligible }

func (l *c19bLink) MayAddOutgoingHtlc(lnwire.MilliSatoshi) error {
	if l.mayAddErr {
		return errors.New("c19: htlc slots exhausted")
	}

	return nil
}

func (l *c19bLink) AuxBandwidth(lnwire.MilliSatoshi, lnwire.ShortChannelID,
	fn.Option[tlv.Blob],
	htlcswitch.AuxTrafficShaper) fn.Result[htlcswitch.OptionalBandwidth] {

	// Not a custom channel.
	return fn.Ok(htlcswitch.OptionalBandwidth{})
}

func (l *c19bLink) FundingCustomBlob() fn.Option[tlv.Blob] {
	return fn.None[tlv.Blob]()
}

func (l *c19bLink) CommitmentCustomBlob() fn.Option[tlv.Blob] {
	return fn.None[tlv.Blob]()
}

// c19bShaper is a traffic shaper that handles nothing (plain channels).
type c19bShaper struct{}

func (c19bShaper) ProduceHtlcExtraData(total lnwire.MilliSatoshi,
	_ lnwire.CustomRecords, _ route.Vertex) (lnwire.MilliSatoshi,
	lnwire.CustomRecords, error) {

	return total, nil, nil
}

func (c19bShaper) ShouldHandleTraffic(lnwire.ShortChannelID,
	fn.Option[tlv.Blob], fn.Option[tlv.Blob]) (bool, error) {

	return false, nil
}

func (c19bShaper) PaymentBandwidth(_, _, _ fn.Option[tlv.Blob],
	linkBandwidth, _ lnwire.MilliSatoshi, _ lnwallet.AuxHtlcView,
	_ route.Vertex) (lnwire.MilliSatoshi, error) {

	return linkBandwidth, nil
}

func (c19bShaper) IsCustomHTLC(lnwire.CustomRecords) bool { return false }

var _ htlcswitch.AuxTrafficShaper = c19bShaper{}

type c19bChain struct {
	lnwallet.BlockChainIO
	height int32
}

func (c *c19bChain) GetBestBlock() (*chainhash.Hash, int32, error) {
	return &chainhash.Hash{}, c.height, nil
}

// ---------------------------------------------------------------------------
// input

// c19bLinkState is what the switch knows about one of our channels.
type c19bLinkState struct {
	Kind string // "ok", "missing", "ineligible", "noslot"
	BW   uint64
}

type c19bInput struct {
	m     *c19Model
	Class string
	Hops  []route.Vertex

	MinMode    bool   // amt = None
	Amt        uint64 // explicit amount (>= 1) when !MinMode
	OutChan    *uint64
	FinalDelta int32
	PayAddr    bool
	Blob       int // 0 none, 1/2 serialized custom records (as routerrpc does)
	Shaper     bool
	Height     uint32
	Links      map[uint64]c19bLinkState
}

func (in *c19bInput) self() route.Vertex { return in.m.Nodes[0] }

func (in *c19bInput) clone() *c19bInput {
	c := *in
	c.Hops = append([]route.Vertex(nil), in.Hops...)
	c.Links = make(map[uint64]c19bLinkState, len(in.Links))
	for k, v := range in.Links {
		c.Links[k] = v
	}
	if in.OutChan != nil {
		v := *in.OutChan
		c.OutChan = &v
	}

	return &c
}

// effBW is the bandwidth the documented rules give each own channel: the
// link's bandwidth, or zero when the link is unknown to the switch, not
// eligible to forward or cannot take another HTLC (bandwidthManager docs).
// Every channel of the own node in the graph has an entry.
func (in *c19bInput) effBW() map[uint64]uint64 {
	out := map[uint64]uint64{}
	for _, a := range in.m.adj[in.self()] {
		st := in.Links[a.ch.ID]
		if st.Kind == "ok" {
			out[a.ch.ID] = st.BW
		} else {
			out[a.ch.ID] = 0
		}
	}

	return out
}

func (in *c19bInput) getLink(id lnwire.ShortChannelID) (
	htlcswitch.ChannelLink, error) {

	st, ok := in.Links[id.ToUint64()]
	if !ok || st.Kind == "missing" {
		return nil, errors.New("c19: link not found")
	}

	return &c19bLink{
		bw:         st.BW,
		ineligible: st.Kind == "ineligible",
		mayAddErr:  st.Kind == "noslot",
	}, nil
}

func (in *c19bInput) blob() fn.Option[tlv.Blob] {
	switch in.Blob {
	case 1:
		b, err := lnwire.CustomRecords{
			lnwire.MinCustomRecordsTlvType + 7: []byte{1, 2, 3},
		}.Serialize()
		if err != nil {
			panic(err)
		}

		return fn.Some[tlv.Blob](b)

	case 2:
		b, err := lnwire.CustomRecords{
			lnwire.MinCustomRecordsTlvType:      []byte{},
			lnwire.MinCustomRecordsTlvType + 99: make([]byte, 300),
		}.Serialize()
		if err != nil {
			panic(err)
		}

		return fn.Some[tlv.Blob](b)
	}

	return fn.None[tlv.Blob]()
}

func (in *c19bInput) shaper() fn.Option[htlcswitch.AuxTrafficShaper] {
	if in.Shaper {
		return fn.Some[htlcswitch.AuxTrafficShaper](c19bShaper{})
	}

	return fn.None[htlcswitch.AuxTrafficShaper]()
}

func (in *c19bInput) amtOpt() fn.Option[lnwire.MilliSatoshi] {
	if in.MinMode {
		return fn.None[lnwire.MilliSatoshi]()
	}

	return fn.Some(lnwire.MilliSatoshi(in.Amt))
}

func (in *c19bInput) payAddr() fn.Option[[32]byte] {
	if !in.PayAddr {
		return fn.None[[32]byte]()
	}

	return fn.Some([32]byte{0xc1, 0x9b})
}

func (in *c19bInput) String() string {
	var b strings.Builder
	fmt.Fprintf(&b, "class=%s hops=[", in.Class)
	for i, h := range in.Hops {
		if i > 0 {
			b.WriteByte(' ')
		}
		b.WriteString(in.m.nodeName(h))
	}
	b.WriteString("]")
	if in.MinMode {
		b.WriteString(" amt=None")
	} else {
		fmt.Fprintf(&b, " amt=%d", in.Amt)
	}
	if in.OutChan != nil {
		fmt.Fprintf(&b, " outChan=%d", *in.OutChan)
	}
	fmt.Fprintf(&b, " finalDelta=%d payAddr=%v blob=%d shaper=%v height=%d",
		in.FinalDelta, in.PayAddr, in.Blob, in.Shaper, in.Height)
	var ids []uint64
	for id := range in.Links {
		ids = append(ids, id)
	}
	sort.Slice(ids, func(i, j int) bool { return ids[i] < ids[j] })
	b.WriteString(" links={")
	for _, id := range ids {
		st := in.Links[id]
		fmt.Fprintf(&b, "%d:%s/%d ", id, st.Kind, st.BW)
	}
	b.WriteString("}")

	return b.String()
}

// query renders the input as the request the oracle judges a route against.
func (in *c19bInput) query(recv uint64) *c19Query {
	q := &c19Query{
		m:         in.m,
		Self:      in.self(),
		Source:    in.self(),
		Target:    in.self(),
		Amt:       recv,
		FeeLimit:  math.MaxUint64,
		CltvLimit: math.MaxUint32,
		Height:    in.Height,
		FinalDlt:  uint16(in.FinalDelta),
		Probs:     &c19Probs{Default: 1},
		BW:        in.effBW(),
		PayAddr:   in.PayAddr,
		DestFeat:  -1,
		MetaLen:   -1,
		CustomLen: -1,
	}
	if len(in.Hops) > 0 {
		q.Target = in.Hops[len(in.Hops)-1]
	}
	if in.OutChan != nil {
		q.OutChans = []uint64{*in.OutChan}
	}

	return q
}

// ---------------------------------------------------------------------------
// generator

func c19bCloneModel(m *c19Model) *c19Model {
	c := &c19Model{Nodes: m.Nodes, Feat: m.Feat}
	for _, ch := range m.Chans {
		cc := *ch
		for k := 0; k < 2; k++ {
			if ch.Pol[k] != nil {
				p := *ch.Pol[k]
				cc.Pol[k] = &p
			}
		}
		c.Chans = append(c.Chans, &cc)
	}
	c.index()

	return c
}

// neighbours of node index cur: all, and those reachable over a channel
// direction that has a policy and (unless cur is the own node) is enabled.
func c19bNeighbours(m *c19Model, cur int) (all, good []int) {
	seenAll := map[int]bool{}
	seenGood := map[int]bool{}
	for _, a := range m.adj[m.Nodes[cur]] {
		nb := a.ch.N[1-a.side]
		if !seenAll[nb] {
			seenAll[nb] = true
			all = append(all, nb)
		}
		p := a.ch.Pol[a.side]
		if p != nil && (!p.Disabled || cur == 0) && !seenGood[nb] {
			seenGood[nb] = true
			good = append(good, nb)
		}
	}
	sort.Ints(all)
	sort.Ints(good)

	return all, good
}

func c19bWithout(xs []int, drop map[int]bool) []int {
	var out []int
	for _, x := range xs {
		if !drop[x] {
			out = append(out, x)
		}
	}

	return out
}

// c19bGenHops draws the hop list handed to BuildRoute.
func c19bGenHops(t *rapid.T, m *c19Model) ([]route.Vertex, string) {
	n := len(m.Nodes)
	class := c19Pick(t, "hopClass", "walk", "walk", "circular", "walk",
		"revisit", "walk", "circular", "random", "walk", "pingpong",
		"walk", "circular", "empty", "walk")

	var idx []int
	walk := func(maxLen int, simple bool) {
		cur := 0
		visited := map[int]bool{0: true}
		for len(idx) < maxLen {
			all, good := c19bNeighbours(m, cur)
			if simple {
				all = c19bWithout(all, visited)
				good = c19bWithout(good, visited)
			}
			pool := good
			if len(pool) == 0 || c19Chance(t, "anyNb", 16) {
				pool = all
			}
			if len(pool) == 0 {
				break
			}
			cur = pool[rapid.IntRange(0, len(pool)-1).Draw(t, "nb")]
			visited[cur] = true
			idx = append(idx, cur)
		}
	}

	switch class {
	case "walk":
		walk(min(n-1, c19Pick(t, "walkLen", 2, 3, 1, 3, 4, 2, 5, 6)), true)

	case "circular":
		// Rebalancing: out over one channel, back to ourselves.
		walk(min(n-1, c19Pick(t, "walkLen", 2, 1, 3, 2, 4, 5)), true)
		// Cut the walk at the last node that has a channel to us, if
		// there is one (and the draw agrees).
		if !c19Chance(t, "circAnyEnd", 20) {
			for k := len(idx); k >= 1; k-- {
				all, _ := c19bNeighbours(m, idx[k-1])
				back := false
				for _, x := range all {
					back = back || x == 0
				}
				if back {
					idx = idx[:k]
					break
				}
			}
		}
		idx = append(idx, 0)

	case "revisit":
		walk(rapid.IntRange(2, 9).Draw(t, "walkLen"), false)

	case "random":
		ln := rapid.IntRange(1, 5).Draw(t, "rndLen")
		for i := 0; i < ln; i++ {
			idx = append(idx, rapid.IntRange(-1, n-1).Draw(t, "rndNode"))
		}

	case "pingpong":
		// Many hops between two neighbours: onion size / hop count.
		walk(2, true)
		if len(idx) == 2 {
			ln := rapid.IntRange(16, 30).Draw(t, "ppLen")
			a, b := idx[0], idx[1]
			for len(idx) < ln {
				idx = append(idx, a, b)
			}
			idx = idx[:ln]
		}

	case "empty":
	}

	var hops []route.Vertex
	for _, i := range idx {
		if i < 0 {
			// A node the graph has never heard of.
			hops = append(hops, c19Vtx(c19PrivateBase+3))
			continue
		}
		hops = append(hops, m.Nodes[i])
	}

	return hops, class
}

// c19bPairPols lists the policies of all channel directions u -> v.
func c19bPairPols(m *c19Model, u, v route.Vertex) []*c19Pol {
	var out []*c19Pol
	for _, a := range m.adj[u] {
		if m.Nodes[a.ch.N[1-a.side]] != v || a.ch.Pol[a.side] == nil {
			continue
		}
		out = append(out, a.ch.Pol[a.side])
	}

	return out
}

func c19bGenInput(t *rapid.T, m *c19Model) *c19bInput {
	in := &c19bInput{m: m, Links: map[uint64]c19bLinkState{}}
	in.Hops, in.Class = c19bGenHops(t, m)

	// Links of our channels.
	for _, a := range m.adj[in.self()] {
		capMsat := uint64(a.ch.Cap) * 1000
		if capMsat == 0 {
			capMsat = 1_000_000_000
		}
		tag := fmt.Sprintf("ln%d", a.ch.ID)
		st := c19bLinkState{Kind: "ok"}
		switch c19Pick(t, tag+"Kind", 1, 1, 4, 1, 2, 1, 4, 0, 3, 5, 6) {
		case 0:
			st.Kind = "missing"
		case 1:
			st.BW = capMsat / 2
		case 4:
			st.BW = capMsat
		case 2:
			st.BW = capMsat - rapid.Uint64Range(0, capMsat).Draw(t, tag)
		case 3:
			st.BW = 0
		case 5:
			st.Kind, st.BW = "ineligible", capMsat
		default:
			st.Kind, st.BW = "noslot", capMsat
		}
		in.Links[a.ch.ID] = st
	}

	in.MinMode = c19Pick(t, "amtMode", "explicit", "min", "explicit", "min",
		"explicit") == "min"
	if !in.MinMode {
		in.Amt = c19GenAmount(t, m, in.effBW())
		if in.Amt == 0 {
			in.Amt = 1
		}
	}

	// Min-amount mode is about min_htlc bumps: raise some minimum on the
	// requested path so that the 1 msat default does not survive.
	if in.MinMode && len(in.Hops) > 0 && c19Chance(t, "spiceMin", 60) {
		i := rapid.IntRange(0, len(in.Hops)-1).Draw(t, "spiceHop")
		u := in.self()
		if i > 0 {
			u = in.Hops[i-1]
		}
		v := c19Pick(t, "spiceVal", uint64(1000), 2, 1001, 54_321, 1_000_000,
			rapid.Uint64Range(2, 5_000_000).Draw(t, "spiceR"))
		for _, p := range c19bPairPols(m, u, in.Hops[i]) {
			p.Min = v
			if p.Max < v {
				p.Max = v + rapid.Uint64Range(0, 5000).Draw(t, "spiceMax")
			}
		}
	}

	if c19Chance(t, "outRestr", 30) {
		var ids []uint64
		switch c19Pick(t, "outKind", "first", "first", "own", "any") {
		case "first":
			// A channel of ours to the first hop.
			if len(in.Hops) > 0 {
				for _, a := range m.adj[in.self()] {
					if m.Nodes[a.ch.N[1-a.side]] == in.Hops[0] {
						ids = append(ids, a.ch.ID)
					}
				}
			}
		case "own":
			for _, a := range m.adj[in.self()] {
				ids = append(ids, a.ch.ID)
			}
		default:
			for _, ch := range m.Chans {
				ids = append(ids, ch.ID)
			}
			ids = append(ids, 424242)
		}
		if len(ids) > 0 {
			id := ids[rapid.IntRange(0, len(ids)-1).Draw(t, "outId")]
			in.OutChan = &id
		}
	}

	in.FinalDelta = c19Pick(t, "finalDelta", int32(80), 40, 144, 9, 0,
		int32(rapid.IntRange(0, 2016).Draw(t, "finalDeltaR")))
	in.PayAddr = c19Chance(t, "payAddr", 60)
	in.Blob = c19Pick(t, "blob", 0, 0, 0, 1, 2)
	in.Shaper = c19Chance(t, "shaper", 40)
	in.Height = c19Pick(t, "height", uint32(800_000), 100, 1, 16_777_000)

	return in
}

// ---------------------------------------------------------------------------
// domain guard

// c19bBound is an upper bound, in exact arithmetic and from the model only, of
// the amount entering the first of the requested hops when `start` leaves the
// last one: every forwarding node is assumed to charge the largest outbound
// and (positive) inbound fee any of its channels on that node pair announces.
func c19bBound(in *c19bInput, start *big.Int) *big.Int {
	b := new(big.Int).Set(start)
	prevOf := func(i int) route.Vertex {
		if i == 0 {
			return in.self()
		}

		return in.Hops[i-1]
	}
	for i := len(in.Hops) - 1; i >= 1; i-- {
		node := in.Hops[i-1]
		var base, ppm, inBase, inRate uint64
		for _, p := range c19bPairPols(in.m, node, in.Hops[i]) {
			base, ppm = max(base, p.Base), max(ppm, p.PPM)
		}
		// Inbound fees are announced by `node` in its own policy for the
		// channels it shares with the previous node.
		for _, p := range c19bPairPols(in.m, node, prevOf(i-1)) {
			if p.InBase > 0 {
				inBase = max(inBase, uint64(p.InBase))
			}
			if p.InRate > 0 {
				inRate = max(inRate, uint64(p.InRate))
			}
		}
		b.Add(b, c19OutFee(base, ppm, b))
		b.Add(b, c19OutFee(inBase, inRate, b))
	}

	return b
}

// c19bInDomain: can lnd's 64-bit fee products wrap for this input? Explicit
// amount: the sender amount is at most bound(amt). Minimum-amount mode: the
// backward pass starts from at most the largest min_htlc on the path, the
// forward pass never hands the receiver more than the sender amount, and
// newRoute then walks backwards once more.
func c19bInDomain(in *c19bInput) bool {
	limit := c19Big(c19MaxJudgedAmt)
	if !in.MinMode {
		return c19bBound(in, c19Big(in.Amt)).Cmp(limit) <= 0
	}
	start := uint64(1)
	for i := range in.Hops {
		u := in.self()
		if i > 0 {
			u = in.Hops[i-1]
		}
		for _, p := range c19bPairPols(in.m, u, in.Hops[i]) {
			start = max(start, p.Min)
		}
		// outgoingFromIncoming documents that it gives up for inbound
		// discounts of 100 % and more.
		for _, p := range c19bPairPols(in.m, in.Hops[i], u) {
			if p.InRate <= -1_000_000 {
				return false
			}
		}
	}
	b1 := c19bBound(in, c19Big(start))

	return c19bBound(in, b1).Cmp(limit) <= 0
}

// ---------------------------------------------------------------------------
// running lnd

func c19bRouter(in *c19bInput) *ChannelRouter {
	r, err := New(Config{
		SelfNode:      in.self(),
		RoutingGraph:  in.m,
		Chain:         &c19bChain{height: int32(in.Height)},
		GetLink:       in.getLink,
		TrafficShaper: in.shaper(),
	})
	if err != nil {
		panic(err)
	}

	return r
}

func c19bBuildRoute(in *c19bInput) (*route.Route, error) {
	return c19bRouter(in).BuildRoute(
		in.amtOpt(), in.Hops, in.OutChan, in.FinalDelta, in.payAddr(),
		in.blob(),
	)
}

// c19bPasses calls the unexported passes the way BuildRoute does.
type c19bPassResult struct {
	err    error
	stage  string
	edges  []*unifiedEdge
	sender uint64
	recv   uint64 // min-amount mode only
}

func c19bPasses(in *c19bInput) c19bPassResult {
	var outChans map[uint64]struct{}
	if in.OutChan != nil {
		outChans = map[uint64]struct{}{*in.OutChan: {}}
	}
	bwm, err := newBandwidthManager(
		in.m, in.self(), in.getLink, in.blob(), in.shaper(),
	)
	if err != nil {
		return c19bPassResult{err: err, stage: "bandwidth"}
	}
	unifiers, err := getEdgeUnifiers(in.self(), in.Hops, outChans, in.m)
	if err != nil {
		return c19bPassResult{err: err, stage: "unifiers"}
	}
	edges, sender, err := senderAmtBackwardPass(unifiers, in.amtOpt(), bwm)
	if err != nil {
		return c19bPassResult{err: err, stage: "backward"}
	}
	res := c19bPassResult{edges: edges, sender: uint64(sender)}
	if in.MinMode {
		recv, err := receiverAmtForwardPass(sender, edges)
		if err != nil {
			return c19bPassResult{err: err, stage: "forward"}
		}
		res.recv = uint64(recv)
	}

	return res
}

// c19bExactChain: the exact amount needed on every requested hop so that
// `recv` arrives, over the channels with the given ids, from the model's
// policies and bigref's arithmetic. ok=false if a channel is not in the model.
func c19bExactChain(in *c19bInput, q *c19Query, ids []uint64,
	recv uint64) ([]*big.Int, []c19Edge, bool) {

	n := len(in.Hops)
	edges := make([]c19Edge, n)
	for i := range in.Hops {
		u := in.self()
		if i > 0 {
			u = in.Hops[i-1]
		}
		c := q.findEdge(u, in.Hops[i], ids[i])
		if len(c) == 0 {
			return nil, nil, false
		}
		edges[i] = c[0]
	}
	x := make([]*big.Int, n)
	x[n-1] = c19Big(recv)
	for i := n - 2; i >= 0; i-- {
		if !x[i+1].IsUint64() {
			return nil, nil, false
		}
		out, inc := edges[i+1], edges[i]
		x[i] = bigref.MinIncoming(
			bigref.Policy{BaseFee: out.Base, FeeRate: out.PPM},
			bigref.InboundFee{Base: inc.ToInBase, Rate: inc.ToInRate},
			x[i+1].Uint64(),
		)
	}

	return x, edges, true
}

// ---------------------------------------------------------------------------
// judging

type c19bOutcome struct {
	rt    *route.Route
	facts c19Facts
	recv  uint64
	A     []uint64 // HTLC amount on each hop's channel
}

func c19bErrKind(err error) string {
	var noChan ErrNoChannel
	if errors.As(err, &noChan) {
		return "no_channel"
	}
	s := err.Error()
	if len(s) > 32 {
		s = s[:32]
	}

	return s
}

// c19bSeqDefect: does the requested sequence contain a step for which the
// model has no enabled, policy-bearing channel direction?
func c19bSeqDefect(in *c19bInput) string {
	for i := range in.Hops {
		u := in.self()
		if i > 0 {
			u = in.Hops[i-1]
		}
		pols := c19bPairPols(in.m, u, in.Hops[i])
		if len(pols) == 0 {
			return "seq_no_policy_step"
		}
		if u == in.self() {
			continue
		}
		enabled := false
		for _, p := range pols {
			enabled = enabled || !p.Disabled
		}
		if !enabled {
			return "seq_disabled_step"
		}
	}

	return ""
}

// c19bSlack bounds, per hop, how far the amounts of a route rebuilt from the
// forward pass's receiver amount can be from the amounts the forward pass
// itself saw (see c19bWithinRounding).
func c19bSlack(edges []c19Edge) []*big.Int {
	n := len(edges)
	slack := make([]*big.Int, n)
	slack[n-1] = big.NewInt(0)
	e12 := new(big.Int).Mul(c19Million, c19Million)
	for i := n - 2; i >= 0; i-- {
		inRate := int64(edges[i].ToInRate)
		if inRate < 0 {
			inRate = 0
		}
		m := new(big.Int).Mul(
			new(big.Int).Add(c19Million, c19Big(edges[i+1].PPM)),
			new(big.Int).Add(c19Million, big.NewInt(inRate)),
		)
		v := new(big.Int).Add(slack[i+1], big.NewInt(1))
		v.Mul(v, m)
		v.Add(v, new(big.Int).Sub(e12, big.NewInt(1)))
		v.Quo(v, e12) // ceil
		slack[i] = v.Add(v, big.NewInt(3))
	}

	return slack
}

// c19bInRateOnRoute: does a forwarding node of rt charge an inbound fee with
// a rate != 0 on the channel the route enters it by?
func c19bInRateOnRoute(in *c19bInput, q *c19Query, rt *route.Route) bool {
	for i := 0; i+1 < len(rt.Hops); i++ {
		u := in.self()
		if i > 0 {
			u = rt.Hops[i-1].PubKeyBytes
		}
		c := q.findEdge(u, rt.Hops[i].PubKeyBytes, rt.Hops[i].ChannelID)
		if len(c) > 0 && c[0].ToInRate != 0 {
			return true
		}
	}

	return false
}

// c19bWithinRounding: does every hop amount of rt stay within the limits
// (min_htlc, max_htlc, capacity, own bandwidth) of its channel give or take
// the rounding slack of minimum-amount mode? The forward pass rounds each outgoing amount
// up (< 1 msat) and its fee test floors where the fee computation truncates;
// walking backwards again, an excess e at hop i+1 becomes at most
// m*(e+1)+3 at hop i, m = (1+out_ppm/1e6)(1+max(0,in_ppm)/1e6).
func c19bWithinRounding(in *c19bInput, q *c19Query, rt *route.Route) bool {
	n := len(rt.Hops)
	edges := make([]c19Edge, n)
	for i, h := range rt.Hops {
		u := in.self()
		if i > 0 {
			u = rt.Hops[i-1].PubKeyBytes
		}
		c := q.findEdge(u, h.PubKeyBytes, h.ChannelID)
		if len(c) == 0 {
			return false
		}
		edges[i] = c[0]
	}
	slack := c19bSlack(edges)
	for i := range rt.Hops {
		amt := uint64(rt.TotalAmount)
		if i > 0 {
			amt = uint64(rt.Hops[i-1].AmtToForward)
		}
		e := edges[i]
		var exc uint64
		if e.HasMax && amt > e.Max {
			exc = max(exc, amt-e.Max)
		}
		if e.CapMsat > 0 && amt > e.CapMsat {
			exc = max(exc, amt-e.CapMsat)
		}
		if bw, ok := q.BW[e.ID]; ok && e.From == q.Self && amt > bw {
			exc = max(exc, amt-bw)
		}
		if amt < e.Min {
			exc = max(exc, e.Min-amt)
		}
		if c19Big(exc).Cmp(slack[i]) > 0 {
			return false
		}
	}

	return true
}

// c19bCapacityOutsideDomain: every hop of rt that carries more than its
// channel's capacity uses a policy without max_htlc or with max_htlc above
// the capacity. Such a channel_update does not pass lnd's gossip validation
// (netann.ValidateChannelUpdateFields), and minimum-amount mode relies on
// max_htlc there: after a min_htlc bump its forward pass re-checks the chosen
// policy's min/max but the largest capacity of all parallel channels.
func c19bCapacityOutsideDomain(q *c19Query, rt *route.Route) bool {
	over := false
	for i, h := range rt.Hops {
		u, amt := rt.SourcePubKey, uint64(rt.TotalAmount)
		if i > 0 {
			u = rt.Hops[i-1].PubKeyBytes
			amt = uint64(rt.Hops[i-1].AmtToForward)
		}
		c := q.findEdge(u, h.PubKeyBytes, h.ChannelID)
		if len(c) == 0 {
			return false
		}
		e := c[0]
		if e.CapMsat == 0 || amt <= e.CapMsat {
			continue
		}
		if e.HasMax && e.Max <= e.CapMsat {
			return false
		}
		over = true
	}

	return over
}

// c19bJudge runs BuildRoute and the passes on `in`, validates, records the
// evaluation. It returns the outcome for generator feedback (nil when no
// route came back or the case was not judged).
func c19bJudge(t *rapid.T, st *vstats.Collector, in *c19bInput,
	phase string) *c19bOutcome {

	labels := []string{"phase:" + phase, "class:" + in.Class}
	add := func(l string) { labels = append(labels, l) }
	fp := vstats.FP(in.m.String(), in.String(), phase)
	if in.MinMode {
		add("mode_min_amount")
	} else {
		add("mode_explicit")
	}
	if in.OutChan != nil {
		add("req_outchan")
	}
	if d := c19bSeqDefect(in); d != "" {
		add(d)
	}

	if !c19bInDomain(in) {
		st.Count("outside_domain", 1)
		add("outside_domain_amount")
		st.Case(fp, false, labels, nil)

		return nil
	}

	fail := func(format string, args ...any) {
		t.Fatalf("C19 violated (BuildRoute, %s)\n%s\nmodel:\n%vinput: %v",
			phase, fmt.Sprintf(format, args...), in.m, in)
	}

	rt, err := c19bBuildRoute(in)
	pr := c19bPasses(in)

	// --- the passes against exact arithmetic ---------------------------
	if pr.err == nil {
		ids := make([]uint64, len(pr.edges))
		for i, e := range pr.edges {
			ids[i] = e.policy.ChannelID
		}
		recv := in.Amt
		if in.MinMode {
			recv = pr.recv
			// "aim to deliver at least 1 msat to the destination".
			if pr.recv < 1 {
				if !c19IsKnown(c19KnownBuildRouteZero) {
					fail("forward pass: receiver amount %d < 1",
						pr.recv)
				}
				add("known_zero_receiver")

				// The known defect is the forward pass landing below
				// the backward pass's amounts. The backward pass
				// itself must have aimed at 1 msat or more: what it
				// says has to be sent must pay for 1 msat in exact
				// arithmetic (fees are monotone in the amount unless
				// a negative inbound rate is involved).
				q1 := in.query(1)
				x1, e1, ok := c19bExactChain(in, q1, ids, 1)
				neg := false
				for i := 0; ok && i+1 < len(e1); i++ {
					neg = neg || e1[i].ToInRate < 0
				}
				if ok && !neg && x1[0].Cmp(c19Big(pr.sender)) > 0 {
					fail("backward pass: sender amount %d does not "+
						"pay for 1 msat at the destination (%v "+
						"needed over channels %v)", pr.sender, x1[0],
						ids)
				}
			}
			// Rounding up in outgoingFromIncoming with a negative
			// inbound rate (see the rounding finding); the route
			// itself is judged below.
			if pr.recv > pr.sender {
				add("min_forward_recv_gt_sender")
			}
		}
		q := in.query(recv)
		if x, ex, ok := c19bExactChain(in, q, ids, recv); ok {
			// Forward pass: what it hands the receiver must be what
			// the sender amount pays for, up to the rounding slack.
			if in.MinMode && recv >= 1 {
				inRate := false
				for i := 0; i+1 < len(ex); i++ {
					inRate = inRate || ex[i].ToInRate != 0
				}
				diff := new(big.Int).Sub(x[0], c19Big(pr.sender))
				switch {
				case diff.Abs(diff).Cmp(c19bSlack(ex)[0]) <= 0:

				case inRate && c19IsKnown(c19KnownBuildRouteInRate):
					st.Known(c19KnownBuildRouteInRate)
					add("known_forward_pass_inrate")

				default:
					fail("forward pass: receiver amount %d needs a "+
						"sender amount of %v, the passes say %d "+
						"(channels %v)", recv, x[0], pr.sender, ids)
				}
			}
			switch c := x[0].Cmp(c19Big(pr.sender)); {
			case !in.MinMode && c > 0:
				// The backward pass with an explicit amount claims
				// "this is what has to be sent".
				fail("backward pass: sender amount %d < %v needed to "+
					"deliver %d over channels %v", pr.sender, x[0],
					recv, ids)
			case !in.MinMode && c < 0:
				add("backward_overpays")
			case in.MinMode && c > 0:
				add("min_exact_total_gt_sender")
			case in.MinMode && c < 0:
				add("min_exact_total_lt_sender")
			case in.MinMode:
				add("min_exact_total_eq_sender")
			}
		}
	}

	// --- the route -------------------------------------------------------
	if err != nil {
		if rt != nil {
			fail("error %v together with a route", err)
		}
		add("error:" + c19bErrKind(err))
		st.Case(fp, false, labels, nil)

		return nil
	}
	if rt == nil || len(rt.Hops) == 0 {
		fail("nil or empty route without error")
	}
	if uint64(rt.TotalAmount) > c19MaxJudgedAmt {
		// Cannot happen inside c19bInDomain; kept as a second guard.
		st.Count("outside_domain", 1)
		add("outside_domain_amount")
		st.Case(fp, false, labels, nil)

		return nil
	}

	// "a fully specified route based on a list of pubkeys".
	if len(rt.Hops) != len(in.Hops) {
		fail("route has %d hops, %d requested: %v", len(rt.Hops),
			len(in.Hops), c19RouteString(in.m, rt))
	}
	for i, h := range rt.Hops {
		if h.PubKeyBytes != in.Hops[i] {
			fail("hop %d is %s, requested %s: %v", i,
				in.m.nodeName(h.PubKeyBytes), in.m.nodeName(in.Hops[i]),
				c19RouteString(in.m, rt))
		}
	}

	recv := uint64(rt.Hops[len(rt.Hops)-1].AmtToForward)
	if in.MinMode {
		if recv < 1 {
			if !c19IsKnown(c19KnownBuildRouteZero) {
				fail("minimum-amount route delivers %d: %v", recv,
					c19RouteString(in.m, rt))
			}
			// Known finding; a zero-amount route cannot even be put
			// into an onion, there is nothing left to judge.
			st.Known(c19KnownBuildRouteZero)
			add("known_zero_receiver_route")
			add(fmt.Sprintf("zero_receiver_hops_%d", min(len(rt.Hops), 9)))
			st.Case(fp, false, labels, nil)

			return nil
		}
	} else if recv != in.Amt {
		fail("route delivers %d, requested %d: %v", recv, in.Amt,
			c19RouteString(in.m, rt))
	}
	q := in.query(recv)
	ex := c19Expect{Amt: recv, FinalDelta: uint16(in.FinalDelta),
		TotalAmt: recv}
	viol, f := c19Validate(q, ex, rt)
	if len(viol) > 0 {
		// Known finding: BuildRoute checks neither the hop count nor the
		// onion payload size. Only a hop list that no loop-free path of
		// a generated graph (<= 7 nodes) can have is tolerated.
		var rest []c19Violation
		for _, v := range viol {
			if (v.Rule == "onion" || v.Rule == "onion_size") &&
				len(in.Hops) > c19bLongRoute &&
				c19IsKnown(c19KnownBuildRouteOnion) {

				st.Known(c19KnownBuildRouteOnion)
				add("known_onion_unchecked")

				continue
			}
			rest = append(rest, v)
		}
		viol = rest
	}
	if len(viol) > 0 && in.MinMode && c19bCapacityOutsideDomain(q, rt) {
		// Assumption (see props.d/C19.py): announced max_htlc <= capacity.
		var rest []c19Violation
		for _, v := range viol {
			if v.Rule != "capacity" {
				rest = append(rest, v)
			}
		}
		st.Count("outside_domain", 1)
		add("outside_domain_max_htlc_gt_capacity")
		viol = rest
	}
	if len(viol) > 0 && in.MinMode {
		// Known findings of minimum-amount mode: the route's amounts
		// are not the amounts the passes checked. Without an inbound
		// fee rate on the path only the rounding slack is tolerated.
		key, label := "", ""
		switch {
		case c19bWithinRounding(in, q, rt) &&
			c19IsKnown(c19KnownBuildRouteMinAmt):

			key, label = c19KnownBuildRouteMinAmt, "known_minamt_rounding"

		case c19bInRateOnRoute(in, q, rt) &&
			c19IsKnown(c19KnownBuildRouteInRate):

			key, label = c19KnownBuildRouteInRate, "known_minamt_inrate"
		}
		if key != "" {
			var rest []c19Violation
			for _, v := range viol {
				switch v.Rule {
				case "max_htlc", "capacity", "bandwidth", "min_htlc":
				default:
					rest = append(rest, v)
				}
			}
			if len(rest) < len(viol) {
				st.Known(key)
				add(label)
			}
			viol = rest
		}
	}
	if len(viol) > 0 {
		fail("%v\nroute: %v", viol, c19RouteString(in.m, rt))
	}
	out := &c19bOutcome{rt: rt, facts: f, recv: recv}
	out.A = append(out.A, uint64(rt.TotalAmount))
	for i := 0; i+1 < len(rt.Hops); i++ {
		out.A = append(out.A, uint64(rt.Hops[i].AmtToForward))
	}

	// --- evidence ----------------------------------------------------------
	add("route")
	if phase == "first" {
		add("route_first_phase")
	}
	hb := f.Hops
	if hb > 9 {
		hb = 10 + (hb-10)/10*10 // 10, 20, 30
	}
	add(fmt.Sprintf("hops_%d", hb))
	if f.InboundOnPath {
		add("inbound_on_path")
	}
	if f.NegInbound {
		add("neg_inbound_on_path")
	}
	if f.FloorHit {
		add("node_fee_floored")
	}
	if f.Parallel {
		add("parallel_diff_policy")
	}
	if f.LocalDisabled {
		add("local_disabled_used")
	}
	if q.Target == q.Self {
		add("circular_route")
	}
	if f.Payload >= 1200 {
		add("payload_ge_1200")
	}
	// Which limits does the route sit on?
	for i, h := range rt.Hops {
		u := in.self()
		if i > 0 {
			u = rt.Hops[i-1].PubKeyBytes
		}
		c := q.findEdge(u, h.PubKeyBytes, h.ChannelID)
		if len(c) == 0 {
			continue
		}
		e := c[0]
		if e.Min > 1 && out.A[i] == e.Min {
			add("hop_at_min_htlc")
		}
		if e.HasMax && out.A[i] == e.Max {
			add("hop_at_max_htlc")
		}
		if e.CapMsat > 0 && out.A[i] == e.CapMsat {
			add("hop_at_capacity")
		}
		if i == 0 && out.A[0] == q.BW[e.ID] {
			add("first_hop_at_bandwidth")
		}
	}
	minBinds := in.MinMode && recv > 1
	if minBinds {
		add("min_htlc_binds")
	}
	if in.MinMode && pr.err == nil {
		switch {
		case uint64(rt.TotalAmount) > pr.sender:
			add("min_route_total_gt_backward_sender")
		case uint64(rt.TotalAmount) < pr.sender:
			add("min_route_total_lt_backward_sender")
		}
	}
	nontrivial := (f.Hops >= 3 && f.InboundOnPath) ||
		(f.Hops >= 2 && f.Parallel) || minBinds

	var sample any
	if nontrivial && st.WantSample() {
		sample = map[string]string{
			"model": in.m.String(),
			"input": in.String(),
			"route": c19RouteString(in.m, rt),
		}
	}
	st.Case(fp, nontrivial, labels, sample)

	return out
}

// ---------------------------------------------------------------------------
// generator feedback: put a limit exactly on (or one beside) what the first
// route used, then ask again.

func c19bTighten(t *rapid.T, in *c19bInput, o *c19bOutcome) (*c19bInput,
	string) {

	in2 := in.clone()
	in2.m = c19bCloneModel(in.m)
	rt := o.rt

	hop := rapid.IntRange(0, len(rt.Hops)-1).Draw(t, "tHop")
	u := in.self()
	if hop > 0 {
		u = rt.Hops[hop-1].PubKeyBytes
	}
	// The policy (in the copy) of the channel direction hop `hop` used.
	var (
		pol *c19Pol
		chn *c19Chan
	)
	for _, a := range in2.m.adj[u] {
		if a.ch.ID == rt.Hops[hop].ChannelID &&
			in2.m.Nodes[a.ch.N[1-a.side]] == rt.Hops[hop].PubKeyBytes {

			pol, chn = a.ch.Pol[a.side], a.ch
		}
	}
	if pol == nil {
		return nil, ""
	}
	amt := o.A[hop]

	mode := c19Pick(t, "tighten", "max", "min", "max", "bw", "cap", "min",
		"disable", "flip", "amount", "nopolicy", "outchan", "max",
		"maxhalf")
	switch mode {
	case "max":
		d := c19Pick(t, "tMaxD", uint64(0), 1, 0, 2, 1, 9, 60, 1000)
		if amt < d {
			return nil, ""
		}
		pol.Max, pol.HasMax = amt-d, true

	case "maxhalf":
		// Well below what the route used: in minimum-amount mode the
		// backward pass may still pick the channel for its pre-bump
		// amount.
		v := amt / c19Pick(t, "tMaxDiv", uint64(2), 3, 10)
		if v < pol.Min || v == 0 {
			return nil, ""
		}
		pol.Max, pol.HasMax = v, true

	case "min":
		pol.Min = amt + c19Pick(t, "tMinD", uint64(0), 1, 0)
		if pol.HasMax && pol.Max < pol.Min {
			pol.Max = pol.Min
		}

	case "cap":
		// Capacity is in whole satoshis: the largest capacity below /
		// the smallest not below the amount.
		sat := int64(amt / 1000)
		if c19Pick(t, "tCapUp", false, true) && amt%1000 != 0 {
			sat++
		}
		if sat < 1 {
			sat = 1
		}
		chn.Cap = sat

	case "bw":
		first := rt.Hops[0].ChannelID
		d := c19Pick(t, "tBwD", uint64(0), 1, 0, 2, 9, 60, 1000)
		if o.A[0] < d {
			return nil, ""
		}
		in2.Links[first] = c19bLinkState{Kind: "ok", BW: o.A[0] - d}

	case "disable":
		pol.Disabled = true

	case "nopolicy":
		for k := 0; k < 2; k++ {
			if chn.Pol[k] == pol {
				chn.Pol[k] = nil
			}
		}

	case "flip":
		if in.MinMode {
			in2.MinMode = false
			v := int64(o.recv) + c19Pick(t, "tFlipD", int64(0), -1, 1)
			if v < 1 {
				v = 1
			}
			in2.Amt = uint64(v)
		} else {
			in2.MinMode = true
		}

	case "amount":
		if in.MinMode {
			return nil, ""
		}
		v := int64(in.Amt) + c19Pick(t, "tAmtD", int64(1), -1, 1000)
		if v < 1 {
			v = 1
		}
		in2.Amt = uint64(v)

	case "outchan":
		var ids []uint64
		for _, a := range in.m.adj[in.self()] {
			ids = append(ids, a.ch.ID)
		}
		if len(ids) == 0 {
			return nil, ""
		}
		id := ids[rapid.IntRange(0, len(ids)-1).Draw(t, "tOutId")]
		in2.OutChan = &id
	}
	in2.m.index()

	return in2, mode
}

// TestVerifC19BuildRoute: routes built by ChannelRouter.BuildRoute from an
// explicit hop list are payable.
func TestVerifC19BuildRoute(t *testing.T) {
	st := vstats.New("TestVerifC19BuildRoute")
	defer st.Flush()

	rapid.Check(t, func(t *rapid.T) {
		m := c19GenModel(t)
		in := c19bGenInput(t, m)

		o := c19bJudge(t, st, in, "first")
		if o == nil {
			return
		}
		in2, mode := c19bTighten(t, in, o)
		if in2 == nil {
			return
		}
		c19bJudge(t, st, in2, "tight_"+mode)
	})
}
