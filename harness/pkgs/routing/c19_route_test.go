//go:build verif

package routing

// C19 — every route the pathfinder returns is payable under all stated
// constraints. Generated small multigraphs + generated requests; the answer
// of findPath+newRoute (and of paymentSession.RequestRoute) is judged by the
// validity predicate in c19_oracle_test.go. An error return is always
// accepted (soundness only).

import (
	"errors"
	"fmt"
	"math"
	"strings"
	"testing"

	"github.com/btcsuite/btcd/btcec/v2/ecdsa"
	"github.com/btcsuite/btcd/btcutil/v2"
	"github.com/btcsuite/btcd/chainhash/v2"
	sphinx "github.com/lightningnetwork/lightning-onion"
	"github.com/lightningnetwork/lnd/internal/verif/vstats"
	"github.com/lightningnetwork/lnd/lntypes"
	"github.com/lightningnetwork/lnd/lnwire"
	paymentsdb "github.com/lightningnetwork/lnd/payments/db"
	"github.com/lightningnetwork/lnd/routing/route"
	"pgregory.net/rapid"
)

// Known-finding keys (input classes excluded by construction once the lead
// lists them in known_findings.json).
const (
	c19KnownBlindedMax = "C19:blinded-htlc-max-not-enforced"
	c19KnownBlindedLen = "C19:blinded-final-payload-underestimated"
	c19KnownMppLen     = "C19:mpp-total-payload-underestimated"
)

// c19IsKnown: the input class is listed as a known finding. Every use is
// `if known {tolerate narrowly + count} else {assert}`, so a repair in the
// tree re-enables the class as soon as the entry is marked fixed.
func c19IsKnown(key string) bool {
	return vstats.IsKnown(key)
}

// c19BlindedUnderestimate is how many bytes findPath's final-hop size
// estimate misses for a blinded recipient: the total_amount_msat record
// (type, length, truncated uint64) that newRoute always attaches.
func c19BlindedUnderestimate(total uint64) int {
	return 2 + c19TU64Len(total)
}

// c19TU64Len is the length of a truncated uint64 (BOLT-1 tu64).
func c19TU64Len(v uint64) int {
	n := 0
	for ; v > 0; v >>= 8 {
		n++
	}

	return n
}

// c19MaxJudgedAmt * 1e6 ppm stays below 2^63.
const c19MaxJudgedAmt = 5_000_000_000_000

type c19Result struct {
	rt    *route.Route
	err   error
	stage string
}

// c19Domain reports a request outside the callers' preconditions.
var errC19Domain = errors.New("outside domain")

// c19NewRequest renders q as the RouteRequest the RPC layer would build. A
// nil request comes with the result to report (outside domain / hint error).
func c19NewRequest(q *c19Query) (*RouteRequest, c19Result) {
	restr := &RestrictParams{
		ProbabilitySource:  q.Probs.source(),
		FeeLimit:           lnwire.MilliSatoshi(q.FeeLimit),
		OutgoingChannelIDs: q.OutChans,
		LastHop:            q.LastHop,
		CltvLimit:          q.CltvLimit,
		DestCustomRecords:  q.customRecords(),
		DestFeatures:       q.destFeatures(),
		PaymentAddr:        q.payAddr(),
		Metadata:           q.metadata(),
	}

	var req *RouteRequest
	if q.isBlinded() {
		payments := q.blindedPayments()
		for _, p := range payments {
			if err := p.Validate(); err != nil {
				return nil, c19Result{err: errC19Domain, stage: "domain"}
			}
		}
		set, err := NewBlindedPaymentPathSet(payments)
		if err != nil {
			return nil, c19Result{err: errC19Domain, stage: "domain"}
		}
		if f := set.Features(); f != nil {
			restr.DestFeatures = f.Clone()
		}
		restr.BlindedPaymentPathSet = set
		req, err = NewRouteRequest(
			q.Source, nil, lnwire.MilliSatoshi(q.Amt), q.TimePref,
			restr, nil, nil, set, 0,
		)
		if err != nil {
			return nil, c19Result{err: errC19Domain, stage: "domain"}
		}
	} else {
		hints, err := RouteHintsToEdges(q.zpayHints(), q.Target)
		if err != nil {
			return nil, c19Result{err: err, stage: "hints"}
		}
		tgt := q.Target
		req, err = NewRouteRequest(
			q.Source, &tgt, lnwire.MilliSatoshi(q.Amt), q.TimePref,
			restr, q.customRecords(), hints, nil, q.FinalDlt,
		)
		if err != nil {
			return nil, c19Result{err: errC19Domain, stage: "domain"}
		}
	}

	return req, c19Result{}
}

// c19RunFindPath answers q the way ChannelRouter.FindRoute does:
// NewRouteRequest -> findPath -> newRoute.
func c19RunFindPath(q *c19Query) c19Result {
	m := q.m
	req, res := c19NewRequest(q)
	if req == nil {
		return res
	}

	bw := &c19BW{hints: q.BW}
	if q.BWNil {
		bw.hints = nil
	}
	cfg := q.Cfg
	finalExpiry := int32(q.Height) + int32(req.FinalExpiry)
	path, _, err := findPath(
		&graphParams{
			graph:           m,
			additionalEdges: req.RouteHints,
			bandwidthHints:  bw,
		},
		req.Restrictions, &cfg, q.Self, req.Source, req.Target,
		req.Amount, req.TimePreference, finalExpiry,
	)
	if err != nil {
		return c19Result{err: err, stage: "findPath"}
	}
	rt, err := newRoute(
		req.Source, path, q.Height, finalHopParams{
			amt:         req.Amount,
			totalAmt:    req.Amount,
			cltvDelta:   req.FinalExpiry,
			records:     req.CustomRecords,
			paymentAddr: q.payAddr(),
			metadata:    q.metadata(),
		}, req.BlindedPathSet,
	)
	if err != nil {
		return c19Result{err: err, stage: "newRoute"}
	}

	return c19Result{rt: rt}
}

// c19ApplyKnown removes input classes of confirmed findings from q.
func c19ApplyKnown(st *vstats.Collector, q *c19Query) {
	if !q.isBlinded() {
		return
	}
	if c19IsKnown(c19KnownBlindedMax) {
		for i := range q.Blinded {
			if q.Blinded[i].Max < q.Amt {
				q.Blinded[i].Max = q.Amt
				st.Known(c19KnownBlindedMax)
				st.Count("excluded_known", 1)
			}
		}
	}
}

func c19Binding(limit, used uint64) bool {
	if limit == math.MaxUint64 || limit > math.MaxUint64/100 {
		return false
	}
	if used > limit {
		return false
	}

	return used*100 >= limit*99 && limit-used <= used/100+1
}

// c19Judge validates one answer, records evidence and fails the case on a
// violation. It returns the oracle's facts for generator feedback.
func c19Judge(t *rapid.T, st *vstats.Collector, q *c19Query, ex c19Expect,
	res c19Result, phase string, onion bool) (c19Facts, bool) {

	session := strings.HasPrefix(phase, "session")
	labels := []string{"phase:" + phase}
	add := func(l string) { labels = append(labels, l) }
	fp := vstats.FP(q.m.String(), q.String(), phase)

	if q.Target == q.Source && !q.isBlinded() {
		add("self_payment")
	}
	if q.Source != q.Self {
		add("foreign_source")
	}
	if q.isBlinded() {
		add("req_blinded")
	}
	if len(q.Hints) > 0 {
		add("req_hints")
	}
	if len(q.OutChans) > 0 {
		add("req_outchan")
	}
	if q.LastHop != nil {
		add("req_lasthop")
	}

	if res.err != nil {
		kind := res.err.Error()
		if len(kind) > 40 {
			kind = kind[:40]
		}
		add("error@" + res.stage + ":" + kind)
		st.Case(fp, false, labels, nil)

		return c19Facts{}, false
	}

	// Domain guard: beyond this lnd's 64-bit fee products can wrap (see
	// assumptions); such routes are not judged.
	if uint64(res.rt.TotalAmount) > c19MaxJudgedAmt {
		st.Count("outside_domain", 1)
		add("outside_domain_amount")
		st.Case(fp, false, labels, nil)

		return c19Facts{}, false
	}

	viol, f := c19Validate(q, ex, res.rt)
	if len(viol) == 0 && onion {
		if err := c19OnionRoundTrip(res.rt); err != nil {
			viol = append(viol, c19Violation{"onion",
				"NewOnionPacket: " + err.Error()})
		}
	}

	// Known findings: report, do not stop the search.
	if len(viol) > 0 {
		var rest []c19Violation
		for _, v := range viol {
			switch {
			case v.Rule == "max_htlc" &&
				strings.Contains(v.Msg, "(blinded)") &&
				c19IsKnown(c19KnownBlindedMax):

				st.Known(c19KnownBlindedMax)
			// findPath misses total_amount_msat (bounded excess);
			// a session sizes the final hop as a clear hop
			// (unbounded). Only recipients that are their own
			// introduction node are affected.
			case v.Rule == "onion_size" && f.BlindedLen == 1 &&
				(session || f.Payload <=
					sphinx.MaxRoutingPayloadSize+
						c19BlindedUnderestimate(ex.TotalAmt)) &&
				c19IsKnown(c19KnownBlindedLen):

				st.Known(c19KnownBlindedLen)
			// MPP shard: the estimate sizes the MPP record with the
			// shard amount, the route carries the payment total.
			case v.Rule == "onion_size" && session && q.PayAddr &&
				f.Payload <= sphinx.MaxRoutingPayloadSize+
					c19TU64Len(ex.TotalAmt)-c19TU64Len(ex.Amt) &&
				c19IsKnown(c19KnownMppLen):

				st.Known(c19KnownMppLen)
			default:
				rest = append(rest, v)
			}
		}
		viol = rest
	}
	if len(viol) > 0 {
		t.Fatalf("C19 violated (%s)\n%v\nmodel:\n%vrequest: %v\n"+
			"route: %v", phase, viol, q.m, q,
			c19RouteString(q.m, res.rt))
	}

	add("route")
	if phase == "first" || phase == "session" {
		add("route_first_phase")
	}
	add(fmt.Sprintf("hops_%d", f.Hops))
	bindFee := c19Binding(q.FeeLimit, f.Fee)
	usedTL := uint64(f.TimeLock) - uint64(q.Height) - f.FinalDelta
	bindCltv := q.CltvLimit != math.MaxUint32 &&
		c19Binding(uint64(q.CltvLimit), usedTL)
	if f.InboundOnPath {
		add("inbound_on_path")
	}
	if f.NegInbound {
		add("neg_inbound_on_path")
	}
	if f.FloorHit {
		add("node_fee_floored")
	}
	if f.Parallel {
		add("parallel_diff_policy")
	}
	if bindFee {
		add("binding_fee_limit")
	}
	if bindCltv {
		add("binding_cltv_limit")
	}
	if f.Payload >= 1290 {
		add("binding_payload")
	}
	if f.UsedHint {
		add("hint_used")
	}
	if f.BlindedLen > 0 {
		add(fmt.Sprintf("blinded_tail_%d", f.BlindedLen))
	}
	if f.LocalDisabled {
		add("local_disabled_used")
	}
	if f.Fee == 0 && f.Hops > 1 {
		add("zero_fee_multi_hop")
	}
	for _, k := range f.Kinds {
		if k == "revisit" {
			add("node_revisited")
		}
	}
	nontrivial := f.Hops >= 2 &&
		(f.InboundOnPath || bindFee || bindCltv || f.Parallel)

	var sample any
	if nontrivial && st.WantSample() {
		sample = map[string]string{
			"model":   q.m.String(),
			"request": q.String(),
			"route":   c19RouteString(q.m, res.rt),
		}
	}
	st.Case(fp, nontrivial, labels, sample)

	return f, true
}

// c19Tighten derives a second request from the first answer so that some
// limit becomes binding or the used path becomes unavailable.
func c19Tighten(t *rapid.T, q *c19Query, rt *route.Route,
	f c19Facts) (*c19Query, string) {

	q2 := *q
	// Deep-copy what we may touch.
	p2 := *q.Probs
	p2.Pair = map[c19Pair]float64{}
	for k, v := range q.Probs.Pair {
		p2.Pair[k] = v
	}
	q2.Probs = &p2
	q2.BW = map[uint64]uint64{}
	for k, v := range q.BW {
		q2.BW[k] = v
	}
	q2.Blinded = append([]c19BlindPath(nil), q.Blinded...)
	for i := range q2.Blinded {
		q2.Blinded[i].Hops = append([]c19BlindHop(nil),
			q.Blinded[i].Hops...)
	}

	mode := c19Pick(t, "tighten", "fee", "fee", "cltv", "cltv", "payload",
		"block", "block", "bw", "outchan", "amount")
	switch mode {
	case "fee":
		d := c19Pick(t, "tFeeD", -1, 0, 0, 1)
		v := int64(f.Fee) + int64(d)
		if v < 0 {
			v = 0
		}
		q2.FeeLimit = uint64(v)

	case "cltv":
		used := int64(uint64(f.TimeLock) - uint64(q.Height) -
			f.FinalDelta)
		d := c19Pick(t, "tCltvD", -1, 0, 0, 1)
		if used+int64(d) < 0 {
			d = 0
		}
		q2.CltvLimit = uint32(used + int64(d))

	case "payload":
		d := rapid.IntRange(-6, 3).Draw(t, "tPayD")
		grow := 1300 - f.Payload + d
		if q.isBlinded() {
			for i := range q2.Blinded {
				hops := q2.Blinded[i].Hops
				c := hops[len(hops)-1].Cipher + grow
				if c < 1 {
					c = 1
				}
				hops[len(hops)-1].Cipher = c
			}
		} else if c19Chance(t, "tPayCustom", 50) {
			// Fill up with the destination's custom record instead
			// of the metadata: the final hop's standard records stay
			// small while its TLV stream crosses the 253-byte length
			// prefix boundary (added after seeded change C19g).
			cur := q.CustomLen
			if cur < 0 {
				// a record that was not there: type + length
				cur, grow = 0, grow-8
			}
			if cur+grow < 0 {
				return nil, ""
			}
			q2.CustomLen = cur + grow
			mode = "payload_custom"
		} else {
			cur := q.MetaLen
			if cur < 0 {
				cur = 0
			}
			if cur+grow < 0 {
				return nil, ""
			}
			q2.MetaLen = cur + grow
		}

	case "block":
		i := rapid.IntRange(0, len(rt.Hops)-1).Draw(t, "tBlockHop")
		from := rt.SourcePubKey
		if i > 0 {
			from = rt.Hops[i-1].PubKeyBytes
		}
		p2.Pair[c19Pair{from, rt.Hops[i].PubKeyBytes}] = 0

	case "bw":
		if q.Source != q.Self {
			return nil, ""
		}
		d := c19Pick(t, "tBwD", -1, 0)
		v := int64(rt.TotalAmount) + int64(d)
		if v < 0 {
			v = 0
		}
		q2.BW[rt.Hops[0].ChannelID] = uint64(v)
		q2.BWNil = false

	case "outchan":
		if q.Source != q.Self {
			return nil, ""
		}
		var ids []uint64
		for _, a := range q.m.adj[q.Source] {
			if a.ch.ID != rt.Hops[0].ChannelID {
				ids = append(ids, a.ch.ID)
			}
		}
		if len(ids) == 0 {
			return nil, ""
		}
		q2.OutChans = ids

	case "amount":
		// The largest amount the found path's tightest max admits,
		// give or take one.
		d := c19Pick(t, "tAmtD", -1, 0, 1, 1000)
		v := int64(q.Amt) + int64(d)
		tight := c19TightAmounts(q.m, q.BW)
		if len(tight) > 0 && rapid.Bool().Draw(t, "tAmtTight") {
			v = int64(tight[rapid.IntRange(0, len(tight)-1).Draw(
				t, "tAmtIdx")])
		}
		if v < 1 {
			v = 1
		}
		q2.Amt = uint64(v)
	}

	return &q2, mode
}

func c19ExpectFor(q *c19Query) c19Expect {
	return c19Expect{Amt: q.Amt, FinalDelta: q.FinalDlt, TotalAmt: q.Amt}
}

// TestVerifC19FindPath: findPath + newRoute on generated graphs/requests.
func TestVerifC19FindPath(t *testing.T) {
	st := vstats.New("TestVerifC19FindPath")
	defer st.Flush()

	onionEvery := vstats.EnvInt("VERIF_C19_ONION_EVERY", 8)
	repeats := vstats.EnvInt("VERIF_C19_REPEATS", 1)
	var nCase int

	rapid.Check(t, func(t *rapid.T) {
		m := c19GenModel(t)
		q := c19GenQuery(t, m)
		c19ApplyKnown(st, q)
		nCase++
		onion := onionEvery > 0 && nCase%onionEvery == 0

		res := c19RunFindPath(q)
		if errors.Is(res.err, errC19Domain) {
			st.Count("outside_domain", 1)
			return
		}
		f, ok := c19Judge(t, st, q, c19ExpectFor(q), res, "first", onion)
		if !ok {
			return
		}

		// lnd iterates Go maps inside findPath, so the same request may
		// be answered with different (equally good) routes: ask again.
		for i := 1; i < repeats; i++ {
			res := c19RunFindPath(q)
			c19Judge(t, st, q, c19ExpectFor(q), res, "repeat", false)
		}

		q2, mode := c19Tighten(t, q, res.rt, f)
		if q2 == nil {
			return
		}
		c19ApplyKnown(st, q2)
		res2 := c19RunFindPath(q2)
		if errors.Is(res2.err, errC19Domain) {
			st.Count("outside_domain", 1)
			return
		}
		c19Judge(t, st, q2, c19ExpectFor(q2), res2, "tight_"+mode, onion)
	})
}

// ---------------------------------------------------------------------------
// RequestRoute through a payment session

type c19MC struct{ p *c19Probs }

func (c *c19MC) ReportPaymentFail(uint64, *route.Route, *int,
	lnwire.FailureMessage) (*paymentsdb.FailureReason, error) {

	return nil, nil
}

func (c *c19MC) ReportPaymentSuccess(uint64, *route.Route) error { return nil }

func (c *c19MC) GetProbability(from, to route.Vertex, amt lnwire.MilliSatoshi,
	_ btcutil.Amount) float64 {

	return c.p.prob(from, to, uint64(amt))
}

type c19SessionPlan struct {
	Total       uint64 // payment amount
	MaxAmt      uint64 // maxAmt argument of RequestRoute
	MaxParts    uint32
	Active      uint32
	MaxShard    uint64 // 0 = none
	PayCltv     uint32 // LightningPayment.CltvLimit
	FinalDltPay uint16 // LightningPayment.FinalCLTVDelta
}

func c19RunSession(q *c19Query, pl c19SessionPlan) c19Result {
	m := q.m
	pay := &LightningPayment{
		Target:             q.Target,
		Amount:             lnwire.MilliSatoshi(pl.Total),
		FeeLimit:           lnwire.MilliSatoshi(q.FeeLimit),
		CltvLimit:          pl.PayCltv,
		FinalCLTVDelta:     pl.FinalDltPay,
		RouteHints:         q.zpayHints(),
		OutgoingChannelIDs: q.OutChans,
		LastHop:            q.LastHop,
		DestFeatures:       q.destFeatures(),
		PaymentAddr:        q.payAddr(),
		DestCustomRecords:  q.customRecords(),
		MaxParts:           pl.MaxParts,
		TimePref:           q.TimePref,
		Metadata:           q.metadata(),
	}
	if pl.MaxShard > 0 {
		v := lnwire.MilliSatoshi(pl.MaxShard)
		pay.MaxShardAmt = &v
	}
	if err := pay.SetPaymentHash(lntypes.Hash{0xc1, 0x9}); err != nil {
		return c19Result{err: err, stage: "setup"}
	}
	if q.isBlinded() {
		payments := q.blindedPayments()
		for _, p := range payments {
			if err := p.Validate(); err != nil {
				return c19Result{err: errC19Domain, stage: "domain"}
			}
		}
		set, err := NewBlindedPaymentPathSet(payments)
		if err != nil {
			return c19Result{err: errC19Domain, stage: "domain"}
		}
		if set.IsIntroNode(q.Self) {
			return c19Result{err: errC19Domain, stage: "domain"}
		}
		pay.BlindedPathSet = set
		pay.Target = route.NewVertex(set.TargetPubKey())
		pay.FinalCLTVDelta = set.FinalCLTVDelta()
		pay.DestFeatures = nil
		if f := set.Features(); f != nil {
			pay.DestFeatures = f.Clone()
		}
		pay.RouteHints = nil
	}

	bw := &c19BW{hints: q.BW}
	if q.BWNil {
		bw.hints = nil
	}
	sess, err := newPaymentSession(
		pay, q.Self,
		func(Graph) (bandwidthHints, error) { return bw, nil },
		m, &c19MC{p: q.Probs}, q.Cfg,
	)
	if err != nil {
		return c19Result{err: err, stage: "newPaymentSession"}
	}
	if len(q.HintUpdates) > 0 {
		// The payment life cycle: a first attempt, a failure that
		// carries a channel_update for a private edge
		// (handleFailureMessage: GetAdditionalEdgePolicy +
		// UpdateAdditionalEdge), then the next attempt on the same
		// session.
		_, _ = sess.RequestRoute(
			lnwire.MilliSatoshi(pl.MaxAmt),
			lnwire.MilliSatoshi(q.FeeLimit), pl.Active, q.Height, nil,
		)
		for i, u := range q.HintUpdates {
			pub := c19Pub(u.From)
			policy := sess.GetAdditionalEdgePolicy(pub, u.ID)
			if policy == nil {
				return c19Result{stage: "hint-update", err: fmt.Errorf(
					"C19 hint update %d: the session does not know "+
						"the private edge %d of its own invoice", i, u.ID)}
			}
			msg := &lnwire.ChannelUpdate1{
				ShortChannelID:  lnwire.NewShortChanIDFromInt(u.ID),
				Timestamp:       uint32(1_700_000_000 + i),
				MessageFlags:    lnwire.ChanUpdateRequiredMaxHtlc,
				TimeLockDelta:   u.Delta,
				HtlcMinimumMsat: 1,
				HtlcMaximumMsat: 1 << 40,
				BaseFee:         u.Base,
				FeeRate:         u.PPM,
			}
			data, err := msg.DataToSign()
			if err != nil {
				return c19Result{err: err, stage: "setup"}
			}
			sig := ecdsa.Sign(c19Priv(u.Signer), chainhash.DoubleHashB(data))
			msg.Signature, err = lnwire.NewSigFromSignature(sig)
			if err != nil {
				return c19Result{err: err, stage: "setup"}
			}
			ok := sess.UpdateAdditionalEdge(msg, pub, policy)
			if ok != (u.Signer == u.From) {
				return c19Result{stage: "hint-update", err: fmt.Errorf(
					"C19 hint update %d (%+v): UpdateAdditionalEdge "+
						"answered %v", i, u, ok)}
			}
		}
	}
	rt, err := sess.RequestRoute(
		lnwire.MilliSatoshi(pl.MaxAmt), lnwire.MilliSatoshi(q.FeeLimit),
		pl.Active, q.Height, nil,
	)
	if err != nil {
		return c19Result{err: err, stage: "RequestRoute"}
	}

	return c19Result{rt: rt}
}

// c19SessionCase answers q through a payment session and judges the answer.
// q.CltvLimit keeps its RestrictParams meaning (excluding the final delta);
// the LightningPayment limit is derived from it.
func c19SessionCase(t *rapid.T, st *vstats.Collector, q *c19Query,
	pl c19SessionPlan, phase string) (c19Result, c19Facts, bool) {

	// Final delta as the session computes it.
	var (
		padded   = q.FinalDlt + BlockPadding
		finalEff = uint64(padded) // what the payee's hop must get
	)
	pl.FinalDltPay = q.FinalDlt
	if q.isBlinded() {
		single := uint16(0)
		for _, bp := range q.Blinded {
			if len(bp.Hops) == 1 {
				single = bp.Delta
				break
			}
		}
		pl.FinalDltPay = single
		padded = single + BlockPadding
		finalEff = uint64(single)
	}
	// LightningPayment.CltvLimit bounds the total time lock relative to
	// the height and must exceed the padded delta (ValidateCLTVLimit); the
	// session subtracts the padded delta again.
	want := uint64(q.CltvLimit) + uint64(padded)
	if want > math.MaxUint32 {
		want = math.MaxUint32
	}
	pl.PayCltv = uint32(want)

	res := c19RunSession(q, pl)
	if errors.Is(res.err, errC19Domain) {
		st.Count("outside_domain", 1)
		return res, c19Facts{}, false
	}

	ex := c19Expect{Amt: q.Amt, FinalDelta: padded, TotalAmt: pl.Total}
	if res.rt != nil {
		// Which shard size did the session settle on?
		start := pl.MaxAmt
		if pl.MaxShard > 0 && start > pl.MaxShard {
			start = pl.MaxShard
		}
		got := uint64(res.rt.ReceiverAmt())
		amt, k := start, 0
		for amt > got {
			amt /= 2
			k++
		}
		if amt != got || got == 0 {
			t.Fatalf("C19 violated (%s)\nshard amount %d is not "+
				"maxAmt %d halved\nmodel:\n%vrequest: %v plan=%+v\n"+
				"route: %v", phase, got, start, q.m, q, pl,
				c19RouteString(q.m, res.rt))
		}
		if k > 0 {
			canSplit := (q.PayAddr || q.isBlinded()) &&
				pl.Active+1 < pl.MaxParts &&
				got >= uint64(DefaultShardMinAmt)
			if !canSplit {
				t.Fatalf("C19 violated (%s)\nsplit to %d although "+
					"splitting is not allowed\nmodel:\n%vrequest: "+
					"%v plan=%+v", phase, got, q.m, q, pl)
			}
			phase += "_split"
		}
		ex.Amt = got
	}
	// Judge against what was actually sent; the oracle adds the effective
	// final delta to q.CltvLimit: total time lock <= height + PayCltv.
	qj := *q
	qj.Amt = ex.Amt
	qj.CltvLimit = uint32(want - finalEff)
	f, ok := c19Judge(t, st, &qj, ex, res, phase, false)

	return res, f, ok
}

// TestVerifC19RequestRoute: the same judgement for routes handed out by a
// payment session (block padding, CLTV limit including the final delta,
// MPP splitting by halving).
func TestVerifC19RequestRoute(t *testing.T) {
	st := vstats.New("TestVerifC19RequestRoute")
	defer st.Flush()

	rapid.Check(t, func(t *rapid.T) {
		m := c19GenModel(t)
		q := c19GenQuery(t, m)
		// Sessions always pay from the own node.
		if q.Source != q.Self {
			if q.Target == q.Self {
				q.Target = q.Source
			}
			q.Source = q.Self
		}
		c19ApplyKnown(st, q)

		pl := c19SessionPlan{MaxAmt: q.Amt, Total: q.Amt}
		if c19Chance(t, "mppTotal", 50) {
			pl.Total = q.Amt + rapid.Uint64Range(0, 4*q.Amt).Draw(
				t, "mppExtra")
		}
		pl.MaxParts = c19Pick(t, "maxParts", uint32(1), 4, 16, 1)
		pl.Active = uint32(c19Pick(t, "activeShards", 0, 0, 1, 3))
		if c19Chance(t, "maxShard", 25) {
			pl.MaxShard = rapid.Uint64Range(1, 2*q.Amt).Draw(
				t, "maxShardAmt")
		}
		if pl.MaxParts > 1 && !q.isBlinded() &&
			!c19Chance(t, "noMpp", 40) {

			q.PayAddr = true
			q.DestFeat = 1

			// Amounts a single channel cannot carry but a half or a
			// quarter fits: the session has to split.
			var big []uint64
			for _, v := range c19TightAmounts(m, q.BW) {
				if v >= uint64(DefaultShardMinAmt) {
					big = append(big, v)
				}
			}
			if len(big) > 0 && !c19Chance(t, "noSplitAmt", 50) {
				v := big[rapid.IntRange(0, len(big)-1).Draw(
					t, "splitBase")]
				q.Amt = v*c19Pick(t, "splitMul", uint64(2), 4, 2) -
					rapid.Uint64Range(0, 3).Draw(t, "splitOff")
				pl.MaxAmt, pl.Total = q.Amt, q.Amt
			}
		}

		res, f, ok := c19SessionCase(t, st, q, pl, "session")
		// Channel updates for private edges between two attempts on the
		// same session (added after seeded change C19f).
		if ok && len(q.Hints) > 0 && !q.isBlinded() &&
			c19Chance(t, "hintUpdates", 90) {

			q3 := *q
			q3.InvoiceHints = q.Hints
			q3.Hints = nil
			for ci, chain := range q.Hints {
				nc := append([]c19Hint(nil), chain...)
				for hi := range nc {
					tag := fmt.Sprintf("u%d.%d.", ci, hi)
					if !c19Chance(t, tag+"upd", 75) {
						continue
					}
					h := nc[hi]
					// each field changes on its own: single-field
					// updates are the common case on the network
					if c19Chance(t, tag+"base", 40) {
						h.Base = uint32(c19Pick(t, tag+"b", 0, 1, 1000,
							rapid.IntRange(0, 50_000).Draw(t, tag+"bv")))
					}
					if c19Chance(t, tag+"ppm", 40) {
						h.PPM = uint32(c19Pick(t, tag+"p", 0, 1, 100,
							rapid.IntRange(0, 20_000).Draw(t, tag+"pv")))
					}
					if c19Chance(t, tag+"dlt", 40) {
						h.Delta = uint16(c19Pick(t, tag+"d", 0, 9, 40, 144,
							rapid.IntRange(0, 500).Draw(t, tag+"dv")))
					}
					u := c19HintUpd{From: h.From, ID: h.ID, Base: h.Base,
						PPM: h.PPM, Delta: h.Delta, Signer: h.From}
					if c19Chance(t, tag+"forged", 15) {
						u.Signer = (h.From + 1) % c19GraphKeys
						if u.Signer == h.From {
							u.Signer = (h.From + 2) % c19GraphKeys
						}
					} else {
						nc[hi] = h
					}
					q3.HintUpdates = append(q3.HintUpdates, u)
				}
				q3.Hints = append(q3.Hints, nc)
			}
			if len(q3.HintUpdates) > 0 {
				r3, _, _ := c19SessionCase(t, st, &q3, pl, "session_hint_update")
				if r3.stage == "hint-update" {
					t.Fatalf("%v\nmodel:\n%vrequest: %v", r3.err, q3.m, &q3)
				}
			}
		}
		if !ok || res.rt == nil {
			return
		}
		if uint64(res.rt.ReceiverAmt()) != q.Amt {
			// Tighten relative to the shard that was found.
			q.Amt = uint64(res.rt.ReceiverAmt())
			pl.MaxAmt = q.Amt
		}
		q2, mode := c19Tighten(t, q, res.rt, f)
		if q2 == nil {
			return
		}
		pl.MaxAmt = q2.Amt
		if pl.Total < q2.Amt {
			pl.Total = q2.Amt
		}
		c19ApplyKnown(st, q2)
		c19SessionCase(t, st, q2, pl, "session_tight_"+mode)
	})
}
