//go:build verif

package routing

// C16 (control tower extension) — TestVerifC16ControlTower.
//
// The sibling checks in harness/pkgs/payments/db drive the two payment stores
// directly and give every goroutine its own payment hashes, because the store
// interface demands that the caller serialises calls per hash. The component
// that provides this serialisation is routing/control_tower.go. Here 2-4
// goroutines issue generated calls ON THE SAME payment hashes through a real
// controlTower over a real store (KVStore on bbolt and SQLStore on sqlite, the
// same plan on both), together with SubscribePayment / SubscribeAllPayments
// subscribers.
//
// Oracles
//  (a) linearizability: every call's invocation and response is stamped with a
//      logical clock owned by the harness; per payment hash the recorded
//      responses must be explainable by SOME sequential order of the calls
//      that respects real-time precedence, judged by the sequential reference
//      model (c16_tower_model_test.go);
//  (b) model-independent invariants on every MPPayment the tower hands out
//      (fetches, notifications) and on every payment the store answered with
//      inside the tower's critical section: settled+in-flight <= value, status
//      == documented truth table, no attempt admitted after a settle or after
//      the payment was failed, Succeeded never changes, Failed changes only
//      through InitPayment;
//  (c) serialisation: no two of RegisterAttempt / SettleAttempt / FailAttempt /
//      Fail / the notification fetches for one payment hash are inside the
//      store at the same time (interface.go: "Callers MUST serialize calls to
//      RegisterAttempt for the same payment hash"; control_tower.go:
//      notifySubscribers "must be executed atomically (by means of a lock) with
//      the database update");
//  (d) subscribers: a SubscribePayment stream is exactly: the state fetched at
//      subscription, then every state the store produced for that hash inside
//      the critical section afterwards, in that order, up to and including the
//      first terminal one, after which the stream is closed ("prevent missing
//      or duplicating an update", "sends a final payment event ... The channel
//      will be closed after this"). A SubscribeAllPayments stream opened before
//      any payment exists carries, per hash, exactly all those states in
//      order; one opened later carries at least those produced after the
//      subscription returned, in order (its start may contain duplicates and
//      out-of-order events, as documented).

import (
	"context"
	"errors"
	"fmt"
	"sort"
	"strings"
	"sync"
	"sync/atomic"
	"testing"
	"time"

	"github.com/lightningnetwork/lnd/internal/verif/vstats"
	"github.com/lightningnetwork/lnd/lntypes"
	paymentsdb "github.com/lightningnetwork/lnd/payments/db"
	"pgregory.net/rapid"
)

const (
	c16xOpInit = iota
	c16xOpRegister
	c16xOpSettle
	c16xOpFailAttempt
	c16xOpFailPayment
	c16xOpFetch
	c16xOpDeleteFailed
	c16xOpSubscribe
	c16xOpSubscribeAll
)

var c16xOpNames = []string{"init", "register", "settle", "failattempt",
	"failpayment", "fetch", "deletefailed", "subscribe", "subscribeall"}

// c16xOp is one generated tower call. Attempt ids are relative to the case
// (rel + idBase) so that fingerprints identify the generated value.
type c16xOp struct {
	Kind       int
	H          int // index of the payment hash
	Value      int64
	Spec       c16xSpec // register (Spec.ID relative)
	ID         uint64   // settle / failattempt (relative)
	Reason     int
	CloseAfter int // subscribe*: client closes after that many events (0: never)
}

func (o c16xOp) String() string {
	s := fmt.Sprintf("%s(h%d", c16xOpNames[o.Kind], o.H)
	switch o.Kind {
	case c16xOpInit:
		s += fmt.Sprintf(",%d", o.Value)
	case c16xOpRegister:
		s += "," + o.Spec.String()
	case c16xOpSettle, c16xOpFailAttempt:
		s += fmt.Sprintf(",id=%d", o.ID)
	case c16xOpFailPayment:
		s += fmt.Sprintf(",reason=%d", o.Reason)
	case c16xOpSubscribe, c16xOpSubscribeAll:
		s += fmt.Sprintf(",closeAfter=%d", o.CloseAfter)
	}

	return s + ")"
}

// c16xRec is one executed call with its logical invocation / response time.
type c16xRec struct {
	Op       c16xOp // ids made absolute
	G        int
	Inv, Res int64
	Err      error
	P        *paymentsdb.MPPayment
	View     *c16xView
	Att      *paymentsdb.HTLCAttempt
	Sub      *c16xSub
}

func (r *c16xRec) String() string {
	out := "ok"
	if r.Err != nil {
		out = "ERR " + r.Err.Error()
		if len(out) > 90 {
			out = out[:90] + "..."
		}
	} else if r.View != nil {
		out = "ok " + r.View.String()
	}

	return fmt.Sprintf("[g%d %d..%d] %s -> %s", r.G, r.Inv, r.Res, r.Op, out)
}

type c16xPlan struct {
	Values   []int64
	Writers  [][]c16xOp
	StartAll []int // CloseAfter of each SubscribeAllPayments opened before the start
	Yields   []int
}

func (p *c16xPlan) fingerprint() string {
	var sb strings.Builder
	fmt.Fprintf(&sb, "v=%v all=%v y=%v", p.Values, p.StartAll, p.Yields)
	for w, ops := range p.Writers {
		fmt.Fprintf(&sb, " w%d:", w)
		for _, o := range ops {
			sb.WriteString(o.String())
		}
	}

	return sb.String()
}

// c16xGenPlan draws a whole case up front (rapid.T is not safe for concurrent
// use). Every choice is a rapid draw.
func c16xGenPlan(t *rapid.T, maxOps int) *c16xPlan {
	p := &c16xPlan{}
	nH := rapid.IntRange(1, 2).Draw(t, "hashes")
	for h := 0; h < nH; h++ {
		p.Values = append(p.Values, rapid.SampledFrom(
			[]int64{1000, 1000, 600, 8}).Draw(t, "value"))
	}
	// Relative attempt ids: hash h owns 10h+1 .. 10h+7; 10h+9 is never
	// registered.
	const poolSize = 7
	next := make([]int, nH)      // next unused pool slot
	used := make([][]uint64, nH) // ids some writer registers
	poolID := func(h, i int) uint64 { return uint64(10*h + 1 + i) }

	// NB: rapid's integer generator favours small values; rare classes
	// therefore sit at the top of the range.
	pct := func(label string) int {
		return rapid.IntRange(0, 99).Draw(t, label)
	}
	nW := rapid.IntRange(2, 4).Draw(t, "writers")
	for w := 0; w < nW; w++ {
		n := rapid.IntRange(3, maxOps).Draw(t, "nOps")
		var (
			ops     []c16xOp
			lastReg = make([]uint64, nH) // own unresolved registration
		)
		for i := 0; i < n; i++ {
			h := rapid.IntRange(0, nH-1).Draw(t, "h")
			v := p.Values[h]
			kind := -1
			if i == 0 && pct("initFirst") < 75 {
				kind = c16xOpInit
			}
			if kind < 0 {
				switch k := pct("kind"); {
				case k < 28:
					kind = c16xOpRegister
				case k < 46:
					kind = c16xOpSettle
				case k < 56:
					kind = c16xOpFailAttempt
				case k < 61:
					kind = c16xOpFailPayment
				case k < 71:
					kind = c16xOpInit
				case k < 79:
					kind = c16xOpFetch
				case k < 83:
					kind = c16xOpDeleteFailed
				case k < 96:
					kind = c16xOpSubscribe
				default:
					kind = c16xOpSubscribeAll
				}
			}
			op := c16xOp{Kind: kind, H: h}
			switch kind {
			case c16xOpInit:
				op.Value = v

			case c16xOpRegister:
				s := c16xSpec{Fee: int64(rapid.IntRange(0, 2).
					Draw(t, "fee"))}
				dup := len(used[h]) > 0 && pct("dupID") >= 92
				switch {
				case dup || next[h] >= poolSize:
					if len(used[h]) == 0 {
						op.Kind = c16xOpFetch
						break
					}
					s.ID = rapid.SampledFrom(used[h]).
						Draw(t, "dup")
				default:
					s.ID = poolID(h, next[h])
					next[h]++
					used[h] = append(used[h], s.ID)
					lastReg[h] = s.ID
				}
				q := v / 4
				amts := []int64{q, q, v / 3, v / 2, v - v/2, v - q,
					v, v, 1}
				s.MPP = pct("mpp") < 85
				if s.MPP {
					s.Amt = rapid.SampledFrom(amts).Draw(t, "amt")
					s.Total, s.Addr = v, 1
					if pct("badTotal") >= 97 {
						s.Total = v + 1
					}
					if pct("badAddr") >= 97 {
						s.Addr = 2
					}
				} else {
					s.Amt = v
					if pct("badPlain") >= 80 {
						s.Amt = rapid.SampledFrom(amts).
							Draw(t, "amt")
					}
				}
				op.Spec = s

			case c16xOpSettle, c16xOpFailAttempt:
				switch k := pct("idClass"); {
				case k < 65 && lastReg[h] != 0:
					op.ID = lastReg[h]
					lastReg[h] = 0
				case k < 90 && len(used[h]) > 0:
					op.ID = rapid.SampledFrom(used[h]).
						Draw(t, "anyID")
				case k < 95 && nH > 1 && len(used[1-h]) > 0:
					// attempt of the other payment
					op.ID = rapid.SampledFrom(used[1-h]).
						Draw(t, "foreignID")
				default:
					op.ID = uint64(10*h + 9) // never registered
				}

			case c16xOpFailPayment:
				op.Reason = rapid.IntRange(0, 4).Draw(t, "reason")

			case c16xOpSubscribe, c16xOpSubscribeAll:
				if pct("clientCloses") >= 80 {
					op.CloseAfter = rapid.IntRange(1, 3).
						Draw(t, "closeAfter")
				}
			}
			ops = append(ops, op)
		}
		p.Writers = append(p.Writers, ops)
	}
	nAll := rapid.IntRange(0, 2).Draw(t, "startAll")
	for i := 0; i < nAll; i++ {
		ca := 0
		if pct("clientCloses") >= 80 {
			ca = rapid.IntRange(1, 6).Draw(t, "closeAfter")
		}
		p.StartAll = append(p.StartAll, ca)
	}
	nY := rapid.IntRange(1, 8).Draw(t, "nYields")
	for i := 0; i < nY; i++ {
		p.Yields = append(p.Yields, rapid.IntRange(0, 3).Draw(t, "yield"))
	}

	return p
}

// ---------------------------------------------------------------------------
// Subscribers.

const (
	c16xSubHash     = "hash"
	c16xSubAllStart = "all-start"
	c16xSubAllMid   = "all-mid"
)

type c16xSub struct {
	kind       string
	h          lntypes.Hash // hash subscribers
	sub        ControlTowerSubscriber
	closeAfter int
	tSub       int64 // logical time at which the subscribe call had returned

	// Set by the main goroutine once the tower is quiescent.
	towerClosed bool   // the tower had closed the incoming queue channel
	probed      bool   // towerClosed is meaningful
	endErr      string // the end marker could not be queued

	// Written by the reader goroutine, read after <-done.
	events       []*paymentsdb.MPPayment
	closed       bool // Updates() was closed
	clientClosed bool // the reader called Close()
	sawMarker    bool
	bad          string

	stop chan struct{}
	done chan struct{}
}

func (s *c16xSub) read() {
	defer close(s.done)
	for {
		select {
		case it, ok := <-s.sub.Updates():
			if !ok {
				s.closed = true
				return
			}
			if _, isMarker := it.(c16xMarker); isMarker {
				s.sawMarker = true
				return
			}
			p, isPay := it.(*paymentsdb.MPPayment)
			if !isPay || p == nil || p.Info == nil {
				s.bad = fmt.Sprintf("update of type %T", it)
				return
			}
			s.events = append(s.events, p)
			if s.closeAfter > 0 && len(s.events) >= s.closeAfter {
				s.sub.Close()
				s.clientClosed = true
				return
			}

		case <-s.stop:
			return
		}
	}
}

// c16xMarker is queued behind the tower's updates to mark the end of a
// SubscribeAllPayments stream.
type c16xMarker struct{}

// c16xInClosed reports whether the tower has closed the subscriber's incoming
// queue channel, by closing it: closing an already closed channel panics. Only
// called when every tower call has returned (the tower closes the channel
// synchronously inside SubscribePayment / notifySubscribers), so the answer is
// a fact, not a matter of timing. Afterwards the channel is closed in either
// case, i.e. the reader of the stream always terminates.
func c16xInClosed(s *controlTowerSubscriberImpl) (closed bool) {
	defer func() {
		if recover() != nil {
			closed = true
		}
	}()
	close(s.queue.ChanIn())

	return false
}

// c16xQueueMarker appends the end marker to an all-payments subscriber's
// queue (FIFO: it arrives after everything the now quiescent tower has sent).
func c16xQueueMarker(s *controlTowerSubscriberImpl) (bad string) {
	defer func() {
		if x := recover(); x != nil {
			bad = fmt.Sprint(x)
		}
	}()
	select {
	case s.queue.ChanIn() <- c16xMarker{}:
	case <-s.quit: // the client walked away
	}

	return ""
}

// ---------------------------------------------------------------------------
// One run of a plan against one backend.

type c16xRun struct {
	name   string
	plan   *c16xPlan
	tower  *controlTower
	spy    *c16xSpy
	clk    atomic.Int64
	hashes []lntypes.Hash
	idBase uint64

	mu   sync.Mutex
	recs []*c16xRec
	subs []*c16xSub
}

type c16xResult struct {
	violation    string
	inconclusive string
	labels       map[string]bool
	nontrivial   bool
	ops          int
	events       int
	history      []string
}

func (r *c16xRun) ctx(tag string) context.Context {
	return context.WithValue(context.Background(), c16xTagKey{}, tag)
}

func (r *c16xRun) addSub(s *c16xSub) {
	s.stop = make(chan struct{})
	s.done = make(chan struct{})
	r.mu.Lock()
	r.subs = append(r.subs, s)
	r.mu.Unlock()
	go s.read()
}

// exec performs one tower call and records it.
func (r *c16xRun) exec(g int, op c16xOp) *c16xRec {
	h := r.hashes[op.H]
	// Make ids absolute.
	op.Spec.ID += r.idBase
	op.ID += r.idBase
	rec := &c16xRec{Op: op, G: g}

	var attempt *paymentsdb.HTLCAttemptInfo
	if op.Kind == c16xOpRegister {
		attempt = c16xMakeAttempt(h, op.Spec)
	}

	rec.Inv = r.clk.Add(1)
	switch op.Kind {
	case c16xOpInit:
		rec.Err = r.tower.InitPayment(
			r.ctx(c16xTagInit), h, c16xInfo(h, op.Value),
		)
	case c16xOpRegister:
		rec.Err = r.tower.RegisterAttempt(
			r.ctx(c16xTagOther), h, attempt,
		)
	case c16xOpSettle:
		rec.Att, rec.Err = r.tower.SettleAttempt(
			r.ctx(c16xTagOther), h, op.ID, c16xSettleInfo(op.ID),
		)
	case c16xOpFailAttempt:
		rec.Att, rec.Err = r.tower.FailAttempt(
			r.ctx(c16xTagOther), h, op.ID, c16xFailInfo(),
		)
	case c16xOpFailPayment:
		rec.Err = r.tower.FailPayment(
			r.ctx(c16xTagOther), h,
			paymentsdb.FailureReason(op.Reason),
		)
	case c16xOpFetch:
		var p paymentsdb.DBMPPayment
		p, rec.Err = r.tower.FetchPayment(r.ctx(c16xTagFetch), h)
		if rec.Err == nil {
			rec.P, _ = p.(*paymentsdb.MPPayment)
		}
	case c16xOpDeleteFailed:
		rec.Err = r.tower.DeleteFailedAttempts(r.ctx(c16xTagOther), h)
	case c16xOpSubscribe:
		var sub ControlTowerSubscriber
		sub, rec.Err = r.tower.SubscribePayment(h)
		if rec.Err == nil {
			rec.Sub = &c16xSub{kind: c16xSubHash, h: h, sub: sub,
				closeAfter: op.CloseAfter}
		}
	case c16xOpSubscribeAll:
		var sub ControlTowerSubscriber
		sub, rec.Err = r.tower.SubscribeAllPayments()
		if rec.Err == nil {
			rec.Sub = &c16xSub{kind: c16xSubAllMid, sub: sub,
				closeAfter: op.CloseAfter}
		}
	}
	rec.Res = r.clk.Add(1)

	if rec.P != nil {
		rec.View = c16xViewOf(rec.P)
	}
	if rec.Sub != nil {
		rec.Sub.tSub = rec.Res
		r.addSub(rec.Sub)
	}
	r.mu.Lock()
	r.recs = append(r.recs, rec)
	r.mu.Unlock()

	return rec
}

// c16xRefusals are the documented refusals of the property ("refuses to
// re-initiate ...", "admits a new attempt only while ...").
var c16xRefusals = []struct {
	name string
	err  error
}{
	{"ErrValueExceedsAmt", paymentsdb.ErrValueExceedsAmt},
	{"ErrPaymentPendingSettled", paymentsdb.ErrPaymentPendingSettled},
	{"ErrPaymentPendingFailed", paymentsdb.ErrPaymentPendingFailed},
	{"ErrAlreadyPaid", paymentsdb.ErrAlreadyPaid},
	{"ErrPaymentInFlight", paymentsdb.ErrPaymentInFlight},
	{"ErrPaymentExists", paymentsdb.ErrPaymentExists},
	{"ErrPaymentAlreadySucceeded", paymentsdb.ErrPaymentAlreadySucceeded},
	{"ErrPaymentAlreadyFailed", paymentsdb.ErrPaymentAlreadyFailed},
}

func c16xErrName(err error) (string, bool) {
	for _, r := range c16xRefusals {
		if errors.Is(err, r.err) {
			return r.name, true
		}
	}
	others := []struct {
		name string
		err  error
	}{
		{"ErrPaymentNotInitiated", paymentsdb.ErrPaymentNotInitiated},
		{"ErrMPPayment", paymentsdb.ErrMPPayment},
		{"ErrNonMPPayment", paymentsdb.ErrNonMPPayment},
		{"ErrMPPAddrMismatch", paymentsdb.ErrMPPPaymentAddrMismatch},
		{"ErrMPPTotalMismatch", paymentsdb.ErrMPPTotalAmountMismatch},
		{"ErrValueMismatch", paymentsdb.ErrValueMismatch},
		{"ErrAttemptAlreadySettled", paymentsdb.ErrAttemptAlreadySettled},
		{"ErrAttemptAlreadyFailed", paymentsdb.ErrAttemptAlreadyFailed},
	}
	for _, r := range others {
		if errors.Is(err, r.err) {
			return r.name, false
		}
	}

	return "other-error", false
}

var c16xSerialCheck = vstats.EnvInt("VERIF_C16_TOWER_SERIAL_CHECK", 1) != 0

const (
	c16xJoinDeadline = 120 * time.Second
	c16xReadDeadline = 30 * time.Second
)

// c16xRunPlan executes the plan on one (purged) store and judges it.
func c16xRunPlan(plan *c16xPlan, db paymentsdb.DB, name string) *c16xResult {
	res := &c16xResult{labels: make(map[string]bool)}
	r := &c16xRun{name: name, plan: plan}
	for range plan.Values {
		r.hashes = append(r.hashes, c16xFreshHash())
	}
	// Absolute attempt ids: a block of 32 per case from the process-wide
	// sequencer.
	r.idBase = c16xFreshID()
	for i := 0; i < 31; i++ {
		c16xFreshID()
	}
	logs := make(map[lntypes.Hash]*c16xHashLog)
	for _, h := range r.hashes {
		logs[h] = &c16xHashLog{}
	}
	r.spy = &c16xSpy{DB: db, clk: &r.clk, logs: logs, yields: plan.Yields}
	r.tower = NewControlTower(r.spy).(*controlTower)

	fail := func(format string, a ...any) *c16xResult {
		res.violation = fmt.Sprintf("[%s] ", name) +
			fmt.Sprintf(format, a...)
		return res
	}

	// cleanup stops every reader and every queue goroutine. Only called
	// when no writer is running any more.
	cleaned := false
	cleanup := func() {
		if cleaned {
			return
		}
		cleaned = true
		for _, s := range r.subs {
			close(s.stop)
			<-s.done
			if !s.clientClosed {
				s.sub.Close()
			}
		}
	}

	// Subscribers to all payments that exist before any payment does.
	for _, ca := range plan.StartAll {
		sub, err := r.tower.SubscribeAllPayments()
		if err != nil {
			cleanup()
			if c16xBusy(err) {
				res.inconclusive = "sqlite busy"
				return res
			}
			return fail("SubscribeAllPayments: %v", err)
		}
		s := &c16xSub{kind: c16xSubAllStart, sub: sub, closeAfter: ca}
		s.tSub = r.clk.Add(1)
		r.addSub(s)
	}

	// Writers.
	var (
		nW     = len(plan.Writers)
		wg     sync.WaitGroup
		start  = make(chan struct{})
		panics = make([]string, nW)
	)
	for w := range plan.Writers {
		wg.Add(1)
		go func(w int) {
			defer wg.Done()
			defer func() {
				if x := recover(); x != nil {
					panics[w] = fmt.Sprint(x)
				}
			}()
			<-start
			for _, op := range plan.Writers[w] {
				r.exec(w, op)
			}
		}(w)
	}
	close(start)
	joined := make(chan struct{})
	go func() { wg.Wait(); close(joined) }()
	select {
	case <-joined:
	case <-time.After(c16xJoinDeadline):
		// Goroutines are stuck inside the tower / store; nothing can be
		// cleaned up. Wall-clock deadline: inconclusive.
		res.inconclusive = "writers did not return within the deadline"
		return res
	}
	defer cleanup()

	for w, p := range panics {
		if p != "" {
			return fail("writer %d panicked inside the control "+
				"tower: %s\n%s", w, p, r.render())
		}
	}

	// Endgame (main goroutine, g = nW): drive every payment to a terminal
	// state through the tower, so that every SubscribePayment stream must
	// have been ended by the tower. No waiting involved.
	endPanic := func() (msg string) {
		defer func() {
			if x := recover(); x != nil {
				msg = fmt.Sprint(x)
			}
		}()
		for hi := range r.hashes {
			f := r.exec(nW, c16xOp{Kind: c16xOpFetch, H: hi})
			if f.Err != nil {
				continue
			}
			for _, a := range f.P.InFlightHTLCs() {
				r.exec(nW, c16xOp{Kind: c16xOpFailAttempt, H: hi,
					ID: a.AttemptID - r.idBase})
			}
			f = r.exec(nW, c16xOp{Kind: c16xOpFetch, H: hi})
			if f.Err == nil && !f.P.Terminated() {
				r.exec(nW, c16xOp{Kind: c16xOpFailPayment, H: hi,
					Reason: int(paymentsdb.FailureReasonError)})
			}
			r.exec(nW, c16xOp{Kind: c16xOpFetch, H: hi})
		}

		return ""
	}()
	if endPanic != "" {
		return fail("the control tower panicked: %s\n%s", endPanic,
			r.render())
	}

	// sqlite lock contention makes the case inconclusive.
	for _, rec := range r.recs {
		if c16xBusy(rec.Err) {
			res.inconclusive = "sqlite busy"
			return res
		}
	}

	// Every tower call has returned: whatever the tower sends or closes
	// it has sent or closed by now (it does both synchronously). Establish
	// for every SubscribePayment stream whether the tower closed it, and
	// mark the end of every SubscribeAllPayments stream. After this every
	// reader terminates on its own.
	for _, s := range r.subs {
		impl, ok := s.sub.(*controlTowerSubscriberImpl)
		if !ok {
			continue
		}
		if s.kind != c16xSubHash {
			s.endErr = c16xQueueMarker(impl)
			continue
		}
		select {
		case <-impl.quit: // the client walked away
		default:
			s.towerClosed = c16xInClosed(impl)
			s.probed = true
		}
	}

	// Wait for the readers; only their queue goroutines have to be
	// scheduled for that. The deadline is a safety net (inconclusive).
	var stuck []*c16xSub
	deadline := time.NewTimer(c16xReadDeadline)
	defer deadline.Stop()
	expired := false
	for _, s := range r.subs {
		if expired {
			select {
			case <-s.done:
			default:
				stuck = append(stuck, s)
			}
			continue
		}
		select {
		case <-s.done:
		case <-deadline.C:
			expired = true
			stuck = append(stuck, s)
		}
	}
	cleanup()

	return r.judge(res, stuck)
}

func (r *c16xRun) render() string {
	recs := append([]*c16xRec(nil), r.recs...)
	sort.Slice(recs, func(i, j int) bool { return recs[i].Inv < recs[j].Inv })
	var sb strings.Builder
	for _, rec := range recs {
		fmt.Fprintf(&sb, "  %s\n", rec)
	}

	return sb.String()
}

func (r *c16xRun) renderLog(h lntypes.Hash) string {
	var sb strings.Builder
	for _, e := range r.spy.logs[h].entries {
		fmt.Fprintf(&sb, "    t=%d..%d %s -> %v\n", e.Enter, e.Exit,
			e.Kind, e.View)
	}

	return sb.String()
}

func c16xRenderEvents(ev []*paymentsdb.MPPayment) string {
	var sb strings.Builder
	for i, p := range ev {
		fmt.Fprintf(&sb, "    #%d %v\n", i, c16xViewOf(p))
	}

	return sb.String()
}

// judge evaluates all oracles on a finished, cleaned-up run.
func (r *c16xRun) judge(res *c16xResult, stuck []*c16xSub) *c16xResult {
	fail := func(format string, a ...any) *c16xResult {
		res.violation = fmt.Sprintf("[%s] ", r.name) +
			fmt.Sprintf(format, a...) + "\nall calls:\n" + r.render()
		return res
	}
	isStuck := make(map[*c16xSub]bool)
	for _, s := range stuck {
		isStuck[s] = true
	}
	hidx := make(map[lntypes.Hash]int)
	for i, h := range r.hashes {
		hidx[h] = i
	}
	nW := len(r.plan.Writers)

	// Evidence.
	res.ops = len(r.recs)
	refused := false
	for _, rec := range r.recs {
		if rec.G >= nW {
			continue
		}
		l := c16xOpNames[rec.Op.Kind] + ":ok"
		if rec.Err != nil {
			n, documented := c16xErrName(rec.Err)
			l = c16xOpNames[rec.Op.Kind] + ":" + n
			refused = refused || documented
		}
		res.labels[l] = true
	}
	overlap := false
	for i, a := range r.recs {
		for _, b := range r.recs[i+1:] {
			if a.G != b.G && a.Op.H == b.Op.H &&
				a.Op.Kind != c16xOpSubscribeAll &&
				b.Op.Kind != c16xOpSubscribeAll &&
				a.Inv < b.Res && b.Inv < a.Res {

				overlap = true
			}
		}
	}
	if overlap {
		res.labels["overlap:same-hash"] = true
	} else {
		res.labels["overlap:none"] = true
	}
	res.nontrivial = overlap && refused
	res.labels[fmt.Sprintf("writers=%d", nW)] = true
	res.labels[fmt.Sprintf("hashes=%d", len(r.hashes))] = true
	for _, s := range r.subs {
		res.labels["sub:"+s.kind] = true
		res.events += len(s.events)
		if s.clientClosed {
			res.labels["sub:client-closed"] = true
		}
	}

	// (c) serialisation. (VERIF_C16_TOWER_SERIAL_CHECK=0 switches it off
	// to measure what the other oracles see of a missing lock.)
	for i, h := range r.hashes {
		if ov := r.spy.logs[h].overlap; len(ov) > 0 && c16xSerialCheck {
			return fail("the control tower did not serialise calls "+
				"for payment hash h%d: %s\n  store log of h%d:\n%s",
				i, ov[0], i, r.renderLog(h))
		}
	}

	// Subscriptions must succeed on known payments; every stream must
	// carry well-formed updates.
	for _, s := range r.subs {
		if s.bad != "" {
			return fail("subscriber (%s) received an %s", s.kind, s.bad)
		}
	}

	// (b) invariants on everything handed out.
	for _, rec := range r.recs {
		if rec.P == nil {
			continue
		}
		if err := c16xCheckPayment(rec.P); err != nil {
			return fail("FetchPayment handed out an inconsistent "+
				"payment: %v\n  %s", err, rec)
		}
	}
	for _, s := range r.subs {
		for i, p := range s.events {
			if err := c16xCheckPayment(p); err != nil {
				return fail("subscriber (%s) was notified of an "+
					"inconsistent payment (update #%d): %v: %v",
					s.kind, i, err, c16xViewOf(p))
			}
		}
	}
	for i, h := range r.hashes {
		if why := r.checkLog(i, h); why != "" {
			return fail("%s\n  store log of h%d:\n%s", why, i,
				r.renderLog(h))
		}
	}

	// (d) subscriber streams.
	inconclusive := ""
	for _, s := range r.subs {
		why, inc := r.checkStream(s, isStuck[s], hidx)
		if why != "" {
			hs := ""
			if s.kind == c16xSubHash {
				hs = fmt.Sprintf(" of h%d\n  store log:\n%s",
					hidx[s.h], r.renderLog(s.h))
			}
			return fail("subscriber (%s, subscribed by t=%d)%s\n  "+
				"received:\n%s  %s", s.kind, s.tSub, hs,
				c16xRenderEvents(s.events), why)
		}
		if inc != "" {
			inconclusive = inc
		}
	}
	if inconclusive != "" {
		res.inconclusive = inconclusive
		return res
	}

	// The first update of a subscription is its response in the history.
	for _, rec := range r.recs {
		if rec.Op.Kind == c16xOpSubscribe && rec.Sub != nil {
			rec.View = c16xViewOf(rec.Sub.events[0])
		}
		if rec.Op.Kind == c16xOpSubscribeAll && rec.Err != nil {
			return fail("SubscribeAllPayments failed: %v", rec.Err)
		}
	}

	// (a) linearizability, per payment hash.
	for i := range r.hashes {
		var recs []*c16xRec
		for _, rec := range r.recs {
			if rec.Op.H == i && rec.Op.Kind != c16xOpSubscribeAll {
				recs = append(recs, rec)
			}
		}
		if len(recs) > 64 {
			res.labels["linearizability:skipped>64"] = true
			continue
		}
		if ok, why := c16xLinearizable(recs); !ok {
			return fail("the answers for payment hash h%d cannot be "+
				"explained by any sequential order of the calls "+
				"that respects real-time precedence:\n%s", i, why)
		}
	}

	// After every payment reached a terminal state no subscriber may be
	// left registered ("the subscriber list can be cleared").
	r.tower.subscribersMtx.Lock()
	left := 0
	for _, h := range r.hashes {
		left += len(r.tower.subscribers[h])
	}
	r.tower.subscribersMtx.Unlock()
	if left != 0 {
		return fail("%d subscriber(s) still registered although every "+
			"payment is terminal", left)
	}

	// Final-state labels.
	for _, h := range r.hashes {
		es := r.spy.logs[h].entries
		if len(es) == 0 {
			res.labels["final:never-initiated"] = true
			continue
		}
		switch es[len(es)-1].View.Status {
		case paymentsdb.StatusSucceeded:
			res.labels["final:succeeded"] = true
		case paymentsdb.StatusFailed:
			res.labels["final:failed"] = true
		}
		if len(r.spy.logs[h].inits) > 1 {
			res.labels["reinit"] = true
		}
	}
	if len(res.history) == 0 {
		for _, l := range strings.Split(strings.TrimSpace(r.render()),
			"\n") {

			res.history = append(res.history, strings.TrimSpace(l))
		}
	}

	return res
}

// checkLog: model-independent history invariants on the ordered log of what
// the store answered inside the tower's critical section for one hash, plus
// the fetches made through the tower.
func (r *c16xRun) checkLog(hi int, h lntypes.Hash) string {
	l := r.spy.logs[h]
	mutating := func(k string) bool {
		return k == c16xEntRegister || k == c16xEntSettle ||
			k == c16xEntFailAttempt
	}
	succAt := int64(-1)
	for i, e := range l.entries {
		if err := c16xCheckPayment(e.P); err != nil {
			return fmt.Sprintf("the store answered %s for h%d with "+
				"an inconsistent payment: %v", e.Kind, hi, err)
		}
		if e.Kind == c16xEntRegister {
			if e.P.FailureReason != nil {
				return fmt.Sprintf("h%d: an attempt was admitted "+
					"although the payment has a failure "+
					"reason: %v", hi, e.View)
			}
			for _, a := range e.View.Atts {
				if a.State == c16xSettled {
					return fmt.Sprintf("h%d: an attempt was "+
						"admitted although attempt %d is "+
						"settled (paid twice): %v", hi, a.ID,
						e.View)
				}
			}
		}
		if e.View.Status == paymentsdb.StatusSucceeded && succAt < 0 {
			succAt = e.Exit
		}
		if i == 0 {
			continue
		}
		prev := l.entries[i-1]
		switch prev.View.Status {
		case paymentsdb.StatusSucceeded:
			if e.View.Status != paymentsdb.StatusSucceeded ||
				mutating(e.Kind) {

				return fmt.Sprintf("h%d: payment was Succeeded "+
					"(t=%d) and then %s answered %v", hi,
					prev.Exit, e.Kind, e.View)
			}

		case paymentsdb.StatusFailed:
			if e.View.Status == paymentsdb.StatusFailed &&
				!mutating(e.Kind) {

				break
			}
			// Left Failed: a successful InitPayment must lie in
			// between.
			ok := false
			for _, s := range l.inits {
				if s.Exit > prev.Enter && s.Enter < e.Exit {
					ok = true
				}
			}
			if !ok {
				return fmt.Sprintf("h%d: payment was Failed "+
					"(t=%d) and then %s answered %v without "+
					"a re-initiation in between", hi,
					prev.Exit, e.Kind, e.View)
			}
		}
	}
	if succAt >= 0 {
		for _, rec := range r.recs {
			if rec.Op.H == hi && rec.P != nil && rec.Inv > succAt &&
				rec.P.Status != paymentsdb.StatusSucceeded {

				return fmt.Sprintf("h%d: payment was Succeeded at "+
					"t=%d, a later fetch says: %s", hi, succAt,
					rec)
			}
		}
	}

	return ""
}

// checkStream judges what one subscriber received. It returns a violation, or
// a reason why the stream cannot be judged (wall-clock deadline).
func (r *c16xRun) checkStream(s *c16xSub, stuck bool,
	hidx map[lntypes.Hash]int) (string, string) {

	if s.kind == c16xSubHash {
		l := r.spy.logs[s.h]
		if len(s.events) == 0 {
			if stuck {
				return "", "first update not seen within the deadline"
			}

			return "stream ended without the first update " +
				"(\"A first update with the current state of " +
				"the payment is always sent out immediately\")", ""
		}
		// Locate the subscription in the store log: its first update
		// is the payment fetched inside the critical section.
		at := -1
		for i, e := range l.entries {
			if e.Kind == c16xEntSubFetch && e.P == s.events[0] {
				at = i
			}
		}
		if at < 0 {
			// Would only happen if the tower copied the payment
			// before sending it: the subscription cannot be located
			// in the store log, the stream is not judged (counted).
			return "", "first update is not the fetched payment object"
		}
		want := []c16xEntry{l.entries[at]}
		if !l.entries[at].Term {
			for _, e := range l.entries[at+1:] {
				if e.Kind == c16xEntSubFetch {
					continue
				}
				want = append(want, e)
				if e.Term {
					break
				}
			}
		}
		describe := func() string {
			var sb strings.Builder
			sb.WriteString("expected (store answers inside the " +
				"tower's critical section from the " +
				"subscription on):\n")
			for i, e := range want {
				fmt.Fprintf(&sb, "    #%d t=%d %s %v\n", i, e.Exit,
					e.Kind, e.View)
			}

			return sb.String()
		}
		for i, p := range s.events {
			if i >= len(want) {
				return fmt.Sprintf("received %d updates, only %d "+
					"were due (duplicate / update after the "+
					"terminal one); %s", len(s.events),
					len(want), describe()), ""
			}
			if !c16xViewsEqual(c16xViewOf(p), want[i].View) {
				return fmt.Sprintf("update #%d differs (missing, "+
					"duplicated or out-of-order update); %s", i,
					describe()), ""
			}
		}
		switch {
		case s.clientClosed:
			// A prefix is all that can be asked.
			return "", ""

		case !s.closed:
			// The incoming channel is closed (by the tower or by the
			// probe), the queue goroutine was not scheduled in time.
			return "", "stream not finished within the deadline"
		}
		if len(s.events) != len(want) {
			return fmt.Sprintf("only %d updates were delivered, %d "+
				"were due; %s", len(s.events), len(want),
				describe()), ""
		}
		last := want[len(want)-1].Term
		switch {
		case !s.probed:
			return "", ""

		case last && !s.towerClosed:
			return "the terminal update was delivered but the tower " +
				"never closed the stream (\"The channel will be " +
				"closed after this\"); " + describe(), ""

		case !last && s.towerClosed:
			return "the tower closed the stream although the last " +
				"update is not terminal; " + describe(), ""
		}

		return "", ""
	}

	// Subscribers to all payments.
	per := make(map[lntypes.Hash][]*paymentsdb.MPPayment)
	for _, p := range s.events {
		per[p.Info.PaymentIdentifier] = append(
			per[p.Info.PaymentIdentifier], p,
		)
	}
	if s.endErr != "" {
		return "a SubscribeAllPayments stream was closed by the tower (" +
			s.endErr + ")", ""
	}
	if !s.clientClosed && !s.sawMarker {
		if s.closed {
			return "a SubscribeAllPayments stream was closed by " +
				"the tower", ""
		}

		return "", "all-payments stream not finished within the deadline"
	}
	for hi, h := range r.hashes {
		var want []c16xEntry
		for _, e := range r.spy.logs[h].entries {
			if e.Kind == c16xEntSubFetch {
				continue
			}
			if s.kind == c16xSubAllMid && e.Enter < s.tSub {
				continue
			}
			want = append(want, e)
		}
		got := per[h]
		describe := func() string {
			var sb strings.Builder
			fmt.Fprintf(&sb, "due for h%d:\n", hi)
			for i, e := range want {
				fmt.Fprintf(&sb, "    #%d t=%d %s %v\n", i, e.Exit,
					e.Kind, e.View)
			}
			fmt.Fprintf(&sb, "  received for h%d:\n%s", hi,
				c16xRenderEvents(got))

			return sb.String()
		}
		switch {
		// Present from the start: exactly the store's answers, in
		// order (a prefix if the client walked away).
		case s.kind == c16xSubAllStart:
			if len(got) > len(want) || (!s.clientClosed &&
				len(got) != len(want)) {

				return fmt.Sprintf("%d updates for h%d, %d were "+
					"due; %s", len(got), hi, len(want),
					describe()), ""
			}
			for i, p := range got {
				if !c16xViewsEqual(c16xViewOf(p), want[i].View) {
					return fmt.Sprintf("update #%d for h%d "+
						"differs (missing, duplicated or "+
						"out-of-order update); %s", i, hi,
						describe()), ""
				}
			}

		// Subscribed later: everything that entered the store after
		// the subscription returned must arrive, in order; the start
		// of the stream may hold more (documented).
		case !s.clientClosed:
			j := 0
			for _, p := range got {
				if j < len(want) &&
					c16xViewsEqual(c16xViewOf(p), want[j].View) {

					j++
				}
			}
			if j != len(want) {
				return fmt.Sprintf("update #%d due for h%d after "+
					"the subscription is missing or out of "+
					"order; %s", j, hi, describe()), ""
			}
		}
	}

	return "", ""
}

// TestVerifC16ControlTower: see the file comment.
func TestVerifC16ControlTower(t *testing.T) {
	st := vstats.New("TestVerifC16ControlTower")
	defer st.Flush()

	stores := c16xNewStores(t)
	maxOps := vstats.EnvInt("VERIF_C16_TOWER_OPS", 10)
	if maxOps > 12 {
		maxOps = 12 // <= 64 calls per hash for the checker
	}
	// 0: both backends, 1: kv only, 2: sql only.
	only := vstats.EnvInt("VERIF_C16_TOWER_BACKEND", 0)

	rapid.Check(t, func(t *rapid.T) {
		plan := c16xGenPlan(t, maxOps)
		fp := plan.fingerprint()

		skip := ""
		for b, db := range stores.both {
			if only != 0 && only != b+1 {
				continue
			}
			if err := c16xPurge(db); err != nil {
				t.Fatalf("%s: cannot empty the store between "+
					"cases: %v", c16xNames[b], err)
			}
			res := c16xRunPlan(plan, db, c16xNames[b])
			if res.violation != "" {
				t.Fatalf("C16 violated (control tower, %d writers "+
					"on shared payment hashes): %s",
					len(plan.Writers), res.violation)
			}
			if res.inconclusive != "" {
				st.Count("inconclusive", 1)
				st.Count("inconclusive:"+res.inconclusive, 1)
				skip = res.inconclusive
				continue
			}
			labels := []string{"backend:" + c16xNames[b]}
			for l := range res.labels {
				labels = append(labels, l)
			}
			sort.Strings(labels)
			var sample any
			if res.nontrivial && st.WantSample() {
				sample = map[string]any{
					"backend": c16xNames[b],
					"history": res.history,
				}
			}
			st.Case(vstats.FP(c16xNames[b], fp), res.nontrivial,
				labels, sample)
			st.Count("calls", int64(res.ops))
			st.Count("subscriber_updates", int64(res.events))
		}
		if skip != "" {
			t.Skip(skip)
		}
	})
}
