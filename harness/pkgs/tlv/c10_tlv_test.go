//go:build verif

package tlv

// C10 part 4 (TLV exactness): a stream is accepted by the p2p decoder exactly
// when the independent reference parser (internal/verif/c10ref: BigSize
// minimality, strictly increasing types, lengths within the remaining bytes and
// <= 65535) accepts it and every record of a type known to the stream has a
// value its codec admits; on acceptance re-encoding the decoded known records
// plus the passed-through unknown records reproduces the input byte for byte.
// Also: ReadVarInt/WriteVarInt and the truncated-integer codecs against the
// reference, and the allocation bound of the p2p decoder.

import (
	"bytes"
	"encoding/binary"
	"fmt"
	"math"
	"math/big"
	"runtime"
	"runtime/metrics"
	"sort"
	"testing"

	"github.com/btcsuite/btcd/btcec/v2"
	"github.com/lightningnetwork/lnd/internal/verif/c10ref"
	"github.com/lightningnetwork/lnd/internal/verif/vstats"
	"pgregory.net/rapid"
)

// Known-finding keys (see notes/C10.md).
const (
	// c10KeyBigSizeLen: DBigSize ignores the record length, so a known
	// BigSize record whose length differs from the width of the BigSize at
	// its start desynchronises the stream instead of being rejected.
	c10KeyBigSizeLen = "C10:tlv-bigsize-record-length-ignored"

	// c10KeyBig32: DBigSize into a *uint32 silently truncates values above
	// 2^32-1 instead of rejecting them.
	c10KeyBig32 = "C10:tlv-bigsize-uint32-truncates"

	// c10KeyHugeLen: the non-p2p Decode treats a declared length >= 2^63
	// of an unknown record as zero (io.CopyN with a negative count).
	c10KeyHugeLen = "C10:tlv-decode-length-ge-2^63-accepted"
)

// c10Known: the key is listed with status "known" in known_findings.json. Every
// guard has the shape `if c10Known(key) {exclude + count} else {assert}`, so a
// fix in /repo (status "fixed") re-enables the class.
func c10Known(key string) bool {
	return vstats.IsKnown(key)
}

type c10Kind int

const (
	c10U8 c10Kind = iota
	c10U16
	c10U32
	c10U64
	c10Bool
	c10B32
	c10B33
	c10B64
	c10Pub
	c10Var
	c10T16
	c10T32
	c10T64
	c10Big64
	c10Big32
	c10NumKinds
)

var c10KindName = [...]string{"u8", "u16", "u32", "u64", "bool", "b32", "b33",
	"b64", "pubkey", "varbytes", "tu16", "tu32", "tu64", "bigsize64",
	"bigsize32"}

// c10Holder returns a fresh zero value to decode into.
func c10Holder(k c10Kind) any {
	switch k {
	case c10U8:
		return new(uint8)
	case c10U16, c10T16:
		return new(uint16)
	case c10U32, c10T32, c10Big32:
		return new(uint32)
	case c10U64, c10T64, c10Big64:
		return new(uint64)
	case c10Bool:
		return new(bool)
	case c10B32:
		return new([32]byte)
	case c10B33:
		return new([33]byte)
	case c10B64:
		return new([64]byte)
	case c10Pub:
		return new(*btcec.PublicKey)
	case c10Var:
		return new([]byte)
	}
	panic("kind")
}

// c10Record builds the lnd record for (typ, kind) around hold. It is called
// afresh before encoding, as lnd's RecordProducers do (the BigSize size
// function captures the value at construction time).
func c10Record(typ uint64, k c10Kind, hold any) Record {
	switch k {
	case c10T16:
		h := hold.(*uint16)
		return MakeDynamicRecord(Type(typ), h, func() uint64 {
			return SizeTUint16(*h)
		}, ETUint16, DTUint16)

	case c10T32:
		h := hold.(*uint32)
		return MakeDynamicRecord(Type(typ), h, func() uint64 {
			return SizeTUint32(*h)
		}, ETUint32, DTUint32)

	case c10T64:
		h := hold.(*uint64)
		return MakeDynamicRecord(Type(typ), h, func() uint64 {
			return SizeTUint64(*h)
		}, ETUint64, DTUint64)

	case c10Big64:
		return MakeBigSizeRecord(Type(typ), hold.(*uint64))

	case c10Big32:
		return MakeBigSizeRecord(Type(typ), hold.(*uint32))
	}

	return MakePrimitiveRecord(Type(typ), hold)
}

var (
	// p = 2^256 - 2^32 - 977
	c10P = func() *big.Int {
		p := new(big.Int).Lsh(big.NewInt(1), 256)
		p.Sub(p, new(big.Int).Lsh(big.NewInt(1), 32))

		return p.Sub(p, big.NewInt(977))
	}()
	c10PHalf = new(big.Int).Rsh(new(big.Int).Sub(c10P, big.NewInt(1)), 1)
)

// c10ValidPoint is an independent check that b is a compressed secp256k1
// point: prefix 02/03, x < p and x^3+7 a quadratic residue mod p.
func c10ValidPoint(b []byte) bool {
	if len(b) != 33 || (b[0] != 2 && b[0] != 3) {
		return false
	}
	x := new(big.Int).SetBytes(b[1:])
	if x.Cmp(c10P) >= 0 {
		return false
	}
	y2 := new(big.Int).Exp(x, big.NewInt(3), c10P)
	y2.Add(y2, big.NewInt(7)).Mod(y2, c10P)
	if y2.Sign() == 0 {
		return true
	}

	return new(big.Int).Exp(y2, c10PHalf, c10P).Cmp(big.NewInt(1)) == 0
}

// c10CodecOK is the reference's verdict on a known record's value; the second
// result is true when the only objection is the BigSize length laxness.
func c10CodecOK(k c10Kind, v []byte) (ok bool, bigSizeLenOnly bool) {
	switch k {
	case c10U8:
		return len(v) == 1, false
	case c10U16:
		return len(v) == 2, false
	case c10U32:
		return len(v) == 4, false
	case c10U64:
		return len(v) == 8, false
	case c10Bool:
		return len(v) == 1 && v[0] <= 1, false
	case c10B32:
		return len(v) == 32, false
	case c10B33:
		return len(v) == 33, false
	case c10B64:
		return len(v) == 64, false
	case c10Pub:
		return c10ValidPoint(v), false
	case c10Var:
		return true, false
	case c10T16:
		return c10ref.MinimalUint(v, 2), false
	case c10T32:
		return c10ref.MinimalUint(v, 4), false
	case c10T64:
		return c10ref.MinimalUint(v, 8), false
	case c10Big64, c10Big32:
		val, n, why := c10ref.ReadBigSize(v)
		if why != c10ref.OK {
			return false, false
		}
		if k == c10Big32 && val > math.MaxUint32 {
			return false, false
		}
		if n != len(v) {
			return false, true
		}

		return true, false
	}
	panic("kind")
}

var c10TypePool = []uint64{0, 1, 2, 3, 4, 5, 6, 7, 8, 9, 10, 11, 12, 0xfc, 0xfd,
	0xfe, 0xff, 0x100, 0xffff, 0x10000, 0x10001, 0xffffffff, 0x100000000,
	0x100000001, math.MaxUint64 - 1, math.MaxUint64}

func c10DrawType(t *rapid.T, label string) uint64 {
	if rapid.IntRange(0, 9).Draw(t, label+"Pool") < 8 {
		return rapid.SampledFrom(c10TypePool).Draw(t, label)
	}

	return rapid.Uint64().Draw(t, label)
}

// c10Bytes draws n bytes; long slices are a drawn 32-byte block repeated
// (drawing 64 KiB byte by byte costs milliseconds).
func c10Bytes(t *rapid.T, n int, label string) []byte {
	if n <= 128 {
		return rapid.SliceOfN(rapid.Byte(), n, n).Draw(t, label)
	}
	blk := rapid.SliceOfN(rapid.Byte(), 32, 32).Draw(t, label)
	out := make([]byte, n)
	for i := range out {
		out[i] = blk[i%32] + byte(i/32)
	}

	return out
}

// c10GenValue draws a value for a record of kind k: valid for the codec, or
// (bad) deliberately off.
func c10GenValue(t *rapid.T, k c10Kind, bad bool) []byte {
	fixed := map[c10Kind]int{c10U8: 1, c10U16: 2, c10U32: 4, c10U64: 8,
		c10Bool: 1, c10B32: 32, c10B33: 33, c10B64: 64, c10Pub: 33}
	if n, ok := fixed[k]; ok {
		var v []byte
		switch k {
		case c10Bool:
			v = []byte{byte(rapid.IntRange(0, 1).Draw(t, "bool"))}
		case c10Pub:
			sk := c10Bytes(t, 32, "sk")
			_, pub := btcec.PrivKeyFromBytes(sk)
			v = pub.SerializeCompressed()
		default:
			v = c10Bytes(t, n, "fixed")
		}
		if !bad {
			return v
		}
		switch rapid.IntRange(0, 3).Draw(t, "badFixed") {
		case 0:
			return v[:len(v)-1]
		case 1:
			return append(v, byte(rapid.IntRange(0, 255).Draw(t, "x")))
		case 2:
			if k == c10Bool {
				return []byte{byte(rapid.IntRange(2, 255).Draw(t,
					"badBool"))}
			}
			if k == c10Pub {
				v[0] = byte(rapid.SampledFrom([]int{0, 1, 4, 5, 6,
					7}).Draw(t, "pfx"))

				return v
			}

			return nil
		default:
			if k == c10Pub {
				// random x: about half are not on the curve.
				copy(v[1:], c10Bytes(t, 32, "x"))

				return v
			}

			return c10Bytes(t, rapid.IntRange(0, 70).Draw(t, "anyLen"),
				"any")
		}
	}

	switch k {
	case c10Var:
		n := rapid.SampledFrom([]int{0, 1, 2, 7, 32, 252, 253, 254, 300,
			1000}).Draw(t, "varLen")

		return c10Bytes(t, n, "var")

	case c10T16, c10T32, c10T64:
		max := map[c10Kind]int{c10T16: 2, c10T32: 4, c10T64: 8}[k]
		n := rapid.IntRange(0, max).Draw(t, "tlen")
		v := c10Bytes(t, n, "tu")
		if n > 0 && v[0] == 0 {
			v[0] = 1
		}
		if !bad {
			return v
		}
		switch rapid.IntRange(0, 2).Draw(t, "badTu") {
		case 0: // leading zero
			return append([]byte{0}, v...)
		case 1: // too long
			return append(v, c10Bytes(t, max+1-n, "more")...)
		default:
			return make([]byte, rapid.IntRange(1, max).Draw(t, "z"))
		}

	case c10Big64, c10Big32:
		val := rapid.SampledFrom([]uint64{0, 1, 0xfc, 0xfd, 0xfe, 0xffff,
			0x10000, 0xffffffff, 0x100000000, math.MaxUint64,
		}).Draw(t, "bigVal")
		if rapid.Bool().Draw(t, "bigRand") {
			val = rapid.Uint64().Draw(t, "bigAny")
		}
		if k == c10Big32 && !bad {
			val &= math.MaxUint32
		}
		if !bad {
			return c10ref.AppendBigSize(nil, val)
		}
		if k == c10Big32 && rapid.IntRange(0, 3).Draw(t, "over32") == 0 {
			// exact width, but the value does not fit 32 bits
			return c10ref.AppendBigSize(nil, val|1<<uint(
				rapid.IntRange(32, 63).Draw(t, "hiBit")))
		}
		switch rapid.IntRange(0, 2).Draw(t, "badBig") {
		case 0: // trailing bytes after the BigSize
			v := c10ref.AppendBigSize(nil, val)
			extra := rapid.IntRange(1, 4).Draw(t, "extra")
			if rapid.Bool().Draw(t, "extraRec") {
				// bytes that look like a further empty record
				return append(v, byte(rapid.IntRange(0, 252).Draw(t,
					"xt")), 0)
			}

			return append(v, c10Bytes(t, extra, "xb")...)
		case 1: // non-minimal
			w := c10ref.BigSizeLen(val)
			wider := []int{}
			for _, c := range []int{3, 5, 9} {
				if c > w {
					wider = append(wider, c)
				}
			}
			if len(wider) == 0 {
				return []byte{0xfd, 0, 1}
			}

			return c10ref.AppendBigSizeWidth(nil, val,
				rapid.SampledFrom(wider).Draw(t, "w"))
		default: // cut
			v := c10ref.AppendBigSize(nil, val)
			return v[:len(v)-1]
		}
	}
	panic("kind")
}

type c10KnownRec struct {
	typ  uint64
	kind c10Kind
}

type c10Stream struct {
	known   []c10KnownRec
	data    []byte
	faults  []string
	maxDecl uint64 // largest length any header declares
	huge    bool   // a declared length >= 2^63 is present
}

var c10HostileLens = []uint64{0, 1, 0xfc, 0xfd, 0xffff, 0x10000, 0x10001,
	0xffffffff, 0x100000000, 1 << 62, 1 << 63, 1<<63 + 1, math.MaxUint64}

// c10GenStream draws a known-record set and a byte stream aimed at it.
func c10GenStream(t *rapid.T) c10Stream {
	var s c10Stream

	nKnown := rapid.IntRange(0, 6).Draw(t, "nKnown")
	seen := map[uint64]bool{}
	for i := 0; i < nKnown; i++ {
		typ := c10DrawType(t, "knownType")
		if seen[typ] {
			continue
		}
		seen[typ] = true
		s.known = append(s.known, c10KnownRec{typ: typ, kind: c10Kind(
			rapid.IntRange(0, int(c10NumKinds)-1).Draw(t, "kind"))})
	}
	sort.Slice(s.known, func(i, j int) bool {
		return s.known[i].typ < s.known[j].typ
	})
	kindOf := map[uint64]c10Kind{}
	for _, k := range s.known {
		kindOf[k.typ] = k.kind
	}

	if rapid.IntRange(0, 19).Draw(t, "raw") == 0 {
		n := rapid.IntRange(0, 40).Draw(t, "rawLen")
		s.data = c10Bytes(t, n, "rawBytes")
		s.faults = append(s.faults, "raw")
		s.maxDecl = c10DeclaredMax(s.data)
		s.huge = s.maxDecl >= 1<<63

		return s
	}

	type item struct {
		typ uint64
		val []byte
	}
	nItems := rapid.IntRange(0, 8).Draw(t, "nItems")
	var items []item
	for i := 0; i < nItems; i++ {
		var it item
		if len(s.known) > 0 && rapid.IntRange(0, 9).Draw(t, "useKnown") < 6 {
			k := s.known[rapid.IntRange(0, len(s.known)-1).Draw(t,
				"whichKnown")]
			it.typ = k.typ
			bad := rapid.IntRange(0, 9).Draw(t, "badVal") == 0
			if bad {
				s.faults = append(s.faults, "badvalue:"+
					c10KindName[k.kind])
			}
			it.val = c10GenValue(t, k.kind, bad)
		} else {
			it.typ = c10DrawType(t, "itemType")
			if k, ok := kindOf[it.typ]; ok {
				it.val = c10GenValue(t, k, false)
			} else {
				n := rapid.SampledFrom([]int{0, 0, 1, 2, 5, 33, 252,
					253, 300, 65535, 65536}).Draw(t, "unkLen")
				if n > 1000 && rapid.IntRange(0, 3).Draw(t,
					"bigUnk") != 0 {

					n = 3
				}
				it.val = c10Bytes(t, n, "unk")
			}
		}
		items = append(items, it)
	}

	// Canonical order by default; otherwise as drawn (unsorted, dupes).
	if rapid.IntRange(0, 9).Draw(t, "sorted") < 8 {
		sort.SliceStable(items, func(i, j int) bool {
			return items[i].typ < items[j].typ
		})
		dedup := items[:0]
		for i, it := range items {
			if i > 0 && it.typ == items[i-1].typ {
				continue
			}
			dedup = append(dedup, it)
		}
		items = dedup
	} else {
		s.faults = append(s.faults, "order")
	}

	faultAt := -1
	fault := 0
	if len(items) > 0 && rapid.IntRange(0, 9).Draw(t, "hdrFault") < 3 {
		faultAt = rapid.IntRange(0, len(items)-1).Draw(t, "faultAt")
		fault = rapid.IntRange(1, 3).Draw(t, "fault")
	}
	for i, it := range items {
		typW := c10ref.BigSizeLen(it.typ)
		decl := uint64(len(it.val))
		lenW := c10ref.BigSizeLen(decl)
		if i == faultAt {
			switch fault {
			case 1: // non-minimal type
				if typW < 9 {
					typW = map[int]int{1: 3, 3: 5, 5: 9}[typW]
					if rapid.Bool().Draw(t, "widest") {
						typW = 9
					}
					s.faults = append(s.faults, "nonminimal-type")
				}
			case 2: // non-minimal length
				if lenW < 9 {
					lenW = map[int]int{1: 3, 3: 5, 5: 9}[lenW]
					if rapid.Bool().Draw(t, "widestL") {
						lenW = 9
					}
					s.faults = append(s.faults, "nonminimal-len")
				}
			case 3: // lying length
				switch rapid.IntRange(0, 2).Draw(t, "lie") {
				case 0:
					decl++
				case 1:
					if decl > 0 {
						decl--
					}
				default:
					decl = rapid.SampledFrom(c10HostileLens).Draw(t,
						"hostile")
				}
				lenW = c10ref.BigSizeLen(decl)
				s.faults = append(s.faults, "lying-len")
			}
		}
		if decl > s.maxDecl {
			s.maxDecl = decl
		}
		s.data = c10ref.AppendBigSizeWidth(s.data, it.typ, typW)
		s.data = c10ref.AppendBigSizeWidth(s.data, decl, lenW)
		s.data = append(s.data, it.val...)
	}

	switch rapid.IntRange(0, 19).Draw(t, "tailFault") {
	case 0:
		if len(s.data) > 0 {
			cut := rapid.IntRange(0, len(s.data)-1).Draw(t, "cut")
			s.data = s.data[:cut]
			s.faults = append(s.faults, "truncate")
		}
	case 1:
		g := rapid.SampledFrom([][]byte{{0xfd}, {0xfe, 0}, {0xff},
			{0xfd, 0, 0xfc}, {0}, {1}, {0xff, 0xff, 0xff, 0xff, 0xff,
				0xff, 0xff, 0xff, 0xff},
			{0xff, 0xff, 0xff, 0xff, 0xff, 0xff, 0xff, 0xff, 0xff, 0},
		}).Draw(t, "garbage")
		s.data = append(s.data, g...)
		s.faults = append(s.faults, "trailing")
	}
	// Recompute from the bytes: truncation/garbage may have changed what a
	// decoder sees.
	if m := c10DeclaredMax(s.data); m > s.maxDecl {
		s.maxDecl = m
	}
	s.huge = s.maxDecl >= 1<<63

	return s
}

// c10DeclaredMax walks record headers leniently (any BigSize width) and
// returns the largest declared length a decoder could get to see. It is used
// only to keep hostile lengths away from the trusted-input (non-p2p) API.
func c10DeclaredMax(b []byte) uint64 {
	var max uint64
	rd := func(p []byte) (uint64, int) {
		if len(p) == 0 {
			return 0, 0
		}
		w := 0
		switch p[0] {
		case 0xfd:
			w = 3
		case 0xfe:
			w = 5
		case 0xff:
			w = 9
		default:
			return uint64(p[0]), 1
		}
		if len(p) < w {
			return 0, 0
		}
		var full [8]byte
		copy(full[8-(w-1):], p[1:w])

		return binary.BigEndian.Uint64(full[:]), w
	}
	// Any offset may become a header after a desynchronisation.
	for pos := 0; pos < len(b); pos++ {
		_, n := rd(b[pos:])
		if n == 0 {
			continue
		}
		l, m := rd(b[pos+n:])
		if m == 0 {
			continue
		}
		if l > max {
			max = l
		}
	}

	return max
}

var c10Sample = []metrics.Sample{{Name: "/gc/heap/allocs:bytes"}}

func c10MetricsNow() uint64 {
	metrics.Read(c10Sample)

	return c10Sample[0].Value.Uint64()
}

// c10Measure returns the heap bytes f allocates. The cheap runtime/metrics
// counter (which may attribute earlier small allocations to the window)
// screens; anything above 256 KiB is measured again, exactly, with
// runtime.ReadMemStats (f is deterministic and is simply run once more).
func c10Measure(f func()) uint64 {
	before := c10MetricsNow()
	f()
	d := c10MetricsNow() - before
	if d <= 256<<10 {
		return d
	}
	var ms runtime.MemStats
	runtime.ReadMemStats(&ms)
	exact := ms.TotalAlloc
	f()
	runtime.ReadMemStats(&ms)

	return ms.TotalAlloc - exact
}

// c10AllocCap bounds what one p2p decode of an input of n bytes may allocate:
// every unknown record costs about 3x its length (bytes.Buffer growth), one
// record may be allocated before the stream turns out to be short. Calibrated
// on the unchanged tree (observed max ~0.45 MiB), see notes/C10.md.
func c10AllocCap(n int) uint64 {
	return 2<<20 + 8*uint64(n)
}

type c10Verdict struct {
	accept     bool
	reason     string
	knownBig   bool // rejection hinges only on the BigSize length laxness
	recs       []c10ref.Rec
	nontrivial bool
}

func c10Reference(s c10Stream, p2p bool) c10Verdict {
	recs, why, _ := c10ref.Parse(s.data, p2p)
	v := c10Verdict{recs: recs}
	if why != c10ref.OK {
		v.reason = string(why)
		v.nontrivial = why != c10ref.Truncated

		return v
	}
	kindOf := map[uint64]c10Kind{}
	for _, k := range s.known {
		kindOf[k.typ] = k.kind
	}
	onlyBig := true
	bad := false
	for _, r := range recs {
		k, ok := kindOf[r.Type]
		if !ok {
			continue
		}
		valid, bigLen := c10CodecOK(k, r.Val)
		if !valid {
			bad = true
			v.reason = "codec:" + c10KindName[k]
			if !bigLen {
				onlyBig = false
			}
		}
	}
	if bad {
		v.knownBig = onlyBig
		v.nontrivial = true

		return v
	}
	v.accept = true
	nKnown := 0
	for _, r := range recs {
		if _, ok := kindOf[r.Type]; ok {
			nKnown++
		}
	}
	v.nontrivial = len(recs) >= 2 && nKnown >= 1

	return v
}

// c10HasLaxBigSize reports whether any known BigSize record could make lnd's
// decoder consume fewer bytes than the record's length (the known finding):
// then everything after it is parsed differently and no verdict is drawn.
func c10HasLaxBigSize(s c10Stream) bool {
	kindOf := map[uint64]c10Kind{}
	hasBig := false
	for _, k := range s.known {
		kindOf[k.typ] = k.kind
		if k.kind == c10Big64 || k.kind == c10Big32 {
			hasBig = true
		}
	}
	if !hasBig {
		return false
	}
	recs, _, at := c10ref.Parse(s.data, false)
	for _, r := range recs {
		k, ok := kindOf[r.Type]
		if !ok || (k != c10Big64 && k != c10Big32) {
			continue
		}
		if _, n, why := c10ref.ReadBigSize(r.Val); why != c10ref.OK ||
			n != len(r.Val) {

			return true
		}
	}
	// The record at which the reference stopped may be a BigSize record
	// with a lying length.
	if at >= 0 {
		typ, n, why := c10ref.ReadBigSize(s.data[at:])
		if why == c10ref.OK {
			if k, ok := kindOf[typ]; ok && (k == c10Big64 ||
				k == c10Big32) {

				_ = n
				return true
			}
		}
	}

	return false
}

// c10TB is what the property needs from *rapid.T or *testing.T.
type c10TB interface {
	Fatalf(format string, args ...any)
	Skip(args ...any)
}

// c10HasBig32Overflow: a known uint32 BigSize record carries a well-formed
// BigSize above 2^32-1 (the known truncation finding).
func c10HasBig32Overflow(s c10Stream) bool {
	kindOf := map[uint64]c10Kind{}
	for _, k := range s.known {
		kindOf[k.typ] = k.kind
	}
	recs, _, _ := c10ref.Parse(s.data, false)
	for _, r := range recs {
		if k, ok := kindOf[r.Type]; ok && k == c10Big32 {
			v, _, why := c10ref.ReadBigSize(r.Val)
			if why == c10ref.OK && v > math.MaxUint32 {
				return true
			}
		}
	}

	return false
}

func c10StreamProp(t c10TB, st *vstats.Collector, s c10Stream) {
	labels := append([]string{}, s.faults...)
	if len(s.faults) == 0 {
		labels = append(labels, "clean")
	}

	if c10HasLaxBigSize(s) {
		if c10Known(c10KeyBigSizeLen) {
			st.Known(c10KeyBigSizeLen)
			st.Count("excluded_known", 1)
			t.Skip("known finding excluded")
		}
	}
	if c10HasBig32Overflow(s) && c10Known(c10KeyBig32) {
		st.Known(c10KeyBig32)
		st.Count("excluded_known", 1)
		t.Skip("known finding excluded")
	}

	ref := c10Reference(s, true)

	mkStream := func() (*Stream, map[uint64]any) {
		holders := map[uint64]any{}
		recs := make([]Record, 0, len(s.known))
		for _, k := range s.known {
			h := c10Holder(k.kind)
			holders[k.typ] = h
			recs = append(recs, c10Record(k.typ, k.kind, h))
		}
		stream, err := NewStream(recs...)
		if err != nil {
			t.Fatalf("NewStream on sorted distinct types: %v", err)
		}

		return stream, holders
	}

	// p2p decode with parsed types, allocation measured.
	var (
		stream  *Stream
		holders map[uint64]any
		parsed  TypeMap
		err     error
	)
	alloc := c10Measure(func() {
		stream, holders = mkStream()
		parsed, err = stream.DecodeWithParsedTypesP2P(
			bytes.NewReader(s.data),
		)
	})
	if alloc > c10AllocCap(len(s.data)) {
		t.Fatalf("p2p decode of %d bytes allocated %d bytes (cap %d) "+
			"input=%x", len(s.data), alloc, c10AllocCap(len(s.data)),
			c10Head(s.data))
	}
	st.Count(c10AllocBucket(alloc), 1)

	if (err == nil) != ref.accept {
		t.Fatalf("DecodeWithParsedTypesP2P err=%v but reference "+
			"accept=%v (%s)\nknown=%v\ninput=%x", err, ref.accept,
			ref.reason, c10KnownStr(s.known), c10Head(s.data))
	}

	// The variants must agree with each other.
	stream2, _ := mkStream()
	err2 := stream2.DecodeP2P(bytes.NewReader(s.data))
	if (err2 == nil) != ref.accept {
		t.Fatalf("DecodeP2P err=%v but reference accept=%v (%s) "+
			"input=%x", err2, ref.accept, ref.reason, c10Head(s.data))
	}

	if ref.accept {
		labels = append(labels, "accept")
		c10CheckAccepted(t, s, ref, parsed, holders)
	} else {
		labels = append(labels, "reject:"+ref.reason)
	}

	// Trusted-input API: only bounded lengths (it allocates the declared
	// length by design), or lengths >= 2^63 on the discard path.
	if s.maxDecl <= 1<<20 {
		refN := c10Reference(s, false)
		stream3, _ := mkStream()
		err3 := stream3.Decode(bytes.NewReader(s.data))
		if (err3 == nil) != refN.accept {
			t.Fatalf("Decode err=%v but reference accept=%v (%s) "+
				"input=%x", err3, refN.accept, refN.reason,
				c10Head(s.data))
		}
		stream4, holders4 := mkStream()
		parsed4, err4 := stream4.DecodeWithParsedTypes(
			bytes.NewReader(s.data),
		)
		if (err4 == nil) != refN.accept {
			t.Fatalf("DecodeWithParsedTypes err=%v but reference "+
				"accept=%v (%s) input=%x", err4, refN.accept,
				refN.reason, c10Head(s.data))
		}
		if refN.accept {
			c10CheckAccepted(t, s, refN, parsed4, holders4)
		}
		labels = append(labels, "nonp2p")
	} else if ok, saw := c10HugeOnDiscardPath(s); s.huge && ok && saw {
		if c10Known(c10KeyHugeLen) {
			st.Known(c10KeyHugeLen)
			st.Count("excluded_known", 1)
		} else {
			refN := c10Reference(s, false)
			stream3, _ := mkStream()
			err3 := stream3.Decode(bytes.NewReader(s.data))
			if (err3 == nil) != refN.accept {
				t.Fatalf("Decode err=%v but reference accept=%v "+
					"(%s) input=%x", err3, refN.accept,
					refN.reason, c10Head(s.data))
			}
			labels = append(labels, "nonp2p-huge")
		}
	}

	var sample any
	if ref.nontrivial && st.WantSample() {
		sample = map[string]any{"known": c10KnownStr(s.known),
			"input": fmt.Sprintf("%x", c10Head(s.data)),
			"labels": labels}
	}
	st.Case(vstats.FP(s.data, c10KnownStr(s.known)), ref.nontrivial, labels,
		sample)
}

// c10HugeOnDiscardPath walks the headers as a decoder without the BigSize
// laxness does. ok: every header that declares more than 1 MiB belongs to a
// type unknown to the stream and declares >= 2^63, so that Decode (without a
// TypeMap) takes the io.Discard path and cannot allocate. saw: such a header
// was actually met.
func c10HugeOnDiscardPath(s c10Stream) (ok bool, saw bool) {
	known := map[uint64]bool{}
	for _, k := range s.known {
		known[k.typ] = true
	}
	pos := 0
	for pos < len(s.data) {
		typ, n, why := c10ref.ReadBigSize(s.data[pos:])
		if why != c10ref.OK {
			return true, saw
		}
		l, m, why := c10ref.ReadBigSize(s.data[pos+n:])
		if why != c10ref.OK {
			return true, saw
		}
		pos += n + m
		if l > 1<<20 {
			if known[typ] || l < 1<<63 {
				return false, saw
			}
			// lnd skips nothing here; the reference stops.
			saw = true

			continue
		}
		if l > uint64(len(s.data)-pos) {
			return true, saw
		}
		pos += int(l)
	}

	return true, saw
}

func c10CheckAccepted(t c10TB, s c10Stream, ref c10Verdict, parsed TypeMap,
	holders map[uint64]any) {

	kindOf := map[uint64]c10Kind{}
	for _, k := range s.known {
		kindOf[k.typ] = k.kind
	}
	if len(parsed) != len(ref.recs) {
		t.Fatalf("TypeMap has %d entries, stream has %d records "+
			"input=%x", len(parsed), len(ref.recs), c10Head(s.data))
	}
	var out []Record
	unknown := map[uint64][]byte{}
	for _, r := range ref.recs {
		got, ok := parsed[Type(r.Type)]
		if !ok {
			t.Fatalf("type %d missing from TypeMap", r.Type)
		}
		if k, isKnown := kindOf[r.Type]; isKnown {
			if got != nil {
				t.Fatalf("known type %d reported as unparsed", r.Type)
			}
			out = append(out, c10Record(r.Type, k, holders[r.Type]))

			continue
		}
		if got == nil {
			t.Fatalf("unknown type %d reported as parsed (nil "+
				"value in TypeMap)", r.Type)
		}
		if !bytes.Equal(got, r.Val) {
			t.Fatalf("unknown type %d passed through as %x, "+
				"stream has %x", r.Type, c10Head(got),
				c10Head(r.Val))
		}
		unknown[r.Type] = got
	}
	out = append(out, MapToRecords(unknown)...)
	SortRecords(out)
	enc, err := NewStream(out...)
	if err != nil {
		t.Fatalf("NewStream for re-encoding: %v", err)
	}
	var buf bytes.Buffer
	if err := enc.Encode(&buf); err != nil {
		t.Fatalf("re-encode: %v", err)
	}
	if !bytes.Equal(buf.Bytes(), s.data) {
		t.Fatalf("decode-then-encode does not reproduce the input\n"+
			"known=%v\n in=%x\nout=%x", c10KnownStr(s.known),
			c10Head(s.data), c10Head(buf.Bytes()))
	}
}

func c10AllocBucket(a uint64) string {
	switch {
	case a < 64<<10:
		return "alloc<64K"
	case a < 256<<10:
		return "alloc<256K"
	case a < 1<<20:
		return "alloc<1M"
	default:
		return "alloc>=1M"
	}
}

func c10Head(b []byte) []byte {
	if len(b) > 96 {
		return b[:96]
	}

	return b
}

func c10KnownStr(k []c10KnownRec) string {
	s := ""
	for _, r := range k {
		s += fmt.Sprintf("%d:%s ", r.typ, c10KindName[r.kind])
	}

	return s
}

// TestVerifC10TLVStream is part 4 of C10 for tlv.Stream.
func TestVerifC10TLVStream(t *testing.T) {
	st := vstats.New("TestVerifC10TLVStream")
	defer st.Flush()

	rapid.Check(t, func(t *rapid.T) {
		c10StreamProp(t, st, c10GenStream(t))
	})
}

// TestVerifC10VarInt: ReadVarInt accepts exactly the minimal BigSize
// encodings, consumes exactly their width and returns their value;
// WriteVarInt produces the minimal encoding; VarIntSize is its width.
func TestVerifC10VarInt(t *testing.T) {
	st := vstats.New("TestVerifC10VarInt")
	defer st.Flush()

	rapid.Check(t, func(t *rapid.T) {
		var in []byte
		mode := rapid.IntRange(0, 3).Draw(t, "mode")
		switch mode {
		case 0: // boundary values, chosen width
			v := rapid.SampledFrom([]uint64{0, 1, 0xfc, 0xfd, 0xfe, 0xff,
				0x100, 0xffff, 0x10000, 0x10001, 0xffffffff,
				0x100000000, 0x100000001, 1 << 63,
				math.MaxUint64}).Draw(t, "v")
			ws := []int{}
			for _, w := range []int{1, 3, 5, 9} {
				if w >= c10ref.BigSizeLen(v) {
					ws = append(ws, w)
				}
			}
			in = c10ref.AppendBigSizeWidth(nil, v,
				rapid.SampledFrom(ws).Draw(t, "w"))
		case 1: // random value, chosen width
			v := rapid.Uint64().Draw(t, "rv") >>
				uint(rapid.IntRange(0, 63).Draw(t, "shift"))
			ws := []int{}
			for _, w := range []int{1, 3, 5, 9} {
				if w >= c10ref.BigSizeLen(v) {
					ws = append(ws, w)
				}
			}
			in = c10ref.AppendBigSizeWidth(nil, v,
				rapid.SampledFrom(ws).Draw(t, "w"))
		default:
			in = c10Bytes(t, rapid.IntRange(0, 10).Draw(t, "n"), "raw")
			if len(in) > 0 && mode == 3 {
				in[0] = byte(rapid.SampledFrom([]int{0xfc, 0xfd, 0xfe,
					0xff}).Draw(t, "disc"))
			}
		}
		if rapid.IntRange(0, 5).Draw(t, "cut") == 0 && len(in) > 0 {
			in = in[:rapid.IntRange(0, len(in)-1).Draw(t, "cutAt")]
		}
		in = append(in, c10Bytes(t, rapid.IntRange(0, 2).Draw(t, "tailN"),
			"tail")...)

		want, n, why := c10ref.ReadBigSize(in)
		var buf [8]byte
		r := bytes.NewReader(in)
		got, err := ReadVarInt(r, &buf)
		labels := []string{"ref=" + string(why)}
		if (err == nil) != (why == c10ref.OK) {
			t.Fatalf("ReadVarInt(%x) err=%v, reference %q", in, err, why)
		}
		if err == nil {
			if got != want {
				t.Fatalf("ReadVarInt(%x)=%d want %d", in, got, want)
			}
			if consumed := len(in) - r.Len(); consumed != n {
				t.Fatalf("ReadVarInt(%x) consumed %d want %d", in,
					consumed, n)
			}
			var w bytes.Buffer
			if err := WriteVarInt(&w, got, &buf); err != nil {
				t.Fatalf("WriteVarInt: %v", err)
			}
			if !bytes.Equal(w.Bytes(), in[:n]) {
				t.Fatalf("WriteVarInt(%d)=%x want %x", got, w.Bytes(),
					in[:n])
			}
			if VarIntSize(got) != uint64(n) {
				t.Fatalf("VarIntSize(%d)=%d want %d", got,
					VarIntSize(got), n)
			}
		}
		st.Case(vstats.FP(in), why == c10ref.NonMinimal ||
			(why == c10ref.OK && n > 1), labels, fmt.Sprintf("%x", in))
	})
}

// TestVerifC10Truncated: the tu16/tu32/tu64 codecs accept exactly the minimal
// big-endian encodings of at most 2/4/8 bytes and round-trip them.
func TestVerifC10Truncated(t *testing.T) {
	st := vstats.New("TestVerifC10Truncated")
	defer st.Flush()

	rapid.Check(t, func(t *rapid.T) {
		width := rapid.SampledFrom([]int{2, 4, 8}).Draw(t, "width")
		n := rapid.IntRange(0, width+1).Draw(t, "n")
		in := c10Bytes(t, n, "in")
		if n > 0 && rapid.IntRange(0, 3).Draw(t, "lead0") == 0 {
			in[0] = 0
		}
		wantOK := c10ref.MinimalUint(in, width)
		var full [8]byte
		if len(in) <= 8 {
			copy(full[8-len(in):], in)
		}
		want := binary.BigEndian.Uint64(full[:])

		var (
			buf  [8]byte
			err  error
			got  uint64
			size uint64
			out  bytes.Buffer
		)
		r := bytes.NewReader(in)
		switch width {
		case 2:
			var v uint16
			err = DTUint16(r, &v, &buf, uint64(len(in)))
			got, size = uint64(v), SizeTUint16(v)
			if err == nil {
				err2 := ETUint16(&out, &v, &buf)
				if err2 != nil {
					t.Fatalf("ETUint16: %v", err2)
				}
			}
		case 4:
			var v uint32
			err = DTUint32(r, &v, &buf, uint64(len(in)))
			got, size = uint64(v), SizeTUint32(v)
			if err == nil {
				err2 := ETUint32(&out, &v, &buf)
				if err2 != nil {
					t.Fatalf("ETUint32: %v", err2)
				}
			}
		default:
			var v uint64
			err = DTUint64(r, &v, &buf, uint64(len(in)))
			got, size = v, SizeTUint64(v)
			if err == nil {
				err2 := ETUint64(&out, &v, &buf)
				if err2 != nil {
					t.Fatalf("ETUint64: %v", err2)
				}
			}
		}
		if (err == nil) != wantOK {
			t.Fatalf("tu%d decode of %x: err=%v, reference ok=%v",
				width*8, in, err, wantOK)
		}
		if err == nil {
			if got != want {
				t.Fatalf("tu%d decode of %x = %d want %d", width*8, in,
					got, want)
			}
			if !bytes.Equal(out.Bytes(), in) {
				t.Fatalf("tu%d re-encode %x want %x", width*8,
					out.Bytes(), in)
			}
			if size != uint64(len(in)) {
				t.Fatalf("SizeTUint%d(%d)=%d want %d", width*8, got,
					size, len(in))
			}
		}
		st.Case(vstats.FP(in, width), !wantOK || len(in) > 0,
			[]string{fmt.Sprintf("tu%d", width*8),
				fmt.Sprintf("ok=%v", wantOK)},
			fmt.Sprintf("tu%d:%x", width*8, in))
	})
}
