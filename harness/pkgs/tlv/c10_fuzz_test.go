//go:build verif

package tlv

// Native fuzz targets of C10 part 4 (thorough tier); the seed corpus is
// created at run time with f.Add.

import (
	"encoding/binary"
	"testing"

	"github.com/lightningnetwork/lnd/internal/verif/vstats"
	"pgregory.net/rapid"
)

// c10FixedKnown are the known-record sets of the raw target, chosen by the
// first input byte.
var c10FixedKnown = [][]c10KnownRec{
	nil,
	{{0, c10U8}, {1, c10U16}, {2, c10U32}, {3, c10U64}, {4, c10Bool},
		{5, c10Var}},
	{{0, c10T16}, {1, c10T32}, {2, c10T64}, {3, c10B32}, {4, c10B33},
		{6, c10B64}, {8, c10Pub}},
	{{1, c10Var}, {253, c10U16}, {65536, c10T64}, {1 << 32, c10U8},
		{1<<64 - 1, c10Var}},
	{{2, c10Big64}, {4, c10Big32}, {7, c10Var}},
}

func c10SeedStreams(n, size int) [][]byte {
	var out [][]byte
	x := uint64(0x9e3779b97f4a7c15)
	for i := 0; i < n; i++ {
		b := make([]byte, size)
		for j := 0; j < size; j += 8 {
			x ^= x << 13
			x ^= x >> 7
			x ^= x << 17
			v := x
			if j%16 == 0 {
				v &= 0xffff
			}
			var tmp [8]byte
			binary.LittleEndian.PutUint64(tmp[:], v)
			copy(b[j:], tmp[:])
		}
		out = append(out, b)
	}

	return out
}

// FuzzVerifC10TLVRaw: byte 0 selects the known-record set, the rest is the
// stream.
func FuzzVerifC10TLVRaw(f *testing.F) {
	st := vstats.New("FuzzVerifC10TLVRaw")
	defer st.Flush()

	gen := rapid.Custom(func(t *rapid.T) []byte {
		return c10GenStream(t).data
	})
	for i := 0; i < 300; i++ {
		s := gen.Example(i)
		if len(s) > 4096 {
			continue
		}
		f.Add(append([]byte{byte(i % len(c10FixedKnown))}, s...))
	}
	for k := range c10FixedKnown {
		for _, h := range [][]byte{{}, {0xfd, 0x00, 0xfc},
			{0xfe, 0x00, 0x00, 0xff, 0xff},
			{0xff, 0xff, 0xff, 0xff, 0xff, 0xff, 0xff, 0xff, 0xff},
			{0x01, 0xfd, 0xff, 0xff}, {0x01, 0xfe, 0x00, 0x01, 0x00, 0x00},
			{0x01, 0xff, 0x80, 0, 0, 0, 0, 0, 0, 0},
			{0x00, 0x01, 0x00, 0x01, 0x02, 0x00, 0x00},
		} {
			f.Add(append([]byte{byte(k)}, h...))
		}
	}
	f.Fuzz(func(t *testing.T, data []byte) {
		if len(data) == 0 || len(data) > 70000 {
			return
		}
		s := c10Stream{
			known: c10FixedKnown[int(data[0])%len(c10FixedKnown)],
			data:  data[1:],
		}
		s.maxDecl = c10DeclaredMax(s.data)
		s.huge = s.maxDecl >= 1<<63
		c10StreamProp(t, st, s)
	})
}

// FuzzVerifC10TLVGen: the generator-driven stream property under
// rapid.MakeFuzz.
func FuzzVerifC10TLVGen(f *testing.F) {
	st := vstats.New("FuzzVerifC10TLVGen")
	defer st.Flush()
	for _, s := range c10SeedStreams(64, 2048) {
		f.Add(s)
	}
	f.Fuzz(rapid.MakeFuzz(func(t *rapid.T) {
		c10StreamProp(t, st, c10GenStream(t))
	}))
}
