//go:build verif

package paymentsdb_test

// C16 — deterministic, generator-free reproductions of the backend
// divergences the differential found (DESIGN §5 F6/F7 plus the duplicate
// attempt id case). Each scenario is run on fresh payment hashes against both
// real stores. A scenario that still diverges is reported under its
// known-finding key; if the key is not (yet) known the test fails with the
// reproduction in the message. A scenario that no longer diverges (the code
// was repaired) passes silently and is labelled "absent".

import (
	"errors"
	"fmt"
	"testing"

	"github.com/lightningnetwork/lnd/internal/verif/vstats"
	"github.com/lightningnetwork/lnd/lntypes"
	paymentsdb "github.com/lightningnetwork/lnd/payments/db"
)

type c16Repro struct {
	key  string
	what string
	// run returns a description of the divergence, "" when the stores
	// agree (finding absent).
	run func(s *c16Stores) (string, error)
}

func c16ErrStr(err error) string {
	if err == nil {
		return "ok"
	}

	return "error(" + err.Error() + ")"
}

func err0(err error) string {
	if err == nil {
		return "ok"
	}

	return "error"
}

// normalised renders a view without attempt ids (they differ per store run).
func (v *c16View) normalised() string {
	c := *v
	c.Atts = append([]c16Att{}, v.Atts...)
	for i := range c.Atts {
		c.Atts[i].ID = uint64(i)
	}

	return c.String()
}

func c16MustInit(db paymentsdb.DB, h lntypes.Hash, value int64) error {
	return db.InitPayment(c16Ctx, h, c16Info(h, value))
}

func c16FetchView(db paymentsdb.DB, h lntypes.Hash) (*c16View, error) {
	p, err := db.FetchPayment(c16Ctx, h)
	if err != nil {
		return nil, err
	}

	return c16ViewOf(p), nil
}

func remaining(v *c16View) int64 {
	r := v.Value
	for _, a := range v.Atts {
		if a.State != c16Failed {
			r -= a.Amt
		}
	}

	return r
}

// c16ForeignScenario: payment A (initiated, no attempts) and payment B with
// one in-flight attempt idB. op(A, idB) must not succeed and must not touch B.
func c16ForeignScenario(settle bool) func(s *c16Stores) (string, error) {
	return func(s *c16Stores) (string, error) {
		var out [2]string
		for i, db := range s.both {
			a, b := c16FreshHash(), c16FreshHash()
			if err := c16MustInit(db, a, 1000); err != nil {
				return "", err
			}
			if err := c16MustInit(db, b, 1000); err != nil {
				return "", err
			}
			idA, idB := c16FreshID(), c16FreshID()
			for _, r := range []struct {
				h  lntypes.Hash
				id uint64
			}{{a, idA}, {b, idB}} {
				_, err := db.RegisterAttempt(c16Ctx, r.h,
					c16MakeAttempt(r.h, c16Spec{
						ID: r.id, Amt: 1000, Kind: c16Plain,
						Hops: 1,
					}))
				if err != nil {
					return "", err
				}
			}
			var err error
			if settle {
				_, err = db.SettleAttempt(c16Ctx, a, idB, c16Settle(idB))
			} else {
				_, err = db.FailAttempt(c16Ctx, a, idB, c16FailInfo(1))
			}
			vb, ferr := c16FetchView(db, b)
			if ferr != nil {
				return "", ferr
			}
			verdict := "refused (" + err0(err) + ")"
			if err == nil {
				verdict = "SUCCEEDS"
			}
			out[i] = fmt.Sprintf("%s; payment B afterwards %v", verdict,
				vb.normalised())
		}
		if out[0] == out[1] {
			return "", nil
		}

		return fmt.Sprintf("kv: %s | sql: %s", out[0], out[1]), nil
	}
}

var c16Repros = []c16Repro{
	{
		key: c16KeySQLForeign,
		what: "Init(A,1000); Init(B,1000); Register(A,idA,1000); " +
			"Register(B,idB,1000); SettleAttempt(A, idB)",
		run: c16ForeignScenario(true),
	},
	{
		key: c16KeySQLForeign,
		what: "Init(A,1000); Init(B,1000); Register(A,idA,1000); " +
			"Register(B,idB,1000); FailAttempt(A, idB)",
		run: c16ForeignScenario(false),
	},
	{
		key: c16KeyKVDupID,
		what: "Init(A,1000); Register(A,id1,mpp 400); " +
			"Register(A,id1,mpp 400) again; Register(A,id2,mpp 600)",
		run: func(s *c16Stores) (string, error) {
			var out [2]string
			for i, db := range s.both {
				a := c16FreshHash()
				if err := c16MustInit(db, a, 1000); err != nil {
					return "", err
				}
				id1, id2 := c16FreshID(), c16FreshID()
				sp := c16Spec{ID: id1, Amt: 400, Kind: c16MPP,
					Total: 1000, Addr: 1, Hops: 1}
				_, err := db.RegisterAttempt(c16Ctx, a,
					c16MakeAttempt(a, sp))
				if err != nil {
					return "", err
				}
				_, err2 := db.RegisterAttempt(c16Ctx, a,
					c16MakeAttempt(a, sp))
				sp.ID, sp.Amt = id2, 600
				_, err3 := db.RegisterAttempt(c16Ctx, a,
					c16MakeAttempt(a, sp))
				v, ferr := c16FetchView(db, a)
				if ferr != nil {
					return "", ferr
				}
				r := func(e error) string {
					if e == nil {
						return "admitted"
					}
					if errors.Is(e, paymentsdb.ErrValueExceedsAmt) {
						return "ErrValueExceedsAmt"
					}

					return "refused"
				}
				handed := 400 + 600
				if err2 == nil {
					handed += 400
				}
				out[i] = fmt.Sprintf("2nd Register(id1): %s, "+
					"Register(id2,600): %s; %d msat handed out "+
					"for a 1000 msat payment, store accounts "+
					"for %d", r(err2), r(err3), handed,
					v.Value-remaining(v))
			}
			if out[0] == out[1] {
				return "", nil
			}

			return fmt.Sprintf("kv: %s | sql: %s", out[0], out[1]), nil
		},
	},
	{
		key:  c16KeySQLRegUnknown,
		what: "RegisterAttempt(H, id, 1000) on a never-initiated hash H",
		run: func(s *c16Stores) (string, error) {
			var out [2]string
			for i, db := range s.both {
				a := c16FreshHash()
				_, err := db.RegisterAttempt(c16Ctx, a,
					c16MakeAttempt(a, c16Spec{ID: c16FreshID(),
						Amt: 1000, Kind: c16Plain, Hops: 1}))
				if err == nil {
					return "", errors.New("register on unknown " +
						"payment succeeded")
				}
				out[i] = fmt.Sprintf("ErrPaymentNotInitiated=%v",
					errors.Is(err, paymentsdb.ErrPaymentNotInitiated))
				if out[i] != "ErrPaymentNotInitiated=true" {
					out[i] += " (" + err.Error() + ")"
				}
			}
			if out[0] == out[1] {
				return "", nil
			}

			return fmt.Sprintf("kv: %s | sql: %s", out[0], out[1]), nil
		},
	},
	{
		key:  c16KeyKVDelUnknown,
		what: "DeletePayment(H,false) / DeleteFailedAttempts(H) on a never-initiated hash H",
		run: func(s *c16Stores) (string, error) {
			var out [2]string
			for i, db := range s.both {
				a := c16FreshHash()
				e1 := db.DeletePayment(c16Ctx, a, false)
				e2 := db.DeleteFailedAttempts(c16Ctx, a)
				if e1 == nil || e2 == nil {
					return "", errors.New("delete of unknown " +
						"payment succeeded")
				}
				out[i] = fmt.Sprintf("ErrPaymentNotInitiated=%v/%v",
					errors.Is(e1, paymentsdb.ErrPaymentNotInitiated),
					errors.Is(e2, paymentsdb.ErrPaymentNotInitiated))
				if out[i] != "ErrPaymentNotInitiated=true/true" {
					out[i] += " (" + e1.Error() + ")"
				}
			}
			if out[0] == out[1] {
				return "", nil
			}

			return fmt.Sprintf("kv: %s | sql: %s", out[0], out[1]), nil
		},
	},
}

// TestVerifC16Repro runs the deterministic reproductions.
func TestVerifC16Repro(t *testing.T) {
	st := vstats.New("TestVerifC16Repro")
	defer st.Flush()

	s := c16NewStores(t, true)
	for i, r := range c16Repros {
		div, err := r.run(s)
		if err != nil {
			t.Fatalf("scenario %d (%s): harness precondition "+
				"failed: %v", i, r.what, err)
		}
		label := "repro:" + r.key
		switch {
		case div == "":
			st.Case(vstats.FP("repro", i), false,
				[]string{label + ":absent"}, nil)

		case c16Known(r.key):
			st.Known(r.key)
			st.Case(vstats.FP("repro", i), true,
				[]string{label + ":reproduced"},
				map[string]any{"key": r.key, "history": r.what,
					"divergence": div})
			t.Logf("KNOWN %s: %s => %s", r.key, r.what, div)

		default:
			t.Errorf("backends answer the same history differently "+
				"[%s]\n  history: %s\n  %s", r.key, r.what, div)
		}
	}
}
