//go:build verif

package paymentsdb_test

// C16 — one operation executed against both real stores and judged by
//   (1) the reference model (expected success / documented error class,
//       resulting state),
//   (2) model-independent invariants on every MPPayment handed back and on
//       the observed status history,
//   (3) the KV-vs-SQL differential with the hard/soft granularity of
//       DESIGN §C16.
// All checks return an error instead of failing the test, so the same code
// runs inside the goroutines of the concurrent test.

import (
	"errors"
	"fmt"
	"sort"
	"strings"

	"github.com/lightningnetwork/lnd/lntypes"
	paymentsdb "github.com/lightningnetwork/lnd/payments/db"
)

// Operation kinds.
const (
	c16OpInit      = "init"
	c16OpRegister  = "register"
	c16OpSettle    = "settle"
	c16OpFailAtt   = "failattempt"
	c16OpFail      = "fail"
	c16OpDelFailed = "deletefailedattempts"
	c16OpDelPay    = "deletepayment"
	c16OpDelPays   = "deletepayments"
	c16OpFetch     = "fetch"
	c16OpInFlight  = "fetchinflight"
)

type c16Op struct {
	Kind         string
	H            int // index into the case's payment hashes
	Value        int64
	Spec         c16Spec
	ID           uint64
	IDClass      string // how the attempt id was chosen (evidence only)
	Reason       int
	FailedOnly   bool
	AttemptsOnly bool
}

func (o c16Op) String() string {
	switch o.Kind {
	case c16OpInit:
		return fmt.Sprintf("Init(h%d,%d)", o.H, o.Value)
	case c16OpRegister:
		return fmt.Sprintf("Register(h%d,%v,%s)", o.H, o.Spec, o.IDClass)
	case c16OpSettle:
		return fmt.Sprintf("Settle(h%d,%d,%s)", o.H, o.ID, o.IDClass)
	case c16OpFailAtt:
		return fmt.Sprintf("FailAttempt(h%d,%d,%s)", o.H, o.ID, o.IDClass)
	case c16OpFail:
		return fmt.Sprintf("Fail(h%d,reason=%d)", o.H, o.Reason)
	case c16OpDelFailed:
		return fmt.Sprintf("DeleteFailedAttempts(h%d)", o.H)
	case c16OpDelPay:
		return fmt.Sprintf("DeletePayment(h%d,failedAttemptsOnly=%v)", o.H,
			o.AttemptsOnly)
	case c16OpDelPays:
		return fmt.Sprintf("DeletePayments(failedOnly=%v,"+
			"failedAttemptsOnly=%v)", o.FailedOnly, o.AttemptsOnly)
	case c16OpFetch:
		return fmt.Sprintf("Fetch(h%d)", o.H)
	case c16OpInFlight:
		return "FetchInFlightPayments()"
	}

	return "?" + o.Kind
}

type c16Res struct {
	err   error
	pay   *paymentsdb.MPPayment
	count int
	list  []*paymentsdb.MPPayment
}

func c16Exec(db paymentsdb.DB, h lntypes.Hash, op c16Op) c16Res {
	var r c16Res
	switch op.Kind {
	case c16OpInit:
		r.err = db.InitPayment(c16Ctx, h, c16Info(h, op.Value))
	case c16OpRegister:
		r.pay, r.err = db.RegisterAttempt(c16Ctx, h,
			c16MakeAttempt(h, op.Spec))
	case c16OpSettle:
		r.pay, r.err = db.SettleAttempt(c16Ctx, h, op.ID, c16Settle(op.ID))
	case c16OpFailAtt:
		r.pay, r.err = db.FailAttempt(c16Ctx, h, op.ID,
			c16FailInfo(op.Reason))
	case c16OpFail:
		r.pay, r.err = db.Fail(c16Ctx, h, paymentsdb.FailureReason(op.Reason))
	case c16OpDelFailed:
		r.err = db.DeleteFailedAttempts(c16Ctx, h)
	case c16OpDelPay:
		r.err = db.DeletePayment(c16Ctx, h, op.AttemptsOnly)
	case c16OpDelPays:
		r.count, r.err = db.DeletePayments(c16Ctx, op.FailedOnly,
			op.AttemptsOnly)
	case c16OpFetch:
		r.pay, r.err = db.FetchPayment(c16Ctx, h)
	case c16OpInFlight:
		r.list, r.err = db.FetchInFlightPayments(c16Ctx)
	default:
		panic("unknown op " + op.Kind)
	}

	return r
}

// c16Case is the state of one generated history (sequential test) or of one
// goroutine's share of it (concurrent test).
type c16Case struct {
	stores *c16Stores
	hashes []lntypes.Hash
	model  *c16Model

	// exclusive: no other writer touches the stores, so global answers
	// (DeletePayments count, FetchInFlightPayments set) are exact.
	exclusive bool

	// last observed view per backend and hash index (nil = absent).
	last [2][]*c16View

	// idBase is subtracted from attempt ids for fingerprinting.
	idBase uint64
	fp     []string

	hist    []string
	labels  map[string]int
	known   map[string]int
	softDiv []string
	busy    bool
}

func c16NewCase(s *c16Stores, hashes []lntypes.Hash, exclusive bool) *c16Case {
	c := &c16Case{
		stores: s, hashes: hashes, model: c16NewModel(),
		exclusive: exclusive,
		idBase:    c16FreshID(),
		labels:    make(map[string]int),
		known:     make(map[string]int),
	}
	for b := range c.last {
		c.last[b] = make([]*c16View, len(hashes))
	}

	return c
}

func (c *c16Case) errorf(format string, a ...any) error {
	var sb strings.Builder
	fmt.Fprintf(&sb, format, a...)
	sb.WriteString("\n  history:")
	for i, h := range c.hist {
		fmt.Fprintf(&sb, "\n   %2d. %s", i+1, h)
	}

	return errors.New(sb.String())
}

func (c *c16Case) fetch(b int, hi int) (*c16View, *paymentsdb.MPPayment, error) {
	p, err := c.stores.both[b].FetchPayment(c16Ctx, c.hashes[hi])
	switch {
	case err == nil:
		return c16ViewOf(p), p, nil
	case errors.Is(err, paymentsdb.ErrPaymentNotInitiated):
		return nil, nil, nil
	case c16Busy(err):
		c.busy = true
		return nil, nil, err
	default:
		return nil, nil, err
	}
}

// c16ErrClass names an error for the soft-divergence statistics.
func c16ErrClass(err error) string {
	if err == nil {
		return "ok"
	}
	for _, n := range c16AllSentinels {
		if errors.Is(err, n.err) {
			return n.name
		}
	}

	return "other"
}

var c16AllSentinels = []struct {
	name string
	err  error
}{
	{"ErrAlreadyPaid", paymentsdb.ErrAlreadyPaid},
	{"ErrPaymentInFlight", paymentsdb.ErrPaymentInFlight},
	{"ErrPaymentExists", paymentsdb.ErrPaymentExists},
	{"ErrPaymentNotInitiated", paymentsdb.ErrPaymentNotInitiated},
	{"ErrPaymentAlreadySucceeded", paymentsdb.ErrPaymentAlreadySucceeded},
	{"ErrPaymentAlreadyFailed", paymentsdb.ErrPaymentAlreadyFailed},
	{"ErrPaymentTerminal", paymentsdb.ErrPaymentTerminal},
	{"ErrAttemptAlreadySettled", paymentsdb.ErrAttemptAlreadySettled},
	{"ErrAttemptAlreadyFailed", paymentsdb.ErrAttemptAlreadyFailed},
	{"ErrValueMismatch", paymentsdb.ErrValueMismatch},
	{"ErrValueExceedsAmt", paymentsdb.ErrValueExceedsAmt},
	{"ErrNonMPPayment", paymentsdb.ErrNonMPPayment},
	{"ErrMPPayment", paymentsdb.ErrMPPayment},
	{"ErrMPPRecordInBlindedPayment", paymentsdb.ErrMPPRecordInBlindedPayment},
	{"ErrBlindedPaymentTotalAmountMismatch",
		paymentsdb.ErrBlindedPaymentTotalAmountMismatch},
	{"ErrMixedBlindedAndNonBlindedPayments",
		paymentsdb.ErrMixedBlindedAndNonBlindedPayments},
	{"ErrBlindedPaymentMissingTotalAmount",
		paymentsdb.ErrBlindedPaymentMissingTotalAmount},
	{"ErrMPPPaymentAddrMismatch", paymentsdb.ErrMPPPaymentAddrMismatch},
	{"ErrMPPTotalAmountMismatch", paymentsdb.ErrMPPTotalAmountMismatch},
	{"ErrPaymentPendingSettled", paymentsdb.ErrPaymentPendingSettled},
	{"ErrPaymentPendingFailed", paymentsdb.ErrPaymentPendingFailed},
	{"ErrSentExceedsTotal", paymentsdb.ErrSentExceedsTotal},
	{"ErrPaymentInternal", paymentsdb.ErrPaymentInternal},
}

// relaxKey returns the known-finding key that suspends the documented-
// sentinel check of backend b for this refusal ("" if none applies or the
// key is not known).
func c16RelaxKey(b int, op c16Op, exp c16Exp) string {
	if !exp.UnknownPayment {
		return ""
	}
	var key string
	switch {
	case b == 1 && op.Kind == c16OpRegister:
		key = c16KeySQLRegUnknown
	case b == 0 && (op.Kind == c16OpDelPay || op.Kind == c16OpDelFailed):
		key = c16KeyKVDelUnknown
	default:
		return ""
	}
	if !c16Known(key) {
		return ""
	}

	return key
}

func c16KeyHint(b int, op c16Op, exp c16Exp) string {
	switch {
	case exp.UnknownPayment && b == 1 && op.Kind == c16OpRegister:
		return " [" + c16KeySQLRegUnknown + "]"
	case exp.UnknownPayment && b == 0 &&
		(op.Kind == c16OpDelPay || op.Kind == c16OpDelFailed):

		return " [" + c16KeyKVDelUnknown + "]"
	case exp.DupID && b == 0:
		return " [" + c16KeyKVDupID + "]"
	case strings.HasSuffix(exp.Class, "attempt-of-other-payment") && b == 1:
		return " [" + c16KeySQLForeign + "]"
	}

	return ""
}

// applyModel advances the reference model by one operation and returns what
// the documentation promises for it.
func (c *c16Case) applyModel(op c16Op) c16Exp {
	var h lntypes.Hash
	if op.Kind != c16OpDelPays && op.Kind != c16OpInFlight {
		h = c.hashes[op.H]
	}
	var exp c16Exp
	switch op.Kind {
	case c16OpInit:
		exp = c.model.Init(h, op.Value)
	case c16OpRegister:
		exp = c.model.Register(h, op.Spec)
	case c16OpSettle:
		exp = c.model.resolve(h, op.ID, true, 0)
	case c16OpFailAtt:
		exp = c.model.resolve(h, op.ID, false, op.Reason)
	case c16OpFail:
		exp = c.model.Fail(h, op.Reason)
	case c16OpDelFailed:
		exp = c.model.Delete(h, true, "deletefailedattempts:")
	case c16OpDelPay:
		exp = c.model.Delete(h, op.AttemptsOnly, fmt.Sprintf(
			"deletepayment(attemptsOnly=%v):", op.AttemptsOnly))
	case c16OpDelPays:
		exp = c.model.DeletePayments(op.FailedOnly, op.AttemptsOnly)
	case c16OpFetch:
		exp = c.model.Fetch(h)
	case c16OpInFlight:
		exp = c.model.InFlight()
	}

	return exp
}

// step runs one operation on both stores and checks it. A returned error is
// a violation (or, with c.busy set, an inconclusive sqlite lock timeout).
func (c *c16Case) step(op c16Op) error {
	// Fingerprints use attempt ids relative to the case, so that equal
	// histories of different cases count once.
	rel := op
	if rel.ID >= c.idBase {
		rel.ID -= c.idBase
	}
	if rel.Spec.ID >= c.idBase {
		rel.Spec.ID -= c.idBase
	}
	c.fp = append(c.fp, rel.String())
	c.hist = append(c.hist, op.String())
	var h lntypes.Hash
	perHash := op.Kind != c16OpDelPays && op.Kind != c16OpInFlight
	if perHash {
		h = c.hashes[op.H]
	}

	// What each store itself says about the payment right before the
	// call (for the model-independent admission checks).
	var pre [2]*c16View
	if op.Kind == c16OpRegister || op.Kind == c16OpInit {
		for b := range c.stores.both {
			v, _, err := c.fetch(b, op.H)
			if err != nil {
				return c.errorf("%s: FetchPayment before %v: %v",
					c16Names[b], op, err)
			}
			pre[b] = v
		}
	}

	exp := c.applyModel(op)
	c.labels[exp.Class]++
	c.hist[len(c.hist)-1] += "  => model: " + exp.Class

	var res [2]c16Res
	relax := [2]string{c16RelaxKey(0, op, exp), c16RelaxKey(1, op, exp)}
	relUsed := make(map[string]bool)
	defer func() {
		for k := range relUsed {
			c.known[k]++
		}
	}()
	for b, db := range c.stores.both {
		res[b] = c16Exec(db, h, op)
		r := res[b]
		if c16Busy(r.err) {
			c.busy = true
			return c.errorf("%s: %v: sqlite busy: %v", c16Names[b], op,
				r.err)
		}

		// (1) model: success / refusal and the documented error.
		if (r.err == nil) != exp.OK {
			return c.errorf("%s: %v: model expects %q but the store "+
				"returned %s%s", c16Names[b], op, exp.Class,
				c16ErrStr(r.err), c16KeyHint(b, op, exp))
		}
		if r.err != nil && len(exp.AnyOf) > 0 && exp.DupID &&
			!c16IsAny(r.err, exp.AnyOf) {

			// duplicate id: any refusal is acceptable
			c.labels["register:dup-id-refused-first"]++
		} else if r.err != nil && len(exp.AnyOf) > 0 &&
			!c16IsAny(r.err, exp.AnyOf) && relax[b] != "" {

			relUsed[relax[b]] = true
		} else if r.err != nil && len(exp.AnyOf) > 0 &&
			!c16IsAny(r.err, exp.AnyOf) {

			return c.errorf("%s: %v: refused with %q, documented "+
				"error(s) for this state: %v%s", c16Names[b], op,
				r.err, exp.AnyOf, c16KeyHint(b, op, exp))
		}

		// (2) invariants on whatever was handed back.
		if r.pay != nil {
			if err := c16CheckPayment(r.pay); err != nil {
				return c.errorf("%s: %v returned an inconsistent "+
					"payment: %v", c16Names[b], op, err)
			}
			if perHash {
				got, want := c16ViewOf(r.pay), c.model.view(h)
				if !c16ViewsEqual(got, want) {
					return c.errorf("%s: %v returned %v, model "+
						"%v", c16Names[b], op, got, want)
				}
			}
		} else if r.err == nil && (op.Kind == c16OpRegister ||
			op.Kind == c16OpSettle || op.Kind == c16OpFailAtt ||
			op.Kind == c16OpFail || op.Kind == c16OpFetch) {

			return c.errorf("%s: %v succeeded but returned no payment",
				c16Names[b], op)
		}

		// Admission, judged on the store's own earlier answer: a new
		// attempt only while nothing is settled, no failure reason is
		// set and settled+in-flight+new stays within the value; Init
		// only from absent or Failed.
		if r.err == nil && op.Kind == c16OpRegister {
			p := pre[b]
			if p == nil {
				return c.errorf("%s: %v admitted for a payment the "+
					"store did not know", c16Names[b], op)
			}
			var sent int64
			for _, a := range p.Atts {
				if a.State == c16Settled {
					return c.errorf("%s: %v admitted although "+
						"attempt %d is settled (paid twice)",
						c16Names[b], op, a.ID)
				}
				if a.State != c16Failed {
					sent += a.Amt
				}
			}
			if p.Reason >= 0 {
				return c.errorf("%s: %v admitted although the "+
					"payment has failure reason %d", c16Names[b],
					op, p.Reason)
			}
			if sent+op.Spec.Amt > p.Value {
				return c.errorf("%s: %v admitted: %d in flight + %d "+
					"> value %d (overpaid)", c16Names[b], op, sent,
					op.Spec.Amt, p.Value)
			}
		}
		if r.err == nil && op.Kind == c16OpInit && pre[b] != nil &&
			pre[b].Status != paymentsdb.StatusFailed {

			return c.errorf("%s: %v re-initiated a payment that was %v",
				c16Names[b], op, pre[b].Status)
		}

		if op.Kind == c16OpDelPays && c.exclusive && r.err == nil &&
			r.count != exp.Count {

			return c.errorf("%s: %v deleted %d payments, model %d",
				c16Names[b], op, r.count, exp.Count)
		}
		if op.Kind == c16OpInFlight && r.err == nil {
			if err := c.checkInFlight(b, op, r.list, exp); err != nil {
				return err
			}
		}
	}

	// (3) differential.
	kvErr, sqlErr := res[0].err, res[1].err
	if (kvErr == nil) != (sqlErr == nil) {
		return c.errorf("%v: kv %s but sql %s", op, c16ErrStr(kvErr),
			c16ErrStr(sqlErr))
	}
	if kvErr != nil {
		ks, ss := c16SentinelOf(kvErr), c16SentinelOf(sqlErr)
		if ks != ss && (relax[0] != "" || relax[1] != "") {
			relUsed[relax[0]+relax[1]] = true
		} else if ks != ss {
			return c.errorf("%v: backends disagree on a sentinel callers "+
				"branch on: kv %q (%v) vs sql %q (%v)", op, ks, kvErr,
				ss, sqlErr)
		}
		kc, sc := c16ErrClass(kvErr), c16ErrClass(sqlErr)
		if kc != sc {
			c.labels["soft_divergence"]++
			c.softDiv = append(c.softDiv, fmt.Sprintf("%s: kv %s | sql %s",
				exp.Class, kc, sc))
		}
	}

	return c.sweep(op, exp)
}

func (c *c16Case) ownIndex(h lntypes.Hash) int {
	for i, x := range c.hashes {
		if x == h {
			return i
		}
	}

	return -1
}

func (c *c16Case) checkInFlight(b int, op c16Op, list []*paymentsdb.MPPayment,
	exp c16Exp) error {

	got := make(map[int]bool)
	for _, p := range list {
		if err := c16CheckPayment(p); err != nil {
			return c.errorf("%s: %v returned an inconsistent payment "+
				"%v: %v", c16Names[b], op, p.Info.PaymentIdentifier, err)
		}
		if p.Status != paymentsdb.StatusInFlight &&
			p.Status != paymentsdb.StatusInitiated {

			return c.errorf("%s: %v returned a %v payment",
				c16Names[b], op, p.Status)
		}
		hi := c.ownIndex(p.Info.PaymentIdentifier)
		if hi < 0 {
			if c.exclusive {
				return c.errorf("%s: %v returned an unknown payment "+
					"%v", c16Names[b], op,
					p.Info.PaymentIdentifier)
			}

			continue
		}
		if got[hi] {
			return c.errorf("%s: %v lists h%d twice", c16Names[b], op, hi)
		}
		got[hi] = true
		if v, w := c16ViewOf(p), c.model.view(c.hashes[hi]); !c16ViewsEqual(v, w) {
			return c.errorf("%s: %v lists h%d as %v, model %v",
				c16Names[b], op, hi, v, w)
		}
	}
	allowed := make(map[int]bool)
	for _, h := range exp.InFlight {
		hi := c.ownIndex(h)
		allowed[hi] = true
		if !got[hi] {
			return c.errorf("%s: %v misses in-flight payment h%d",
				c16Names[b], op, hi)
		}
	}
	for _, h := range exp.MayInFlight {
		allowed[c.ownIndex(h)] = true
	}
	var extra []int
	for hi := range got {
		if !allowed[hi] {
			extra = append(extra, hi)
		}
	}
	sort.Ints(extra)
	if len(extra) > 0 {
		return c.errorf("%s: %v lists terminal/unknown payments h%v",
			c16Names[b], op, extra)
	}

	return nil
}

// sweep re-reads every payment of the case from both stores after the
// operation: stores must agree with each other and with the model on *every*
// payment (an operation on one hash must not touch another), and the
// observed status history must be legal.
func (c *c16Case) sweep(op c16Op, exp c16Exp) error {
	for hi := range c.hashes {
		var views [2]*c16View
		for b := range c.stores.both {
			v, p, err := c.fetch(b, hi)
			if err != nil {
				return c.errorf("%s: FetchPayment(h%d) after %v: %v",
					c16Names[b], hi, op, err)
			}
			if p != nil {
				if err := c16CheckPayment(p); err != nil {
					return c.errorf("%s: after %v payment h%d is "+
						"inconsistent: %v (%v)", c16Names[b], op,
						hi, err, v)
				}
			}
			views[b] = v

			// History: Succeeded is final; Failed (and absent) change
			// only through a successful InitPayment of that hash.
			prev := c.last[b][hi]
			initHere := op.Kind == c16OpInit && op.H == hi && exp.OK
			if prev != nil && v != nil &&
				prev.Status == paymentsdb.StatusSucceeded &&
				v.Status != paymentsdb.StatusSucceeded {

				return c.errorf("%s: after %v payment h%d went from "+
					"Succeeded to %v", c16Names[b], op, hi, v.Status)
			}
			if prev != nil && v != nil && !initHere &&
				prev.Status == paymentsdb.StatusFailed &&
				v.Status != paymentsdb.StatusFailed {

				return c.errorf("%s: after %v payment h%d went from "+
					"Failed to %v without re-initiation", c16Names[b],
					op, hi, v.Status)
			}
			if prev == nil && v != nil && !initHere {
				return c.errorf("%s: after %v payment h%d appeared "+
					"without InitPayment", c16Names[b], op, hi)
			}
			c.last[b][hi] = v
		}
		if !c16ViewsEqual(views[0], views[1]) {
			return c.errorf("after %v the stores disagree on h%d:\n"+
				"    kv:  %v\n    sql: %v\n    model: %v", op, hi,
				views[0], views[1], c.model.view(c.hashes[hi]))
		}
		if want := c.model.view(c.hashes[hi]); !c16ViewsEqual(views[0], want) {
			return c.errorf("after %v both stores hold h%d = %v, "+
				"model %v", op, hi, views[0], want)
		}
	}

	return nil
}
