//go:build verif

package paymentsdb_test

// C16 — concurrency: 2-4 writer goroutines, each owning disjoint payment
// hashes (the interface's documented precondition: calls for one payment hash
// are serialised by the caller — the control tower holds a per-hash mutex),
// plus reader goroutines that fetch any payment and the in-flight list. Every
// writer's per-hash answers must equal the sequential model; everything a
// reader sees must satisfy the model-independent invariants. The KV store
// keeps bbolt's default batch delay here, so calls of different goroutines
// really are coalesced into one bbolt transaction.

import (
	"fmt"
	"sync"
	"sync/atomic"
	"testing"

	"github.com/lightningnetwork/lnd/internal/verif/vstats"
	"github.com/lightningnetwork/lnd/lntypes"
	paymentsdb "github.com/lightningnetwork/lnd/payments/db"
	"pgregory.net/rapid"
)

type c16ReadOp struct {
	InFlight bool
	Backend  int
	Hash     int // index into all hashes of the case
}

func TestVerifC16Concurrent(t *testing.T) {
	st := vstats.New("TestVerifC16Concurrent")
	defer st.Flush()

	stores := c16NewStores(t, false)
	maxOps := vstats.EnvInt("VERIF_C16_CONC_OPS", 16)
	maxReads := vstats.EnvInt("VERIF_C16_READS", 400)

	rapid.Check(t, func(t *rapid.T) {
		for b, db := range stores.both {
			if err := c16Purge(db); err != nil {
				t.Fatalf("%s: cannot empty the store between "+
					"cases: %v", c16Names[b], err)
			}
		}

		// Plan: every writer's operation list is drawn up front against
		// a dry-run model (rapid.T is not safe for concurrent use, and
		// per-hash outcomes do not depend on the interleaving).
		nWriters := rapid.IntRange(2, 4).Draw(t, "writers")
		type plan struct {
			hashes []lntypes.Hash
			ops    []c16Op
			idBase uint64
		}
		plans := make([]plan, nWriters)
		var all []lntypes.Hash
		excluded := make(map[string]int)
		outside := 0
		for w := range plans {
			hs := []lntypes.Hash{c16FreshHash(), c16FreshHash()}
			all = append(all, hs...)
			dry := c16NewCase(nil, hs, false)
			g := &c16Gen{t: t, c: dry, global: false,
				excluded: excluded}
			n := rapid.IntRange(4, maxOps).Draw(t, "nOps")
			for i := 0; i < n; i++ {
				op := g.op()
				dry.applyModel(op)
				plans[w].ops = append(plans[w].ops, op)
			}
			plans[w].hashes = hs
			plans[w].idBase = dry.idBase
			outside += g.outside
		}
		nReaders := rapid.IntRange(1, 2).Draw(t, "readers")
		readPlans := make([][]c16ReadOp, nReaders)
		for r := range readPlans {
			n := rapid.IntRange(3, 12).Draw(t, "nReads")
			for i := 0; i < n; i++ {
				readPlans[r] = append(readPlans[r], c16ReadOp{
					InFlight: rapid.IntRange(0, 2).Draw(t, "rdKind") == 0,
					Backend:  rapid.IntRange(0, 1).Draw(t, "rdBackend"),
					Hash:     rapid.IntRange(0, len(all)-1).Draw(t, "rdHash"),
				})
			}
		}

		// Run.
		var (
			wg       sync.WaitGroup
			rwg      sync.WaitGroup
			done     atomic.Bool
			cases    = make([]*c16Case, nWriters)
			errs     = make([]error, nWriters)
			readErrs = make([]error, nReaders)
			reads    = make([]int, nReaders)
		)
		for w := range plans {
			cases[w] = c16NewCase(stores, plans[w].hashes, false)
			cases[w].idBase = plans[w].idBase
			wg.Add(1)
			go func(w int) {
				defer wg.Done()
				for _, op := range plans[w].ops {
					if err := cases[w].step(op); err != nil {
						errs[w] = err
						return
					}
				}
			}(w)
		}
		for r := range readPlans {
			rwg.Add(1)
			go func(r int) {
				defer rwg.Done()
				for i := 0; i < maxReads; i++ {
					if done.Load() && i >= len(readPlans[r]) {
						return
					}
					ro := readPlans[r][i%len(readPlans[r])]
					db := stores.both[ro.Backend]
					var ps []*paymentsdb.MPPayment
					if ro.InFlight {
						l, err := db.FetchInFlightPayments(c16Ctx)
						if err != nil {
							if !c16Busy(err) {
								readErrs[r] = fmt.Errorf("%s: "+
									"FetchInFlightPayments: %w",
									c16Names[ro.Backend], err)
							}
							return
						}
						for _, p := range l {
							if p.Status != paymentsdb.StatusInFlight &&
								p.Status != paymentsdb.StatusInitiated {

								readErrs[r] = fmt.Errorf("%s: "+
									"FetchInFlightPayments "+
									"returned a %v payment",
									c16Names[ro.Backend], p.Status)
								return
							}
						}
						ps = l
					} else {
						p, err := db.FetchPayment(c16Ctx, all[ro.Hash])
						if err == nil {
							ps = append(ps, p)
						}
					}
					for _, p := range ps {
						if err := c16CheckPayment(p); err != nil {
							readErrs[r] = fmt.Errorf("%s: a "+
								"concurrent reader saw an "+
								"inconsistent payment: %v (%v)",
								c16Names[ro.Backend], err,
								c16ViewOf(p))
							return
						}
					}
					reads[r]++
				}
			}(r)
		}
		wg.Wait()
		done.Store(true)
		rwg.Wait()

		busy := false
		for _, c := range cases {
			busy = busy || c.busy
		}
		if busy {
			st.Count("inconclusive", 1)
			t.Skip("sqlite lock timeout: inconclusive")
		}
		for w, err := range errs {
			if err != nil {
				t.Fatalf("C16 violated (writer %d of %d, disjoint "+
					"hashes): %v", w, nWriters, err)
			}
		}
		for _, err := range readErrs {
			if err != nil {
				t.Fatalf("C16 violated: %v", err)
			}
		}

		// Evidence: one case = one concurrent history.
		merged := c16NewCase(nil, nil, false)
		for w, c := range cases {
			for k, n := range c.labels {
				merged.labels[k] += n
			}
			for k, n := range c.known {
				merged.known[k] += n
			}
			merged.softDiv = append(merged.softDiv, c.softDiv...)
			for i, h := range c.hist {
				merged.hist = append(merged.hist,
					fmt.Sprintf("w%d: %s", w, h))
				merged.fp = append(merged.fp,
					fmt.Sprintf("w%d: %s", w, c.fp[i]))
			}
		}
		g := &c16Gen{excluded: excluded, outside: outside}
		nr := 0
		for _, n := range reads {
			nr += n
		}
		st.Count("concurrent_reads", int64(nr))
		c16Record(st, merged, g, fmt.Sprintf("writers=%d", nWriters))
	})
}
