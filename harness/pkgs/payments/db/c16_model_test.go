//go:build verif

package paymentsdb_test

// C16 — reference model. Written from the documentation, not from the
// implementation's control flow:
//   * status: the truth table in payment_status.go (c16Table);
//   * which statuses may be initialised / updated / removed: the comments on
//     PaymentControl in interface.go and on initializable / updatable /
//     removable;
//   * which attempt may be admitted: the doc comments of the Err* values in
//     errors.go (each states its condition) — the model computes the *set*
//     of violated conditions, the stores must fail with one of them;
//   * Fail: "mark the payment as failed as long as it is known".

import (
	"fmt"
	"sort"

	"github.com/lightningnetwork/lnd/lntypes"
	paymentsdb "github.com/lightningnetwork/lnd/payments/db"
)

type c16MPay struct {
	Value  int64
	Reason int // -1 none
	Atts   map[uint64]*c16Att
}

type c16Model struct {
	pays  map[lntypes.Hash]*c16MPay
	owner map[uint64]lntypes.Hash // attempt id -> payment currently holding it
}

func c16NewModel() *c16Model {
	return &c16Model{
		pays:  make(map[lntypes.Hash]*c16MPay),
		owner: make(map[uint64]lntypes.Hash),
	}
}

func (p *c16MPay) sortedIDs() []uint64 {
	ids := make([]uint64, 0, len(p.Atts))
	for id := range p.Atts {
		ids = append(ids, id)
	}
	sort.Slice(ids, func(i, j int) bool { return ids[i] < ids[j] })

	return ids
}

func (p *c16MPay) flags() (inflight, settled, failed bool) {
	for _, a := range p.Atts {
		switch a.State {
		case c16InFlight:
			inflight = true
		case c16Settled:
			settled = true
		case c16Failed:
			failed = true
		}
	}

	return
}

func (p *c16MPay) status() paymentsdb.PaymentStatus {
	i, s, f := p.flags()

	return c16TableStatus(i, s, f, p.Reason >= 0)
}

// sent is the amount that is settled or still in flight.
func (p *c16MPay) sent() int64 {
	var s int64
	for _, a := range p.Atts {
		if a.State != c16Failed {
			s += a.Amt
		}
	}

	return s
}

func (m *c16Model) view(h lntypes.Hash) *c16View {
	p := m.pays[h]
	if p == nil {
		return nil
	}
	v := &c16View{Value: p.Value, Status: p.status(), Reason: p.Reason}
	for _, id := range p.sortedIDs() {
		v.Atts = append(v.Atts, *p.Atts[id])
	}

	return v
}

// c16Exp is what the documentation promises for one call.
type c16Exp struct {
	OK bool
	// AnyOf: when the call must fail and the documentation names the
	// error, the returned error must match (errors.Is) one of these.
	AnyOf []error
	// Class is a label for evidence.
	Class string
	// Count is DeletePayments' return value.
	Count int
	// FetchInFlightPayments: payments whose status is InFlight must be
	// returned; payments that are merely Initiated may be (the interface
	// says "status InFlight", both stores document "non-terminal").
	InFlight    []lntypes.Hash
	MayInFlight []lntypes.Hash
	// Reinit marks an InitPayment that revives a failed payment.
	Reinit bool
	// UnknownPayment marks a refusal because the hash is not stored.
	UnknownPayment bool
	// DupID marks a RegisterAttempt refused only because the attempt id
	// is already recorded under the same payment.
	DupID bool
}

func c16Refuse(class string, anyOf ...error) c16Exp {
	return c16Exp{Class: class, AnyOf: anyOf}
}

func (m *c16Model) dropAttempts(p *c16MPay, onlyFailed bool) {
	for id, a := range p.Atts {
		if onlyFailed && a.State != c16Failed {
			continue
		}
		delete(p.Atts, id)
		delete(m.owner, id)
	}
}

func (m *c16Model) Init(h lntypes.Hash, value int64) c16Exp {
	p := m.pays[h]
	reinit := false
	if p != nil {
		switch p.status() {
		case paymentsdb.StatusInitiated:
			return c16Refuse("init:ErrPaymentExists",
				paymentsdb.ErrPaymentExists)
		case paymentsdb.StatusInFlight:
			return c16Refuse("init:ErrPaymentInFlight",
				paymentsdb.ErrPaymentInFlight)
		case paymentsdb.StatusSucceeded:
			return c16Refuse("init:ErrAlreadyPaid",
				paymentsdb.ErrAlreadyPaid)
		}
		// Failed: "should allow the user making a subsequent payment".
		m.dropAttempts(p, false)
		reinit = true
	}
	m.pays[h] = &c16MPay{Value: value, Reason: -1,
		Atts: make(map[uint64]*c16Att)}
	if reinit {
		return c16Exp{OK: true, Class: "init:reinit-after-failure",
			Reinit: true}
	}

	return c16Exp{OK: true, Class: "init:new"}
}

// admission returns the documented conditions a new attempt violates.
func (p *c16MPay) admission(s c16Spec) []error {
	switch p.status() {
	case paymentsdb.StatusSucceeded:
		return []error{paymentsdb.ErrPaymentAlreadySucceeded}
	case paymentsdb.StatusFailed:
		return []error{paymentsdb.ErrPaymentAlreadyFailed}
	}
	var bad []error
	_, settled, _ := p.flags()
	if settled {
		bad = append(bad, paymentsdb.ErrPaymentPendingSettled)
	}
	if p.Reason >= 0 {
		bad = append(bad, paymentsdb.ErrPaymentPendingFailed)
	}
	if len(bad) > 0 {
		return bad
	}

	blinded := s.Kind == c16Blinded || s.Kind == c16BlindedMPP
	if s.Kind == c16BlindedMPP {
		bad = append(bad, paymentsdb.ErrMPPRecordInBlindedPayment)
	}
	if blinded && s.Total == 0 {
		bad = append(bad, paymentsdb.ErrBlindedPaymentMissingTotalAmount)
	}
	for _, id := range p.sortedIDs() {
		a := p.Atts[id]
		if a.State != c16InFlight {
			continue
		}
		aBlinded := a.Kind == c16Blinded
		switch {
		case blinded != aBlinded:
			bad = append(bad,
				paymentsdb.ErrMixedBlindedAndNonBlindedPayments)
			if blinded && a.Kind == c16MPP {
				bad = append(bad,
					paymentsdb.ErrMPPRecordInBlindedPayment)
			}
		case blinded:
			if s.Total != a.Total {
				bad = append(bad,
					paymentsdb.ErrBlindedPaymentTotalAmountMismatch)
			}
		case s.Kind == c16Plain && a.Kind == c16MPP:
			bad = append(bad, paymentsdb.ErrMPPayment)
		case s.Kind == c16MPP && a.Kind == c16Plain:
			bad = append(bad, paymentsdb.ErrNonMPPayment)
		case s.Kind == c16MPP:
			if s.Addr != a.Addr {
				bad = append(bad,
					paymentsdb.ErrMPPPaymentAddrMismatch)
			}
			if s.Total != a.Total {
				bad = append(bad,
					paymentsdb.ErrMPPTotalAmountMismatch)
			}
		}
	}
	if s.Kind == c16Plain && s.Amt != p.Value {
		bad = append(bad, paymentsdb.ErrValueMismatch)
	}
	if p.sent()+s.Amt > p.Value {
		bad = append(bad, paymentsdb.ErrValueExceedsAmt)
	}

	return bad
}

func c16ClassOf(prefix string, errs []error) string {
	names := map[error]string{
		paymentsdb.ErrPaymentAlreadySucceeded:           "ErrPaymentAlreadySucceeded",
		paymentsdb.ErrPaymentAlreadyFailed:              "ErrPaymentAlreadyFailed",
		paymentsdb.ErrPaymentPendingSettled:             "ErrPaymentPendingSettled",
		paymentsdb.ErrPaymentPendingFailed:              "ErrPaymentPendingFailed",
		paymentsdb.ErrBlindedPaymentMissingTotalAmount:  "ErrBlindedMissingTotal",
		paymentsdb.ErrMixedBlindedAndNonBlindedPayments: "ErrMixedBlinded",
		paymentsdb.ErrMPPRecordInBlindedPayment:         "ErrMPPRecordInBlinded",
		paymentsdb.ErrBlindedPaymentTotalAmountMismatch: "ErrBlindedTotalMismatch",
		paymentsdb.ErrMPPayment:                         "ErrMPPayment",
		paymentsdb.ErrNonMPPayment:                      "ErrNonMPPayment",
		paymentsdb.ErrMPPPaymentAddrMismatch:            "ErrMPPAddrMismatch",
		paymentsdb.ErrMPPTotalAmountMismatch:            "ErrMPPTotalMismatch",
		paymentsdb.ErrValueMismatch:                     "ErrValueMismatch",
		paymentsdb.ErrValueExceedsAmt:                   "ErrValueExceedsAmt",
	}
	// The first violated condition names the class; ErrValueExceedsAmt is
	// preferred when it is the only amount problem.
	return prefix + names[errs[0]]
}

func (m *c16Model) Register(h lntypes.Hash, s c16Spec) c16Exp {
	p := m.pays[h]
	if p == nil {
		e := c16Refuse("register:unknown-payment",
			paymentsdb.ErrPaymentNotInitiated)
		e.UnknownPayment = true

		return e
	}
	if bad := p.admission(s); len(bad) > 0 {
		e := c16Refuse(c16ClassOf("register:", bad), bad...)
		// If the id is also a duplicate, refusing for that reason is as
		// correct as naming one of the violated admission conditions
		// (the order of the store's checks is not part of the
		// property).
		if _, dup := p.Atts[s.ID]; dup {
			e.DupID = true
		}

		return e
	}
	if _, dup := p.Atts[s.ID]; dup {
		// "AttemptID is the unique ID used for this attempt": a second
		// record under the same id would erase the first.
		e := c16Refuse("register:duplicate-id")
		e.DupID = true

		return e
	}
	if other, used := m.owner[s.ID]; used && other != h {
		panic("generator produced an attempt id of another payment")
	}
	p.Atts[s.ID] = &c16Att{ID: s.ID, Amt: s.Amt, Fee: s.Fee, Kind: s.Kind,
		Total: s.Total, Addr: s.Addr, State: c16InFlight,
		RouteFP: c16RouteFP(&c16MakeAttempt(h, s).Route)}
	if s.Kind == c16Plain {
		p.Atts[s.ID].Total, p.Atts[s.ID].Addr = 0, 0
	}
	if s.Kind == c16Blinded {
		p.Atts[s.ID].Addr = 0
	}
	m.owner[s.ID] = h

	return c16Exp{OK: true, Class: "register:ok"}
}

// resolve is SettleAttempt (settle=true) or FailAttempt.
func (m *c16Model) resolve(h lntypes.Hash, id uint64, settle bool,
	failWhy int) c16Exp {

	pfx := "failattempt:"
	if settle {
		pfx = "settle:"
	}
	p := m.pays[h]
	if p == nil {
		e := c16Refuse(pfx+"unknown-payment",
			paymentsdb.ErrPaymentNotInitiated)
		e.UnknownPayment = true

		return e
	}
	switch p.status() {
	case paymentsdb.StatusSucceeded:
		return c16Refuse(pfx+"ErrPaymentAlreadySucceeded",
			paymentsdb.ErrPaymentAlreadySucceeded)
	case paymentsdb.StatusFailed:
		return c16Refuse(pfx+"ErrPaymentAlreadyFailed",
			paymentsdb.ErrPaymentAlreadyFailed)
	}
	a := p.Atts[id]
	if a == nil {
		if _, foreign := m.owner[id]; foreign {
			return c16Refuse(pfx + "attempt-of-other-payment")
		}

		return c16Refuse(pfx + "unknown-attempt")
	}
	switch a.State {
	case c16Settled:
		return c16Refuse(pfx + "attempt-already-settled")
	case c16Failed:
		return c16Refuse(pfx + "attempt-already-failed")
	}
	if settle {
		a.State = c16Settled
		a.Preimage = c16Preimage(id)
	} else {
		a.State = c16Failed
		a.FailWhy = failWhy
	}

	return c16Exp{OK: true, Class: pfx + "ok"}
}

func (m *c16Model) Fail(h lntypes.Hash, reason int) c16Exp {
	p := m.pays[h]
	if p == nil {
		e := c16Refuse("fail:unknown-payment",
			paymentsdb.ErrPaymentNotInitiated)
		e.UnknownPayment = true

		return e
	}
	class := fmt.Sprintf("fail:ok-from-%v", p.status())
	p.Reason = reason

	return c16Exp{OK: true, Class: class}
}

// Delete is DeletePayment(h, failedOnly); DeleteFailedAttempts(h) is
// Delete(h, true).
func (m *c16Model) Delete(h lntypes.Hash, failedAttemptsOnly bool,
	pfx string) c16Exp {

	p := m.pays[h]
	if p == nil {
		e := c16Refuse(pfx+"unknown-payment",
			paymentsdb.ErrPaymentNotInitiated)
		e.UnknownPayment = true

		return e
	}
	if p.status() == paymentsdb.StatusInFlight {
		return c16Refuse(pfx+"ErrPaymentInFlight",
			paymentsdb.ErrPaymentInFlight)
	}
	class := fmt.Sprintf("%sok-from-%v", pfx, p.status())
	m.dropAttempts(p, failedAttemptsOnly)
	if !failedAttemptsOnly {
		delete(m.pays, h)
	}

	return c16Exp{OK: true, Class: class}
}

func (m *c16Model) sortedHashes() []lntypes.Hash {
	hs := make([]lntypes.Hash, 0, len(m.pays))
	for h := range m.pays {
		hs = append(hs, h)
	}
	sort.Slice(hs, func(i, j int) bool {
		return string(hs[i][:]) < string(hs[j][:])
	})

	return hs
}

func (m *c16Model) DeletePayments(failedOnly, failedAttemptsOnly bool) c16Exp {
	n := 0
	for _, h := range m.sortedHashes() {
		p := m.pays[h]
		st := p.status()
		if st == paymentsdb.StatusInFlight {
			continue
		}
		if failedOnly && st != paymentsdb.StatusFailed {
			continue
		}
		m.dropAttempts(p, failedAttemptsOnly)
		if !failedAttemptsOnly {
			delete(m.pays, h)
			n++
		}
	}

	return c16Exp{OK: true, Count: n, Class: fmt.Sprintf(
		"deletepayments:failedOnly=%v,attemptsOnly=%v", failedOnly,
		failedAttemptsOnly)}
}

func (m *c16Model) Fetch(h lntypes.Hash) c16Exp {
	if m.pays[h] == nil {
		e := c16Refuse("fetch:unknown-payment",
			paymentsdb.ErrPaymentNotInitiated)
		e.UnknownPayment = true

		return e
	}

	return c16Exp{OK: true, Class: "fetch:ok"}
}

func (m *c16Model) InFlight() c16Exp {
	e := c16Exp{OK: true, Class: "inflight"}
	for _, h := range m.sortedHashes() {
		switch m.pays[h].status() {
		case paymentsdb.StatusInFlight:
			e.InFlight = append(e.InFlight, h)
		case paymentsdb.StatusInitiated:
			e.MayInFlight = append(e.MayInFlight, h)
		}
	}

	return e
}
