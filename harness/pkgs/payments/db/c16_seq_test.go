//go:build verif

package paymentsdb_test

// C16 — sequential rapid state machine over both stores.

import (
	"fmt"
	"sort"
	"strings"
	"testing"

	"github.com/lightningnetwork/lnd/internal/verif/vstats"
	"github.com/lightningnetwork/lnd/lntypes"
	paymentsdb "github.com/lightningnetwork/lnd/payments/db"
	"pgregory.net/rapid"
)

// c16Gen draws operations; it looks at the model only to aim at interesting
// parameters (exact fit, one over, ids in a given state) — every choice is a
// rapid draw.
type c16Gen struct {
	t *rapid.T
	c *c16Case

	// global: DeletePayments may be generated (sequential test only).
	global bool

	// retired attempt ids (deleted from the stores), available for re-use.
	excluded map[string]int
	outside  int
}

func c16Pick[T any](t *rapid.T, label string, weights []int, vals []T) T {
	total := 0
	for _, w := range weights {
		total += w
	}
	x := rapid.IntRange(0, total-1).Draw(t, label)
	for i, w := range weights {
		if x < w {
			return vals[i]
		}
		x -= w
	}

	return vals[len(vals)-1]
}

func (g *c16Gen) hashIndex() int {
	n := len(g.c.hashes)
	if n == 1 {
		return 0
	}
	w := []int{5, 3, 2, 1, 1, 1}[:n]
	ix := make([]int, n)
	for i := range ix {
		ix[i] = i
	}

	return c16Pick(g.t, "hash", w, ix)
}

func (g *c16Gen) value() int64 {
	if rapid.IntRange(0, 3).Draw(g.t, "valueKind") == 0 {
		return int64(rapid.IntRange(1, 1000).Draw(g.t, "value"))
	}

	return rapid.SampledFrom([]int64{1, 2, 3, 10, 100, 1000}).Draw(g.t,
		"valueRound")
}

// ids of the model's attempts by class.
func (g *c16Gen) idsOf(hi int, states ...int) []uint64 {
	p := g.c.model.pays[g.c.hashes[hi]]
	if p == nil {
		return nil
	}
	var out []uint64
	for _, id := range p.sortedIDs() {
		for _, s := range states {
			if p.Atts[id].State == s {
				out = append(out, id)
			}
		}
	}

	return out
}

func (g *c16Gen) foreignIDs(hi int, states ...int) []uint64 {
	var out []uint64
	for j := range g.c.hashes {
		if j != hi {
			out = append(out, g.idsOf(j, states...)...)
		}
	}
	sort.Slice(out, func(i, j int) bool { return out[i] < out[j] })

	return out
}

func (g *c16Gen) registerSpec(hi int) (c16Spec, string) {
	t := g.t
	p := g.c.model.pays[g.c.hashes[hi]]
	value, remaining := int64(1000), int64(1000)
	var ref *c16Att // an in-flight attempt to stay compatible with
	if p != nil {
		value = p.Value
		remaining = p.Value - p.sent()
		for _, id := range p.sortedIDs() {
			if p.Atts[id].State == c16InFlight {
				ref = p.Atts[id]
				break
			}
		}
	}

	s := c16Spec{
		Fee:  int64(rapid.IntRange(0, 3).Draw(t, "fee")),
		Hops: rapid.IntRange(1, 2).Draw(t, "hops"),
	}

	// Kind and MPP/blinded parameters.
	follow := ref != nil && rapid.IntRange(0, 9).Draw(t, "follow") < 8
	perturb := ref != nil && !follow &&
		rapid.Bool().Draw(t, "perturb")
	switch {
	case follow:
		s.Kind, s.Total, s.Addr = ref.Kind, ref.Total, ref.Addr

	case perturb:
		// same kind as the outstanding shard, one record field off
		s.Kind, s.Total, s.Addr = ref.Kind, ref.Total, ref.Addr
		switch {
		case ref.Kind == c16MPP && rapid.Bool().Draw(t, "perturbAddr"):
			s.Addr = ref.Addr ^ 3
		case ref.Kind == c16Plain:
			s.Kind, s.Total, s.Addr = c16MPP, value, 1
		default:
			s.Total = ref.Total + 1
		}

	default:
		s.Kind = c16Pick(t, "kind", []int{12, 4, 4, 1},
			[]string{c16MPP, c16Plain, c16Blinded, c16BlindedMPP})
		switch s.Kind {
		case c16MPP:
			s.Total = c16Pick(t, "mppTotal", []int{8, 1, 1},
				[]int64{value, value + 1, 1})
			s.Addr = c16Pick(t, "mppAddr", []int{8, 2}, []byte{1, 2})
		case c16Blinded, c16BlindedMPP:
			s.Total = c16Pick(t, "blTotal", []int{8, 1, 1},
				[]int64{value, 0, value + 1})
			if s.Kind == c16BlindedMPP {
				s.Addr = 1
			}
		}
	}

	// Amount: aim at the boundary.
	amtKind := c16Pick(t, "amtKind", []int{5, 4, 3, 4, 3, 1},
		[]string{"fit", "over1", "full", "half", "any", "one"})
	if s.Kind == c16Plain && rapid.IntRange(0, 9).Draw(t, "plainFull") < 7 {
		amtKind = "full"
	}
	switch amtKind {
	case "fit":
		s.Amt = remaining
	case "over1":
		s.Amt = remaining + 1
	case "full":
		s.Amt = value
	case "half":
		s.Amt = (remaining + 1) / 2
	case "any":
		s.Amt = int64(rapid.IntRange(1, int(value)).Draw(t, "amt"))
	case "one":
		s.Amt = 1
	}
	if s.Amt < 1 {
		s.Amt = 1
	}

	// Attempt id: fresh from the node-wide sequencer, or one that is
	// already recorded under this payment.
	idClass := "fresh"
	own := g.idsOf(hi, c16InFlight, c16Settled, c16Failed)
	switch c16Pick(t, "idKind", []int{17, 2, 1}, []string{"fresh", "dup", "foreign"}) {
	case "dup":
		if len(own) == 0 {
			break
		}
		cand := rapid.SampledFrom(own).Draw(t, "dupID")
		probe := s
		probe.ID = cand
		if p != nil && len(p.admission(probe)) == 0 &&
			c16Known(c16KeyKVDupID) {

			// Known: KV overwrites the recorded attempt. Excluded
			// by construction.
			g.excluded[c16KeyKVDupID]++
			break
		}
		s.ID, idClass = cand, "duplicate"
	case "foreign":
		// The same id under two payments cannot come out of the
		// node-wide sequencer: outside the domain.
		if len(g.foreignIDs(hi, c16InFlight, c16Settled, c16Failed)) > 0 {
			g.outside++
		}
	}
	if idClass == "fresh" {
		s.ID = c16FreshID()
	}

	return s, idClass
}

func (g *c16Gen) resolveID(hi int) (uint64, string) {
	t := g.t
	classes := []string{"own-inflight", "own-resolved", "unknown",
		"foreign-inflight", "foreign-resolved"}
	class := c16Pick(t, "idClass", []int{12, 3, 2, 2, 1}, classes)

	p := g.c.model.pays[g.c.hashes[hi]]
	updatable := p != nil &&
		(p.status() == paymentsdb.StatusInitiated ||
			p.status() == paymentsdb.StatusInFlight)

	var cand []uint64
	switch class {
	case "own-inflight":
		cand = g.idsOf(hi, c16InFlight)
	case "own-resolved":
		cand = g.idsOf(hi, c16Settled, c16Failed)
	case "foreign-inflight":
		cand = g.foreignIDs(hi, c16InFlight)
		if len(cand) > 0 && updatable && c16Known(c16KeySQLForeign) {
			// Known: the SQL store resolves by attempt index only
			// and would mutate the other payment. Excluded by
			// construction.
			g.excluded[c16KeySQLForeign]++
			cand = nil
		}
	case "foreign-resolved":
		cand = g.foreignIDs(hi, c16Settled, c16Failed)
	}
	if len(cand) == 0 {
		if class != "unknown" {
			// fall back to an own in-flight attempt if there is one
			if own := g.idsOf(hi, c16InFlight); len(own) > 0 {
				return rapid.SampledFrom(own).Draw(t, "ownID"),
					"own-inflight"
			}
		}

		return c16FreshID(), "unknown"
	}

	return rapid.SampledFrom(cand).Draw(t, "id"), class
}

func (g *c16Gen) op() c16Op {
	t := g.t
	hi := g.hashIndex()
	p := g.c.model.pays[g.c.hashes[hi]]

	// rapid favours small draws, i.e. the first entries.
	kinds := []string{c16OpRegister, c16OpSettle, c16OpFailAtt, c16OpInit,
		c16OpFail, c16OpDelFailed, c16OpDelPay, c16OpFetch, c16OpInFlight,
		c16OpDelPays}
	var w []int
	if p == nil {
		// mostly create it; otherwise calls on an unknown payment
		kinds = []string{c16OpInit, c16OpRegister, c16OpSettle,
			c16OpFailAtt, c16OpFail, c16OpDelFailed, c16OpDelPay,
			c16OpFetch, c16OpInFlight, c16OpDelPays}
		w = []int{40, 3, 2, 2, 2, 2, 2, 2, 1, 1}
	} else {
		w = []int{36, 14, 14, 4, 6, 4, 3, 3, 3, 3}
		_, settled, _ := p.flags()
		switch p.status() {
		// a payment that cannot progress any more: lean towards the
		// calls that must now be refused or that recycle it
		case paymentsdb.StatusSucceeded:
			w = []int{14, 6, 6, 20, 8, 8, 8, 4, 3, 4}
		case paymentsdb.StatusFailed:
			w = []int{12, 5, 5, 22, 5, 10, 12, 4, 3, 5}
		case paymentsdb.StatusInFlight:
			if settled || p.Reason >= 0 {
				// pending terminal: more attempts must be refused,
				// outstanding ones must still resolve
				w = []int{30, 16, 16, 6, 4, 4, 3, 3, 3, 3}
			}
		}
	}
	if !g.global {
		w[len(w)-1] = 0
	}
	op := c16Op{Kind: c16Pick(t, "op", w, kinds), H: hi}

	switch op.Kind {
	case c16OpInit:
		op.Value = g.value()
	case c16OpRegister:
		op.Spec, op.IDClass = g.registerSpec(hi)
	case c16OpSettle:
		op.ID, op.IDClass = g.resolveID(hi)
	case c16OpFailAtt:
		op.ID, op.IDClass = g.resolveID(hi)
		op.Reason = rapid.IntRange(0, 3).Draw(t, "htlcFailReason")
	case c16OpFail:
		op.Reason = rapid.IntRange(0, 5).Draw(t, "failureReason")
	case c16OpDelPay:
		op.AttemptsOnly = rapid.Bool().Draw(t, "failedAttemptsOnly")
	case c16OpDelPays:
		op.FailedOnly = rapid.Bool().Draw(t, "failedOnly")
		op.AttemptsOnly = rapid.Bool().Draw(t, "failedAttemptsOnly")
	}

	return op
}

// c16NonTrivial is the property's non-trivial rule evaluated on the classes a
// history reached.
func c16NonTrivial(labels map[string]int) bool {
	for _, k := range []string{
		"register:ErrValueExceedsAmt",
		"register:ErrPaymentPendingSettled",
		"init:ErrAlreadyPaid",
		"init:reinit-after-failure",
	} {
		if labels[k] > 0 {
			return true
		}
	}

	return false
}

func c16Record(st *vstats.Collector, c *c16Case, g *c16Gen, extra ...string) {
	labels := append([]string{}, extra...)
	for k := range c.labels {
		labels = append(labels, k)
	}
	sort.Strings(labels)
	var sample any
	nt := c16NonTrivial(c.labels)
	if nt && st.WantSample() {
		sample = map[string]any{"history": c.hist, "soft": c.softDiv}
	}
	st.Case(vstats.FP(strings.Join(c.fp, ";")), nt, labels, sample)
	st.Count("ops", int64(len(c.hist)))
	for k, n := range c.known {
		for i := 0; i < n; i++ {
			st.Known(k)
		}
		st.Count("excluded_known", int64(n))
	}
	if g != nil {
		for k, n := range g.excluded {
			for i := 0; i < n; i++ {
				st.Known(k)
			}
			st.Count("excluded_known", int64(n))
		}
		st.Count("outside_domain", int64(g.outside))
	}
	st.Count("soft_divergences", int64(len(c.softDiv)))
	for _, s := range c.softDiv {
		st.Count("soft:"+s, 1)
	}
}

// TestVerifC16Sequential: generated histories over three payment hashes
// against both stores, judged by model, invariants and differential.
func TestVerifC16Sequential(t *testing.T) {
	st := vstats.New("TestVerifC16Sequential")
	defer st.Flush()

	stores := c16NewStores(t, true)
	maxOps := vstats.EnvInt("VERIF_C16_OPS", 40)

	rapid.Check(t, func(t *rapid.T) {
		for b, db := range stores.both {
			if err := c16Purge(db); err != nil {
				t.Fatalf("%s: cannot empty the store between "+
					"cases: %v", c16Names[b], err)
			}
		}
		hashes := []lntypes.Hash{c16FreshHash(), c16FreshHash(),
			c16FreshHash()}
		c := c16NewCase(stores, hashes, true)
		g := &c16Gen{t: t, c: c, global: true,
			excluded: make(map[string]int)}

		n := rapid.IntRange(8, maxOps).Draw(t, "nOps")
		for i := 0; i < n; i++ {
			if err := c.step(g.op()); err != nil {
				t.Fatalf("C16 violated: %v", err)
			}
		}
		c16Record(st, c, g, fmt.Sprintf("len=%d0s", len(c.hist)/10))
	})
}
