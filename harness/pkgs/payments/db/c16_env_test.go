//go:build verif

package paymentsdb_test

// C16 — shared plumbing: both payment stores (KV on bbolt, SQL on sqlite) in
// one process, attempt construction, a backend-neutral view of an MPPayment,
// the documented status truth table written out literally, and the
// model-independent invariants that are evaluated on every MPPayment either
// store hands back.

import (
	"context"
	"crypto/sha256"
	"database/sql"
	"encoding/binary"
	"errors"
	"fmt"
	"os"
	"reflect"
	"sort"
	"strings"
	"sync/atomic"
	"testing"
	"time"

	"github.com/btcsuite/btcd/btcec/v2"
	"github.com/lightningnetwork/lnd/internal/verif/vstats"
	"github.com/lightningnetwork/lnd/kvdb"
	"github.com/lightningnetwork/lnd/lntypes"
	"github.com/lightningnetwork/lnd/lnwire"
	paymentsdb "github.com/lightningnetwork/lnd/payments/db"
	"github.com/lightningnetwork/lnd/record"
	"github.com/lightningnetwork/lnd/routing/route"
	"github.com/lightningnetwork/lnd/sqldb"
	"go.etcd.io/bbolt"
)

// Known-finding keys (see notes/C16.md). A key is honoured when it is listed
// as "known" in known_findings.json, or — for runs made before the lead has
// recorded it — when it is named in $VERIF_C16_ASSUME_KNOWN (comma separated,
// "all" for every key).
const (
	// SQLStore.SettleAttempt/FailAttempt resolve by attempt index only:
	// an id that belongs to another payment succeeds and mutates it.
	c16KeySQLForeign = "C16:sql-settle-foreign-attempt"

	// KVStore.RegisterAttempt with an attempt id that is already recorded
	// under the same payment silently overwrites the earlier attempt
	// (SQL refuses).
	c16KeyKVDupID = "C16:kv-register-duplicate-attempt-id"

	// SQLStore.RegisterAttempt on an unknown payment returns a raw
	// sql.ErrNoRows instead of ErrPaymentNotInitiated.
	c16KeySQLRegUnknown = "C16:sql-register-unknown-sentinel"

	// KVStore.DeletePayment/DeleteFailedAttempts on an unknown payment
	// return "non bucket element ..." instead of ErrPaymentNotInitiated.
	c16KeyKVDelUnknown = "C16:kv-delete-unknown-sentinel"
)

func c16Known(key string) bool {
	if vstats.IsKnown(key) {
		return true
	}
	extra := os.Getenv("VERIF_C16_ASSUME_KNOWN")
	if extra == "all" {
		return true
	}
	for _, k := range strings.Split(extra, ",") {
		if strings.TrimSpace(k) == key {
			return true
		}
	}

	return false
}

var c16Ctx = context.Background()

// c16Stores holds one instance of each backend. Creating a migrated sqlite
// file costs ~1.7 s, so they are created once per test function and every
// generated case starts by purging them.
type c16Stores struct {
	kv   paymentsdb.DB
	sql  paymentsdb.DB
	both [2]paymentsdb.DB
}

var c16Names = [2]string{"kv", "sql"}

// c16NewStores opens both stores under t.TempDir(). fastBatch removes bbolt's
// 10 ms Batch coalescing delay (a pure latency knob of the bbolt handle, it
// does not touch lnd code); the concurrent test keeps the default so that
// calls of different goroutines really are coalesced into one transaction.
func c16NewStores(t *testing.T, fastBatch bool) *c16Stores {
	t.Helper()

	backend, cleanup, err := kvdb.GetTestBackend(t.TempDir(), "c16kv")
	if err != nil {
		t.Fatalf("kv backend: %v", err)
	}
	t.Cleanup(cleanup)

	if fastBatch && vstats.EnvInt("VERIF_C16_KEEP_BATCH_DELAY", 0) == 0 &&
		fmt.Sprintf("%T", backend) == "*bdb.db" {

		// walletdb's bdb.db is `type db bbolt.DB`.
		bdb := (*bbolt.DB)(reflect.ValueOf(backend).UnsafePointer())
		bdb.MaxBatchDelay = 0
	}

	kv, err := paymentsdb.NewKVStore(backend)
	if err != nil {
		t.Fatalf("NewKVStore: %v", err)
	}

	base := sqldb.NewTestSqliteDB(t).BaseDB
	exec := sqldb.NewTransactionExecutor(
		base, func(tx *sql.Tx) paymentsdb.SQLQueries {
			return base.WithTx(tx)
		},
	)
	sqlStore, err := paymentsdb.NewSQLStore(
		&paymentsdb.SQLStoreConfig{
			QueryCfg: sqldb.DefaultSQLiteConfig(),
		}, exec,
	)
	if err != nil {
		t.Fatalf("NewSQLStore: %v", err)
	}

	return &c16Stores{
		kv: kv, sql: sqlStore,
		both: [2]paymentsdb.DB{kv, sqlStore},
	}
}

// Process-wide nonces: payment hashes, attempt ids ("one node-wide
// sequencer") and session keys never repeat within a process.
var (
	c16HashCtr uint64
	c16IDCtr   uint64 = 1000
	c16KeyCtr  uint64
)

func c16FreshHash() lntypes.Hash {
	n := atomic.AddUint64(&c16HashCtr, 1)
	var b [16]byte
	copy(b[:], "c16hash")
	binary.BigEndian.PutUint64(b[8:], n)

	return lntypes.Hash(sha256.Sum256(b[:]))
}

func c16FreshID() uint64 {
	return atomic.AddUint64(&c16IDCtr, 1)
}

func c16FreshKey() *btcec.PrivateKey {
	n := atomic.AddUint64(&c16KeyCtr, 1)
	var b [16]byte
	copy(b[:], "c16key")
	binary.BigEndian.PutUint64(b[8:], n)
	h := sha256.Sum256(b[:])
	k, _ := btcec.PrivKeyFromBytes(h[:])

	return k
}

var (
	c16Vertex = func() route.Vertex {
		k, _ := btcec.PrivKeyFromBytes([]byte{
			0x2b, 0xd8, 0x06, 0xc9, 0x7f, 0x0e, 0x00, 0xaf,
			0x1a, 0x1f, 0xc3, 0x32, 0x8f, 0xa7, 0x63, 0xa9,
			0x26, 0x97, 0x23, 0xc8, 0xdb, 0x8f, 0xac, 0x4f,
			0x93, 0xaf, 0x71, 0xdb, 0x18, 0x6d, 0x6e, 0x90,
		})

		return route.NewVertex(k.PubKey())
	}()

	c16BaseTime = time.Unix(1_700_000_000, 0)

	c16BlindPoint = func() *btcec.PublicKey {
		h := sha256.Sum256([]byte("c16 blinding point"))
		k, _ := btcec.PrivKeyFromBytes(h[:])

		return k.PubKey()
	}()
)

// Attempt kinds.
const (
	c16Plain   = "plain"   // no MPP record: must carry the full amount
	c16MPP     = "mpp"     // MPP record (total, payment address)
	c16Blinded = "blinded" // blinded final hop with TotalAmtMsat
	// c16BlindedMPP: blinded final hop that also carries an MPP record;
	// never admissible (ErrMPPRecordInBlindedPayment).
	c16BlindedMPP = "blinded+mpp"
)

// c16Spec is the generated description of one HTLC attempt.
type c16Spec struct {
	ID    uint64
	Amt   int64 // receiver amount (final hop AmtToForward)
	Fee   int64 // TotalAmount - Amt
	Kind  string
	Total int64 // MPP total / blinded TotalAmtMsat
	Addr  byte  // MPP payment address tag
	Hops  int   // 1 or 2
}

func (s c16Spec) String() string {
	return fmt.Sprintf("{id=%d amt=%d fee=%d %s total=%d addr=%d hops=%d}",
		s.ID, s.Amt, s.Fee, s.Kind, s.Total, s.Addr, s.Hops)
}

func c16Addr(tag byte) [32]byte {
	var a [32]byte
	for i := range a {
		a[i] = tag
	}

	return a
}

// c16MakeAttempt builds the HTLCAttemptInfo the way lnd's own tests do:
// NewHtlcAttempt with a fresh session key, then the generated route.
func c16MakeAttempt(hash lntypes.Hash, s c16Spec) *paymentsdb.HTLCAttemptInfo {
	baseRoute := route.Route{
		TotalTimeLock: 100,
		TotalAmount:   1,
		SourcePubKey:  c16Vertex,
		Hops: []*route.Hop{{
			PubKeyBytes:      c16Vertex,
			ChannelID:        1,
			OutgoingTimeLock: 90,
			AmtToForward:     1,
		}},
	}
	at := c16BaseTime.Add(time.Duration(s.ID%100000) * time.Second)
	h := hash
	a, err := paymentsdb.NewHtlcAttempt(s.ID, c16FreshKey(), baseRoute, at, &h)
	if err != nil {
		panic(fmt.Sprintf("NewHtlcAttempt: %v", err))
	}

	final := &route.Hop{
		PubKeyBytes:      c16Vertex,
		ChannelID:        7,
		OutgoingTimeLock: 90,
		AmtToForward:     lnwire.MilliSatoshi(s.Amt),
	}
	switch s.Kind {
	case c16MPP:
		final.MPP = record.NewMPP(
			lnwire.MilliSatoshi(s.Total), c16Addr(s.Addr),
		)
	case c16Blinded:
		final.EncryptedData = []byte{2, 2, 2}
		final.TotalAmtMsat = lnwire.MilliSatoshi(s.Total)
	case c16BlindedMPP:
		final.EncryptedData = []byte{2, 2, 2}
		final.TotalAmtMsat = lnwire.MilliSatoshi(s.Total)
		final.MPP = record.NewMPP(
			lnwire.MilliSatoshi(s.Total), c16Addr(s.Addr),
		)
	}
	// Hop fields outside the admission rules, derived from the attempt id
	// (no draw of their own): metadata and custom records of the final
	// hop, and - as in every real blinded route - the blinding point on
	// the introduction hop, which for a one-hop blinded path is the final
	// hop itself.
	if s.ID%3 == 0 {
		final.Metadata = []byte{9, byte(s.ID)}
	}
	if s.ID%5 == 0 {
		final.CustomRecords = record.CustomSet{
			65536 + s.ID%7: []byte{1, byte(s.ID)},
		}
	}
	blinded := s.Kind == c16Blinded || s.Kind == c16BlindedMPP
	if blinded && s.Hops != 2 {
		final.BlindingPoint = c16BlindPoint
	}
	hops := []*route.Hop{final}
	if s.Hops == 2 {
		first := &route.Hop{
			PubKeyBytes:      c16Vertex,
			ChannelID:        5,
			OutgoingTimeLock: 95,
			AmtToForward:     lnwire.MilliSatoshi(s.Amt),
		}
		if blinded {
			first.EncryptedData = []byte{1, 3, 3}
			first.BlindingPoint = c16BlindPoint
		}
		hops = []*route.Hop{first, final}
	}
	a.Route = route.Route{
		TotalTimeLock: 100,
		TotalAmount:   lnwire.MilliSatoshi(s.Amt + s.Fee),
		SourcePubKey:  c16Vertex,
		Hops:          hops,
	}

	return &a.HTLCAttemptInfo
}

func c16Info(hash lntypes.Hash, value int64) *paymentsdb.PaymentCreationInfo {
	return &paymentsdb.PaymentCreationInfo{
		PaymentIdentifier: hash,
		Value:             lnwire.MilliSatoshi(value),
		CreationTime:      c16BaseTime,
		PaymentRequest:    []byte("c16"),
	}
}

func c16Preimage(id uint64) lntypes.Preimage {
	var b [16]byte
	copy(b[:], "c16pre")
	binary.BigEndian.PutUint64(b[8:], id)

	return lntypes.Preimage(sha256.Sum256(b[:]))
}

func c16Settle(id uint64) *paymentsdb.HTLCSettleInfo {
	return &paymentsdb.HTLCSettleInfo{
		Preimage:   c16Preimage(id),
		SettleTime: c16BaseTime.Add(time.Hour),
	}
}

func c16FailInfo(reason int) *paymentsdb.HTLCFailInfo {
	return &paymentsdb.HTLCFailInfo{
		FailTime:           c16BaseTime.Add(2 * time.Hour),
		Reason:             paymentsdb.HTLCFailReason(reason),
		FailureSourceIndex: 1,
	}
}

// Attempt states of the view.
const (
	c16InFlight = 0
	c16Settled  = 1
	c16Failed   = 2
	// c16Corrupt marks an attempt that a store reports as both settled
	// and failed; it never compares equal to a model state.
	c16Corrupt = 3
)

// c16Att / c16View are the backend-neutral rendering of an MPPayment: what
// the property calls "status, attempt set with amounts and settle/fail
// marks, failure reason".
type c16Att struct {
	ID       uint64
	Amt      int64
	Fee      int64
	Kind     string
	Total    int64
	Addr     byte
	State    int
	Preimage lntypes.Preimage
	FailWhy  int
	// RouteFP is a digest of every hop field the stores persist: what
	// FetchPayment returns for an attempt must be the route that was
	// registered (added after seeded change C16e: the SQL store lost the
	// total amount of a blinded hop that is introduction and final hop
	// at once).
	RouteFP string
}

// c16RouteFP renders the persisted fields of a route; nil and empty are the
// same, custom records are ordered by type.
func c16RouteFP(r *route.Route) string {
	var sb strings.Builder
	fmt.Fprintf(&sb, "tl=%d amt=%d src=%x", r.TotalTimeLock, r.TotalAmount,
		r.SourcePubKey[:4])
	for _, h := range r.Hops {
		fmt.Fprintf(&sb, " | %x ch=%d tl=%d amt=%d", h.PubKeyBytes[:4],
			h.ChannelID, h.OutgoingTimeLock, h.AmtToForward)
		if h.MPP != nil {
			a := h.MPP.PaymentAddr()
			fmt.Fprintf(&sb, " mpp=%d/%x", h.MPP.TotalMsat(), a[:2])
		}
		if len(h.EncryptedData) > 0 {
			fmt.Fprintf(&sb, " enc=%x", h.EncryptedData)
		}
		if h.BlindingPoint != nil {
			fmt.Fprintf(&sb, " bp=%x",
				h.BlindingPoint.SerializeCompressed()[:6])
		}
		if h.TotalAmtMsat != 0 {
			fmt.Fprintf(&sb, " total=%d", h.TotalAmtMsat)
		}
		if len(h.Metadata) > 0 {
			fmt.Fprintf(&sb, " meta=%x", h.Metadata)
		}
		var ks []uint64
		for k := range h.CustomRecords {
			ks = append(ks, k)
		}
		sort.Slice(ks, func(i, j int) bool { return ks[i] < ks[j] })
		for _, k := range ks {
			fmt.Fprintf(&sb, " cr%d=%x", k, h.CustomRecords[k])
		}
	}

	return sb.String()
}

type c16View struct {
	Value  int64
	Status paymentsdb.PaymentStatus
	Reason int // -1: none
	Atts   []c16Att
}

func (v *c16View) String() string {
	if v == nil {
		return "<absent>"
	}
	var sb strings.Builder
	fmt.Fprintf(&sb, "{value=%d status=%v reason=%d atts=[", v.Value,
		v.Status, v.Reason)
	for i, a := range v.Atts {
		if i > 0 {
			sb.WriteString(" ")
		}
		fmt.Fprintf(&sb, "%d:%d+%d/%s(%d,%d)/%s", a.ID, a.Amt, a.Fee,
			a.Kind, a.Total, a.Addr,
			[]string{"inflight", "settled", "failed", "CORRUPT"}[a.State])
	}
	sb.WriteString("]}")

	return sb.String()
}

func c16ViewOf(p *paymentsdb.MPPayment) *c16View {
	v := &c16View{
		Value:  int64(p.Info.Value),
		Status: p.Status,
		Reason: -1,
	}
	if p.FailureReason != nil {
		v.Reason = int(*p.FailureReason)
	}
	for _, h := range p.HTLCs {
		a := c16Att{
			ID:      h.AttemptID,
			Amt:     int64(h.Route.ReceiverAmt()),
			Fee:     int64(h.Route.TotalFees()),
			Kind:    c16Plain,
			RouteFP: c16RouteFP(&h.Route),
		}
		if fh := h.Route.FinalHop(); fh != nil {
			switch {
			case len(fh.EncryptedData) != 0:
				a.Kind = c16Blinded
				a.Total = int64(fh.TotalAmtMsat)
			case fh.MPP != nil:
				a.Kind = c16MPP
				a.Total = int64(fh.MPP.TotalMsat())
				addr := fh.MPP.PaymentAddr()
				a.Addr = addr[0]
			}
		}
		switch {
		case h.Settle != nil && h.Failure != nil:
			a.State = c16Corrupt
		case h.Settle != nil:
			a.State = c16Settled
			a.Preimage = h.Settle.Preimage
		case h.Failure != nil:
			a.State = c16Failed
			a.FailWhy = int(h.Failure.Reason)
		}
		v.Atts = append(v.Atts, a)
	}
	// KV orders attempts by id, SQL by attempt time: the property speaks
	// of the attempt *set*.
	sort.SliceStable(v.Atts, func(i, j int) bool {
		return v.Atts[i].ID < v.Atts[j].ID
	})

	return v
}

func c16ViewsEqual(a, b *c16View) bool {
	if a == nil || b == nil {
		return a == nil && b == nil
	}
	if a.Value != b.Value || a.Status != b.Status || a.Reason != b.Reason ||
		len(a.Atts) != len(b.Atts) {

		return false
	}
	for i := range a.Atts {
		if a.Atts[i] != b.Atts[i] {
			return false
		}
	}

	return true
}

// c16Table is decidePaymentStatus's documented truth table
// (payment_status.go), row by row:
// index = inflight<<3 | settled<<2 | htlcFailed<<1 | paymentFailed.
var c16Table = [16]paymentsdb.PaymentStatus{
	0b1111: paymentsdb.StatusInFlight,
	0b1110: paymentsdb.StatusInFlight,
	0b1101: paymentsdb.StatusInFlight,
	0b1100: paymentsdb.StatusInFlight,
	0b1011: paymentsdb.StatusInFlight,
	0b1010: paymentsdb.StatusInFlight,
	0b1001: paymentsdb.StatusInFlight,
	0b1000: paymentsdb.StatusInFlight,
	0b0111: paymentsdb.StatusSucceeded,
	0b0110: paymentsdb.StatusSucceeded,
	0b0101: paymentsdb.StatusSucceeded,
	0b0100: paymentsdb.StatusSucceeded,
	0b0011: paymentsdb.StatusFailed,
	0b0010: paymentsdb.StatusInFlight,
	0b0001: paymentsdb.StatusFailed,
	0b0000: paymentsdb.StatusInitiated,
}

func c16TableStatus(inflight, settled, htlcFailed, payFailed bool) paymentsdb.PaymentStatus {
	ix := 0
	if inflight {
		ix |= 8
	}
	if settled {
		ix |= 4
	}
	if htlcFailed {
		ix |= 2
	}
	if payFailed {
		ix |= 1
	}

	return c16Table[ix]
}

// c16CheckPayment evaluates the model-independent invariants on one MPPayment
// exactly as a store returned it (no normalisation in between).
func c16CheckPayment(p *paymentsdb.MPPayment) error {
	if p == nil || p.Info == nil {
		return errors.New("nil payment / nil creation info")
	}
	var (
		sent, fees                    lnwire.MilliSatoshi
		inflight, settled, htlcFailed bool
		nInflight                     int
		seen                          = make(map[uint64]bool)
	)
	for _, h := range p.HTLCs {
		if seen[h.AttemptID] {
			return fmt.Errorf("attempt id %d listed twice", h.AttemptID)
		}
		seen[h.AttemptID] = true
		if h.Settle != nil && h.Failure != nil {
			return fmt.Errorf("attempt %d is both settled and failed",
				h.AttemptID)
		}
		switch {
		case h.Failure != nil:
			htlcFailed = true
		case h.Settle != nil:
			settled = true
		default:
			inflight = true
			nInflight++
		}
		if h.Failure == nil {
			sent += h.Route.ReceiverAmt()
			fees += h.Route.TotalFees()
		}
	}
	// Never beyond its amount.
	if sent > p.Info.Value {
		return fmt.Errorf("settled+in-flight amount %d exceeds payment "+
			"value %d", sent, p.Info.Value)
	}
	// Status is exactly the documented function.
	want := c16TableStatus(inflight, settled, htlcFailed,
		p.FailureReason != nil)
	if p.Status != want {
		return fmt.Errorf("status %v, documented table says %v "+
			"(inflight=%v settled=%v htlcFailed=%v paymentFailed=%v)",
			p.Status, want, inflight, settled, htlcFailed,
			p.FailureReason != nil)
	}
	if settled && p.Status == paymentsdb.StatusFailed {
		return errors.New("payment with a settled attempt reported Failed")
	}
	// The derived state must be truthful as well (MPPaymentState docs).
	if p.State == nil {
		return errors.New("nil State")
	}
	if p.State.RemainingAmt != p.Info.Value-sent {
		return fmt.Errorf("RemainingAmt %d, want %d", p.State.RemainingAmt,
			p.Info.Value-sent)
	}
	if p.State.NumAttemptsInFlight != nInflight {
		return fmt.Errorf("NumAttemptsInFlight %d, want %d",
			p.State.NumAttemptsInFlight, nInflight)
	}
	if p.State.HasSettledHTLC != settled {
		return fmt.Errorf("HasSettledHTLC %v, want %v",
			p.State.HasSettledHTLC, settled)
	}
	// PaymentFailed: "marked as failed with a reason". With a settled
	// attempt TerminalInfo() hides the reason, so only the unambiguous
	// case is asserted.
	if !settled && p.State.PaymentFailed != (p.FailureReason != nil) {
		return fmt.Errorf("PaymentFailed %v, reason set: %v",
			p.State.PaymentFailed, p.FailureReason != nil)
	}
	if p.State.FeesPaid != fees {
		return fmt.Errorf("FeesPaid %d, want %d", p.State.FeesPaid, fees)
	}

	return nil
}

// c16Purge empties a store through its public API (used at the start of every
// case, so a case never sees leftovers of an earlier — possibly failed —
// case).
func c16Purge(db paymentsdb.DB) error {
	for round := 0; round < 4; round++ {
		if _, err := db.DeletePayments(c16Ctx, false, false); err != nil {
			return fmt.Errorf("DeletePayments: %w", err)
		}
		left, err := db.FetchInFlightPayments(c16Ctx)
		if err != nil {
			return fmt.Errorf("FetchInFlightPayments: %w", err)
		}
		if len(left) == 0 {
			return nil
		}
		for _, p := range left {
			hash := p.Info.PaymentIdentifier
			for _, h := range p.InFlightHTLCs() {
				_, _ = db.FailAttempt(
					c16Ctx, hash, h.AttemptID, c16FailInfo(0),
				)
			}
			_, _ = db.Fail(c16Ctx, hash, paymentsdb.FailureReasonError)
		}
	}

	return errors.New("store not empty after 4 purge rounds")
}

// The four sentinels referenced outside the package (routing, routerrpc).
var c16Sentinels = []error{
	paymentsdb.ErrPaymentInFlight,
	paymentsdb.ErrPaymentExists,
	paymentsdb.ErrAlreadyPaid,
	paymentsdb.ErrPaymentNotInitiated,
}

func c16SentinelOf(err error) string {
	for _, s := range c16Sentinels {
		if errors.Is(err, s) {
			return s.Error()
		}
	}

	return ""
}

func c16IsAny(err error, set []error) bool {
	for _, s := range set {
		if errors.Is(err, s) {
			return true
		}
	}

	return false
}

// c16Busy reports errors that stem from sqlite lock contention or retry
// exhaustion; in the concurrent test they make a case inconclusive.
func c16Busy(err error) bool {
	if err == nil {
		return false
	}
	s := err.Error()

	return errors.Is(err, sqldb.ErrRetriesExceeded) ||
		strings.Contains(s, "database is locked") ||
		strings.Contains(s, "SQLITE_BUSY")
}
