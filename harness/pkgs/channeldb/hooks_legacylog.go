//go:build verif

package channeldb

import (
	"bytes"
	"fmt"

	"github.com/lightningnetwork/lnd/kvdb"
)

// Verification hook (overlay only, never part of lnd).
//
// VerifDowngradeRevocationLog rewrites every entry of the channel's
// revocation log in the format lnd used before v0.15: the complete
// ChannelCommitment of the revoked remote state, stored under the deprecated
// bucket "revocation-log-key", keyed by the commitment height. The current
// bucket is removed, so the channel record looks like the one of a node that
// was upgraded without running the optional revocation log migration: old
// states in the deprecated bucket, states revoked from now on in the new one.
// lnd keeps supporting that layout (fetchRevocationLogCompatible,
// createBreachRetributionLegacy). commits holds the full remote commitment of
// every revoked height, as the caller observed it before the revocation.
// Returns the number of entries rewritten.
func VerifDowngradeRevocationLog(db *ChannelStateDB, ch *OpenChannel,
	commits map[uint64]*ChannelCommitment) (int, error) {

	n := 0
	err := kvdb.Update(db.backend, func(tx kvdb.RwTx) error {
		chanBucket, err := fetchChanBucketRw(
			tx, ch.IdentityPub, &ch.FundingOutpoint, ch.ChainHash,
		)
		if err != nil {
			return err
		}
		newB := chanBucket.NestedReadWriteBucket(revocationLogBucket)
		if newB == nil {
			return nil
		}
		var keys [][]byte
		err = newB.ForEach(func(k, _ []byte) error {
			keys = append(keys, append([]byte(nil), k...))
			return nil
		})
		if err != nil {
			return err
		}
		if len(keys) == 0 {
			return nil
		}
		oldB, err := chanBucket.CreateBucketIfNotExists(
			revocationLogBucketDeprecated,
		)
		if err != nil {
			return err
		}
		for _, k := range keys {
			h := byteOrder.Uint64(k)
			c, ok := commits[h]
			if !ok {
				return fmt.Errorf("harness: no commitment recorded "+
					"for revoked height %d", h)
			}
			if c.CommitHeight != h {
				return fmt.Errorf("harness: commitment recorded for "+
					"height %d has height %d", h, c.CommitHeight)
			}
			var b bytes.Buffer
			if err := serializeChanCommit(&b, c); err != nil {
				return err
			}
			if err := oldB.Put(k, b.Bytes()); err != nil {
				return err
			}
			n++
		}

		return chanBucket.DeleteNestedBucket(revocationLogBucket)
	}, func() { n = 0 })

	return n, err
}
