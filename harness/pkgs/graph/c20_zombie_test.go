//go:build verif

package graph

// C20, zombie index (part of "the channel graph" in the property's state
// list): who may bring a pruned channel back.
//
// Reference rule, written from the doc comments of
// graphdb.DeleteChannelEdges / makeZombiePubkeys / Builder.MarkZombieEdge and
// Config.StrictZombiePruning (not from the code):
//
//   - DeleteChannelEdges(strict, markZombie=false) removes the channel and
//     leaves no zombie entry;
//   - markZombie=true, non-strict: the entry stores (pubkey1, pubkey2) - either
//     node may resurrect;
//   - markZombie=true, strict:
//       neither policy known                       -> (pubkey1, pubkey2)
//       policy 1 missing, or both known and 1 older -> (pubkey1, blank): only
//                                                     an update from node 1
//       otherwise (2 missing or 2 the older side)   -> (blank, pubkey2): only
//                                                     an update from node 2
//   - MarkEdgeZombie stores exactly the keys it is given, MarkEdgeLive removes
//     the entry, IsZombieEdge / HasChannelEdge / FetchChannelEdgesByID
//     (ErrZombieEdge + the two keys) report it;
//   - Builder.MarkZombieEdge stores (blank, blank): nobody can resurrect.
//
// TestVerifC20ZombieStore drives the graph store (bbolt KVStore, or SQLStore
// with -tags test_db_sqlite) through generated
// add / update / delete(strict, markZombie) / mark-zombie / mark-live sequences
// and compares the zombie index and the live channel after every step with the
// model.
//
// TestVerifC20ZombieBuilder does the same one level up: a real Builder
// (strict or not) whose pruneZombieChans decides what is pruned, then the
// calls the gossiper makes for a zombie channel (IsStaleEdgePolicy,
// GetChannelByID, IsKnownEdge, AddEdge, UpdateEdge, MarkEdgeLive).

import (
	"context"
	"crypto/sha256"
	"errors"
	"fmt"
	"sort"
	"sync/atomic"
	"testing"
	"time"

	"github.com/btcsuite/btcd/btcutil/v2"
	"github.com/btcsuite/btcd/wire/v2"
	"github.com/lightningnetwork/lnd/chainntnfs"
	graphdb "github.com/lightningnetwork/lnd/graph/db"
	"github.com/lightningnetwork/lnd/graph/db/models"
	"github.com/lightningnetwork/lnd/internal/verif/vstats"
	lnmock "github.com/lightningnetwork/lnd/lntest/mock"
	"github.com/lightningnetwork/lnd/lnwire"
	"github.com/lightningnetwork/lnd/routing/route"
	"pgregory.net/rapid"
)

var c20zCase atomic.Uint64

var c20zBlank route.Vertex

// c20zRuleKeys is the reference rule for the keys a zombie-marking deletion
// stores. ts1/ts2 are nil for an unknown policy.
func c20zRuleKeys(strict bool, k1, k2 route.Vertex,
	ts1, ts2 *uint32) (route.Vertex, route.Vertex) {

	switch {
	case !strict:
		return k1, k2
	case ts1 == nil && ts2 == nil:
		return k1, k2
	case ts1 == nil:
		return k1, c20zBlank
	case ts2 == nil:
		return c20zBlank, k2
	case *ts1 < *ts2:
		return k1, c20zBlank
	default:
		return c20zBlank, k2
	}
}

// c20zClass names the policy situation of a channel at the time it is pruned.
func c20zClass(ts1, ts2 *uint32) string {
	switch {
	case ts1 == nil && ts2 == nil:
		return "pol_none"
	case ts1 == nil:
		return "pol_2_only"
	case ts2 == nil:
		return "pol_1_only"
	case *ts1 < *ts2:
		return "pol_both_1_older"
	case *ts1 > *ts2:
		return "pol_both_2_older"
	default:
		return "pol_both_equal"
	}
}

func c20zKeysName(z1, z2 route.Vertex) string {
	switch {
	case z1 == c20zBlank && z2 == c20zBlank:
		return "keys_blank_blank"
	case z1 == c20zBlank:
		return "keys_blank_k2"
	case z2 == c20zBlank:
		return "keys_k1_blank"
	default:
		return "keys_k1_k2"
	}
}

// c20zChan is a channel of a case with its model state.
type c20zChan struct {
	*c20bChan

	// model: exactly one of live (c20bChan.known), zombie
	// (c20bChan.zombie), or neither.
	zk [2]route.Vertex
}

func (c *c20zChan) tsPtrs() (*uint32, *uint32) {
	var t1, t2 *uint32
	if c.pol[0] != nil {
		v := c.pol[0].ts
		t1 = &v
	}
	if c.pol[1] != nil {
		v := c.pol[1].ts
		t2 = &v
	}

	return t1, t2
}

func (c *c20zChan) state() string {
	switch {
	case c.known:
		return "live"
	case c.zombie:
		return "zombie"
	default:
		return "absent"
	}
}

// modelDelete applies a zombie-marking (or plain) deletion to the model.
func (c *c20zChan) modelDelete(strict, markZombie bool,
	nodes []*c20bNode) {

	t1, t2 := c.tsPtrs()
	c.known = false
	c.pol = [2]*c20bPol{}
	c.zombie = markZombie
	if markZombie {
		c.zk[0], c.zk[1] = c20zRuleKeys(
			strict, nodes[c.n[0]].pub, nodes[c.n[1]].pub, t1, t2,
		)
	}
}

func c20zDrawChans(rt *rapid.T, seed, caseNo uint64, nNodes,
	nChans int) ([]*c20bNode, []*c20zChan) {

	var nodes []*c20bNode
	for i := 0; i < nNodes; i++ {
		k := c20bKey(seed, caseNo, fmt.Sprintf("znode%d", i))
		nodes = append(nodes, &c20bNode{
			pub: route.NewVertex(k.PubKey()),
		})
	}
	var chans []*c20zChan
	for i := 0; i < nChans; i++ {
		l := fmt.Sprintf("ch%d", i)
		n1 := rapid.IntRange(0, nNodes-1).Draw(rt, l+"n1")
		n2 := rapid.IntRange(0, nNodes-2).Draw(rt, l+"n2")
		if n2 >= n1 {
			n2++
		}
		c := &c20bChan{
			scid: lnwire.ShortChannelID{
				BlockHeight: uint32(caseNo>>12)%400 + 1,
				TxIndex:     uint32(caseNo & 0xfff),
				TxPosition:  uint16(i),
			},
			n: [2]int{n1, n2},
			btc: [2]route.Vertex{
				route.NewVertex(c20bKey(seed, caseNo,
					l+"zb1").PubKey()),
				route.NewVertex(c20bKey(seed, caseNo,
					l+"zb2").PubKey()),
			},
			cap: btcutil.Amount(rapid.IntRange(1000, 1<<24).
				Draw(rt, l+"cap")),
		}
		c.point = wire.OutPoint{
			Hash: sha256.Sum256([]byte(fmt.Sprintf(
				"c20z-op/%d/%d/%d", seed, caseNo, i))),
			Index: uint32(i),
		}
		for s := 0; s < 4; s++ {
			c.sigs[s] = c20bSig(seed, fmt.Sprintf("z%s/%d/%d", l,
				caseNo, s))
		}
		chans = append(chans, &c20zChan{c20bChan: c})
	}

	return nodes, chans
}

func c20zDrawPol(rt *rapid.T, seed, caseNo uint64, l string, d int,
	ts uint32) *c20bPol {

	p := &c20bPol{
		ts:      ts,
		chFlags: lnwire.ChanUpdateChanFlags(d),
		timelock: uint16(rapid.IntRange(0, 65535).
			Draw(rt, l+"tl")),
		min: lnwire.MilliSatoshi(rapid.IntRange(0, 1000).
			Draw(rt, l+"min")),
		base: uint32(rapid.IntRange(0, 1<<20).Draw(rt, l+"base")),
		rate: uint32(rapid.IntRange(0, 1<<20).Draw(rt, l+"rate")),
		sig:  c20bSig(seed, fmt.Sprintf("z%s/%d", l, caseNo)),
	}
	if rapid.IntRange(0, 3).Draw(rt, l+"dis") == 0 {
		p.chFlags |= lnwire.ChanUpdateDisabled
	}
	p.max = p.min + lnwire.MilliSatoshi(
		rapid.IntRange(1, 100000).Draw(rt, l+"max"))

	return p
}

// c20zReader is what the verification needs from the graph under test.
type c20zReader interface {
	IsZombieEdge(ctx context.Context, chanID uint64) (bool, [33]byte,
		[33]byte, error)
	HasChannelEdge(ctx context.Context, chanID uint64) (bool, bool, error)
	FetchChannelEdgesByID(ctx context.Context, chanID uint64) (
		*models.ChannelEdgeInfo, *models.ChannelEdgePolicy,
		*models.ChannelEdgePolicy, error)
}

// c20zVerify compares the zombie index and the live channel of every channel
// of the case with the model.
func c20zVerify(rt *rapid.T, vg c20zReader, hasV1 func(uint64) (time.Time,
	time.Time, bool, bool, error), nodes []*c20bNode, chans []*c20zChan,
	after string) {

	bg := context.Background()
	for ci, c := range chans {
		id := c.scid.ToUint64()
		isZ, z1, z2, err := vg.IsZombieEdge(bg, id)
		if err != nil {
			rt.Fatalf("%s: chan %d: IsZombieEdge: %v", after, ci, err)
		}
		if isZ != c.zombie {
			rt.Fatalf("%s: chan %d: IsZombieEdge=%v, model state %s",
				after, ci, isZ, c.state())
		}
		if c.zombie && (route.Vertex(z1) != c.zk[0] ||
			route.Vertex(z2) != c.zk[1]) {

			rt.Fatalf("%s: chan %d: zombie index stores (%s), the "+
				"documented rule gives (%s)\n  node1=%x\n  "+
				"node2=%x\n  stored key1=%x\n  stored key2=%x",
				after, ci, c20zDescribe(z1, z2, nodes, c),
				c20zDescribe(c.zk[0], c.zk[1], nodes, c),
				nodes[c.n[0]].pub[:], nodes[c.n[1]].pub[:],
				z1[:], z2[:])
		}
		if !c.zombie && (route.Vertex(z1) != c20zBlank ||
			route.Vertex(z2) != c20zBlank) {

			rt.Fatalf("%s: chan %d: IsZombieEdge=false but keys "+
				"%x %x", after, ci, z1[:], z2[:])
		}

		exists, hz, err := vg.HasChannelEdge(bg, id)
		if err != nil {
			rt.Fatalf("%s: chan %d: HasChannelEdge: %v", after, ci,
				err)
		}
		if exists != c.known || hz != c.zombie {
			rt.Fatalf("%s: chan %d: HasChannelEdge exists=%v "+
				"zombie=%v, model state %s", after, ci, exists, hz,
				c.state())
		}
		if hasV1 != nil {
			t1, t2, ex, z, err := hasV1(id)
			if err != nil {
				rt.Fatalf("%s: chan %d: HasV1ChannelEdge: %v",
					after, ci, err)
			}
			if ex != c.known || z != c.zombie {
				rt.Fatalf("%s: chan %d: HasV1ChannelEdge "+
					"exists=%v zombie=%v, model state %s", after,
					ci, ex, z, c.state())
			}
			for d, got := range []time.Time{t1, t2} {
				if !c.known || c.pol[d] == nil {
					continue
				}
				if got.Unix() != int64(c.pol[d].ts) {
					rt.Fatalf("%s: chan %d: HasV1ChannelEdge "+
						"ts%d=%d, model %d", after, ci, d+1,
						got.Unix(), c.pol[d].ts)
				}
			}
		}

		info, p1, p2, err := vg.FetchChannelEdgesByID(bg, id)
		switch {
		case c.known:
			if err != nil {
				rt.Fatalf("%s: chan %d: live channel not found: %v",
					after, ci, err)
			}
			if info.ChannelID != id ||
				info.NodeKey1Bytes != nodes[c.n[0]].pub ||
				info.NodeKey2Bytes != nodes[c.n[1]].pub ||
				info.Capacity != c.cap ||
				info.ChannelPoint != c.point {

				rt.Fatalf("%s: chan %d: stored channel differs: "+
					"%+v", after, ci, info)
			}
			err = c20bPolEqual(p1, c.pol[0], id, nodes[c.n[1]].pub)
			if err != nil {
				rt.Fatalf("%s: chan %d dir 0: %v", after, ci, err)
			}
			err = c20bPolEqual(p2, c.pol[1], id, nodes[c.n[0]].pub)
			if err != nil {
				rt.Fatalf("%s: chan %d dir 1: %v", after, ci, err)
			}

		case c.zombie:
			if !errors.Is(err, graphdb.ErrZombieEdge) {
				rt.Fatalf("%s: chan %d: zombie lookup gave %v",
					after, ci, err)
			}
			if info == nil || info.NodeKey1Bytes != c.zk[0] ||
				info.NodeKey2Bytes != c.zk[1] {

				rt.Fatalf("%s: chan %d: ErrZombieEdge info "+
					"carries %+v, want keys (%s)", after, ci,
					info, c20zDescribe(c.zk[0], c.zk[1], nodes, c))
			}
			if p1 != nil || p2 != nil {
				rt.Fatalf("%s: chan %d: zombie with policies",
					after, ci)
			}

		default:
			if !errors.Is(err, graphdb.ErrEdgeNotFound) {
				rt.Fatalf("%s: chan %d: absent channel lookup "+
					"gave %v, %v", after, ci, info, err)
			}
		}
	}
}

// c20zDescribe renders a key pair relative to the channel's nodes.
func c20zDescribe(z1, z2 [33]byte, nodes []*c20bNode, c *c20zChan) string {
	name := func(k [33]byte) string {
		switch route.Vertex(k) {
		case c20zBlank:
			return "blank"
		case nodes[c.n[0]].pub:
			return "node1"
		case nodes[c.n[1]].pub:
			return "node2"
		default:
			return fmt.Sprintf("other:%x", k[:6])
		}
	}

	return name(z1) + ", " + name(z2)
}

func c20zLabels(m map[string]bool, prefix string) []string {
	var ll []string
	for k := range m {
		ll = append(ll, prefix+k)
	}
	sort.Strings(ll)

	return ll
}

// ---------------------------------------------------------------------------
// store level

// TestVerifC20ZombieStore: generated operation sequences against the graph
// store (through ChannelGraph, as the Builder and the gossiper use it).
func TestVerifC20ZombieStore(t *testing.T) {
	st := vstats.New("TestVerifC20ZombieStore")
	defer st.Flush()

	cg := graphdb.MakeTestGraph(t)
	vg := graphdb.NewVersionedGraph(cg, lnwire.GossipVersion1)
	bg := context.Background()
	const v1 = lnwire.GossipVersion1

	rapid.Check(t, func(rt *rapid.T) {
		seed := rapid.Uint64().Draw(rt, "seed")
		caseNo := c20zCase.Add(1)
		baseTS := uint32(rapid.IntRange(1_000_000_000, 1_700_000_000).
			Draw(rt, "baseTS"))
		nodes, chans := c20zDrawChans(rt, seed, caseNo, 2,
			rapid.IntRange(1, 2).Draw(rt, "nChans"))

		labels := map[string]bool{}
		var trace []any
		nStrictOneSided := 0

		hasV1 := func(id uint64) (time.Time, time.Time, bool, bool,
			error) {

			return cg.HasV1ChannelEdge(bg, id)
		}
		verify := func(after string) {
			c20zVerify(rt, vg, hasV1, nodes, chans, after)
		}

		// nextTS[ci][d]: policies of a direction only move forward in
		// time (what the Builder guarantees to the store).
		nextTS := make([][2]uint32, len(chans))
		for i := range nextTS {
			nextTS[i] = [2]uint32{baseTS, baseTS}
		}

		nOps := rapid.IntRange(4, 24).Draw(rt, "nOps")
		for o := 0; o < nOps; o++ {
			l := fmt.Sprintf("o%d", o)
			ci := rapid.IntRange(0, len(chans)-1).Draw(rt, l+"c")
			c := chans[ci]
			id := c.scid.ToUint64()
			k := rapid.IntRange(0, 99).Draw(rt, l+"k")

			switch {
			// Channel absent: add it (most of the time).
			case !c.known && !c.zombie && k < 65:
				trace = append(trace, "E", ci)
				err := cg.AddChannelEdge(bg, c.edgeInfo(nodes))
				if err != nil {
					rt.Fatalf("AddChannelEdge: %v", err)
				}
				c.known = true
				verify("AddChannelEdge")

			// Mark an absent or zombie channel with explicit keys
			// (what Builder.MarkZombieEdge / the rpc server do).
			case (!c.known && !c.zombie && k < 85) ||
				(c.zombie && k >= 70):

				kk := rapid.IntRange(0, 3).Draw(rt, l+"zk")
				z1, z2 := nodes[c.n[0]].pub, nodes[c.n[1]].pub
				if kk&1 == 1 {
					z1 = c20zBlank
				}
				if kk&2 == 2 {
					z2 = c20zBlank
				}
				trace = append(trace, "Z", ci, kk)
				err := cg.MarkEdgeZombie(bg, v1, id, z1, z2)
				if err != nil {
					rt.Fatalf("MarkEdgeZombie: %v", err)
				}
				if c.zombie {
					labels["markzombie_overwrites_entry"] = true
				}
				c.zombie = true
				c.zk = [2]route.Vertex{z1, z2}
				labels["markzombie_"+c20zKeysName(z1, z2)] = true
				verify("MarkEdgeZombie")

			// Zombie: resurrect.
			case c.zombie && k < 50:
				trace = append(trace, "L", ci)
				err := cg.MarkEdgeLive(bg, v1, id)
				if err != nil {
					rt.Fatalf("MarkEdgeLive of a zombie: %v", err)
				}
				c.zombie = false
				c.zk = [2]route.Vertex{}
				labels["marklive_zombie"] = true
				verify("MarkEdgeLive")

			// Zombie: deleting it must fail and change nothing.
			case c.zombie:
				strict := rapid.Bool().Draw(rt, l+"strict")
				trace = append(trace, "Dz", ci, strict)
				err := cg.DeleteChannelEdges(bg, v1, strict, true,
					id)
				if !errors.Is(err, graphdb.ErrEdgeNotFound) {
					rt.Fatalf("DeleteChannelEdges of a zombie "+
						"returned %v", err)
				}
				labels["delete_zombie_notfound"] = true
				verify("DeleteChannelEdges(zombie)")

			// Live: policy update.
			case c.known && k < 50:
				d := rapid.IntRange(0, 1).Draw(rt, l+"d")
				step := uint32(rapid.IntRange(0, 3).Draw(rt, l+"ts"))
				// Often give both directions the same
				// timestamp.
				ts := nextTS[ci][d] + step
				if other := c.pol[1-d]; other != nil &&
					other.ts >= nextTS[ci][d] &&
					rapid.IntRange(0, 3).Draw(rt, l+"eq") == 0 {

					ts = other.ts
				}
				nextTS[ci][d] = ts + 1
				p := c20zDrawPol(rt, seed, caseNo, l, d, ts)
				trace = append(trace, "U", ci, d, ts)
				pol, err := models.ChanEdgePolicyFromWire(
					id, p.wire(c.scid),
				)
				if err != nil {
					rt.Fatalf("harness: %v", err)
				}
				if err := cg.UpdateEdgePolicy(bg, pol); err != nil {
					rt.Fatalf("UpdateEdgePolicy: %v", err)
				}
				c.pol[d] = p
				verify("UpdateEdgePolicy")

			// Live: MarkEdgeLive must not touch it.
			case c.known && k < 56:
				trace = append(trace, "Ll", ci)
				err := cg.MarkEdgeLive(bg, v1, id)
				if err != nil && !errors.Is(err,
					graphdb.ErrZombieEdgeNotFound) {

					rt.Fatalf("MarkEdgeLive of a live channel: "+
						"%v", err)
				}
				labels["marklive_nonzombie"] = true
				verify("MarkEdgeLive(live)")

			// Live: delete, with or without zombie marking.
			case c.known:
				strict := rapid.Bool().Draw(rt, l+"strict")
				mark := rapid.IntRange(0, 5).Draw(rt, l+"mark") > 0
				t1, t2 := c.tsPtrs()
				class := c20zClass(t1, t2)
				trace = append(trace, "D", ci, strict, mark)
				err := cg.DeleteChannelEdges(bg, v1, strict, mark, id)
				if err != nil {
					rt.Fatalf("DeleteChannelEdges: %v", err)
				}
				c.modelDelete(strict, mark, nodes)
				switch {
				case !mark:
					labels["delete_unmarked"] = true
				case strict:
					labels["prune_strict"] = true
					labels["prune_strict/"+class] = true
					labels["prune_strict_"+c20zKeysName(
						c.zk[0], c.zk[1])] = true
					if class != "pol_none" {
						nStrictOneSided++
					}
				default:
					labels["prune_nonstrict"] = true
					labels["prune_nonstrict/"+class] = true
				}
				verify(fmt.Sprintf("DeleteChannelEdges(strict=%v, "+
					"markZombie=%v) of a channel with %s", strict,
					mark, class))

			// Absent: MarkEdgeLive / delete change nothing.
			default:
				trace = append(trace, "La", ci)
				err := cg.MarkEdgeLive(bg, v1, id)
				if err != nil && !errors.Is(err,
					graphdb.ErrZombieEdgeNotFound) {

					rt.Fatalf("MarkEdgeLive of an absent "+
						"channel: %v", err)
				}
				err = cg.DeleteChannelEdges(bg, v1, true, true, id)
				if !errors.Is(err, graphdb.ErrEdgeNotFound) {
					rt.Fatalf("DeleteChannelEdges of an absent "+
						"channel returned %v", err)
				}
				labels["absent_noop"] = true
				verify("MarkEdgeLive+Delete(absent)")
			}
		}

		// Leave nothing live behind (keeps later cases cheap).
		for _, c := range chans {
			if c.known {
				_ = cg.DeleteChannelEdges(bg, v1, false, false,
					c.scid.ToUint64())
			}
		}

		ll := c20zLabels(labels, "zs:")
		st.Case(vstats.FP(append([]any{seed, baseTS, len(chans)},
			trace...)...), nStrictOneSided > 0, ll,
			map[string]any{"seed": seed, "ops": nOps, "labels": ll})
	})
}

// ---------------------------------------------------------------------------
// builder level

type c20zBuilder struct {
	b  *Builder
	vg *graphdb.VersionedGraph
}

func c20zNewBuilder(t *testing.T, strict bool) *c20zBuilder {
	cg := graphdb.MakeTestGraph(t)
	vg := graphdb.NewVersionedGraph(cg, lnwire.GossipVersion1)
	source := createTestNode(t)
	if err := vg.SetSourceNode(context.Background(), source); err != nil {
		t.Fatalf("harness: source node: %v", err)
	}
	chain := newMockChain(500)
	b, err := NewBuilder(&Config{
		SelfNode:  source.PubKeyBytes,
		Graph:     cg,
		Chain:     chain,
		ChainView: newMockChainView(chain),
		Notifier: &lnmock.ChainNotifier{
			EpochChan: make(chan *chainntnfs.BlockEpoch),
			SpendChan: make(chan *chainntnfs.SpendDetail),
			ConfChan:  make(chan *chainntnfs.TxConfirmation),
		},
		ChannelPruneExpiry:  DefaultChannelPruneExpiry,
		GraphPruneInterval:  time.Hour * 2,
		StrictZombiePruning: strict,
		IsAlias: func(lnwire.ShortChannelID) bool {
			return false
		},
	})
	if err != nil {
		t.Fatalf("harness: builder: %v", err)
	}
	if err := b.Start(); err != nil {
		t.Fatalf("harness: builder start: %v", err)
	}
	t.Cleanup(func() { _ = b.Stop() })

	return &c20zBuilder{b: b, vg: vg}
}

const c20zDay = 24 * 3600

// TestVerifC20ZombieBuilder: the Builder's own zombie pruning decides what
// becomes a zombie; then the calls the gossiper makes for such a channel.
//
// Wall clock: lnd compares policy timestamps with time.Now() (zombie
// horizon = DefaultChannelPruneExpiry = 14 days). "Stale" timestamps are
// 15..400 days old, "fresh" ones 1 hour..12 days, so no decision is within a
// day of the horizon.
func TestVerifC20ZombieBuilder(t *testing.T) {
	st := vstats.New("TestVerifC20ZombieBuilder")
	defer st.Flush()

	builders := map[bool]*c20zBuilder{
		false: c20zNewBuilder(t, false),
		true:  c20zNewBuilder(t, true),
	}
	bg := context.Background()
	const v1 = lnwire.GossipVersion1

	rapid.Check(t, func(rt *rapid.T) {
		seed := rapid.Uint64().Draw(rt, "seed")
		caseNo := c20zCase.Add(1)
		strict := rapid.Bool().Draw(rt, "strict")
		zb := builders[strict]
		b := zb.b
		now := uint32(time.Now().Unix())

		nodes, chans := c20zDrawChans(rt, seed, caseNo,
			rapid.IntRange(2, 3).Draw(rt, "nNodes"),
			rapid.IntRange(1, 3).Draw(rt, "nChans"))

		labels := map[string]bool{}
		if strict {
			labels["strict"] = true
		} else {
			labels["nonstrict"] = true
		}
		var trace []any
		nontrivial := false

		drawTS := func(l string, fresh bool) uint32 {
			if fresh {
				return now - uint32(rapid.IntRange(3600,
					12*c20zDay).Draw(rt, l+"age"))
			}

			return now - uint32(rapid.IntRange(15*c20zDay,
				400*c20zDay).Draw(rt, l+"age"))
		}
		isStaleTS := func(ts uint32) bool {
			return now-ts > 14*c20zDay
		}

		verify := func(after string) {
			c20zVerify(rt, zb.vg, nil, nodes, chans, after)
			for ci, c := range chans {
				// What the gossiper sees.
				info, _, _, err := b.GetChannelByID(c.scid)
				switch {
				case c.zombie:
					if !errors.Is(err, graphdb.ErrZombieEdge) ||
						info == nil ||
						info.NodeKey1Bytes != c.zk[0] ||
						info.NodeKey2Bytes != c.zk[1] {

						rt.Fatalf("%s: chan %d: "+
							"GetChannelByID of a zombie: "+
							"%v %+v", after, ci, err, info)
					}
				case c.known:
					if err != nil {
						rt.Fatalf("%s: chan %d: %v", after,
							ci, err)
					}
				default:
					if !errors.Is(err,
						graphdb.ErrEdgeNotFound) {

						rt.Fatalf("%s: chan %d: absent: %v",
							after, ci, err)
					}
				}
				if got := b.IsKnownEdge(c.scid); got !=
					(c.known || c.zombie) {

					rt.Fatalf("%s: chan %d: IsKnownEdge=%v, "+
						"model %s", after, ci, got, c.state())
				}
				z, err := b.IsZombieEdge(c.scid)
				if err != nil || z != c.zombie {
					rt.Fatalf("%s: chan %d: Builder."+
						"IsZombieEdge=%v,%v model %s", after, ci,
						z, err, c.state())
				}
			}
		}

		// update applies a fresh-enough policy through the Builder.
		update := func(l string, ci, d int, ts uint32) {
			c := chans[ci]
			p := c20zDrawPol(rt, seed, caseNo, l, d, ts)
			pol, err := models.ChanEdgePolicyFromWire(
				c.scid.ToUint64(), p.wire(c.scid),
			)
			if err != nil {
				rt.Fatalf("harness: %v", err)
			}
			err = b.UpdateEdge(bg, pol)
			cur := c.pol[d]
			switch {
			case !c.known:
				if !IsError(err, ErrIgnored) {
					rt.Fatalf("UpdateEdge for a %s channel "+
						"(ts fresh=%v): %v", c.state(),
						!isStaleTS(ts), err)
				}
				labels["update_"+c.state()+"_ignored"] = true
			case cur != nil && cur.ts >= ts:
				if !IsError(err, ErrOutdated) {
					rt.Fatalf("UpdateEdge ts=%d over %d: %v",
						ts, cur.ts, err)
				}
			default:
				if err != nil {
					rt.Fatalf("UpdateEdge: %v", err)
				}
				c.pol[d] = p
			}
		}

		// prune runs the Builder's zombie pruning and moves the model
		// along. Decision rule (Config.StrictZombiePruning doc): an edge
		// is a zombie edge when its policy is unknown or older than
		// ChannelPruneExpiry; strict prunes when one edge is, otherwise
		// only when both are. Channels without any stale policy are not
		// visited by the pruner (it walks the update index up to the
		// horizon): if such a channel has a missing policy under strict
		// pruning both outcomes are accepted.
		prune := func() {
			trace = append(trace, "P")
			if err := b.pruneZombieChans(); err != nil {
				rt.Fatalf("pruneZombieChans: %v", err)
			}
			for ci, c := range chans {
				if !c.known {
					continue
				}
				t1, t2 := c.tsPtrs()
				z1 := t1 == nil || isStaleTS(*t1)
				z2 := t2 == nil || isStaleTS(*t2)
				anyStale := (t1 != nil && isStaleTS(*t1)) ||
					(t2 != nil && isStaleTS(*t2))
				want := z1 && z2
				if strict {
					want = z1 || z2
				}
				class := c20zClass(t1, t2)
				if want && !anyStale {
					// undocumented corner, see above
					_, isZ, err := zb.vg.HasChannelEdge(bg,
						c.scid.ToUint64())
					if err != nil {
						rt.Fatalf("HasChannelEdge: %v", err)
					}
					want = isZ
					labels["prune_corner_no_stale_policy"] = true
				}
				if !want {
					labels["prune_kept/"+class] = true
					continue
				}
				c.modelDelete(strict, true, nodes)
				mode := "prune_nonstrict"
				if strict {
					mode = "prune_strict"
					if class != "pol_none" {
						nontrivial = true
					}
				}
				labels[mode] = true
				labels[mode+"/"+class] = true
				labels[mode+"_"+c20zKeysName(c.zk[0], c.zk[1])] = true
				_ = ci
			}
			verify("pruneZombieChans")
		}

		// Set-up: channels with their policy situation.
		for ci, c := range chans {
			l := fmt.Sprintf("s%d", ci)
			if err := b.AddEdge(bg, c.edgeInfo(nodes)); err != nil {
				rt.Fatalf("AddEdge: %v", err)
			}
			c.known = true
			trace = append(trace, "E", ci)
			which := rapid.IntRange(0, 9).Draw(rt, l+"which")
			var have [2]bool
			switch {
			case which == 0: // none
			case which <= 2:
				have[0] = true
			case which <= 4:
				have[1] = true
			default:
				have = [2]bool{true, true}
			}
			var first uint32
			for d := 0; d < 2; d++ {
				if !have[d] {
					continue
				}
				ld := fmt.Sprintf("%sd%d", l, d)
				fresh := rapid.IntRange(0, 2).Draw(rt, ld+"fresh") == 0
				ts := drawTS(ld, fresh)
				if d == 1 && have[0] && isStaleTS(first) == !fresh &&
					rapid.IntRange(0, 4).Draw(rt, ld+"eq") == 0 {

					ts = first
				}
				first = ts
				update(ld, ci, d, ts)
				trace = append(trace, "U", ci, d, now-ts)
			}
		}
		verify("setup")
		prune()

		nOps := rapid.IntRange(3, 14).Draw(rt, "nOps")
		for o := 0; o < nOps; o++ {
			l := fmt.Sprintf("o%d", o)
			ci := rapid.IntRange(0, len(chans)-1).Draw(rt, l+"c")
			c := chans[ci]
			k := rapid.IntRange(0, 99).Draw(rt, l+"k")
			switch {
			case k < 25: // the gossiper's staleness pre-check
				d := rapid.IntRange(0, 1).Draw(rt, l+"d")
				fresh := rapid.Bool().Draw(rt, l+"fresh")
				ts := drawTS(l, fresh)
				trace = append(trace, "S", ci, d, now-ts)
				var want bool
				switch {
				case c.zombie:
					want = !fresh
					labels[fmt.Sprintf("isstale_zombie_fresh=%v",
						fresh)] = true
				case !c.known:
					want = false
				default:
					want = c.pol[d] != nil && c.pol[d].ts >= ts
				}
				got := b.IsStaleEdgePolicy(c.scid,
					time.Unix(int64(ts), 0),
					lnwire.ChanUpdateChanFlags(d))
				if got != want {
					rt.Fatalf("IsStaleEdgePolicy(%s channel, "+
						"dir=%d, age=%ds)=%v, want %v", c.state(),
						d, now-ts, got, want)
				}

			case k < 45: // UpdateEdge in whatever state
				d := rapid.IntRange(0, 1).Draw(rt, l+"d")
				ts := drawTS(l, rapid.IntRange(0, 3).
					Draw(rt, l+"fresh") > 0)
				trace = append(trace, "U", ci, d, now-ts)
				update(l, ci, d, ts)
				verify("UpdateEdge")

			// AddEdge in whatever state (more often when the
			// channel waits for its re-announcement)
			case k < 60 || (k < 80 && !c.known && !c.zombie):
				trace = append(trace, "E", ci)
				err := b.AddEdge(bg, c.edgeInfo(nodes))
				switch {
				case c.known || c.zombie:
					if !IsError(err, ErrIgnored) {
						rt.Fatalf("AddEdge for a %s channel: "+
							"%v", c.state(), err)
					}
					if c.zombie {
						labels["addedge_zombie_ignored"] = true
					}
				default:
					if err != nil {
						rt.Fatalf("AddEdge: %v", err)
					}
					c.known = true
					labels["addedge_after_resurrection"] = true
				}
				verify("AddEdge")

			case k < 80: // MarkEdgeLive (what processZombieUpdate does)
				trace = append(trace, "L", ci)
				err := b.MarkEdgeLive(v1, c.scid)
				switch {
				case c.zombie:
					if err != nil {
						rt.Fatalf("MarkEdgeLive: %v", err)
					}
					c.zombie = false
					c.zk = [2]route.Vertex{}
					labels["marklive_zombie"] = true
				case err != nil && !errors.Is(err,
					graphdb.ErrZombieEdgeNotFound):

					rt.Fatalf("MarkEdgeLive of a %s channel: %v",
						c.state(), err)
				default:
					labels["marklive_nonzombie"] = true
				}
				verify("MarkEdgeLive")

			case k < 88: // failed funding validation
				if c.known {
					continue
				}
				trace = append(trace, "Z", ci)
				err := b.MarkZombieEdge(c.scid.ToUint64())
				if err != nil {
					rt.Fatalf("MarkZombieEdge: %v", err)
				}
				c.zombie = true
				c.zk = [2]route.Vertex{}
				labels["markzombieedge_blank_blank"] = true
				verify("MarkZombieEdge")

			default:
				prune()
			}
		}

		for _, c := range chans {
			if c.known {
				_ = zb.vg.DeleteChannelEdges(bg, false, false,
					c.scid.ToUint64())
			}
		}

		ll := c20zLabels(labels, "zb:")
		st.Case(vstats.FP(append([]any{seed, strict, len(nodes),
			len(chans)}, trace...)...), nontrivial, ll,
			map[string]any{"seed": seed, "strict": strict,
				"labels": ll})
	})
}
