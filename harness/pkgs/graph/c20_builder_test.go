//go:build verif

package graph

// C20 (secondary part): the freshness / existence rules that the gossiper
// delegates to the graph Builder, checked on a real Builder over the real
// graph database (bbolt by default, or whatever test_db_* tag selects):
//
//   - AddEdge stores a channel once; a second AddEdge for a known or
//     zombie-marked channel is ignored and changes nothing;
//   - UpdateEdge applies a policy only to a known channel and only if its
//     timestamp is strictly newer than the stored policy of *that* direction;
//     the other direction is never touched;
//   - AddNode applies a node announcement only if the node is part of a known
//     channel and the timestamp is strictly newer;
//   - IsStaleEdgePolicy / IsStaleNode / IsKnownEdge, which the gossiper asks
//     before validating, agree with what UpdateEdge / AddNode / AddEdge then
//     do.
//
// Oracle: a reference model (maps) written from the statement. After every
// operation the complete state of the case's channels and nodes is read back
// through the Builder and compared with the model.
//
// One Builder / database is shared by all cases of the test; every case
// uses its own fresh node keys and short channel ids, so cases are
// independent.

import (
	"bytes"
	"context"
	"crypto/sha256"
	"encoding/binary"
	"errors"
	"fmt"
	"image/color"
	"net"
	"sync/atomic"
	"testing"
	"time"

	"github.com/btcsuite/btcd/btcec/v2"
	"github.com/btcsuite/btcd/btcutil/v2"
	"github.com/btcsuite/btcd/chainhash/v2"
	"github.com/btcsuite/btcd/wire/v2"
	graphdb "github.com/lightningnetwork/lnd/graph/db"
	"github.com/lightningnetwork/lnd/graph/db/models"
	"github.com/lightningnetwork/lnd/internal/verif/vstats"
	"github.com/lightningnetwork/lnd/lnwire"
	"github.com/lightningnetwork/lnd/routing/route"
	"pgregory.net/rapid"
)

var c20bCase atomic.Uint64

type c20bPol struct {
	ts       uint32
	chFlags  lnwire.ChanUpdateChanFlags
	timelock uint16
	min, max lnwire.MilliSatoshi
	base     uint32
	rate     uint32
	sig      lnwire.Sig
}

type c20bChan struct {
	scid   lnwire.ShortChannelID
	n      [2]int
	btc    [2]route.Vertex
	cap    btcutil.Amount
	point  wire.OutPoint
	sigs   [4]lnwire.Sig
	known  bool
	zombie bool
	pol    [2]*c20bPol
	nAdded int
}

type c20bNode struct {
	pub    route.Vertex
	inChan bool // part of a channel that was added
	ann    *lnwire.NodeAnnouncement1
}

func c20bKey(seed, n uint64, label string) *btcec.PrivateKey {
	var b [16]byte
	binary.BigEndian.PutUint64(b[:], seed)
	binary.BigEndian.PutUint64(b[8:], n)
	h := sha256.Sum256(append(b[:], []byte("c20b/"+label)...))
	h[0] &= 0x7f
	h[31] |= 1
	k, _ := btcec.PrivKeyFromBytes(h[:])

	return k
}

func c20bSig(seed uint64, label string) lnwire.Sig {
	// Any well-formed (r,s): the Builder does not verify signatures, the
	// gossiper did that before calling it.
	h := sha256.Sum256([]byte(fmt.Sprintf("c20b-sig/%d/%s", seed, label)))
	var raw [64]byte
	copy(raw[:32], h[:])
	copy(raw[32:], h[:])
	raw[0] &= 0x7f
	raw[0] |= 0x01
	raw[32] &= 0x7f
	raw[32] |= 0x01
	s, err := lnwire.NewSigFromWireECDSA(raw[:])
	if err != nil {
		panic(err)
	}

	return s
}

func (c *c20bChan) edgeInfo(nodes []*c20bNode) *models.ChannelEdgeInfo {
	proof := models.NewV1ChannelAuthProof(
		c.sigs[0].ToSignatureBytes(), c.sigs[1].ToSignatureBytes(),
		c.sigs[2].ToSignatureBytes(), c.sigs[3].ToSignatureBytes(),
	)
	info, err := models.NewV1Channel(
		c.scid.ToUint64(), chainhash.Hash{}, nodes[c.n[0]].pub,
		nodes[c.n[1]].pub, &models.ChannelV1Fields{
			BitcoinKey1Bytes: c.btc[0],
			BitcoinKey2Bytes: c.btc[1],
		},
		models.WithChanProof(proof),
		models.WithFeatures(lnwire.NewRawFeatureVector()),
		models.WithCapacity(c.cap),
		models.WithChannelPoint(c.point),
		models.WithFundingScript([]byte{0, 32, byte(c.scid.BlockHeight)}),
	)
	if err != nil {
		panic(err)
	}

	return info
}

func (p *c20bPol) wire(scid lnwire.ShortChannelID) *lnwire.ChannelUpdate1 {
	return &lnwire.ChannelUpdate1{
		Signature:       p.sig,
		ShortChannelID:  scid,
		Timestamp:       p.ts,
		MessageFlags:    lnwire.ChanUpdateRequiredMaxHtlc,
		ChannelFlags:    p.chFlags,
		TimeLockDelta:   p.timelock,
		HtlcMinimumMsat: p.min,
		HtlcMaximumMsat: p.max,
		BaseFee:         p.base,
		FeeRate:         p.rate,
	}
}

func c20bPolEqual(got *models.ChannelEdgePolicy, want *c20bPol,
	scid uint64, toNode route.Vertex) error {

	switch {
	case got == nil && want == nil:
		return nil
	case got == nil:
		return fmt.Errorf("policy missing, want ts=%d", want.ts)
	case want == nil:
		return fmt.Errorf("unexpected policy ts=%d",
			got.LastUpdate.Unix())
	}
	var bad []string
	chk := func(n string, ok bool) {
		if !ok {
			bad = append(bad, n)
		}
	}
	chk("ChannelID", got.ChannelID == scid)
	chk("LastUpdate", got.LastUpdate.Unix() == int64(want.ts))
	chk("ChannelFlags", got.ChannelFlags == want.chFlags)
	chk("TimeLockDelta", got.TimeLockDelta == want.timelock)
	chk("MinHTLC", got.MinHTLC == want.min)
	chk("MaxHTLC", got.MaxHTLC == want.max)
	chk("FeeBase", uint64(got.FeeBaseMSat) == uint64(want.base))
	chk("FeeRate", uint64(got.FeeProportionalMillionths) == uint64(want.rate))
	chk("SigBytes", bytes.Equal(got.SigBytes, want.sig.ToSignatureBytes()))
	chk("ToNode", got.ToNode == toNode)
	if len(bad) > 0 {
		return fmt.Errorf("policy differs in %v (stored ts=%d, want "+
			"ts=%d)", bad, got.LastUpdate.Unix(), want.ts)
	}

	return nil
}

// TestVerifC20Builder drives the Builder with generated operation sequences.
func TestVerifC20Builder(t *testing.T) {
	st := vstats.New("TestVerifC20Builder")
	defer st.Flush()

	tctx := createTestCtxSingleNode(t, 500)
	b := tctx.builder
	bg := context.Background()

	rapid.Check(t, func(rt *rapid.T) {
		seed := rapid.Uint64().Draw(rt, "seed")
		caseNo := c20bCase.Add(1)
		baseTS := uint32(rapid.IntRange(1_000_000_000, 1_600_000_000).
			Draw(rt, "baseTS"))

		nNodes := rapid.IntRange(2, 4).Draw(rt, "nNodes")
		var nodes []*c20bNode
		for i := 0; i < nNodes; i++ {
			k := c20bKey(seed, caseNo, fmt.Sprintf("node%d", i))
			nodes = append(nodes, &c20bNode{
				pub: route.NewVertex(k.PubKey()),
			})
		}
		nChans := rapid.IntRange(1, 3).Draw(rt, "nChans")
		var chans []*c20bChan
		for i := 0; i < nChans; i++ {
			l := fmt.Sprintf("ch%d", i)
			n1 := rapid.IntRange(0, nNodes-1).Draw(rt, l+"n1")
			n2 := rapid.IntRange(0, nNodes-2).Draw(rt, l+"n2")
			if n2 >= n1 {
				n2++
			}
			c := &c20bChan{
				// unique over the whole test run, below the
				// builder's height
				scid: lnwire.ShortChannelID{
					BlockHeight: uint32(caseNo>>12)%400 + 1,
					TxIndex:     uint32(caseNo & 0xfff),
					TxPosition:  uint16(i),
				},
				n: [2]int{n1, n2},
				btc: [2]route.Vertex{
					route.NewVertex(c20bKey(seed, caseNo,
						l+"b1").PubKey()),
					route.NewVertex(c20bKey(seed, caseNo,
						l+"b2").PubKey()),
				},
				cap: btcutil.Amount(rapid.IntRange(1000, 1<<24).
					Draw(rt, l+"cap")),
			}
			c.point = wire.OutPoint{
				Hash: sha256.Sum256([]byte(fmt.Sprintf(
					"c20b-op/%d/%d/%d", seed, caseNo, i))),
				Index: uint32(i),
			}
			for s := 0; s < 4; s++ {
				c.sigs[s] = c20bSig(seed, fmt.Sprintf("%s/%d/%d",
					l, caseNo, s))
			}
			chans = append(chans, c)
		}

		labels := map[string]bool{}
		nontrivial := false
		var trace []any

		// verify reads everything back and compares it with the model.
		verify := func(after string) {
			for ci, c := range chans {
				info, p1, p2, err := b.GetChannelByID(c.scid)
				switch {
				case c.known:
					if err != nil {
						rt.Fatalf("%s: chan %d: known "+
							"channel not found: %v",
							after, ci, err)
					}
					if info.ChannelID != c.scid.ToUint64() ||
						info.NodeKey1Bytes != nodes[c.n[0]].pub ||
						info.NodeKey2Bytes != nodes[c.n[1]].pub ||
						info.Capacity != c.cap ||
						info.ChannelPoint != c.point ||
						info.AuthProof == nil {

						rt.Fatalf("%s: chan %d: stored "+
							"channel differs: %+v", after,
							ci, info)
					}
					sig1 := info.AuthProof.NodeSig1Bytes.
						UnwrapOr(nil)
					if !bytes.Equal(sig1,
						c.sigs[0].ToSignatureBytes()) {

						rt.Fatalf("%s: chan %d: proof "+
							"replaced", after, ci)
					}
					err = c20bPolEqual(p1, c.pol[0],
						c.scid.ToUint64(), nodes[c.n[1]].pub)
					if err != nil {
						rt.Fatalf("%s: chan %d dir 0: %v",
							after, ci, err)
					}
					err = c20bPolEqual(p2, c.pol[1],
						c.scid.ToUint64(), nodes[c.n[0]].pub)
					if err != nil {
						rt.Fatalf("%s: chan %d dir 1: %v",
							after, ci, err)
					}

				case c.zombie:
					if !errors.Is(err, graphdb.ErrZombieEdge) {
						rt.Fatalf("%s: chan %d: zombie "+
							"lookup gave %v", after, ci, err)
					}

				default:
					if !errors.Is(err, graphdb.ErrEdgeNotFound) {
						rt.Fatalf("%s: chan %d: unknown "+
							"channel lookup gave %v, %v",
							after, ci, info, err)
					}
				}
				if got := b.IsKnownEdge(c.scid); got !=
					(c.known || c.zombie) {

					rt.Fatalf("%s: chan %d: IsKnownEdge=%v, "+
						"known=%v zombie=%v", after, ci, got,
						c.known, c.zombie)
				}
			}
			for ni, n := range nodes {
				got, err := b.FetchNode(bg, n.pub)
				switch {
				case !n.inChan:
					if !errors.Is(err,
						graphdb.ErrGraphNodeNotFound) {

						rt.Fatalf("%s: node %d without "+
							"channel is in the graph: %v",
							after, ni, err)
					}
				case err != nil:
					rt.Fatalf("%s: node %d: %v", after, ni, err)
				case n.ann == nil:
					if got.HaveAnnouncement() {
						rt.Fatalf("%s: node %d has an "+
							"announcement nobody sent "+
							"(ts=%d)", after, ni,
							got.LastUpdate.Unix())
					}
				default:
					if got.LastUpdate.Unix() !=
						int64(n.ann.Timestamp) ||
						got.Alias.UnwrapOr("") !=
							n.ann.Alias.String() ||
						!bytes.Equal(got.AuthSigBytes, n.ann.
							Signature.ToSignatureBytes()) {

						rt.Fatalf("%s: node %d: stored "+
							"ts=%d alias=%q, want ts=%d "+
							"alias=%q", after, ni,
							got.LastUpdate.Unix(),
							got.Alias.UnwrapOr(""),
							n.ann.Timestamp,
							n.ann.Alias.String())
					}
				}
			}
		}

		nOps := rapid.IntRange(5, 30).Draw(rt, "nOps")
		for o := 0; o < nOps; o++ {
			l := fmt.Sprintf("o%d", o)
			k := rapid.IntRange(0, 99).Draw(rt, l+"k")
			if o == 0 && k >= 40 {
				k = 0
			}
			switch {
			case k < 18: // AddEdge
				ci := rapid.IntRange(0, nChans-1).Draw(rt, l+"c")
				c := chans[ci]
				trace = append(trace, "E", ci)
				err := b.AddEdge(bg, c.edgeInfo(nodes))
				switch {
				case c.known || c.zombie:
					if !IsError(err, ErrIgnored) {
						rt.Fatalf("AddEdge for known/zombie "+
							"channel: %v", err)
					}
					labels["addedge_duplicate"] = true
					nontrivial = true
				default:
					if err != nil {
						rt.Fatalf("AddEdge: %v", err)
					}
					c.known = true
					nodes[c.n[0]].inChan = true
					nodes[c.n[1]].inChan = true
					labels["addedge_new"] = true
				}
				verify("AddEdge")

			case k < 24: // zombie mark (failed funding validation)
				ci := rapid.IntRange(0, nChans-1).Draw(rt, l+"c")
				c := chans[ci]
				if c.known || c.zombie {
					continue
				}
				trace = append(trace, "Z", ci)
				if err := b.MarkZombieEdge(c.scid.ToUint64()); err != nil {
					rt.Fatalf("MarkZombieEdge: %v", err)
				}
				c.zombie = true
				labels["zombie_marked"] = true
				verify("MarkZombieEdge")

			case k < 70: // UpdateEdge (+ the stale query before it)
				ci := rapid.IntRange(0, nChans-1).Draw(rt, l+"c")
				c := chans[ci]
				d := rapid.IntRange(0, 1).Draw(rt, l+"d")
				p := &c20bPol{
					ts: baseTS + uint32(rapid.IntRange(0, 3).
						Draw(rt, l+"ts")),
					chFlags: lnwire.ChanUpdateChanFlags(d),
					timelock: uint16(rapid.IntRange(0, 65535).
						Draw(rt, l+"tl")),
					min: lnwire.MilliSatoshi(rapid.IntRange(0, 1000).
						Draw(rt, l+"min")),
					base: uint32(rapid.IntRange(0, 1<<20).
						Draw(rt, l+"base")),
					rate: uint32(rapid.IntRange(0, 1<<20).
						Draw(rt, l+"rate")),
					sig: c20bSig(seed, fmt.Sprintf("%s/%d", l, caseNo)),
				}
				if rapid.IntRange(0, 3).Draw(rt, l+"dis") == 0 {
					p.chFlags |= lnwire.ChanUpdateDisabled
				}
				p.max = p.min + lnwire.MilliSatoshi(
					rapid.IntRange(1, 100000).Draw(rt, l+"max"))
				cur := c.pol[d]
				trace = append(trace, "U", ci, d, p.ts, p.base, p.rate)

				wantStale := false
				switch {
				case c.zombie:
					// older than ChannelPruneExpiry by
					// construction (2001..2020)
					wantStale = true
				case !c.known:
					wantStale = false
				default:
					wantStale = cur != nil && cur.ts >= p.ts
				}
				gotStale := b.IsStaleEdgePolicy(
					c.scid, time.Unix(int64(p.ts), 0), p.chFlags,
				)
				if gotStale != wantStale {
					rt.Fatalf("IsStaleEdgePolicy(dir=%d ts=%d)=%v"+
						" but stored=%v known=%v zombie=%v", d,
						p.ts, gotStale, cur, c.known, c.zombie)
				}

				pol, err := models.ChanEdgePolicyFromWire(
					c.scid.ToUint64(), p.wire(c.scid),
				)
				if err != nil {
					rt.Fatalf("harness: %v", err)
				}
				err = b.UpdateEdge(bg, pol)
				switch {
				case !c.known:
					if !IsError(err, ErrIgnored) {
						rt.Fatalf("UpdateEdge for unknown "+
							"channel: %v", err)
					}
					labels["update_unknown_channel"] = true
				case cur != nil && cur.ts >= p.ts:
					if !IsError(err, ErrOutdated) {
						rt.Fatalf("UpdateEdge dir=%d ts=%d "+
							"over stored ts=%d returned %v, "+
							"want ErrOutdated", d, p.ts,
							cur.ts, err)
					}
					if cur.ts == p.ts {
						labels["update_equal_ts"] = true
					} else {
						labels["update_older_ts"] = true
					}
					nontrivial = true
				default:
					if err != nil {
						rt.Fatalf("UpdateEdge fresh dir=%d "+
							"ts=%d: %v", d, p.ts, err)
					}
					c.pol[d] = p
					if cur == nil {
						labels["update_first"] = true
					} else {
						labels["update_newer"] = true
					}
				}
				verify(fmt.Sprintf("UpdateEdge(dir=%d ts=%d)", d,
					p.ts))

			default: // AddNode (+ the stale query before it)
				ni := rapid.IntRange(0, nNodes-1).Draw(rt, l+"n")
				n := nodes[ni]
				ts := baseTS + uint32(rapid.IntRange(0, 4).
					Draw(rt, l+"ts"))
				trace = append(trace, "N", ni, ts)
				alias, _ := lnwire.NewNodeAlias(fmt.Sprintf(
					"c20b-%d-%d", o, ts%100))
				ann := &lnwire.NodeAnnouncement1{
					Signature: c20bSig(seed, fmt.Sprintf("%s/%d", l,
						caseNo)),
					Features:  lnwire.NewRawFeatureVector(),
					Timestamp: ts,
					NodeID:    n.pub,
					RGBColor:  color.RGBA{R: byte(o), G: 2, B: 3},
					Alias:     alias,
					Addresses: []net.Addr{&net.TCPAddr{
						IP: net.IPv4(10, 0, 0, byte(o)), Port: 9735,
					}},
				}
				fresh := n.inChan &&
					(n.ann == nil || n.ann.Timestamp < ts)
				gotStale := b.IsStaleNode(bg, n.pub,
					time.Unix(int64(ts), 0))
				if gotStale == fresh {
					rt.Fatalf("IsStaleNode(ts=%d)=%v but "+
						"inChan=%v stored=%v", ts, gotStale,
						n.inChan, n.ann != nil)
				}
				err := b.AddNode(bg,
					models.NodeFromWireAnnouncement(ann))
				switch {
				case !n.inChan:
					if !IsError(err, ErrIgnored) {
						rt.Fatalf("AddNode without channel: "+
							"%v", err)
					}
					labels["node_no_channel"] = true
					nontrivial = true
				case !fresh:
					if !IsError(err, ErrOutdated) {
						rt.Fatalf("AddNode ts=%d over stored "+
							"ts=%d returned %v", ts,
							n.ann.Timestamp, err)
					}
					if n.ann.Timestamp == ts {
						labels["node_equal_ts"] = true
					} else {
						labels["node_older_ts"] = true
					}
					nontrivial = true
				default:
					if err != nil {
						rt.Fatalf("AddNode fresh: %v", err)
					}
					if n.ann == nil {
						labels["node_first"] = true
					} else {
						labels["node_newer"] = true
					}
					n.ann = ann
				}
				verify(fmt.Sprintf("AddNode(%d ts=%d)", ni, ts))
			}
		}

		var ll []string
		for k := range labels {
			ll = append(ll, k)
		}
		st.Case(vstats.FP(append([]any{seed, baseTS, nNodes, nChans},
			trace...)...),
			nontrivial, ll, map[string]any{"seed": seed, "ops": nOps,
				"labels": ll})
	})
}
