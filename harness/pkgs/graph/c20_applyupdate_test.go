//go:build verif

package graph

// C20 (third entry point): Builder.ApplyChannelUpdate. Besides the gossiper,
// lnd feeds channel_update messages into the graph from a second source: the
// updates that forwarding nodes attach to onion failure messages
// (routing/payment_lifecycle.go -> Builder.ApplyChannelUpdate). That path does
// its own validation - direction owner's key, netann.ValidateChannelUpdateAnn,
// freshness through UpdateEdge - and is reachable by anyone who can make a
// payment of ours fail. The statement "a channel update is applied only if it
// is signed by the node owning that direction of a known channel, is strictly
// newer than the stored one and carries consistent fields; anything else
// leaves the graph unchanged" applies to it unchanged.
//
// Added after seeded change C20d (signature check skipped when the signature
// bytes equal the stored policy's) slipped through: the gossiper and
// UpdateEdge tests never call this method.
//
// Generator: 2-3 nodes with real keys, 1-2 channels in a real Builder/graph
// database, then a history of 6..24 ApplyChannelUpdate calls: authentic
// updates (signed by the direction's owner) with timestamps newer / equal /
// older than the stored policy, and forgeries - signed by the other endpoint
// or a stranger, a field changed after signing (timestamp, fees, flags,
// time lock, min/max HTLC, extra data), the direction bit flipped after
// signing, the signature of the currently stored policy or of an earlier
// authentic message re-used over different contents, inconsistent fields
// (max_htlc missing / zero / below min / above capacity) with a genuine
// signature, unknown channel.
//
// Oracle: a model of the stored policies (last authentic, fresh, consistent
// update per direction). After every call both directions of every channel
// are read back through the Builder and compared with the model field by
// field incl. the signature; a forgery must additionally be answered false.

import (
	"context"
	"fmt"
	"sort"
	"testing"

	"github.com/btcsuite/btcd/btcec/v2"
	"github.com/btcsuite/btcd/btcec/v2/ecdsa"
	"github.com/btcsuite/btcd/btcutil/v2"
	"github.com/btcsuite/btcd/chainhash/v2"
	"github.com/btcsuite/btcd/wire/v2"
	"github.com/lightningnetwork/lnd/internal/verif/vstats"
	"github.com/lightningnetwork/lnd/lnwire"
	"github.com/lightningnetwork/lnd/routing/route"
	"pgregory.net/rapid"
)

func c20aSign(t *rapid.T, k *btcec.PrivateKey, m *lnwire.ChannelUpdate1) {
	data, err := m.DataToSign()
	if err != nil {
		t.Fatalf("DataToSign: %v", err)
	}
	sig := ecdsa.Sign(k, chainhash.DoubleHashB(data))
	m.Signature, err = lnwire.NewSigFromSignature(sig)
	if err != nil {
		t.Fatalf("sig: %v", err)
	}
}

func c20aPolOf(m *lnwire.ChannelUpdate1) *c20bPol {
	return &c20bPol{
		ts: m.Timestamp, chFlags: m.ChannelFlags,
		timelock: m.TimeLockDelta, min: m.HtlcMinimumMsat,
		max: m.HtlcMaximumMsat, base: m.BaseFee, rate: m.FeeRate,
		sig: m.Signature,
	}
}

func TestVerifC20ApplyUpdate(t *testing.T) {
	st := vstats.New("TestVerifC20ApplyUpdate")
	defer st.Flush()

	tctx := createTestCtxSingleNode(t, 500)
	b := tctx.builder
	bg := context.Background()

	rapid.Check(t, func(rt *rapid.T) {
		seed := rapid.Uint64().Draw(rt, "seed")
		caseNo := c20bCase.Add(1)
		baseTS := uint32(rapid.IntRange(1_000_000_000, 1_600_000_000).
			Draw(rt, "baseTS"))

		nNodes := rapid.IntRange(2, 3).Draw(rt, "nNodes")
		var (
			nodes []*c20bNode
			keys  []*btcec.PrivateKey
		)
		for i := 0; i < nNodes; i++ {
			k := c20bKey(seed, caseNo, fmt.Sprintf("anode%d", i))
			keys = append(keys, k)
			nodes = append(nodes, &c20bNode{
				pub: route.NewVertex(k.PubKey()),
			})
		}
		stranger := c20bKey(seed, caseNo, "stranger")

		nChans := rapid.IntRange(1, 2).Draw(rt, "nChans")
		var chans []*c20bChan
		for i := 0; i < nChans; i++ {
			l := fmt.Sprintf("ch%d", i)
			n1 := rapid.IntRange(0, nNodes-1).Draw(rt, l+"n1")
			n2 := rapid.IntRange(0, nNodes-2).Draw(rt, l+"n2")
			if n2 >= n1 {
				n2++
			}
			c := &c20bChan{
				scid: lnwire.ShortChannelID{
					BlockHeight: uint32(caseNo>>12)%400 + 1,
					TxIndex:     uint32(caseNo & 0xfff),
					TxPosition:  uint16(100 + i),
				},
				n: [2]int{n1, n2},
				btc: [2]route.Vertex{
					route.NewVertex(c20bKey(seed, caseNo,
						l+"ab1").PubKey()),
					route.NewVertex(c20bKey(seed, caseNo,
						l+"ab2").PubKey()),
				},
				cap: btcutil.Amount(rapid.IntRange(1000, 1<<24).
					Draw(rt, l+"cap")),
			}
			c.point = wire.OutPoint{
				Hash: chainhash.DoubleHashH([]byte(fmt.Sprintf(
					"c20a-op/%d/%d/%d", seed, caseNo, i))),
				Index: uint32(i),
			}
			for s := 0; s < 4; s++ {
				c.sigs[s] = c20bSig(seed, fmt.Sprintf("a%s/%d/%d",
					l, caseNo, s))
			}
			if err := b.AddEdge(bg, c.edgeInfo(nodes)); err != nil {
				rt.Fatalf("AddEdge: %v", err)
			}
			c.known = true
			chans = append(chans, c)
		}
		unknownScid := lnwire.ShortChannelID{
			BlockHeight: uint32(caseNo>>12)%400 + 1,
			TxIndex:     uint32(caseNo & 0xfff),
			TxPosition:  uint16(999),
		}

		verify := func(after string) {
			for ci, c := range chans {
				_, p1, p2, err := b.GetChannelByID(c.scid)
				if err != nil {
					rt.Fatalf("%s: chan %d lookup: %v", after, ci,
						err)
				}
				err = c20bPolEqual(p1, c.pol[0], c.scid.ToUint64(),
					nodes[c.n[1]].pub)
				if err != nil {
					rt.Fatalf("%s: chan %d dir 0: graph changed "+
						"although no authentic, fresh, "+
						"consistent update accounts for it: %v",
						after, ci, err)
				}
				err = c20bPolEqual(p2, c.pol[1], c.scid.ToUint64(),
					nodes[c.n[0]].pub)
				if err != nil {
					rt.Fatalf("%s: chan %d dir 1: graph changed "+
						"although no authentic, fresh, "+
						"consistent update accounts for it: %v",
						after, ci, err)
				}
			}
		}
		verify("init")

		labels := map[string]bool{}
		var trace []any
		// authentic messages seen so far per (chan, dir)
		var seen [2][2][]*lnwire.ChannelUpdate1
		nForged, nApplied, nReuse := 0, 0, 0

		nOps := rapid.IntRange(6, 24).Draw(rt, "nOps")
		for o := 0; o < nOps; o++ {
			l := fmt.Sprintf("o%d", o)
			ci := rapid.IntRange(0, nChans-1).Draw(rt, l+"c")
			c := chans[ci]
			d := rapid.IntRange(0, 1).Draw(rt, l+"d")
			owner := keys[c.n[d]]
			capMsat := lnwire.NewMSatFromSatoshis(c.cap)

			min := lnwire.MilliSatoshi(rapid.IntRange(0, 1000).
				Draw(rt, l+"min"))
			max := min + lnwire.MilliSatoshi(rapid.Int64Range(1,
				int64(capMsat-min)).Draw(rt, l+"max"))
			tsOff := rapid.IntRange(0, 4).Draw(rt, l+"ts")
			m := &lnwire.ChannelUpdate1{
				ShortChannelID:  c.scid,
				Timestamp:       baseTS + uint32(tsOff),
				MessageFlags:    lnwire.ChanUpdateRequiredMaxHtlc,
				ChannelFlags:    lnwire.ChanUpdateChanFlags(d),
				TimeLockDelta:   uint16(rapid.IntRange(0, 65535).Draw(rt, l+"tl")),
				HtlcMinimumMsat: min,
				HtlcMaximumMsat: max,
				BaseFee:         uint32(rapid.IntRange(0, 1<<20).Draw(rt, l+"base")),
				FeeRate:         uint32(rapid.IntRange(0, 1<<20).Draw(rt, l+"rate")),
			}
			if rapid.IntRange(0, 3).Draw(rt, l+"dis") == 0 {
				m.ChannelFlags |= lnwire.ChanUpdateDisabled
			}

			kind := rapid.IntRange(0, 13).Draw(rt, l+"kind")
			authentic := true
			what := "authentic"
			switch kind {
			case 0, 1, 2, 3, 4:
				c20aSign(rt, owner, m)

			case 5: // signed by the other endpoint
				c20aSign(rt, keys[c.n[1-d]], m)
				authentic, what = false, "signed_by_other_endpoint"

			case 6: // signed by a stranger
				c20aSign(rt, stranger, m)
				authentic, what = false, "signed_by_stranger"

			case 7: // field changed after signing
				c20aSign(rt, owner, m)
				switch rapid.IntRange(0, 7).Draw(rt, l+"field") {
				case 0:
					m.Timestamp += 1 + uint32(rapid.IntRange(0, 5).Draw(rt, l+"dts"))
				case 1:
					m.BaseFee ^= 1 << uint(rapid.IntRange(0, 20).Draw(rt, l+"bit"))
				case 2:
					m.FeeRate++
				case 3:
					m.ChannelFlags ^= lnwire.ChanUpdateDisabled
				case 4:
					m.TimeLockDelta++
				case 5:
					if m.HtlcMaximumMsat > m.HtlcMinimumMsat && m.HtlcMaximumMsat > 1 {
						m.HtlcMaximumMsat--
					} else {
						m.BaseFee++
					}
				case 6:
					if m.HtlcMinimumMsat > 0 {
						m.HtlcMinimumMsat--
					} else {
						m.FeeRate += 7
					}
				default:
					m.ExtraOpaqueData = append(
						lnwire.ExtraOpaqueData(nil),
						0xfd, 0xff, 0xff, 0x01, 0x2a,
					)
				}
				authentic, what = false, "field_changed_after_signing"

			case 8: // direction flipped after signing
				c20aSign(rt, owner, m)
				m.ChannelFlags ^= lnwire.ChanUpdateDirection
				authentic, what = false, "direction_flipped_after_signing"

			case 9, 10: // signature of an authentic message re-used
				// over different contents, preferably the one
				// of the stored policy
				var src *lnwire.ChannelUpdate1
				if c.pol[d] != nil && kind == 9 {
					for _, s := range seen[ci][d] {
						if string(s.Signature.ToSignatureBytes()) ==
							string(c.pol[d].sig.ToSignatureBytes()) {
							src = s
						}
					}
				} else if n := len(seen[ci][d]); n > 0 {
					src = seen[ci][d][rapid.IntRange(0, n-1).Draw(rt, l+"src")]
				}
				if src == nil {
					c20aSign(rt, stranger, m)
					authentic, what = false, "signed_by_stranger"
					break
				}
				m.Signature = src.Signature
				// newer than anything stored, other contents
				m.Timestamp = baseTS + 5 + uint32(rapid.IntRange(0, 3).Draw(rt, l+"rts"))
				d1, _ := m.DataToSign()
				d2, _ := src.DataToSign()
				if string(d1) == string(d2) {
					m.BaseFee++
				}
				authentic, what = false, "stored_signature_reused"
				nReuse++

			case 11: // inconsistent fields, genuine signature
				switch rapid.IntRange(0, 3).Draw(rt, l+"inc") {
				case 0:
					m.MessageFlags = 0
					m.HtlcMaximumMsat = 0
				case 1:
					m.HtlcMaximumMsat = 0
				case 2:
					m.HtlcMinimumMsat = m.HtlcMaximumMsat + 1
				default:
					m.HtlcMaximumMsat = capMsat + 1 +
						lnwire.MilliSatoshi(rapid.IntRange(0, 999).Draw(rt, l+"over"))
				}
				c20aSign(rt, owner, m)
				authentic, what = false, "inconsistent_fields"

			case 12: // unknown channel
				m.ShortChannelID = unknownScid
				c20aSign(rt, owner, m)
				authentic, what = false, "unknown_channel"

			default: // garbage signature
				m.Signature = c20bSig(seed, l)
				authentic, what = false, "garbage_signature"
			}
			labels["msg="+what] = true
			trace = append(trace, what, ci, d, m.Timestamp)

			ok := b.ApplyChannelUpdate(m)

			if authentic {
				seen[ci][d] = append(seen[ci][d], m)
				if !ok {
					rt.Fatalf("op %d: authentic, consistent update "+
						"(chan %d dir %d ts %d) answered false",
						o, ci, d, m.Timestamp)
				}
				cur := c.pol[d]
				if cur == nil || m.Timestamp > cur.ts {
					c.pol[d] = c20aPolOf(m)
					nApplied++
					labels["authentic_fresh_applied"] = true
				} else if m.Timestamp == cur.ts {
					labels["authentic_equal_ts_ignored"] = true
				} else {
					labels["authentic_older_ignored"] = true
				}
			} else {
				nForged++
				if ok {
					rt.Fatalf("op %d: %s (chan %d dir %d ts %d) "+
						"answered true", o, what, ci, d,
						m.Timestamp)
				}
			}
			verify(fmt.Sprintf("op %d ApplyChannelUpdate(%s chan %d "+
				"dir %d ts %d)", o, what, ci, d, m.Timestamp))
		}

		nontrivial := nForged > 0 && nApplied > 0
		if nReuse > 0 {
			labels["stored_signature_reused_over_stored_policy"] = true
		}
		var ls []string
		for k := range labels {
			ls = append(ls, k)
		}
		sort.Strings(ls)
		st.Case(vstats.FP(append([]any{seed, baseTS, nNodes, nChans},
			trace...)...), nontrivial, ls, map[string]any{
			"seed": seed, "ops": nOps, "trace": trace})
	})
}
