//go:build verif

package sweep

// Deterministic reproductions of what TestVerifC18Sweeper observed outside
// the statement of C18 (notes/C18.md, part 4, O1 and O2). Like the tests in
// c18_findings_test.go they are NOT part of the job tables: each fails while
// the behaviour is present and passes once it is repaired.
//
//	./check C18 --run '^TestVerifC18ObservationImmediateImmatureFatal$' --checks 1 --shards 1 --verbose
//	./check C18 --run '^TestVerifC18ObservationReplacementLostInStore$' --checks 1 --shards 1 --verbose

import (
	"errors"
	"testing"

	"github.com/lightningnetwork/lnd/internal/verif/vstats"
)

// Suggested known-finding keys, should the lead want to register them:
//
//	C18:immediate-input-fatal-at-maturity-block   (O1)
//	C18:replacement-after-refused-publish-not-stored   (O2)
//
// TestVerifC18Sweeper does not assert on either (it labels them:
// fatal_immature_at_maturity_block, own_sweep_reported_as_remote_spend,
// bump_event_error), so nothing needs to be excluded.

func c18xFixedHarness(t *testing.T, height int32) *c18xHarness {
	st := vstats.New(t.Name())
	h := newC18xHarness(st, c18FixedEstimator(1000, 253), height, 1000, 100,
		1008)
	h.wire()

	return h
}

// O1. An input that carries Immediate=true (walletrpc.BumpFee --immediate on a
// pending sweep) and a CLTV that is reached at block h: the sweeper (first
// block consumer) groups it at block h and, because the set is immediate,
// TxPublisher.Broadcast builds the transaction at once - with the publisher's
// height still h-1 (it is the next block consumer). prepareSweepTx refuses
// (ErrLocktimeImmature), handleInitialTxError maps that to TxFatal and the
// sweeper drops the input for good with an error result, although the very
// same transaction would be valid one queue step later.
func TestVerifC18ObservationImmediateImmatureFatal(t *testing.T) {
	const height = 500
	h := c18xFixedHarness(t, height)
	defer h.stop()

	// An outgoing-HTLC timeout claim on the remote commitment, CLTV 501.
	m := &c18Input{
		kind: c18Kinds[8], value: 100_000, hasLock: true, lockTime: 501,
	}
	if m.kind.name != "htlc_offered_remote_timeout" {
		t.Fatalf("input table changed: %s", m.kind.name)
	}
	c18BuildInput(m, 1)
	x := h.newInput(m)
	h.offer(x, c18xParams{
		budget: 10_000, hasDl: true, deadline: 520, immediate: true,
	})
	if len(h.recs) != 0 {
		t.Fatalf("immature input was handed to the publisher")
	}

	h.beat(501, false)
	h.afterStep()
	h.poll("end")
	for _, v := range h.violations {
		t.Errorf("oracle: %s", v)
	}
	l := h.listeners[0]
	t.Logf("requests=%d events=%v result delivered=%d err=%v",
		len(h.recs), h.recs[0].events, l.got, l.gotErr)
	if l.got > 0 && errors.Is(l.gotErr, ErrLocktimeImmature) {
		t.Errorf("input with CLTV 501 offered with Immediate=true was "+
			"failed for good at block 501: %v", l.gotErr)
	}
	if len(h.recs[0].pubs) == 0 {
		t.Errorf("nothing was published for the matured input at block 501")
	}
}

// O2. A replacement that the wallet refuses at PublishTransaction with
// ErrInsufficientFee (the documented neutrino case: no testmempoolaccept) is
// nevertheless stored as the record's current tx (createAndPublishTx calls
// updateRecord before broadcast). The next successful replacement reports that
// never-published tx as ReplacedTx; UtxoSweeper.handleBumpEventTxReplaced does
// not find it in the sweeper store, returns early and never stores the new tx.
// When the new tx confirms, IsOurTx says no: the caller of SweepInput is told
// ErrRemoteSpend for the node's own sweep (and the store keeps the stale tx).
func TestVerifC18ObservationReplacementLostInStore(t *testing.T) {
	const height = 500
	h := c18xFixedHarness(t, height)
	defer h.stop()

	m := c18ToLocal(1, 1_000_000)
	x := h.newInput(m)
	// Publication #1 accepted, #2 refused for fee reasons, #3 accepted.
	h.seqPub = []int{c18RespOK, c18RespInsufficientFee, c18RespOK}
	h.offer(x, c18xParams{
		budget: 100_000, hasDl: true, deadline: 510, immediate: true,
	})
	h.beat(501, false)
	h.beat(502, false)
	h.afterStep()
	r := h.recs[0]
	t.Logf("events=%v publications=%d accepted=%d", r.events, len(r.pubs),
		len(r.accepted))
	if len(r.accepted) != 2 {
		t.Fatalf("scenario did not unfold: %d accepted publications",
			len(r.accepted))
	}
	last := h.accepted[r.accepted[1]]
	if !h.store.IsOurTx(last.hash) {
		t.Errorf("the sweeper store does not know the node's current "+
			"sweep tx %v", last.hash)
	}

	// The current sweep transaction confirms.
	h.onChain(last.tx, false)
	h.poll("end")
	for _, v := range h.violations {
		t.Errorf("oracle: %s", v)
	}
	l := h.listeners[0]
	if l.got != 1 {
		t.Fatalf("results delivered: %d", l.got)
	}
	if l.gotErr != nil {
		t.Errorf("the node's own sweep confirmed, the caller was told: %v",
			l.gotErr)
	}
}
