//go:build verif

package sweep

// C18 part 3: BudgetAggregator.ClusterInputs -> BudgetInputSet (budget of a
// set, wallet-input top-ups, starting fee rate selection) -> BumpRequest as
// UtxoSweeper.sweep builds it -> the real TxPublisher, with the same
// per-transaction oracle as part 2. The budget in the oracle is the sum of
// the budgets of the offered inputs that ended up in the transaction (wallet
// top-ups carry no budget).
//
// A second round re-offers the inputs of failed sets with the starting rate
// reported by the publisher (what markInputsPublishFailed does), drops some
// of them and re-clusters, which is how a carried-over starting rate meets a
// set with a lower budget ceiling (F2 reachability).

import (
	"fmt"
	"sort"
	"testing"

	"github.com/btcsuite/btcd/btcutil/v2"
	"github.com/btcsuite/btcd/chainhash/v2"
	"github.com/btcsuite/btcd/wire/v2"
	"github.com/lightningnetwork/lnd/fn/v2"
	"github.com/lightningnetwork/lnd/internal/verif/vstats"
	"github.com/lightningnetwork/lnd/lnwallet"
	"github.com/lightningnetwork/lnd/lnwallet/chainfee"
	"pgregory.net/rapid"
)

// c18Offer is the model of one input offered to the sweeper.
type c18Offer struct {
	m         *c18Input
	budget    int64
	deadline  int32
	start     int64 // 0 = none
	immediate bool
	exclusive bool
	// extraBudget is the input's additive share of the aux sweeper's
	// ExtraBudgetForInputs (only for blob-carrying inputs, aux mode).
	extraBudget int64
	si          *SweeperInput
}

func (o *c18Offer) inputWeight() int64 {
	w, _, _ := o.m.kind.wt.SizeUpperBound()

	return 41*4 + int64(w)
}

func c18DrawOffers(t *rapid.T, height int32, relay, maxRate int64,
	f2Known bool, st *vstats.Collector, serial *int,
	aux *c18Aux, extraVal int64) []*c18Offer {

	n := rapid.IntRange(1, 10).Draw(t, "nOffers")
	lockMode := 0
	switch c := rapid.IntRange(0, 9).Draw(t, "lockMode"); {
	case c < 6:
	case c < 8:
		lockMode = 1
	default:
		lockMode = 2
	}
	sharedLock := uint32(rapid.Int32Range(1, height).Draw(t, "sharedLock"))
	deadlines := []int32{
		height + rapid.Int32Range(2, 12).Draw(t, "dlA"),
		height + rapid.Int32Range(1, 40).Draw(t, "dlB"),
		height + 1008,
	}

	var offers []*c18Offer
	for i := 0; i < n; i++ {
		m := c18DrawInput(t, height, true, lockMode, sharedLock)
		// Required outputs are sometimes dust here: the aggregator
		// must not let them through.
		if m.kind.reqOut && m.reqValue < c18DustLimit(m.reqPk) &&
			rapid.IntRange(0, 2).Draw(t, "keepDustReq") != 0 {

			m.value += 400
			m.reqValue = m.value
		}
		// Aux mode: outputs of a custom channel carry a blob (wallet
		// utxos and anchors never do), and the aux sweeper grants some of
		// them an extra budget.
		var extraBudget int64
		if aux != nil && m.blobEligible() &&
			rapid.IntRange(0, 9).Draw(t, "blob") < 6 {

			m.blob = true
			if rapid.Bool().Draw(t, "hasExtraBudget") {
				extraBudget = rapid.Int64Range(1, 2000).Draw(
					t, "extraBudget")
			}
		}
		*serial++
		c18BuildInput(m, *serial)
		if aux != nil {
			aux.setFact(m.op, c18AuxFact{
				blob: m.blob, extraVal: extraVal,
				extraBudget: extraBudget,
			})
		}

		o := &c18Offer{m: m, extraBudget: extraBudget}
		o.deadline = deadlines[rapid.IntRange(0, 2).Draw(t, "dl")]
		o.immediate = rapid.IntRange(0, 5).Draw(t, "immediate") == 0
		o.exclusive = rapid.IntRange(0, 11).Draw(t, "exclusive") == 0

		iw := o.inputWeight()
		switch rapid.IntRange(0, 9).Draw(t, "budgetClass") {
		case 0, 1, 2, 3:
			// A share of the value, as contractcourt does.
			o.budget = m.value / int64(rapid.IntRange(2, 20).Draw(
				t, "budgetShare"))
		case 4, 5:
			o.budget = c18FeeAt(rapid.Int64Range(relay, 40*relay).Draw(
				t, "budgetRate"), iw)
		case 6:
			// Around the relay minimum for the input itself.
			o.budget = c18FeeAt(relay, iw) + rapid.Int64Range(
				-2, 40).Draw(t, "budgetEdge")
		case 7, 8:
			o.budget = c18FeeAt(rapid.Int64Range(maxRate/2,
				2*maxRate).Draw(t, "budgetRateHigh"), iw)
		default:
			o.budget = rapid.Int64Range(0, 500).Draw(t, "budgetTiny")
		}
		if o.budget < 0 {
			o.budget = 0
		}

		switch c := rapid.IntRange(0, 9).Draw(t, "startClass"); {
		case c < 6:
		case c < 8:
			// Carried over from an earlier attempt: something the
			// input's own budget can pay for its own weight.
			hi := c18Min(maxRate, c18BudgetRateFloor(o.budget, iw))
			if hi >= 1 {
				o.start = rapid.Int64Range(1, hi).Draw(t, "start")
			}
		case c < 9:
			// User supplied (BumpFee): any rate up to the maximum.
			o.start = rapid.Int64Range(1, maxRate).Draw(t, "startUser")
		default:
			// User supplied above the configured maximum: F2.
			o.start = maxRate + rapid.Int64Range(1, maxRate).Draw(
				t, "startAboveMax")
			if f2Known {
				st.Known(c18KeyStartAboveCeiling)
				st.Count("excluded_known", 1)
				o.start = rapid.Int64Range(1, maxRate).Draw(
					t, "startClamped")
			}
		}

		// Distinct budgets: ClusterInputs sorts by budget with an
		// unstable sort over map-ordered input, ties would make the
		// split into sets irreproducible.
		for dup := true; dup; {
			dup = false
			for _, p := range offers {
				if p.budget == o.budget {
					o.budget++
					dup = true
				}
			}
		}

		offers = append(offers, o)
	}

	return offers
}

func (o *c18Offer) build() {
	p := Params{
		Budget:         btcutil.Amount(o.budget),
		DeadlineHeight: fn.Some(o.deadline),
		Immediate:      o.immediate,
	}
	if o.start > 0 {
		p.StartingFeeRate = fn.Some(chainfee.SatPerKWeight(o.start))
	}
	if o.exclusive {
		g := uint64(7)
		p.ExclusiveGroup = &g
	}
	o.si = &SweeperInput{
		Input:          o.m.inp,
		params:         p,
		DeadlineHeight: o.deadline,
	}
}

// c18SetOracle checks what a BudgetInputSet reports against the offers it
// contains. It returns the offers of the set.
func c18SetOracle(set InputSet, byOp map[wire.OutPoint]*c18Offer,
	used map[wire.OutPoint]bool, maxInputs int) ([]*c18Offer, error) {

	var (
		offers   []*c18Offer
		budget   int64
		start    int64
		imm      bool
		lock     uint32
		hasLock  bool
		deadline = set.DeadlineHeight()
	)
	ins := set.Inputs()
	if len(ins) == 0 || len(ins) > maxInputs {
		return nil, fmt.Errorf("set with %d inputs (max %d)", len(ins),
			maxInputs)
	}
	for _, in := range ins {
		o, ok := byOp[in.OutPoint()]
		if !ok {
			return nil, fmt.Errorf("set contains unknown input %v",
				in.OutPoint())
		}
		if used[in.OutPoint()] {
			return nil, fmt.Errorf("input %v is in two sets",
				in.OutPoint())
		}
		used[in.OutPoint()] = true
		offers = append(offers, o)
		// Documented: the set budget is the inputs' budgets plus the
		// aux sweeper's (additive) extra budget for them.
		budget += o.budget + o.extraBudget
		if o.start > start {
			start = o.start
		}
		imm = imm || o.immediate
		if o.deadline != deadline {
			return nil, fmt.Errorf("input with deadline %d in a set "+
				"with deadline %d", o.deadline, deadline)
		}
		if o.exclusive && len(ins) != 1 {
			return nil, fmt.Errorf("exclusive input shares a set")
		}
		if o.m.kind.reqOut && o.m.reqValue < c18DustLimit(o.m.reqPk) {
			return nil, fmt.Errorf("input with dust required output "+
				"(%d) passed the aggregator", o.m.reqValue)
		}
		if o.m.hasLock {
			if hasLock && lock != o.m.lockTime {
				return nil, fmt.Errorf("locktimes %d and %d share "+
					"a set", lock, o.m.lockTime)
			}
			lock, hasLock = o.m.lockTime, true
		}
	}
	if int64(set.Budget()) != budget {
		return nil, fmt.Errorf("set budget %d, inputs' budgets sum to %d",
			set.Budget(), budget)
	}
	got := int64(set.StartingFeeRate().UnwrapOr(0))
	if got != start || set.StartingFeeRate().IsSome() != (start > 0) {
		return nil, fmt.Errorf("set starting rate %v, max over inputs %d",
			set.StartingFeeRate(), start)
	}
	if set.Immediate() != imm {
		return nil, fmt.Errorf("set immediate=%v, inputs say %v",
			set.Immediate(), imm)
	}

	return offers, nil
}

// c18NeedWallet is the reference for NeedWalletInput: budgets of inputs with
// a required output must be borrowed from what the other inputs have left
// after their own budget.
func c18NeedWallet(offers []*c18Offer, walletVals []int64) bool {
	var need, borrowable int64
	for _, o := range offers {
		// The extra budget is granted on top of the inputs' own budgets:
		// it has to come out of somebody's value as well.
		need += o.extraBudget
		if o.m.kind.reqOut {
			need += o.budget
		} else {
			borrowable += o.m.value - o.budget
		}
	}
	for _, v := range walletVals {
		borrowable += v
	}

	return borrowable < need
}

func TestVerifC18Aggregator(t *testing.T) {
	st := vstats.New("TestVerifC18Aggregator")
	defer st.Flush()

	f2Known := c18F2Known()
	roundKnown := c18Known(c18KeyBudgetRateRoundedUp)

	rapid.Check(t, func(t *rapid.T) {
		relay := c18DrawRelay(t)
		est, estKind := c18DrawEstimator(t, relay, 20_000)
		height := int32(rapid.IntRange(100, 900_000).Draw(t, "height"))
		maxRate := rapid.Int64Range(25_000, 2_500_000).Draw(t, "maxRate")
		if rapid.IntRange(0, 2).Draw(t, "maxDefault") == 0 {
			maxRate = 250_000
		}
		maxInputs := rapid.SampledFrom([]int{100, 100, 2, 3, 5}).Draw(
			t, "maxInputs")
		change := rapid.SampledFrom(c18Change).Draw(t, "change")

		// A third of the cases: custom channels, i.e. an aux sweeper on
		// the aggregator and the publisher.
		var (
			aux      *c18Aux
			extraVal int64
		)
		if rapid.IntRange(0, 2).Draw(t, "auxMode") == 0 {
			aux = newC18Aux()
			extraVal = rapid.Int64Range(330, 1000).Draw(t, "extraVal")
		}

		serial := 0
		offers := c18DrawOffers(t, height, relay, maxRate, f2Known, st,
			&serial, aux, extraVal)

		// Wallet utxos for top-ups.
		nu := rapid.IntRange(0, 4).Draw(t, "nUtxos")
		var utxos []*lnwallet.Utxo
		walletModel := make(map[wire.OutPoint]*c18Input)
		for i := 0; i < nu; i++ {
			k := c18Kinds[rapid.IntRange(0, 2).Draw(t, "utxoKind")]
			v := c18DrawValue(t, "utxoValue")
			serial++
			var hsh chainhash.Hash
			hsh[0], hsh[1], hsh[31] = 0xc1, 0x09, byte(serial)
			op := wire.OutPoint{Hash: hsh, Index: uint32(i)}
			at := lnwallet.WitnessPubKey
			switch k.name {
			case "wallet_p2tr":
				at = lnwallet.TaprootPubkey
			case "wallet_np2wkh":
				at = lnwallet.NestedWitnessPubKey
			}
			// Distinct values: AddWalletInputs sorts unstably.
			for dup := true; dup; {
				dup = false
				for _, u := range utxos {
					if int64(u.Value) == v {
						v++
						dup = true
					}
				}
			}
			utxos = append(utxos, &lnwallet.Utxo{
				AddressType: at, Value: btcutil.Amount(v),
				PkScript: k.pk, OutPoint: op, Confirmations: 6,
			})
			walletModel[op] = &c18Input{kind: k, op: op, value: v}
		}

		h := newC18HarnessAux(est, height, false, aux)
		h.wallet.utxos = utxos
		auxOpt := fn.None[AuxSweeper]()
		if aux != nil {
			auxOpt = fn.Some[AuxSweeper](aux)
		}
		agg := NewBudgetAggregator(est, uint32(maxInputs), auxOpt)

		var (
			labels      = []string{"est:" + estKind}
			setsTotal   int
			topUps      int
			aboveCeil   int
			aboveMax    int
			rejections  int
			pubs        int
			filtered    int
			multiInput  int
			reqCounter  int
			failedAgain int
			// carriedAboveCeil: a starting rate reported by the
			// publisher itself exceeds the ceiling of the re-grouped
			// set (F2 without any user input).
			carriedAboveCeil int
		)

		// runRound clusters the offers and broadcasts every set.
		runRound := func(round int, offers []*c18Offer) []*c18Req {
			inputs := make(InputsMap)
			byOp := make(map[wire.OutPoint]*c18Offer)
			for _, o := range offers {
				o.build()
				inputs[o.m.op] = o.si
				byOp[o.m.op] = o
			}
			sets := agg.ClusterInputs(inputs)
			// Map iteration inside ClusterInputs: order the sets
			// deterministically before anything is drawn per set.
			sort.Slice(sets, func(i, j int) bool {
				a := sets[i].Inputs()[0].OutPoint()
				b := sets[j].Inputs()[0].OutPoint()

				return a.String() < b.String()
			})
			used := make(map[wire.OutPoint]bool)
			var reqs []*c18Req
			for _, set := range sets {
				setsTotal++
				so, err := c18SetOracle(set, byOp, used, maxInputs)
				if err != nil {
					t.Fatalf("round %d: %v", round, err)
				}
				if len(so) > 1 {
					multiInput++
				}

				// Wallet top-ups.
				need := c18NeedWallet(so, nil)
				if set.NeedWalletInput() != need {
					t.Fatalf("round %d: NeedWalletInput()=%v, "+
						"reference %v", round,
						set.NeedWalletInput(), need)
				}
				var added []*c18Input
				if need {
					budgetBefore := set.Budget()
					err := set.AddWalletInputs(h.wallet)
					// Reference: smallest first until covered.
					sorted := append([]*lnwallet.Utxo{}, utxos...)
					sort.SliceStable(sorted, func(i, j int) bool {
						return sorted[i].Value < sorted[j].Value
					})
					var vals []int64
					for _, u := range sorted {
						vals = append(vals, int64(u.Value))
						added = append(added, walletModel[u.OutPoint])
						if !c18NeedWallet(so, vals) {
							break
						}
					}
					hasNormal := len(added) > 0
					for _, o := range so {
						if !o.m.kind.reqOut {
							hasNormal = true
						}
					}
					if (err != nil) != !hasNormal {
						t.Fatalf("round %d: AddWalletInputs err=%v, "+
							"reference hasNormal=%v", round, err,
							hasNormal)
					}
					if err != nil {
						continue
					}
					if set.Budget() != budgetBefore {
						t.Fatalf("round %d: wallet inputs changed "+
							"the set budget %d -> %d", round,
							budgetBefore, set.Budget())
					}
					got := set.Inputs()
					if len(got) != len(so)+len(added) {
						t.Fatalf("round %d: %d wallet inputs added, "+
							"reference %d", round, len(got)-len(so),
							len(added))
					}
					for i, a := range added {
						g := got[len(so)+i]
						if g.OutPoint() != a.op {
							t.Fatalf("round %d: wallet input %d is "+
								"%v, reference %v (smallest first)",
								round, i, g.OutPoint(), a.op)
						}
						// Fresh model per use: the real input is
						// the one lnd built.
						cp := *a
						cp.inp = g
						added[i] = &cp
					}
					if len(added) > 0 {
						topUps++
					}
				}

				// The request as UtxoSweeper.sweep builds it.
				reqCounter++
				r := &c18Req{
					name: fmt.Sprintf("round%d/set%d", round,
						reqCounter),
					live: true, change: change, maxRate: maxRate,
					deadline:  set.DeadlineHeight(),
					immediate: set.Immediate(),
					values:    make(map[wire.OutPoint]int64),
					aux:       aux != nil, extraVal: extraVal,
				}
				for _, o := range so {
					r.ins = append(r.ins, o.m)
					r.budget += o.budget + o.extraBudget
				}
				r.ins = append(r.ins, added...)
				for _, m := range r.ins {
					r.sumIn += m.value
					if m.kind.reqOut {
						r.sumReq += m.reqValue
					}
				}
				set.StartingFeeRate().WhenSome(
					func(s chainfee.SatPerKWeight) {
						r.hasStart, r.start = true, int64(s)
					},
				)
				var werr error
				r.weight, werr = c18Weight(r.ins, change.pk)
				if werr != nil {
					t.Fatalf("weight: %v", werr)
				}
				if r.hasExtra() {
					// From the generated facts: some input of the
					// set (offered, or topped up) carries a blob.
					r.weight += c18ExtraOutWeight
					r.sumReq += r.extraVal
				}
				if r.budget < 1 {
					// ClusterInputs lets zero budgets through only
					// when the relay fee is zero; never here.
					t.Fatalf("set with budget %d", r.budget)
				}
				if c18RoundedUpOverBudget(r.budget, r.weight, maxRate) {
					if roundKnown {
						// Cannot be adjusted after clustering: the
						// ramp clause is not evaluated for this set.
						st.Known(c18KeyBudgetRateRoundedUp)
						st.Count("excluded_known", 1)
						r.rampChecked = true
					} else {
						st.Count("rounded_up_over_budget", 1)
					}
				}
				ceil := c18Min(maxRate, c18BudgetRateFloor(r.budget,
					r.weight))
				if r.hasStart && r.start > maxRate {
					aboveMax++
				} else if r.hasStart && r.start > ceil {
					aboveCeil++
					if round == 2 {
						carriedAboveCeil++
					}
				}

				// Wallet answers.
				nm := rapid.IntRange(0, 8).Draw(t, "nMempool")
				for i := 0; i < nm; i++ {
					code := c18RespOK
					switch c := rapid.IntRange(0, 9).Draw(t, "mp"); {
					case c < 4:
						code = c18RespInsufficientFee
					case c < 9:
					default:
						code = c18RespMempoolMinFee
					}
					r.mempool = append(r.mempool, code)
				}

				bumpReq := &BumpRequest{
					Inputs:          set.Inputs(),
					Budget:          set.Budget(),
					DeadlineHeight:  set.DeadlineHeight(),
					DeliveryAddress: c18Delivery(change),
					MaxFeeRate:      chainfee.SatPerKWeight(maxRate),
					StartingFeeRate: set.StartingFeeRate(),
					Immediate:       set.Immediate(),
				}
				for _, m := range r.ins {
					h.wallet.byOp[m.op] = r
				}
				h.reqs = append(h.reqs, r)
				r.beatClean, r.beatTouched = true, false
				r.sub = h.tp.Broadcast(bumpReq)
				reqs = append(reqs, r)
			}
			for _, o := range offers {
				if !used[o.m.op] {
					filtered++
				}
			}

			return reqs
		}

		fail := func(err error) {
			if err != nil {
				t.Fatalf("%v", err)
			}
		}
		wasLive := make(map[*c18Req]bool)
		after := func() {
			if len(h.wallet.violations) > 0 {
				t.Fatalf("%s", h.wallet.violations[0])
			}
			fail(h.drain(false))
			for _, r := range h.reqs {
				if _, ok := wasLive[r]; !ok {
					wasLive[r] = true
				}
				fail(r.monotone())
				fail(h.rampObligation(r, wasLive[r]))
				wasLive[r] = r.live
			}
		}
		walk := func(steps int) {
			for s := 0; s < steps; s++ {
				next := h.height + 1
				switch c := rapid.IntRange(0, 9).Draw(t, "adv"); {
				case c < 6:
				case c < 9:
					next = h.height + rapid.Int32Range(2, 6).Draw(
						t, "skip")
				default:
					next = h.height + rapid.Int32Range(6, 1100).Draw(
						t, "leap")
				}
				h.beat(next)
				after()
			}
		}

		round1 := runRound(1, offers)
		after()
		walk(1 + rapid.IntRange(0, 7).Draw(t, "steps1"))

		// Round 2: what markInputsPublishFailed does with a TxFailed
		// result, then some inputs disappear and the rest is
		// re-clustered.
		var again []*c18Offer
		byModel := make(map[*c18Input]*c18Offer)
		for _, o := range offers {
			byModel[o.m] = o
		}
		for _, r := range round1 {
			if r.live || len(r.events) == 0 ||
				r.events[len(r.events)-1] != TxFailed {

				continue
			}
			rate := r.lastFailedRate
			for _, m := range r.ins {
				o, ok := byModel[m]
				if !ok {
					continue
				}
				if rapid.IntRange(0, 3).Draw(t, "dropInput") == 0 {
					continue
				}
				cp := *o
				cp.start = rate
				again = append(again, &cp)
			}
		}
		if len(again) > 0 {
			failedAgain = len(again)
			// Fresh outpoints are not needed: the old records are
			// gone from the publisher.
			runRound(2, again)
			after()
			walk(1 + rapid.IntRange(0, 5).Draw(t, "steps2"))
		}

		for _, r := range h.reqs {
			rejections += r.rejections
			pubs += len(r.pubs)
			labels = append(labels, r.auxClass())
			if r.aux && r.rampChecked {
				labels = append(labels, r.auxClass()+":ramp_checked")
			}
			if r.aux && len(r.pubs) > 0 {
				labels = append(labels, r.auxClass()+":published")
			}
			for _, e := range r.events {
				labels = append(labels, "event:"+e.String())
			}
			if r.lastErr != nil {
				labels = append(labels, "err:"+c18ErrClass(r.lastErr))
			}
		}
		if topUps > 0 {
			labels = append(labels, "wallet_top_up")
		}
		if aboveCeil > 0 {
			labels = append(labels, "set_start_above_budget_ceiling")
		}
		if carriedAboveCeil > 0 {
			labels = append(labels, "carried_start_above_regrouped_ceiling")
		}
		if aboveMax > 0 {
			labels = append(labels, "set_start_above_max")
		}
		if filtered > 0 {
			labels = append(labels, "input_filtered")
		}
		if multiInput > 0 {
			labels = append(labels, "multi_input_set")
		}
		if failedAgain > 0 {
			labels = append(labels, "round2_reoffer")
		}
		if pubs > 0 {
			labels = append(labels, "published>=1")
		}
		if rejections > 0 {
			labels = append(labels, "rbf_rejection>=1")
		}
		if setsTotal == 0 {
			labels = append(labels, "no_set")
		}

		nontrivial := pubs > 0 && (rejections > 0 || topUps > 0 ||
			multiInput > 0)
		fpParts := []any{relay, estKind, height, maxRate, maxInputs,
			aux != nil, extraVal}
		for _, o := range offers {
			fpParts = append(fpParts, o.m.kind.name, o.m.value,
				o.budget, o.deadline, o.start, o.m.blob, o.extraBudget)
		}
		var sample any
		if nontrivial && st.WantSample() {
			sample = map[string]any{
				"offers": len(offers), "sets": setsTotal,
				"top_ups": topUps, "publications": pubs,
				"rejections": rejections, "maxRate": maxRate,
			}
		}
		st.Case(vstats.FP(fpParts...), nontrivial, labels, sample)
	})
}
