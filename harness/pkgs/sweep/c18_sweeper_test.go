//go:build verif

package sweep

// C18 part 4: a rapid state machine around the REAL UtxoSweeper, wired to the
// REAL TxPublisher and the REAL BudgetAggregator, with stub wallet / estimator
// / notifier / store.
//
// Driving. The sweeper's collector goroutine is not started; the test
// goroutine calls the handlers the collector's select loop calls, in the order
// the loop calls them:
//
//	new input   handleNewInput; if Immediate: updateSweeperInputs+sweepPendingInputs
//	update      handleUpdateReq; if Immediate: the same
//	spend       handleInputSpent (the detail is read from s.spendChan, where the
//	            sweeper's own monitorSpend goroutine put it)
//	bump result handleBumpEvent (the bumpResp is read from s.bumpRespChan, where
//	            the sweeper's own monitorFeeBumpResult goroutine put it)
//	block beat  currentHeight=h; updateSweeperInputs; sweepPendingInputs
//
// followed by updateSweeperInputs (top of the loop). A block is delivered
// first to the sweeper and then to the publisher (the order of
// server.registerBlockConsumers); the publisher half is
// currentHeight.Store(h); processRecords(); wg.Wait() as in part 2. All
// synchronisation is on channels whose message count the harness knows; no
// sleeps, no polling, no wall clock.
//
// The Bumper handed to the sweeper is a thin recorder around the real
// TxPublisher: it snapshots every BumpRequest (the seam between the sweeper
// and the publisher), and relays the publisher's results to the sweeper's
// monitor goroutine one at a time in a canonical order.
//
// Oracle. A reference model of what the harness asked for (per input:
// parameters as last given, the documented effect of a bump result on them)
// and validity predicates over everything the wallet is handed (see
// notes/C18.md, "Part 4").

import (
	"errors"
	"fmt"
	"hash/fnv"
	"sort"
	"sync"
	"testing"

	"github.com/btcsuite/btcd/btcutil/v2"
	"github.com/btcsuite/btcd/chainhash/v2"
	"github.com/btcsuite/btcd/wire/v2"
	"github.com/lightningnetwork/lnd/chainntnfs"
	"github.com/lightningnetwork/lnd/fn/v2"
	"github.com/lightningnetwork/lnd/internal/verif/vstats"
	"github.com/lightningnetwork/lnd/lnwallet"
	"github.com/lightningnetwork/lnd/lnwallet/chainfee"
	"pgregory.net/rapid"
)

// ---------------------------------------------------------------------------
// Notifier with long-lived (sweeper) and one-shot (publisher) registrations.

type c18xSub struct {
	op wire.OutPoint
	ch chan *chainntnfs.SpendDetail
}

type c18xNotifier struct {
	*c18Notifier

	// sweeper is set while the harness calls handleNewInput: registrations
	// made then are the sweeper's monitorSpend ones.
	sweeper bool
	live    map[wire.OutPoint][]*c18xSub
	// owed counts details handed to sweeper registrations that the harness
	// has not yet read from s.spendChan.
	owed int
}

func newC18xNotifier() *c18xNotifier {
	return &c18xNotifier{
		c18Notifier: newC18Notifier(),
		live:        make(map[wire.OutPoint][]*c18xSub),
	}
}

func c18xDetail(op wire.OutPoint, tx *wire.MsgTx) *chainntnfs.SpendDetail {
	h := tx.TxHash()

	return &chainntnfs.SpendDetail{
		SpentOutPoint: &op, SpenderTxHash: &h, SpendingTx: tx,
	}
}

func (n *c18xNotifier) RegisterSpendNtfn(op *wire.OutPoint, _ []byte,
	_ uint32) (*chainntnfs.SpendEvent, error) {

	n.mu.Lock()
	defer n.mu.Unlock()

	ch := make(chan *chainntnfs.SpendDetail, 1)
	tx, spent := n.spends[*op]
	if !n.sweeper {
		if spent {
			ch <- c18xDetail(*op, tx)
		}

		return &chainntnfs.SpendEvent{Spend: ch, Cancel: func() {}}, nil
	}

	sub := &c18xSub{op: *op, ch: ch}
	if spent {
		// Historical dispatch.
		ch <- c18xDetail(*op, tx)
		n.owed++
	} else {
		n.live[*op] = append(n.live[*op], sub)
	}
	cancel := func() {
		n.mu.Lock()
		defer n.mu.Unlock()

		subs := n.live[sub.op]
		for i, s := range subs {
			if s == sub {
				n.live[sub.op] = append(subs[:i:i], subs[i+1:]...)
				break
			}
		}
	}

	return &chainntnfs.SpendEvent{Spend: ch, Cancel: cancel}, nil
}

// confirm records tx as the confirmed spender of its inputs (seen by later
// registrations).
func (n *c18xNotifier) confirm(tx *wire.MsgTx) {
	n.mu.Lock()
	defer n.mu.Unlock()

	for _, in := range tx.TxIn {
		if _, ok := n.spends[in.PreviousOutPoint]; !ok {
			n.spends[in.PreviousOutPoint] = tx
		}
	}
}

// dispatch hands the spend to the sweeper's open registrations.
func (n *c18xNotifier) dispatch(tx *wire.MsgTx) {
	n.mu.Lock()
	defer n.mu.Unlock()

	for _, in := range tx.TxIn {
		op := in.PreviousOutPoint
		if n.spends[op] != tx {
			continue
		}
		for _, sub := range n.live[op] {
			sub.ch <- c18xDetail(op, tx)
			n.owed++
		}
		delete(n.live, op)
	}
}

// ---------------------------------------------------------------------------
// In-memory sweeper store.

type c18xStore struct {
	mu    sync.Mutex
	txs   map[chainhash.Hash]TxRecord
	trace func(string, ...any)
}

func (s *c18xStore) IsOurTx(h chainhash.Hash) bool {
	s.mu.Lock()
	defer s.mu.Unlock()
	_, ok := s.txs[h]

	return ok
}

func (s *c18xStore) StoreTx(tr *TxRecord) error {
	s.mu.Lock()
	defer s.mu.Unlock()
	s.txs[tr.Txid] = *tr
	s.trace("store: put %v", tr.Txid)

	return nil
}

func (s *c18xStore) ListSweeps() ([]chainhash.Hash, error) {
	s.mu.Lock()
	defer s.mu.Unlock()
	out := make([]chainhash.Hash, 0, len(s.txs))
	for h := range s.txs {
		out = append(out, h)
	}
	sort.Slice(out, func(i, j int) bool {
		return out[i].String() < out[j].String()
	})

	return out, nil
}

func (s *c18xStore) GetTx(h chainhash.Hash) (*TxRecord, error) {
	s.mu.Lock()
	defer s.mu.Unlock()
	tr, ok := s.txs[h]
	if !ok {
		return nil, ErrTxNotFound
	}

	return &tr, nil
}

func (s *c18xStore) DeleteTx(h chainhash.Hash) error {
	s.mu.Lock()
	defer s.mu.Unlock()
	delete(s.txs, h)
	s.trace("store: delete %v", h)

	return nil
}

// ---------------------------------------------------------------------------
// Model.

const (
	c18xInit = iota
	c18xInFlight
	c18xFailed
	c18xGone
)

// c18xListener is one result channel handed out by the sweeper.
type c18xListener struct {
	x    *c18xIn
	ch   chan Result
	got  int
	want int
	// Expected content once want==1.
	wantTx  *chainhash.Hash
	wantOK  bool
	anyErr  bool // either nil or an error is acceptable
	gotErr  error
	gotTx   *wire.MsgTx
	comment string
}

// c18xIn is the model of one input the harness offered.
type c18xIn struct {
	idx  int
	m    *c18Input
	ownW int64

	// Parameters as the sweeper holds them per its documentation.
	budget    int64
	deadline  int32
	immediate bool
	start     int64 // 0 = none

	state   int
	known   bool // registered with the sweeper and not terminated
	epoch   int  // bumped whenever the caller replaces the parameters
	tainted bool // UpdateParams while a set containing it was in flight
	regAt   int  // number of requests made before the current registration

	active []*c18xListener

	spentBy *wire.MsgTx

	lastRec   *c18xRec
	prevRec   *c18xRec // the request before lastRec
	lastEpoch int

	// Last accepted publication containing it (observation of rate
	// decreases across re-grouping).
	accRec    *c18xRec
	accRate   int64
	accEpoch  int
	nRecs     int
	offeredAt int32
	firstBeat bool // the first beat after the (first) offer has passed
	outcome   string
}

func (x *c18xIn) mature(h int32) (bool, uint32) {
	m := x.m
	if m.hasLock && uint32(h) < m.lockTime {
		return false, m.lockTime
	}
	hint := uint32(90)
	if m.kind.wallet {
		hint = 0
	}
	lt := m.sequence() + hint
	if uint32(h)+1 < lt {
		return false, lt
	}

	return true, lt
}

// c18xRec is one BumpRequest the sweeper handed to the publisher.
type c18xRec struct {
	c18Req

	id     int
	req    *BumpRequest
	out    chan *BumpResult
	xs     []*c18xIn
	epochs []int
	ops    map[wire.OutPoint]struct{}
	minOp  string

	// pubDone: the publisher emitted a terminal event (it no longer makes
	// transactions for this request).
	pubDone       bool
	monitorExited bool
	ambiguous     bool
	wasLive       bool
	sHeightAt     int32
	pHeightAt     int32

	// floorRate is the carried lower bound on the rate of the first
	// transaction of this request (0 = none).
	floorRate int64
	floorFrom string

	accepted []int // indexes into h.accepted
	nSuccess int
}

type c18xAccepted struct {
	tx   *wire.MsgTx
	hash chainhash.Hash
	rec  *c18xRec
	fee  int64
}

type c18xPend struct {
	rec *c18xRec
	res *BumpResult
}

type c18xHarness struct {
	mu sync.Mutex

	s     *UtxoSweeper
	tp    *TxPublisher
	est   *c18Estimator
	ntf   *c18xNotifier
	store *c18xStore
	shell c18Harness // only .height is used (rampObligation)

	relay     int64
	maxRate   int64
	noDl      int32
	maxInputs int
	sHeight   int32

	ins       []*c18xIn
	byOp      map[wire.OutPoint]*c18xIn
	listeners []*c18xListener
	utxos     []*lnwallet.Utxo
	wmodel    map[wire.OutPoint]*c18Input

	recs    []*c18xRec
	pending []c18xPend

	scriptKinds []c18Script
	scripts     map[string]c18Script
	nScripts    int

	planCheck []int
	planPub   []int
	// seqPub, if set, is consumed first by PublishTransaction (deterministic
	// reproductions with a single request only).
	seqPub []int

	accepted []*c18xAccepted
	byHash   map[chainhash.Hash]*c18xAccepted
	// ours is the model of the sweeper store: transactions whose
	// publication the sweeper was told about and that were not replaced.
	ours map[chainhash.Hash]bool

	lateSpends []*wire.MsgTx

	violations []string
	trace      []string

	f2Known, roundKnown bool
	// seam: assert on the BumpRequest itself (VERIF_C18_SEAM=0 leaves only
	// the clauses over the transactions, for sensitivity experiments).
	seam bool
	st   *vstats.Collector

	// Evidence.
	nBroadcast, nRegrouped, nUnknownSpend, nConfirmed, nThirdParty int
	nUpdate, nReoffer, nInvalid, nAmbiguous, nCarryChecked         int
	nRejections, nImmatureFatal, nStuck, nLate                     int
	nReplaced, nMulti, nTopUp, nSkipped, nImmediateSets            int
	labels                                                         map[string]bool
}

func (h *c18xHarness) violate(format string, args ...any) {
	h.violations = append(h.violations, fmt.Sprintf(format, args...))
}

func (h *c18xHarness) label(l string) { h.labels[l] = true }

// tracef keeps a short log of the case for failure reports.
func (h *c18xHarness) tracef(format string, args ...any) {
	if len(h.trace) < 400 {
		h.trace = append(h.trace, fmt.Sprintf(format, args...))
	}
}

// nextScript makes a fresh, unique sweep script (what GenSweepScript does
// with a new wallet address).
func (h *c18xHarness) nextScript() c18Script {
	k := h.scriptKinds[h.nScripts%len(h.scriptKinds)]
	h.nScripts++
	pk := append([]byte{}, k.pk...)
	off := 2
	if k.name == "p2pkh" {
		off = 3
	}
	pk[off] = byte(h.nScripts >> 8)
	pk[off+1] = byte(h.nScripts)
	pk[off+2] = 0xc8
	sc := c18Script{name: k.name, pk: pk}
	h.scripts[string(pk)] = sc

	return sc
}

// ---------------------------------------------------------------------------
// Bumper recorder: the seam between sweeper and publisher.

type c18xBumper struct{ h *c18xHarness }

func (b c18xBumper) Broadcast(req *BumpRequest) <-chan *BumpResult {
	return b.h.onBroadcast(req)
}

// filterOK is the documented admission rule of BudgetAggregator.filterInputs.
func (h *c18xHarness) filterOK(x *c18xIn) (bool, string) {
	if x.budget < c18FeeAt(h.relay, x.ownW) {
		return false, "budget_below_relay_fee"
	}
	if x.budget < c18FeeAt(x.start, x.ownW) {
		return false, "budget_below_starting_fee"
	}
	if x.m.kind.reqOut && x.m.reqValue < c18DustLimit(x.m.reqPk) {
		return false, "dust_required_output"
	}

	return true, ""
}

func (h *c18xHarness) onBroadcast(req *BumpRequest) <-chan *BumpResult {
	h.mu.Lock()

	rec := &c18xRec{
		id: len(h.recs), req: req, out: make(chan *BumpResult, 8),
		ops: make(map[wire.OutPoint]struct{}), wasLive: true,
		sHeightAt: h.sHeight, pHeightAt: h.tp.currentHeight.Load(),
	}
	rec.name = fmt.Sprintf("rec%d", rec.id)
	rec.live = true
	rec.beatClean = true
	rec.maxRate = h.maxRate
	rec.deadline = req.DeadlineHeight
	rec.immediate = req.Immediate
	rec.values = make(map[wire.OutPoint]int64)
	req.StartingFeeRate.WhenSome(func(s chainfee.SatPerKWeight) {
		rec.hasStart, rec.start = true, int64(s)
	})
	sc, ok := h.scripts[string(req.DeliveryAddress.DeliveryAddress)]
	if !ok {
		h.violate("%s: delivery script %x was never generated", rec.name,
			req.DeliveryAddress.DeliveryAddress)
		sc = c18Script{name: "unknown",
			pk: req.DeliveryAddress.DeliveryAddress}
	}
	rec.change = sc

	var (
		wantStart int64
		wantImm   bool
		topUp     bool
	)
	for _, inp := range req.Inputs {
		op := inp.OutPoint()
		if _, dup := rec.ops[op]; dup {
			h.violate("%s: input %v twice in one request", rec.name, op)
			continue
		}
		rec.ops[op] = struct{}{}
		if rec.minOp == "" || op.String() < rec.minOp {
			rec.minOp = op.String()
		}

		x, tracked := h.byOp[op]
		if !tracked {
			wm, isWallet := h.wmodel[op]
			if !isWallet {
				h.violate("%s: input %v was never offered and is no "+
					"wallet utxo", rec.name, op)
				continue
			}
			cp := *wm
			cp.inp = inp
			rec.ins = append(rec.ins, &cp)
			topUp = true

			continue
		}

		// Admission (the sweeper's documented rules).
		switch {
		case !x.known:
			h.violate("%s: input #%d is swept although it was "+
				"reported finished", rec.name, x.idx)
		case x.state != c18xInit && x.state != c18xFailed:
			h.violate("%s: input #%d is grouped again while a set "+
				"containing it is in flight (state %d)", rec.name,
				x.idx, x.state)
		}
		if ok, _ := x.mature(h.sHeight); !ok {
			h.violate("%s: immature input #%d (%s) swept at height %d",
				rec.name, x.idx, x.m.kind.name, h.sHeight)
		}
		if ok, why := h.filterOK(x); !ok && h.seam {
			h.violate("%s: input #%d passed the aggregator although %s "+
				"(budget %d, start %d, own weight %d)", rec.name,
				x.idx, why, x.budget, x.start, x.ownW)
		}
		if x.deadline != req.DeadlineHeight && h.seam {
			h.violate("%s: input #%d has deadline %d, its set %d",
				rec.name, x.idx, x.deadline, req.DeadlineHeight)
		}

		// No input in two live, non-conflicting requests (no double
		// spend of its budget), unless the caller asked for a
		// replacement with UpdateParams.
		if !x.tainted {
			for _, o := range h.recs[x.regAt:] {
				if _, in := o.ops[op]; in && o.live {
					h.violate("%s: input #%d is already in live "+
						"request %s", rec.name, x.idx, o.name)
				}
			}
		}

		// Carried rate: the last accepted transaction of the previous
		// request of this input bounds the first one of this request.
		if p := x.lastRec; p != nil && !p.live && !p.ambiguous &&
			!x.tainted && x.lastEpoch == x.epoch &&
			len(p.events) > 0 {

			last := p.events[len(p.events)-1]
			if (last == TxFailed || last == TxUnknownSpend) &&
				len(p.accepted) > 0 {

				a := h.accepted[p.accepted[len(p.accepted)-1]]
				fee := a.fee
				if len(a.tx.TxOut) == c18CountReq(&p.c18Req) {
					fee -= c18DustLimit(p.change.pk) - 1
				}
				if fee > 0 {
					l := c18BudgetRateCeil(fee, p.weight)
					if l > rec.floorRate {
						rec.floorRate = l
						rec.floorFrom = fmt.Sprintf("%s tx %v "+
							"fee %d weight %d", p.name,
							a.hash, a.fee, p.weight)
					}
				}
			}
		}

		if len(rec.xs) == 0 {
			// The history clauses use the deadline the caller gave
			// (or the documented default), not the request's.
			rec.deadline = x.deadline
		}
		rec.xs = append(rec.xs, x)
		rec.epochs = append(rec.epochs, x.epoch)
		rec.ins = append(rec.ins, x.m)
		rec.budget += x.budget
		if x.start > wantStart {
			wantStart = x.start
		}
		wantImm = wantImm || x.immediate
	}
	for _, m := range rec.ins {
		rec.sumIn += m.value
		rec.values[m.op] = m.value
		if m.kind.reqOut {
			rec.sumReq += m.reqValue
		}
	}
	var err error
	rec.weight, err = c18Weight(rec.ins, rec.change.pk)
	if err != nil || rec.weight == 0 {
		h.violate("%s: weight: %v", rec.name, err)
		rec.weight = 1
	}

	// Seam: the request is what the inputs' parameters say.
	if int64(req.Budget) != rec.budget && h.seam {
		h.violate("%s: Budget %d, the inputs' budgets sum to %d",
			rec.name, req.Budget, rec.budget)
	}
	if int64(req.MaxFeeRate) != h.maxRate && h.seam {
		h.violate("%s: MaxFeeRate %d, configured %d", rec.name,
			req.MaxFeeRate, h.maxRate)
	}
	if (rec.start != wantStart || rec.hasStart != (wantStart > 0)) &&
		h.seam {
		h.violate("%s: StartingFeeRate %v, the inputs carry max %d",
			rec.name, req.StartingFeeRate, wantStart)
	}
	if req.Immediate != wantImm && h.seam {
		h.violate("%s: Immediate=%v, the inputs say %v", rec.name,
			req.Immediate, wantImm)
	}
	if len(rec.xs) > h.maxInputs {
		h.violate("%s: %d inputs, MaxInputsPerTx %d", rec.name,
			len(rec.xs), h.maxInputs)
	}
	if c18RoundedUpOverBudget(rec.budget, rec.weight, h.maxRate) &&
		h.roundKnown {

		h.st.Known(c18KeyBudgetRateRoundedUp)
		h.st.Count("excluded_known", 1)
		rec.rampChecked = true
	}

	for _, x := range rec.xs {
		if x.nRecs > 0 {
			h.nRegrouped++
		}
		x.state = c18xInFlight
		x.prevRec = x.lastRec
		x.lastRec = rec
		x.lastEpoch = x.epoch
		x.nRecs++
	}
	h.nBroadcast++
	if len(rec.xs) > 1 {
		h.nMulti++
	}
	if topUp {
		h.nTopUp++
	}
	if req.Immediate {
		h.nImmediateSets++
	}
	h.recs = append(h.recs, rec)
	h.tracef("broadcast %s: %d inputs (%d tracked) budget %d deadline %d "+
		"start %d immediate %v at %d/%d", rec.name, len(rec.ins),
		len(rec.xs), rec.budget, rec.deadline, rec.start, rec.immediate,
		rec.sHeightAt, rec.pHeightAt)
	h.mu.Unlock()

	// The real publisher. An immediate request is attempted inside this
	// call.
	rec.sub = h.tp.Broadcast(req)
	if req.Immediate && len(rec.sub) != 1 {
		h.mu.Lock()
		h.violate("%s: immediate request was not attempted at once",
			rec.name)
		h.mu.Unlock()
	}

	return rec.out
}

// ---------------------------------------------------------------------------
// Stub wallet: attributes every transaction to the request(s) it can belong
// to, applies the per-transaction oracle, answers from the generated plan.

type c18xWallet struct{ h *c18xHarness }

func (w c18xWallet) BackEnd() string { return "bitcoind" }

func (h *c18xHarness) answer(plan []int, tx *wire.MsgTx, salt byte) int {
	if len(plan) == 0 {
		return c18RespOK
	}
	hash := tx.TxHash()
	f := fnv.New32a()
	_, _ = f.Write(hash[:])
	_, _ = f.Write([]byte{salt})

	return plan[int(f.Sum32()%uint32(len(plan)))]
}

// spentElsewhere: an input of tx is already spent on chain by another tx.
func (h *c18xHarness) spentElsewhere(tx *wire.MsgTx) bool {
	h.ntf.mu.Lock()
	defer h.ntf.mu.Unlock()

	for _, in := range tx.TxIn {
		if s, ok := h.ntf.spends[in.PreviousOutPoint]; ok &&
			s.TxHash() != tx.TxHash() {

			return true
		}
	}

	return false
}

// attribute finds the live request(s) tx can belong to and applies the
// per-transaction oracle. It returns the request the bookkeeping goes to.
func (h *c18xHarness) attribute(tx *wire.MsgTx, stage string) *c18xRec {
	var cands []*c18xRec
	for _, r := range h.recs {
		if r.pubDone || len(r.ops) != len(tx.TxIn) {
			continue
		}
		match := true
		for _, in := range tx.TxIn {
			if _, ok := r.ops[in.PreviousOutPoint]; !ok {
				match = false
				break
			}
		}
		if match {
			cands = append(cands, r)
		}
	}
	if len(cands) == 0 {
		h.violate("%s tx %v spends an input set that no live request "+
			"asked for (%d inputs)", stage, tx.TxHash(), len(tx.TxIn))

		return nil
	}
	if len(cands) > 1 {
		// Same inputs in two live requests (UpdateParams): the change
		// script tells them apart when there is a change output.
		nReq := c18CountReq(&cands[0].c18Req)
		if len(tx.TxOut) == nReq+1 {
			pk := string(tx.TxOut[nReq].PkScript)
			var f []*c18xRec
			for _, r := range cands {
				if string(r.change.pk) == pk {
					f = append(f, r)
				}
			}
			if len(f) > 0 {
				cands = f
			}
		}
	}
	height := h.tp.currentHeight.Load()
	var (
		firstErr error
		passing  []*c18xRec
	)
	for _, r := range cands {
		err := c18CheckTx(&r.c18Req, tx, height, stage, false)
		if err == nil {
			passing = append(passing, r)
		} else if firstErr == nil {
			firstErr = err
		}
	}
	if len(passing) == 0 {
		h.violate("%v", firstErr)

		return cands[0]
	}
	if len(cands) > 1 {
		for _, r := range cands {
			if !r.ambiguous {
				r.ambiguous = true
				r.rampChecked = true
				h.nAmbiguous++
			}
		}
	}

	return passing[0]
}

func c18xFee(r *c18xRec, tx *wire.MsgTx) int64 {
	fee := r.sumIn
	for _, o := range tx.TxOut {
		fee -= o.Value
	}

	return fee
}

func (w c18xWallet) CheckMempoolAcceptance(tx *wire.MsgTx) error {
	h := w.h
	missing := h.spentElsewhere(tx)

	h.mu.Lock()
	defer h.mu.Unlock()

	r := h.attribute(tx, "candidate")
	if r == nil {
		return nil
	}
	first := r.candidates == 0
	r.candidates++
	r.beatTouched = true

	// Carried rate across re-grouping.
	if first && r.floorRate > 0 && !r.ambiguous {
		cLo := c18Min(r.maxRate, c18BudgetRateFloor(r.budget, r.weight))
		want := c18FeeAt(c18Min(r.floorRate, cLo), r.weight)
		h.nCarryChecked++
		if fee := c18xFee(r, tx); fee < want {
			h.violate("carried rate: first tx of %s pays %d < %d = "+
				"fee at min(carried %d, ceiling %d) sat/kw for weight "+
				"%d; carried from %s", r.name, fee, want, r.floorRate,
				cLo, r.weight, r.floorFrom)
		}
	}

	// Observation only: where does the offered rate of an input go down
	// from one of its transactions to the next?
	if first {
		fee := c18xFee(r, tx)
		cLo := c18Min(r.maxRate, c18BudgetRateFloor(r.budget, r.weight))
		for _, x := range r.xs {
			if x.accRec == nil || x.accRec == r ||
				c18BudgetRateFloor(fee+1, r.weight) >= x.accRate {

				continue
			}
			switch {
			case x.tainted:
				h.label("rate_decrease:after_update_params")
			case x.accEpoch != x.epoch:
				h.label("rate_decrease:parameters_replaced")
			case x.prevRec != x.accRec:
				h.label("rate_decrease:set_without_tx_in_between")
			case cLo < x.accRate:
				h.label("rate_decrease:capped_by_new_ceiling")
			default:
				h.label("rate_decrease:other")
			}
		}
	}

	code := h.answer(h.planCheck, tx, 1)
	if missing {
		code = c18RespMissingInputs
	}
	if code != c18RespOK {
		r.beatClean = false
	}
	switch code {
	case c18RespInsufficientFee, c18RespMempoolMinFee, c18RespMempoolFee,
		c18RespMinRelayFee:

		r.rejections++
		h.nRejections++
	}

	return c18RespErr(code)
}

func (w c18xWallet) PublishTransaction(tx *wire.MsgTx, _ string) error {
	h := w.h
	missing := h.spentElsewhere(tx)

	h.mu.Lock()
	defer h.mu.Unlock()

	r := h.attribute(tx, "published")
	if r == nil {
		return nil
	}
	r.beatTouched = true
	code := h.answer(h.planPub, tx, 2)
	if len(h.seqPub) > 0 {
		code, h.seqPub = h.seqPub[0], h.seqPub[1:]
	}
	if missing {
		code = c18RespMissingInputs
	}
	if code != c18RespOK {
		r.beatClean = false
	}
	fee := c18xFee(r, tx)
	r.pubs = append(r.pubs, c18Pub{
		tx: tx.Copy(), fee: fee, height: h.tp.currentHeight.Load(),
		accepted: code == c18RespOK,
	})
	if code == c18RespOK {
		a := &c18xAccepted{tx: tx.Copy(), hash: tx.TxHash(), rec: r,
			fee: fee}
		h.tracef("accepted %s tx %v fee %d", r.name, a.hash, fee)
		if _, dup := h.byHash[a.hash]; !dup {
			h.byHash[a.hash] = a
		}
		r.accepted = append(r.accepted, len(h.accepted))
		h.accepted = append(h.accepted, a)
		lo := fee
		if len(tx.TxOut) == c18CountReq(&r.c18Req) {
			lo -= c18DustLimit(r.change.pk) - 1
		}
		for i, x := range r.xs {
			x.accRec, x.accEpoch = r, r.epochs[i]
			x.accRate = c18BudgetRateCeil(c18Max(lo, 0), r.weight)
		}
	}

	return c18RespErr(code)
}

func (w c18xWallet) ListUnspentWitnessFromDefaultAccount(_, _ int32) (
	[]*lnwallet.Utxo, error) {

	w.h.mu.Lock()
	defer w.h.mu.Unlock()
	out := make([]*lnwallet.Utxo, len(w.h.utxos))
	copy(out, w.h.utxos)

	return out, nil
}
func (w c18xWallet) WithCoinSelectLock(f func() error) error { return f() }
func (w c18xWallet) RemoveDescendants(*wire.MsgTx) error     { return nil }
func (w c18xWallet) FetchTx(hash chainhash.Hash) (*wire.MsgTx, error) {
	w.h.mu.Lock()
	defer w.h.mu.Unlock()
	if a, ok := w.h.byHash[hash]; ok {
		return a.tx, nil
	}

	return nil, nil
}
func (w c18xWallet) CancelRebroadcast(chainhash.Hash) {}
func (w c18xWallet) GetTransactionDetails(*chainhash.Hash) (
	*lnwallet.TransactionDetail, error) {

	return nil, errors.New("c18: not used")
}

// ---------------------------------------------------------------------------
// Driving the sweeper.

func (h *c18xHarness) terminate(x *c18xIn, tx *wire.MsgTx, wantOK, anyErr bool,
	why string) {

	x.known = false
	x.state = c18xGone
	x.tainted = false
	if x.outcome == "" {
		x.outcome = why
	}
	for _, l := range x.active {
		l.want = 1
		l.wantOK, l.anyErr, l.comment = wantOK, anyErr, why
		if tx != nil {
			hash := tx.TxHash()
			l.wantTx = &hash
		}
	}
	x.active = nil
}

// poll reads every result channel and compares with the model.
func (h *c18xHarness) poll(when string) {
	for _, l := range h.listeners {
		for more := true; more; {
			select {
			case r := <-l.ch:
				l.got++
				l.gotErr, l.gotTx = r.Err, r.Tx
			default:
				more = false
			}
		}
		switch {
		case l.got > l.want:
			h.violate("%s: input #%d: %d result(s) delivered, model "+
				"expects %d (err=%v)", when, l.x.idx, l.got, l.want,
				l.gotErr)
			l.want = l.got
		case l.got < l.want:
			h.violate("%s: input #%d finished (%s) but its caller "+
				"got no result", when, l.x.idx, l.comment)
			l.got = l.want
		}
		if l.got == 1 && l.comment != "" {
			if l.anyErr && l.wantOK && l.gotErr != nil {
				// The store model says ours, the sweeper says remote.
				h.label("own_sweep_reported_as_remote_spend")
			}
			if !l.anyErr && (l.gotErr == nil) != l.wantOK {
				h.violate("%s: input #%d (%s): result err=%v, "+
					"expected success=%v", when, l.x.idx, l.comment,
					l.gotErr, l.wantOK)
			}
			if l.wantTx != nil && (l.gotTx == nil ||
				l.gotTx.TxHash() != *l.wantTx) {

				h.violate("%s: input #%d (%s): result names another "+
					"spending tx", when, l.x.idx, l.comment)
			}
			l.comment = ""
		}
	}
}

// sweepNow is what the collector does for an immediate request and for a
// beat.
func (h *c18xHarness) sweepNow(trigger string) {
	inputs := h.s.updateSweeperInputs()
	h.s.sweepPendingInputs(inputs)
	h.checkBatch(trigger)
}

// checkBatch: after the sweeper grouped its pending inputs, every input that
// is waiting, mature and admissible must have been handed to the publisher.
func (h *c18xHarness) checkBatch(trigger string) {
	h.mu.Lock()
	defer h.mu.Unlock()

	for _, x := range h.ins {
		if !x.known || (x.state != c18xInit && x.state != c18xFailed) {
			continue
		}
		if ok, _ := x.mature(h.sHeight); !ok {
			h.label("wait:immature")
			continue
		}
		if ok, why := h.filterOK(x); !ok {
			h.label("wait:" + why)
			h.nStuck++
			continue
		}
		if x.m.kind.reqOut && len(h.utxos) == 0 {
			// A set of second-level inputs only needs a wallet input.
			h.label("wait:no_wallet_utxo")
			continue
		}
		h.violate("%s at height %d: input #%d (%s, state %d, budget %d, "+
			"start %d, deadline %d) is waiting, mature and admissible "+
			"but was not handed to the publisher", trigger, h.sHeight,
			x.idx, x.m.kind.name, x.state, x.budget, x.start,
			x.deadline)
	}
}

// drainSpends reads the spend details the sweeper's monitorSpend goroutines
// forward and hands them to the sweeper.
func (h *c18xHarness) drainSpends() {
	for {
		h.ntf.mu.Lock()
		owed := h.ntf.owed
		if owed > 0 {
			h.ntf.owed--
		}
		h.ntf.mu.Unlock()
		if owed == 0 {
			return
		}
		sp := <-h.s.spendChan

		// Model: the first detail of a tx finishes every input of it
		// the sweeper still tracks.
		h.mu.Lock()
		tx := sp.SpendingTx
		ours := h.ours[tx.TxHash()]
		_, mine := h.byHash[tx.TxHash()]
		for _, in := range tx.TxIn {
			if x, ok := h.byOp[in.PreviousOutPoint]; ok && x.known {
				why := "spent by third party"
				if mine {
					why = "swept"
				}
				// Whether a tx of ours is reported as a success or
				// as ErrRemoteSpend depends on the sweeper store,
				// which loses track of replacements (see notes,
				// observation O2): either answer, labelled.
				h.terminate(x, tx, ours, mine, why)
			}
		}
		h.mu.Unlock()

		h.s.handleInputSpent(sp)
		h.s.updateSweeperInputs()
		h.poll("spend")
	}
}

// collect moves the results the publisher has produced into the pending list,
// in a canonical order.
func (h *c18xHarness) collect() {
	h.mu.Lock()
	defer h.mu.Unlock()

	var open []*c18xRec
	for _, r := range h.recs {
		if !r.pubDone {
			open = append(open, r)
		}
	}
	sort.SliceStable(open, func(i, j int) bool {
		if open[i].minOp != open[j].minOp {
			return open[i].minOp < open[j].minOp
		}

		return open[i].id < open[j].id
	})
	for _, r := range open {
		select {
		case res := <-r.sub:
			h.pending = append(h.pending, c18xPend{r, res})
			switch res.Event {
			case TxFailed, TxFatal, TxConfirmed, TxUnknownSpend:
				r.pubDone = true
			}
		default:
		}
	}
}

// deliver hands one publisher result to the sweeper the way
// monitorFeeBumpResult + collector do.
func (h *c18xHarness) deliver(p c18xPend) {
	r, res := p.rec, p.res
	valid := res.Validate() == nil

	h.mu.Lock()
	r.events = append(r.events, res.Event)
	if res.Tx != nil {
		h.tracef("deliver %s %v tx %v rate %d err %v valid %v", r.name,
			res.Event, res.Tx.TxHash(), res.FeeRate, res.Err, valid)
	} else {
		h.tracef("deliver %s %v rate %d err %v valid %v", r.name,
			res.Event, res.FeeRate, res.Err, valid)
	}
	if int64(res.FeeRate) > r.maxRate {
		h.violate("%s: result %v carries fee rate %d above the maximum %d",
			r.name, res.Event, res.FeeRate, r.maxRate)
	}
	retry := false
	switch res.Event {
	case TxPublished, TxReplaced:
		if res.Event == TxReplaced {
			h.nReplaced++
		}
		// The k-th success event of a request names its k-th accepted
		// publication.
		if !r.ambiguous {
			if r.nSuccess >= len(r.accepted) {
				h.violate("%s: %v without a publication", r.name,
					res.Event)
			} else {
				a := h.accepted[r.accepted[r.nSuccess]]
				if res.Tx.TxHash() != a.hash {
					h.violate("%s: %v #%d reports tx %v, the "+
						"publication was %v", r.name, res.Event,
						r.nSuccess, res.Tx.TxHash(), a.hash)
				}
				if int64(res.Fee) != a.fee {
					h.violate("%s: %v reports fee %d, tx pays %d",
						r.name, res.Event, res.Fee, a.fee)
				}
			}
		}
		r.nSuccess++
		if valid {
			h.ours[res.Tx.TxHash()] = true
			if res.Event == TxReplaced && res.ReplacedTx != nil {
				delete(h.ours, res.ReplacedTx.TxHash())
			}
		}

	case TxFailed, TxUnknownSpend:
		r.live = false
		r.lastErr = res.Err
		r.lastFailedRate = int64(res.FeeRate)
		if res.Event == TxUnknownSpend {
			h.nUnknownSpend++
		}
		if !valid {
			break
		}
		// markInputsPublishFailed: inputs that are in flight go back
		// to the pool and carry the reported rate.
		for _, x := range r.xs {
			if x.known && x.state == c18xInFlight {
				x.state = c18xFailed
				x.start = int64(res.FeeRate)
				if x.lastRec != r {
					// The sweeper tracks inputs by outpoint: the
					// failure of an older request (one that
					// UpdateParams asked to replace, or one of an
					// earlier registration of the outpoint) puts
					// the input back into the pool although its
					// newest request is still live.
					x.tainted = true
				}
			}
		}
		if res.Event == TxUnknownSpend {
			for _, x := range r.xs {
				if !x.known {
					continue
				}
				if tx, spent := res.SpentInputs[x.m.op]; spent {
					ours := h.ours[tx.TxHash()]
					_, mine := h.byHash[tx.TxHash()]
					h.terminate(x, tx, ours, mine,
						"unknown spend")

					continue
				}
				x.immediate = true
				retry = true
			}
		}

	case TxFatal:
		r.live = false
		r.lastErr = res.Err
		if valid {
			if res.Tx != nil {
				delete(h.ours, res.Tx.TxHash())
			}
			cls := c18ErrClass(res.Err)
			for _, x := range r.xs {
				if !x.known {
					continue
				}
				if cls == "locktime_immature" {
					if ok, _ := x.mature(h.sHeight); ok {
						h.nImmatureFatal++
					}
				}
				h.terminate(x, nil, false, false, "fatal:"+cls)
			}
		}

	case TxConfirmed:
		r.live = false
		h.nConfirmed++
	}
	exited := r.monitorExited
	h.mu.Unlock()

	if exited {
		h.violate("%s: result %v after the sweeper stopped listening",
			r.name, res.Event)

		return
	}
	select {
	case r.out <- res:
	default:
		h.violate("%s: too many undelivered results", r.name)

		return
	}
	if !valid {
		h.nInvalid++

		return
	}
	resp := <-h.s.bumpRespChan
	if resp.result != res {
		h.violate("%s: the sweeper's monitor forwarded another result",
			r.name)
	}
	if err := h.s.handleBumpEvent(resp); err != nil {
		h.tracef("handleBumpEvent(%s %v): %v", r.name, res.Event, err)
		h.label("bump_event_error")
	}
	h.s.updateSweeperInputs()
	if res.Event == TxConfirmed || res.Event == TxFailed {
		r.monitorExited = true
	}
	if retry {
		h.checkBatch("retry after unknown spend")
	}
	h.poll("bump result " + res.Event.String())
}

// settle relays results until the publisher has nothing more to say.
func (h *c18xHarness) settle() {
	for i := 0; i < 64; i++ {
		h.collect()
		if len(h.pending) == 0 {
			return
		}
		batch := h.pending
		h.pending = nil
		for _, p := range batch {
			h.deliver(p)
		}
	}
	h.violate("results keep coming without a block")
}

func (h *c18xHarness) resetBeatFlags() {
	h.mu.Lock()
	for _, r := range h.recs {
		r.beatClean, r.beatTouched = true, false
	}
	h.mu.Unlock()
}

// beat delivers one block: sweeper first, then publisher.
func (h *c18xHarness) beat(next int32, early bool) {
	h.resetBeatFlags()
	h.sHeight = next
	h.s.currentHeight = next
	h.sweepNow("block beat")
	h.collect()
	if early {
		// The results of immediate requests reach the sweeper before
		// the publisher sees the block.
		h.settle()
	}

	h.tp.currentHeight.Store(next)
	h.shell.height = next
	h.tp.processRecords()
	h.tp.wg.Wait()
	h.settle()

	// Notifications that were held back.
	late := h.lateSpends
	h.lateSpends = nil
	for _, tx := range late {
		h.ntf.dispatch(tx)
	}
	h.drainSpends()
	h.settle()

	// Every request that is still live has a transaction out.
	h.mu.Lock()
	for _, r := range h.recs {
		// (A request made after the publisher saw this block, by the
		// re-grouping that follows an unknown spend, waits for the
		// next block unless it is immediate.)
		if r.live && len(r.pubs) == 0 && !r.ambiguous &&
			(r.pHeightAt < next || r.immediate) {
			h.violate("%s is live after block %d but nothing was "+
				"published for it (events %v, candidates %d, created "+
				"at %d/%d, immediate %v, inputs %d)", r.name, next,
				r.events, r.candidates, r.sHeightAt, r.pHeightAt,
				r.immediate, len(r.ins))
		}
	}
	for _, x := range h.ins {
		if x.firstBeat || x.offeredAt >= next {
			continue
		}
		x.firstBeat = true
		switch {
		case x.outcome != "":
		case x.lastRec == nil:
			x.outcome = "not_grouped"
		case len(x.lastRec.pubs) > 0:
			x.outcome = "published_by_next_block"
		default:
			x.outcome = "set_failed:" + c18ErrClass(x.lastRec.lastErr)
		}
	}
	h.mu.Unlock()
}

// afterStep applies the history clauses.
func (h *c18xHarness) afterStep() {
	h.mu.Lock()
	defer h.mu.Unlock()

	for _, r := range h.recs {
		if r.ambiguous {
			continue
		}
		if err := r.monotone(); err != nil {
			h.violate("%v", err)
		}
		if err := h.shell.rampObligation(&r.c18Req, r.wasLive); err != nil {
			h.violate("%v", err)
		}
		r.wasLive = r.live
	}
}

// ---------------------------------------------------------------------------
// Generators.

type c18xParams struct {
	budget    int64
	hasDl     bool
	deadline  int32
	immediate bool
	start     int64
}

func (p c18xParams) params() Params {
	out := Params{
		Budget:    btcutil.Amount(p.budget),
		Immediate: p.immediate,
	}
	if p.hasDl {
		out.DeadlineHeight = fn.Some(p.deadline)
	}
	if p.start > 0 {
		out.StartingFeeRate = fn.Some(chainfee.SatPerKWeight(p.start))
	}

	return out
}

func (h *c18xHarness) drawParams(t *rapid.T, x *c18xIn,
	palette []int32) c18xParams {

	var p c18xParams
	m := x.m
	switch rapid.IntRange(0, 9).Draw(t, "budgetClass") {
	case 0, 1, 2, 3:
		// A share of the value, as contractcourt does; small outputs
		// get a budget that pays for them.
		if m.value >= 20_000 {
			p.budget = m.value / int64(rapid.IntRange(2, 20).Draw(
				t, "budgetShare"))
		} else {
			p.budget = c18FeeAt(rapid.Int64Range(2*h.relay,
				40*h.relay).Draw(t, "budgetRateSmall"), x.ownW)
		}
	case 4, 5:
		p.budget = c18FeeAt(rapid.Int64Range(h.relay, 40*h.relay).Draw(
			t, "budgetRate"), x.ownW)
	case 6:
		p.budget = c18FeeAt(h.relay, x.ownW) + rapid.Int64Range(
			-2, 40).Draw(t, "budgetEdge")
	case 7, 8:
		p.budget = c18FeeAt(rapid.Int64Range(h.maxRate/2,
			2*h.maxRate).Draw(t, "budgetRateHigh"), x.ownW)
	default:
		p.budget = rapid.Int64Range(0, 500).Draw(t, "budgetTiny")
	}
	if p.budget < 0 {
		p.budget = 0
	}
	// Distinct budgets: ClusterInputs sorts by budget with an unstable
	// sort over map-ordered input.
	for dup := true; dup; {
		dup = false
		for _, o := range h.ins {
			if o != x && o.budget == p.budget {
				p.budget++
				dup = true
			}
		}
	}

	switch c := rapid.IntRange(0, 19).Draw(t, "deadlineClass"); {
	case c < 5:
		// No deadline: the sweeper's default.
	case c < 14:
		p.hasDl = true
		p.deadline = palette[rapid.IntRange(0, len(palette)-1).Draw(
			t, "dl")]
	case c < 18:
		p.hasDl = true
		p.deadline = h.sHeight + rapid.Int32Range(1, 6).Draw(t, "dlNear")
	default:
		p.hasDl = true
		p.deadline = h.sHeight + rapid.Int32Range(-3, 0).Draw(t, "dlPast")
	}
	p.immediate = rapid.IntRange(0, 4).Draw(t, "immediate") == 0

	switch c := rapid.IntRange(0, 19).Draw(t, "startClass"); {
	case c < 14:
	case c < 17:
		hi := c18Min(h.maxRate, c18BudgetRateFloor(p.budget, x.ownW))
		if hi >= 1 {
			p.start = rapid.Int64Range(1, hi).Draw(t, "start")
		}
	case c < 19:
		p.start = rapid.Int64Range(1, h.maxRate).Draw(t, "startUser")
	default:
		p.start = h.maxRate + rapid.Int64Range(1, h.maxRate).Draw(
			t, "startAboveMax")
		if h.f2Known {
			h.st.Known(c18KeyStartAboveCeiling)
			h.st.Count("excluded_known", 1)
			p.start = rapid.Int64Range(1, h.maxRate).Draw(
				t, "startClamped")
		}
	}

	return p
}

func c18xDrawPlan(t *rapid.T, publish bool) []int {
	mode := rapid.IntRange(0, 5).Draw(t, "planMode")
	if mode < 2 {
		return nil // everything is accepted
	}
	n := rapid.IntRange(2, 12).Draw(t, "planLen")
	plan := make([]int, n)
	for i := range plan {
		c := rapid.IntRange(0, 39).Draw(t, "planCode")
		code := c18RespOK
		if publish {
			switch {
			case c < 30:
			case c < 34:
				code = c18RespInsufficientFee
			case c < 36:
				code = c18RespMempoolFee
			default:
				code = c18RespOther
			}
		} else {
			heavy := mode == 5
			switch {
			case c < 9 || (heavy && c < 20):
				code = c18RespInsufficientFee
			case c < 29:
			case c < 33:
				code = c18RespMempoolMinFee
			case c < 35:
				code = c18RespMempoolFee
			case c < 36:
				code = c18RespMinRelayFee
			case c < 37:
				code = c18RespBackendVersion
			case c < 38:
				code = c18RespUnimplemented
			case c < 39:
				code = c18RespMissingInputs
			default:
				code = c18RespOther
			}
		}
		plan[i] = code
	}

	return plan
}

// offer hands input x with parameters p to the sweeper (SweepInput).
func (h *c18xHarness) offer(x *c18xIn, p c18xParams) {
	l := &c18xListener{x: x, ch: make(chan Result, 4)}
	h.listeners = append(h.listeners, l)

	h.mu.Lock()
	if x.known {
		// handleExistingInput: parameters are overwritten, the state
		// is kept.
		h.nReoffer++
		x.epoch++
	} else {
		x.known = true
		x.state = c18xInit
		x.tainted = false
		x.epoch++
		x.lastRec, x.prevRec, x.accRec = nil, nil, nil
		x.regAt = len(h.recs)
		if x.offeredAt == 0 {
			x.offeredAt = h.sHeight
		}
		if !p.hasDl {
			// calculateDefaultDeadline.
			x.deadline = h.sHeight + h.noDl
			if ok, lt := x.mature(h.sHeight); !ok {
				x.deadline = int32(lt) + h.noDl
			}
		}
	}
	x.budget, x.immediate, x.start = p.budget, p.immediate, p.start
	if p.hasDl {
		x.deadline = p.deadline
	}
	x.active = append(x.active, l)
	h.mu.Unlock()

	h.resetBeatFlags()
	h.ntf.mu.Lock()
	h.ntf.sweeper = true
	h.ntf.mu.Unlock()
	err := h.s.handleNewInput(&sweepInputMessage{
		input: x.m.inp, params: p.params(), resultChan: l.ch,
	})
	h.ntf.mu.Lock()
	h.ntf.sweeper = false
	h.ntf.mu.Unlock()
	if err != nil {
		h.violate("handleNewInput: %v", err)
	}
	if p.immediate {
		h.sweepNow("immediate offer")
	}
	h.s.updateSweeperInputs()
	h.poll("offer")
	h.drainSpends()
	h.settle()
}

// update is UpdateParams.
func (h *c18xHarness) update(x *c18xIn, p c18xParams) {
	h.mu.Lock()
	wasKnown := x.known
	if wasKnown {
		h.nUpdate++
		if x.state == c18xInFlight {
			x.tainted = true
		}
		x.state = c18xInit
		x.epoch++
		x.budget, x.immediate, x.start = p.budget, p.immediate, p.start
		if p.hasDl {
			x.deadline = p.deadline
		}
	}
	h.mu.Unlock()

	h.resetBeatFlags()
	ch, err := h.s.handleUpdateReq(&updateReq{
		input: x.m.op, params: p.params(),
	})
	switch {
	case !wasKnown:
		if !errors.Is(err, lnwallet.ErrNotMine) {
			h.violate("UpdateParams of unknown input #%d: err=%v",
				x.idx, err)
		}

		return
	case err != nil:
		h.violate("UpdateParams of input #%d: %v", x.idx, err)

		return
	}
	// The sweeper made a result channel of capacity one; a second result on
	// it would block the (single) test goroutine for good instead of being
	// counted. Swap in a roomier channel - the sweeper only ever sends on
	// it.
	if pi, ok := h.s.inputs[x.m.op]; ok && len(pi.listeners) > 0 &&
		pi.listeners[len(pi.listeners)-1] == ch {

		ch = make(chan Result, 4)
		pi.listeners[len(pi.listeners)-1] = ch
	}
	l := &c18xListener{x: x, ch: ch}
	h.listeners = append(h.listeners, l)
	x.active = append(x.active, l)

	if p.immediate {
		h.sweepNow("immediate update")
	}
	h.s.updateSweeperInputs()
	h.poll("update")
	h.settle()
}

// onChain confirms tx: its inputs are spent for every later observer.
func (h *c18xHarness) onChain(tx *wire.MsgTx, late bool) {
	h.ntf.confirm(tx)
	h.mu.Lock()
	h.tracef("on chain: %v (%d inputs) late=%v", tx.TxHash(), len(tx.TxIn),
		late)
	for _, in := range tx.TxIn {
		op := in.PreviousOutPoint
		if x, ok := h.byOp[op]; ok && x.spentBy == nil {
			x.spentBy = tx
		}
		for i, u := range h.utxos {
			if u.OutPoint == op {
				h.utxos = append(h.utxos[:i:i], h.utxos[i+1:]...)
				break
			}
		}
	}
	h.mu.Unlock()
	if late {
		h.nLate++
		h.lateSpends = append(h.lateSpends, tx)

		return
	}
	h.ntf.dispatch(tx)
	h.drainSpends()
}

func (h *c18xHarness) unspent(tx *wire.MsgTx) bool {
	h.ntf.mu.Lock()
	defer h.ntf.mu.Unlock()
	for _, in := range tx.TxIn {
		if _, ok := h.ntf.spends[in.PreviousOutPoint]; ok {
			return false
		}
	}

	return true
}

// newC18xHarness makes the model; wire() builds the real publisher and
// sweeper around it (after the wallet utxos and script kinds are set).
func newC18xHarness(st *vstats.Collector, est *c18Estimator, height int32,
	maxVb int64, maxInputs int, noDl int32) *c18xHarness {

	h := &c18xHarness{
		est: est, relay: int64(est.relay), maxRate: maxVb * 250,
		noDl: noDl, maxInputs: maxInputs, sHeight: height,
		byOp:    make(map[wire.OutPoint]*c18xIn),
		wmodel:  make(map[wire.OutPoint]*c18Input),
		scripts: make(map[string]c18Script),
		byHash:  make(map[chainhash.Hash]*c18xAccepted),
		ours:    make(map[chainhash.Hash]bool),
		labels:  make(map[string]bool),
		ntf:     newC18xNotifier(),
		store:   &c18xStore{txs: make(map[chainhash.Hash]TxRecord)},
		st:      st,
		seam:    vstats.EnvInt("VERIF_C18_SEAM", 1) != 0,
	}
	h.shell.height = height
	h.store.trace = h.tracef

	return h
}

func (h *c18xHarness) wire() {
	if len(h.scriptKinds) == 0 {
		h.scriptKinds = []c18Script{c18P2TR}
	}
	h.tp = NewTxPublisher(TxPublisherConfig{
		Signer: c18Signer{}, Wallet: c18xWallet{h}, Estimator: h.est,
		Notifier: h.ntf,
	})
	h.tp.currentHeight.Store(h.sHeight)
	h.s = New(&UtxoSweeperConfig{
		GenSweepScript: func() fn.Result[lnwallet.AddrWithKey] {
			h.mu.Lock()
			defer h.mu.Unlock()

			return fn.Ok(c18Delivery(h.nextScript()))
		},
		FeeEstimator:   h.est,
		Wallet:         c18xWallet{h},
		Notifier:       h.ntf,
		Store:          h.store,
		Signer:         c18Signer{},
		MaxInputsPerTx: uint32(h.maxInputs),
		MaxFeeRate:     chainfee.SatPerVByte(h.maxRate / 250),
		Aggregator: NewBudgetAggregator(h.est, uint32(h.maxInputs),
			fn.None[AuxSweeper]()),
		Publisher:            c18xBumper{h},
		NoDeadlineConfTarget: uint32(h.noDl),
	})
	h.s.relayFeeRate = h.est.RelayFeePerKW()
	h.s.currentHeight = h.sHeight
}

// stop ends the sweeper's helper goroutines; no goroutine survives a case.
func (h *c18xHarness) stop() {
	close(h.s.quit)
	h.s.wg.Wait()
	h.tp.wg.Wait()
}

// newInput registers the model of a fresh input.
func (h *c18xHarness) newInput(m *c18Input) *c18xIn {
	x := &c18xIn{idx: len(h.ins), m: m}
	w, _, _ := m.kind.wt.SizeUpperBound()
	x.ownW = 41*4 + int64(w)
	h.mu.Lock()
	h.ins = append(h.ins, x)
	h.byOp[m.op] = x
	h.mu.Unlock()

	return x
}

// ---------------------------------------------------------------------------

func TestVerifC18Sweeper(t *testing.T) {
	st := vstats.New("TestVerifC18Sweeper")
	defer st.Flush()

	f2Known := c18F2Known()
	roundKnown := c18Known(c18KeyBudgetRateRoundedUp)

	rapid.Check(t, func(t *rapid.T) {
		relay := c18DrawRelay(t)
		est, estKind := c18DrawEstimator(t, relay, 60_000)
		var height int32
		if rapid.IntRange(0, 3).Draw(t, "heightLow") == 0 {
			// CSV delays (<= 2016 above height hint 90) still matter.
			height = int32(rapid.IntRange(100, 2300).Draw(t, "height"))
		} else {
			height = int32(rapid.IntRange(2300, 900_000).Draw(
				t, "height"))
		}
		var maxVb int64
		switch rapid.IntRange(0, 5).Draw(t, "maxClass") {
		case 0, 1:
			maxVb = 1000
		case 2, 3, 4:
			maxVb = rapid.Int64Range(100, 10_000).Draw(t, "maxVb")
		default:
			maxVb = rapid.Int64Range(2, 100).Draw(t, "maxVbLow")
		}
		maxInputs := rapid.SampledFrom([]int{100, 100, 2, 3, 5}).Draw(
			t, "maxInputs")
		noDl := rapid.SampledFrom([]int32{1008, 1008, 144, 6, 2, 1}).Draw(
			t, "noDeadlineConfTarget")

		h := newC18xHarness(st, est, height, maxVb, maxInputs, noDl)
		h.f2Known, h.roundKnown = f2Known, roundKnown
		for i := 0; i < 4; i++ {
			h.scriptKinds = append(h.scriptKinds, rapid.SampledFrom(
				c18Change).Draw(t, "changeKind"))
		}
		fp := []any{relay, estKind, height, maxVb, maxInputs, noDl}

		// Wallet utxos for top-ups.
		serial := 0
		nu := rapid.IntRange(0, 3).Draw(t, "nUtxos")
		for i := 0; i < nu; i++ {
			k := c18Kinds[rapid.IntRange(0, 2).Draw(t, "utxoKind")]
			v := c18DrawValue(t, "utxoValue")
			serial++
			var hsh chainhash.Hash
			hsh[0], hsh[1], hsh[31] = 0xc1, 0x09, byte(serial)
			op := wire.OutPoint{Hash: hsh, Index: uint32(i)}
			at := lnwallet.WitnessPubKey
			switch k.name {
			case "wallet_p2tr":
				at = lnwallet.TaprootPubkey
			case "wallet_np2wkh":
				at = lnwallet.NestedWitnessPubKey
			}
			for dup := true; dup; {
				dup = false
				for _, u := range h.utxos {
					if int64(u.Value) == v {
						v++
						dup = true
					}
				}
			}
			h.utxos = append(h.utxos, &lnwallet.Utxo{
				AddressType: at, Value: btcutil.Amount(v),
				PkScript: k.pk, OutPoint: op, Confirmations: 6,
			})
			h.wmodel[op] = &c18Input{kind: k, op: op, value: v}
			fp = append(fp, "utxo", k.name, v)
		}

		h.wire()
		defer h.stop()

		lockMode := 0
		switch c := rapid.IntRange(0, 9).Draw(t, "lockMode"); {
		case c < 5:
		case c < 7:
			lockMode = 1
		default:
			lockMode = 2
		}
		sharedLock := uint32(rapid.Int32Range(1, height).Draw(
			t, "sharedLock"))
		palette := []int32{
			height + rapid.Int32Range(2, 12).Draw(t, "dlA"),
			height + rapid.Int32Range(1, 40).Draw(t, "dlB"),
			height + 1008,
		}

		check := func(when string) {
			h.mu.Lock()
			defer h.mu.Unlock()
			if len(h.violations) > 0 {
				for _, l := range h.trace {
					t.Logf("trace: %s", l)
				}
				t.Fatalf("%s: %s", when, h.violations[0])
			}
		}

		steps := rapid.IntRange(6, 28).Draw(t, "steps")
		var (
			skipped int
			nBeats  int
		)
		for s := 0; s < steps; s++ {
			act := rapid.IntRange(0, 99).Draw(t, "action")
			switch {
			case s == 0:
				act = 0
			case s == steps-1 && nBeats == 0:
				act = 40
			}
			switch {
			// New input.
			case act < 26:
				m := c18DrawInput(t, h.sHeight, true, lockMode, sharedLock)
				if m.kind.reqOut && m.reqValue < c18DustLimit(m.reqPk) &&
					rapid.IntRange(0, 2).Draw(t, "keepDustReq") != 0 {

					m.value += 400
					m.reqValue = m.value
				}
				serial++
				c18BuildInput(m, serial)
				x := h.newInput(m)
				p := h.drawParams(t, x, palette)
				fp = append(fp, "offer", m.kind.name, m.value, m.lockTime,
					m.csvDelay, p)
				h.offer(x, p)

			// Block beat.
			case act < 62:
				next := h.sHeight + 1
				switch c := rapid.IntRange(0, 9).Draw(t, "adv"); {
				case c < 6:
				case c < 8:
					next = h.sHeight + rapid.Int32Range(2, 5).Draw(
						t, "skip")
				case c == 8:
					for _, x := range h.ins {
						if x.known && x.deadline-2 > h.sHeight {
							next = x.deadline - rapid.Int32Range(
								0, 2).Draw(t, "nearDeadline")

							break
						}
					}
				default:
					next = h.sHeight + rapid.Int32Range(5, 300).Draw(
						t, "leap")
				}
				if next <= h.sHeight {
					next = h.sHeight + 1
				}
				if next > h.sHeight+1 {
					skipped++
				}
				early := rapid.Bool().Draw(t, "earlyResults")
				fp = append(fp, "beat", next-h.sHeight, early)
				nBeats++
				h.beat(next, early)

			// One of our transactions confirms.
			case act < 72:
				older := rapid.IntRange(0, 4).Draw(t, "confirmOlder") == 0
				var cands []*c18xAccepted
				for _, a := range h.accepted {
					latest := a.rec.live && len(a.rec.accepted) > 0 &&
						h.accepted[a.rec.accepted[len(
							a.rec.accepted)-1]] == a
					if (older || latest) && h.unspent(a.tx) {
						cands = append(cands, a)
					}
				}
				if len(cands) == 0 {
					continue
				}
				sort.Slice(cands, func(i, j int) bool {
					return cands[i].hash.String() < cands[j].hash.String()
				})
				a := cands[rapid.IntRange(0, len(cands)-1).Draw(
					t, "confirmWhich")]
				late := rapid.IntRange(0, 3).Draw(t, "lateNtfn") == 0
				fp = append(fp, "confirm", older, late)
				h.resetBeatFlags()
				h.onChain(a.tx, late)

			// A third party spends one or two of the inputs.
			case act < 80:
				var cands, multi []*c18xIn
				for _, x := range h.ins {
					if x.spentBy != nil {
						continue
					}
					cands = append(cands, x)
					if x.known && x.lastRec != nil && x.lastRec.live &&
						len(x.lastRec.xs) > 1 {

						multi = append(multi, x)
					}
				}
				if len(cands) == 0 {
					continue
				}
				if len(multi) > 0 && rapid.IntRange(0, 3).Draw(
					t, "spendInMultiSet") != 0 {

					cands = multi
				}
				foreign := wire.NewMsgTx(2)
				n := 1 + rapid.IntRange(0, 3).Draw(t, "spendTwo")/3
				for i := 0; i < n && len(cands) > 0; i++ {
					k := rapid.IntRange(0, len(cands)-1).Draw(
						t, "spendIn")
					foreign.AddTxIn(&wire.TxIn{
						PreviousOutPoint: cands[k].m.op,
					})
					cands = append(cands[:k:k], cands[k+1:]...)
				}
				foreign.AddTxOut(&wire.TxOut{Value: int64(s) + 1,
					PkScript: c18P2WKH.pk})
				late := rapid.IntRange(0, 2).Draw(t, "lateNtfn") == 0
				fp = append(fp, "thirdparty", len(foreign.TxIn), late)
				h.nThirdParty++
				h.resetBeatFlags()
				h.onChain(foreign, late)

			// The same input is offered again with other parameters.
			case act < 86:
				x := h.ins[rapid.IntRange(0, len(h.ins)-1).Draw(
					t, "reofferWhich")]
				p := h.drawParams(t, x, palette)
				fp = append(fp, "reoffer", x.idx, p)
				h.offer(x, p)

			// UpdateParams.
			case act < 94:
				x := h.ins[rapid.IntRange(0, len(h.ins)-1).Draw(
					t, "updateWhich")]
				p := h.drawParams(t, x, palette)
				fp = append(fp, "update", x.idx, p)
				h.update(x, p)

			// New mempool answers.
			default:
				h.mu.Lock()
				h.planCheck = c18xDrawPlan(t, false)
				h.planPub = c18xDrawPlan(t, true)
				fp = append(fp, "plan", h.planCheck, h.planPub)
				h.mu.Unlock()
			}

			h.afterStep()
			h.poll("step")
			check(fmt.Sprintf("step %d", s))
		}

		// Floor clause and final bookkeeping.
		h.mu.Lock()
		for _, r := range h.recs {
			if r.ambiguous {
				continue
			}
			if err := h.shell.floorObligation(&r.c18Req, relay); err != nil {
				h.violate("%v", err)
			}
		}
		h.mu.Unlock()
		check("end")

		// Evidence.
		labels := []string{"est:" + estKind}
		for l := range h.labels {
			labels = append(labels, l)
		}
		var pubs, accepted, rampChecked int
		for _, r := range h.recs {
			pubs += len(r.pubs)
			accepted += len(r.accepted)
			for _, e := range r.events {
				labels = append(labels, "event:"+e.String())
			}
			if r.lastErr != nil {
				labels = append(labels, "err:"+c18ErrClass(r.lastErr))
			}
			if r.rampChecked && !r.ambiguous {
				rampChecked++
			}
			if r.floorRate > 0 {
				labels = append(labels, "set_with_carried_floor")
			}
		}
		for _, x := range h.ins {
			if x.outcome != "" {
				labels = append(labels, "input:"+x.outcome)
			}
			if x.nRecs > 1 {
				labels = append(labels, "input_in>=2_sets")
			}
		}
		add := func(c bool, l string) {
			if c {
				labels = append(labels, l)
			}
		}
		add(pubs > 0, "published>=1")
		add(h.nRegrouped > 0, "regrouped")
		add(h.nReplaced > 0, "replaced>=1")
		add(h.nUnknownSpend > 0, "unknown_spend_handled")
		add(h.nConfirmed > 0, "our_tx_confirmed")
		add(h.nThirdParty > 0, "third_party_spend")
		add(h.nUpdate > 0, "update_params")
		add(h.nReoffer > 0, "reoffer")
		add(h.nRejections > 0, "rbf_rejection>=1")
		add(h.nCarryChecked > 0, "carried_rate_checked")
		add(rampChecked > 0, "ramp_checked")
		add(h.nAmbiguous > 0, "ambiguous_attribution")
		add(h.nInvalid > 0, "invalid_result_dropped")
		add(h.nImmatureFatal > 0, "fatal_immature_at_maturity_block")
		add(h.nMulti > 0, "multi_input_set")
		add(h.nTopUp > 0, "wallet_top_up")
		add(h.nLate > 0, "late_spend_ntfn")
		add(h.nImmediateSets > 0, "immediate_set")
		add(skipped > 0, "skipped_heights")
		add(nBeats == 0, "no_beat")
		st.Count("broadcasts", int64(h.nBroadcast))
		st.Count("transactions_checked", int64(pubs))
		st.Count("carry_checks", int64(h.nCarryChecked))

		nontrivial := accepted > 0 && (h.nRegrouped > 0 ||
			h.nReplaced > 0 || h.nUnknownSpend > 0 || h.nConfirmed > 0)
		var sample any
		if nontrivial && st.WantSample() {
			evs := make([]string, 0, len(h.recs))
			for _, r := range h.recs {
				evs = append(evs, fmt.Sprintf("%s(%d in)%v", r.name,
					len(r.ins), r.events))
			}
			sample = map[string]any{
				"inputs": len(h.ins), "requests": len(h.recs),
				"published": pubs, "regrouped": h.nRegrouped,
				"steps": steps, "events": evs,
			}
		}
		st.Case(vstats.FP(fp...), nontrivial, labels, sample)
	})
}
