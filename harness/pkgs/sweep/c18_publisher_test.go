//go:build verif

package sweep

// C18 part 2: the real TxPublisher (Broadcast + block beats) against a
// per-transaction oracle computed from the generated request.
//
// The publisher is driven synchronously: a block beat is
// currentHeight.Store(h); processRecords(); wg.Wait() - exactly what the
// monitor goroutine does for one beat, minus the channel hop - so no timers
// or polling are involved and every wallet answer is a pure function of the
// generated case.

import (
	"errors"
	"fmt"
	"sync"
	"testing"

	"github.com/btcsuite/btcd/btcutil/v2"
	"github.com/btcsuite/btcd/chainhash/v2"
	"github.com/btcsuite/btcd/rpcclient"
	"github.com/btcsuite/btcd/wire/v2"
	"github.com/btcsuite/btcwallet/chain"
	"github.com/lightningnetwork/lnd/fn/v2"
	"github.com/lightningnetwork/lnd/input"
	"github.com/lightningnetwork/lnd/internal/verif/vstats"
	"github.com/lightningnetwork/lnd/lnwallet"
	"github.com/lightningnetwork/lnd/lnwallet/chainfee"
	"pgregory.net/rapid"
)

// ---------------------------------------------------------------------------
// Request model.

type c18Pub struct {
	tx     *wire.MsgTx
	fee    int64
	height int32
	// accepted: PublishTransaction returned nil.
	accepted bool
}

type c18Req struct {
	name      string
	ins       []*c18Input
	change    c18Script
	budget    int64
	maxRate   int64
	deadline  int32
	start     int64
	hasStart  bool
	immediate bool

	// aux: the publisher runs with the harness aux sweeper. extraVal is
	// the value of the extra output that sweeper adds when at least one
	// input of the request carries a resolution blob (generated facts:
	// c18Input.blob).
	aux      bool
	extraVal int64

	// Derived from the model.
	weight int64
	sumIn  int64
	sumReq int64
	values map[wire.OutPoint]int64

	// Generated wallet behaviour, consumed in order per request.
	mempool []int
	mpIdx   int
	publish []int
	pubIdx  int

	// Observations.
	sub        <-chan *BumpResult
	live       bool
	candidates int
	rejections int
	pubs       []c18Pub
	events     []BumpEvent
	lastErr    error
	// lastFailedRate is the FeeRate of the last TxFailed result: the
	// starting rate the sweeper carries into the next attempt.
	lastFailedRate int64
	// beatResponsesNil is reset at every beat: all wallet answers given to
	// this request during the beat were nil.
	beatClean bool
	// beatTouched: the wallet was asked anything for this request.
	beatTouched bool
	// rampChecked: the <=1-block obligation was evaluated once.
	rampChecked bool
}

// nBlob counts the inputs of the request that carry a resolution blob.
func (r *c18Req) nBlob() int {
	n := 0
	for _, m := range r.ins {
		if m.blob {
			n++
		}
	}

	return n
}

// hasExtra is the reference for "the sweep transaction has the aux sweeper's
// extra output": an aux sweeper is configured and ANY input carries a blob.
func (r *c18Req) hasExtra() bool {
	return r.aux && r.nBlob() > 0
}

// auxClass labels the cell of the aux mode the request falls into.
func (r *c18Req) auxClass() string {
	switch n := r.nBlob(); {
	case !r.aux:
		return "aux:off"
	case n == 0:
		return "aux:no_blob"
	case n == len(r.ins):
		return "aux:all_blob"
	default:
		return "aux:mixed"
	}
}

// Mempool / publish response codes.
const (
	c18RespOK = iota
	c18RespInsufficientFee
	c18RespMempoolMinFee
	c18RespMempoolFee
	c18RespMinRelayFee
	c18RespBackendVersion
	c18RespUnimplemented
	c18RespMissingInputs
	c18RespOther
)

var errC18Other = errors.New("c18: non-fee related rejection")

func c18RespErr(code int) error {
	switch code {
	case c18RespOK:
		return nil
	case c18RespInsufficientFee:
		return chain.ErrInsufficientFee
	case c18RespMempoolMinFee:
		return chain.ErrMempoolMinFeeNotMet
	case c18RespMempoolFee:
		return lnwallet.ErrMempoolFee
	case c18RespMinRelayFee:
		return chain.ErrMinRelayFeeNotMet
	case c18RespBackendVersion:
		return rpcclient.ErrBackendVersion
	case c18RespUnimplemented:
		return chain.ErrUnimplemented
	case c18RespMissingInputs:
		return chain.ErrMissingInputs
	default:
		return errC18Other
	}
}

// ---------------------------------------------------------------------------
// Stub wallet.

type c18Wallet struct {
	mu     sync.Mutex
	byOp   map[wire.OutPoint]*c18Req
	height func() int32
	// check is the per-transaction oracle; violations are collected and
	// reported by the test goroutine.
	check      func(r *c18Req, tx *wire.MsgTx, stage string) error
	violations []string
	utxos      []*lnwallet.Utxo
	// aux, if set, is the aux sweeper of the publisher: every transaction
	// handed to PublishTransaction must have been announced to it.
	aux *c18Aux
}

func (w *c18Wallet) reqFor(tx *wire.MsgTx) *c18Req {
	for _, in := range tx.TxIn {
		if r, ok := w.byOp[in.PreviousOutPoint]; ok {
			return r
		}
	}

	return nil
}

func (w *c18Wallet) BackEnd() string { return "bitcoind" }

func (w *c18Wallet) CheckMempoolAcceptance(tx *wire.MsgTx) error {
	w.mu.Lock()
	defer w.mu.Unlock()

	r := w.reqFor(tx)
	if r == nil {
		w.violations = append(w.violations, "candidate tx spends no "+
			"requested input")

		return nil
	}
	r.candidates++
	r.beatTouched = true
	if err := w.check(r, tx, "candidate"); err != nil {
		w.violations = append(w.violations, err.Error())
	}
	code := c18RespOK
	if r.mpIdx < len(r.mempool) {
		code = r.mempool[r.mpIdx]
	}
	r.mpIdx++
	if code != c18RespOK {
		r.beatClean = false
	}
	switch code {
	case c18RespInsufficientFee, c18RespMempoolMinFee, c18RespMempoolFee,
		c18RespMinRelayFee:

		r.rejections++
	}

	return c18RespErr(code)
}

func (w *c18Wallet) PublishTransaction(tx *wire.MsgTx, _ string) error {
	w.mu.Lock()
	defer w.mu.Unlock()

	r := w.reqFor(tx)
	if r == nil {
		w.violations = append(w.violations, "published tx spends no "+
			"requested input")

		return nil
	}
	r.beatTouched = true
	if err := w.check(r, tx, "published"); err != nil {
		w.violations = append(w.violations, err.Error())
	}
	code := c18RespOK
	if r.pubIdx < len(r.publish) {
		code = r.publish[r.pubIdx]
	}
	r.pubIdx++
	if code != c18RespOK {
		r.beatClean = false
	}
	fee := r.sumIn
	for _, o := range tx.TxOut {
		fee -= o.Value
	}
	r.pubs = append(r.pubs, c18Pub{
		tx: tx.Copy(), fee: fee, height: w.height(),
		accepted: code == c18RespOK,
	})
	if w.aux != nil && r.aux {
		if err := c18CheckAuxNote(w.aux, r, tx, fee); err != nil {
			w.violations = append(w.violations, err.Error())
		}
	}

	return c18RespErr(code)
}

func (w *c18Wallet) ListUnspentWitnessFromDefaultAccount(_, _ int32) (
	[]*lnwallet.Utxo, error) {

	out := make([]*lnwallet.Utxo, len(w.utxos))
	copy(out, w.utxos)

	return out, nil
}
func (w *c18Wallet) WithCoinSelectLock(f func() error) error { return f() }
func (w *c18Wallet) RemoveDescendants(*wire.MsgTx) error     { return nil }
func (w *c18Wallet) FetchTx(chainhash.Hash) (*wire.MsgTx, error) {
	return nil, nil
}
func (w *c18Wallet) CancelRebroadcast(chainhash.Hash) {}
func (w *c18Wallet) GetTransactionDetails(*chainhash.Hash) (
	*lnwallet.TransactionDetail, error) {

	return nil, errors.New("c18: not used")
}

// ---------------------------------------------------------------------------
// Per-transaction oracle.

// c18CheckTx evaluates the per-transaction clauses of C18 on a transaction
// the publisher handed to the wallet. height is the publisher's height when
// the tx was built.
func c18CheckTx(r *c18Req, tx *wire.MsgTx, height int32, stage string,
	f2Allowed bool) error {

	pfx := fmt.Sprintf("%s tx of %s at height %d (budget=%d maxRate=%d "+
		"weight=%d start=%v/%d deadline=%d): ", stage, r.name, height,
		r.budget, r.maxRate, r.weight, r.hasStart, r.start, r.deadline)

	// All requested inputs, each exactly once, nothing else.
	if len(tx.TxIn) != len(r.ins) {
		return fmt.Errorf(pfx+"%d inputs, requested %d", len(tx.TxIn),
			len(r.ins))
	}
	seen := make(map[wire.OutPoint]int, len(tx.TxIn))
	for i, in := range tx.TxIn {
		if _, dup := seen[in.PreviousOutPoint]; dup {
			return fmt.Errorf(pfx+"input %v twice", in.PreviousOutPoint)
		}
		seen[in.PreviousOutPoint] = i
	}
	var (
		lock    uint32
		hasLock bool
		nReq    int
	)
	for _, m := range r.ins {
		idx, ok := seen[m.op]
		if !ok {
			return fmt.Errorf(pfx+"requested input %v (%s) missing",
				m.op, m.kind.name)
		}
		if tx.TxIn[idx].Sequence != m.sequence() {
			return fmt.Errorf(pfx+"input %s sequence %d, needs %d",
				m.kind.name, tx.TxIn[idx].Sequence, m.sequence())
		}
		if len(tx.TxIn[idx].Witness) == 0 {
			return fmt.Errorf(pfx+"input %s has no witness",
				m.kind.name)
		}
		if m.kind.reqOut {
			nReq++
			// SIGHASH_SINGLE pairing: output at the same index.
			if idx >= len(tx.TxOut) ||
				tx.TxOut[idx].Value != m.reqValue ||
				string(tx.TxOut[idx].PkScript) != string(m.reqPk) {

				return fmt.Errorf(pfx+"required output of %s not "+
					"at index %d", m.kind.name, idx)
			}
		}
		if m.hasLock {
			if hasLock && lock != m.lockTime {
				return fmt.Errorf(pfx+"inputs commit to locktimes "+
					"%d and %d, no tx can satisfy both", lock,
					m.lockTime)
			}
			lock, hasLock = m.lockTime, true
		}
	}
	wantLock := uint32(height)
	if hasLock {
		wantLock = lock
	}
	if tx.LockTime != wantLock {
		return fmt.Errorf(pfx+"nLockTime %d, want %d", tx.LockTime,
			wantLock)
	}
	if tx.LockTime > uint32(height) {
		return fmt.Errorf(pfx+"nLockTime %d is in the future",
			tx.LockTime)
	}

	// Outputs: the required ones, the aux sweeper's extra output exactly
	// when the generated facts call for it (aux sweeper configured and any
	// input with a blob), plus at most one change output.
	nFixed := nReq
	if r.hasExtra() {
		nFixed++
	}
	if len(tx.TxOut) != nFixed && len(tx.TxOut) != nFixed+1 {
		return fmt.Errorf(pfx+"%d outputs with %d required and extra "+
			"output expected=%v (%s)", len(tx.TxOut), nReq,
			r.hasExtra(), r.auxClass())
	}
	if len(tx.TxOut) == 0 {
		return fmt.Errorf(pfx + "no outputs")
	}
	hasChange := len(tx.TxOut) == nFixed+1
	var nExtra, nChange int
	for _, o := range tx.TxOut[nReq:] {
		switch {
		case string(o.PkScript) == string(c18ExtraPk):
			nExtra++
			if o.Value != r.extraVal {
				return fmt.Errorf(pfx+"extra output pays %d, the "+
					"aux sweeper asked for %d", o.Value,
					r.extraVal)
			}
		case string(o.PkScript) == string(r.change.pk):
			nChange++
		default:
			return fmt.Errorf(pfx + "change pays to a foreign script")
		}
	}
	if r.hasExtra() && nExtra != 1 {
		return fmt.Errorf(pfx+"%d extra outputs, the aux sweeper "+
			"asked for one (%s, %d of %d inputs with a blob)", nExtra,
			r.auxClass(), r.nBlob(), len(r.ins))
	}
	if !r.hasExtra() && nExtra != 0 {
		return fmt.Errorf(pfx+"extra output without a blob input (%s)",
			r.auxClass())
	}
	if (hasChange && nChange != 1) || (!hasChange && nChange != 0) {
		return fmt.Errorf(pfx+"%d change outputs among %d outputs",
			nChange, len(tx.TxOut))
	}
	var sumOut int64
	for i, o := range tx.TxOut {
		if o.Value < c18DustLimit(o.PkScript) {
			return fmt.Errorf(pfx+"output %d value %d below dust %d",
				i, o.Value, c18DustLimit(o.PkScript))
		}
		sumOut += o.Value
	}

	// Fee <= budget.
	fee := r.sumIn - sumOut
	if fee < 0 {
		return fmt.Errorf(pfx+"outputs exceed inputs by %d", -fee)
	}
	if fee > r.budget {
		return fmt.Errorf(pfx+"fee %d exceeds budget %d", fee, r.budget)
	}

	// Fee rate <= configured maximum. A change output that would be dust
	// is documented to be added to the fee, so without a change output
	// the bound is relaxed by that amount.
	maxFee := c18FeeAt(r.maxRate, r.weight)
	if !hasChange {
		maxFee += c18DustLimit(r.change.pk) - 1
	}
	if fee > maxFee && !f2Allowed {
		return fmt.Errorf(pfx+"fee %d exceeds %d = fee at the maximum "+
			"rate (change output: %v): rate %d sat/kw", fee, maxFee,
			hasChange, fee*1000/r.weight)
	}

	return nil
}

// ---------------------------------------------------------------------------
// Generator.

func c18DrawReq(t *rapid.T, name string, serial *int, height int32,
	relay int64, f2Known, roundKnown bool, st *vstats.Collector,
	aux *c18Aux) *c18Req {

	r := &c18Req{name: name, live: true, aux: aux != nil}
	r.change = rapid.SampledFrom(c18Change).Draw(t, "change")

	sharedLock := uint32(rapid.Int32Range(1, height).Draw(t, "sharedLock"))
	n := rapid.IntRange(1, 6).Draw(t, "nInputs")
	if rapid.IntRange(0, 9).Draw(t, "manyInputs") == 0 {
		n = rapid.IntRange(7, 24).Draw(t, "nInputsMany")
	}
	lockMode := 0
	switch c := rapid.IntRange(0, 9).Draw(t, "lockMode"); {
	case c < 6:
	case c < 8:
		lockMode = 1
	default:
		lockMode = 2
	}
	// tight: second-level HTLC inputs (value pinned to their required
	// outputs) plus one wallet top-up that barely pays the fee, so that
	// the change output is around the dust limit as the fee ramps.
	tight := rapid.IntRange(0, 6).Draw(t, "tight") == 0
	if tight {
		n = rapid.IntRange(1, 3).Draw(t, "nTight")
		lockMode = 0
	}
	for i := 0; i < n; i++ {
		m := c18DrawInput(t, height, true, lockMode, sharedLock)
		if tight {
			m = &c18Input{
				kind: c18Kinds[len(c18Kinds)-2], hasLock: true,
				lockTime: sharedLock, reqPk: c18P2WSH.pk,
				value: rapid.Int64Range(330, 100_000).Draw(
					t, "tightValue"),
			}
			m.reqValue = m.value
		}
		if m.kind.reqOut && m.reqValue < c18DustLimit(m.reqPk) {
			// The aggregator never passes dust required outputs.
			m.value += 400
			m.reqValue = m.value
		}
		r.ins = append(r.ins, m)
	}
	var topUp *c18Input
	if tight {
		topUp = &c18Input{kind: c18Kinds[rapid.IntRange(0, 2).Draw(
			t, "tightWallet")]}
		r.ins = append(r.ins, topUp)
	}

	// Aux mode: which inputs are custom channel outputs (carry a blob).
	// Three cells: no input / every input / some but not all (a plain
	// input - wallet utxo, anchor, output of another channel - grouped with
	// custom channel outputs; the wallet top-up of a tight set makes it
	// mixed by itself).
	if r.aux {
		r.extraVal = 330
		if rapid.Bool().Draw(t, "extraValBig") {
			r.extraVal = rapid.Int64Range(330, 1000).Draw(t, "extraVal")
		}
		switch c := rapid.IntRange(0, 9).Draw(t, "blobCell"); {
		case c < 2:
			// No blob at all.
		case c < 5:
			// Every input that can carry one.
			// Every input: wallet utxos / anchors drawn above
			// become to_remote outputs of the custom channel (the
			// tight set keeps its wallet top-up and is mixed).
			for _, m := range r.ins {
				if !m.blobEligible() && m != topUp {
					m.kind = c18Kinds[4+rapid.IntRange(0, 1).Draw(
						t, "allBlobKind")]
					m.parent = nil
				}
				m.blob = m.blobEligible()
			}
		default:
			// Mixed.
			nb := 0
			for _, m := range r.ins {
				if m.blobEligible() && rapid.Bool().Draw(t, "blob") {
					m.blob = true
					nb++
				}
			}
			if nb == 0 {
				for _, m := range r.ins {
					if m.blobEligible() {
						m.blob = true
						nb++

						break
					}
				}
			}
			if nb == len(r.ins) && topUp == nil {
				// A wallet utxo pulled in to pay the fees.
				w := &c18Input{kind: c18Kinds[rapid.IntRange(
					0, 2).Draw(t, "mixedWallet")]}
				w.value = c18DrawValue(t, "mixedWalletValue")
				r.ins = append(r.ins, w)
			}
		}
	}

	// The reference weight: inputs, required outputs, one change output
	// and - from the generated facts alone - the extra output.
	var err error
	r.weight, err = c18Weight(r.ins, r.change.pk)
	if err != nil {
		t.Fatalf("weight: %v", err)
	}
	if r.hasExtra() {
		r.weight += c18ExtraOutWeight
	}

	// Max fee rate: the configurable range is 100..10000 sat/vb.
	if rapid.IntRange(0, 3).Draw(t, "maxLow") == 0 {
		r.maxRate = rapid.Int64Range(relay, 6*relay).Draw(t, "maxRateLow") +
			rapid.Int64Range(0, 20_000).Draw(t, "maxRate")
	} else {
		r.maxRate = rapid.Int64Range(25_000, 2_500_000).Draw(t, "maxRate")
	}

	// Budget, drawn as a target rate for this weight. (rapid biases small
	// integers: common classes first.)
	var rate int64
	switch rapid.IntRange(0, 9).Draw(t, "budgetClass") {
	case 0, 1, 2:
		rate = rapid.Int64Range(2*relay, 8*relay).Draw(t, "budgetRateLow") +
			rapid.Int64Range(0, 60*relay).Draw(t, "budgetRate")
	case 3, 4, 5:
		rate = rapid.Int64Range(relay, r.maxRate).Draw(t, "budgetRate")
	case 6, 7:
		rate = rapid.Int64Range(r.maxRate, 4*r.maxRate).Draw(t, "budgetRate")
	case 8:
		rate = r.maxRate + rapid.Int64Range(-3, 3).Draw(t, "budgetRate")
	default:
		rate = rapid.Int64Range(1, relay).Draw(t, "budgetRate")
	}
	r.budget = c18FeeAt(rate, r.weight) +
		rapid.Int64Range(0, r.weight/1000+1).Draw(t, "budgetJitter")
	if r.budget < 1 {
		r.budget = 1
	}
	if topUp != nil {
		hi := c18Max(relay, c18Min(r.maxRate, c18BudgetRateFloor(
			r.budget, r.weight)))
		topUp.value = c18FeeAt(rapid.Int64Range(relay, hi).Draw(
			t, "tightRate"), r.weight) +
			rapid.Int64Range(0, 800).Draw(t, "tightSlack")
		if r.hasExtra() {
			// The top-up also funds the extra output.
			topUp.value += r.extraVal
		}
		if topUp.value < 1 {
			topUp.value = 1
		}
	}
	r.values = make(map[wire.OutPoint]int64)
	for _, m := range r.ins {
		*serial++
		c18BuildInput(m, *serial)
		r.sumIn += m.value
		r.values[m.op] = m.value
		if m.kind.reqOut {
			r.sumReq += m.reqValue
		}
		if aux != nil {
			aux.setFact(m.op, c18AuxFact{
				blob: m.blob, extraVal: r.extraVal,
			})
		}
	}
	if r.hasExtra() {
		// The extra output's value is carved out of the inputs like a
		// required output.
		r.sumReq += r.extraVal
	}
	if rapid.IntRange(0, 7).Draw(t, "budgetVsValue") == 0 && topUp == nil {
		// Around what the inputs can pay at all.
		spend := r.sumIn - r.sumReq
		r.budget = c18Max(1, spend+rapid.Int64Range(-700, 700).Draw(
			t, "budgetAroundValue"))
	}

	// F8: rounded-up budget ceiling whose fee exceeds the budget.
	if c18RoundedUpOverBudget(r.budget, r.weight, r.maxRate) {
		if roundKnown {
			st.Known(c18KeyBudgetRateRoundedUp)
			st.Count("excluded_known", 1)
			for i := 0; i < 64 && c18RoundedUpOverBudget(
				r.budget, r.weight, r.maxRate); i++ {

				r.budget++
			}
		} else {
			st.Count("rounded_up_over_budget", 1)
		}
	}

	// Deadline.
	var delta int32
	switch rapid.IntRange(0, 9).Draw(t, "deadlineClass") {
	case 0, 1, 2, 3:
		delta = rapid.Int32Range(2, 8).Draw(t, "deadline")
	case 4, 5:
		delta = rapid.Int32Range(8, 40).Draw(t, "deadline")
	case 6:
		delta = rapid.Int32Range(-3, 1).Draw(t, "deadline")
	case 7, 8:
		delta = rapid.Int32Range(40, 1007).Draw(t, "deadline")
	default:
		delta = rapid.Int32Range(1008, 1200).Draw(t, "deadline")
	}
	r.deadline = height + delta
	r.immediate = rapid.Bool().Draw(t, "immediate")

	// Starting fee rate.
	budgetCeil := c18Min(r.maxRate, c18BudgetRateFloor(r.budget, r.weight))
	switch c := rapid.IntRange(0, 19).Draw(t, "startClass"); {
	case c < 11:
		// No starting rate: ask the estimator.
	case c < 16:
		// Carried over from an earlier attempt: at or below the
		// ceiling.
		r.hasStart = true
		r.start = rapid.Int64Range(1, c18Max(1, budgetCeil)).Draw(t, "start")
	case c < 18:
		// Above the budget ceiling, not above the configured max.
		r.hasStart = true
		r.start = rapid.Int64Range(c18Min(budgetCeil+1, r.maxRate),
			r.maxRate).Draw(t, "start")
	default:
		// F2: above the configured maximum rate.
		r.hasStart = true
		r.start = r.maxRate + rapid.Int64Range(1, r.maxRate).Draw(
			t, "startAboveMax")
		if f2Known {
			st.Known(c18KeyStartAboveCeiling)
			st.Count("excluded_known", 1)
			r.start = rapid.Int64Range(1, r.maxRate).Draw(
				t, "startClamped")
		}
	}

	// Wallet behaviour.
	nm := rapid.IntRange(0, 24).Draw(t, "nMempool")
	for i := 0; i < nm; i++ {
		c := rapid.IntRange(0, 39).Draw(t, "mempool")
		code := c18RespOK
		switch {
		case c < 9:
			code = c18RespInsufficientFee
		case c < 29:
		case c < 33:
			code = c18RespMempoolMinFee
		case c < 35:
			code = c18RespMempoolFee
		case c < 36:
			code = c18RespMinRelayFee
		case c < 37:
			code = c18RespBackendVersion
		case c < 38:
			code = c18RespUnimplemented
		case c < 39:
			code = c18RespMissingInputs
		default:
			code = c18RespOther
		}
		r.mempool = append(r.mempool, code)
	}
	np := rapid.IntRange(0, 6).Draw(t, "nPublish")
	for i := 0; i < np; i++ {
		c := rapid.IntRange(0, 19).Draw(t, "publish")
		code := c18RespOK
		switch {
		case c < 15:
		case c < 17:
			code = c18RespInsufficientFee
		case c < 18:
			code = c18RespMempoolFee
		default:
			code = c18RespOther
		}
		r.publish = append(r.publish, code)
	}

	return r
}

func (r *c18Req) bumpRequest() *BumpRequest {
	ins := make([]input.Input, len(r.ins))
	for i, m := range r.ins {
		ins[i] = m.inp
	}
	req := &BumpRequest{
		Budget:          btcutil.Amount(r.budget),
		Inputs:          ins,
		DeadlineHeight:  r.deadline,
		DeliveryAddress: c18Delivery(r.change),
		MaxFeeRate:      chainfee.SatPerKWeight(r.maxRate),
		Immediate:       r.immediate,
	}
	if r.hasStart {
		req.StartingFeeRate = fn.Some(chainfee.SatPerKWeight(r.start))
	}

	return req
}

// ---------------------------------------------------------------------------
// Driver.

type c18Harness struct {
	tp       *TxPublisher
	wallet   *c18Wallet
	notifier *c18Notifier
	est      *c18Estimator
	height   int32
	reqs     []*c18Req
}

func newC18Harness(est *c18Estimator, height int32,
	f2Allowed bool) *c18Harness {

	return newC18HarnessAux(est, height, f2Allowed, nil)
}

// newC18HarnessAux builds the publisher with the harness aux sweeper, if one
// is given.
func newC18HarnessAux(est *c18Estimator, height int32, f2Allowed bool,
	aux *c18Aux) *c18Harness {

	h := &c18Harness{est: est, height: height}
	h.notifier = newC18Notifier()
	h.wallet = &c18Wallet{byOp: make(map[wire.OutPoint]*c18Req)}
	h.wallet.height = func() int32 { return h.tp.currentHeight.Load() }
	h.wallet.check = func(r *c18Req, tx *wire.MsgTx, stage string) error {
		return c18CheckTx(r, tx, h.tp.currentHeight.Load(), stage,
			f2Allowed)
	}
	cfg := TxPublisherConfig{
		Signer:    c18Signer{},
		Wallet:    h.wallet,
		Estimator: est,
		Notifier:  h.notifier,
	}
	if aux != nil {
		h.wallet.aux = aux
		cfg.AuxSweeper = fn.Some[AuxSweeper](aux)
	}
	h.tp = NewTxPublisher(cfg)
	h.tp.currentHeight.Store(height)

	return h
}

func (h *c18Harness) broadcast(r *c18Req) {
	for _, m := range r.ins {
		h.wallet.byOp[m.op] = r
	}
	h.reqs = append(h.reqs, r)
	r.beatClean, r.beatTouched = true, false
	r.sub = h.tp.Broadcast(r.bumpRequest())
}

// beat delivers one block and waits for all handlers.
func (h *c18Harness) beat(height int32) {
	h.height = height
	for _, r := range h.reqs {
		r.beatClean, r.beatTouched = true, false
	}
	h.tp.currentHeight.Store(height)
	h.tp.processRecords()
	h.tp.wg.Wait()
}

// drain reads the results that are ready and applies the result-level
// clauses. It returns an error text for a violation.
func (h *c18Harness) drain(f2Allowed bool) error {
	for _, r := range h.reqs {
		for {
			var res *BumpResult
			select {
			case res = <-r.sub:
			default:
			}
			if res == nil {
				break
			}
			r.events = append(r.events, res.Event)
			if int64(res.FeeRate) > r.maxRate && !f2Allowed {
				return fmt.Errorf("%s: result %v carries fee rate "+
					"%d above the maximum %d", r.name, res.Event,
					res.FeeRate, r.maxRate)
			}
			switch res.Event {
			case TxPublished, TxReplaced:
				if len(r.pubs) == 0 {
					return fmt.Errorf("%s: %v without a "+
						"publication", r.name, res.Event)
				}
				last := r.pubs[len(r.pubs)-1]
				if res.Tx.TxHash() != last.tx.TxHash() {
					return fmt.Errorf("%s: %v reports tx %v, last "+
						"published is %v", r.name, res.Event,
						res.Tx.TxHash(), last.tx.TxHash())
				}
				if int64(res.Fee) != last.fee {
					return fmt.Errorf("%s: %v reports fee %d, tx "+
						"pays %d", r.name, res.Event, res.Fee,
						last.fee)
				}
			default:
				r.live = false
				r.lastErr = res.Err
				if res.Event == TxFailed {
					r.lastFailedRate = int64(res.FeeRate)
				}
			}
		}
	}

	return nil
}

// rampObligation evaluates the "reaches its ceiling no later than one block
// before the deadline" clause for r after a beat at height.
func (h *c18Harness) rampObligation(r *c18Req, wasLive bool) error {
	ct := int64(r.deadline) - int64(h.height)
	if ct > 1 || r.rampChecked || !wasLive {
		return nil
	}
	if !r.beatTouched && len(r.pubs) == 0 {
		// Nothing attempted in this beat and nothing published
		// before (cannot happen for a live request).
		return nil
	}
	r.rampChecked = true
	if !r.beatClean {
		// The wallet refused something in this beat: not the node's
		// doing.
		return nil
	}
	if r.hasStart && r.start > c18Min(r.maxRate,
		c18BudgetRateFloor(r.budget, r.weight)) {

		// Starting above the ceiling: F2 territory, no ramp to
		// speak of.
		return nil
	}

	// The ceiling per the property: min(budget/size, max rate), in exact
	// arithmetic. cLo is the largest integer rate not above it; cHi the
	// smallest integer rate not below it (the implementation rounds the
	// quotient to nearest).
	cLo := c18Min(r.maxRate, c18BudgetRateFloor(r.budget, r.weight))
	cHi := c18Min(r.maxRate, c18BudgetRateCeil(r.budget, r.weight))
	feeLo := c18FeeAt(cLo, r.weight)
	feeHi := c18FeeAt(cHi, r.weight)

	// Can the inputs pay for it at all?
	spend := r.sumIn - r.sumReq
	dust := c18DustLimit(r.change.pk)
	if spend-feeHi < dust {
		// No room for a change output at the ceiling: the tx either
		// has no output, or absorbs the change into the fee; both
		// are outside this clause.
		return nil
	}
	if cLo < 1 {
		return nil
	}

	// Locktimes must allow a tx at all.
	var (
		lock    uint32
		hasLock bool
	)
	for _, m := range r.ins {
		if !m.hasLock {
			continue
		}
		if hasLock && lock != m.lockTime {
			return nil
		}
		lock, hasLock = m.lockTime, true
		if m.lockTime > uint32(h.height) {
			return nil
		}
	}

	// Was this request already past a ceiling attempt that the wallet
	// refused earlier (the publisher does not retry a refused ceiling
	// tx)? Then beatTouched is false and the last publication stands.
	if !r.beatTouched {
		// Position was exhausted in an earlier beat or by RBF
		// rejections; only assert when there were never rejections.
		if r.rejections > 0 || r.candidates != len(r.pubs) {
			return nil
		}
	}

	if !r.live {
		// Ended in this beat. A spend notification or a wallet/estimator
		// problem is not the publisher's doing; giving up for a
		// fee-related reason is.
		last := r.events[len(r.events)-1]
		if last != TxFailed && last != TxFatal {
			return nil
		}
		switch c18ErrClass(r.lastErr) {
		case "not_enough_budget", "not_enough_inputs", "no_output",
			"zero_delta", "max_position":
		default:
			return nil
		}
	}
	if len(r.pubs) == 0 || !r.live {
		return fmt.Errorf("ramp: %s at height %d (deadline %d): no "+
			"ceiling tx although the wallet accepted everything: "+
			"live=%v events=%v err=%v; budget=%d weight=%d "+
			"ceiling=[%d,%d] fee at ceiling=[%d,%d] spendable=%d",
			r.name, h.height, r.deadline, r.live, r.events, r.lastErr,
			r.budget, r.weight, cLo, cHi, feeLo, feeHi, spend)
	}
	last := r.pubs[len(r.pubs)-1]
	if last.fee < feeLo {
		return fmt.Errorf("ramp: %s at height %d (deadline %d): last "+
			"published fee %d below the fee at the ceiling %d "+
			"(ceiling rate %d, weight %d, budget %d, events %v)",
			r.name, h.height, r.deadline, last.fee, feeLo, cLo,
			r.weight, r.budget, r.events)
	}

	return nil
}

// monotone checks that successive publications never pay less.
func (r *c18Req) monotone() error {
	for i := 1; i < len(r.pubs); i++ {
		if r.pubs[i].fee < r.pubs[i-1].fee {
			return fmt.Errorf("monotone: %s publication %d pays %d "+
				"after %d (heights %d -> %d, weight %d)", r.name, i,
				r.pubs[i].fee, r.pubs[i-1].fee, r.pubs[i-1].height,
				r.pubs[i].height, r.weight)
		}
	}

	return nil
}

// floor checks the relay-floor clause on the first candidate of a request
// whose start came from the estimator.
func (h *c18Harness) floorObligation(r *c18Req, relay int64) error {
	if r.hasStart || len(r.pubs) == 0 || r.rejections > 0 {
		return nil
	}
	cLo := c18Min(r.maxRate, c18BudgetRateFloor(r.budget, r.weight))
	if cLo < relay {
		return nil
	}
	if r.pubs[0].fee < c18FeeAt(relay, r.weight) {
		return fmt.Errorf("floor: %s first publication pays %d, below "+
			"%d = fee at relay rate %d", r.name, r.pubs[0].fee,
			c18FeeAt(relay, r.weight), relay)
	}

	return nil
}

func TestVerifC18Publisher(t *testing.T) {
	st := vstats.New("TestVerifC18Publisher")
	defer st.Flush()

	f2Known := c18F2Known()
	roundKnown := c18Known(c18KeyBudgetRateRoundedUp)

	rapid.Check(t, func(t *rapid.T) {
		relay := c18DrawRelay(t)
		est, estKind := c18DrawEstimator(t, relay, 60_000)
		height := int32(rapid.IntRange(100, 900_000).Draw(t, "height"))

		// When F2 is not excluded, the over-max publication is reported
		// by the per-tx oracle; nothing is relaxed.
		//
		// A third of the cases run with an aux sweeper (custom channels).
		var aux *c18Aux
		if rapid.IntRange(0, 2).Draw(t, "auxMode") == 0 {
			aux = newC18Aux()
		}
		h := newC18HarnessAux(est, height, false, aux)

		serial := 0
		nReq := 1
		if rapid.IntRange(0, 4).Draw(t, "twoReqs") == 0 {
			nReq = 2
		}
		for i := 0; i < nReq; i++ {
			r := c18DrawReq(t, fmt.Sprintf("req%d", i), &serial, height,
				relay, f2Known, roundKnown, st, aux)
			h.broadcast(r)
		}
		fail := func(err error) {
			if err != nil {
				t.Fatalf("%v", err)
			}
		}
		checkWallet := func() {
			if len(h.wallet.violations) > 0 {
				t.Fatalf("%s", h.wallet.violations[0])
			}
		}
		wasLive := make([]bool, len(h.reqs))
		for i := range h.reqs {
			wasLive[i] = true
		}
		after := func() {
			checkWallet()
			fail(h.drain(false))
			for i, r := range h.reqs {
				fail(r.monotone())
				fail(h.rampObligation(r, wasLive[i]))
				wasLive[i] = r.live
			}
		}
		after()

		// Block walk.
		steps := 2 + rapid.IntRange(0, 14).Draw(t, "steps")
		skippedHeights := 0
		spendEvents := 0
		for s := 0; s < steps; s++ {
			next := h.height + 1
			switch c := rapid.IntRange(0, 9).Draw(t, "adv"); {
			case c < 6:
			case c < 8:
				next = h.height + rapid.Int32Range(2, 5).Draw(t, "skip")
				skippedHeights++
			case c == 8:
				// Jump to around the nearest pending deadline.
				for _, r := range h.reqs {
					if r.live && r.deadline-2 > h.height {
						next = r.deadline - rapid.Int32Range(
							0, 2).Draw(t, "nearDeadline")
						skippedHeights++

						break
					}
				}
			default:
				next = h.height + rapid.Int32Range(5, 300).Draw(t, "leap")
				skippedHeights++
			}
			if next <= h.height {
				next = h.height + 1
			}

			// Occasionally an input gets spent before the beat.
			if rapid.IntRange(0, 14).Draw(t, "spend") == 0 {
				r := h.reqs[rapid.IntRange(0, len(h.reqs)-1).Draw(
					t, "spendReq")]
				if r.live {
					spendEvents++
					ours := rapid.Bool().Draw(t, "spendOurs")
					if ours && len(r.pubs) > 0 {
						tx := r.pubs[len(r.pubs)-1].tx
						for _, m := range r.ins {
							h.notifier.setSpend(m.op, tx)
						}
					} else {
						foreign := wire.NewMsgTx(2)
						m := r.ins[rapid.IntRange(0,
							len(r.ins)-1).Draw(t, "spendIn")]
						foreign.AddTxIn(&wire.TxIn{
							PreviousOutPoint: m.op,
						})
						h.notifier.setSpend(m.op, foreign)
					}
				}
			}

			h.beat(next)
			after()
		}
		for _, r := range h.reqs {
			fail(h.floorObligation(r, relay))
		}

		// Evidence.
		var (
			labels     = []string{"est:" + estKind}
			rejections int
			pubs       int
			reachedDl  bool
			fpParts    = []any{relay, estKind, height, steps}
		)
		for _, r := range h.reqs {
			rejections += r.rejections
			pubs += len(r.pubs)
			if int64(h.height) >= int64(r.deadline)-1 {
				reachedDl = true
			}
			fpParts = append(fpParts, r.budget, r.maxRate, r.deadline,
				r.start, r.weight, r.sumIn, len(r.ins), r.mempool,
				r.aux, r.nBlob(), r.extraVal)
			labels = append(labels, r.auxClass())
			if r.aux {
				if r.rampChecked {
					labels = append(labels, r.auxClass()+
						":ramp_checked")
				}
				if len(r.pubs) > 0 {
					labels = append(labels, r.auxClass()+
						":published")
				}
				if c18BudgetRateFloor(r.budget, r.weight) <
					r.maxRate {

					labels = append(labels, r.auxClass()+
						":budget_capped")
				}
			}
			for _, e := range r.events {
				labels = append(labels, "event:"+e.String())
			}
			if len(r.events) == 0 {
				labels = append(labels, "event:none")
			}
			if r.lastErr != nil {
				labels = append(labels, "err:"+c18ErrClass(r.lastErr))
			}
			if len(r.pubs) > 1 {
				labels = append(labels, "replaced>=1")
			}
			for _, m := range r.ins {
				if m.kind.reqOut {
					labels = append(labels, "has_required_output")
					break
				}
			}
			if r.hasStart {
				ceil := c18Min(r.maxRate, c18BudgetRateFloor(
					r.budget, r.weight))
				switch {
				case r.start > r.maxRate:
					labels = append(labels, "start:above_max")
				case r.start > ceil:
					labels = append(labels, "start:above_budget_ceiling")
				default:
					labels = append(labels, "start:carried")
				}
			}
			if r.rampChecked {
				labels = append(labels, "ramp_checked")
			}
			if r.maxRate < 25_000 {
				labels = append(labels, "max_below_config_floor")
			}
			for _, p := range r.pubs {
				if len(p.tx.TxOut) > 0 && len(p.tx.TxOut) ==
					c18CountReq(r) {

					labels = append(labels, "pub_without_change")
					break
				}
			}
		}
		if rejections > 0 {
			labels = append(labels, "rbf_rejection>=1")
		}
		if pubs > 0 {
			labels = append(labels, "published>=1")
		}
		if skippedHeights > 0 {
			labels = append(labels, "skipped_heights")
		}
		if reachedDl {
			labels = append(labels, "walk_reached_deadline-1")
		}
		if spendEvents > 0 {
			labels = append(labels, "spend_event")
		}
		if len(h.reqs) > 1 {
			labels = append(labels, "two_requests")
		}

		nontrivial := rejections > 0 && pubs > 0
		var sample any
		if nontrivial && st.WantSample() {
			r := h.reqs[0]
			fees := make([]int64, len(r.pubs))
			for i, p := range r.pubs {
				fees[i] = p.fee
			}
			sample = map[string]any{
				"inputs": len(r.ins), "weight": r.weight,
				"budget": r.budget, "maxRate": r.maxRate,
				"deadline_delta": r.deadline - height,
				"events":         fmt.Sprint(r.events),
				"fees":           fees, "rejections": r.rejections,
			}
		}
		st.Case(vstats.FP(fpParts...), nontrivial, labels, sample)
	})
}

// c18CountReq is the number of outputs of a transaction of the request that
// has no change output: the required outputs and the aux sweeper's extra one.
func c18CountReq(r *c18Req) int {
	n := 0
	for _, m := range r.ins {
		if m.kind.reqOut {
			n++
		}
	}
	if r.hasExtra() {
		n++
	}

	return n
}

// c18CheckAuxNote is the NotifyBroadcast clause of the AuxSweeper contract:
// the transaction being published was announced to the aux sweeper together
// with the request it was generated by, its true fee, and - in the request's
// ExtraTxOut - the extra output the aux sweeper asked for (none if it asked
// for none); the index map names the transaction index of every input that
// commits to a required output.
func c18CheckAuxNote(a *c18Aux, r *c18Req, tx *wire.MsgTx, fee int64) error {
	pfx := fmt.Sprintf("aux: published tx of %s (%s): ", r.name,
		r.auxClass())
	n, ok := a.take(tx.TxHash())
	if !ok {
		return fmt.Errorf(pfx + "NotifyBroadcast was not called for it")
	}
	if n.fee != fee {
		return fmt.Errorf(pfx+"NotifyBroadcast reports fee %d, tx pays "+
			"%d", n.fee, fee)
	}
	if n.hasExtra != r.hasExtra() {
		return fmt.Errorf(pfx+"request's ExtraTxOut set=%v, extra "+
			"output expected=%v", n.hasExtra, r.hasExtra())
	}
	if n.hasExtra && (!n.isExtra || n.extra.Value != r.extraVal ||
		string(n.extra.PkScript) != string(c18ExtraPk)) {

		return fmt.Errorf(pfx+"request's ExtraTxOut is (%d, %x, "+
			"extra=%v), not the aux sweeper's output", n.extra.Value,
			n.extra.PkScript, n.isExtra)
	}
	for i, in := range tx.TxIn {
		idx, ok := n.idx[in.PreviousOutPoint]
		for _, m := range r.ins {
			if m.op != in.PreviousOutPoint || !m.kind.reqOut {
				continue
			}
			if !ok || idx != i {
				return fmt.Errorf(pfx+"index map has %d (present "+
					"%v) for the required-output input at %d",
					idx, ok, i)
			}
		}
	}

	return nil
}

func c18ErrClass(err error) string {
	switch {
	case errors.Is(err, ErrNotEnoughBudget):
		return "not_enough_budget"
	case errors.Is(err, ErrNotEnoughInputs):
		return "not_enough_inputs"
	case errors.Is(err, ErrTxNoOutput):
		return "no_output"
	case errors.Is(err, ErrZeroFeeRateDelta):
		return "zero_delta"
	case errors.Is(err, ErrMaxPosition):
		return "max_position"
	case errors.Is(err, ErrLocktimeImmature):
		return "locktime_immature"
	case errors.Is(err, ErrLocktimeConflict):
		return "locktime_conflict"
	case errors.Is(err, ErrUnknownSpent):
		return "unknown_spend"
	case errors.Is(err, ErrInputMissing):
		return "input_missing"
	case errors.Is(err, errC18Estimator):
		return "estimator"
	case errors.Is(err, errC18Other):
		return "wallet_other"
	case errors.Is(err, ErrFeePreferenceTooLow):
		return "fee_pref_too_low"
	case errors.Is(err, chain.ErrInsufficientFee),
		errors.Is(err, chain.ErrMempoolMinFeeNotMet),
		errors.Is(err, chain.ErrMinRelayFeeNotMet),
		errors.Is(err, lnwallet.ErrMempoolFee):

		return "wallet_fee_reject"
	default:
		return "other"
	}
}
