//go:build verif

package sweep

// C18 part 1: LinearFeeFunction walks against an exact-integer oracle.
//
// The oracle never replays the float arithmetic of the implementation. It
// states, in integers / rationals:
//   cap        FeeRate() <= ending rate, always
//   monotone   FeeRate() never decreases over a walk
//   floor      a start taken from the estimator is >= relay fee (when the
//              ceiling itself is >= relay fee)
//   start      the start equals the estimator's answer clamped to the ceiling
//   ceiling    once <= 1 block remains (IncreaseFeeRate(ct<=1), or confTarget-1
//              Increments) FeeRate() == ending rate
//   flag       the bool of Increment/IncreaseFeeRate <=> the rate strictly
//              increased; an error leaves the rate unchanged
//   linear     at position p < width the rate is start + (end-start)*p/width
//              within the documented msat-delta rounding (p/2000 + 2 sat/kw)
//   errors     ErrZeroFeeRateDelta iff width > 1 and the per-block delta rounds
//              to 0 msat/kw; ErrMaxPosition iff the position is exhausted

import (
	"errors"
	"math/big"
	"testing"

	"github.com/lightningnetwork/lnd/fn/v2"
	"github.com/lightningnetwork/lnd/internal/verif/vstats"
	"github.com/lightningnetwork/lnd/lnwallet/chainfee"
	"pgregory.net/rapid"
)

// c18DrawRelay draws a relay fee rate (sat/kw).
func c18DrawRelay(t *rapid.T) int64 {
	return rapid.SampledFrom([]int64{
		253, 253, 253, 250, 300, 1000, 1250, 5000,
	}).Draw(t, "relay")
}

// c18DrawEnd draws an ending (ceiling) rate around interesting scales.
func c18DrawEnd(t *rapid.T, relay int64) int64 {
	switch rapid.IntRange(0, 9).Draw(t, "endClass") {
	case 0:
		// Below the relay fee (F3 domain: budget too small).
		return rapid.Int64Range(1, relay-1).Draw(t, "end")
	case 1:
		return relay + rapid.Int64Range(0, 3).Draw(t, "end")
	case 2, 3:
		return rapid.Int64Range(relay, 5*relay).Draw(t, "end")
	case 4, 5, 6:
		return rapid.Int64Range(relay, 250_000).Draw(t, "end")
	case 7, 8:
		return rapid.Int64Range(250_000, 2_500_000).Draw(t, "end")
	default:
		return rapid.Int64Range(2_500_000, 1_000_000_000).Draw(t, "end")
	}
}

// c18DrawConfTarget draws a conf target 0..1100+, biased to the edges.
func c18DrawConfTarget(t *rapid.T) uint32 {
	switch rapid.IntRange(0, 9).Draw(t, "ctClass") {
	case 0:
		return uint32(rapid.IntRange(0, 3).Draw(t, "ct"))
	case 1, 2, 3:
		return uint32(rapid.IntRange(2, 12).Draw(t, "ct"))
	case 4, 5:
		return uint32(rapid.IntRange(10, 200).Draw(t, "ct"))
	case 6:
		return uint32(rapid.IntRange(1000, 1012).Draw(t, "ct"))
	case 7, 8:
		return uint32(rapid.IntRange(144, 1100).Draw(t, "ct"))
	default:
		return uint32(rapid.IntRange(1100, 50_000).Draw(t, "ct"))
	}
}

// c18RefRate checks the linearity clause: got must be within tol of
// start + d*p/w (as a rational), and returns a description on mismatch.
func c18LinearOK(got, start, d int64, p, w uint32) bool {
	// |(got-start)*w - d*p| <= tol*w, tol = p/2000 + 2.
	tol := int64(p)/2000 + 2
	lhs := new(big.Int).Mul(big.NewInt(got-start), big.NewInt(int64(w)))
	lhs.Sub(lhs, new(big.Int).Mul(big.NewInt(d), big.NewInt(int64(p))))
	lhs.Abs(lhs)
	rhs := new(big.Int).Mul(big.NewInt(tol), big.NewInt(int64(w)))

	return lhs.Cmp(rhs) <= 0
}

func TestVerifC18FeeFunction(t *testing.T) {
	st := vstats.New("TestVerifC18FeeFunction")
	defer st.Flush()

	known := c18F2Known()

	rapid.Check(t, func(t *rapid.T) {
		relay := c18DrawRelay(t)
		end := c18DrawEnd(t, relay)
		ct0 := c18DrawConfTarget(t)
		est, estKind := c18DrawEstimator(t, relay, end)

		// Starting rate option.
		startKind := rapid.SampledFrom([]string{
			"none", "none", "none", "none", "some_below", "some_below",
			"some_below", "some_just_below", "some_above",
			"some_below_relay", "some_equal",
		}).Draw(t, "startKind")
		var (
			startOpt = fn.None[chainfee.SatPerKWeight]()
			some     int64
		)
		switch startKind {
		case "some_below":
			some = rapid.Int64Range(1, end).Draw(t, "some")
		case "some_equal":
			some = end
		case "some_just_below":
			some = end - rapid.Int64Range(0, 3).Draw(t, "someGap")
			if some < 1 {
				some = 1
			}
		case "some_above":
			some = end + rapid.Int64Range(1, end+5000).Draw(t, "someUp")
		case "some_below_relay":
			some = rapid.Int64Range(1, relay).Draw(t, "someLow")
		}

		labels := []string{"est:" + estKind, "start:" + startKind}

		// Reference for the resolved start and the creation outcome.
		var (
			expStart  int64
			expOK     = true
			fromEstim = startKind == "none"
		)
		if ct0 <= 1 {
			expStart = end
		} else if fromEstim {
			expStart, expOK = c18ExpectedStart(est, end, ct0)
		} else {
			expStart = some
		}

		// F2: the resolved start is above the ceiling. Confirmed finding;
		// excluded by construction when listed as known.
		if ct0 > 1 && expOK && expStart > end {
			if known {
				st.Known(c18KeyStartAboveCeiling)
				st.Count("excluded_known", 1)
				if fromEstim {
					// relay > end with a target >= 1008: take a
					// target the estimator is asked for.
					ct0 = 2 + ct0%1000
					expStart, expOK = c18ExpectedStart(
						est, end, ct0,
					)
				} else {
					// Mirror the excess below the ceiling.
					some = c18Max(1, end-(some-end))
					expStart = some
				}
				labels = append(labels, "f2_clamped")
			} else {
				labels = append(labels, "f2_start_above_end")
				if !fromEstim {
					// The property caps every offered rate at
					// the ceiling: a correct function starts
					// at the ceiling when the caller asks for
					// more.
					expStart = end
				}
			}
		}
		if !fromEstim {
			startOpt = fn.Some(chainfee.SatPerKWeight(some))
		}

		f, err := NewLinearFeeFunction(
			chainfee.SatPerKWeight(end), ct0, est, startOpt,
		)

		fp := vstats.FP(relay, end, ct0, estKind, startKind, some,
			expStart)

		// Creation outcome.
		w := uint32(0)
		if ct0 > 1 {
			w = ct0 - 1
		}
		d := end - expStart
		switch {
		case !expOK:
			if err == nil {
				t.Fatalf("creation must fail (estimator %s, ct=%d, "+
					"relay=%d) but returned start=%v", estKind,
					ct0, relay, f.FeeRate())
			}
			st.Case(fp, false, append(labels, "create:est_error"), nil)

			return

		case ct0 > 1 && w != 1 && d >= 0 && 2000*d < int64(w):
			// Documented: zero delta with width > 1.
			if !errors.Is(err, ErrZeroFeeRateDelta) {
				t.Fatalf("want ErrZeroFeeRateDelta (start=%d end=%d "+
					"width=%d), got %v", expStart, end, w, err)
			}
			st.Case(fp, false, append(labels, "create:zero_delta"), nil)

			return

		case ct0 > 1 && w != 1 && d >= 0 && 2000*d == int64(w):
			// Exactly half a msat: either rounding is acceptable.
			if err != nil && !errors.Is(err, ErrZeroFeeRateDelta) {
				t.Fatalf("unexpected creation error %v", err)
			}
			if err != nil {
				st.Case(fp, false, append(labels, "create:half"), nil)
				return
			}

		case ct0 > 1 && d < 0 && !known:
			// F2 domain, not excluded: fall through to the
			// invariants, which report it.
			if err != nil {
				st.Case(fp, false, append(labels, "create:f2_err"), nil)
				return
			}

		default:
			if err != nil {
				t.Fatalf("unexpected creation error (start=%d end=%d "+
					"ct=%d width=%d est=%s): %v", expStart, end,
					ct0, w, estKind, err)
			}
		}

		// --- invariants at creation -------------------------------
		got := int64(f.FeeRate())
		if got != expStart {
			t.Fatalf("start: FeeRate()=%d, reference start=%d "+
				"(end=%d ct=%d relay=%d est=%s start=%s)", got,
				expStart, end, ct0, relay, estKind, startKind)
		}
		if got > end {
			t.Fatalf("cap: initial FeeRate()=%d > ending rate %d "+
				"(ct=%d, start option %s=%d)", got, end, ct0,
				startKind, some)
		}
		if fromEstim && ct0 > 1 && end >= relay && got < relay {
			t.Fatalf("floor: start %d < relay %d with end=%d", got,
				relay, end)
		}
		if ct0 <= 1 && got != end {
			t.Fatalf("ceiling: ct=%d but start %d != end %d", ct0, got,
				end)
		}

		// --- walk -------------------------------------------------
		var (
			pos        uint32 // model position
			prev       = got
			incs       uint32 // number of successful Increments
			minCT      = ct0
			reachedCap = prev == end
			capEarly   bool
			skipped    int
			outOfOrder int
		)
		remaining := ct0 // model of the caller's current conf target
		steps := rapid.IntRange(1, 60).Draw(t, "steps")
		for i := 0; i < steps; i++ {
			useInc := rapid.IntRange(0, 9).Draw(t, "op") < 3
			var (
				inc    bool
				cerr   error
				newPos uint32
				tried  bool // the model says the position moves
				label  string
				ctArg  uint32
			)
			if useInc {
				label = "Increment"
				newPos, tried = pos+1, true
				inc, cerr = f.Increment()
			} else {
				// Next conf target: one block, a skip, a jump to
				// the end, or (out of order) a larger target.
				switch c := rapid.IntRange(0, 11).Draw(t, "adv"); {
				case c < 5:
					ctArg = c18SubFloor(remaining, 1)
				case c < 8:
					k := uint32(rapid.IntRange(2, 40).Draw(t, "skip"))
					ctArg = c18SubFloor(remaining, k)
					skipped++
				case c == 8:
					// Jump close to the deadline.
					ctArg = uint32(rapid.IntRange(0, 3).Draw(t, "near"))
					if ctArg > remaining {
						ctArg = remaining
					}
					skipped++
				case c == 9:
					// Large stride for wide functions.
					k := uint32(rapid.IntRange(40, 1200).Draw(t, "stride"))
					ctArg = c18SubFloor(remaining, k)
					skipped++
				case c == 10:
					ctArg = remaining
				default:
					ctArg = remaining + uint32(rapid.IntRange(
						1, 30).Draw(t, "back"))
					outOfOrder++
				}
				if ctArg < remaining {
					remaining = ctArg
				}
				if ctArg < minCT {
					minCT = ctArg
				}
				label = "IncreaseFeeRate"
				if ctArg < w+1 {
					newPos = w + 1 - ctArg
				}
				tried = newPos > pos
				inc, cerr = f.IncreaseFeeRate(ctArg)
			}

			cur := int64(f.FeeRate())

			// Errors: exactly ErrMaxPosition when the model position
			// is exhausted and a move was requested.
			wantErr := tried && pos >= w
			if wantErr != (cerr != nil) ||
				(cerr != nil && !errors.Is(cerr, ErrMaxPosition)) {

				t.Fatalf("%s(ct=%d) at model pos=%d width=%d: "+
					"err=%v, want error=%v", label, ctArg, pos, w,
					cerr, wantErr)
			}
			if cerr != nil {
				if cur != prev || inc {
					t.Fatalf("%s: error %v but rate moved %d->%d "+
						"(flag %v)", label, cerr, prev, cur, inc)
				}

				continue
			}
			if tried {
				pos = newPos
				if useInc {
					incs++
				}
			}

			if cur > end {
				t.Fatalf("cap: %s -> FeeRate()=%d > end %d (pos=%d "+
					"width=%d start=%d)", label, cur, end, pos, w,
					expStart)
			}
			if cur < prev {
				t.Fatalf("monotone: %s(ct=%d) decreased the rate "+
					"%d -> %d (pos=%d width=%d start=%d end=%d)",
					label, ctArg, prev, cur, pos, w, expStart, end)
			}
			if inc != (cur > prev) {
				t.Fatalf("flag: %s returned %v but rate %d -> %d",
					label, inc, prev, cur)
			}
			if !tried && cur != prev {
				t.Fatalf("%s(ct=%d) must not move (pos=%d) but "+
					"rate %d -> %d", label, ctArg, pos, prev, cur)
			}

			// Ceiling, stated without the model position: at most
			// one block remains.
			if (!useInc && ctArg <= 1) ||
				(ct0 >= 1 && incs >= ct0-1) || minCT <= 1 {

				if cur != end {
					t.Fatalf("ceiling: <=1 block remains (%s ct=%d, "+
						"incs=%d, ct0=%d) but FeeRate()=%d != "+
						"end %d", label, ctArg, incs, ct0, cur, end)
				}
			}
			// Linear ramp (documented formula) at the model
			// position.
			if pos >= w {
				if cur != end {
					t.Fatalf("ceiling: pos=%d >= width=%d but "+
						"rate %d != end %d", pos, w, cur, end)
				}
			} else if d >= 0 && !c18LinearOK(cur, expStart, d, pos, w) {
				t.Fatalf("linear: pos=%d/%d start=%d end=%d: "+
					"FeeRate()=%d off the line", pos, w, expStart,
					end, cur)
			}

			if cur == end && !reachedCap {
				reachedCap = true
				if remaining > 1 && pos < w {
					capEarly = true
				}
			}
			prev = cur
		}

		if skipped >= 2 {
			labels = append(labels, "walk:skipped>=2")
		}
		if outOfOrder > 0 {
			labels = append(labels, "walk:out_of_order")
		}
		if reachedCap {
			labels = append(labels, "walk:reached_cap")
		}
		if capEarly {
			labels = append(labels, "walk:cap_before_deadline")
		}
		if w == 1 {
			labels = append(labels, "width1")
		}
		if end < relay {
			labels = append(labels, "end_below_relay")
		}
		labels = append(labels, "create:ok")

		// Non-trivial: the walk skips >= 2 heights, or climbs from a
		// start strictly below the ceiling all the way to it.
		nontrivial := skipped >= 2 ||
			(reachedCap && ct0 > 1 && expStart < end)
		var sample any
		if nontrivial && st.WantSample() {
			sample = map[string]any{
				"relay": relay, "end": end, "ct": ct0,
				"start": expStart, "est": estKind,
				"startKind": startKind, "steps": steps,
				"skipped": skipped, "reached_cap": reachedCap,
			}
		}
		st.Case(fp^vstats.FP(steps, skipped, pos), nontrivial, labels,
			sample)
	})
}

func c18SubFloor(a, b uint32) uint32 {
	if b >= a {
		return 0
	}

	return a - b
}
