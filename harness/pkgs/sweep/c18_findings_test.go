//go:build verif

package sweep

// Minimal deterministic reproductions of the C18 findings. These tests are
// NOT part of the job tables (they fail on the unchanged tree by design);
// run one with e.g.
//
//	./check C18 --run '^TestVerifC18FindingStartAboveCeiling$' --checks 1 --shards 1 --verbose
//
// Each test fails while the defect is present and passes once it is repaired.

import (
	"errors"
	"testing"

	"github.com/lightningnetwork/lnd/fn/v2"
	"github.com/lightningnetwork/lnd/input"
	"github.com/lightningnetwork/lnd/lnwallet"
	"github.com/lightningnetwork/lnd/lnwallet/chainfee"
)

func c18FixedEstimator(rate, relay int64) *c18Estimator {
	return &c18Estimator{
		relay: chainfee.SatPerKWeight(relay),
		answer: func(uint32) (chainfee.SatPerKWeight, error) {
			return chainfee.SatPerKWeight(rate), nil
		},
	}
}

// c18ToLocal is a 1'000'000 sat to_local output (CSV 144).
func c18ToLocal(serial int, value int64) *c18Input {
	m := &c18Input{kind: c18Kinds[3], value: value, csvDelay: 144}
	c18BuildInput(m, serial)

	return m
}

func c18NewReq(name string, ins []*c18Input, budget, maxRate int64,
	deadline int32) *c18Req {

	r := &c18Req{
		name: name, ins: ins, change: c18P2TR, budget: budget,
		maxRate: maxRate, deadline: deadline, immediate: true,
		live: true,
	}
	r.weight, _ = c18Weight(ins, r.change.pk)
	for _, m := range ins {
		r.sumIn += m.value
		if m.kind.reqOut {
			r.sumReq += m.reqValue
		}
	}

	return r
}

// F2, function level: a starting rate above the ceiling is taken as is; the
// function starts above endingFeeRate and then decreases.
func TestVerifC18FindingStartAboveCeilingFeeFunction(t *testing.T) {
	est := c18FixedEstimator(1000, 253)
	f, err := NewLinearFeeFunction(
		5000, 10, est, fn.Some(chainfee.SatPerKWeight(8000)),
	)
	if err != nil {
		t.Fatalf("creation: %v", err)
	}
	first := f.FeeRate()
	_, err = f.Increment()
	if err != nil {
		t.Fatalf("increment: %v", err)
	}
	second := f.FeeRate()
	t.Logf("maxFeeRate=5000 confTarget=10 start=Some(8000): "+
		"FeeRate()=%d, after Increment %d, deltaFeeRate=%d msat/kw",
		first, second, uint64(f.deltaFeeRate))
	if first > 5000 {
		t.Errorf("cap: FeeRate()=%d above endingFeeRate 5000", first)
	}
	if second < first {
		t.Errorf("monotone: rate decreased %d -> %d", first, second)
	}
}

// F2, publisher level: BumpRequest.StartingFeeRate above MaxFeeRate (e.g.
// `lncli wallet bumpfee --sat_per_vbyte 1200` with the default
// sweeper.maxfeerate=1000, or --conf_target when the estimator answers above
// the maximum: walletrpc does not clamp either) and a budget that can pay it:
// the sweep is published above the configured maximum fee rate.
func TestVerifC18FindingStartAboveCeiling(t *testing.T) {
	const (
		height  = int32(800_000)
		maxRate = int64(250_000) // 1000 sat/vb, the default
		start   = int64(300_000) // 1200 sat/vb
	)
	h := newC18Harness(c18FixedEstimator(2500, 253), height, false)
	r := c18NewReq("f2", []*c18Input{c18ToLocal(1, 1_000_000)},
		500_000, maxRate, height+10)
	r.hasStart, r.start = true, start
	h.broadcast(r)
	if err := h.drain(true); err != nil {
		t.Fatalf("%v", err)
	}
	if len(r.pubs) != 1 {
		t.Fatalf("expected one publication, events=%v err=%v", r.events,
			r.lastErr)
	}
	maxFee := c18FeeAt(maxRate, r.weight)
	t.Logf("weight=%d budget=%d MaxFeeRate=%d StartingFeeRate=%d: "+
		"published fee=%d (rate %d sat/kw); fee at MaxFeeRate=%d",
		r.weight, r.budget, maxRate, start, r.pubs[0].fee,
		r.pubs[0].fee*1000/r.weight, maxFee)
	for _, v := range h.wallet.violations {
		t.Errorf("%s", v)
	}

	// One block later the function's rate has dropped to the ceiling.
	var rec *monitorRecord
	h.tp.records.Range(func(_ uint64, m *monitorRecord) bool {
		rec = m
		return false
	})
	before := rec.feeFunction.FeeRate()
	h.beat(height + 1)
	after := rec.feeFunction.FeeRate()
	t.Logf("fee function rate %d -> %d after one block", before, after)
	if after < before {
		t.Errorf("monotone: fee function rate decreased %d -> %d", before,
			after)
	}
}

// F2 through the aggregator without any user input: a starting rate carried
// over by markInputsPublishFailed passes filterInputs (which prices the
// input's own weight only) but is above budget/txWeight of the re-grouped
// set. The fee function starts above its ceiling; the publisher's budget
// check then refuses the tx (no overpayment, the attempt is wasted).
func TestVerifC18FindingStartAboveCeilingAggregator(t *testing.T) {
	const height = int32(800_000)
	est := c18FixedEstimator(2500, 253)
	h := newC18Harness(est, height, false)

	o := &c18Offer{
		m: c18ToLocal(1, 100_000), budget: 5_000, deadline: height + 10,
		start: 15_000, immediate: true,
	}
	o.build()
	agg := NewBudgetAggregator(est, 100, fn.None[AuxSweeper]())
	sets := agg.ClusterInputs(InputsMap{o.m.op: o.si})
	if len(sets) != 1 {
		t.Fatalf("input filtered: own weight %d, starting fee %d, "+
			"budget %d", o.inputWeight(),
			c18FeeAt(o.start, o.inputWeight()), o.budget)
	}
	set := sets[0]
	r := c18NewReq("f2agg", []*c18Input{o.m}, int64(set.Budget()),
		250_000, set.DeadlineHeight())
	r.hasStart = true
	r.start = int64(set.StartingFeeRate().UnwrapOr(0))
	ceiling := c18BudgetRateFloor(r.budget, r.weight)
	t.Logf("set budget=%d txWeight=%d ceiling=%d sat/kw, set starting "+
		"rate=%d sat/kw (passes filterInputs: %d*%d/1000=%d <= %d)",
		r.budget, r.weight, ceiling, r.start, o.start, o.inputWeight(),
		c18FeeAt(o.start, o.inputWeight()), o.budget)

	h.broadcast(r)
	if err := h.drain(false); err != nil {
		t.Fatalf("%v", err)
	}
	t.Logf("events=%v err=%v publications=%d", r.events, r.lastErr,
		len(r.pubs))
	if r.start > ceiling {
		t.Errorf("a starting rate %d above the set's ceiling %d reached "+
			"NewLinearFeeFunction (result: %v)", r.start, ceiling,
			r.lastErr)
	}
}

// F8: MaxFeeRateAllowed uses chainfee.NewSatPerKWeight, which rounds
// budget*1000/weight to NEAREST. For weights above 2000 wu the rounded-up
// rate times the weight can exceed the budget, so the tx at the ceiling is
// refused by the publisher's own budget check: a sweep first offered <= 1
// block before its deadline is never published, and a ramping sweep never
// makes its last step, although a transaction paying (up to) the budget
// exists.
func TestVerifC18FindingBudgetRateRoundedUp(t *testing.T) {
	const (
		height  = int32(800_000)
		maxRate = int64(250_000)
	)
	// Six HTLC outputs claimed from the remote commitment.
	var ins []*c18Input
	for i := 0; i < 6; i++ {
		m := &c18Input{kind: c18Kinds[9], value: 50_000}
		c18BuildInput(m, i+1)
		ins = append(ins, m)
	}
	w, _ := c18Weight(ins, c18P2TR.pk)
	budget := int64(60_000)
	for i := 0; !c18RoundedUpOverBudget(budget, w, maxRate); i++ {
		if i > 1000 {
			t.Fatalf("no budget found for weight %d", w)
		}
		budget++
	}

	h := newC18Harness(c18FixedEstimator(2500, 253), height, false)
	r := c18NewReq("f8", ins, budget, maxRate, height+1)
	h.broadcast(r)
	if err := h.drain(false); err != nil {
		t.Fatalf("%v", err)
	}
	exact := c18BudgetRateFloor(budget, w)
	t.Logf("weight=%d budget=%d: budget/weight=%d.%03d sat/kw, fee at "+
		"%d sat/kw = %d <= budget, fee at %d sat/kw = %d > budget",
		w, budget, exact, budget*1_000_000/w%1000, exact,
		c18FeeAt(exact, w), exact+1, c18FeeAt(exact+1, w))
	t.Logf("deadline in 1 block: events=%v err=%v publications=%d",
		r.events, r.lastErr, len(r.pubs))
	if len(r.pubs) == 0 && errors.Is(r.lastErr, ErrNotEnoughBudget) {
		t.Errorf("no sweep published one block before the deadline: %v",
			r.lastErr)
	}
}

// TestVerifC18RefWeight pins the harness' own BIP-141 weight reference
// (c18Weight) and dust limits to the figures published by package input /
// lnwallet (not by package sweep), for every input kind and change script of
// the generator. It is part of the job table: if it fails the harness, not
// lnd, needs attention.
func TestVerifC18RefWeight(t *testing.T) {
	for _, ch := range c18Change {
		if got, want := c18DustLimit(ch.pk),
			int64(lnwallet.DustLimitForSize(len(ch.pk))); got != want {

			t.Fatalf("dust limit %s: %d, lnwallet says %d", ch.name,
				got, want)
		}
		for n := 1; n <= 3; n++ {
			for ki, k := range c18Kinds {
				var (
					ins []*c18Input
					twe input.TxWeightEstimator
				)
				for i := 0; i < n; i++ {
					m := &c18Input{
						kind: k, value: 10_000, reqValue: 10_000,
						reqPk: c18P2WSH.pk,
					}
					c18BuildInput(m, ki*8+i)
					ins = append(ins, m)
					if err := k.wt.AddWeightEstimation(&twe); err != nil {
						t.Fatalf("%s: %v", k.name, err)
					}
					if k.reqOut {
						twe.AddTxOutput(m.inp.RequiredTxOut())
					}
				}
				twe.AddOutput(ch.pk)
				got, err := c18Weight(ins, ch.pk)
				if err != nil {
					t.Fatalf("%s: %v", k.name, err)
				}
				if got != int64(twe.Weight()) {
					t.Fatalf("%d x %s -> %s: reference weight %d, "+
						"input.TxWeightEstimator %d", n, k.name,
						ch.name, got, twe.Weight())
				}

				// Aux mode: one more P2TR output (the aux sweeper's
				// extra output) is c18ExtraOutWeight.
				twe.AddOutput(c18ExtraPk)
				if got+c18ExtraOutWeight != int64(twe.Weight()) {
					t.Fatalf("%d x %s -> %s + extra output: "+
						"reference weight %d, "+
						"input.TxWeightEstimator %d", n, k.name,
						ch.name, got+c18ExtraOutWeight,
						twe.Weight())
				}
			}
		}
	}
}
