//go:build verif

package sweep

// C18 shared pieces: stub estimator / signer / wallet / notifier, the input
// table (real input.Input implementations from package input), and the
// reference computations (weight, dust limit, fee at a rate) that the oracles
// use. Everything the oracle relies on is computed from the *generated model*
// with plain integer arithmetic; nothing is read back from sweep's own
// weightEstimator or fee function.

import (
	"errors"
	"fmt"
	"math/big"
	"sync"

	"github.com/btcsuite/btcd/btcec/v2"
	"github.com/btcsuite/btcd/btcutil/v2"
	"github.com/btcsuite/btcd/chainhash/v2"
	"github.com/btcsuite/btcd/txscript/v2"
	"github.com/btcsuite/btcd/wire/v2"
	"github.com/lightningnetwork/lnd/chainntnfs"
	"github.com/lightningnetwork/lnd/fn/v2"
	"github.com/lightningnetwork/lnd/input"
	"github.com/lightningnetwork/lnd/internal/verif/vstats"
	"github.com/lightningnetwork/lnd/keychain"
	"github.com/lightningnetwork/lnd/lntypes"
	"github.com/lightningnetwork/lnd/lnwallet"
	"github.com/lightningnetwork/lnd/lnwallet/chainfee"
	"github.com/lightningnetwork/lnd/tlv"
	"pgregory.net/rapid"
)

// c18KeyStartAboveCeiling is the known-finding key for F2: a caller-supplied
// (or carried-over) starting fee rate above the fee function's ceiling.
const c18KeyStartAboveCeiling = "C18:start-above-ceiling"

// c18KeyBudgetRateRoundedUp is the known-finding key for the budget ceiling
// being rounded to nearest: at the ceiling rate the fee can exceed the budget
// and the final bump (or a first broadcast <=1 block before the deadline)
// fails with ErrNotEnoughBudget instead of paying the budget.
const c18KeyBudgetRateRoundedUp = "C18:budget-rate-rounded-up"

// c18Known reports whether a finding is listed as known, in which case its
// input class is excluded by construction (and counted); otherwise the class
// is generated and the oracle asserts on it, so a repair re-enables it.
func c18Known(key string) bool {
	return vstats.IsKnown(key)
}

func c18F2Known() bool { return c18Known(c18KeyStartAboveCeiling) }

// c18RoundedUpOverBudget reports whether the budget ceiling as computed by
// chainfee.NewSatPerKWeight (round to nearest) is the binding one and yields a
// fee above the budget.
func c18RoundedUpOverBudget(budget, weight, maxRate int64) bool {
	// round-half-up(budget*1000/weight)
	v := new(big.Int).Mul(big.NewInt(budget), big.NewInt(2000))
	v.Add(v, big.NewInt(weight))
	v.Quo(v, big.NewInt(2*weight))
	if !v.IsInt64() || v.Int64() > maxRate {
		return false
	}

	return c18FeeAt(v.Int64(), weight) > budget
}

// ---------------------------------------------------------------------------
// Stub estimator.

var errC18Estimator = errors.New("c18: estimator unavailable")

// c18Estimator answers EstimateFeePerKW from a generated table keyed by the
// conf target (so the answer is a pure function of the question).
type c18Estimator struct {
	relay chainfee.SatPerKWeight
	// answer returns the generated estimate for a conf target.
	answer func(ct uint32) (chainfee.SatPerKWeight, error)
}

func (e *c18Estimator) EstimateFeePerKW(n uint32) (chainfee.SatPerKWeight,
	error) {

	return e.answer(n)
}
func (e *c18Estimator) Start() error                          { return nil }
func (e *c18Estimator) Stop() error                           { return nil }
func (e *c18Estimator) RelayFeePerKW() chainfee.SatPerKWeight { return e.relay }

// c18EstMode is how the generated estimator behaves.
type c18EstMode struct {
	kind string // "fixed", "slope", "error", "below_relay", "above_max", "mixed"
	base int64
	// mixed: per conf target residue class behaviour.
	mix []int
}

// c18DrawEstimator draws an estimator whose answers cover the classes of the
// quantifier: sane, below relay, above the ceiling, erroring.
func c18DrawEstimator(t *rapid.T, relay, maxRate int64) (*c18Estimator,
	string) {

	kind := rapid.SampledFrom([]string{
		"fixed", "fixed", "fixed", "slope", "slope", "error",
		"below_relay", "above_max", "mixed", "at_relay",
	}).Draw(t, "estKind")

	hi := maxRate
	if hi < relay {
		hi = relay
	}
	base := rapid.Int64Range(relay, hi).Draw(t, "estBase")
	// Make low answers frequent: real estimates are far below budgets.
	if rapid.IntRange(0, 3).Draw(t, "estLow") != 3 {
		span := (hi - relay) / 50
		base = relay + rapid.Int64Range(0, span).Draw(t, "estBaseLow")
	}
	mix := make([]int, 5)
	if kind == "mixed" {
		for i := range mix {
			mix[i] = rapid.IntRange(0, 3).Draw(t, "estMix")
		}
	}
	above := maxRate + rapid.Int64Range(1, maxRate+1000).Draw(t, "estAbove")
	below := rapid.Int64Range(0, relay-1).Draw(t, "estBelow")

	fixed := func(ct uint32) int64 { return base }
	slope := func(ct uint32) int64 {
		// Cheaper for far targets, never below relay.
		v := base - int64(ct)*(base-relay)/1100
		if v < relay {
			v = relay
		}

		return v
	}

	e := &c18Estimator{relay: chainfee.SatPerKWeight(relay)}
	e.answer = func(ct uint32) (chainfee.SatPerKWeight, error) {
		switch kind {
		case "fixed":
			return chainfee.SatPerKWeight(fixed(ct)), nil
		case "slope":
			return chainfee.SatPerKWeight(slope(ct)), nil
		case "error":
			return 0, errC18Estimator
		case "below_relay":
			return chainfee.SatPerKWeight(below), nil
		case "above_max":
			return chainfee.SatPerKWeight(above), nil
		case "at_relay":
			return chainfee.SatPerKWeight(relay), nil
		default:
			switch mix[int(ct)%len(mix)] {
			case 0:
				return chainfee.SatPerKWeight(slope(ct)), nil
			case 1:
				return 0, errC18Estimator
			case 2:
				return chainfee.SatPerKWeight(above), nil
			default:
				return chainfee.SatPerKWeight(below), nil
			}
		}
	}

	return e, kind
}

// c18ExpectedStart is the reference for the starting rate of a fee function
// created without an explicit starting rate: the estimator's answer for the
// conf target, rejected below the relay fee, clamped to the ceiling; the
// relay fee itself for targets at or beyond chainfee.MaxBlockTarget.
// ok=false means creation must fail.
func c18ExpectedStart(e *c18Estimator, end int64, ct uint32) (int64, bool) {
	if ct >= 1008 {
		return int64(e.relay), true
	}
	r, err := e.answer(ct)
	if err != nil {
		return 0, false
	}
	if int64(r) < int64(e.relay) {
		return 0, false
	}
	if end != 0 && int64(r) > end {
		return end, true
	}

	return int64(r), true
}

// ---------------------------------------------------------------------------
// Stub signer: fixed-size dummy signatures, witnesses shaped like real ones.

type c18Sig []byte

func (s c18Sig) Serialize() []byte                    { return []byte(s) }
func (s c18Sig) Verify([]byte, *btcec.PublicKey) bool { return true }

type c18Signer struct {
	// Embedded nil interface: the MuSig2 methods are never called by the
	// sweeper for the witness types used here.
	input.Signer
}

var (
	c18EcdsaSig   = c18Sig(make([]byte, 72))
	c18SchnorrSig = c18Sig(make([]byte, 64))
)

func (c18Signer) SignOutputRaw(_ *wire.MsgTx,
	d *input.SignDescriptor) (input.Signature, error) {

	if txscript.IsPayToTaproot(d.Output.PkScript) {
		return c18SchnorrSig, nil
	}

	return c18EcdsaSig, nil
}

func (c18Signer) ComputeInputScript(_ *wire.MsgTx,
	d *input.SignDescriptor) (*input.Script, error) {

	pk := d.Output.PkScript
	switch {
	case txscript.IsPayToTaproot(pk):
		return &input.Script{
			Witness: wire.TxWitness{make([]byte, 64)},
		}, nil

	case txscript.IsPayToWitnessPubKeyHash(pk):
		return &input.Script{
			Witness: wire.TxWitness{
				make([]byte, 73), make([]byte, 33),
			},
		}, nil

	case txscript.IsPayToScriptHash(pk):
		return &input.Script{
			Witness: wire.TxWitness{
				make([]byte, 73), make([]byte, 33),
			},
			SigScript: make([]byte, 23),
		}, nil
	}

	return nil, fmt.Errorf("c18 signer: unexpected pkScript %x", pk)
}

// ---------------------------------------------------------------------------
// Stub notifier: spends are registered by the test, reads are non-blocking.

type c18Notifier struct {
	mu     sync.Mutex
	spends map[wire.OutPoint]*wire.MsgTx
}

func newC18Notifier() *c18Notifier {
	return &c18Notifier{spends: make(map[wire.OutPoint]*wire.MsgTx)}
}

func (n *c18Notifier) setSpend(op wire.OutPoint, tx *wire.MsgTx) {
	n.mu.Lock()
	n.spends[op] = tx
	n.mu.Unlock()
}

func (n *c18Notifier) RegisterConfirmationsNtfn(*chainhash.Hash, []byte,
	uint32, uint32,
	...chainntnfs.NotifierOption) (*chainntnfs.ConfirmationEvent, error) {

	return nil, errors.New("c18: not used")
}

func (n *c18Notifier) RegisterSpendNtfn(op *wire.OutPoint, _ []byte,
	_ uint32) (*chainntnfs.SpendEvent, error) {

	ch := make(chan *chainntnfs.SpendDetail, 1)
	n.mu.Lock()
	tx, ok := n.spends[*op]
	n.mu.Unlock()
	if ok {
		h := tx.TxHash()
		ch <- &chainntnfs.SpendDetail{
			SpentOutPoint: op,
			SpenderTxHash: &h,
			SpendingTx:    tx,
		}
	}

	return &chainntnfs.SpendEvent{Spend: ch, Cancel: func() {}}, nil
}

func (n *c18Notifier) RegisterBlockEpochNtfn(
	*chainntnfs.BlockEpoch) (*chainntnfs.BlockEpochEvent, error) {

	return nil, errors.New("c18: not used")
}
func (n *c18Notifier) Start() error  { return nil }
func (n *c18Notifier) Started() bool { return true }
func (n *c18Notifier) Stop() error   { return nil }

// ---------------------------------------------------------------------------
// Change scripts.

type c18Script struct {
	name string
	pk   []byte
}

func c18MkScript(prefix []byte, n int, suffix ...byte) []byte {
	out := append([]byte{}, prefix...)
	for i := 0; i < n; i++ {
		out = append(out, byte(0x11+i))
	}

	return append(out, suffix...)
}

var (
	c18P2TR   = c18Script{"p2tr", c18MkScript([]byte{0x51, 0x20}, 32)}
	c18P2WSH  = c18Script{"p2wsh", c18MkScript([]byte{0x00, 0x20}, 32)}
	c18P2WKH  = c18Script{"p2wkh", c18MkScript([]byte{0x00, 0x14}, 20)}
	c18P2SH   = c18Script{"p2sh", c18MkScript([]byte{0xa9, 0x14}, 20, 0x87)}
	c18P2PKH  = c18Script{"p2pkh", c18MkScript([]byte{0x76, 0xa9, 0x14}, 20, 0x88, 0xac)}
	c18Change = []c18Script{
		c18P2TR, c18P2TR, c18P2TR, c18P2WKH, c18P2WKH, c18P2WSH,
		c18P2SH, c18P2PKH,
	}
)

// c18DustLimit is Bitcoin Core's dust threshold at the default 3000 sat/kvB
// dust relay fee: 3 * (serialized output size + size of the input spending
// it), where the spending input is 67 bytes for witness programs and 148
// bytes otherwise.
func c18DustLimit(pk []byte) int64 {
	outSize := int64(8 + wire.VarIntSerializeSize(uint64(len(pk))) + len(pk))
	isWitness := len(pk) >= 4 && len(pk) <= 42 &&
		(pk[0] == 0x00 || (pk[0] >= 0x51 && pk[0] <= 0x60)) &&
		int(pk[1]) == len(pk)-2
	if isWitness {
		return 3 * (outSize + 67)
	}

	return 3 * (outSize + 148)
}

// ---------------------------------------------------------------------------
// Input table.

// c18InputKind describes one way of building a real input.Input.
type c18InputKind struct {
	name    string
	wt      input.StandardWitnessType
	pk      []byte // pkScript of the spent output
	scrLen  int    // witness script length to put in the sign descriptor
	csv     bool   // has a relative lock
	cltv    bool   // commits to an absolute locktime (BaseInput cltvExpiry)
	reqOut  bool   // second-level anchor input: commits to a required output
	succeed bool   // HtlcSucceedInput
	wallet  bool   // wallet utxo (height hint 0)
	// second level flavour for reqOut kinds.
	secondSuccess bool
}

var c18Kinds = []c18InputKind{
	{name: "wallet_p2wkh", wt: input.WitnessKeyHash, pk: c18P2WKH.pk, wallet: true},
	{name: "wallet_p2tr", wt: input.TaprootPubKeySpend, pk: c18P2TR.pk, wallet: true},
	{name: "wallet_np2wkh", wt: input.NestedWitnessKeyHash, pk: c18P2SH.pk, wallet: true},
	{name: "to_local", wt: input.CommitmentTimeLock, pk: c18P2WSH.pk, scrLen: 79, csv: true},
	{name: "to_remote_legacy", wt: input.CommitmentNoDelay, pk: c18P2WKH.pk},
	{name: "to_remote_tweakless", wt: input.CommitSpendNoDelayTweakless, pk: c18P2WKH.pk},
	{name: "to_remote_confirmed", wt: input.CommitmentToRemoteConfirmed, pk: c18P2WSH.pk, scrLen: 37, csv: true},
	{name: "anchor", wt: input.CommitmentAnchor, pk: c18P2WSH.pk, scrLen: 40},
	{name: "htlc_offered_remote_timeout", wt: input.HtlcOfferedRemoteTimeout, pk: c18P2WSH.pk, scrLen: 140, cltv: true},
	{name: "htlc_accepted_remote_success", wt: input.HtlcAcceptedRemoteSuccess, pk: c18P2WSH.pk, scrLen: 133, succeed: true},
	{name: "htlc_second_level_csv", wt: input.HtlcOfferedTimeoutSecondLevel, pk: c18P2WSH.pk, scrLen: 79, csv: true},
	{name: "commitment_revoke", wt: input.CommitmentRevoke, pk: c18P2WSH.pk, scrLen: 79},
	{name: "second_level_timeout_anchor", wt: input.HtlcOfferedTimeoutSecondLevelInputConfirmed, pk: c18P2WSH.pk, scrLen: 136, reqOut: true},
	{name: "second_level_success_anchor", wt: input.HtlcAcceptedSuccessSecondLevelInputConfirmed, pk: c18P2WSH.pk, scrLen: 143, reqOut: true, secondSuccess: true},
}

// c18Input is the generated model of one input together with the real
// input.Input built from it.
type c18Input struct {
	kind     c18InputKind
	op       wire.OutPoint
	value    int64
	csvDelay uint32
	// lockTime is the absolute locktime the input commits to, if hasLock.
	lockTime uint32
	hasLock  bool
	// reqValue/reqPk describe the required output, if kind.reqOut.
	reqValue int64
	reqPk    []byte

	// parent: the input is the anchor of a still unconfirmed commitment
	// transaction (CPFP) and carries that parent's fee and weight, as
	// contractcourt's anchor resolver sets it. The budget, the maximum fee
	// rate and the reported fee rate of a sweep speak about the sweep
	// transaction itself, so nothing in the oracle depends on it; a
	// publisher that prices the parent in (seeded change C18e) overshoots
	// them.
	parent *input.TxInfo

	// blob: the input is an output of a custom (overlay) channel and
	// carries a non-empty resolution blob (input.ResolutionBlob), which is
	// what makes an AuxSweeper add its extra output to the sweep. Only
	// generated when the case runs with a harness aux sweeper.
	blob bool

	inp input.Input
}

// blobEligible: wallet utxos and anchors never belong to the custom channel's
// asset outputs, so they never carry a blob (they are what makes a MIXED set).
func (m *c18Input) blobEligible() bool {
	return !m.kind.wallet && m.kind.name != "anchor"
}

func (m *c18Input) sequence() uint32 {
	if m.kind.reqOut {
		return 1
	}

	return m.csvDelay
}

var (
	c18PrivKey, c18PubKey = btcec.PrivKeyFromBytes([]byte{
		0x2b, 0xd8, 0x06, 0xc9, 0x7f, 0x0e, 0x00, 0xaf,
		0x1a, 0x1f, 0xc3, 0x32, 0x8f, 0xa7, 0x63, 0xa9,
		0x26, 0x97, 0x23, 0xc8, 0xdb, 0x8f, 0xac, 0x4f,
		0x93, 0xaf, 0x71, 0xdb, 0x18, 0x6d, 0x6e, 0x90,
	})
	_ = c18PrivKey
)

// c18BuildInput builds the real input for a model. serial makes the outpoint
// unique within the case.
func c18BuildInput(m *c18Input, serial int) {
	var h chainhash.Hash
	h[0] = 0xc1
	h[1] = 0x08
	h[30] = byte(serial >> 8)
	h[31] = byte(serial)
	m.op = wire.OutPoint{Hash: h, Index: uint32(serial % 3)}

	desc := &input.SignDescriptor{
		KeyDesc: keychain.KeyDescriptor{PubKey: c18PubKey},
		Output: &wire.TxOut{
			Value:    m.value,
			PkScript: m.kind.pk,
		},
		HashType:      txscript.SigHashAll,
		WitnessScript: make([]byte, m.kind.scrLen),
		SingleTweak:   make([]byte, 32),
	}
	desc.SingleTweak[31] = 1
	heightHint := uint32(90)

	var opts []input.InputOpt
	if m.blob {
		opts = append(opts, input.WithResolutionBlob(fn.Some(tlv.Blob{
			0xc1, 0x8a, byte(serial >> 8), byte(serial),
		})))
	}

	switch {
	case m.kind.wallet:
		if m.kind.wt == input.TaprootPubKeySpend {
			desc.HashType = txscript.SigHashDefault
		}
		m.inp = input.NewBaseInput(&m.op, m.kind.wt, desc, 0, opts...)

	case m.kind.reqOut:
		signed := wire.NewMsgTx(2)
		signed.AddTxIn(&wire.TxIn{PreviousOutPoint: m.op})
		signed.AddTxOut(&wire.TxOut{
			Value: m.reqValue, PkScript: m.reqPk,
		})
		signed.LockTime = m.lockTime
		details := &input.SignDetails{
			SignDesc:    *desc,
			PeerSig:     c18EcdsaSig,
			SigHashType: txscript.SigHashSingle | txscript.SigHashAnyOneCanPay,
		}
		if m.kind.secondSuccess {
			v := input.MakeHtlcSecondLevelSuccessAnchorInput(
				signed, details, [32]byte{1}, heightHint,
				opts...,
			)
			m.inp = &v
		} else {
			v := input.MakeHtlcSecondLevelTimeoutAnchorInput(
				signed, details, heightHint, opts...,
			)
			m.inp = &v
		}

	case m.kind.succeed:
		v := input.MakeHtlcSucceedInput(
			&m.op, desc, make([]byte, 32), heightHint, m.csvDelay,
			opts...,
		)
		m.inp = &v

	case m.kind.cltv:
		m.inp = input.NewCsvInputWithCltv(
			&m.op, m.kind.wt, desc, heightHint, m.csvDelay,
			m.lockTime, opts...,
		)

	case m.parent != nil:
		v := input.MakeBaseInput(
			&m.op, m.kind.wt, desc, heightHint, m.parent, opts...,
		)
		m.inp = &v

	default:
		m.inp = input.NewCsvInput(
			&m.op, m.kind.wt, desc, heightHint, m.csvDelay, opts...,
		)
	}
}

// c18DrawValue draws an input value with emphasis on the dust / fee scale.
func c18DrawValue(t *rapid.T, label string) int64 {
	// rapid biases small integers, so the common classes come first.
	switch rapid.IntRange(0, 9).Draw(t, label+"Class") {
	case 0, 1, 2, 3:
		return rapid.Int64Range(20_000, 2_000_000).Draw(t, label)
	case 4, 5:
		return rapid.Int64Range(1000, 20_000).Draw(t, label)
	case 6, 7:
		return rapid.Int64Range(2_000_000, 500_000_000).Draw(t, label)
	case 8:
		return rapid.Int64Range(200, 1200).Draw(t, label)
	default:
		return 330
	}
}

// c18DrawInput draws one input model. height is the height at which the
// sweep starts (locktimes are drawn around it).
//
// lockMode 0: every locktime-bearing input commits to sharedLock and the
// second-level success kind (locktime 0) is left out, so the inputs can share a
// transaction; 1: the only locktime-bearing kind is second-level success;
// 2: anything goes (conflicting and immature locktimes included).
func c18DrawInput(t *rapid.T, height int32, allowReq bool, lockMode int,
	sharedLock uint32) *c18Input {

	var kinds []c18InputKind
	for _, k := range c18Kinds {
		switch {
		case k.reqOut && !allowReq:
		case lockMode == 0 && k.secondSuccess:
		case lockMode == 1 && (k.cltv || (k.reqOut && !k.secondSuccess)):
		default:
			kinds = append(kinds, k)
		}
	}
	matureOnly := lockMode != 2
	k := rapid.SampledFrom(kinds).Draw(t, "kind")
	m := &c18Input{kind: k}
	m.value = c18DrawValue(t, "value")
	if k.name == "anchor" && rapid.IntRange(0, 3).Draw(t, "anchor330") != 0 {
		m.value = 330
	}
	if k.name == "anchor" && rapid.Bool().Draw(t, "anchorCPFP") {
		// Unconfirmed parent: a commitment transaction of 600..2500 wu
		// paying anything from nothing (zero-fee commitments) to a rate
		// above the sweep's.
		w := rapid.Int64Range(600, 2500).Draw(t, "parentWeight")
		m.parent = &input.TxInfo{
			Weight: lntypes.WeightUnit(w),
			Fee: btcutil.Amount(rapid.Int64Range(0, 30).Draw(t,
				"parentRate") * w / 4),
		}
	}
	if k.csv {
		m.csvDelay = uint32(rapid.IntRange(1, 2016).Draw(t, "csv"))
	}
	if k.name == "to_remote_confirmed" {
		m.csvDelay = 1
	}

	drawLock := func() uint32 {
		// Mostly the lock shared by the case (so that inputs can be
		// combined), sometimes another mature one, rarely immature.
		if lockMode == 0 {
			return sharedLock
		}
		c := rapid.IntRange(0, 19).Draw(t, "lockClass")
		switch {
		case c < 10:
			return sharedLock
		case c < 18 || matureOnly:
			return uint32(rapid.Int32Range(1, height).Draw(t, "lockMature"))
		default:
			return uint32(height + rapid.Int32Range(1, 20).Draw(t, "lockImmature"))
		}
	}
	if k.cltv {
		m.lockTime, m.hasLock = drawLock(), true
	}
	if k.reqOut {
		m.hasLock = true
		if k.secondSuccess {
			m.lockTime = 0
		} else {
			m.lockTime = drawLock()
		}
		// The second-level tx pays (almost) the whole HTLC value to the
		// required output.
		m.reqPk = c18P2WSH.pk
		m.reqValue = m.value
		if rapid.Bool().Draw(t, "reqLess") {
			m.reqValue -= rapid.Int64Range(0, m.value/10).Draw(t, "reqFee")
		}
	}

	return m
}

// ---------------------------------------------------------------------------
// Reference computations.

// c18Weight is the upper-bound weight of a transaction spending the given
// inputs to their required outputs plus one change output with the given
// script, per BIP-141: 4 * stripped size + witness size, with the per witness
// type upper bounds published by package input.
func c18Weight(ins []*c18Input, changePk []byte) (int64, error) {
	nOut := 1
	outSize := int64(8 + wire.VarIntSerializeSize(uint64(len(changePk))) +
		len(changePk))
	var inSize, witSize int64
	for _, m := range ins {
		w, nested, err := m.kind.wt.SizeUpperBound()
		if err != nil {
			return 0, err
		}
		inSize += 32 + 4 + 1 + 4
		if nested {
			// input.AddWeightEstimation prices every nested P2SH
			// spend as P2SH-P2WSH (35-byte sigScript push), also the
			// 23-byte P2SH-P2WKH one: an upper bound.
			inSize += 35
		}
		witSize += int64(w)
		if m.kind.reqOut {
			nOut++
			outSize += int64(8 + wire.VarIntSerializeSize(
				uint64(len(m.reqPk))) + len(m.reqPk))
		}
	}
	stripped := int64(4+4) +
		int64(wire.VarIntSerializeSize(uint64(len(ins)))) + inSize +
		int64(wire.VarIntSerializeSize(uint64(nOut))) + outSize

	// All kinds in the table are witness spends.
	return stripped*4 + 2 + witSize, nil
}

// c18FeeAt is floor(rate * weight / 1000) (BOLT-3 rounding).
func c18FeeAt(rate, weight int64) int64 {
	v := new(big.Int).Mul(big.NewInt(rate), big.NewInt(weight))
	v.Quo(v, big.NewInt(1000))
	if !v.IsInt64() {
		return int64(^uint64(0) >> 1)
	}

	return v.Int64()
}

// c18BudgetRateFloor is floor(budget * 1000 / weight): the largest integer
// rate whose fee does not exceed the budget is at least this.
func c18BudgetRateFloor(budget, weight int64) int64 {
	v := new(big.Int).Mul(big.NewInt(budget), big.NewInt(1000))
	v.Quo(v, big.NewInt(weight))
	if !v.IsInt64() {
		return int64(^uint64(0) >> 1)
	}

	return v.Int64()
}

// c18BudgetRateCeil is ceil(budget * 1000 / weight).
func c18BudgetRateCeil(budget, weight int64) int64 {
	v := new(big.Int).Mul(big.NewInt(budget), big.NewInt(1000))
	v.Add(v, big.NewInt(weight-1))
	v.Quo(v, big.NewInt(weight))
	if !v.IsInt64() {
		return int64(^uint64(0) >> 1)
	}

	return v.Int64()
}

func c18Min(a, b int64) int64 {
	if a < b {
		return a
	}

	return b
}

func c18Max(a, b int64) int64 {
	if a > b {
		return a
	}

	return b
}

// c18Delivery wraps a change script.
func c18Delivery(s c18Script) lnwallet.AddrWithKey {
	return lnwallet.AddrWithKey{DeliveryAddress: s.pk}
}

var _ = btcutil.Amount(0)

// ---------------------------------------------------------------------------
// Harness aux sweeper (custom / overlay channels).

// c18ExtraPk is the P2TR script the harness aux sweeper sends its extra output
// to (different from every change script of the table).
var c18ExtraPk = func() []byte {
	pk := []byte{0x51, 0x20}
	for i := 0; i < 32; i++ {
		pk = append(pk, byte(0xa0+i))
	}

	return pk
}()

// c18ExtraOutWeight is what one more P2TR output adds to a transaction:
// (8 value + 1 script length + 34 script) non-witness bytes * 4. (The output
// count stays a one-byte varint: at most 26 outputs are generated.)
const c18ExtraOutWeight = int64((8 + 1 + 34) * 4)

// c18AuxFact is what the generator decided about one outpoint.
type c18AuxFact struct {
	// blob: the input carries a resolution blob.
	blob bool
	// extraVal is the value of the extra output of the request / set the
	// input was generated for.
	extraVal int64
	// extraBudget is this input's additive share of ExtraBudgetForInputs.
	extraBudget int64
}

// c18AuxNote is one NotifyBroadcast call.
type c18AuxNote struct {
	fee      int64
	hasExtra bool
	extra    wire.TxOut
	isExtra  bool
	idx      map[wire.OutPoint]int
}

// c18Aux is an AuxSweeper that follows the documented contract of the
// interface (sweep/interface.go) and answers from the generated facts only:
//   - DeriveSweepAddr: one extra P2TR output (IsExtra) exactly when at least
//     one of the passed inputs carries a resolution blob, else "no output",
//     which prepareSweepTx reads off the Result as err == nil and
//     LeftToSome() == None, i.e. fn.Err[SweepOutput](nil);
//   - ExtraBudgetForInputs: non-negative, additive across inputs;
//   - NotifyBroadcast: records what it was told.
type c18Aux struct {
	mu          sync.Mutex
	facts       map[wire.OutPoint]c18AuxFact
	notes       map[chainhash.Hash]c18AuxNote
	deriveCalls int
	budgetCalls int
	violations  []string
}

func newC18Aux() *c18Aux {
	return &c18Aux{
		facts: make(map[wire.OutPoint]c18AuxFact),
		notes: make(map[chainhash.Hash]c18AuxNote),
	}
}

func (a *c18Aux) setFact(op wire.OutPoint, f c18AuxFact) {
	a.mu.Lock()
	a.facts[op] = f
	a.mu.Unlock()
}

func (a *c18Aux) DeriveSweepAddr(inputs []input.Input,
	_ lnwallet.AddrWithKey) fn.Result[SweepOutput] {

	a.mu.Lock()
	defer a.mu.Unlock()

	a.deriveCalls++
	for _, in := range inputs {
		f := a.facts[in.OutPoint()]
		if !f.blob {
			continue
		}

		return fn.Ok(SweepOutput{
			TxOut: wire.TxOut{
				Value:    f.extraVal,
				PkScript: append([]byte{}, c18ExtraPk...),
			},
			IsExtra: true,
			InternalKey: fn.Some(keychain.KeyDescriptor{
				PubKey: c18PubKey,
			}),
		})
	}

	return fn.Err[SweepOutput](nil)
}

func (a *c18Aux) ExtraBudgetForInputs(
	inputs []input.Input) fn.Result[btcutil.Amount] {

	a.mu.Lock()
	defer a.mu.Unlock()

	a.budgetCalls++
	var sum int64
	for _, in := range inputs {
		f := a.facts[in.OutPoint()]
		if f.blob {
			sum += f.extraBudget
		}
	}

	return fn.Ok(btcutil.Amount(sum))
}

func (a *c18Aux) NotifyBroadcast(req *BumpRequest, tx *wire.MsgTx,
	totalFees btcutil.Amount, idx map[wire.OutPoint]int) error {

	a.mu.Lock()
	defer a.mu.Unlock()

	n := c18AuxNote{
		fee: int64(totalFees), idx: make(map[wire.OutPoint]int, len(idx)),
	}
	for k, v := range idx {
		n.idx[k] = v
	}
	req.ExtraTxOut.WhenSome(func(o SweepOutput) {
		n.hasExtra = true
		n.extra = wire.TxOut{
			Value:    o.Value,
			PkScript: append([]byte{}, o.PkScript...),
		}
		n.isExtra = o.IsExtra
	})
	a.notes[tx.TxHash()] = n

	return nil
}

// take returns the notification recorded for a transaction.
func (a *c18Aux) take(h chainhash.Hash) (c18AuxNote, bool) {
	a.mu.Lock()
	defer a.mu.Unlock()

	n, ok := a.notes[h]

	return n, ok
}
