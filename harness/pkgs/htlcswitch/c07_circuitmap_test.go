//go:build verif

package htlcswitch

// C07 part 1: rapid state machine over the real circuit map (NewCircuitMap on
// a real bbolt file) against the reference model of c07_model_test.go, plus
// the model-independent at-most-once history invariant.

import (
	"bytes"
	"errors"
	"fmt"
	"os"
	"sort"
	"strings"
	"testing"

	"github.com/lightningnetwork/lnd/channeldb"
	"github.com/lightningnetwork/lnd/chanstate"
	"github.com/lightningnetwork/lnd/internal/verif/vstats"
	"github.com/lightningnetwork/lnd/kvdb"
	"github.com/lightningnetwork/lnd/lnwire"
	"pgregory.net/rapid"
)

const (
	c07MaxHtlc = 5 // incoming htlc ids 0..5 per channel
)

var c07Hashes = [][32]byte{{1}, {2}, {3}}

func c07Key(ch, id uint64) CircuitKey {
	return CircuitKey{
		ChanID: lnwire.NewShortChanIDFromInt(ch),
		HtlcID: id,
	}
}

func c07KeyStr(k CircuitKey) string {
	return fmt.Sprintf("%d:%d", k.ChanID.ToUint64(), k.HtlcID)
}

// c07History is the model-independent bookkeeping for the at-most-once
// statement: per circuit lifetime exactly one Adds verdict, every other
// presentation is a drop or (only after a restart) a fail; at most one
// close|fail is accepted per lifetime between restarts.
type c07History struct {
	epoch    int
	live     map[CircuitKey]bool
	addEpoch map[CircuitKey]int
	accepted map[CircuitKey]bool
}

func c07NewHistory() *c07History {
	return &c07History{
		live:     make(map[CircuitKey]bool),
		addEpoch: make(map[CircuitKey]int),
		accepted: make(map[CircuitKey]bool),
	}
}

func (h *c07History) onAdd(k CircuitKey) error {
	if h.live[k] {
		return fmt.Errorf("AT-MOST-ONCE: second Adds verdict for %s "+
			"within one circuit lifetime", c07KeyStr(k))
	}
	h.live[k] = true
	h.addEpoch[k] = h.epoch

	return nil
}

func (h *c07History) onDrop(k CircuitKey) error {
	if !h.live[k] {
		return fmt.Errorf("LOST: %s dropped although it never "+
			"received an Adds verdict", c07KeyStr(k))
	}

	return nil
}

func (h *c07History) onFail(k CircuitKey, writeFailed bool) error {
	if writeFailed {
		return nil
	}
	if !h.live[k] {
		return fmt.Errorf("%s failed back although unknown",
			c07KeyStr(k))
	}
	if h.addEpoch[k] == h.epoch {
		return fmt.Errorf("%s failed back without a restart since "+
			"its Adds verdict (packet may still be in a mailbox)",
			c07KeyStr(k))
	}

	return nil
}

func (h *c07History) onResponse(k CircuitKey) error {
	if !h.live[k] {
		return fmt.Errorf("response accepted for %s which never "+
			"received an Adds verdict", c07KeyStr(k))
	}
	if h.accepted[k] {
		return fmt.Errorf("AT-MOST-ONCE: second settle/fail accepted "+
			"for %s", c07KeyStr(k))
	}
	h.accepted[k] = true

	return nil
}

func (h *c07History) onDelete(k CircuitKey) {
	delete(h.live, k)
	delete(h.accepted, k)
	delete(h.addEpoch, k)
}

// c07Harness couples the real map, the model and the history.
type c07Harness struct {
	dir      string
	useBatch bool
	fdb      *c07FaultDB
	cm       *circuitMap
	model    *c07Model
	hist     *c07History

	// next unallocated outgoing htlc id per channel (the links' counters)
	next [c07NumChans + 1]uint64
	// sticky closed channels
	closedChans [c07NumChans + 1]bool

	// evidence
	labels map[string]bool
	ops    []string

	staleHashHits int
}

func (h *c07Harness) label(l string) { h.labels[l] = true }

func (h *c07Harness) logf(format string, a ...any) {
	if len(h.ops) < 80 {
		h.ops = append(h.ops, fmt.Sprintf(format, a...))
	}
}

func (h *c07Harness) backend() kvdb.Backend {
	if h.useBatch {
		return c07FaultBatchDB{h.fdb}
	}

	return h.fdb
}

func c07OpenBolt(dir string) (kvdb.Backend, error) {
	return c07OpenKV(dir, "c07.db")
}

// newMap (re)creates the circuit map on the DB file of the harness.
func (h *c07Harness) newMap(spec *c07RestartSpec) error {
	if h.fdb != nil {
		if err := h.fdb.Backend.Close(); err != nil {
			return fmt.Errorf("close db: %w", err)
		}
	}
	inner, err := c07OpenBolt(h.dir)
	if err != nil {
		return fmt.Errorf("open db: %w", err)
	}
	h.fdb = &c07FaultDB{Backend: inner}
	if spec != nil {
		h.fdb.failAt = spec.failAt
	}

	cfg := &CircuitMapConfig{
		DB: h.backend(),
		FetchAllOpenChannels: func() ([]*chanstate.OpenChannel, error) {
			var chans []*chanstate.OpenChannel
			if spec == nil {
				return chans, nil
			}
			if spec.zeroOpen {
				chans = append(chans, c07OpenChan(0, false, 0, false))
			}
			for c := 1; c <= c07NumChans; c++ {
				switch spec.status[c] {
				case c07StOpen:
					chans = append(chans, c07OpenChan(
						uint64(c), false, spec.start[c],
						spec.viaTip[c], spec.flav[c],
					))
				case c07StOpenPending:
					chans = append(chans, c07OpenChan(
						uint64(c), true, 0, false,
					))
				}
			}

			return chans, nil
		},
		FetchClosedChannels: func(pendingOnly bool) (
			[]*chanstate.ChannelCloseSummary, error) {

			var sums []*chanstate.ChannelCloseSummary
			if spec == nil {
				return sums, nil
			}
			if spec.zeroClosed && !pendingOnly {
				sums = append(sums, &chanstate.ChannelCloseSummary{
					ShortChanID: lnwire.NewShortChanIDFromInt(0),
				})
			}
			for c := 1; c <= c07NumChans; c++ {
				scid := lnwire.NewShortChanIDFromInt(uint64(c))
				switch spec.status[c] {
				case c07StClosed:
					if pendingOnly {
						continue
					}
					sums = append(sums,
						&chanstate.ChannelCloseSummary{
							ShortChanID: scid,
						})
				case c07StClosedPending:
					sums = append(sums,
						&chanstate.ChannelCloseSummary{
							ShortChanID: scid,
							IsPending:   true,
						})
				}
			}

			return sums, nil
		},
		CheckResolutionMsg: func(out *CircuitKey) error {
			if spec != nil && spec.resMsg[*out] {
				return nil
			}

			return errors.New("c07: no resolution message")
		},
	}

	cm, err := NewCircuitMap(cfg)
	h.fdb.mu.Lock()
	h.fdb.failAt = 0
	h.fdb.mu.Unlock()
	if err != nil {
		h.cm = nil
		return err
	}
	h.cm = cm.(*circuitMap)

	return nil
}

// checkState compares every observable of the real map (lookups over the
// whole key universe, counters, hash index, the closed set through its
// documented effect is checked by the actions) and the two DB buckets with
// the model.
func (h *c07Harness) checkState() error {
	m := h.model
	if got := h.cm.NumPending(); got != len(m.circ) {
		return fmt.Errorf("NumPending=%d model=%d", got, len(m.circ))
	}
	if got := h.cm.NumOpen(); got != len(m.ks) {
		return fmt.Errorf("NumOpen=%d model=%d", got, len(m.ks))
	}

	for ch := uint64(0); ch <= c07NumChans; ch++ {
		for id := uint64(0); id <= c07MaxHtlc; id++ {
			k := c07Key(ch, id)
			err := c07SameCircuit(h.cm.LookupCircuit(k), m.circ[k])
			if err != nil {
				return fmt.Errorf("LookupCircuit(%s): %w",
					c07KeyStr(k), err)
			}
		}
	}

	outKeys := []CircuitKey{EmptyCircuitKey}
	for ch := uint64(1); ch <= c07NumChans; ch++ {
		top := h.next[ch] + 3
		for _, id := range m.outIDs(lnwire.NewShortChanIDFromInt(ch)) {
			if id+2 > top {
				top = id + 2
			}
		}
		for id := uint64(0); id < top; id++ {
			outKeys = append(outKeys, c07Key(ch, id))
		}
	}
	for _, k := range outKeys {
		var want *c07Circ
		if in, ok := m.ks[k]; ok {
			want = m.circ[in]
			if want == nil {
				return fmt.Errorf("harness: model keystone %s "+
					"without circuit", c07KeyStr(k))
			}
		}
		err := c07SameCircuit(h.cm.LookupOpenCircuit(k), want)
		if err != nil {
			return fmt.Errorf("LookupOpenCircuit(%s): %w",
				c07KeyStr(k), err)
		}
	}

	// LookupByPaymentHash: "all open circuits that use the given payment
	// hash". Every open circuit with that hash must be returned exactly
	// once and everything returned must be an open circuit. A returned
	// open circuit with a *different* hash is outside the property
	// statement (the function has no production caller); it is counted,
	// see notes/C07.md (stale hash index entry after TrimOpenCircuits).
	for _, hash := range c07Hashes {
		got := h.cm.LookupByPaymentHash(hash)
		seen := make(map[CircuitKey]int)
		for _, c := range got {
			if c == nil || c.Outgoing == nil {
				return fmt.Errorf("LookupByPaymentHash(%x) "+
					"returned a circuit without keystone",
					hash[:1])
			}
			in, ok := m.ks[*c.Outgoing]
			if !ok || in != c.Incoming {
				return fmt.Errorf("LookupByPaymentHash(%x) "+
					"returned %s which is not open",
					hash[:1], c07KeyStr(c.Incoming))
			}
			if c.PaymentHash != hash {
				h.staleHashHits++
				continue
			}
			seen[c.Incoming]++
		}
		for out, in := range m.ks {
			if m.circ[in].hash != hash {
				continue
			}
			if seen[in] != 1 {
				return fmt.Errorf("LookupByPaymentHash(%x): "+
					"open circuit %s->%s returned %d times",
					hash[:1], c07KeyStr(in), c07KeyStr(out),
					seen[in])
			}
		}
	}

	return h.checkDisk()
}

// checkDisk reads the two buckets directly: memory == disk == model.
func (h *c07Harness) checkDisk() error {
	m := h.model
	diskCirc := make(map[CircuitKey]*PaymentCircuit)
	diskKs := make(map[CircuitKey]CircuitKey)
	err := kvdb.View(h.fdb.Backend, func(tx kvdb.RTx) error {
		cb := tx.ReadBucket(circuitAddKey)
		kb := tx.ReadBucket(circuitKeystoneKey)
		if cb == nil || kb == nil {
			return errors.New("bucket missing")
		}
		if err := cb.ForEach(func(k, v []byte) error {
			var in CircuitKey
			if err := in.SetBytes(k); err != nil {
				return err
			}
			c := &PaymentCircuit{}
			if err := c.Decode(bytes.NewReader(v)); err != nil {
				return err
			}
			if c.Incoming != in {
				return fmt.Errorf("disk circuit under key %s "+
					"has incoming %s", c07KeyStr(in),
					c07KeyStr(c.Incoming))
			}
			diskCirc[in] = c

			return nil
		}); err != nil {
			return err
		}

		return kb.ForEach(func(k, v []byte) error {
			var in, out CircuitKey
			if err := out.SetBytes(k); err != nil {
				return err
			}
			if err := in.SetBytes(v); err != nil {
				return err
			}
			diskKs[out] = in

			return nil
		})
	}, func() {
		diskCirc = make(map[CircuitKey]*PaymentCircuit)
		diskKs = make(map[CircuitKey]CircuitKey)
	})
	if err != nil {
		return fmt.Errorf("disk read: %w", err)
	}

	if len(diskCirc) != len(m.circ) {
		return fmt.Errorf("disk has %d circuits, model %d",
			len(diskCirc), len(m.circ))
	}
	for in, want := range m.circ {
		c, ok := diskCirc[in]
		if !ok {
			return fmt.Errorf("circuit %s not on disk", c07KeyStr(in))
		}
		if c.PaymentHash != want.hash || c.IncomingAmount != want.inAmt ||
			c.OutgoingAmount != want.outAmt || c.AddRef != want.addRef ||
			(c.ErrorEncrypter == nil) != want.local {

			return fmt.Errorf("circuit %s differs on disk",
				c07KeyStr(in))
		}
	}
	if len(diskKs) != len(m.ks) {
		return fmt.Errorf("disk has %d keystones, model %d",
			len(diskKs), len(m.ks))
	}
	for out, in := range m.ks {
		if got, ok := diskKs[out]; !ok || got != in {
			return fmt.Errorf("keystone %s->%s not on disk",
				c07KeyStr(in), c07KeyStr(out))
		}
	}

	return nil
}

// ---------------------------------------------------------------------------
// generators
// ---------------------------------------------------------------------------

func (h *c07Harness) sortedIn() []CircuitKey {
	keys := make([]CircuitKey, 0, len(h.model.circ))
	for k := range h.model.circ {
		keys = append(keys, k)
	}
	sort.Slice(keys, func(i, j int) bool {
		if keys[i].ChanID != keys[j].ChanID {
			return keys[i].ChanID.ToUint64() < keys[j].ChanID.ToUint64()
		}

		return keys[i].HtlcID < keys[j].HtlcID
	})

	return keys
}

func (h *c07Harness) sortedOut() []CircuitKey {
	keys := make([]CircuitKey, 0, len(h.model.ks))
	for k := range h.model.ks {
		keys = append(keys, k)
	}
	sort.Slice(keys, func(i, j int) bool {
		if keys[i].ChanID != keys[j].ChanID {
			return keys[i].ChanID.ToUint64() < keys[j].ChanID.ToUint64()
		}

		return keys[i].HtlcID < keys[j].HtlcID
	})

	return keys
}

func c07AnyInKey(t *rapid.T) CircuitKey {
	return c07Key(
		uint64(rapid.IntRange(0, c07NumChans).Draw(t, "inChan")),
		uint64(rapid.IntRange(0, c07MaxHtlc).Draw(t, "inHtlc")),
	)
}

// drawInKey prefers keys of existing circuits.
func (h *c07Harness) drawInKey(t *rapid.T) CircuitKey {
	ex := h.sortedIn()
	if len(ex) > 0 && rapid.IntRange(0, 9).Draw(t, "existing") < 6 {
		return rapid.SampledFrom(ex).Draw(t, "inKey")
	}

	return c07AnyInKey(t)
}

func (h *c07Harness) drawOutKey(t *rapid.T) CircuitKey {
	ex := h.sortedOut()
	r := rapid.IntRange(0, 9).Draw(t, "existingOut")
	if len(ex) > 0 && r < 7 {
		return rapid.SampledFrom(ex).Draw(t, "outKey")
	}
	if r == 9 {
		return EmptyCircuitKey
	}

	return c07Key(
		uint64(rapid.IntRange(1, c07NumChans).Draw(t, "outChan")),
		uint64(rapid.IntRange(0, 8).Draw(t, "outHtlc")),
	)
}

func (c *c07Circ) toPayment() *PaymentCircuit {
	p := &PaymentCircuit{
		AddRef:         c.addRef,
		Incoming:       c.in,
		PaymentHash:    c.hash,
		IncomingAmount: c.inAmt,
		OutgoingAmount: c.outAmt,
	}
	if !c.local {
		p.ErrorEncrypter = NewMockObfuscator()
	}

	return p
}

// ---------------------------------------------------------------------------
// actions
// ---------------------------------------------------------------------------

func (h *c07Harness) actCommit(t *rapid.T) error {
	n := rapid.IntRange(1, 5).Draw(t, "commitN")
	batch := make([]*c07Circ, 0, n)
	byKey := make(map[CircuitKey]*c07Circ)
	for i := 0; i < n; i++ {
		var in CircuitKey
		if i > 0 && rapid.IntRange(0, 9).Draw(t, "dupInBatch") == 0 {
			in = batch[rapid.IntRange(0, i-1).Draw(t, "dupOf")].in
		} else {
			in = h.drawInKey(t)
		}

		// A replayed add carries the same contents as the original.
		var p *c07Circ
		switch {
		case h.model.circ[in] != nil:
			ex := h.model.circ[in]
			p = &c07Circ{in: in, hash: ex.hash, inAmt: ex.inAmt,
				outAmt: ex.outAmt, addRef: ex.addRef,
				local: ex.local}
		case byKey[in] != nil:
			cp := *byKey[in]
			p = &cp
		default:
			inAmt := rapid.IntRange(1, 1000).Draw(t, "inAmt")
			p = &c07Circ{
				in:    in,
				hash:  rapid.SampledFrom(c07Hashes).Draw(t, "hash"),
				inAmt: lnwire.MilliSatoshi(inAmt),
				outAmt: lnwire.MilliSatoshi(
					rapid.IntRange(0, inAmt).Draw(t, "outAmt"),
				),
				addRef: channeldb.AddRef{
					Height: uint64(rapid.IntRange(0, 3).Draw(t, "h")),
					Index:  uint16(rapid.IntRange(0, 3).Draw(t, "i")),
				},
				local: in.ChanID.ToUint64() == 0,
			}
			byKey[in] = p
		}
		batch = append(batch, p)
	}

	verdicts := h.model.commitVerdicts(batch)
	wantAdds := 0
	for _, v := range verdicts {
		if v == c07Add {
			wantAdds++
		}
	}

	inject := rapid.IntRange(0, 9).Draw(t, "injectCommit") == 0
	if inject {
		h.fdb.arm()
	}

	present := make([]*PaymentCircuit, len(batch))
	for i, p := range batch {
		present[i] = p.toPayment()
	}
	actions, err := h.cm.CommitCircuits(present...)
	fired := h.fdb.disarm()

	var desc []string
	for i, p := range batch {
		desc = append(desc, c07KeyStr(p.in)+"="+verdicts[i].String())
	}
	h.logf("commit[%s] inject=%v fired=%v err=%v",
		strings.Join(desc, " "), inject, fired, err)

	if actions == nil {
		return errors.New("CommitCircuits returned nil actions")
	}

	// A durable write must happen iff something is to be added.
	if inject && (wantAdds > 0) != fired {
		return fmt.Errorf("CommitCircuits: %d adds expected but write "+
			"attempted=%v", wantAdds, fired)
	}

	// Expected partition, order preserved.
	var wAdds, wDrops, wFails []*PaymentCircuit
	for i, v := range verdicts {
		switch {
		case v == c07DropKeystone || v == c07DropInMem:
			wDrops = append(wDrops, present[i])
		case fired:
			// failed write: everything that was not dropped is
			// failed back
			wFails = append(wFails, present[i])
		case v == c07Add:
			wAdds = append(wAdds, present[i])
		default:
			wFails = append(wFails, present[i])
		}
	}
	if fired {
		if !errors.Is(err, c07ErrInjected) {
			return fmt.Errorf("CommitCircuits swallowed the write "+
				"failure: err=%v", err)
		}
		h.label("commit_write_failed")
	} else if err != nil {
		return fmt.Errorf("CommitCircuits: unexpected error %v", err)
	}

	same := func(name string, got, want []*PaymentCircuit) error {
		if len(got) != len(want) {
			return fmt.Errorf("CommitCircuits %s: %d circuits, "+
				"model %d", name, len(got), len(want))
		}
		for i := range got {
			if got[i] != want[i] {
				return fmt.Errorf("CommitCircuits %s[%d]=%s, "+
					"model %s (order/partition)", name, i,
					c07KeyStr(got[i].Incoming),
					c07KeyStr(want[i].Incoming))
			}
		}

		return nil
	}
	if err := same("Adds", actions.Adds, wAdds); err != nil {
		return err
	}
	if err := same("Drops", actions.Drops, wDrops); err != nil {
		return err
	}
	if err := same("Fails", actions.Fails, wFails); err != nil {
		return err
	}

	// History invariant on what was *observed*.
	for _, c := range actions.Adds {
		if err := h.hist.onAdd(c.Incoming); err != nil {
			return err
		}
	}
	for _, c := range actions.Drops {
		// an in-batch duplicate of a circuit whose write failed was
		// never live; only check when the write succeeded
		if fired {
			continue
		}
		if err := h.hist.onDrop(c.Incoming); err != nil {
			return err
		}
	}
	for _, c := range actions.Fails {
		if err := h.hist.onFail(c.Incoming, fired); err != nil {
			return err
		}
	}

	if !fired {
		for i, v := range verdicts {
			h.label("verdict=" + v.String())
			if v == c07Add {
				batch[i].ptr = present[i]
			}
			if ex := h.model.circ[batch[i].in]; ex != nil && ex.loaded {
				h.label("dup_commit_after_restart")
			}
		}
		h.model.applyCommit(batch, verdicts)
	}

	return nil
}

func (h *c07Harness) actOpen(t *rapid.T) error {
	n := rapid.IntRange(1, 4).Draw(t, "openN")

	// half-open circuits not yet used in this batch
	var cand []CircuitKey
	for _, in := range h.sortedIn() {
		if h.model.circ[in].out == nil {
			cand = append(cand, in)
		}
	}

	next := h.next
	usedIn := make(map[CircuitKey]bool)
	usedOut := make(map[CircuitKey]bool)
	var batch []Keystone
	for i := 0; i < n; i++ {
		var ks Keystone

		r := rapid.IntRange(0, 19).Draw(t, "openKind")
		switch {
		case len(cand) > 0 && r < 17:
			ix := rapid.IntRange(0, len(cand)-1).Draw(t, "half")
			ks.InKey = cand[ix]
			cand = append(cand[:ix:ix], cand[ix+1:]...)
		default:
			// unknown circuit (never one that is already open:
			// links open a forwarded packet once, see notes)
			ks.InKey = c07AnyInKey(t)
			if c := h.model.circ[ks.InKey]; c != nil {
				continue
			}
		}
		if usedIn[ks.InKey] {
			continue
		}

		existing := h.sortedOut()
		if len(existing) > 0 &&
			rapid.IntRange(0, 11).Draw(t, "dupKeystone") == 7 {

			// duplicate of an existing keystone
			ks.OutKey = rapid.SampledFrom(existing).Draw(t, "dupOut")
		} else {
			ch := uint64(rapid.IntRange(1, c07NumChans).Draw(t, "oc"))
			ks.OutKey = c07Key(ch, next[ch])
			next[ch]++
		}
		if usedOut[ks.OutKey] {
			continue
		}
		usedIn[ks.InKey], usedOut[ks.OutKey] = true, true
		batch = append(batch, ks)
	}

	wantErrs := h.model.openErrors(batch)

	inject := rapid.IntRange(0, 9).Draw(t, "injectOpen") == 0
	if inject {
		h.fdb.arm()
	}
	err := h.cm.OpenCircuits(batch...)
	fired := h.fdb.disarm()

	var desc []string
	for _, k := range batch {
		desc = append(desc, c07KeyStr(k.InKey)+">"+c07KeyStr(k.OutKey))
	}
	h.logf("open[%s] inject=%v fired=%v err=%v", strings.Join(desc, " "),
		inject, fired, err)

	switch {
	case len(batch) == 0:
		if err != nil {
			return fmt.Errorf("OpenCircuits(): %v", err)
		}

		return nil

	case len(wantErrs) > 0:
		if fired {
			return errors.New("OpenCircuits wrote an invalid batch")
		}
		ok := false
		for e := range wantErrs {
			if errors.Is(err, e) {
				ok = true
			}
		}
		if !ok {
			return fmt.Errorf("OpenCircuits: err=%v, model expects "+
				"one of %v", err, wantErrs)
		}
		h.label(fmt.Sprintf("open_err=%v", err))

		return nil

	case inject:
		if !fired {
			return errors.New("OpenCircuits did not write a valid " +
				"batch durably")
		}
		if !errors.Is(err, c07ErrInjected) {
			return fmt.Errorf("OpenCircuits swallowed the write "+
				"failure: err=%v", err)
		}
		h.label("open_write_failed")

		return nil

	case err != nil:
		return fmt.Errorf("OpenCircuits: unexpected error %v", err)
	}

	h.model.applyOpen(batch)
	h.next = next
	h.label("open_ok")
	for _, k := range batch {
		if h.model.circ[k.InKey].loaded {
			h.label("open_loaded_circuit")
		}
	}

	return nil
}

func (h *c07Harness) actTrim(t *rapid.T) error {
	ch := uint64(rapid.IntRange(1, c07NumChans).Draw(t, "trimChan"))
	scid := lnwire.NewShortChanIDFromInt(ch)
	start := h.drawStart(t, ch, h.model)

	err := h.cm.TrimOpenCircuits(scid, start)
	n := h.model.trim(scid, start)
	h.logf("trim(ch%d,%d) removed=%d err=%v", ch, start, n, err)
	if err != nil {
		return fmt.Errorf("TrimOpenCircuits: %v", err)
	}
	// The link's allocation counter is the channel's index.
	h.next[ch] = start
	if n > 0 {
		h.label("trim_inproc")
	}

	return nil
}

// drawStart draws a next-unallocated index for channel ch that respects the
// caller contract of TrimOpenCircuits against model m.
func (h *c07Harness) drawStart(t *rapid.T, ch uint64, m *c07Model) uint64 {
	next := h.next[ch]
	var s uint64
	switch rapid.IntRange(0, 5).Draw(t, "startKind") {
	case 0:
		s = next
	case 1:
		if next > 0 {
			s = next - 1
		}
	case 2:
		if next > 1 {
			s = next - 2
		}
	case 3:
		s = 0
	case 4:
		s = next + uint64(rapid.IntRange(1, 2).Draw(t, "beyond"))
	default:
		s = uint64(rapid.IntRange(0, int(next)+1).Draw(t, "start"))
	}
	ids := m.outIDs(lnwire.NewShortChanIDFromInt(ch))
	v := c07ValidStart(ids, s)
	if v != s {
		h.label("start_adjusted")
	}

	return v
}

func (h *c07Harness) checkResp(name string, got *PaymentCircuit, gotErr error,
	want *c07Circ, wantErr error) error {

	if wantErr != nil {
		if !errors.Is(gotErr, wantErr) {
			return fmt.Errorf("%s: err=%v, model expects %v", name,
				gotErr, wantErr)
		}
		if got != nil {
			return fmt.Errorf("%s: circuit returned with error",
				name)
		}
		h.label(fmt.Sprintf("resp_err=%v", wantErr))

		return nil
	}
	if gotErr != nil {
		return fmt.Errorf("%s: unexpected error %v", name, gotErr)
	}
	if err := c07SameCircuit(got, want); err != nil {
		return fmt.Errorf("%s: %w", name, err)
	}

	return h.hist.onResponse(got.Incoming)
}

// drawClosing returns the circuits that already accepted a response.
func (h *c07Harness) closing() []CircuitKey {
	var keys []CircuitKey
	for _, in := range h.sortedIn() {
		if h.model.closed[in] {
			keys = append(keys, in)
		}
	}

	return keys
}

func (h *c07Harness) actClose(t *rapid.T) error {
	out := h.drawOutKey(t)
	// Duplicate responses: prefer a circuit that already accepted one.
	var closingOut []CircuitKey
	for _, in := range h.closing() {
		if c := h.model.circ[in]; c.out != nil {
			closingOut = append(closingOut, *c.out)
		}
	}
	if len(closingOut) > 0 && rapid.IntRange(0, 2).Draw(t, "dupResp") == 1 {
		out = rapid.SampledFrom(closingOut).Draw(t, "closingOut")
	}
	got, err := h.cm.CloseCircuit(out)
	want, wantErr := h.model.closeOut(out)
	h.logf("close(%s) err=%v", c07KeyStr(out), err)
	if wantErr == nil {
		h.label("close_ok")
	}

	return h.checkResp("CloseCircuit("+c07KeyStr(out)+")", got, err, want,
		wantErr)
}

func (h *c07Harness) actFail(t *rapid.T) error {
	in := h.drawInKey(t)
	if cl := h.closing(); len(cl) > 0 &&
		rapid.IntRange(0, 2).Draw(t, "dupResp") == 1 {

		in = rapid.SampledFrom(cl).Draw(t, "closingIn")
	}
	got, err := h.cm.FailCircuit(in)
	want, wantErr := h.model.failIn(in)
	h.logf("fail(%s) err=%v", c07KeyStr(in), err)
	if wantErr == nil {
		h.label("fail_ok")
	}

	return h.checkResp("FailCircuit("+c07KeyStr(in)+")", got, err, want,
		wantErr)
}

func (h *c07Harness) actDelete(t *rapid.T) error {
	n := rapid.IntRange(1, 4).Draw(t, "delN")
	keys := make([]CircuitKey, 0, n)
	for i := 0; i < n; i++ {
		keys = append(keys, h.drawInKey(t))
	}

	inject := rapid.IntRange(0, 9).Draw(t, "injectDel") == 0
	if inject {
		h.fdb.arm()
	}
	err := h.cm.DeleteCircuits(keys...)
	fired := h.fdb.disarm()

	var desc []string
	for _, k := range keys {
		desc = append(desc, c07KeyStr(k))
	}
	h.logf("delete[%s] inject=%v fired=%v err=%v",
		strings.Join(desc, " "), inject, fired, err)

	if fired {
		if !errors.Is(err, c07ErrInjected) {
			return fmt.Errorf("DeleteCircuits swallowed the write "+
				"failure: err=%v", err)
		}
		h.label("delete_write_failed")

		// pre-state must be fully restored (checked by checkState,
		// and the closed markers through later close/fail actions)
		return nil
	}
	if err != nil {
		return fmt.Errorf("DeleteCircuits: unexpected error %v", err)
	}
	if inject {
		existing := false
		for _, k := range keys {
			if h.model.circ[k] != nil {
				existing = true
			}
		}
		if existing {
			return errors.New("DeleteCircuits did not write durably")
		}
	}
	for _, k := range keys {
		if c := h.model.circ[k]; c != nil {
			h.label("delete_existing")
			if c.out != nil {
				h.label("delete_open")
			}
		}
		h.hist.onDelete(k)
	}
	h.model.del(keys)

	return nil
}

func (h *c07Harness) actRestart(t *rapid.T) error {
	spec := &c07RestartSpec{resMsg: make(map[CircuitKey]bool)}
	for c := 1; c <= c07NumChans; c++ {
		if h.closedChans[c] {
			spec.status[c] = c07StClosed
			continue
		}
		r := rapid.IntRange(0, 19).Draw(t, "chanStatus")
		switch {
		case r < 11:
			spec.status[c] = c07StOpen
		case r < 14:
			spec.status[c] = c07StClosed
		case r < 16:
			spec.status[c] = c07StClosedPending
		case r < 17:
			spec.status[c] = c07StOpenPending
		default:
			spec.status[c] = c07StAbsent
		}
	}
	for _, out := range h.sortedOut() {
		if rapid.IntRange(0, 2).Draw(t, "resMsg") == 0 {
			spec.resMsg[out] = true
		}
	}
	spec.zeroClosed = rapid.IntRange(0, 3).Draw(t, "zeroClosed") == 0
	spec.zeroOpen = rapid.IntRange(0, 3).Draw(t, "zeroOpen") == 0

	// The trim indexes must satisfy the caller contract against the
	// state *after* the purge of closed channels.
	probe := h.model.clone()
	var tmp c07RestartStats
	probe.purge(spec, &tmp)
	for c := 1; c <= c07NumChans; c++ {
		if spec.status[c] != c07StOpen {
			continue
		}
		spec.start[c] = h.drawStart(t, uint64(c), probe)
		spec.viaTip[c] = rapid.Bool().Draw(t, "viaTip")
		if rapid.IntRange(0, 2).Draw(t, "flavoured") == 0 {
			spec.flav[c] = rapid.IntRange(1, 3).Draw(t, "flavour")
			h.label("restart_open_flavour=" + [...]string{"",
				"alias", "zeroconf",
				"zeroconf_confirmed"}[spec.flav[c]])
		}
	}
	if rapid.IntRange(0, 5).Draw(t, "failRestart") == 0 {
		spec.failAt = rapid.IntRange(1, 5).Draw(t, "failAt")
	}

	err := h.newMap(spec)
	h.logf("restart{%v} err=%v", spec, err)
	if err != nil {
		if spec.failAt == 0 || !errors.Is(err, c07ErrInjected) {
			return fmt.Errorf("NewCircuitMap: %v", err)
		}
		// The node failed to start; start it again with the same
		// channel state. Partial progress must not matter.
		h.label("restart_write_failed")
		spec.failAt = 0
		if err := h.newMap(spec); err != nil {
			return fmt.Errorf("NewCircuitMap (retry): %v", err)
		}
	}

	st := h.model.restart(spec)
	for c := 1; c <= c07NumChans; c++ {
		h.label("restart_chan=" + spec.status[c].String())
		switch spec.status[c] {
		case c07StOpen:
			h.next[c] = spec.start[c]
		case c07StClosed:
			h.closedChans[c] = true
		}
	}
	h.label("restart")
	if st.openBefore > 0 {
		h.label("restart_with_open")
		if st.trimmed > 0 {
			h.label("restart_trimmed")
		}
		if st.purgedKs > 0 {
			h.label("restart_purged_keystone")
		}
	}
	if st.purgedCircs > st.purgedKs {
		h.label("restart_purged_half_open")
	}
	if st.keptByResMsg > 0 {
		h.label("restart_kept_by_resmsg")
	}

	// History: a new epoch; lifetimes of purged circuits end. Which
	// circuits survived is taken from the model *and* verified against
	// the real map by checkState right after this action.
	h.hist.epoch++
	h.hist.accepted = make(map[CircuitKey]bool)
	for k := range h.hist.live {
		if h.model.circ[k] == nil {
			h.hist.onDelete(k)
		}
	}

	return nil
}

// ---------------------------------------------------------------------------
// the test
// ---------------------------------------------------------------------------

func TestVerifC07CircuitMap(t *testing.T) {
	st := vstats.New("TestVerifC07CircuitMap")
	defer st.Flush()
	maxSteps := vstats.EnvInt("VERIF_C07_STEPS", 50)

	rapid.Check(t, func(t *rapid.T) {
		dir, err := os.MkdirTemp("", "c07cm")
		if err != nil {
			t.Fatalf("tempdir: %v", err)
		}
		defer os.RemoveAll(dir)

		h := &c07Harness{
			dir:    dir,
			model:  c07NewModel(),
			hist:   c07NewHistory(),
			labels: make(map[string]bool),
		}
		// bbolt's real Batch path costs 10 ms per call; use it in a
		// minority of cases.
		h.useBatch = rapid.IntRange(0, 15).Draw(t, "useBatch") == 11
		if h.useBatch {
			h.label("bolt_batch_path")
		}
		if err := h.newMap(nil); err != nil {
			t.Fatalf("NewCircuitMap: %v", err)
		}
		defer func() {
			if h.fdb != nil {
				_ = h.fdb.Backend.Close()
			}
		}()

		steps := rapid.IntRange(5, maxSteps).Draw(t, "steps")
		if h.useBatch && steps > 20 {
			steps = 20
		}
		var fpParts []any
		for i := 0; i < steps; i++ {
			kind := rapid.IntRange(0, 99).Draw(t, "action")
			var err error
			switch {
			case kind < 25:
				err = h.actCommit(t)
			case kind < 45:
				err = h.actOpen(t)
			case kind < 51:
				err = h.actTrim(t)
			case kind < 67:
				err = h.actClose(t)
			case kind < 77:
				err = h.actFail(t)
			case kind < 89:
				err = h.actDelete(t)
			default:
				err = h.actRestart(t)
			}
			if err == nil {
				err = h.checkState()
			}
			if err != nil {
				t.Fatalf("step %d: %v\nops:\n  %s", i, err,
					strings.Join(h.ops, "\n  "))
			}
		}
		for _, o := range h.ops {
			fpParts = append(fpParts, o)
		}

		// Non-trivial: a restart after >=1 open circuit with >=1
		// trimmed or purged keystone, or a duplicate commit after a
		// restart (the LoadedFromDisk cell).
		nontrivial := (h.labels["restart_with_open"] &&
			(h.labels["restart_trimmed"] ||
				h.labels["restart_purged_keystone"])) ||
			h.labels["dup_commit_after_restart"]

		labels := make([]string, 0, len(h.labels))
		for l := range h.labels {
			labels = append(labels, l)
		}
		sort.Strings(labels)
		if h.staleHashHits > 0 {
			st.Count("hashindex_stale_wrong_hash", int64(h.staleHashHits))
		}
		var sample any
		if nontrivial && st.WantSample() {
			sample = h.ops
		}
		st.Case(vstats.FP(fpParts...), nontrivial, labels, sample)
	})
}
