//go:build verif && !kvdb_sqlite

package htlcswitch

import "github.com/lightningnetwork/lnd/kvdb"

// c07KVName names the key-value backend the C07 harness runs on.
const c07KVName = "bolt"

func c07OpenKV(dir, file string) (kvdb.Backend, error) {
	return kvdb.GetBoltBackend(&kvdb.BoltBackendConfig{
		DBPath:            dir,
		DBFileName:        file,
		NoFreelistSync:    true,
		AutoCompactMinAge: kvdb.DefaultBoltAutoCompactMinAge,
		DBTimeout:         kvdb.DefaultDBTimeout,
	})
}
