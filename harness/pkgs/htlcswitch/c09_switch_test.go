//go:build verif

package htlcswitch

// C09, secondary check: Switch.handlePacketAdd forwards an HTLC only over a
// link whose forwarding verdict is "accept".
//
// A real Switch is populated with links to three peers. The outgoing links
// are lnd's mockChannelLink with three methods overridden: eligibility is
// generated, CheckHtlcForward delegates to a *real* channelLink configured
// with that link's generated policy (so the whole decision path
// packet -> Switch -> link policy check is real code), and
// handleSwitchPacket records the hand-off synchronously.
//
// Oracle: bigref on the *packet's own fields* and each candidate link's
// policy. The link that received the packet (if any) must be a link to the
// addressed peer, eligible, with an empty set of violated rules; a packet is
// dropped only if no candidate qualifies, and then the failure returned for a
// channel-addressed packet names a rule the requested link actually violates.

import (
	"errors"
	"fmt"
	"sync/atomic"
	"testing"

	"github.com/lightningnetwork/lnd/fn/v2"
	"github.com/lightningnetwork/lnd/graph/db/models"
	"github.com/lightningnetwork/lnd/internal/verif/bigref"
	"github.com/lightningnetwork/lnd/internal/verif/vstats"
	"github.com/lightningnetwork/lnd/lnwire"
	"pgregory.net/rapid"
)

// c09SwLink is an outgoing link of the Switch under test.
type c09SwLink struct {
	*mockChannelLink

	fx   *c09Fixture
	peer int
	// addrs are the short channel ids a sender may use to address this
	// link: its own ShortChanID, and for the alias flavours the
	// confirmed scid / the aliases (the Switch maps all of them to the
	// link through baseIndex).
	addrs  []lnwire.ShortChannelID
	flavor string

	// Per case.
	cs       *c09Case
	eligible bool
	consults int
	handed   []*htlcPacket
}

func (l *c09SwLink) EligibleToForward() bool { return l.eligible }

func (l *c09SwLink) CheckHtlcForward(payHash [32]byte, incomingAmt,
	amtToForward lnwire.MilliSatoshi, incomingTimeout,
	outgoingTimeout uint32, inboundFee models.InboundFee, heightNow uint32,
	originalScid lnwire.ShortChannelID,
	customRecords lnwire.CustomRecords) *LinkError {

	l.consults++
	real := c09Apply(l.fx, l.cs)

	return real.CheckHtlcForward(
		payHash, incomingAmt, amtToForward, incomingTimeout,
		outgoingTimeout, inboundFee, heightNow, originalScid,
		customRecords,
	)
}

func (l *c09SwLink) handleSwitchPacket(pkt *htlcPacket) error {
	l.handed = append(l.handed, pkt)
	return nil
}

type c09SwFixture struct {
	fx       *c09Fixture
	s        *Switch
	incoming *mockChannelLink
	out      []*c09SwLink // all outgoing links
	byPeer   [][]int      // peer (1,2) -> indices into out
	peerKeys [][33]byte
	htlcID   uint64
}

func newC09SwFixture(t *testing.T) *c09SwFixture {
	t.Helper()

	f := &c09SwFixture{fx: newC09Fixture(t)}
	s, err := initSwitchWithTempDB(t, testStartingHeight)
	if err != nil {
		t.Fatalf("switch: %v", err)
	}
	f.s = s

	var peers []*mockServer
	for _, name := range []string{"c09-p0", "c09-p1", "c09-p2"} {
		p, err := newMockServer(
			t, name, testStartingHeight, nil, testDefaultDelta,
		)
		if err != nil {
			t.Fatalf("peer: %v", err)
		}
		peers = append(peers, p)
		f.peerKeys = append(f.peerKeys, p.PubKey())
	}

	mk := func(n int, peer int) *mockChannelLink {
		var cid lnwire.ChannelID
		cid[0], cid[1] = 0xc9, byte(n)
		scid := lnwire.NewShortChanIDFromInt(uint64(1000+n) << 40)

		return newMockChannelLink(
			s, cid, scid, emptyScid, peers[peer], true, false,
			false, false,
		)
	}

	f.incoming = mk(0, 0)
	if err := s.AddLink(f.incoming); err != nil {
		t.Fatalf("add incoming: %v", err)
	}
	// Nobody reads the fail packets the Switch mails back to the
	// incoming link; drain them (not part of any decision).
	quit := make(chan struct{})
	t.Cleanup(func() { close(quit) })
	go func() {
		for {
			select {
			case <-f.incoming.packets:
			case <-quit:
				return
			}
		}
	}()

	// Channel flavours (added after seeded change C09e): besides regular
	// channels, public zero-conf channels whose funding transaction has
	// confirmed (the link keeps its alias as ShortChanID for life; senders
	// use the alias or the confirmed scid) and public option-scid-alias
	// channels (ShortChanID is the confirmed scid; senders use it or an
	// alias). Private channels are left out: their failures hide the
	// channel_update on purpose.
	mkFlavor := func(n, peer int, flavor string) *c09SwLink {
		var cid lnwire.ChannelID
		cid[0], cid[1] = 0xc9, byte(n)
		realScid := lnwire.NewShortChanIDFromInt(uint64(1000+n) << 40)
		alias := lnwire.ShortChannelID{
			BlockHeight: 16_000_000, TxIndex: uint32(n), TxPosition: 1,
		}
		alias2 := alias
		alias2.TxPosition = 2
		l := &c09SwLink{fx: f.fx, peer: peer, flavor: flavor}
		switch flavor {
		case "zeroconf":
			l.mockChannelLink = newMockChannelLink(
				s, cid, alias, realScid, peers[peer], true, false,
				true, false,
			)
			l.mockChannelLink.addAlias(alias2)
			l.addrs = []lnwire.ShortChannelID{alias, alias2, realScid}
		case "scidalias":
			l.mockChannelLink = newMockChannelLink(
				s, cid, realScid, emptyScid, peers[peer], true, false,
				false, true,
			)
			l.mockChannelLink.addAlias(alias)
			l.mockChannelLink.addAlias(alias2)
			l.addrs = []lnwire.ShortChannelID{realScid, alias, alias2}
		default:
			l.mockChannelLink = mk(n, peer)
			l.addrs = []lnwire.ShortChannelID{realScid}
		}

		return l
	}
	flavors := [][]string{nil, {"regular", "zeroconf", "scidalias"},
		{"zeroconf", "regular"}}

	f.byPeer = make([][]int, 3)
	n := 1
	for peer, count := range []int{0, 3, 2} {
		for i := 0; i < count; i++ {
			l := mkFlavor(n, peer, flavors[peer][i])
			n++
			if err := s.AddLink(l); err != nil {
				t.Fatalf("add link: %v", err)
			}
			f.byPeer[peer] = append(f.byPeer[peer], len(f.out))
			f.out = append(f.out, l)
		}
	}

	return f
}

// c09Variant derives the configuration of a parallel link from the base
// case: same packet, possibly different policy / limits / bandwidth.
func c09Variant(t *rapid.T, fx *c09Fixture, base *c09Case, ix int) *c09Case {
	v := *base
	lbl := func(s string) string { return fmt.Sprintf("v%d_%s", ix, s) }
	switch p := c09Pct(t, lbl("k")); {
	case p < 25:
		// identical policy
	case p < 35:
		v.Min = c09SatAdd(base.OutAmt, uint64(c09Pick(t, lbl("min"), 2)))
	case p < 45:
		v.Max = c09SatSub(base.OutAmt, uint64(c09Pick(t, lbl("max"), 2)))
	case p < 57:
		v.Base = c09SatAdd(base.Base, uint64(c09Pick(t, lbl("base"), 3)))
		if c09Pct(t, lbl("base_dn")) < 50 {
			v.Base = c09SatSub(base.Base, 1)
		}
	case p < 65:
		v.Delta = base.Delta + uint32(c09Pick(t, lbl("delta"), 2))
		if c09Pct(t, lbl("delta_dn")) < 50 && base.Delta > 0 {
			v.Delta = base.Delta - 1
		}
	case p < 75:
		// another real channel: different bandwidth
		v.Link = c09Pick(t, lbl("link"), len(fx.links))
		if v.Aux != 1 {
			v.BW = fx.bw[v.Link]
		}
	case p < 85:
		v.Aux = 1
		v.AuxBW = c09SatSub(c09SatAdd(base.OutAmt, 1),
			uint64(c09Pick(t, lbl("bw"), 3)))
		v.BW = v.AuxBW
	default:
		// a satisfiable, generous policy: accepts if the packet's
		// own fields allow it at all
		v.Min, v.Max, v.Base, v.Rate, v.Delta = 0, 0, 0, 0, 0
	}

	return &v
}

func TestVerifC09Switch(t *testing.T) {
	f := newC09SwFixture(t)
	st := vstats.New("TestVerifC09Switch")
	defer st.Flush()
	known := vstats.IsKnown(c09KnownOverflow)

	rapid.Check(t, func(rt *rapid.T) {
		base := c09Gen(rt, f.fx, false)
		if base.heightsWrap() {
			st.Count("outside_domain", 1)
			st.Case(base.fp(false), false,
				[]string{"outside_domain:height_wrap"}, nil)

			return
		}

		// Addressing.
		peer := 1 + c09Pick(rt, "peer", 2)
		cands := f.byPeer[peer]
		reqPos := c09Pick(rt, "requested", len(cands))
		requested := f.out[cands[reqPos]]
		blinded := c09Pct(rt, "blinded") < 15
		unknown := !blinded && c09Pct(rt, "unknown_scid") < 5

		// Per-link configuration.
		for _, l := range f.out {
			l.cs, l.eligible, l.consults, l.handed = nil, false, 0, nil
		}
		fpParts := []any{base.fp(false), peer, reqPos, blinded, unknown}
		for i, l := range f.out {
			var cs *c09Case
			if l == requested {
				cs = base
			} else {
				cs = c09Variant(rt, f.fx, base, i)
			}
			if cs.inOverflowClass() {
				if known {
					st.Known(c09KnownOverflow)
					st.Count("excluded_known", 1)
					for cs.inOverflowClass() {
						cs.InRate /= 16
					}
					// The inbound fee is a packet field:
					// keep all links consistent.
					base.InRate = cs.InRate
					for _, o := range f.out {
						if o.cs != nil {
							o.cs.InRate = cs.InRate
						}
					}
				} else {
					st.Count("overflow_class", 1)
				}
			}
			l.cs = cs
			l.eligible = c09Pct(rt, fmt.Sprintf("elig%d", i)) < 85
			fpParts = append(fpParts, cs.fp(false), l.eligible)
		}

		// The packet.
		addressedBy := ""
		f.htlcID++
		atomic.StoreUint32(&f.s.bestHeight, base.Height)
		htlc := &lnwire.UpdateAddHTLC{
			PaymentHash:   [32]byte{9},
			Amount:        lnwire.MilliSatoshi(base.OutAmt),
			Expiry:        base.OutExp,
			CustomRecords: base.records(),
		}
		pkt := &htlcPacket{
			incomingChanID:  f.incoming.ShortChanID(),
			incomingHTLCID:  f.htlcID,
			incomingAmount:  lnwire.MilliSatoshi(base.InAmt),
			amount:          lnwire.MilliSatoshi(base.OutAmt),
			incomingTimeout: base.InExp,
			outgoingTimeout: base.OutExp,
			inboundFee: models.InboundFee{
				Base: base.InBase, Rate: base.InRate,
			},
			obfuscator: NewMockObfuscator(),
			htlc:       htlc,
		}
		switch {
		case blinded:
			pkt.outgoingHop = fn.NewRight[lnwire.ShortChannelID, [33]byte](
				f.peerKeys[peer],
			)
		case unknown:
			scid := lnwire.NewShortChanIDFromInt(uint64(7777) << 40)
			pkt.outgoingChanID = scid
			pkt.outgoingHop = fn.NewLeft[lnwire.ShortChannelID, [33]byte](scid)
		default:
			scid := requested.addrs[c09Pick(rt, "addr",
				len(requested.addrs))]
			addressedBy = "own"
			if scid != requested.ShortChanID() {
				addressedBy = "other"
			}
			pkt.outgoingChanID = scid
			pkt.outgoingHop = fn.NewLeft[lnwire.ShortChannelID, [33]byte](scid)
		}
		inKey := pkt.inKey()

		err := f.s.handlePacketAdd(pkt, htlc)
		f.incoming.mailBox.AckPacket(inKey)

		// Reference verdicts from the packet's own fields.
		fwd := base.forward()
		type verdict struct {
			ok  bool
			ref bigref.Verdict
		}
		verdicts := make([]verdict, len(f.out))
		anyOK, anyNear, disagree := false, false, false
		for _, i := range cands {
			l := f.out[i]
			ref := bigref.CheckForward(l.cs.policy(), l.cs.limits(), fwd)
			verdicts[i] = verdict{ok: l.eligible && ref.OK(), ref: ref}
			if verdicts[i].ok {
				anyOK = true
			}
			if !ref.Near(1).Empty() {
				anyNear = true
			}
			if verdicts[i].ok != verdicts[cands[0]].ok {
				disagree = true
			}
		}
		if unknown {
			anyOK = false
		}

		labels := []string{fmt.Sprintf("sw:peer%d", peer)}
		switch {
		case blinded:
			labels = append(labels, "sw:node_addressed")
		case unknown:
			labels = append(labels, "sw:unknown_scid")
		default:
			labels = append(labels, "sw:channel_addressed",
				"sw:flavor:"+requested.flavor+":"+addressedBy)
		}
		if disagree {
			labels = append(labels, "sw:candidates_disagree")
		}

		fail := func(format string, args ...any) {
			rt.Fatalf("C09 Switch: "+format+"\nbase case: %+v\n"+
				"peer=%d requested=%d blinded=%v unknown=%v err=%v",
				append(args, *base, peer, reqPos, blinded, unknown,
					err)...)
		}

		// Safety: who got the packet?
		var got *c09SwLink
		for i, l := range f.out {
			if len(l.handed) == 0 {
				continue
			}
			if got != nil || len(l.handed) > 1 {
				fail("packet handed off more than once")
			}
			got = l
			if l.peer != peer {
				fail("forwarded over link %d of peer %d, not the "+
					"addressed peer", i, l.peer)
			}
			if !l.eligible {
				fail("forwarded over link %d which is not eligible "+
					"to forward", i)
			}
			if v := verdicts[i].ref; !v.OK() {
				fail("FORWARDED over link %d although exact "+
					"arithmetic says its rules %v are violated "+
					"(link config %+v)", i, v.Violated, *l.cs)
			}
			if l.handed[0].outgoingChanID != l.ShortChanID() {
				fail("packet handed to link %d carries outgoing "+
					"chan id %v", i, l.handed[0].outgoingChanID)
			}
			if uint64(l.handed[0].amount) != base.OutAmt ||
				l.handed[0].outgoingTimeout != base.OutExp {

				fail("forwarded packet was altered")
			}
		}
		for i, l := range f.out {
			if l.peer != peer && l.consults != 0 {
				fail("link %d of another peer was consulted", i)
			}
		}

		switch {
		case err == nil && got == nil:
			fail("no error but nothing forwarded")

		case err != nil && got != nil:
			fail("error returned although the packet was forwarded")

		case got != nil:
			labels = append(labels, "sw:forwarded")
			if got != requested || blinded {
				labels = append(labels, "sw:non_strict")
			}

		case anyOK:
			fail("DROPPED although a candidate link is eligible and " +
				"exact arithmetic says every rule holds")

		default:
			labels = append(labels, "sw:rejected")
			var le *LinkError
			if !errors.As(err, &le) {
				fail("rejection is not a LinkError: %T", err)
			}
			_, isUnknownPeer := le.WireMessage().(*lnwire.FailUnknownNextPeer)
			switch {
			case blinded || unknown || !requested.eligible:
				if !isUnknownPeer {
					fail("expected unknown_next_peer, got %T",
						le.WireMessage())
				}
				labels = append(labels, "sw:unknown_next_peer")

			default:
				// Channel-addressed: the failure must be
				// the requested link's, naming a rule it
				// violates.
				ref := verdicts[cands[reqPos]].ref
				named, name, ok := c09Named(le)
				if !ok || !named.Intersects(ref.Violated) {
					fail("rejected with %s (names %v) but the "+
						"requested link violates %v", name,
						named, ref.Violated)
				}
				labels = append(labels, "sw:code:"+name)
			}
		}

		st.Case(vstats.FP(fpParts...), anyNear || disagree, labels, base)
	})
}
