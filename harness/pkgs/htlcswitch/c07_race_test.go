//go:build verif

package htlcswitch

// C07 part 1b: 2-3 goroutines race CloseCircuit / FailCircuit /
// DeleteCircuits on one generated circuit (plus unrelated CommitCircuits /
// OpenCircuits traffic so that bbolt's Batch coalesces calls). The observed
// results and the final state must equal those of *some* sequential order of
// the calls under the reference model; at most one close|fail may succeed.
//
// The schedule is the Go runtime's: this part is weak by nature.

import (
	"errors"
	"fmt"
	"os"
	"sort"
	"strings"
	"sync"
	"testing"

	"github.com/lightningnetwork/lnd/internal/verif/vstats"
	"pgregory.net/rapid"
)

type c07RaceOp struct {
	kind string // close, fail, delete, commitOther, openOther
	in   CircuitKey
	out  CircuitKey
	circ *c07Circ        // commitOther: the circuit presented
	pres *PaymentCircuit // commitOther: the object presented
	res  c07RaceResult
}

type c07RaceResult struct {
	err     error
	circ    *PaymentCircuit
	verdict string
}

func (o *c07RaceOp) String() string {
	switch o.kind {
	case "close", "openOther":
		return fmt.Sprintf("%s(%s>%s)", o.kind, c07KeyStr(o.in),
			c07KeyStr(o.out))
	default:
		return fmt.Sprintf("%s(%s)", o.kind, c07KeyStr(o.in))
	}
}

func c07ErrClass(err error) string {
	switch {
	case err == nil:
		return "ok"
	case errors.Is(err, ErrUnknownCircuit):
		return "unknown"
	case errors.Is(err, ErrCircuitClosing):
		return "closing"
	case errors.Is(err, ErrDuplicateKeystone):
		return "dupkeystone"
	default:
		return "other:" + err.Error()
	}
}

// run executes the op against the real map.
func (o *c07RaceOp) run(cm *circuitMap) {
	switch o.kind {
	case "close":
		o.res.circ, o.res.err = cm.CloseCircuit(o.out)
	case "fail":
		o.res.circ, o.res.err = cm.FailCircuit(o.in)
	case "delete":
		o.res.err = cm.DeleteCircuits(o.in)
	case "commitOther":
		acts, err := cm.CommitCircuits(o.pres)
		o.res.err = err
		switch {
		case acts == nil:
			o.res.verdict = "nil"
		case len(acts.Adds) == 1:
			o.res.verdict = "add"
		case len(acts.Drops) == 1:
			o.res.verdict = "drop"
		case len(acts.Fails) == 1:
			o.res.verdict = "fail"
		}
	case "openOther":
		o.res.err = cm.OpenCircuits(Keystone{InKey: o.in, OutKey: o.out})
	}
}

// apply executes the op against the model and reports whether the observed
// result is the one the model produces at this point of the order.
func (o *c07RaceOp) apply(m *c07Model) bool {
	switch o.kind {
	case "close":
		c, err := m.closeOut(o.out)
		if c07ErrClass(err) != c07ErrClass(o.res.err) {
			return false
		}

		return err != nil || c07SameCircuit(o.res.circ, c) == nil

	case "fail":
		c, err := m.failIn(o.in)
		if c07ErrClass(err) != c07ErrClass(o.res.err) {
			return false
		}

		return err != nil || c07SameCircuit(o.res.circ, c) == nil

	case "delete":
		m.del([]CircuitKey{o.in})
		return o.res.err == nil

	case "commitOther":
		cp := *o.circ
		cp.ptr = o.pres
		v := m.commitVerdicts([]*c07Circ{&cp})
		m.applyCommit([]*c07Circ{&cp}, v)
		want := map[c07Verdict]string{c07Add: "add",
			c07DropKeystone: "drop", c07DropInMem: "drop",
			c07FailLoaded: "fail"}[v[0]]

		return o.res.err == nil && o.res.verdict == want

	case "openOther":
		ks := []Keystone{{InKey: o.in, OutKey: o.out}}
		errs := m.openErrors(ks)
		if len(errs) > 0 {
			for e := range errs {
				if errors.Is(o.res.err, e) {
					return true
				}
			}

			return false
		}
		m.applyOpen(ks)

		return o.res.err == nil
	}

	return false
}

func c07Permutations(n int) [][]int {
	var res [][]int
	var rec func(cur []int, used []bool)
	rec = func(cur []int, used []bool) {
		if len(cur) == n {
			res = append(res, append([]int(nil), cur...))
			return
		}
		for i := 0; i < n; i++ {
			if used[i] {
				continue
			}
			used[i] = true
			rec(append(cur, i), used)
			used[i] = false
		}
	}
	rec(nil, make([]bool, n))

	return res
}

func TestVerifC07Race(t *testing.T) {
	st := vstats.New("TestVerifC07Race")
	defer st.Flush()

	rapid.Check(t, func(t *rapid.T) {
		dir, err := os.MkdirTemp("", "c07race")
		if err != nil {
			t.Fatalf("tempdir: %v", err)
		}
		defer os.RemoveAll(dir)

		h := &c07Harness{
			dir:      dir,
			useBatch: true,
			model:    c07NewModel(),
			hist:     c07NewHistory(),
			labels:   make(map[string]bool),
		}
		if err := h.newMap(nil); err != nil {
			t.Fatalf("NewCircuitMap: %v", err)
		}
		defer func() {
			if h.fdb != nil {
				_ = h.fdb.Backend.Close()
			}
		}()

		// Set-up: the target circuit plus 1-2 bystanders, committed in
		// one batch (one 10 ms bbolt batch window).
		nCirc := rapid.IntRange(2, 3).Draw(t, "nCirc")
		var batch []*c07Circ
		var pres []*PaymentCircuit
		for i := 0; i < nCirc; i++ {
			c := &c07Circ{
				in:    c07Key(uint64(i%c07NumChans)+1, uint64(i)),
				hash:  c07Hashes[i%len(c07Hashes)],
				inAmt: 10, outAmt: 9,
			}
			p := c.toPayment()
			c.ptr = p
			batch = append(batch, c)
			pres = append(pres, p)
		}
		acts, err := h.cm.CommitCircuits(pres...)
		if err != nil || len(acts.Adds) != nCirc {
			t.Fatalf("setup commit: %v %+v", err, acts)
		}
		h.model.applyCommit(batch, h.model.commitVerdicts(batch))

		target := batch[0]
		targetOpen := rapid.IntRange(0, 4).Draw(t, "targetOpen") > 0
		var ks []Keystone
		if targetOpen {
			ks = append(ks, Keystone{InKey: target.in,
				OutKey: c07Key(3, 0)})
		}
		if rapid.Bool().Draw(t, "bystanderOpen") {
			ks = append(ks, Keystone{InKey: batch[1].in,
				OutKey: c07Key(3, 1)})
		}
		if len(ks) > 0 {
			if err := h.cm.OpenCircuits(ks...); err != nil {
				t.Fatalf("setup open: %v", err)
			}
			h.model.applyOpen(ks)
		}
		restarted := rapid.IntRange(0, 3).Draw(t, "restart") == 0
		preClosed := rapid.IntRange(0, 4).Draw(t, "preClosed") == 0

		// A restart that neither purges nor trims: every circuit is now
		// loaded from disk.
		if restarted {
			spec := &c07RestartSpec{resMsg: map[CircuitKey]bool{}}
			for c := 1; c <= c07NumChans; c++ {
				spec.status[c] = c07StAbsent
			}
			if err := h.newMap(spec); err != nil {
				t.Fatalf("setup restart: %v", err)
			}
			h.model.restart(spec)
		}
		if preClosed {
			if _, err := h.cm.FailCircuit(target.in); err != nil {
				t.Fatalf("setup fail: %v", err)
			}
			if _, err := h.model.failIn(target.in); err != nil {
				t.Fatalf("setup model fail: %v", err)
			}
		}
		if err := h.checkState(); err != nil {
			t.Fatalf("setup state: %v", err)
		}

		// The racing calls.
		nOps := rapid.IntRange(2, 3).Draw(t, "nOps")
		ops := make([]*c07RaceOp, 0, nOps)
		usedOther := false
		for i := 0; i < nOps; i++ {
			kinds := []string{"close", "close", "fail", "fail",
				"delete", "delete"}
			if !usedOther {
				kinds = append(kinds, "commitOther", "openOther")
			}
			op := &c07RaceOp{
				kind: rapid.SampledFrom(kinds).Draw(t, "kind"),
				in:   target.in,
			}
			switch op.kind {
			case "close":
				op.out = c07Key(3, 0)
			case "commitOther":
				usedOther = true
				if rapid.Bool().Draw(t, "commitDup") {
					// replay of a bystander
					b := batch[1]
					op.circ = &c07Circ{in: b.in, hash: b.hash,
						inAmt: b.inAmt, outAmt: b.outAmt}
				} else {
					op.circ = &c07Circ{in: c07Key(2, 5),
						hash: c07Hashes[0], inAmt: 5,
						outAmt: 4}
				}
				op.in = op.circ.in
				op.pres = op.circ.toPayment()
			case "openOther":
				usedOther = true
				last := batch[len(batch)-1]
				op.in = last.in
				op.out = c07Key(1, 0)
				if h.model.circ[last.in].out != nil {
					// already open (nCirc==2 with bystander
					// opened): make it a plain new commit
					op.kind = "commitOther"
					op.circ = &c07Circ{in: c07Key(2, 4),
						hash: c07Hashes[1], inAmt: 5,
						outAmt: 4}
					op.in = op.circ.in
					op.pres = op.circ.toPayment()
				}
			}
			ops = append(ops, op)
		}

		start := make(chan struct{})
		var wg sync.WaitGroup
		for _, op := range ops {
			wg.Add(1)
			go func(op *c07RaceOp) {
				defer wg.Done()
				<-start
				op.run(h.cm)
			}(op)
		}
		close(start)
		wg.Wait()

		var desc []string
		okResp := 0
		for _, op := range ops {
			desc = append(desc, op.String()+"="+
				c07ErrClass(op.res.err)+op.res.verdict)
			if (op.kind == "close" || op.kind == "fail") &&
				op.res.err == nil {

				okResp++
			}
		}
		sort.Strings(desc)
		setup := fmt.Sprintf("n=%d open=%v restarted=%v preClosed=%v",
			nCirc, targetOpen, restarted, preClosed)

		// At most one settle/fail accepted (none if one had been
		// accepted before the race).
		limit := 1
		if preClosed {
			limit = 0
		}
		if okResp > limit {
			t.Fatalf("AT-MOST-ONCE: %d close/fail calls succeeded "+
				"(%s) %v", okResp, setup, desc)
		}

		// Linearizability against the model.
		var final *c07Model
		for _, perm := range c07Permutations(len(ops)) {
			m := h.model.clone()
			ok := true
			for _, ix := range perm {
				if !ops[ix].apply(m) {
					ok = false
					break
				}
			}
			if !ok {
				continue
			}
			h2 := *h
			h2.model = m
			if err := h2.checkState(); err == nil {
				final = m
				break
			}
		}
		if final == nil {
			t.Fatalf("no sequential order of %v explains the "+
				"results and final state (%s)", desc, setup)
		}

		labels := []string{fmt.Sprintf("ok_responses=%d", okResp)}
		for _, op := range ops {
			labels = append(labels, "op="+op.kind)
		}
		// Non-trivial: at least two calls competed for the response
		// slot of the same live circuit.
		competing := 0
		for _, op := range ops {
			if op.kind == "close" && targetOpen || op.kind == "fail" {
				competing++
			}
		}
		st.Case(vstats.FP(setup, strings.Join(desc, " ")),
			competing >= 2,
			labels, map[string]any{"setup": setup, "ops": desc})
	})
}
