//go:build verif

package htlcswitch

// C08, start-up replay of forwarding packages (TestVerifC08FwdPkgReplay).
//
// ONE real channelLink ("Alice", the forwarder's link on the channel
// Alice<->Bob) on a real lnwallet channel pair with a real channeldb. The
// channel history is driven synchronously on the two lnwallet state machines
// (the peer "Bob" is a bare LightningChannel, and so is Alice's end while her
// link is down), so every forwarding package is written by the real
// LightningChannel.ReceiveRevocation. Between the history segments the harness
// sets generated subsets of the AckFilter / SettleFailFilter / FwdFilter bits
// through the real channeldb API, or through the real state machine (a fail
// carrying the SourceRef, signed), which models "the link was stopped at a
// generated point between persisting the package and completing the
// forwards". Then the link is started with ChannelLinkConfig.ForwardPackets
// replaced by a recorder, the invoice registry wrapped by a recorder and the
// peer's message queue captured, and everything the link does at start-up is
// compared with a reference model written from the forwarding package contract
// (chanstate/forwarding.go, channeldb/forwarding_package.go doc comments).
//
// No timing windows: the only asynchronous piece of the replay is the
// `go l.forwardBatch(...)` of processRemoteSettleFails. The harness waits for
// the link's NotifyActiveChannel callback (resumeLink returned, i.e. every
// package was handled and every such goroutine was created) and then until no
// goroutine of the process has processRemoteSettleFails / forwardBatch in its
// stack or creator (runtime.Stack). From then on the recorder's content is
// final, "not handed to the switch" is a structural fact.

import (
	"bytes"
	"context"
	"crypto/sha256"
	"encoding/binary"
	"fmt"
	"runtime"
	"sort"
	"strings"
	"sync"
	"testing"
	"time"

	"github.com/btcsuite/btcd/btcec/v2"
	"github.com/btcsuite/btcd/wire/v2"
	sphinx "github.com/lightningnetwork/lightning-onion"
	"github.com/lightningnetwork/lnd/channeldb"
	cstate "github.com/lightningnetwork/lnd/chanstate"
	"github.com/lightningnetwork/lnd/contractcourt"
	"github.com/lightningnetwork/lnd/graph/db/models"
	"github.com/lightningnetwork/lnd/htlcswitch/hop"
	"github.com/lightningnetwork/lnd/internal/verif/vstats"
	"github.com/lightningnetwork/lnd/invoices"
	"github.com/lightningnetwork/lnd/lntypes"
	"github.com/lightningnetwork/lnd/lnwallet"
	"github.com/lightningnetwork/lnd/lnwire"
	"github.com/lightningnetwork/lnd/ticker"
	"pgregory.net/rapid"
)

// ---------------------------------------------------------------------------
// Plan
// ---------------------------------------------------------------------------

const (
	c08fHold      = iota // exit hop, hold invoice: stays un-acked
	c08fPay              // exit hop, open invoice: settled by the link
	c08fUnknown          // exit hop, no invoice: failed by the link
	c08fFwd              // forwarded to another channel of the node
	c08fMalformed        // onion cannot be decoded: failed (malformed)
)

var c08fKindNames = [...]string{"hold", "pay", "unknown", "fwd", "malformed"}

type c08fUpdPlan struct {
	Add    bool
	Kind   int  // add kind
	Settle bool // settle (true) or fail (false) of an outgoing htlc
	Pick   int  // which of the lockedin outgoing htlcs is answered
	Dust   bool
}

type c08fRoundPlan struct {
	Upds []c08fUpdPlan
	// Processed: the link handled the revocation (FwdFilter persisted)
	// before it went down; otherwise it went down right after
	// ReceiveRevocation persisted the package (FwdStateLockedIn).
	Processed bool
}

type c08fEpochPlan struct {
	NOut     int  // new outgoing htlcs Alice -> Bob (forwards of the node)
	MergeOut bool // offered in the same dance as the first round
	Rounds   []c08fRoundPlan
	AckAll   bool  // the switch acked everything it was handed so far
	Dice     []int // 0..99, consumed in package order by the ack step
}

type c08fPlan struct {
	Seed   [8]byte
	Epochs []c08fEpochPlan
}

func (p *c08fPlan) String() string {
	var b strings.Builder
	fmt.Fprintf(&b, "seed=%x\n", p.Seed)
	for i, e := range p.Epochs {
		fmt.Fprintf(&b, " epoch %d: out=%d merge=%v ackall=%v dice=%v\n",
			i, e.NOut, e.MergeOut, e.AckAll, e.Dice)
		for j, r := range e.Rounds {
			fmt.Fprintf(&b, "  round %d (processed=%v):", j, r.Processed)
			for _, u := range r.Upds {
				switch {
				case u.Add:
					fmt.Fprintf(&b, " add:%s", c08fKindNames[u.Kind])
					if u.Dust {
						b.WriteString("(dust)")
					}
				case u.Settle:
					fmt.Fprintf(&b, " settle#%d", u.Pick)
				default:
					fmt.Fprintf(&b, " fail#%d", u.Pick)
				}
			}
			b.WriteString("\n")
		}
	}

	return b.String()
}

func c08fDrawPlan(rt *rapid.T) *c08fPlan {
	p := &c08fPlan{}
	for i := range p.Seed {
		p.Seed[i] = byte(rapid.IntRange(0, 255).Draw(rt, "seed"))
	}

	nEpochs := []int{1, 2, 2, 2, 2, 3, 3, 3}[rapid.IntRange(0, 7).Draw(
		rt, "epochs")]
	avail := 0
	for e := 0; e < nEpochs; e++ {
		ep := c08fEpochPlan{}
		if e == 0 {
			ep.NOut = []int{1, 2, 2, 3, 3, 4}[rapid.IntRange(0, 5).Draw(
				rt, "nout")]
			ep.MergeOut = rapid.IntRange(0, 4).Draw(rt, "merge") == 0
		} else {
			ep.NOut = []int{0, 1, 2, 2}[rapid.IntRange(0, 3).Draw(
				rt, "nout")]
			ep.MergeOut = rapid.IntRange(0, 1).Draw(rt, "merge") == 0
		}

		nRounds := 1
		if e == 0 {
			nRounds = []int{1, 1, 1, 2}[rapid.IntRange(0, 3).Draw(
				rt, "rounds")]
		} else {
			nRounds = []int{0, 1, 1, 2}[rapid.IntRange(0, 3).Draw(
				rt, "rounds")]
		}
		ep.MergeOut = ep.MergeOut && nRounds > 0 && ep.NOut > 0
		if !ep.MergeOut {
			avail += ep.NOut
		}

		for r := 0; r < nRounds; r++ {
			rp := c08fRoundPlan{}
			// All but the last round of an epoch were handled by
			// the link while it was up (at most one package can be
			// in FwdStateLockedIn when a link starts).
			rp.Processed = r < nRounds-1 ||
				rapid.IntRange(0, 2).Draw(rt, "processed") == 0

			mixed := rapid.IntRange(0, 2).Draw(rt, "mixed") > 0
			nAdd := rapid.IntRange(0, 3).Draw(rt, "nadd")
			nSF := rapid.IntRange(0, 2).Draw(rt, "nsf")
			if mixed {
				if nAdd == 0 {
					nAdd = 1
				}
				if nSF == 0 {
					nSF = 1
				}
			}
			if nSF > avail {
				nSF = avail
			}
			if nAdd+nSF == 0 {
				nAdd = 1
			}

			// Order of Bob's updates: drawn interleaving.
			a, s := nAdd, nSF
			first := true
			for a+s > 0 {
				isAdd := s == 0 || (a > 0 &&
					rapid.IntRange(0, a+s-1).Draw(rt, "ord") < a)
				u := c08fUpdPlan{Add: isAdd}
				if isAdd {
					a--
					u.Kind = []int{
						c08fHold, c08fHold, c08fHold,
						c08fFwd, c08fFwd, c08fFwd,
						c08fPay, c08fUnknown, c08fMalformed,
						c08fPay,
					}[rapid.IntRange(0, 9).Draw(rt, "kind")]
					if mixed && first {
						u.Kind = []int{c08fHold, c08fFwd}[rapid.
							IntRange(0, 1).Draw(rt, "kind2")]
						first = false
					}
					u.Dust = rapid.IntRange(0, 5).Draw(rt, "dust") == 0
				} else {
					s--
					u.Settle = rapid.IntRange(0, 1).Draw(rt, "settle") == 0
					u.Pick = rapid.IntRange(0, avail-1).Draw(rt, "pick")
					avail--
				}
				rp.Upds = append(rp.Upds, u)
			}
			ep.Rounds = append(ep.Rounds, rp)

			if r == 0 && ep.MergeOut {
				avail += ep.NOut
			}
		}

		ep.AckAll = e > 0 && rapid.IntRange(0, 3).Draw(rt, "ackall") == 0
		ep.Dice = make([]int, 24)
		for i := range ep.Dice {
			ep.Dice[i] = rapid.IntRange(0, 99).Draw(rt, "die")
		}
		p.Epochs = append(p.Epochs, ep)
	}

	return p
}

// ---------------------------------------------------------------------------
// Reference model of the forwarding packages on disk
// ---------------------------------------------------------------------------

type c08fAdd struct {
	kind     int
	id       uint64 // Bob's htlc index == incoming HTLC id
	hash     [32]byte
	preimage [32]byte
	amt      lnwire.MilliSatoshi
	expiry   uint32
	fwdAmt   lnwire.MilliSatoshi
	fwdCltv  uint32
	next     lnwire.ShortChannelID

	acked bool
	// handed: reference carried by the packet the link gave to the switch
	// (what the switch would use for its ack).
	handed *channeldb.AddRef
}

type c08fSF struct {
	settle   bool
	id       uint64 // Alice's htlc index == outgoing HTLC id
	preimage [32]byte
	reason   []byte

	acked  bool
	handed *channeldb.SettleFailRef
}

type c08fPkg struct {
	height    uint64
	adds      []*c08fAdd
	sfs       []*c08fSF
	processed bool // FwdFilter persisted
	// gone: removed (or allowed to have been removed) from disk.
	mustBeGone bool
	mayBeGone  bool
}

func (p *c08fPkg) ackFull() bool {
	for _, a := range p.adds {
		if !a.acked {
			return false
		}
	}

	return true
}

func (p *c08fPkg) sfFull() bool {
	for _, s := range p.sfs {
		if !s.acked {
			return false
		}
	}

	return true
}

func c08fCell(n, set int) string {
	switch {
	case n == 0:
		return "empty"
	case set == n:
		return "full"
	case set == 0:
		return "none"
	}

	return "partial"
}

type c08fOut struct {
	id       uint64
	preimage [32]byte
	hash     [32]byte
}

// ---------------------------------------------------------------------------
// Recorders
// ---------------------------------------------------------------------------

type c08fBatch struct {
	replay bool
	pkts   []*htlcPacket
}

type c08fRecorder struct {
	mu      sync.Mutex
	batches []c08fBatch
}

func (r *c08fRecorder) forward(_ <-chan struct{}, replay bool,
	pkts ...*htlcPacket) error {

	r.mu.Lock()
	r.batches = append(r.batches, c08fBatch{replay: replay, pkts: pkts})
	r.mu.Unlock()

	return nil
}

func (r *c08fRecorder) take() []c08fBatch {
	r.mu.Lock()
	defer r.mu.Unlock()
	b := r.batches
	r.batches = nil

	return b
}

type c08fNotify struct {
	hash lntypes.Hash
	amt  lnwire.MilliSatoshi
	key  models.CircuitKey
}

type c08fRegistry struct {
	*mockInvoiceRegistry

	mu    sync.Mutex
	calls []c08fNotify
}

func (r *c08fRegistry) NotifyExitHopHtlc(rhash lntypes.Hash,
	amt lnwire.MilliSatoshi, expiry uint32, currentHeight int32,
	circuitKey models.CircuitKey, hodlChan chan<- interface{},
	wireCustomRecords lnwire.CustomRecords,
	payload invoices.Payload) (invoices.HtlcResolution, error) {

	r.mu.Lock()
	r.calls = append(r.calls, c08fNotify{rhash, amt, circuitKey})
	r.mu.Unlock()

	return r.mockInvoiceRegistry.NotifyExitHopHtlc(
		rhash, amt, expiry, currentHeight, circuitKey, hodlChan,
		wireCustomRecords, payload,
	)
}

func (r *c08fRegistry) take() []c08fNotify {
	r.mu.Lock()
	defer r.mu.Unlock()
	c := r.calls
	r.calls = nil

	return c
}

// c08fReplayGoroutines reports whether any goroutine of the process is inside
// (or was created by and has not finished) the settle/fail re-forwarding of a
// link.
func c08fReplayGoroutines() bool {
	buf := make([]byte, 1<<20)
	for {
		n := runtime.Stack(buf, true)
		if n < len(buf) {
			buf = buf[:n]
			break
		}
		buf = make([]byte, 2*len(buf))
	}

	return bytes.Contains(buf, []byte(").processRemoteSettleFails")) ||
		bytes.Contains(buf, []byte(").forwardBatch"))
}

// ---------------------------------------------------------------------------
// Runner
// ---------------------------------------------------------------------------

type c08fResult struct {
	bad          []string
	inconclusive string
	labels       []string
	nontrivial   bool
	sample       any
}

type c08fRun struct {
	t    *testing.T
	plan *c08fPlan
	res  *c08fResult

	pair   *c08ChanPair
	alice  *lnwallet.LightningChannel // Alice's end while her link is down
	bob    *lnwallet.LightningChannel
	hsw    *Switch
	reg    *c08fRegistry
	scid   lnwire.ShortChannelID
	nextSc lnwire.ShortChannelID

	ctr      uint64
	pkgs     []*c08fPkg
	outs     []*c08fOut // lockedin outgoing htlcs not yet answered
	pendOuts []*c08fOut // offered in the current dance
	labels   map[string]bool
	starts   int
	dice     []int
}

func (r *c08fRun) label(s string) { r.labels[s] = true }

func (r *c08fRun) badf(f string, a ...any) {
	r.res.bad = append(r.res.bad, fmt.Sprintf(f, a...))
}

func (r *c08fRun) die() int {
	if len(r.dice) == 0 {
		return 99
	}
	d := r.dice[0]
	r.dice = r.dice[1:]

	return d
}

func (r *c08fRun) secret(tag byte) (pre, hash [32]byte) {
	r.ctr++
	var b [17]byte
	copy(b[:8], r.plan.Seed[:])
	b[8] = tag
	binary.BigEndian.PutUint64(b[9:], r.ctr)
	pre = sha256.Sum256(b[:])
	hash = sha256.Sum256(pre[:])

	return
}

// ---- history on the two state machines -----------------------------------

func (r *c08fRun) bobSigns() error {
	sigs, err := r.bob.SignNextCommitment(context.Background())
	if err != nil {
		return fmt.Errorf("bob sign: %w", err)
	}
	if err := r.alice.ReceiveNewCommitment(sigs.CommitSigs); err != nil {
		return fmt.Errorf("alice recv sig: %w", err)
	}
	rev, _, _, err := r.alice.RevokeCurrentCommitment()
	if err != nil {
		return fmt.Errorf("alice revoke: %w", err)
	}
	if _, _, err := r.bob.ReceiveRevocation(rev); err != nil {
		return fmt.Errorf("bob recv rev: %w", err)
	}

	return nil
}

// bobRevokes hands Bob's revocation to Alice's state machine, which writes a
// forwarding package.
func (r *c08fRun) bobRevokes() (*channeldb.FwdPkg, error) {
	rev, _, _, err := r.bob.RevokeCurrentCommitment()
	if err != nil {
		return nil, fmt.Errorf("bob revoke: %w", err)
	}
	pkg, _, err := r.alice.ReceiveRevocation(rev)
	if err != nil {
		return nil, fmt.Errorf("alice recv rev: %w", err)
	}

	return pkg, nil
}

func (r *c08fRun) aliceSigns() (*channeldb.FwdPkg, error) {
	sigs, err := r.alice.SignNextCommitment(context.Background())
	if err != nil {
		return nil, fmt.Errorf("alice sign: %w", err)
	}
	if err := r.bob.ReceiveNewCommitment(sigs.CommitSigs); err != nil {
		return nil, fmt.Errorf("bob recv sig: %w", err)
	}

	return r.bobRevokes()
}

// flush completes the commitment dance (Bob signs first). `want` is the
// package the first of Bob's revocations has to produce; all further ones
// have to be empty.
func (r *c08fRun) flush(want *c08fPkg) error {
	for i := 0; i < 6; i++ {
		bo, ao := r.bob.OweCommitment(), r.alice.OweCommitment()
		if !bo && !ao {
			break
		}
		if bo {
			if err := r.bobSigns(); err != nil {
				return err
			}
		}
		if r.alice.OweCommitment() {
			pkg, err := r.aliceSigns()
			if err != nil {
				return err
			}
			if err := r.notePkg(pkg, want); err != nil {
				return err
			}
			want = nil

			// Alice's outgoing htlcs offered in this dance are
			// locked in once Bob signed for them as well.
		}
	}
	if r.bob.OweCommitment() || r.alice.OweCommitment() {
		return fmt.Errorf("dance does not terminate")
	}
	if want != nil {
		return fmt.Errorf("no revocation of bob in the dance")
	}
	r.outs = append(r.outs, r.pendOuts...)
	r.pendOuts = nil

	return nil
}

// notePkg records a package written by Alice's ReceiveRevocation and checks
// the harness' expectation of its content against the real package.
func (r *c08fRun) notePkg(real *channeldb.FwdPkg, want *c08fPkg) error {
	if want == nil {
		want = &c08fPkg{}
	}
	want.height = real.Height
	if len(real.Adds) != len(want.adds) ||
		len(real.SettleFails) != len(want.sfs) {

		return fmt.Errorf("package %d: %d adds %d settle/fails, "+
			"harness expected %d/%d", real.Height, len(real.Adds),
			len(real.SettleFails), len(want.adds), len(want.sfs))
	}
	for i, u := range real.Adds {
		m, ok := u.UpdateMsg.(*lnwire.UpdateAddHTLC)
		if !ok || m.ID != want.adds[i].id {
			return fmt.Errorf("package %d add %d: %v", real.Height, i,
				u.UpdateMsg)
		}
	}
	for i, u := range real.SettleFails {
		var id uint64
		switch m := u.UpdateMsg.(type) {
		case *lnwire.UpdateFulfillHTLC:
			id = m.ID
		case *lnwire.UpdateFailHTLC:
			id = m.ID
		default:
			return fmt.Errorf("package %d settle/fail %d: %T",
				real.Height, i, u.UpdateMsg)
		}
		if id != want.sfs[i].id {
			return fmt.Errorf("package %d settle/fail %d: id %d != %d",
				real.Height, i, id, want.sfs[i].id)
		}
	}
	r.pkgs = append(r.pkgs, want)

	return nil
}

func (r *c08fRun) offerOutgoing(n int) error {
	for i := 0; i < n; i++ {
		pre, hash := r.secret('o')
		htlc := &lnwire.UpdateAddHTLC{
			PaymentHash: hash,
			Amount:      lnwire.NewMSatFromSatoshis(30_000) + lnwire.MilliSatoshi(r.ctr),
			Expiry:      testStartingHeight + 40,
		}
		id, err := r.alice.AddHTLC(htlc, nil)
		if err != nil {
			return fmt.Errorf("alice add: %w", err)
		}
		htlc.ID = id
		if _, err := r.bob.ReceiveHTLC(htlc); err != nil {
			return fmt.Errorf("bob recv add: %w", err)
		}
		r.pendOuts = append(r.pendOuts, &c08fOut{
			id: id, preimage: pre, hash: hash,
		})
	}

	return nil
}

func (r *c08fRun) bobAdd(u c08fUpdPlan) (*c08fAdd, error) {
	a := &c08fAdd{kind: u.Kind}
	tag := byte('a')
	a.preimage, a.hash = r.secret(tag)

	a.amt = lnwire.NewMSatFromSatoshis(20_000) + lnwire.MilliSatoshi(r.ctr)
	if u.Dust {
		a.amt = lnwire.NewMSatFromSatoshis(150) + lnwire.MilliSatoshi(r.ctr)
	}
	a.expiry = testStartingHeight + testInvoiceCltvExpiry
	a.fwdAmt, a.fwdCltv, a.next = a.amt, a.expiry, hop.Exit

	mk := func(next lnwire.ShortChannelID, amt lnwire.MilliSatoshi,
		cltv uint32) *hop.Payload {

		var nb [8]byte
		binary.BigEndian.PutUint64(nb[:], next.ToUint64())

		return hop.NewLegacyPayload(&sphinx.HopData{
			NextAddress:   nb,
			ForwardAmount: uint64(amt),
			OutgoingCltv:  cltv,
		})
	}

	var (
		blob [lnwire.OnionPacketSize]byte
		err  error
	)
	switch u.Kind {
	case c08fFwd:
		a.expiry = testStartingHeight + testInvoiceCltvExpiry + 6
		a.fwdCltv = a.expiry - 6
		a.fwdAmt = a.amt - 1000
		if u.Dust {
			a.fwdAmt = a.amt - 10
		}
		a.next = r.nextSc
		blob, err = generateRoute(
			mk(a.next, a.fwdAmt, a.fwdCltv),
			mk(hop.Exit, a.fwdAmt, a.fwdCltv),
		)

	case c08fMalformed:
		// 100 hops do not fit into the blob: the mock decoder fails.
		blob[3] = 100

	default:
		blob, err = generateRoute(mk(hop.Exit, a.amt, a.expiry))
	}
	if err != nil {
		return nil, err
	}

	if u.Kind == c08fHold || u.Kind == c08fPay {
		_, addr := r.secret('p')
		inv := invoices.Invoice{
			CreationDate: time.Now(),
			Terms: invoices.ContractTerm{
				FinalCltvDelta: testInvoiceCltvExpiry,
				Value:          a.amt,
				PaymentAddr:    addr,
				Features: lnwire.NewFeatureVector(
					nil, lnwire.Features,
				),
			},
		}
		if u.Kind == c08fHold {
			inv.HodlInvoice = true
		} else {
			pre := lntypes.Preimage(a.preimage)
			inv.Terms.PaymentPreimage = &pre
		}
		err := r.reg.AddInvoice(
			context.Background(), inv, lntypes.Hash(a.hash),
		)
		if err != nil {
			return nil, fmt.Errorf("add invoice: %w", err)
		}
	}

	htlc := &lnwire.UpdateAddHTLC{
		PaymentHash: a.hash,
		Amount:      a.amt,
		Expiry:      a.expiry,
		OnionBlob:   blob,
	}
	id, err := r.bob.AddHTLC(htlc, nil)
	if err != nil {
		return nil, fmt.Errorf("bob add: %w", err)
	}
	htlc.ID = id
	a.id = id
	if _, err := r.alice.ReceiveHTLC(htlc); err != nil {
		return nil, fmt.Errorf("alice recv add: %w", err)
	}

	return a, nil
}

func (r *c08fRun) bobAnswers(u c08fUpdPlan) (*c08fSF, error) {
	if len(r.outs) == 0 {
		return nil, fmt.Errorf("no outgoing htlc to answer")
	}
	k := u.Pick % len(r.outs)
	o := r.outs[k]
	r.outs = append(r.outs[:k:k], r.outs[k+1:]...)

	s := &c08fSF{settle: u.Settle, id: o.id, preimage: o.preimage}
	if u.Settle {
		err := r.bob.SettleHTLC(o.preimage, o.id, nil, nil, nil)
		if err != nil {
			return nil, fmt.Errorf("bob settle: %w", err)
		}
		err = r.alice.ReceiveHTLCSettle(o.preimage, o.id)
		if err != nil {
			return nil, fmt.Errorf("alice recv settle: %w", err)
		}

		return s, nil
	}

	_, h := r.secret('f')
	s.reason = bytes.Repeat(h[:], 10)[:lnwire.FailureMessageLength+2+2+32]
	if err := r.bob.FailHTLC(o.id, s.reason, nil, nil, nil); err != nil {
		return nil, fmt.Errorf("bob fail: %w", err)
	}
	if err := r.alice.ReceiveFailHTLC(o.id, s.reason); err != nil {
		return nil, fmt.Errorf("alice recv fail: %w", err)
	}

	return s, nil
}

func (r *c08fRun) round(rp c08fRoundPlan, nOut int) error {
	pkg := &c08fPkg{}
	for _, u := range rp.Upds {
		if u.Add {
			a, err := r.bobAdd(u)
			if err != nil {
				return err
			}
			pkg.adds = append(pkg.adds, a)
		} else {
			s, err := r.bobAnswers(u)
			if err != nil {
				return err
			}
			pkg.sfs = append(pkg.sfs, s)
		}
	}
	if err := r.offerOutgoing(nOut); err != nil {
		return err
	}
	if nOut > 0 {
		r.label("hist:both_directions_in_one_dance")
	}
	if err := r.flush(pkg); err != nil {
		return err
	}

	if rp.Processed {
		// The link handled the revocation while it was up: the
		// forwarding decision is on disk.
		f := channeldb.NewPkgFilter(uint16(len(pkg.adds)))
		for i, a := range pkg.adds {
			if a.kind == c08fFwd {
				f.Set(uint16(i))
			}
		}
		if err := r.alice.SetFwdFilter(pkg.height, f); err != nil {
			return fmt.Errorf("set fwd filter: %w", err)
		}
		pkg.processed = true
	}

	return nil
}

// ackStep sets generated subsets of the ack bits, the way the switch / the
// links do once a forward was durably handled.
func (r *c08fRun) ackStep(ep c08fEpochPlan) error {
	r.dice = ep.Dice
	dance := false
	for _, p := range r.pkgs {
		for i, a := range p.adds {
			if a.acked || !p.processed {
				continue
			}
			if a.kind != c08fFwd && a.kind != c08fHold {
				continue
			}
			d := r.die()
			all := ep.AckAll && a.handed != nil
			if !(all || d < 50) {
				continue
			}
			ref := channeldb.AddRef{Height: p.height, Index: uint16(i)}
			if a.handed != nil {
				ref = *a.handed
			}
			if a.kind == c08fFwd && r.die() < 50 {
				// Switch-side ack (spurious / duplicate response
				// path): the bit alone.
				if err := r.alice.AckAddHtlcs(ref); err != nil {
					return fmt.Errorf("ack add: %w", err)
				}
				r.label("ack:add_via_api")
			} else {
				// The response came back (or the hold invoice was
				// cancelled): the incoming htlc is failed with the
				// SourceRef and the commitment is signed.
				reason := bytes.Repeat([]byte{7}, 292)
				err := r.alice.FailHTLC(a.id, reason, &ref, nil, nil)
				if err != nil {
					return fmt.Errorf("alice fail: %w", err)
				}
				err = r.bob.ReceiveFailHTLC(a.id, reason)
				if err != nil {
					return fmt.Errorf("bob recv fail: %w", err)
				}
				dance = true
				r.label("ack:add_via_signed_fail")
			}
			a.acked = true
		}
		for j, s := range p.sfs {
			if s.acked {
				continue
			}
			d := r.die()
			thr := 30
			if !p.processed {
				thr = 12
			}
			all := ep.AckAll && s.handed != nil
			if !(all || d < thr) {
				continue
			}
			ref := channeldb.SettleFailRef{
				Source: r.scid, Height: p.height, Index: uint16(j),
			}
			if s.handed != nil {
				ref = *s.handed
			}
			if err := r.alice.AckSettleFails(ref); err != nil {
				return fmt.Errorf("ack settle/fail: %w", err)
			}
			s.acked = true
			r.label("ack:settlefail_via_api")
		}
	}
	if dance {
		return r.flush(&c08fPkg{})
	}

	return nil
}

// ---- the link -------------------------------------------------------------

type c08fObserved struct {
	batches  []c08fBatch
	notifies []c08fNotify
	msgs     []lnwire.Message
	failed   []string
}

// startLink restores Alice's channel from the database, runs a new link on it
// until the start-up replay is complete, stops it and restores the channel
// again.
func (r *c08fRun) startLink() (*c08fObserved, error) {
	ch, err := r.pair.a.restore()
	if err != nil {
		return nil, fmt.Errorf("restore: %w", err)
	}

	var (
		rec     = &c08fRecorder{}
		decoder = newMockIteratorDecoder()
		obf     = NewMockObfuscator()
		peer    = &mockPeer{
			sentMsgs: make(chan lnwire.Message, 2000),
			quit:     make(chan struct{}),
		}
		resumed    = make(chan struct{})
		resumeOnce sync.Once
		failMu     sync.Mutex
		failed     []string
	)
	defer close(peer.quit)

	cfg := ChannelLinkConfig{
		FwrdingPolicy: models.ForwardingPolicy{
			MinHTLCOut:    lnwire.NewMSatFromSatoshis(5),
			BaseFee:       lnwire.NewMSatFromSatoshis(1),
			TimeLockDelta: 6,
		},
		Peer:               peer,
		BestHeight:         r.hsw.BestHeight,
		Circuits:           r.hsw.CircuitModifier(),
		ForwardPackets:     rec.forward,
		DecodeHopIterators: decoder.DecodeHopIterators,
		ExtractErrorEncrypter: func(*btcec.PublicKey) (
			hop.ErrorEncrypter, lnwire.FailCode) {

			return obf, lnwire.CodeNone
		},
		FetchLastChannelUpdate: mockGetChanUpdateMessage,
		PreimageCache:          newMockPreimageCache(),
		OnChannelFailure: func(_ lnwire.ChannelID,
			_ lnwire.ShortChannelID, e LinkFailureError) {

			failMu.Lock()
			failed = append(failed, e.Error())
			failMu.Unlock()
		},
		UpdateContractSignals: func(*contractcourt.ContractSignals) error {
			return nil
		},
		NotifyContractUpdate: func(*contractcourt.ContractUpdate) error {
			return nil
		},
		Registry:                r.reg,
		FeeEstimator:            newMockFeeEstimator(),
		ChainEvents:             &contractcourt.ChainEventSubscription{},
		BatchTicker:             ticker.NewForce(time.Hour),
		FwdPkgGCTicker:          ticker.NewForce(time.Hour),
		PendingCommitTicker:     ticker.New(time.Hour),
		BatchSize:               10000,
		MinUpdateTimeout:        30 * time.Minute,
		MaxUpdateTimeout:        40 * time.Minute,
		MaxOutgoingCltvExpiry:   DefaultMaxOutgoingCltvExpiry,
		MaxFeeAllocation:        DefaultMaxLinkFeeAllocation,
		NotifyActiveLink:        func(wire.OutPoint) {},
		NotifyActiveChannel:     func(wire.OutPoint) { resumeOnce.Do(func() { close(resumed) }) },
		NotifyInactiveChannel:   func(wire.OutPoint) {},
		NotifyInactiveLinkEvent: func(wire.OutPoint) {},
		NotifyChannelUpdate:     func(*cstate.OpenChannel) {},
		HtlcNotifier:            r.hsw.cfg.HtlcNotifier,
		GetAliases: func(lnwire.ShortChannelID) []lnwire.ShortChannelID {
			return nil
		},
		ShouldFwdExpAccountability: func() bool { return true },
	}

	r.reg.take()
	link := NewChannelLink(cfg, ch)
	if err := r.hsw.AddLink(link); err != nil {
		return nil, fmt.Errorf("add link: %w", err)
	}

	// Barrier 1: resumeLink returned (or the link gave up).
	deadline := time.Duration(vstats.EnvInt("VERIF_C08F_DEADLINE_S", 60)) *
		time.Second
	var timedOut string
	hasFailed := func() bool {
		failMu.Lock()
		defer failMu.Unlock()

		return len(failed) > 0
	}
	t0 := time.Now()
wait:
	for {
		select {
		case <-resumed:
			break wait
		case <-time.After(2 * time.Millisecond):
		}
		switch {
		case hasFailed():
			// The link reported a failure and will not resume: a
			// verdict of its own (see check).
			break wait
		case time.Since(t0) > deadline:
			timedOut = "link did not resume"
			break wait
		}
	}

	// Barrier 2: every re-forwarding goroutine has run to completion.
	if timedOut == "" {
		t0 = time.Now()
		for c08fReplayGoroutines() {
			if time.Since(t0) > deadline {
				timedOut = "re-forwarding goroutine still alive"
				break
			}
			time.Sleep(200 * time.Microsecond)
		}
	}

	r.hsw.RemoveLink(link.ChanID())

	obs := &c08fObserved{
		batches:  rec.take(),
		notifies: r.reg.take(),
	}
	failMu.Lock()
	obs.failed = failed
	failMu.Unlock()
drain:
	for {
		select {
		case m := <-peer.sentMsgs:
			obs.msgs = append(obs.msgs, m)
		default:
			break drain
		}
	}

	if timedOut != "" {
		return nil, fmt.Errorf("timeout: %s", timedOut)
	}

	r.alice, err = r.pair.a.restore()
	if err != nil {
		return nil, fmt.Errorf("restore: %w", err)
	}

	return obs, nil
}

// check compares what the link did at start-up with the reference model,
// updates the model and completes the commitment dance the link started.
func (r *c08fRun) check(obs *c08fObserved) error {
	r.starts++
	tag := fmt.Sprintf("start %d", r.starts)
	if r.starts >= 2 {
		r.label("second_restart")
	}
	if r.starts >= 3 {
		r.label("third_restart")
	}

	for _, f := range obs.failed {
		r.badf("%s: link failed during the replay: %s", tag, f)
	}

	// ---- expectations from the model ---------------------------------
	type sfKey struct {
		ref  channeldb.SettleFailRef
		id   uint64
		body string
	}
	type addKey struct {
		ref    channeldb.AddRef
		id     uint64
		next   lnwire.ShortChannelID
		amt    lnwire.MilliSatoshi
		inAmt  lnwire.MilliSatoshi
		cltv   uint32
		hash   [32]byte
		replay bool
	}
	var (
		wantSF    = map[sfKey]int{}
		wantAdd   = map[addKey]int{}
		wantNtfy  = map[c08fNotify]int{}
		wantFul   = map[string]int{}
		wantFail  = map[uint64]int{}
		wantMalf  = map[uint64]int{}
		sfOf      = map[sfKey]*c08fSF{}
		addOf     = map[addKey]*c08fAdd{}
		localAdds []*c08fAdd
		live      int
	)
	for _, p := range r.pkgs {
		if p.mustBeGone {
			continue
		}
		if p.processed && p.ackFull() && p.sfFull() {
			// FwdStateCompleted: garbage.
			p.mustBeGone = true
			r.label("pkg:completed_removed")
			continue
		}
		if len(p.adds)+len(p.sfs) == 0 {
			continue
		}
		live++

		nAck, nSF := 0, 0
		for _, a := range p.adds {
			if a.acked {
				nAck++
			}
		}
		for _, s := range p.sfs {
			if s.acked {
				nSF++
			}
		}
		r.label("cell:ack=" + c08fCell(len(p.adds), nAck) + ",sf=" +
			c08fCell(len(p.sfs), nSF))
		if p.processed {
			r.label("pkg:processed")
		} else {
			r.label("pkg:lockedin")
		}
		if nAck < len(p.adds) && nSF < len(p.sfs) {
			r.res.nontrivial = true
			r.label("pkg:unacked_add+unforwarded_settlefail")
			for _, s := range p.sfs {
				if !s.acked && s.settle {
					r.label("pkg:unacked_add+unforwarded_settle")
				}
			}
		}

		for j, s := range p.sfs {
			if s.acked {
				continue
			}
			k := sfKey{
				ref: channeldb.SettleFailRef{
					Source: r.scid, Height: p.height,
					Index: uint16(j),
				},
				id: s.id,
			}
			if s.settle {
				k.body = fmt.Sprintf("settle:%x", s.preimage)
			} else {
				k.body = fmt.Sprintf("fail:%x", s.reason)
			}
			wantSF[k]++
			sfOf[k] = s
		}
		for i, a := range p.adds {
			if a.acked {
				continue
			}
			r.label("readd:" + c08fKindNames[a.kind])
			ck := models.CircuitKey{ChanID: r.scid, HtlcID: a.id}
			switch a.kind {
			case c08fHold:
				wantNtfy[c08fNotify{a.hash, a.amt, ck}]++
			case c08fPay:
				wantNtfy[c08fNotify{a.hash, a.amt, ck}]++
				wantFul[fmt.Sprintf("%d:%x", a.id, a.preimage)]++
				localAdds = append(localAdds, a)
			case c08fUnknown:
				wantNtfy[c08fNotify{a.hash, a.amt, ck}]++
				wantFail[a.id]++
				localAdds = append(localAdds, a)
			case c08fMalformed:
				wantMalf[a.id]++
				localAdds = append(localAdds, a)
			case c08fFwd:
				k := addKey{
					ref: channeldb.AddRef{
						Height: p.height, Index: uint16(i),
					},
					id: a.id, next: a.next, amt: a.fwdAmt,
					inAmt: a.amt, cltv: a.fwdCltv, hash: a.hash,
					replay: p.processed,
				}
				wantAdd[k]++
				addOf[k] = a
			}
		}
	}
	if live > 1 {
		r.label("packages>1")
	}

	// ---- observed ------------------------------------------------------
	gotSF := map[sfKey]int{}
	gotAdd := map[addKey]int{}
	for _, b := range obs.batches {
		for _, pk := range b.pkts {
			switch m := pk.htlc.(type) {
			case *lnwire.UpdateFulfillHTLC:
				k := sfKey{id: m.ID, body: fmt.Sprintf("settle:%x",
					m.PaymentPreimage)}
				if pk.destRef != nil {
					k.ref = *pk.destRef
				}
				if pk.outgoingChanID != r.scid ||
					pk.outgoingHTLCID != m.ID {

					r.badf("%s: settle handed to the switch "+
						"with outgoing key %v:%d, htlc %d", tag,
						pk.outgoingChanID, pk.outgoingHTLCID, m.ID)
				}
				gotSF[k]++
				if s := sfOf[k]; s != nil {
					ref := k.ref
					s.handed = &ref
				}

			case *lnwire.UpdateFailHTLC:
				k := sfKey{id: m.ID, body: fmt.Sprintf("fail:%x",
					[]byte(m.Reason))}
				if pk.destRef != nil {
					k.ref = *pk.destRef
				}
				if pk.outgoingChanID != r.scid ||
					pk.outgoingHTLCID != m.ID {

					r.badf("%s: fail handed to the switch with "+
						"outgoing key %v:%d, htlc %d", tag,
						pk.outgoingChanID, pk.outgoingHTLCID, m.ID)
				}
				gotSF[k]++
				if s := sfOf[k]; s != nil {
					ref := k.ref
					s.handed = &ref
				}

			case *lnwire.UpdateAddHTLC:
				k := addKey{
					id: pk.incomingHTLCID, next: pk.outgoingChanID,
					amt: m.Amount, inAmt: pk.incomingAmount,
					cltv: m.Expiry, hash: m.PaymentHash,
					replay: b.replay,
				}
				if pk.sourceRef != nil {
					k.ref = *pk.sourceRef
				}
				if pk.incomingChanID != r.scid {
					r.badf("%s: add handed to the switch with "+
						"incoming channel %v", tag,
						pk.incomingChanID)
				}
				gotAdd[k]++
				if a := addOf[k]; a != nil {
					ref := k.ref
					a.handed = &ref
				}

			default:
				r.badf("%s: unexpected packet %T", tag, pk.htlc)
			}
		}
	}
	for k, n := range wantSF {
		switch g := gotSF[k]; {
		case g == 0:
			r.badf("%s: %s of outgoing htlc %d (package %d index %d, "+
				"not acked) was NOT handed to the switch: the "+
				"outgoing htlc is irrevocably resolved, the incoming "+
				"one dangles", tag, strings.SplitN(k.body, ":", 2)[0],
				k.id, k.ref.Height, k.ref.Index)
		case g != n:
			r.badf("%s: settle/fail of outgoing htlc %d handed to the "+
				"switch %d times", tag, k.id, g)
		}
	}
	for k, g := range gotSF {
		if wantSF[k] == 0 {
			r.badf("%s: unexpected settle/fail handed to the switch: "+
				"htlc %d ref %+v %.24s (acked, unknown or wrong "+
				"reference) x%d", tag, k.id, k.ref, k.body, g)
		}
	}
	for k, n := range wantAdd {
		switch g := gotAdd[k]; {
		case g == 0:
			r.badf("%s: un-acked forwarded add %d (package %d index "+
				"%d, replay=%v) was not re-forwarded with the "+
				"expected content", tag, k.id, k.ref.Height,
				k.ref.Index, k.replay)
		case g != n:
			r.badf("%s: add %d forwarded %d times", tag, k.id, g)
		}
	}
	for k, g := range gotAdd {
		if wantAdd[k] == 0 {
			r.badf("%s: unexpected add handed to the switch: htlc %d "+
				"ref %+v next %v amt %v replay=%v x%d", tag, k.id,
				k.ref, k.next, k.amt, k.replay, g)
		}
	}

	gotNtfy := map[c08fNotify]int{}
	for _, n := range obs.notifies {
		gotNtfy[n]++
	}
	for k, n := range wantNtfy {
		if gotNtfy[k] != n {
			r.badf("%s: exit hop htlc %d: registry notified %d times, "+
				"want %d", tag, k.key.HtlcID, gotNtfy[k], n)
		}
	}
	for k, g := range gotNtfy {
		if wantNtfy[k] == 0 {
			r.badf("%s: registry notified for htlc %v x%d (acked or "+
				"unknown)", tag, k.key, g)
		}
	}

	gotFul, gotFail, gotMalf := map[string]int{}, map[uint64]int{},
		map[uint64]int{}
	var sigs []*lnwire.CommitSig
	for _, m := range obs.msgs {
		switch m := m.(type) {
		case *lnwire.UpdateFulfillHTLC:
			gotFul[fmt.Sprintf("%d:%x", m.ID, m.PaymentPreimage)]++
		case *lnwire.UpdateFailHTLC:
			gotFail[m.ID]++
		case *lnwire.UpdateFailMalformedHTLC:
			gotMalf[m.ID]++
		case *lnwire.CommitSig:
			sigs = append(sigs, m)
		case *lnwire.UpdateAddHTLC, *lnwire.RevokeAndAck:
			r.badf("%s: link sent %T at start-up", tag, m)
		}
	}
	cmpS := func(what string, want, got map[string]int) {
		for k, n := range want {
			if got[k] != n {
				r.badf("%s: %s %s sent %d times, want %d", tag, what,
					k, got[k], n)
			}
		}
		for k, g := range got {
			if want[k] == 0 {
				r.badf("%s: unexpected %s %s x%d", tag, what, k, g)
			}
		}
	}
	cmpU := func(what string, want, got map[uint64]int) {
		for k, n := range want {
			if got[k] != n {
				r.badf("%s: %s for htlc %d sent %d times, want %d",
					tag, what, k, got[k], n)
			}
		}
		for k, g := range got {
			if want[k] == 0 {
				r.badf("%s: unexpected %s for htlc %d x%d", tag, what,
					k, g)
			}
		}
	}
	cmpS("update_fulfill_htlc", wantFul, gotFul)
	cmpU("update_fail_htlc", wantFail, gotFail)
	cmpU("update_fail_malformed_htlc", wantMalf, gotMalf)

	wantSigs := 0
	if len(localAdds) > 0 {
		wantSigs = 1
	}
	if len(sigs) != wantSigs {
		r.badf("%s: %d commit_sig sent at start-up, want %d (%d htlcs "+
			"answered by the replay)", tag, len(sigs), wantSigs,
			len(localAdds))
	}
	if len(r.res.bad) > 0 {
		return nil
	}

	// ---- model after the replay ---------------------------------------
	for _, p := range r.pkgs {
		if p.mustBeGone {
			continue
		}
		if !p.processed && len(p.adds) > 0 {
			p.processed = true
		}
	}
	if len(sigs) == 1 {
		// The answers are part of a signed commitment: acked.
		for _, a := range localAdds {
			a.acked = true
		}
		for _, p := range r.pkgs {
			if !p.mustBeGone && p.processed && p.ackFull() &&
				p.sfFull() && len(p.adds) > 0 {

				p.mayBeGone = true
			}
		}
	}

	// ---- disk ---------------------------------------------------------
	r.checkDisk(tag)
	if len(r.res.bad) > 0 {
		return nil
	}

	// ---- complete the dance the link started ---------------------------
	if len(sigs) == 1 {
		for _, m := range obs.msgs {
			var err error
			switch m := m.(type) {
			case *lnwire.UpdateFulfillHTLC:
				err = r.bob.ReceiveHTLCSettle(m.PaymentPreimage, m.ID)
			case *lnwire.UpdateFailHTLC:
				err = r.bob.ReceiveFailHTLC(m.ID, m.Reason)
			case *lnwire.UpdateFailMalformedHTLC:
				err = r.bob.ReceiveFailHTLC(
					m.ID, bytes.Repeat([]byte{9}, 292),
				)
			}
			if err != nil {
				r.badf("%s: peer rejects the link's %T: %v", tag, m,
					err)

				return nil
			}
		}
		err := r.bob.ReceiveNewCommitment(&lnwallet.CommitSigs{
			CommitSig: sigs[0].CommitSig,
			HtlcSigs:  sigs[0].HtlcSigs,
		})
		if err != nil {
			r.badf("%s: peer rejects the link's commit_sig: %v", tag,
				err)

			return nil
		}
		pkg, err := r.bobRevokes()
		if err != nil {
			return err
		}
		if err := r.notePkg(pkg, nil); err != nil {
			return err
		}
		if err := r.flushEmpty(); err != nil {
			return err
		}
	}

	return nil
}

// flushEmpty completes a dance in which Bob has nothing new to lock in.
func (r *c08fRun) flushEmpty() error {
	for i := 0; i < 6; i++ {
		bo, ao := r.bob.OweCommitment(), r.alice.OweCommitment()
		if !bo && !ao {
			return nil
		}
		if bo {
			if err := r.bobSigns(); err != nil {
				return err
			}
		}
		if r.alice.OweCommitment() {
			pkg, err := r.aliceSigns()
			if err != nil {
				return err
			}
			if err := r.notePkg(pkg, nil); err != nil {
				return err
			}
		}
	}

	return fmt.Errorf("dance does not terminate")
}

// checkDisk compares the forwarding packages on disk with the model.
func (r *c08fRun) checkDisk(tag string) {
	disk, err := r.alice.LoadFwdPkgs()
	if err != nil {
		r.badf("%s: load fwd pkgs: %v", tag, err)
		return
	}
	byHeight := map[uint64]*channeldb.FwdPkg{}
	for _, d := range disk {
		byHeight[d.Height] = d
	}
	known := map[uint64]bool{}
	for _, p := range r.pkgs {
		known[p.height] = true
		d := byHeight[p.height]
		empty := len(p.adds)+len(p.sfs) == 0
		switch {
		case p.mustBeGone:
			if d != nil {
				r.badf("%s: completed package %d still on disk", tag,
					p.height)
			}
			continue

		case d == nil && (p.mayBeGone || empty || len(p.adds) == 0 &&
			p.sfFull()):

			continue

		case d == nil:
			r.badf("%s: package %d (acks %d/%d adds, settle/fails "+
				"full=%v) was removed from disk", tag, p.height,
				0, len(p.adds), p.sfFull())
			continue
		}
		if empty {
			continue
		}

		if len(p.adds) > 0 {
			wantState := channeldb.FwdStateProcessed
			if p.ackFull() && p.sfFull() {
				wantState = channeldb.FwdStateCompleted
			}
			if d.State != wantState {
				r.badf("%s: package %d state %v, want %v", tag,
					p.height, d.State, wantState)
			}
		}
		for i, a := range p.adds {
			if d.AckFilter.Contains(uint16(i)) != a.acked {
				r.badf("%s: package %d add %d (htlc %d, %s): ack bit "+
					"%v, want %v", tag, p.height, i, a.id,
					c08fKindNames[a.kind], !a.acked, a.acked)
			}
			if d.State != channeldb.FwdStateLockedIn &&
				d.FwdFilter.Contains(uint16(i)) != (a.kind == c08fFwd) {

				r.badf("%s: package %d add %d (htlc %d, %s): fwd bit "+
					"%v", tag, p.height, i, a.id,
					c08fKindNames[a.kind], a.kind != c08fFwd)
			}
		}
		for j, s := range p.sfs {
			if d.SettleFailFilter.Contains(uint16(j)) != s.acked {
				r.badf("%s: package %d settle/fail %d (htlc %d): ack "+
					"bit %v, want %v", tag, p.height, j, s.id,
					!s.acked, s.acked)
			}
		}
	}
	for h := range byHeight {
		if !known[h] {
			r.badf("%s: unknown package %d on disk", tag, h)
		}
	}
}

func c08fRunCase(t *testing.T, plan *c08fPlan) *c08fResult {
	res := &c08fResult{}
	r := &c08fRun{t: t, plan: plan, res: res, labels: map[string]bool{}}

	var seed [32]byte
	copy(seed[:], plan.Seed[:])
	cfg := &c08ClusterCfg{
		dustA: 200, dustB: 800, fundSeed: seed, poolWorkers: 2,
	}
	dbA := channeldb.OpenForTesting(t, t.TempDir())
	dbB := channeldb.OpenForTesting(t, t.TempDir())
	r.scid = lnwire.NewShortChanIDFromInt(
		0xC08F0000 + uint64(binary.BigEndian.Uint16(plan.Seed[:2])),
	)
	r.nextSc = lnwire.NewShortChanIDFromInt(r.scid.ToUint64() + 0x10000)

	pair, pools, err := c08NewChanPair(
		t, cfg, dbA, dbB, alicePrivKey, bobPrivKey, 1_000_000, r.scid, 1,
		maxInflightHtlcs,
	)
	defer func() {
		for _, p := range pools {
			_ = p.Stop()
		}
	}()
	if err != nil {
		res.inconclusive = "setup: " + err.Error()
		return res
	}
	r.pair, r.alice, r.bob = pair, pair.chA, pair.chB

	r.reg = &c08fRegistry{mockInvoiceRegistry: newMockRegistry(t)}
	defer func() { _ = r.reg.registry.Stop() }()

	r.hsw, err = initSwitchWithDB(testStartingHeight, dbA)
	if err != nil {
		res.inconclusive = "setup: " + err.Error()
		return res
	}

	fail := func(err error) *c08fResult {
		if strings.HasPrefix(err.Error(), "timeout:") {
			res.inconclusive = err.Error()
		} else {
			res.inconclusive = "harness: " + err.Error()
		}
		r.finish()

		return res
	}

	for _, ep := range plan.Epochs {
		nOut := ep.NOut
		if !ep.MergeOut && nOut > 0 {
			if err := r.offerOutgoing(nOut); err != nil {
				return fail(err)
			}
			if err := r.flushEmpty(); err != nil {
				return fail(err)
			}
			r.outs = append(r.outs, r.pendOuts...)
			r.pendOuts = nil
			nOut = 0
		}
		for i, rp := range ep.Rounds {
			n := 0
			if i == 0 {
				n = nOut
			}
			if err := r.round(rp, n); err != nil {
				return fail(err)
			}
		}
		if err := r.ackStep(ep); err != nil {
			return fail(err)
		}

		obs, err := r.startLink()
		if err != nil {
			return fail(err)
		}
		if err := r.check(obs); err != nil {
			return fail(err)
		}
		if len(res.bad) > 0 {
			break
		}
	}
	r.finish()

	return res
}

func (r *c08fRun) finish() {
	for l := range r.labels {
		r.res.labels = append(r.res.labels, l)
	}
	sort.Strings(r.res.labels)
	r.res.labels = append(r.res.labels,
		fmt.Sprintf("starts=%d", r.starts))
	r.res.sample = map[string]any{
		"plan":   r.plan.String(),
		"starts": r.starts,
		"pkgs":   len(r.pkgs),
	}
}

// TestVerifC08FwdPkgReplay: what a link hands to the switch, to the invoice
// registry and to its peer when it starts on generated forwarding package
// states equals what the forwarding package contract prescribes.
func TestVerifC08FwdPkgReplay(t *testing.T) {
	st := vstats.New("TestVerifC08FwdPkgReplay")
	defer st.Flush()

	caseNo := 0
	rapid.Check(t, func(rt *rapid.T) {
		plan := c08fDrawPlan(rt)
		caseNo++

		var res *c08fResult
		t.Run(fmt.Sprintf("case%d", caseNo), func(sub *testing.T) {
			res = c08fRunCase(sub, plan)
		})
		if res == nil {
			st.Count("inconclusive", 1)
			return
		}
		if res.inconclusive != "" {
			st.Count("inconclusive", 1)
			res.labels = append(res.labels, "inconclusive:"+
				strings.SplitN(res.inconclusive, ":", 2)[0])
			rt.Logf("inconclusive: %s", res.inconclusive)
		}
		st.Case(vstats.FP(plan.String()), res.nontrivial &&
			res.inconclusive == "", res.labels, res.sample)
		if len(res.bad) > 0 {
			rt.Fatalf("C08 (forwarding package replay) violated:\n  %s\n"+
				"plan:\n%s", strings.Join(res.bad, "\n  "),
				plan.String())
		}
	})
}
