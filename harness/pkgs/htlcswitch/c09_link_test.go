//go:build verif

package htlcswitch

// C09: an HTLC is forwarded only if it meets the advertised policy and loses
// no money.
//
// Real code under test: channelLink.CheckHtlcForward / CheckHtlcTransit on
// real channelLink values (built by lnd's own newSingleLinkTestHarness around
// real lnwallet channels), with generated policy, local limits, height,
// inbound fee, amounts and expiries.
//
// Oracle: internal/verif/bigref evaluates every rule of the property in
// math/big and returns the set V of violated rules.
//   * verdict:  real == nil  <=>  V == {}
//   * naming:   real != nil  =>   the BOLT-4 failure (and lnd's failure
//               detail, when present) names a rule that is in V
// independent of the order in which lnd evaluates its checks.
//
// Generator: boundary synthesis (see c09Gen below).

import (
	"fmt"
	"math"
	"math/big"
	"testing"

	"github.com/btcsuite/btcd/btcutil/v2"
	"github.com/lightningnetwork/lnd/fn/v2"
	"github.com/lightningnetwork/lnd/graph/db/models"
	"github.com/lightningnetwork/lnd/internal/verif/bigref"
	"github.com/lightningnetwork/lnd/internal/verif/vstats"
	"github.com/lightningnetwork/lnd/lnwallet"
	"github.com/lightningnetwork/lnd/lnwire"
	"github.com/lightningnetwork/lnd/routing/route"
	"github.com/lightningnetwork/lnd/tlv"
	"pgregory.net/rapid"
)

const (
	// c09MaxIncoming bounds the incoming HTLC amount of the realistic
	// domain: 100 BTC in msat, 10x lnd's MaxBtcFundingAmountWumbo. An
	// incoming HTLC cannot exceed the capacity of the channel it arrived
	// on. (The *outgoing* amount comes from the onion and is attacker
	// controlled: the whole uint64 range is in the domain.)
	c09MaxIncoming = uint64(10_000_000_000_000)

	// c09MaxHeight is the largest "realistic" block height: height plus
	// either local delta (each <= c09MaxDelta) cannot wrap uint32.
	c09MaxDelta  = uint32(1) << 16
	c09MaxHeight = uint32(math.MaxUint32) - (uint32(1) << 17)

	// c09MaxRate is 100% in ppm, the largest outbound rate of the domain.
	c09MaxRate = uint64(1_000_000)

	// c09KnownOverflow is the known-finding key of the input class in
	// which |clamp(inbound rate)| * (outgoing amount + outbound fee) does
	// not fit a signed 64-bit integer (InboundFee.CalcFee wraps).
	c09KnownOverflow = "C09:inbound-fee-int64-overflow"
)

// c09Shaper is an AuxTrafficShaper that only overrides the bandwidth. It
// never declares an HTLC "custom" (custom HTLCs skip the min/max rule by
// design and are outside the property).
type c09Shaper struct {
	handle bool
	bw     lnwire.MilliSatoshi
	// passThrough makes the shaper answer with the link bandwidth it is
	// handed (what a shaper does for an HTLC it has no extra limit for).
	passThrough bool
}

func (s *c09Shaper) ShouldHandleTraffic(lnwire.ShortChannelID,
	fn.Option[tlv.Blob], fn.Option[tlv.Blob]) (bool, error) {

	return s.handle, nil
}

func (s *c09Shaper) PaymentBandwidth(_, _, _ fn.Option[tlv.Blob],
	linkBandwidth, _ lnwire.MilliSatoshi, _ lnwallet.AuxHtlcView,
	_ route.Vertex) (lnwire.MilliSatoshi, error) {

	if s.passThrough {
		return linkBandwidth, nil
	}

	return s.bw, nil
}

func (s *c09Shaper) IsCustomHTLC(lnwire.CustomRecords) bool { return false }

func (s *c09Shaper) ProduceHtlcExtraData(total lnwire.MilliSatoshi,
	recs lnwire.CustomRecords, _ route.Vertex) (lnwire.MilliSatoshi,
	lnwire.CustomRecords, error) {

	return total, recs, nil
}

// c09Fixture is a small pool of real links of different sizes.
type c09Fixture struct {
	links []*channelLink
	bw    []uint64 // real spendable bandwidth of each link
}

func newC09Fixture(t *testing.T) *c09Fixture {
	t.Helper()

	fx := &c09Fixture{}
	// Per-side balances in satoshi: small, the largest non-wumbo
	// channel, and a 2 x 10 BTC wumbo channel (spendable ~ 10 BTC).
	for _, amt := range []btcutil.Amount{60_000, 8_388_607, 1_000_000_000} {
		h, err := newSingleLinkTestHarness(t, amt, amt/100)
		if err != nil {
			t.Fatalf("fixture: %v", err)
		}
		l, ok := h.aliceLink.(*channelLink)
		if !ok {
			t.Fatalf("fixture: unexpected link type %T", h.aliceLink)
		}
		// The fixture leaves FailAliasUpdate nil (the Switch attaches
		// it in AddLink); nil result = "no alias, use the regular
		// channel update".
		l.cfg.FailAliasUpdate = func(lnwire.ShortChannelID,
			bool) *lnwire.ChannelUpdate1 {

			return nil
		}
		fx.links = append(fx.links, l)
		fx.bw = append(fx.bw, uint64(l.Bandwidth()))
	}

	return fx
}

// c09Case is one fully generated input.
type c09Case struct {
	Mode string `json:"mode"`
	Link int    `json:"link"`
	// 0 none, 1 shaper handles (own number), 2 shaper declines, 3 shaper
	// handles and answers with the link bandwidth it is given.
	Aux     int    `json:"aux"`
	AuxBW   uint64 `json:"aux_bw"`
	BW      uint64 `json:"bandwidth"` // effective spendable bandwidth
	Min     uint64 `json:"min_htlc"`
	Max     uint64 `json:"max_htlc"`
	Base    uint64 `json:"base_fee"`
	Rate    uint64 `json:"fee_rate"`
	Delta   uint32 `json:"time_lock_delta"`
	Reject  uint32 `json:"reject_delta"`
	MaxCltv uint32 `json:"max_cltv"`
	Height  uint32 `json:"height"`
	InBase  int32  `json:"inbound_base"`
	InRate  int32  `json:"inbound_rate"`
	InAmt   uint64 `json:"incoming_amt"`
	OutAmt  uint64 `json:"outgoing_amt"`
	InExp   uint32 `json:"incoming_expiry"`
	OutExp  uint32 `json:"outgoing_expiry"`
	Records bool   `json:"custom_records"`
	Plan    string `json:"plan,omitempty"`
}

func (c *c09Case) policy() bigref.Policy {
	return bigref.Policy{
		MinHTLC: c.Min, MaxHTLC: c.Max, BaseFee: c.Base,
		FeeRate: c.Rate, TimeLockDelta: c.Delta,
	}
}

func (c *c09Case) limits() bigref.Limits {
	return bigref.Limits{
		RejectDelta: c.Reject, MaxCltv: c.MaxCltv, Bandwidth: c.BW,
	}
}

func (c *c09Case) inbound() bigref.InboundFee {
	return bigref.InboundFee{Base: c.InBase, Rate: c.InRate}
}

func (c *c09Case) forward() bigref.Forward {
	return bigref.Forward{
		IncomingAmt: c.InAmt, OutgoingAmt: c.OutAmt,
		IncomingExpiry: c.InExp, OutgoingExpiry: c.OutExp,
		Height: c.Height, Inbound: c.inbound(),
	}
}

func (c *c09Case) fp(transit bool) uint64 {
	return vstats.FP(transit, c.Link, c.Aux, c.BW, c.Min, c.Max, c.Base,
		c.Rate, c.Delta, c.Reject, c.MaxCltv, c.Height, c.InBase,
		c.InRate, c.InAmt, c.OutAmt, c.InExp, c.OutExp)
}

// heightsWrap reports whether the case is outside the realistic domain for
// block heights: height + a local delta does not fit uint32.
func (c *c09Case) heightsWrap() bool {
	const top = uint64(math.MaxUint32)
	return uint64(c.Height)+uint64(c.Reject) > top ||
		uint64(c.Height)+uint64(c.MaxCltv) > top
}

// inOverflowClass reports whether the case belongs to the input class of
// c09KnownOverflow (conservatively: product magnitude >= 2^62).
func (c *c09Case) inOverflowClass() bool {
	if c.OutAmt > c.InAmt {
		// Rejected by the amount-order rule whatever the fee is.
		return false
	}
	x := bigref.OutboundFee(c.Base, c.Rate, c.OutAmt)
	x.Add(x, new(big.Int).SetUint64(c.OutAmt))
	x.Mul(x, big.NewInt(bigref.ClampInboundRate(c.InRate)))
	x.Abs(x)

	return x.Cmp(new(big.Int).Lsh(big.NewInt(1), 62)) >= 0
}

// ---------------------------------------------------------------------------
// Generator

var c09Bool = rapid.Bool()

// c09Pct draws a (nearly) uniform value in [0,100). rapid's integer
// generators are deliberately biased to small values, which would skew every
// weighted choice below; fair coin flips are not.
func c09Pct(t *rapid.T, label string) int {
	v := 0
	for i := 0; i < 7; i++ {
		v <<= 1
		if c09Bool.Draw(t, label) {
			v |= 1
		}
	}

	return v * 100 >> 7
}

// c09Pick draws a (nearly) uniform index in [0,n), n <= 100.
func c09Pick(t *rapid.T, label string, n int) int {
	return c09Pct(t, label) * n / 100
}

func c09SatAdd(a, b uint64) uint64 {
	if a > math.MaxUint64-b {
		return math.MaxUint64
	}

	return a + b
}

func c09SatSub(a, b uint64) uint64 {
	if b > a {
		return 0
	}

	return a - b
}

// c09U64 draws from [lo, hi] with a bias to the ends and to small offsets
// from lo, mixing uniform and log-uniform.
func c09U64(t *rapid.T, label string, lo, hi uint64) uint64 {
	if hi <= lo {
		return lo
	}
	switch p := c09Pct(t, label+"_k"); {
	case p < 12:
		return lo
	case p < 24:
		return hi
	case p < 30:
		return lo + 1
	case p < 36:
		return hi - 1
	case p < 60:
		// log-uniform offset from lo
		span := hi - lo
		bits := rapid.IntRange(0, 63).Draw(t, label+"_b")
		m := uint64(1)<<uint(bits) - 1
		if bits == 63 {
			m = math.MaxUint64 >> 1
		}
		if m > span {
			m = span
		}
		return lo + rapid.Uint64Range(0, m).Draw(t, label)
	default:
		return rapid.Uint64Range(lo, hi).Draw(t, label)
	}
}

func c09U32(t *rapid.T, label string, lo, hi uint32) uint32 {
	return uint32(c09U64(t, label, uint64(lo), uint64(hi)))
}

// c09Around draws center+d with d in [-2,2] (saturating).
func c09Around(t *rapid.T, label string, center uint64) uint64 {
	d := rapid.IntRange(-2, 2).Draw(t, label)
	if d < 0 {
		return c09SatSub(center, uint64(-d))
	}

	return c09SatAdd(center, uint64(d))
}

func c09BigToU64(b *big.Int) uint64 {
	if b.Sign() < 0 {
		return 0
	}
	if !b.IsUint64() {
		return math.MaxUint64
	}

	return b.Uint64()
}

func c09ClampU32(v int64) uint32 {
	if v < 0 {
		return 0
	}
	if v > math.MaxUint32 {
		return math.MaxUint32
	}

	return uint32(v)
}

func c09DrawBase(t *rapid.T) uint64 {
	switch p := c09Pct(t, "base_k"); {
	case p < 20:
		return 0
	case p < 35:
		return 1
	case p < 55:
		return 1000
	case p < 65:
		return math.MaxUint32
	default:
		return c09U64(t, "base", 0, math.MaxUint32)
	}
}

func c09DrawRate(t *rapid.T) uint64 {
	switch p := c09Pct(t, "rate_k"); {
	case p < 20:
		return 0
	case p < 30:
		return 1
	case p < 45:
		return rapid.Uint64Range(1, 5000).Draw(t, "rate_typ")
	case p < 55:
		return c09MaxRate
	case p < 60:
		return c09MaxRate - 1
	default:
		return c09U64(t, "rate", 0, c09MaxRate)
	}
}

func c09DrawInbound(t *rapid.T) (int32, int32) {
	var base, rate int32
	switch p := c09Pct(t, "inb_base_k"); {
	case p < 30:
		base = 0
	case p < 55:
		base = -int32(rapid.IntRange(1, 5000).Draw(t, "inb_base_neg"))
	case p < 65:
		base = int32(rapid.IntRange(1, 5000).Draw(t, "inb_base_pos"))
	case p < 72:
		base = math.MinInt32
	case p < 79:
		base = math.MaxInt32
	default:
		base = rapid.Int32().Draw(t, "inb_base")
	}
	const clamp = bigref.MaxInboundRate
	switch p := c09Pct(t, "inb_rate_k"); {
	case p < 25:
		rate = 0
	case p < 45:
		rate = -int32(rapid.IntRange(1, 10_000).Draw(t, "inb_rate_neg"))
	case p < 53:
		rate = int32(rapid.IntRange(1, 10_000).Draw(t, "inb_rate_pos"))
	case p < 60:
		rate = -int32(rapid.IntRange(1, 1_000_000).Draw(t, "inb_rate_n2"))
	case p < 68:
		// around the negative clamp
		rate = -clamp + int32(rapid.IntRange(-2, 2).Draw(t, "inb_rate_cn"))
	case p < 76:
		rate = clamp + int32(rapid.IntRange(-2, 2).Draw(t, "inb_rate_cp"))
	case p < 82:
		rate = math.MinInt32
	case p < 88:
		rate = math.MaxInt32
	default:
		rate = rapid.Int32().Draw(t, "inb_rate")
	}

	return base, rate
}

// c09DrawBandwidth picks the link and the bandwidth source.
func c09DrawBandwidth(t *rapid.T, fx *c09Fixture, c *c09Case) {
	c.Link = c09Pick(t, "link", len(fx.links))
	c.BW = fx.bw[c.Link]
	switch p := c09Pct(t, "aux_k"); {
	case p < 60:
		c.Aux = 0
	case p < 70:
		// The shaper takes the channel but has no limit of its own:
		// the real bandwidth applies.
		c.Aux = 3
	case p < 92:
		c.Aux = 1
		switch q := c09Pct(t, "aux_bw_k"); {
		case q < 8:
			c.AuxBW = 0
		case q < 16:
			c.AuxBW = 1
		default:
			c.AuxBW = c09U64(t, "aux_bw", 0, 2_000_000_000_000)
		}
		c.BW = c.AuxBW
	default:
		// A shaper that declines the channel: the real bandwidth
		// applies; the reported number must be ignored.
		c.Aux = 2
		c.AuxBW = c09U64(t, "aux_bw_ignored", 0, 2_000_000_000_000)
	}
	c.Records = c.Aux != 0 && c09Pct(t, "records") < 25
}

// c09GenConstructive builds an assignment that satisfies every rule, with
// most free variables sitting on a boundary, and then violates the rules of a
// drawn plan (0..2 rules) by exactly one unit (mostly).
func c09GenConstructive(t *rapid.T, fx *c09Fixture, transit bool,
	inb *models.InboundFee) *c09Case {

	c := &c09Case{Mode: "constructive"}
	c09DrawBandwidth(t, fx, c)

	// Plan: which rules to violate.
	applicable := bigref.ForwardRules
	if transit {
		applicable = bigref.TransitRules
	}
	var plan bigref.RuleSet
	k := 0
	switch p := c09Pct(t, "plan_n"); {
	case p < 50:
		k = 0
	case p < 85:
		k = 1
	default:
		k = 2
	}
	rules := applicable.Rules()
	for i := 0; i < k; i++ {
		plan = plan.With(rules[c09Pick(
			t, fmt.Sprintf("plan_%d", i), len(rules),
		)])
	}
	c.Plan = plan.String()
	exact := func(label string) bool { return c09Pct(t, label) < 75 }

	// Outgoing amount against the bandwidth.
	B := c.BW
	switch {
	case plan.Has(bigref.RuleBandwidth):
		if exact("bw_exact") {
			c.OutAmt = c09SatAdd(B, 1)
		} else {
			c.OutAmt = c09U64(t, "out_over", c09SatAdd(B, 1),
				c09SatAdd(B, 1_000_000_000))
		}
	default:
		c.OutAmt = c09U64(t, "out", 0, B)
	}
	a := c.OutAmt

	// min_htlc.
	if plan.Has(bigref.RuleMinHTLC) {
		if exact("min_exact") {
			c.Min = c09SatAdd(a, 1)
		} else {
			c.Min = c09U64(t, "min_over", c09SatAdd(a, 1),
				c09SatAdd(a, 1_000_000_000))
		}
	} else {
		c.Min = a - c09U64(t, "min_below", 0, a)
	}

	// max_htlc (zero = unlimited).
	switch {
	case plan.Has(bigref.RuleMaxHTLC) && a >= 2:
		if exact("max_exact") {
			c.Max = a - 1
		} else {
			c.Max = c09U64(t, "max_under", 1, a-1)
		}
	case c09Pct(t, "max_none") < 15:
		c.Max = 0
	case a == 0:
		// Any non-zero maximum admits a zero amount.
		c.Max = c09U64(t, "max_any", 0, 1_000_000)
	default:
		c.Max = c09U64(t, "max_above", a,
			c09SatAdd(a, 4_000_000_000))
	}

	// Fee schedule and incoming amount.
	c.Base = c09DrawBase(t)
	c.Rate = c09DrawRate(t)
	if !transit {
		c.InBase, c.InRate = c09Inbound(t, inb)
		req := bigref.RequiredFee(c.policy(), c.inbound(), a)
		minIn := bigref.MinIncoming(c.policy(), c.inbound(), a)
		switch {
		case plan.Has(bigref.RuleAmountOrder) && a >= 1:
			if exact("order_exact") {
				c.InAmt = a - 1
			} else {
				c.InAmt = c09U64(t, "in_under", 0, a-1)
			}
		case plan.Has(bigref.RuleFee):
			// One short of the required fee. With a non-positive
			// requirement this also breaks the amount order.
			short := new(big.Int).Add(
				new(big.Int).SetUint64(a), req,
			)
			short.Sub(short, big.NewInt(1))
			if !exact("fee_exact") {
				short.Sub(short, new(big.Int).SetUint64(
					c09U64(t, "fee_short", 0, 1_000_000),
				))
			}
			c.InAmt = c09BigToU64(short)
		default:
			slack := uint64(0)
			switch p := c09Pct(t, "slack_k"); {
			case p < 60:
			case p < 75:
				slack = 1
			default:
				slack = c09U64(t, "slack", 0, 1_000_000_000)
			}
			c.InAmt = c09SatAdd(c09BigToU64(minIn), slack)
		}
		if c.InAmt > c09MaxIncoming {
			c.InAmt = c09MaxIncoming
		}
	}

	// Heights and local deltas: satisfiable configuration (reject < max,
	// delta <= max).
	switch p := c09Pct(t, "h_k"); {
	case p < 40:
		c.Height = rapid.Uint32Range(500_000, 1_500_000).Draw(t, "h_typ")
	default:
		c.Height = c09U32(t, "h", 0, c09MaxHeight)
	}
	switch p := c09Pct(t, "maxcltv_k"); {
	case p < 40:
		c.MaxCltv = 2016
	default:
		c.MaxCltv = c09U32(t, "maxcltv", 1, c09MaxDelta)
	}
	M := c.MaxCltv
	if p := c09Pct(t, "reject_k"); p < 40 && M > 13 {
		c.Reject = 13
	} else {
		c.Reject = c09U32(t, "reject", 0, M-1)
	}
	if p := c09Pct(t, "delta_k"); p < 40 && M >= 144 {
		c.Delta = rapid.SampledFrom([]uint32{18, 40, 80, 144}).Draw(
			t, "delta_typ")
	} else {
		c.Delta = c09U32(t, "delta", 0, M)
	}
	h, r, D := int64(c.Height), int64(c.Reject), int64(c.Delta)
	m := int64(M)

	var eo int64
	switch {
	case plan.Has(bigref.RuleExpiryTooSoon):
		eo = h + r
		if !exact("soon_exact") {
			eo -= int64(c09U64(t, "soon_by", 0, uint64(eo)))
		}
	case plan.Has(bigref.RuleExpiryTooFar):
		eo = h + m + 1
		if !exact("far_exact") {
			eo += int64(c09U64(t, "far_by", 0,
				uint64(math.MaxUint32-eo)))
		}
	default:
		eo = int64(c09U64(t, "eo", uint64(h+r+1), uint64(h+m)))
	}
	c.OutExp = c09ClampU32(eo)

	if !transit {
		var gap int64
		switch {
		case plan.Has(bigref.RuleCltvDelta):
			gap = D - 1
			if !exact("delta_exact") {
				gap -= int64(c09U64(t, "delta_by", 0, 100_000))
			}
		case plan.Has(bigref.RuleCltvGapMax):
			gap = m + 1
			if !exact("gap_exact") {
				gap += int64(c09U64(t, "gap_by", 0, 100_000))
			}
		default:
			gap = int64(c09U64(t, "gap", uint64(D), uint64(m)))
		}
		c.InExp = c09ClampU32(int64(c.OutExp) + gap)
	}

	return c
}

// c09GenFree draws every variable independently over its full range (incl.
// heights that wrap, outgoing amounts up to 2^64-1, unsatisfiable
// configurations) and then solves one or two variables so that a drawn
// comparison sits at -1/0/+1 of equality.
func c09GenFree(t *rapid.T, fx *c09Fixture, transit bool,
	inb *models.InboundFee) *c09Case {

	c := &c09Case{Mode: "free"}
	c09DrawBandwidth(t, fx, c)

	switch p := c09Pct(t, "out_k"); {
	case p < 45:
		c.OutAmt = c09U64(t, "out", 0, 1_000_000_000_000)
	case p < 60:
		c.OutAmt = c09Around(t, "out_bw", c.BW)
	case p < 70:
		c.OutAmt = c09Around(t, "out_2_63", uint64(1)<<63)
	case p < 78:
		c.OutAmt = c09Around(t, "out_2_32", uint64(1)<<32)
	case p < 86:
		c.OutAmt = math.MaxUint64 - uint64(
			rapid.IntRange(0, 2).Draw(t, "out_top"))
	default:
		c.OutAmt = c09U64(t, "out_any", 0, math.MaxUint64)
	}
	c.Min = c09U64(t, "min", 0, 2_000_000_000_000)
	if c09Pct(t, "max_none") < 20 {
		c.Max = 0
	} else {
		c.Max = c09U64(t, "max", 0, 2_000_000_000_000)
	}
	c.Base = c09DrawBase(t)
	c.Rate = c09DrawRate(t)

	if c09Pct(t, "h_wrap") < 6 {
		c.Height = math.MaxUint32 - rapid.Uint32Range(
			0, 1<<17).Draw(t, "h_top")
	} else {
		c.Height = c09U32(t, "h", 0, c09MaxHeight)
	}
	c.MaxCltv = c09U32(t, "maxcltv", 0, c09MaxDelta)
	c.Reject = c09U32(t, "reject", 0, c09MaxDelta)
	c.Delta = c09U32(t, "delta", 0, c09MaxDelta)
	switch p := c09Pct(t, "eo_k"); {
	case p < 30:
		c.OutExp = c09U32(t, "eo", 0, math.MaxUint32)
	case p < 65:
		c.OutExp = c09ClampU32(int64(c.Height) + int64(
			c09U64(t, "eo_off", 0, uint64(c09MaxDelta)+2)))
	default:
		c.OutExp = uint32(c09Around(t, "eo_h", uint64(c.Height)))
	}

	if !transit {
		c.InBase, c.InRate = c09Inbound(t, inb)
		switch p := c09Pct(t, "in_k"); {
		case p < 35:
			c.InAmt = c09Around(t, "in_out", c.OutAmt)
		case p < 70:
			c.InAmt = c09BigToU64(new(big.Int).Add(
				bigref.MinIncoming(
					c.policy(), c.inbound(), c.OutAmt,
				),
				big.NewInt(int64(rapid.IntRange(-2, 2).Draw(
					t, "in_req")))))
		default:
			c.InAmt = c09U64(t, "in", 0, c09MaxIncoming)
		}
		if c.InAmt > c09MaxIncoming {
			c.InAmt = c09MaxIncoming
		}
		switch p := c09Pct(t, "ei_k"); {
		case p < 25:
			c.InExp = c09U32(t, "ei", 0, math.MaxUint32)
		case p < 60:
			c.InExp = c09ClampU32(int64(c.OutExp) + int64(
				c09U64(t, "ei_off", 0, uint64(c09MaxDelta)+2)))
		default:
			c.InExp = uint32(c09Around(t, "ei_eo",
				uint64(c.OutExp)))
		}
	}

	// Snap one or two comparisons to -1/0/+1 of equality by solving for
	// one variable.
	nsnap := 1 + c09Pick(t, "nsnap", 2)
	for i := 0; i < nsnap; i++ {
		d := int64(c09Pick(t, fmt.Sprintf("snap_d%d", i), 3) - 1)
		hi := 8
		if transit {
			hi = 4
		}
		a := new(big.Int).SetUint64(c.OutAmt)
		bd := big.NewInt(d)
		switch c09Pick(t, fmt.Sprintf("snap%d", i), hi+1) {
		case 0:
			c.Min = c09BigToU64(new(big.Int).Add(a, bd))
		case 1:
			c.Max = c09BigToU64(new(big.Int).Add(a, bd))
		case 2:
			if c.Aux == 1 {
				c.AuxBW = c09BigToU64(new(big.Int).Add(a, bd))
				c.BW = c.AuxBW
			}
		case 3:
			c.OutExp = c09ClampU32(int64(c.Height) +
				int64(c.Reject) + d)
		case 4:
			c.OutExp = c09ClampU32(int64(c.Height) +
				int64(c.MaxCltv) + d)
		case 5:
			c.InExp = c09ClampU32(int64(c.OutExp) +
				int64(c.Delta) + d)
		case 6:
			c.InExp = c09ClampU32(int64(c.OutExp) +
				int64(c.MaxCltv) + d)
		case 7:
			req := bigref.RequiredFee(
				c.policy(), c.inbound(), c.OutAmt,
			)
			req.Add(req, a)
			c.InAmt = c09BigToU64(req.Add(req, bd))
			if c.InAmt > c09MaxIncoming {
				c.InAmt = c09MaxIncoming
			}
		case 8:
			c.InAmt = c09BigToU64(new(big.Int).Add(a, bd))
			if c.InAmt > c09MaxIncoming {
				c.InAmt = c09MaxIncoming
			}
		}
	}

	return c
}

func c09Gen(t *rapid.T, fx *c09Fixture, transit bool) *c09Case {
	return c09GenWith(t, fx, transit, nil)
}

// c09GenWith is c09Gen with the inbound fee fixed to inb when non-nil (the
// inbound fee is a property of the incoming link, so several HTLCs arriving
// over one link share it).
func c09GenWith(t *rapid.T, fx *c09Fixture, transit bool,
	inb *models.InboundFee) *c09Case {

	if c09Pct(t, "mode") < 65 {
		return c09GenConstructive(t, fx, transit, inb)
	}

	return c09GenFree(t, fx, transit, inb)
}

func c09Inbound(t *rapid.T, inb *models.InboundFee) (int32, int32) {
	if inb != nil {
		return inb.Base, inb.Rate
	}

	return c09DrawInbound(t)
}

// ---------------------------------------------------------------------------
// Running the real code and judging it

// c09Apply writes the generated configuration into the real link.
func c09Apply(fx *c09Fixture, c *c09Case) *channelLink {
	l := fx.links[c.Link]
	l.cfg.FwrdingPolicy = models.ForwardingPolicy{
		MinHTLCOut:    lnwire.MilliSatoshi(c.Min),
		MaxHTLC:       lnwire.MilliSatoshi(c.Max),
		BaseFee:       lnwire.MilliSatoshi(c.Base),
		FeeRate:       lnwire.MilliSatoshi(c.Rate),
		TimeLockDelta: c.Delta,
		// The inbound fee that applies is the one of the *incoming*
		// channel, passed as an argument. The outgoing link's own
		// inbound fee is a decoy that always differs from it.
		InboundFee: models.InboundFee{
			Base: ^c.InBase, Rate: ^c.InRate,
		},
	}
	l.cfg.OutgoingCltvRejectDelta = c.Reject
	l.cfg.MaxOutgoingCltvExpiry = c.MaxCltv
	switch c.Aux {
	case 0:
		l.cfg.AuxTrafficShaper = fn.None[AuxTrafficShaper]()
	default:
		l.cfg.AuxTrafficShaper = fn.Some[AuxTrafficShaper](&c09Shaper{
			handle:      c.Aux == 1 || c.Aux == 3,
			bw:          lnwire.MilliSatoshi(c.AuxBW),
			passThrough: c.Aux == 3,
		})
	}

	return l
}

func (c *c09Case) records() lnwire.CustomRecords {
	if !c.Records {
		return nil
	}

	return lnwire.CustomRecords{
		lnwire.MinCustomRecordsTlvType + 7: []byte{1, 2, 3},
	}
}

// c09Named maps a link error to the set of rules it names. ok is false for a
// failure that names none of the property's rules.
func c09Named(le *LinkError) (bigref.RuleSet, string, bool) {
	var s bigref.RuleSet
	switch le.WireMessage().(type) {
	case *lnwire.FailFeeInsufficient:
		s = s.With(bigref.RuleAmountOrder).With(bigref.RuleFee)
		return s, "fee_insufficient", true

	case *lnwire.FailAmountBelowMinimum:
		return s.With(bigref.RuleMinHTLC), "amount_below_minimum", true

	case *lnwire.FailTemporaryChannelFailure:
		switch le.FailureDetail {
		case OutgoingFailureHTLCExceedsMax:
			return s.With(bigref.RuleMaxHTLC),
				"temporary_channel_failure/max_htlc", true

		case OutgoingFailureInsufficientBalance:
			return s.With(bigref.RuleBandwidth),
				"temporary_channel_failure/bandwidth", true

		case nil:
			s = s.With(bigref.RuleMaxHTLC).With(bigref.RuleBandwidth)
			return s, "temporary_channel_failure", true
		}

		return s, fmt.Sprintf("temporary_channel_failure/%v",
			le.FailureDetail), false

	case *lnwire.FailExpiryTooSoon:
		return s.With(bigref.RuleExpiryTooSoon), "expiry_too_soon", true

	case *lnwire.FailExpiryTooFar:
		s = s.With(bigref.RuleExpiryTooFar).With(bigref.RuleCltvGapMax)
		return s, "expiry_too_far", true

	case *lnwire.FailIncorrectCltvExpiry:
		return s.With(bigref.RuleCltvDelta), "incorrect_cltv_expiry", true
	}

	return s, fmt.Sprintf("%T", le.WireMessage()), false
}

// c09Judge compares the real verdict with the reference verdict. It returns
// the labels of the case and a non-empty message on disagreement.
func c09Judge(c *c09Case, got *LinkError, ref *bigref.Verdict,
	applicable bigref.RuleSet) ([]string, string) {

	labels := []string{"mode:" + c.Mode, fmt.Sprintf("aux:%d", c.Aux),
		fmt.Sprintf("link:%d", c.Link)}
	V := ref.Violated
	for _, r := range V.Rules() {
		labels = append(labels, "violated:"+r.String())
	}
	for _, r := range ref.Near(1).Rules() {
		labels = append(labels, "near:"+r.String())
	}
	labels = append(labels, fmt.Sprintf("nviolated:%d", V.Len()))

	if got == nil {
		labels = append(labels, "accept")
		if !V.Empty() {
			return labels, fmt.Sprintf("ACCEPTED although exact "+
				"arithmetic says rules %v are violated", V)
		}

		return labels, ""
	}

	named, name, ok := c09Named(got)
	labels = append(labels, "reject", "code:"+name)
	if !ok {
		return labels, fmt.Sprintf("rejected with %s, which names "+
			"none of the forwarding rules (violated: %v)", name, V)
	}
	if !named.Intersects(applicable) {
		return labels, fmt.Sprintf("rejected with %s, a rule that "+
			"does not apply to this kind of HTLC", name)
	}
	if V.Empty() {
		return labels, fmt.Sprintf("REJECTED with %s although exact "+
			"arithmetic says every rule holds", name)
	}
	if !named.Intersects(V) {
		return labels, fmt.Sprintf("rejected with %s (names %v) but "+
			"the violated rules are %v", name, named, V)
	}

	return labels, ""
}

func c09InboundLabel(c *c09Case) string {
	switch {
	case c.InRate == 0 && c.InBase == 0:
		return "inbound:zero"
	case c.InRate > bigref.MaxInboundRate || c.InRate < -bigref.MaxInboundRate:
		return "inbound:beyond_clamp"
	case c.InRate <= 0 && c.InBase <= 0:
		return "inbound:discount"
	case c.InRate >= 0 && c.InBase >= 0:
		return "inbound:surcharge"
	}

	return "inbound:mixed"
}

// TestVerifC09Forward checks channelLink.CheckHtlcForward.
func TestVerifC09Forward(t *testing.T) {
	fx := newC09Fixture(t)
	st := vstats.New("TestVerifC09Forward")
	defer st.Flush()
	known := vstats.IsKnown(c09KnownOverflow)

	rapid.Check(t, func(rt *rapid.T) {
		c := c09Gen(rt, fx, false)

		if c.heightsWrap() {
			// Outside the realistic domain: run for crashes only.
			l := c09Apply(fx, c)
			_ = l.CheckHtlcForward([32]byte{1}, lnwire.MilliSatoshi(c.InAmt),
				lnwire.MilliSatoshi(c.OutAmt), c.InExp, c.OutExp,
				models.InboundFee{Base: c.InBase, Rate: c.InRate},
				c.Height, lnwire.ShortChannelID{}, c.records())
			st.Count("outside_domain", 1)
			st.Case(c.fp(false), false,
				[]string{"outside_domain:height_wrap"}, nil)

			return
		}
		if c.inOverflowClass() {
			if known {
				// Exclude the class by construction: shrink the
				// inbound rate until the product fits.
				st.Known(c09KnownOverflow)
				st.Count("excluded_known", 1)
				for c.inOverflowClass() {
					c.InRate /= 16
				}
			} else {
				st.Count("overflow_class", 1)
			}
		}

		l := c09Apply(fx, c)
		got := l.CheckHtlcForward(
			[32]byte{1}, lnwire.MilliSatoshi(c.InAmt),
			lnwire.MilliSatoshi(c.OutAmt), c.InExp, c.OutExp,
			models.InboundFee{Base: c.InBase, Rate: c.InRate},
			c.Height, lnwire.ShortChannelID{}, c.records(),
		)
		ref := bigref.CheckForward(c.policy(), c.limits(), c.forward())
		labels, bad := c09Judge(c, got, &ref, bigref.ForwardRules)
		labels = append(labels, c09InboundLabel(c))
		near := !ref.Near(1).Empty()
		st.Case(c.fp(false), near, labels, c)
		if bad != "" {
			if c.inOverflowClass() {
				bad += fmt.Sprintf(" [input class %s]",
					c09KnownOverflow)
			}
			rt.Fatalf("C09 CheckHtlcForward: %s\ncase: %+v\n"+
				"required fee (exact): %v\nmargins: %v", bad, *c,
				bigref.RequiredFee(c.policy(), c.inbound(), c.OutAmt),
				c09Margins(&ref))
		}
	})
}

// TestVerifC09Transit checks channelLink.CheckHtlcTransit (locally
// originated HTLCs: amount bounds, bandwidth and the two height windows).
func TestVerifC09Transit(t *testing.T) {
	fx := newC09Fixture(t)
	st := vstats.New("TestVerifC09Transit")
	defer st.Flush()

	rapid.Check(t, func(rt *rapid.T) {
		c := c09Gen(rt, fx, true)
		l := c09Apply(fx, c)
		got := l.CheckHtlcTransit(
			[32]byte{2}, lnwire.MilliSatoshi(c.OutAmt), c.OutExp,
			c.Height, c.records(),
		)
		if c.heightsWrap() {
			st.Count("outside_domain", 1)
			st.Case(c.fp(true), false,
				[]string{"outside_domain:height_wrap"}, nil)

			return
		}
		ref := bigref.CheckTransit(
			c.policy(), c.limits(), c.OutAmt, c.OutExp, c.Height,
		)
		labels, bad := c09Judge(c, got, &ref, bigref.TransitRules)
		near := !ref.Near(1).Empty()
		st.Case(c.fp(true), near, labels, c)
		if bad != "" {
			rt.Fatalf("C09 CheckHtlcTransit: %s\ncase: %+v\n"+
				"margins: %v", bad, *c, c09Margins(&ref))
		}
	})
}

func c09Margins(v *bigref.Verdict) string {
	s := ""
	for i, m := range v.Margin {
		if m == nil {
			continue
		}
		s += fmt.Sprintf("%s=%v ", bigref.AllRules[i], m)
	}

	return s
}

// TestVerifC09RefVectors pins the reference itself to hand-computed values
// (BOLT-7 fee formula; lnd's documented inbound rounding and clamp), so that
// an error in bigref cannot silently agree with the same error in lnd.
func TestVerifC09RefVectors(t *testing.T) {
	st := vstats.New("TestVerifC09RefVectors")
	defer st.Flush()

	type vec struct {
		base, rate, amt uint64
		ib, ir          int32
		out, in         int64
	}
	vecs := []vec{
		// 1000 + floor(1_000_000*2500/1e6) = 3500; no inbound.
		{1000, 2500, 1_000_000, 0, 0, 3500, 0},
		// floor(999_999*1/1e6) = 0.
		{0, 1, 999_999, 0, 0, 0, 0},
		{0, 1, 1_000_000, 0, 0, 1, 0},
		// Inbound on 1_003_500: -5000ppm -> -5017.5 -> toward zero
		// -5017; base -100 -> -5117.
		{1000, 2500, 1_000_000, -100, -5000, 3500, -5117},
		// Positive: +5017.5 -> 5017; +100 -> 5117.
		{1000, 2500, 1_000_000, 100, 5000, 3500, 5117},
		// Clamp: rate -2^31 acts as -10_000_000 (10x): -10 * 1_003_500.
		{1000, 2500, 1_000_000, 0, math.MinInt32, 3500, -10_035_000},
		{1000, 2500, 1_000_000, 0, math.MaxInt32, 3500, 10_035_000},
		{1000, 2500, 1_000_000, 0, 10_000_001, 3500, 10_035_000},
		// -1ppm on 999_999 -> -0.999999 -> 0 (rounded up).
		{0, 0, 999_999, 0, -1, 0, 0},
		{0, 0, 1_000_000, 0, -1, 0, -1},
		// 100% of 10 BTC.
		{0, 1_000_000, 1_000_000_000_000, 0, 0, 1_000_000_000_000, 0},
	}
	for i, v := range vecs {
		out := bigref.OutboundFee(v.base, v.rate, v.amt)
		if out.Cmp(big.NewInt(v.out)) != 0 {
			t.Fatalf("vector %d: outbound fee %v want %d", i, out, v.out)
		}
		x := new(big.Int).Add(out, new(big.Int).SetUint64(v.amt))
		in := bigref.InboundFeeOn(bigref.InboundFee{Base: v.ib, Rate: v.ir}, x)
		if in.Cmp(big.NewInt(v.in)) != 0 {
			t.Fatalf("vector %d: inbound fee %v want %d", i, in, v.in)
		}
		p := bigref.Policy{BaseFee: v.base, FeeRate: v.rate}
		req := bigref.RequiredFee(p, bigref.InboundFee{Base: v.ib, Rate: v.ir}, v.amt)
		if req.Cmp(big.NewInt(v.out+v.in)) != 0 {
			t.Fatalf("vector %d: required fee %v want %d", i, req, v.out+v.in)
		}
		want := int64(v.amt)
		if v.out+v.in > 0 {
			want += v.out + v.in
		}
		if mi := bigref.MinIncoming(p, bigref.InboundFee{Base: v.ib, Rate: v.ir}, v.amt); mi.Cmp(big.NewInt(want)) != 0 {
			t.Fatalf("vector %d: min incoming %v want %d", i, mi, want)
		}
		st.Case(vstats.FP("vec", i), true, []string{"ref_vector"}, nil)
	}

	// Rule vectors: one satisfied assignment, then each rule broken by
	// exactly one unit must yield exactly that rule.
	p := bigref.Policy{MinHTLC: 1000, MaxHTLC: 5_000_000, BaseFee: 1000,
		FeeRate: 2500, TimeLockDelta: 40}
	l := bigref.Limits{RejectDelta: 13, MaxCltv: 2016, Bandwidth: 5_000_000}
	ok := bigref.Forward{IncomingAmt: 1_003_500, OutgoingAmt: 1_000_000,
		IncomingExpiry: 800_054, OutgoingExpiry: 800_014, Height: 800_000}
	if v := bigref.CheckForward(p, l, ok); !v.OK() {
		t.Fatalf("satisfied vector judged %v", v.Violated)
	}
	type brk struct {
		name string
		mut  func(p *bigref.Policy, l *bigref.Limits, f *bigref.Forward)
		want bigref.RuleSet
	}
	set := func(rs ...bigref.Rule) bigref.RuleSet {
		var s bigref.RuleSet
		for _, r := range rs {
			s = s.With(r)
		}
		return s
	}
	brks := []brk{
		{"fee-1", func(p *bigref.Policy, l *bigref.Limits, f *bigref.Forward) { f.IncomingAmt-- }, set(bigref.RuleFee)},
		{"order", func(p *bigref.Policy, l *bigref.Limits, f *bigref.Forward) { f.IncomingAmt = 999_999 }, set(bigref.RuleFee, bigref.RuleAmountOrder)},
		{"order-discount", func(p *bigref.Policy, l *bigref.Limits, f *bigref.Forward) {
			f.IncomingAmt = 999_999
			f.Inbound.Base = -10_000
		}, set(bigref.RuleAmountOrder)},
		{"min", func(p *bigref.Policy, l *bigref.Limits, f *bigref.Forward) { p.MinHTLC = 1_000_001 }, set(bigref.RuleMinHTLC)},
		{"max", func(p *bigref.Policy, l *bigref.Limits, f *bigref.Forward) { p.MaxHTLC = 999_999 }, set(bigref.RuleMaxHTLC)},
		{"max0", func(p *bigref.Policy, l *bigref.Limits, f *bigref.Forward) { p.MaxHTLC = 0 }, 0},
		{"bw", func(p *bigref.Policy, l *bigref.Limits, f *bigref.Forward) { l.Bandwidth = 999_999 }, set(bigref.RuleBandwidth)},
		{"soon", func(p *bigref.Policy, l *bigref.Limits, f *bigref.Forward) { f.Height = 800_001 }, set(bigref.RuleExpiryTooSoon)},
		{"far", func(p *bigref.Policy, l *bigref.Limits, f *bigref.Forward) { l.MaxCltv = 13 }, set(bigref.RuleExpiryTooFar, bigref.RuleCltvGapMax)},
		{"far-only", func(p *bigref.Policy, l *bigref.Limits, f *bigref.Forward) {
			f.OutgoingExpiry = 802_017
			f.IncomingExpiry = 802_057
		}, set(bigref.RuleExpiryTooFar)},
		{"delta", func(p *bigref.Policy, l *bigref.Limits, f *bigref.Forward) { f.IncomingExpiry-- }, set(bigref.RuleCltvDelta)},
		{"delta-neg", func(p *bigref.Policy, l *bigref.Limits, f *bigref.Forward) { f.IncomingExpiry = 800_013 }, set(bigref.RuleCltvDelta)},
		{"gap", func(p *bigref.Policy, l *bigref.Limits, f *bigref.Forward) { f.IncomingExpiry = 800_014 + 2017 }, set(bigref.RuleCltvGapMax)},
	}
	for _, b := range brks {
		pp, ll, ff := p, l, ok
		b.mut(&pp, &ll, &ff)
		v := bigref.CheckForward(pp, ll, ff)
		if v.Violated != b.want {
			t.Fatalf("rule vector %s: got %v want %v", b.name,
				v.Violated, b.want)
		}
		tv := bigref.CheckTransit(pp, ll, ff.OutgoingAmt,
			ff.OutgoingExpiry, ff.Height)
		if tv.Violated != b.want&bigref.TransitRules {
			t.Fatalf("transit rule vector %s: got %v want %v", b.name,
				tv.Violated, b.want&bigref.TransitRules)
		}
		st.Case(vstats.FP("rule", b.name), true, []string{"ref_vector"}, nil)
	}
}

// TestVerifC09Pinned runs a few hand-written inputs through the real link and
// the reference: the minimal reproductions of finding F8 (int64 overflow in
// InboundFee.CalcFee, fixed in lnd commit d38ca3d) and one plain case per
// verdict, so that these stay covered whatever the random generator does.
func TestVerifC09Pinned(t *testing.T) {
	fx := newC09Fixture(t)
	st := vstats.New("TestVerifC09Pinned")
	defer st.Flush()

	base := c09Case{
		Mode: "pinned", Link: 2, BW: fx.bw[2], Min: 1000, Base: 1000,
		Rate: 100, Delta: 40, Reject: 13, MaxCltv: 2016,
		Height: 800_000, InExp: 800_100, OutExp: 800_050,
	}
	type pin struct {
		name   string
		mut    func(c *c09Case)
		accept bool
	}
	pins := []pin{
		// F8, money-losing direction: zero fee paid, +1000% inbound
		// fee demanded; the product 1e7 * 922.4e9 exceeds 2^63.
		{"f8_surcharge_wraps_negative", func(c *c09Case) {
			c.InAmt, c.OutAmt = 922_400_000_000, 922_400_000_000
			c.InRate = 10_000_000
		}, false},
		{"f8_surcharge_maxint32", func(c *c09Case) {
			c.InAmt, c.OutAmt = 950_000_000_000, 950_000_000_000
			c.InRate = math.MaxInt32
		}, false},
		// F8, other direction: -1000% discount makes every fee
		// sufficient.
		{"f8_discount_wraps_positive", func(c *c09Case) {
			c.InAmt, c.OutAmt = 922_400_000_000, 922_400_000_000
			c.InRate = -10_000_000
		}, true},
		{"f8_shrunk_counterexample", func(c *c09Case) {
			c.InAmt, c.OutAmt = 989_987_184_000, 989_987_184_000
			c.Min, c.Base, c.Rate = 989_987_184_000, 0, 0
			c.InRate = math.MinInt32
		}, true},
		// Just below the overflow threshold both ways.
		{"below_threshold_surcharge", func(c *c09Case) {
			c.InAmt, c.OutAmt = 922_000_000_000, 922_000_000_000
			c.InRate = 10_000_000
		}, false},
		{"plain_exact_fee", func(c *c09Case) {
			c.OutAmt = 1_000_000
			c.InAmt = 1_000_000 + 1000 + 100
		}, true},
		{"plain_fee_minus_one", func(c *c09Case) {
			c.OutAmt = 1_000_000
			c.InAmt = 1_000_000 + 1000 + 99
		}, false},
	}
	for _, p := range pins {
		c := base
		p.mut(&c)
		l := c09Apply(fx, &c)
		got := l.CheckHtlcForward(
			[32]byte{3}, lnwire.MilliSatoshi(c.InAmt),
			lnwire.MilliSatoshi(c.OutAmt), c.InExp, c.OutExp,
			models.InboundFee{Base: c.InBase, Rate: c.InRate},
			c.Height, lnwire.ShortChannelID{}, nil,
		)
		ref := bigref.CheckForward(c.policy(), c.limits(), c.forward())
		if ref.OK() != p.accept {
			t.Fatalf("pinned %s: reference says %v, hand-computed "+
				"expectation is accept=%v", p.name, ref.Violated,
				p.accept)
		}
		labels, bad := c09Judge(&c, got, &ref, bigref.ForwardRules)
		st.Case(vstats.FP("pin", p.name), true,
			append(labels, "pinned:"+p.name), nil)
		if bad != "" {
			t.Fatalf("C09 CheckHtlcForward (pinned %s): %s\ncase: %+v",
				p.name, bad, c)
		}
	}
}
