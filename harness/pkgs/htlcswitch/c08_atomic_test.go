//go:build verif

package htlcswitch

// C08: a forwarding node never ends up out of pocket; hops settle or fail
// together.
//
// One case = a generated batch of payments Alice->Bob->Carol and
// Carol->Bob->Alice plus a generated fault plan (connection cuts injected
// through the mock servers' intercept hook, 0-2 restarts of the whole network
// on the same databases). After the last phase the harness waits for
// quiescence (deadline => inconclusive, never a violation), stops the network
// and evaluates a scenario-independent oracle on the durable state and on the
// tapped message log.

import (
	"context"
	"crypto/sha256"
	"encoding/binary"
	"errors"
	"fmt"
	"os"
	"sort"
	"strings"
	"sync"
	"sync/atomic"
	"testing"
	"time"

	"github.com/btcsuite/btcd/btcec/v2"
	"github.com/btcsuite/btcd/btcutil/v2"
	"github.com/btcsuite/btcd/wire/v2"
	"github.com/btcsuite/btclog/v2"
	"github.com/lightningnetwork/lnd/channeldb"
	"github.com/lightningnetwork/lnd/htlcswitch/hop"
	"github.com/lightningnetwork/lnd/internal/verif/vstats"
	invpkg "github.com/lightningnetwork/lnd/invoices"
	"github.com/lightningnetwork/lnd/lntypes"
	"github.com/lightningnetwork/lnd/lnwallet"
	"github.com/lightningnetwork/lnd/lnwire"
	"github.com/lightningnetwork/lnd/ticker"
	"pgregory.net/rapid"
)

// ---------------------------------------------------------------------------
// Plan (everything random is drawn here, before the network exists).
// ---------------------------------------------------------------------------

const (
	c08KindValid = iota
	c08KindOverpay
	c08KindUnderpay
	c08KindUnknown
	c08KindHoldSettle
	c08KindHoldCancel
)

var c08PayKindNames = [...]string{
	"valid", "overpay", "underpay", "unknown_hash", "hold_settle",
	"hold_cancel",
}

type c08PayPlan struct {
	Dir        int // 0: Alice->Carol, 1: Carol->Alice
	Class      string
	Amt        lnwire.MilliSatoshi // what the receiver is to get
	Kind       int
	FeeDelta   int64
	CltvDefect uint32
	Phase, At  int
	// hold invoices: armed (resolved as soon as accepted) from here on
	ResPhase, ResAt int
	CancelEarly     bool
}

// c08FlapPlan: both links of one channel are stopped and re-created from the
// database while the switches keep running (peer disconnect / reconnect).
type c08FlapPlan struct {
	Phase, At int
	Chan      int // 0: Alice<->Bob, 1: Bob<->Carol
}

type c08Plan struct {
	// Slots: max_accepted_htlcs of the channel (0 = the fixture's 50).
	SlotsAB, SlotsBC int
	// SlotPrefix: completed payments in the opposite direction before the
	// slots batch; SlotQuiet: no restart, flap or cut after the refusal.
	SlotPrefix int
	SlotN      int
	SlotQuiet  bool
	Flaps      []c08FlapPlan
	Seed       [32]byte
	SideSat    int64
	Pays       []c08PayPlan
	Burst      bool
	Restarts   int
	RestartAt  []int
	Cuts       []*c08CutPlan
}

func (p *c08Plan) String() string {
	var b strings.Builder
	fmt.Fprintf(&b, "side=%dsat restarts=%d at=%v burst=%v slots=%d/%d "+
		"prefix=%d quiet=%v\n", p.SideSat, p.Restarts, p.RestartAt,
		p.Burst, p.SlotsAB, p.SlotsBC, p.SlotPrefix, p.SlotQuiet)
	for i, x := range p.Pays {
		fmt.Fprintf(&b, "  pay%d dir=%d %s amt=%d kind=%s feeDelta=%d "+
			"cltvDefect=%d launch=(%d,%d) resolve=(%d,%d) early=%v\n",
			i, x.Dir, x.Class, x.Amt, c08PayKindNames[x.Kind],
			x.FeeDelta, x.CltvDefect, x.Phase, x.At, x.ResPhase,
			x.ResAt, x.CancelEarly)
	}
	for _, c := range p.Cuts {
		fmt.Fprintf(&b, "  cut phase=%d %s %s #%d both=%v\n", c.Phase,
			c08EdgeNames[c.Edge], c08KindNames[c.Kind], c.Ord, c.Both)
	}
	for _, f := range p.Flaps {
		fmt.Fprintf(&b, "  flap chan=%d at=(%d,%d)\n", f.Chan, f.Phase, f.At)
	}

	return b.String()
}

func c08DrawAmount(t *rapid.T, side lnwire.MilliSatoshi,
	label string) (lnwire.MilliSatoshi, string) {

	cls := rapid.SampledFrom([]string{
		"tiny", "dust", "dust", "dust", "mid", "mid", "mid", "mid",
		"big", "big", "big", "over",
	}).Draw(t, label+"class")

	var amt int64
	switch cls {
	case "tiny":
		// around the forwarding policy's MinHTLCOut (5 sat).
		amt = rapid.SampledFrom([]int64{
			1, 4999, 5000, 5000, 5001, 5001, 6000, 20000,
		}).Draw(t, label+"tiny")
	case "dust":
		// dust limits 200/800 sat plus the HTLC tx fee at 6000 sat/kw
		// (timeout 663 wu, success 703 wu), seen from both sides.
		base := rapid.SampledFrom([]int64{
			200_000, 800_000, 4_178_000, 4_418_000, 4_778_000,
			5_018_000,
		}).Draw(t, label+"dustbase")
		off := rapid.SampledFrom([]int64{
			-1001, -1000, -1, 0, 1, 999, 1000,
		}).Draw(t, label+"dustoff")
		amt = base + off
	case "mid":
		amt = rapid.Int64Range(6_000_000, 200_000_000).Draw(
			t, label+"mid",
		)
	case "big":
		// two of these in one direction exceed the bandwidth.
		amt = rapid.Int64Range(int64(side)*30/100,
			int64(side)*65/100).Draw(t, label+"big")
	default:
		amt = rapid.Int64Range(int64(side)*97/100,
			int64(side)*150/100).Draw(t, label+"over")
	}
	if amt < 1 {
		amt = 1
	}

	return lnwire.MilliSatoshi(amt), cls
}

func c08DrawPlan(t *rapid.T) *c08Plan {
	p := &c08Plan{}
	seed := rapid.SliceOfN(rapid.Byte(), 32, 32).Draw(t, "seed")
	copy(p.Seed[:], seed)
	p.SideSat = rapid.SampledFrom([]int64{
		300_000, 1_000_000, 1_000_000, 4_000_000,
	}).Draw(t, "sideSat")
	side := lnwire.NewMSatFromSatoshis(btcutil.Amount(p.SideSat))

	// A quarter of the cases follow a template that makes partially
	// answered forwarding packages meet restarts: a burst of adds in one
	// commitment, one of them refused by the forwarder, one held by the
	// receiver, two restarts.
	burst := rapid.IntRange(0, 3).Draw(t, "burst") == 0
	burstDir := rapid.IntRange(0, 1).Draw(t, "burstDir")

	// A fifth of the cases make the forwarder's OUTGOING link refuse adds
	// the switch has already accepted: the outgoing channel has 1-2 HTLC
	// slots, they are taken by held payments, and more payments arrive in
	// the same batch. The refusal (mailbox FailAdd) is committed upstream
	// and then the incoming link is restarted at least once.
	slots := rapid.IntRange(0, 4).Draw(t, "slots") == 0
	slotDir := rapid.IntRange(0, 1).Draw(t, "slotDir")
	slotN := rapid.IntRange(1, 2).Draw(t, "slotN")
	// Half of them are preceded by completed payments in the OPPOSITE
	// direction (one after the other), as many as the index the first /
	// second refused add will get on the shared channel: incoming and
	// outgoing circuit keys share one key space. A third run the refusal
	// with no restart, flap or cut afterwards.
	slotPre := rapid.SampledFrom([]int{0, 0, 1, 2}).Draw(t, "slotPrefix")
	slotQuiet := rapid.IntRange(0, 2).Draw(t, "slotQuiet") == 0
	slotPrefix := 0
	if slots {
		p.SlotN = slotN
		if slotPre > 0 {
			slotPrefix = slotN + slotPre
		}
		p.SlotPrefix, p.SlotQuiet = slotPrefix, slotQuiet
		burst = false
		if slotDir == 0 {
			p.SlotsBC = slotN
		} else {
			p.SlotsAB = slotN
		}
	}

	p.Restarts = rapid.SampledFrom([]int{0, 1, 1, 1, 1, 1, 1, 2, 2, 2}).Draw(
		t, "restarts",
	)
	if slots {
		p.Restarts = rapid.SampledFrom([]int{1, 2, 2}).Draw(
			t, "slotRestarts",
		)
		if slotQuiet {
			p.Restarts = 0
		}
	}
	if burst {
		p.Restarts = 2
		p.Burst = true
	}
	for i := 0; i < p.Restarts; i++ {
		p.RestartAt = append(p.RestartAt, rapid.SampledFrom([]int{
			2, 3, 4, 5, 6, 7, 8, 10, 12, 14, 16, 18, 22, 28, 40,
		}).Draw(t, "restartAt"))
	}
	if slotPrefix > 0 && p.Restarts > 0 {
		// after the (idle-sequenced) prefix and batch: when idle
		p.RestartAt[0] = 5000
	}

	nPay := rapid.SampledFrom([]int{
		1, 2, 2, 3, 3, 3, 4, 4, 4, 5, 5, 6, 7, 8,
	}).Draw(
		t, "nPay",
	)
	if burst && nPay < 3 {
		nPay = 3
	}
	if slots && nPay < slotPrefix+slotN+2 {
		nPay = slotPrefix + slotN + 2
	}
	for i := 0; i < nPay; i++ {
		var x c08PayPlan
		l := fmt.Sprintf("p%d.", i)
		x.Dir = rapid.IntRange(0, 1).Draw(t, l+"dir")
		x.Amt, x.Class = c08DrawAmount(t, side, l)
		x.Kind = rapid.SampledFrom([]int{
			c08KindValid, c08KindValid, c08KindValid, c08KindValid,
			c08KindOverpay, c08KindUnderpay, c08KindUnknown,
			c08KindHoldSettle, c08KindHoldSettle, c08KindHoldSettle,
			c08KindHoldCancel, c08KindHoldCancel,
		}).Draw(t, l+"kind")
		x.FeeDelta = rapid.SampledFrom([]int64{
			0, 0, 0, 0, 0, 0, 0, -1, 1, 777, -1000, -5000,
		}).Draw(t, l+"feeDelta")
		x.CltvDefect = rapid.SampledFrom([]uint32{
			0, 0, 0, 0, 0, 0, 0, 0, 0, 1,
		}).Draw(t, l+"cltvDefect")
		x.Phase = 0
		if p.Restarts > 0 {
			x.Phase = rapid.SampledFrom([]int{0, 0, 0, 0, 0, 1, 1, 2}).Draw(
				t, l+"phase",
			)
			if x.Phase > p.Restarts {
				x.Phase = p.Restarts
			}
		}
		x.At = rapid.SampledFrom([]int{
			0, 0, 0, 0, 0, 0, 1, 2, 3, 5, 8, 14,
		}).Draw(t, l+"at")
		x.ResPhase = x.Phase + rapid.IntRange(0, 2).Draw(t, l+"resPhase")
		if x.ResPhase > p.Restarts {
			x.ResPhase = p.Restarts
		}
		x.ResAt = x.At + rapid.SampledFrom([]int{
			0, 5, 10, 20, 40,
		}).Draw(t, l+"resAt")
		x.CancelEarly = rapid.IntRange(0, 4).Draw(t, l+"early") == 0
		switch {
		case slots && i < slotPrefix:
			// opposite-direction prefix, one payment at a time
			// (trigger never reached => launched when idle),
			// answered by the remote peer.
			x.Dir, x.Phase, x.At = 1-slotDir, 0, 1000+i
			x.Class, x.Amt = "mid", lnwire.MilliSatoshi(6_100_000+i)
			x.FeeDelta, x.CltvDefect = 0, 0
			if x.Kind == c08KindHoldSettle || x.Kind == c08KindHoldCancel {
				x.Kind = c08KindValid
			}

		case slots && slotPrefix > 0 && i >= slotPrefix+slotN+2:
			// everything else after the batch
			x.At = 3000 + i
		}
		if j := i - slotPrefix; slots && j >= 0 && j < slotN+2 {
			i := j
			// slot holders first, then the adds that find no slot;
			// all of them reach the forwarder in one batch and are
			// acceptable to the switch.
			x.Dir, x.Phase, x.At = slotDir, 0, 0
			if slotPrefix > 0 {
				x.At = 2000
			}
			x.Class, x.Amt = "mid", lnwire.MilliSatoshi(6_000_000+i)
			x.FeeDelta, x.CltvDefect = 0, 0
			if i < slotN {
				if x.Kind != c08KindHoldCancel {
					x.Kind = c08KindHoldSettle
				}
				x.ResPhase = p.Restarts
				x.CancelEarly = false
			} else {
				x.Kind = c08KindValid
			}
		}
		if burst && i < 3 {
			x.Dir, x.Phase, x.At = burstDir, 0, 0
			if x.Class == "tiny" || x.Class == "over" {
				x.Class, x.Amt = "mid", lnwire.MilliSatoshi(6_000_000+i)
			}
			switch i {
			case 0:
				if x.FeeDelta >= 0 && x.CltvDefect == 0 {
					x.CltvDefect = 1
				}
			case 1:
				if x.Kind != c08KindHoldCancel {
					x.Kind = c08KindHoldSettle
				}
				if x.FeeDelta < 0 {
					x.FeeDelta = 0
				}
				x.CltvDefect = 0
			}
		}
		p.Pays = append(p.Pays, x)
	}

	// Cuts: a cut connection stays dead until the peers reconnect, i.e.
	// until the restart that ends the phase, a generated link flap, or -
	// in the last phase - the flap the harness performs when the wire has
	// gone idle.
	for ph := 0; ph <= p.Restarts; ph++ {
		nCut := rapid.SampledFrom([]int{0, 1, 1, 1, 2, 2}).Draw(t, "nCut")
		if ph == p.Restarts {
			nCut = rapid.SampledFrom([]int{0, 0, 1}).Draw(t, "nCutLast")
		}
		for i := 0; i < nCut; i++ {
			c := &c08CutPlan{Phase: ph}
			c.Edge = c08Edge(rapid.IntRange(
				0, int(c08NumEdges)-1,
			).Draw(t, "cutEdge"))
			c.Kind = rapid.SampledFrom([]c08Kind{
				c08Add, c08Add, c08Commit, c08Commit, c08Commit,
				c08Revoke, c08Revoke, c08Revoke, c08Fulfill,
				c08Fulfill, c08Fail,
			}).Draw(t, "cutKind")
			c.Ord = rapid.SampledFrom([]int{1, 1, 1, 2, 2, 3}).Draw(
				t, "cutOrd",
			)
			c.Both = rapid.Bool().Draw(t, "cutBoth")
			p.Cuts = append(p.Cuts, c)
		}
	}

	// Link flaps: any phase. With probability 1/2 a flap is preceded by a
	// cut on the same channel (which it heals), so that cuts also occur
	// in the last phase.
	nFlap := rapid.SampledFrom([]int{0, 0, 0, 1, 1, 2}).Draw(t, "nFlap")
	for i := 0; i < nFlap; i++ {
		f := c08FlapPlan{
			Phase: rapid.IntRange(0, p.Restarts).Draw(t, "flapPhase"),
			Chan:  rapid.IntRange(0, 1).Draw(t, "flapChan"),
			At: rapid.SampledFrom([]int{
				2, 4, 6, 8, 10, 13, 16, 20, 26, 34,
			}).Draw(t, "flapAt"),
		}
		p.Flaps = append(p.Flaps, f)
		if rapid.Bool().Draw(t, "flapCut") {
			c := &c08CutPlan{Phase: f.Phase}
			c.Edge = c08Edge(2*f.Chan + rapid.IntRange(0, 1).Draw(
				t, "flapCutDir",
			))
			c.Kind = rapid.SampledFrom([]c08Kind{
				c08Add, c08Commit, c08Commit, c08Revoke, c08Revoke,
				c08Fulfill, c08Fail,
			}).Draw(t, "flapCutKind")
			c.Ord = rapid.SampledFrom([]int{1, 1, 2, 3}).Draw(
				t, "flapCutOrd",
			)
			c.Both = rapid.Bool().Draw(t, "flapCutBoth")
			p.Cuts = append(p.Cuts, c)
		}
	}

	if slots && (slotQuiet || slotPrefix > 0) {
		// quiet: nothing may heal or disturb the state after the
		// refusal; prefix: phase 0 is sequenced by idleness, faults
		// start with the first restart.
		var cuts []*c08CutPlan
		for _, c := range p.Cuts {
			if !slotQuiet && c.Phase > 0 {
				cuts = append(cuts, c)
			}
		}
		var flaps []c08FlapPlan
		for _, f := range p.Flaps {
			if !slotQuiet && f.Phase > 0 {
				flaps = append(flaps, f)
			}
		}
		p.Cuts, p.Flaps = cuts, flaps
	}

	return p
}

// ---------------------------------------------------------------------------
// Runtime.
// ---------------------------------------------------------------------------

const (
	c08Pending = iota
	c08Success
	c08Failed      // failure reported through the switch
	c08FailedLocal // SendHTLC refused, nothing left the node
	c08Lost        // add never reached a commitment before a restart
	c08NotFound    // ErrPaymentIDNotFound after a restart
)

var c08OutcomeNames = [...]string{
	"pending", "success", "failed", "failed_local", "lost", "notfound",
}

type c08Pay struct {
	plan   *c08PayPlan
	ix     int
	pre    lntypes.Preimage
	hash   lntypes.Hash
	pid    uint64
	inAmt  lnwire.MilliSatoshi // debited from the sender on success
	invAmt lnwire.MilliSatoshi

	mu         sync.Mutex
	launched   bool
	sent       bool // SendHTLC returned nil
	outcome    int
	gotPre     lntypes.Preimage
	failMsg    string
	resolveSeq int
	holdDone   bool
	armed      bool
}

func (p *c08Pay) get() (int, bool) {
	p.mu.Lock()
	defer p.mu.Unlock()

	return p.outcome, p.sent
}

type c08Run struct {
	t    *testing.T
	tb   *c08TB
	plan *c08Plan
	cl   *c08Cluster
	tap  *c08Tap
	n    *threeHopNetwork

	notifier *c08Notifier
	regs     [3]*mockInvoiceRegistry
	caches   [3]*mockPreimageCache

	pays []*c08Pay
	wg   sync.WaitGroup

	mu        sync.Mutex
	linkFails []string
	resumed   map[string]bool // links past resumeLink in this phase
	stopping  atomic.Bool

	// a restart found a forwarding package with an acked add below an
	// unacked one (see known finding C08-fwdpkg-index-shift)
	shiftExposed bool
	stuck        string

	phase        int
	restartHits  []int
	inconclusive string
	deadline     time.Duration
	grace        time.Duration
	idleGap      time.Duration
	stuckIdle    time.Duration
	nudgeIdle    time.Duration
	nudges       int
	flaps        int
	flapHits     int
	// link flaps since the switches were (re)started
	flapsSinceRestart int
	rescued           bool

	startBal [4]lnwire.MilliSatoshi // a2b, b2a, b2c, c2b local balances
}

func (r *c08Run) sender(p *c08Pay) *mockServer {
	if p.plan.Dir == 0 {
		return r.n.aliceServer
	}

	return r.n.carolServer
}

func (r *c08Run) receiverReg(p *c08Pay) *mockInvoiceRegistry {
	if p.plan.Dir == 0 {
		return r.regs[2]
	}

	return r.regs[0]
}

func (r *c08Run) noteLinkFail(s string) {
	r.mu.Lock()
	r.linkFails = append(r.linkFails, s)
	r.mu.Unlock()
}

func (r *c08Run) linkFailList() []string {
	r.mu.Lock()
	defer r.mu.Unlock()

	return append([]string(nil), r.linkFails...)
}

// startNetwork builds a network on the current database state and starts
// it. Invoice registries and preimage caches are node state that survives a
// restart; the fixture creates fresh ones, so they are transplanted.
func (r *c08Run) startNetwork(chans [4]*lnwallet.LightningChannel) bool {
	opt := func(alice, bob, carol *mockServer) {
		srv := [3]*mockServer{alice, bob, carol}
		for i, s := range srv {
			if r.regs[i] == nil {
				r.regs[i] = s.registry
				r.caches[i] = s.pCache
			} else {
				_ = s.registry.registry.Stop()
				s.registry = r.regs[i]
				s.pCache = r.caches[i]
			}
		}
		bob.htlcSwitch.cfg.HtlcNotifier = r.notifier
		alice.intersect(r.tap.interceptor("alice"))
		bob.intersect(r.tap.interceptor("bob"))
		carol.intersect(r.tap.interceptor("carol"))
	}
	r.mu.Lock()
	r.resumed = make(map[string]bool)
	r.mu.Unlock()
	r.n = newThreeHopNetwork(
		r.tb, chans[0], chans[1], chans[2], chans[3],
		testStartingHeight, opt,
	)
	links := map[string]*channelLink{
		"alice":      r.n.aliceChannelLink,
		"bob first":  r.n.firstBobChannelLink,
		"bob second": r.n.secondBobChannelLink,
		"carol":      r.n.carolChannelLink,
	}
	for name, l := range links {
		name := name
		l.cfg.OnChannelFailure = func(_ lnwire.ChannelID,
			_ lnwire.ShortChannelID, e LinkFailureError) {

			// A link that is stopped while signing reports an
			// "internal error" on its way out; not a failure.
			if r.stopping.Load() {
				return
			}
			r.noteLinkFail(fmt.Sprintf("phase %d %s: %v", r.phase,
				name, e.Error()))
		}
		l.cfg.NotifyActiveChannel = func(wire.OutPoint) {
			r.mu.Lock()
			r.resumed[name] = true
			r.mu.Unlock()
		}
		// The fixture shares one mock obfuscator (with a mutable
		// field) between all links.
		l.cfg.ExtractErrorEncrypter = func(*btcec.PublicKey) (
			hop.ErrorEncrypter, lnwire.FailCode) {

			return NewMockObfuscator(), lnwire.CodeNone
		}
	}

	if err := r.n.aliceServer.Start(); err != nil {
		r.inconclusive = "start: " + err.Error()
		return false
	}
	if err := r.n.bobServer.Start(); err != nil {
		r.inconclusive = "start: " + err.Error()
		return false
	}
	if err := r.n.carolServer.Start(); err != nil {
		r.inconclusive = "start: " + err.Error()
		return false
	}
	until := time.Now().Add(r.deadline)
	for {
		err := waitLinksEligible(links)
		if err == nil {
			return true
		}
		if time.Now().After(until) || len(r.linkFailList()) > 0 {
			r.inconclusive = "start: " + err.Error()
			return false
		}
	}
}

func (r *c08Run) stopNetwork() {
	r.stopping.Store(true)
	if r.n != nil {
		r.n.stop()
	}
	r.wg.Wait()
	r.stopping.Store(false)
}

func (r *c08Run) resolve(p *c08Pay, outcome int, pre lntypes.Preimage,
	msg string) {

	if i := strings.IndexAny(msg, "(\n"); i > 0 {
		msg = msg[:i]
	}

	seq := len(r.tap.events())
	p.mu.Lock()
	if p.outcome == c08Pending {
		p.outcome = outcome
		p.gotPre = pre
		p.failMsg = msg
		p.resolveSeq = seq
	}
	p.mu.Unlock()
}

// await subscribes to the attempt result at the sender's current switch
// (synchronously: Switch.GetAttemptResult must not run concurrently with
// Switch.Stop, which only the harness' main goroutine calls) and collects the
// result on a goroutine.
func (r *c08Run) await(p *c08Pay, sw *Switch) {
	ch, err := sw.GetAttemptResult(p.pid, p.hash, newMockDeobfuscator())
	switch {
	case errors.Is(err, ErrPaymentIDNotFound):
		r.resolve(p, c08NotFound, lntypes.Preimage{}, err.Error())
		return
	case err != nil:
		// switch shutting down: ask again after the restart.
		return
	}

	r.wg.Add(1)
	go func() {
		defer r.wg.Done()

		res, ok := <-ch
		if !ok {
			return
		}
		if res.Error != nil {
			r.resolve(p, c08Failed, lntypes.Preimage{},
				res.Error.Error())
			return
		}
		r.resolve(p, c08Success, res.Preimage, "")
	}()
}

func (r *c08Run) launch(p *c08Pay) error {
	var (
		first, last *channelLink
		firstHop    lnwire.ShortChannelID
	)
	if p.plan.Dir == 0 {
		first, last = r.n.firstBobChannelLink, r.n.carolChannelLink
		firstHop = r.n.firstBobChannelLink.ShortChanID()
	} else {
		first, last = r.n.secondBobChannelLink, r.n.aliceChannelLink
		firstHop = r.n.secondBobChannelLink.ShortChanID()
	}
	inAmt, timelock, hops := c08Hops(
		p.plan.Amt, p.plan.FeeDelta, p.plan.CltvDefect,
		testStartingHeight, first, last,
	)
	p.inAmt = inAmt
	blob, err := generateRoute(hops...)
	if err != nil {
		return err
	}

	p.invAmt = p.plan.Amt
	switch p.plan.Kind {
	case c08KindOverpay:
		p.invAmt = p.plan.Amt - p.plan.Amt/3
		if p.invAmt < 1 {
			p.invAmt = 1
		}
	case c08KindUnderpay:
		p.invAmt = p.plan.Amt + 1 + p.plan.Amt/7
	}
	var prePtr *lntypes.Preimage
	if p.plan.Kind != c08KindHoldSettle && p.plan.Kind != c08KindHoldCancel {
		pre := p.pre
		prePtr = &pre
	}
	payAddr := sha256.Sum256(append([]byte("c08addr"), p.pre[:]...))
	invoice, htlc, _, err := generatePaymentWithPreimage(
		p.invAmt, inAmt, timelock, blob, prePtr, p.hash, payAddr,
	)
	if err != nil {
		return err
	}
	if p.plan.Kind != c08KindUnknown {
		err := r.receiverReg(p).AddInvoice(
			context.Background(), *invoice, p.hash,
		)
		if err != nil {
			return fmt.Errorf("add invoice: %w", err)
		}
	}

	sw := r.sender(p).htlcSwitch
	p.mu.Lock()
	p.launched = true
	p.mu.Unlock()

	if err := sw.SendHTLC(firstHop, p.pid, htlc); err != nil {
		r.resolve(p, c08FailedLocal, lntypes.Preimage{}, err.Error())
		return nil
	}
	p.mu.Lock()
	p.sent = true
	p.mu.Unlock()
	r.await(p, sw)

	return nil
}

// flap stops both links of a channel and re-creates them from the database;
// switches, mailboxes and circuit maps stay as they are.
func (r *c08Run) flap(ch int) bool {
	var (
		pair   *c08ChanPair
		sA, sB *mockServer
		dA, dB *mockIteratorDecoder
		nameA  string
		nameB  string
		lA, lB *channelLink
		edge   c08Edge
	)
	if ch == 0 {
		pair, sA, sB = r.cl.ab, r.n.aliceServer, r.n.bobServer
		nameA, nameB, edge = "alice", "bob first", c08AtoB
		lA, lB = r.n.aliceChannelLink, r.n.firstBobChannelLink
	} else {
		pair, sA, sB = r.cl.bc, r.n.bobServer, r.n.carolServer
		nameA, nameB, edge = "bob second", "carol", c08BtoC
		lA, lB = r.n.secondBobChannelLink, r.n.carolChannelLink
	}
	if !lA.channel.IsChannelClean() || !lB.channel.IsChannelClean() {
		r.flapHits++
	}
	r.flaps++
	r.flapsSinceRestart++

	// Connection dies: nothing is delivered any more, both links go
	// away, and whatever still sits in the two servers' queues is taken
	// off (and dropped) before the new connection starts.
	r.tap.disconnect(edge)
	r.stopping.Store(true)
	sA.htlcSwitch.RemoveLink(pair.chanID)
	sB.htlcSwitch.RemoveLink(pair.chanID)
	r.stopping.Store(false)
	for len(r.tap.sentinel) > 0 {
		<-r.tap.sentinel
	}
	_ = sA.SendMessage(false, &lnwire.Ping{})
	_ = sB.SendMessage(false, &lnwire.Ping{})
	for i := 0; i < 2; i++ {
		select {
		case <-r.tap.sentinel:
		case <-time.After(r.deadline):
			r.inconclusive = "flap: server queue not drained"
			return false
		}
	}
	// New connection: the links' reestablish messages are held until
	// both links exist (a server discards messages for a missing link).
	r.tap.reconnect(edge)
	defer r.tap.release(edge)
	dA, dB = newMockIteratorDecoder(), newMockIteratorDecoder()
	r.mu.Lock()
	r.resumed[nameA], r.resumed[nameB] = false, false
	r.mu.Unlock()

	chA, err := pair.a.restore()
	if err != nil {
		r.inconclusive = "flap restore: " + err.Error()
		return false
	}
	chB, err := pair.b.restore()
	if err != nil {
		r.inconclusive = "flap restore: " + err.Error()
		return false
	}
	if c08ShiftExposed([4]*lnwallet.LightningChannel{chA, chB, chA, chB}) {
		r.shiftExposed = true
	}
	hooks := func(name string) c08LinkHooks {
		phase := r.phase
		return c08LinkHooks{
			onFailure: func(e LinkFailureError) {
				if r.stopping.Load() {
					return
				}
				r.noteLinkFail(fmt.Sprintf("phase %d %s (after "+
					"flap): %v", phase, name, e.Error()))
			},
			onActive: func() {
				r.mu.Lock()
				r.resumed[name] = true
				r.mu.Unlock()
			},
		}
	}
	nA, err := c08CreateLink(&r.n.hopNetwork, sA, sB, chA, dA, hooks(nameA))
	if err != nil {
		r.inconclusive = "flap: " + err.Error()
		return false
	}
	nB, err := c08CreateLink(&r.n.hopNetwork, sB, sA, chB, dB, hooks(nameB))
	if err != nil {
		r.inconclusive = "flap: " + err.Error()
		return false
	}
	if ch == 0 {
		r.n.aliceChannelLink, r.n.firstBobChannelLink = nA, nB
	} else {
		r.n.secondBobChannelLink, r.n.carolChannelLink = nA, nB
	}
	r.tap.release(edge)

	until := time.Now().Add(r.deadline)
	for !nA.EligibleToForward() || !nB.EligibleToForward() {
		if time.Now().After(until) || len(r.linkFailList()) > 0 {
			r.inconclusive = "flap: links not eligible"
			return false
		}
		time.Sleep(2 * time.Millisecond)
	}
	r.tap.touch()

	return true
}

// nudge launches one doomed (unknown hash) payment per direction.
func (r *c08Run) nudge() error {
	for dir := 0; dir < 2; dir++ {
		i := len(r.pays)
		p := &c08Pay{
			plan: &c08PayPlan{
				Dir: dir, Class: "nudge", Kind: c08KindUnknown,
				Amt:   lnwire.MilliSatoshi(7_000_000 + i),
				Phase: r.phase,
			},
			ix: i, pid: uint64(1000 + i),
		}
		p.pre = c08Hash(r.plan.Seed, "pre", i)
		p.hash = sha256.Sum256(p.pre[:])
		r.pays = append(r.pays, p)
		if err := r.launch(p); err != nil {
			return err
		}
	}

	return nil
}

// requery is called after a restart, before the new network is started.
func (r *c08Run) requery() {
	for _, p := range r.pays {
		outcome, sent := p.get()
		if outcome != c08Pending {
			continue
		}
		p.mu.Lock()
		launched := p.launched
		p.mu.Unlock()
		if !launched {
			continue
		}
		sw := r.sender(p).htlcSwitch
		if !sent {
			// SendHTLC neither failed nor returned before the
			// stop; cannot happen (wg.Wait), be safe.
			r.resolve(p, c08FailedLocal, lntypes.Preimage{},
				"send interrupted")
			continue
		}
		c := sw.circuits.LookupCircuit(CircuitKey{
			ChanID: hop.Source, HtlcID: p.pid,
		})
		if c != nil && !c.HasKeystone() && c.LoadedFromDisk {
			// The add was handed to the link but never signed:
			// it is gone with the restart and nothing will ever
			// answer this attempt (router-level concern, outside
			// the forwarder property). Counted, and the dangling
			// local circuit is expected by the oracle.
			r.resolve(p, c08Lost, lntypes.Preimage{}, "lost")
			continue
		}
		r.await(p, sw)
	}
}

// pollHolds resolves armed hold invoices as soon as they are accepted.
func (r *c08Run) pollHolds() {
	for _, p := range r.pays {
		k := p.plan.Kind
		if k != c08KindHoldSettle && k != c08KindHoldCancel {
			continue
		}
		p.mu.Lock()
		armed, done, launched := p.armed, p.holdDone, p.launched
		p.mu.Unlock()
		if !armed || done || !launched {
			continue
		}
		reg := r.receiverReg(p)
		inv, err := reg.LookupInvoice(context.Background(), p.hash)
		if err != nil {
			continue
		}
		switch {
		case inv.State == invpkg.ContractSettled ||
			inv.State == invpkg.ContractCanceled:

			p.mu.Lock()
			p.holdDone = true
			p.mu.Unlock()

		case k == c08KindHoldCancel &&
			(inv.State == invpkg.ContractAccepted ||
				p.plan.CancelEarly):

			_ = reg.CancelInvoice(context.Background(), p.hash)

		case k == c08KindHoldSettle &&
			inv.State == invpkg.ContractAccepted:

			_ = reg.SettleHodlInvoice(context.Background(), p.pre)
		}
	}
}

// waitCount waits until at messages were tapped in this phase or the wire
// went idle.
func (r *c08Run) waitCount(at int) {
	until := time.Now().Add(r.deadline)
	for {
		r.pollHolds()
		n, since := r.tap.snapshot()
		if n >= at || since >= r.idleGap || time.Now().After(until) {
			return
		}
		time.Sleep(3 * time.Millisecond)
	}
}

type c08Action struct {
	at   int
	arm  bool
	pay  *c08Pay
	flap *c08FlapPlan
	tie  int
}

func (r *c08Run) runPhase(ph int) bool {
	var acts []c08Action
	for _, p := range r.pays {
		if p.plan.Phase == ph {
			acts = append(acts, c08Action{at: p.plan.At, pay: p,
				tie: 2 * p.ix})
		}
		hold := p.plan.Kind == c08KindHoldSettle ||
			p.plan.Kind == c08KindHoldCancel
		if hold && p.plan.ResPhase == ph {
			acts = append(acts, c08Action{at: p.plan.ResAt, pay: p,
				arm: true, tie: 2*p.ix + 1})
		}
	}
	for i := range r.plan.Flaps {
		f := &r.plan.Flaps[i]
		if f.Phase == ph {
			acts = append(acts, c08Action{at: f.At, flap: f,
				tie: 1000 + i})
		}
	}
	sort.Slice(acts, func(i, j int) bool {
		if acts[i].at != acts[j].at {
			return acts[i].at < acts[j].at
		}

		return acts[i].tie < acts[j].tie
	})
	for i, a := range acts {
		// actions with the same trigger happen back to back (adds
		// end up in one commitment).
		if i == 0 || acts[i-1].at != a.at {
			r.waitCount(a.at)
		}
		if a.arm {
			a.pay.mu.Lock()
			a.pay.armed = true
			a.pay.mu.Unlock()
			continue
		}
		if a.flap != nil {
			if !r.flap(a.flap.Chan) {
				return false
			}
			continue
		}
		if err := r.launch(a.pay); err != nil {
			r.inconclusive = "launch: " + err.Error()
			return false
		}
		r.tap.touch()
	}

	return true
}

func c08InFlight(chans [4]*lnwallet.LightningChannel) int {
	n := 0
	for _, c := range chans {
		st := c.State()
		n += len(st.LocalCommitment.Htlcs) + len(st.RemoteCommitment.Htlcs)
		if tip, err := st.RemoteCommitChainTip(); err == nil {
			n += 1 + len(tip.Commitment.Htlcs)
		}
	}

	return n
}

// c08ShiftExposed reports whether some forwarding package that will be
// reprocessed has an acked add below an unacked one.
func c08ShiftExposed(chans [4]*lnwallet.LightningChannel) bool {
	for _, c := range chans {
		pkgs, err := c.LoadFwdPkgs()
		if err != nil {
			continue
		}
		for _, pkg := range pkgs {
			if pkg.AckFilter == nil || pkg.AckFilter.IsFull() {
				continue
			}
			acked := false
			for i := range pkg.Adds {
				if pkg.AckFilter.Contains(uint16(i)) {
					acked = true
				} else if acked {
					return true
				}
			}
		}
	}

	return false
}

// stuckForward looks for a forwarded HTLC that can structurally never be
// resolved any more: Bob holds a half-open circuit that was loaded from disk
// (so no packet for it sits in a mailbox), the incoming link has finished
// resuming (forwarding packages were reprocessed; this is the only place that
// re-forwards or fails such an add), Bob owes no commitment on the incoming
// channel (no fail on its way) and the wire has been silent for a long
// time. This is not a timing verdict: nothing in the node will ever touch the
// HTLC again before it expires.
func (r *c08Run) stuckForward(minSilence time.Duration) string {
	_, since := r.tap.snapshot()
	if since < minSilence {
		return ""
	}
	cm, ok := r.n.bobServer.htlcSwitch.circuits.(*circuitMap)
	if !ok {
		return ""
	}
	type half struct {
		in     CircuitKey
		hash   [32]byte
		loaded bool
	}
	var halves []half
	cm.mtx.RLock()
	for k, c := range cm.pending {
		if k.ChanID == hop.Source || c.HasKeystone() {
			continue
		}
		// A half-open circuit that was NOT loaded from disk normally
		// has its packet in the outgoing link's mailbox. It is only
		// considered when no link flapped during this switch lifetime
		// (a flap that interrupts Switch.ForwardPackets leaves the
		// same picture, see notes 5b) and the mailbox does not hold
		// the packet.
		if !c.LoadedFromDisk && r.flapsSinceRestart > 0 {
			continue
		}
		halves = append(halves, half{k, c.PaymentHash, c.LoadedFromDisk})
	}
	cm.mtx.RUnlock()
	for _, h := range halves {
		name, link := "bob first", r.n.firstBobChannelLink
		other := r.n.secondBobChannelLink
		if h.in.ChanID == r.n.secondBobChannelLink.ShortChanID() {
			name, link = "bob second", r.n.secondBobChannelLink
			other = r.n.firstBobChannelLink
		}
		r.mu.Lock()
		resumed := r.resumed[name]
		r.mu.Unlock()
		if !resumed || link.channel.OweCommitment() {
			continue
		}
		active := false
		for _, htlc := range link.channel.ActiveHtlcs() {
			if htlc.Incoming && htlc.HtlcIndex == h.in.HtlcID {
				active = true
			}
		}
		if !active {
			continue
		}
		if !h.loaded {
			mb, ok := other.mailBox.(*memoryMailBox)
			if !ok {
				continue
			}
			mb.pktMtx.Lock()
			_, queued := mb.addIndex[h.in]
			mb.pktMtx.Unlock()
			if queued || !other.EligibleToForward() {
				continue
			}

			return fmt.Sprintf("incoming HTLC %v (%x) at bob is left "+
				"dangling: its circuit is half-open, the add is in "+
				"no mailbox (the outgoing link gave it up or never "+
				"got it), no answer went upstream, no link flapped "+
				"since the switch started, nothing is pending and "+
				"the wire has been silent for %v", h.in, h.hash[:4],
				since.Round(time.Second))
		}

		return fmt.Sprintf("incoming HTLC %v (%x) at bob is left "+
			"dangling: its circuit is half-open and loaded from disk "+
			"(outgoing add lost with the restart), the incoming link "+
			"finished reprocessing its forwarding packages without "+
			"re-forwarding or failing it, nothing is pending and the "+
			"wire has been silent for %v", h.in, h.hash[:4],
			since.Round(time.Second))
	}

	return ""
}

// stuckResponse is the twin of stuckForward for the way back (oracle G3,
// added after seeded change C08d was missed): Bob's circuit is fully open,
// the downstream peer's update_fulfill_htlc for the outgoing HTLC reached Bob
// on a live connection (tap, not dropped), the incoming HTLC is still active,
// the incoming link is up, resumed and owes no commitment, and the response
// packet is not in the incoming link's mailbox. lnd keeps a response in that
// mailbox until the commitment that removes the incoming HTLC has been signed
// and the circuit deleted (ackDownStreamPackets), and re-delivers it to every
// new link object (ResetPackets); an open circuit whose response is in no
// mailbox has lost it for the lifetime of the switch: the forwarder paid
// downstream and never claims upstream. Like G this is a structural verdict
// (nothing in the node will touch the HTLC again), not a timeout.
func (r *c08Run) stuckResponse(minSilence time.Duration) string {
	_, since := r.tap.snapshot()
	if since < minSilence {
		return ""
	}
	cm, ok := r.n.bobServer.htlcSwitch.circuits.(*circuitMap)
	if !ok {
		return ""
	}
	type full struct {
		in, out CircuitKey
		hash    [32]byte
	}
	var fulls []full
	cm.mtx.RLock()
	for out, c := range cm.opened {
		if c.Incoming.ChanID == hop.Source {
			continue
		}
		fulls = append(fulls, full{c.Incoming, out, c.PaymentHash})
	}
	cm.mtx.RUnlock()
	sort.Slice(fulls, func(i, j int) bool {
		if fulls[i].in.ChanID != fulls[j].in.ChanID {
			return fulls[i].in.ChanID.ToUint64() <
				fulls[j].in.ChanID.ToUint64()
		}

		return fulls[i].in.HtlcID < fulls[j].in.HtlcID
	})
	if len(fulls) == 0 {
		return ""
	}
	events := r.tap.events()
	for _, f := range fulls {
		name, link := "bob first", r.n.firstBobChannelLink
		other, otherName := r.n.secondBobChannelLink, "bob second"
		edgeOut := c08CtoB
		if f.in.ChanID == r.n.secondBobChannelLink.ShortChanID() {
			name, link = "bob second", r.n.secondBobChannelLink
			other, otherName = r.n.firstBobChannelLink, "bob first"
			edgeOut = c08AtoB
		}
		if f.out.ChanID != other.ShortChanID() {
			continue
		}
		r.mu.Lock()
		resumed := r.resumed[name] && r.resumed[otherName]
		r.mu.Unlock()
		if !resumed || link.channel.OweCommitment() ||
			!link.EligibleToForward() {

			continue
		}
		active := false
		for _, htlc := range link.channel.ActiveHtlcs() {
			if htlc.Incoming && htlc.HtlcIndex == f.in.HtlcID {
				active = true
			}
		}
		if !active {
			continue
		}
		// Positive evidence that the downstream answer reached Bob: a
		// fulfill is passed upstream on receipt; a fail only once its
		// removal is locked in (fail, then a commit_sig and a
		// revoke_and_ack from the peer on the same connection).
		settled, failStage, failEpoch := false, 0, -1
		for _, e := range events {
			if e.edge != edgeOut || e.dropped {
				continue
			}
			switch {
			case e.kind == c08Fulfill && e.id == f.out.HtlcID:
				settled = true
			case e.kind == c08Fail && e.id == f.out.HtlcID:
				failStage, failEpoch = 1, e.epoch
			case e.kind == c08Commit && failStage == 1 &&
				e.epoch == failEpoch:

				failStage = 2
			case e.kind == c08Revoke && failStage == 2 &&
				e.epoch == failEpoch:

				failStage = 3
			}
		}
		outGone := true
		for _, htlc := range other.channel.ActiveHtlcs() {
			if !htlc.Incoming && htlc.HtlcIndex == f.out.HtlcID {
				outGone = false
			}
		}
		failed := failStage == 3 && outGone &&
			!other.channel.OweCommitment()
		if !settled && !failed {
			continue
		}
		answer := "settled"
		if !settled {
			answer = "failed (removal locked in)"
		}
		mb, ok := link.mailBox.(*memoryMailBox)
		if !ok {
			continue
		}
		mb.pktMtx.Lock()
		_, queued := mb.repIndex[f.in]
		mb.pktMtx.Unlock()
		if queued {
			continue
		}

		return fmt.Sprintf("incoming HTLC %v (%x) at bob is left "+
			"dangling: the outgoing HTLC %v was %s by the "+
			"downstream peer, the circuit is still open, the incoming "+
			"HTLC is still active, but the response is in no mailbox "+
			"(given up before a commitment covering it was signed); "+
			"nothing is pending and the wire has been silent for %v",
			f.in, f.hash[:4], f.out, answer, since.Round(time.Second))
	}

	return ""
}

func (r *c08Run) restore() ([4]*lnwallet.LightningChannel, error) {
	a, b, c, d, err := r.cl.restoreAll()

	return [4]*lnwallet.LightningChannel{a, b, c, d}, err
}

// run executes the plan; returns the oracle's findings (nil/empty = held).
func (r *c08Run) run() []string {
	defer func() {
		r.stopNetwork()
		for _, reg := range r.regs {
			if reg != nil {
				_ = reg.registry.Stop()
			}
		}
	}()

	chans := [4]*lnwallet.LightningChannel{
		r.cl.ab.chA, r.cl.ab.chB, r.cl.bc.chA, r.cl.bc.chB,
	}
	for i, c := range chans {
		r.startBal[i] = c.State().LocalCommitment.LocalBalance
	}

	for ph := 0; ; ph++ {
		r.phase = ph
		r.notifier.setPhase(ph)
		r.tap.newPhase(ph)
		if !r.startNetwork(chans) {
			return nil
		}
		if ph > 0 {
			r.requery()
		}
		if !r.runPhase(ph) {
			return nil
		}
		if ph == r.plan.Restarts {
			break
		}
		r.waitCount(r.plan.RestartAt[ph])
		r.flapsSinceRestart = 0
		r.stopNetwork()
		var err error
		if chans, err = r.restore(); err != nil {
			r.inconclusive = "restore: " + err.Error()
			return nil
		}
		r.restartHits = append(r.restartHits, c08InFlight(chans))
		if c08ShiftExposed(chans) {
			r.shiftExposed = true
		}
	}

	// Final phase: everything is armed, wait for quiescence.
	for _, p := range r.pays {
		p.mu.Lock()
		p.armed = true
		p.mu.Unlock()
	}
	until := time.Now().Add(r.deadline)
	stable := 0
	for {
		r.pollHolds()
		ok := true
		for _, p := range r.pays {
			if o, _ := p.get(); o == c08Pending {
				ok = false
				break
			}
		}
		if ok {
			for _, l := range []*channelLink{
				r.n.aliceChannelLink, r.n.firstBobChannelLink,
				r.n.secondBobChannelLink, r.n.carolChannelLink,
			} {
				if !l.channel.IsChannelClean() {
					ok = false
					break
				}
			}
		}
		if ok {
			stable++
			if stable >= 3 {
				break
			}
		} else {
			stable = 0
		}
		// A node that restarted between its revoke_and_ack and its
		// commit_sig owes a signature but nothing triggers it until
		// the next update on that channel (lnd behaviour, liveness
		// only). Doomed payments in both directions provide that
		// update.
		// A connection that was cut in the last phase is re-established
		// (link flap) once the wire has gone idle.
		if _, since := r.tap.snapshot(); !ok && since >= r.nudgeIdle {
			if ch := r.tap.cutChannel(); ch >= 0 {
				if !r.flap(ch) {
					return nil
				}
				continue
			}
		}
		if _, since := r.tap.snapshot(); !ok && since >= r.nudgeIdle &&
			r.nudges < 3 {

			r.nudges++
			if err := r.nudge(); err != nil {
				r.inconclusive = "nudge: " + err.Error()
				return nil
			}
			r.tap.touch()
		}
		if s := r.stuckForward(r.stuckIdle); s != "" {
			r.stuck = s
			return []string{s}
		}
		if s := r.stuckResponse(r.stuckIdle); s != "" {
			r.stuck = s
			return []string{s}
		}
		// Still not quiescent although nudged three times and idle: a
		// forward whose batch was cut short by a link flap is only
		// picked up again by a restart (see notes, liveness). One
		// rescue restart - unless the structural precondition of the
		// dangling-forward verdict holds, which a restart could mask.
		if _, since := r.tap.snapshot(); !ok && since >= r.nudgeIdle &&
			r.nudges >= 3 && !r.rescued && r.flapsSinceRestart > 0 &&
			r.stuckForward(0) == "" && r.stuckResponse(0) == "" {

			r.rescued = true
			r.flapsSinceRestart = 0
			r.stopNetwork()
			chans, err := r.restore()
			if err != nil {
				r.inconclusive = "restore: " + err.Error()
				return nil
			}
			if c08ShiftExposed(chans) {
				r.shiftExposed = true
			}
			r.phase++
			r.notifier.setPhase(r.phase)
			r.tap.newPhase(r.phase)
			if !r.startNetwork(chans) {
				return nil
			}
			r.requery()
			r.nudges = 2
			r.tap.touch()
		}
		if time.Now().After(until) {
			r.inconclusive = "quiescence deadline: " + r.pendingInfo()
			return nil
		}
		time.Sleep(5 * time.Millisecond)
	}

	// Settle-down: the switch acknowledges settles lazily (batch on the
	// AckEventTicker) and the late, ref-carrying copy of a settle travels
	// on a goroutine of its own; flush and poll for a bounded time. What
	// is still open afterwards is reported by the oracle.
	live := [4]*lnwallet.LightningChannel{
		r.n.aliceChannelLink.channel, r.n.firstBobChannelLink.channel,
		r.n.secondBobChannelLink.channel, r.n.carolChannelLink.channel,
	}
	until = time.Now().Add(r.grace)
	for {
		for _, s := range []*mockServer{
			r.n.aliceServer, r.n.bobServer, r.n.carolServer,
		} {
			c08ForceAck(s.htlcSwitch)
		}
		if len(c08FwdPkgIssues(live)) == 0 || time.Now().After(until) {
			break
		}
		time.Sleep(20 * time.Millisecond)
	}

	stopped := r.n
	r.stopNetwork()
	if f := r.tb.fatalList(); len(f) > 0 {
		r.inconclusive = "fixture fatal: " + strings.Join(f, "; ")
		return nil
	}

	return r.oracle(stopped)
}

func (r *c08Run) pendingInfo() string {
	var b strings.Builder
	for _, p := range r.pays {
		o, sent := p.get()
		if o == c08Pending {
			fmt.Fprintf(&b, "pay%d(%s sent=%v) ", p.ix,
				c08PayKindNames[p.plan.Kind], sent)
		}
	}
	if r.n != nil {
		for i, l := range []*channelLink{
			r.n.aliceChannelLink, r.n.firstBobChannelLink,
			r.n.secondBobChannelLink, r.n.carolChannelLink,
		} {
			if !l.channel.IsChannelClean() {
				fmt.Fprintf(&b, "chan%d-unclean(htlcs=%d) ", i,
					len(l.channel.ActiveHtlcs()))
			}
		}
	}
	if lf := r.linkFailList(); len(lf) > 0 {
		fmt.Fprintf(&b, "linkfail=%v", lf)
	}

	return b.String()
}

// ---------------------------------------------------------------------------
// Oracle at quiescence.
// ---------------------------------------------------------------------------

func c08CircuitCounts(db *channeldb.DB) (int, int, error) {
	resStore := newResolutionStore(db)
	cm, err := NewCircuitMap(&CircuitMapConfig{
		DB:                   db,
		FetchAllOpenChannels: db.ChannelStateDB().FetchAllOpenChannels,
		FetchClosedChannels:  db.ChannelStateDB().FetchClosedChannels,
		CheckResolutionMsg:   resStore.checkResolutionMsg,
	})
	if err != nil {
		return 0, 0, err
	}

	return cm.NumPending(), cm.NumOpen(), nil
}

func (r *c08Run) oracle(stopped *threeHopNetwork) []string {
	var bad []string
	fail := func(f string, a ...any) {
		bad = append(bad, fmt.Sprintf(f, a...))
	}

	chans, err := r.restore()
	if err != nil {
		r.inconclusive = "final restore: " + err.Error()
		return nil
	}
	names := [4]string{"alice(ab)", "bob(ab)", "bob(bc)", "carol(bc)"}

	// (A) durable channel state: no HTLC, no pending commitment, both ends
	// agree, nothing created or destroyed inside a channel.
	var local, remote [4]lnwire.MilliSatoshi
	for i, c := range chans {
		st := c.State()
		local[i] = st.LocalCommitment.LocalBalance
		remote[i] = st.LocalCommitment.RemoteBalance
		if n := len(st.LocalCommitment.Htlcs); n != 0 {
			fail("%s: %d HTLCs left on the local commitment", names[i], n)
		}
		if n := len(st.RemoteCommitment.Htlcs); n != 0 {
			fail("%s: %d HTLCs left on the remote commitment", names[i], n)
		}
		if _, err := st.RemoteCommitChainTip(); err == nil {
			fail("%s: dangling pending remote commitment", names[i])
		}
		if st.RemoteCommitment.LocalBalance != local[i] ||
			st.RemoteCommitment.RemoteBalance != remote[i] {

			fail("%s: local/remote commitment balances differ: "+
				"%v/%v vs %v/%v", names[i], local[i], remote[i],
				st.RemoteCommitment.LocalBalance,
				st.RemoteCommitment.RemoteBalance)
		}
		fee := lnwire.NewMSatFromSatoshis(st.LocalCommitment.CommitFee)
		capMsat := lnwire.NewMSatFromSatoshis(st.Capacity)
		if local[i]+remote[i]+fee != capMsat {
			fail("%s: local %v + remote %v + fee %v != capacity %v",
				names[i], local[i], remote[i], fee, capMsat)
		}
	}
	for _, pr := range [][2]int{{0, 1}, {2, 3}} {
		if local[pr[0]] != remote[pr[1]] || remote[pr[0]] != local[pr[1]] {
			fail("%s/%s disagree on balances: %v/%v vs %v/%v",
				names[pr[0]], names[pr[1]], local[pr[0]],
				remote[pr[0]], local[pr[1]], remote[pr[1]])
		}
	}

	// (B) money: computed from what the SENDERS were told.
	var (
		fees                   int64
		aliceDelta, carolDelta int64
		lostAlice, lostCarol   int
	)
	for _, p := range r.pays {
		o, _ := p.get()
		switch o {
		case c08Success:
			fee := int64(p.inAmt) - int64(p.plan.Amt)
			fees += fee
			if fee < 0 {
				fail("pay%d: forwarded although the incoming amount "+
					"%v is below the outgoing amount %v (forwarder "+
					"out of pocket by %d msat)", p.ix, p.inAmt,
					p.plan.Amt, -fee)
			}
			if p.plan.Dir == 0 {
				aliceDelta -= int64(p.inAmt)
				carolDelta += int64(p.plan.Amt)
			} else {
				carolDelta -= int64(p.inAmt)
				aliceDelta += int64(p.plan.Amt)
			}
		case c08Lost:
			if p.plan.Dir == 0 {
				lostAlice++
			} else {
				lostCarol++
			}
		}
	}
	bobStart := int64(r.startBal[1]) + int64(r.startBal[2])
	bobEnd := int64(local[1]) + int64(local[2])
	if bobEnd != bobStart+fees {
		fail("forwarder balance: start %d + fees of succeeded payments "+
			"%d != end %d (diff %d msat)", bobStart, fees, bobEnd,
			bobEnd-bobStart-fees)
	}
	if got := int64(local[0]) - int64(r.startBal[0]); got != aliceDelta {
		fail("alice balance moved by %d msat, her payment results "+
			"imply %d", got, aliceDelta)
	}
	if got := int64(local[3]) - int64(r.startBal[3]); got != carolDelta {
		fail("carol balance moved by %d msat, her payment results "+
			"imply %d", got, carolDelta)
	}

	// (C) sender-reported result <=> receiver invoice state.
	for _, p := range r.pays {
		o, _ := p.get()
		p.mu.Lock()
		launched := p.launched
		gotPre := p.gotPre
		p.mu.Unlock()
		if !launched {
			continue
		}
		if o == c08Success && gotPre != p.pre {
			fail("pay%d: success with preimage %x, expected %x", p.ix,
				gotPre[:4], p.pre[:4])
		}
		inv, err := r.receiverReg(p).LookupInvoice(
			context.Background(), p.hash,
		)
		if p.plan.Kind == c08KindUnknown {
			if err == nil {
				fail("pay%d: invoice exists for unknown hash", p.ix)
			}
			if o == c08Success {
				fail("pay%d: success for a hash the receiver does "+
					"not know", p.ix)
			}

			continue
		}
		if err != nil {
			fail("pay%d: invoice lookup: %v", p.ix, err)
			continue
		}
		switch {
		case o == c08Success && inv.State != invpkg.ContractSettled:
			fail("pay%d: sender was told success, invoice is %v",
				p.ix, inv.State)

		case o == c08Success && inv.AmtPaid != p.plan.Amt:
			fail("pay%d: invoice paid %v, receiver amount was %v",
				p.ix, inv.AmtPaid, p.plan.Amt)

		case o != c08Success && (inv.State == invpkg.ContractSettled ||
			inv.State == invpkg.ContractAccepted):

			fail("pay%d: sender was told %s (%s), invoice is %v",
				p.ix, c08OutcomeNames[o], p.failMsg, inv.State)
		}
	}

	// (D) no circuit left dangling: in memory (stopped switches) and on
	// disk. Locally initiated adds that were lost before they were signed
	// leave a half-open circuit at the SENDER (see requery).
	type cmCheck struct {
		name        string
		sw          *Switch
		db          *channeldb.DB
		wantPending int
	}
	for _, c := range []cmCheck{
		{"alice", stopped.aliceServer.htlcSwitch, r.cl.dbAlice, lostAlice},
		{"bob", stopped.bobServer.htlcSwitch, r.cl.dbBob, 0},
		{"carol", stopped.carolServer.htlcSwitch, r.cl.dbCarol, lostCarol},
	} {
		np, no := c.sw.circuits.NumPending(), c.sw.circuits.NumOpen()
		if np != c.wantPending || no != 0 {
			fail("%s circuit map (memory): pending=%d open=%d, want "+
				"%d/0", c.name, np, no, c.wantPending)
		}
		np, no, err := c08CircuitCounts(c.db)
		if err != nil {
			fail("%s circuit map reload: %v", c.name, err)
		} else if np != c.wantPending || no != 0 {
			fail("%s circuit map (disk): pending=%d open=%d, want "+
				"%d/0", c.name, np, no, c.wantPending)
		}
	}

	// (E) no forwarding package left with unacked adds or
	// unacknowledged settles/fails.
	bad = append(bad, c08FwdPkgIssues(chans)...)

	// (F) wire-level rules for the forwarder.
	bad = append(bad, c08TapOracle(r.tap.events())...)

	return bad
}

// c08FwdPkgIssues lists forwarding packages that still wait for something.
func c08FwdPkgIssues(chans [4]*lnwallet.LightningChannel) []string {
	var bad []string
	fail := func(f string, a ...any) {
		bad = append(bad, fmt.Sprintf(f, a...))
	}
	names := [4]string{"alice(ab)", "bob(ab)", "bob(bc)", "carol(bc)"}
	for i, c := range chans {
		pkgs, err := c.LoadFwdPkgs()
		if err != nil {
			fail("%s: LoadFwdPkgs: %v", names[i], err)
			continue
		}
		for _, pkg := range pkgs {
			if pkg.AckFilter != nil && !pkg.AckFilter.IsFull() {
				fail("%s: fwd pkg height %d: adds not fully acked "+
					"(%v, %d adds, state %v)", names[i], pkg.Height,
					pkg.AckFilter, len(pkg.Adds), pkg.State)
			}
			// A fail is acknowledged atomically with the commitment
			// that removes the incoming HTLC. Settles are acknowledged
			// lazily (the ref-carrying copy of a settle that meets a
			// closing circuit is dropped and only re-forwarded after
			// the next restart), so only fails are required here.
			if pkg.SettleFailFilter != nil {
				for j, u := range pkg.SettleFails {
					if pkg.SettleFailFilter.Contains(uint16(j)) {
						continue
					}
					if _, ok := u.UpdateMsg.(*lnwire.UpdateFulfillHTLC); ok {
						continue
					}
					fail("%s: fwd pkg height %d: fail #%d (%T) "+
						"not acked (%v, state %v)", names[i],
						pkg.Height, j, u.UpdateMsg,
						pkg.SettleFailFilter, pkg.State)
				}
			}
		}
	}

	return bad
}

// c08ForceAck makes the switch flush its batch of settle/fail acks now
// instead of at the next AckEventTicker tick (15 s). Two ticks: when the
// second is taken the first has been handled.
func c08ForceAck(sw *Switch) bool {
	f, ok := sw.cfg.AckEventTicker.(*ticker.Force)
	if !ok {
		return false
	}
	for i := 0; i < 2; i++ {
		select {
		case f.Force <- time.Now():
		case <-time.After(10 * time.Second):
			return false
		case <-sw.quit:
			return false
		}
	}

	return true
}

// c08TapOracle checks Bob's behaviour on the tapped log. Events are logged
// when a message is taken off the receiving server's queue, under one mutex,
// so the log order respects causality.
func c08TapOracle(log []c08Event) []string {
	var bad []string
	fail := func(f string, a ...any) {
		bad = append(bad, fmt.Sprintf(f, a...))
	}

	type addRef struct {
		hash   [32]byte
		seq    int
		edge   c08Edge
		epoch  int // connection epoch of the edge it was sent on
		id     uint64
		signed bool // bob sent a commit_sig after it in that epoch
	}
	// latest add per (edge, id)
	var latest [c08NumEdges]map[uint64]addRef
	for i := range latest {
		latest[i] = make(map[uint64]addRef)
	}
	// current connection epoch per edge (from the markers)
	var cur [c08NumEdges]int
	// adds sent by Bob per hash
	fwd := make(map[[32]byte][]*addRef)
	// responses sent by Bob upstream per (edge, id, hash)
	type respKey struct {
		edge c08Edge
		id   uint64
		hash [32]byte
	}
	type respSeen struct {
		settle, failed bool
		epochs         map[int]int
		firstAt        int
		signedAt       int // first commit_sig by bob after firstAt
	}
	resp := make(map[respKey]*respSeen)

	for i, ev := range log {
		switch ev.kind {
		case c08Epoch:
			cur[ev.edge] = ev.epoch

		case c08Commit:
			// A commit_sig by bob covers every answer and every add
			// he sent before it on that edge in this connection.
			for k, rs := range resp {
				if k.edge == ev.edge && rs.signedAt < 0 {
					rs.signedAt = i
				}
			}
			for _, refs := range fwd {
				for _, o := range refs {
					if o.edge == ev.edge && o.epoch == ev.epoch {
						o.signed = true
					}
				}
			}

		case c08Add:
			ref := addRef{
				hash: ev.hash, seq: ev.seq, edge: ev.edge,
				epoch: ev.epoch, id: ev.id,
			}
			latest[ev.edge][ev.id] = ref
			if ev.edge != c08BtoA && ev.edge != c08BtoC {
				continue
			}
			// Bob must not forward an HTLC whose incoming side he
			// already answered and signed for.
			upEdge := c08BtoA
			if ev.edge == c08BtoA {
				upEdge = c08BtoC
			}
			for k, rs := range resp {
				if k.edge != upEdge || k.hash != ev.hash ||
					rs.signedAt < 0 {

					continue
				}
				fail("tap#%d: bob sent the add for %x downstream "+
					"although he answered the incoming HTLC %d at "+
					"tap#%d and signed that at tap#%d", i,
					ev.hash[:4], k.id, rs.firstAt, rs.signedAt)
			}
			// Bob forwards once. A signed add is retransmitted at
			// most once per reconnect, with the same id; an add
			// that was never signed may be sent again after a
			// reconnect (redelivered from the mailbox).
			for _, o := range fwd[ev.hash] {
				switch {
				case o.epoch == ev.epoch:
					fail("tap#%d: bob sent the add for %x twice "+
						"in one connection (ids %d, %d)", i,
						ev.hash[:4], o.id, ev.id)

				case o.signed && o.id != ev.id:
					fail("tap#%d: bob forwarded %x again with a "+
						"new id %d although the first one (id "+
						"%d, tap#%d) was signed", i, ev.hash[:4],
						ev.id, o.id, o.seq)
				}
			}
			fwd[ev.hash] = append(fwd[ev.hash], &ref)

		case c08Fulfill, c08Fail:
			// Only Bob's upstream responses are constrained.
			if ev.edge != c08BtoA && ev.edge != c08BtoC {
				continue
			}
			inEdge := ev.edge.reverse() // incoming HTLC's add edge
			outEdge := c08BtoC          // where Bob forwarded it
			downEdge := c08CtoB         // where the answer comes from
			if ev.edge == c08BtoC {
				outEdge, downEdge = c08BtoA, c08AtoB
			}
			in, ok := latest[inEdge][ev.id]
			if !ok {
				fail("tap#%d: bob answered unknown HTLC %d on %s",
					i, ev.id, c08EdgeNames[ev.edge])
				continue
			}
			k := respKey{ev.edge, ev.id, in.hash}
			rs := resp[k]
			if rs == nil {
				rs = &respSeen{
					epochs:  make(map[int]int),
					firstAt: i, signedAt: -1,
				}
				resp[k] = rs
			}
			rs.epochs[ev.epoch]++
			if rs.epochs[ev.epoch] > 1 {
				fail("tap#%d: bob answered HTLC %d (%x) on %s twice "+
					"in one connection", i, ev.id, in.hash[:4],
					c08EdgeNames[ev.edge])
			}
			if ev.kind == c08Fulfill {
				rs.settle = true
			} else {
				rs.failed = true
			}
			if rs.settle && rs.failed {
				fail("tap#%d: bob both settled and failed HTLC %d "+
					"(%x) on %s", i, ev.id, in.hash[:4],
					c08EdgeNames[ev.edge])
			}

			if ev.kind == c08Fulfill {
				if sha256.Sum256(ev.pre[:]) != in.hash {
					fail("tap#%d: bob settled %x with a wrong "+
						"preimage", i, in.hash[:4])
				}
				found := false
				for _, e := range log[:i] {
					if e.kind == c08Fulfill && e.edge == downEdge &&
						!e.dropped && e.pre == ev.pre {

						found = true
						break
					}
				}
				if !found {
					fail("tap#%d: bob settled incoming HTLC %d "+
						"(%x) before receiving the preimage on "+
						"the outgoing channel", i, ev.id,
						in.hash[:4])
				}

				continue
			}

			// Fail: the outgoing HTLC must be irrevocably removed
			// or never committed.
			outs := fwd[in.hash]
			if len(outs) == 0 {
				continue // never forwarded
			}
			out := outs[len(outs)-1]
			// (a) fail -> commit_sig -> revoke_and_ack received
			// from the downstream peer after the add.
			stage := 0
			for _, e := range log[out.seq+1 : i] {
				if e.edge != downEdge || e.dropped {
					continue
				}
				switch {
				case stage == 0 && e.kind == c08Fail && e.id == out.id:
					stage = 1
				case stage == 1 && e.kind == c08Commit:
					stage = 2
				case stage == 2 && e.kind == c08Revoke:
					stage = 3
				}
			}
			if stage == 3 {
				continue
			}
			// (b) never committed: bob signed nothing after the add
			// in its connection, and that connection is gone.
			if !out.signed && cur[outEdge] > out.epoch {
				continue
			}
			fail("tap#%d: bob failed incoming HTLC %d (%x) back while "+
				"the outgoing HTLC %d (sent at tap#%d, signed=%v, "+
				"connection %d of now %d) was neither removed (stage "+
				"%d/3) nor lost uncommitted", i, ev.id, in.hash[:4],
				out.id, out.seq, out.signed, out.epoch, cur[outEdge],
				stage)
		}
	}

	return bad
}

// ---------------------------------------------------------------------------
// Test entry.
// ---------------------------------------------------------------------------

func c08Hash(seed [32]byte, tag string, i int) [32]byte {
	var b [8]byte
	binary.BigEndian.PutUint64(b[:], uint64(i))
	h := sha256.New()
	h.Write(seed[:])
	h.Write([]byte(tag))
	h.Write(b[:])
	var out [32]byte
	copy(out[:], h.Sum(nil))

	return out
}

const c08KnownShift = "C08-fwdpkg-index-shift"

// c08IgnoreKnown is set by the reproduction test, which wants to see the
// known finding.
var c08IgnoreKnown bool

type c08Result struct {
	exposed      bool
	known        string
	bad          []string
	inconclusive string
	nontrivial   bool
	labels       []string
	sample       any
}

func c08RunCase(t *testing.T, plan *c08Plan) *c08Result {
	res := &c08Result{}
	tb := &c08TB{TB: t}

	cfg := &c08ClusterCfg{
		amtAB:         btcutil.Amount(plan.SideSat),
		amtBC:         btcutil.Amount(plan.SideSat),
		dustA:         200,
		dustB:         800,
		fundSeed:      plan.Seed,
		poolWorkers:   2,
		maxAcceptedAB: maxInflightHtlcs,
		maxAcceptedBC: maxInflightHtlcs,
	}
	if plan.SlotsAB > 0 {
		cfg.maxAcceptedAB = uint16(plan.SlotsAB)
	}
	if plan.SlotsBC > 0 {
		cfg.maxAcceptedBC = uint16(plan.SlotsBC)
	}
	cl, err := c08NewCluster(t, cfg)
	if cl != nil {
		defer cl.stopPools()
	}
	if err != nil {
		res.inconclusive = "cluster: " + err.Error()
		return res
	}

	r := &c08Run{
		t: t, tb: tb, plan: plan, cl: cl, notifier: &c08Notifier{},
		tap: c08NewTap(cl.ab.chanID, cl.bc.chanID, plan.Cuts),
		deadline: time.Duration(
			vstats.EnvInt("VERIF_C08_DEADLINE_S", 90),
		) * time.Second,
		idleGap: time.Duration(
			vstats.EnvInt("VERIF_C08_IDLE_MS", 150),
		) * time.Millisecond,
		grace: time.Duration(
			vstats.EnvInt("VERIF_C08_GRACE_S", 30),
		) * time.Second,
		stuckIdle: time.Duration(
			vstats.EnvInt("VERIF_C08_STUCK_IDLE_S", 20),
		) * time.Second,
		nudgeIdle: time.Duration(
			vstats.EnvInt("VERIF_C08_NUDGE_IDLE_MS", 1500),
		) * time.Millisecond,
	}
	for i := range plan.Pays {
		p := &c08Pay{plan: &plan.Pays[i], ix: i, pid: uint64(1000 + i)}
		p.pre = c08Hash(plan.Seed, "pre", i)
		p.hash = sha256.Sum256(p.pre[:])
		r.pays = append(r.pays, p)
	}

	// The fixture may end the goroutine it is called on (require ->
	// FailNow -> Goexit through c08TB): run on a goroutine of our own.
	done := make(chan struct{})
	go func() {
		defer close(done)
		res.bad = r.run()
	}()
	<-done
	if f := tb.fatalList(); len(f) > 0 && r.inconclusive == "" &&
		len(res.bad) == 0 {

		r.inconclusive = "fixture fatal: " + strings.Join(f, "; ")
	}
	res.inconclusive = r.inconclusive
	res.exposed = r.shiftExposed
	known := vstats.IsKnown(c08KnownShift) ||
		vstats.EnvInt("VERIF_C08_ASSUME_KNOWN", 0) > 0
	if r.shiftExposed && known && !c08IgnoreKnown {
		// Known finding: processRemoteAdds indexes the forwarding
		// package with positions of the not-yet-acked subset after a
		// restart. Every later observation of such a case is tainted.
		res.known = c08KnownShift
		res.bad = nil
		res.inconclusive = ""
	}

	// Evidence.
	cutsFired := 0
	for _, c := range plan.Cuts {
		if c.fired {
			cutsFired++
		}
	}
	hits := 0
	for _, h := range r.restartHits {
		if h > 0 {
			hits++
		}
	}
	type iv struct{ a, b int }
	var ivs []iv
	first := r.tap.firstAdd
	for _, p := range r.pays {
		o, _ := p.get()
		if s, ok := first[p.hash]; ok && o != c08Pending {
			p.mu.Lock()
			ivs = append(ivs, iv{s, p.resolveSeq})
			p.mu.Unlock()
		}
	}
	overlap := false
	for i := range ivs {
		for j := i + 1; j < len(ivs); j++ {
			if ivs[i].a < ivs[j].b && ivs[j].a < ivs[i].b {
				overlap = true
			}
		}
	}
	res.nontrivial = overlap && (cutsFired > 0 || hits > 0 ||
		r.flapHits > 0) &&
		res.inconclusive == "" && res.known == ""

	lab := []string{
		fmt.Sprintf("pays=%d", len(plan.Pays)),
		fmt.Sprintf("restarts=%d", plan.Restarts),
		fmt.Sprintf("cuts_fired=%d", cutsFired),
		fmt.Sprintf("restarts_hitting_inflight=%d", hits),
		fmt.Sprintf("flaps=%d", r.flaps),
		fmt.Sprintf("flaps_hitting_unclean_channel=%d", r.flapHits),
	}
	if overlap {
		lab = append(lab, "overlap")
	}
	if plan.Burst {
		lab = append(lab, "burst_template")
	}
	if plan.SlotsAB+plan.SlotsBC > 0 {
		lab = append(lab, "slots_template")
	}
	if plan.SlotPrefix > 0 {
		lab = append(lab, "slots_opposite_prefix_planned")
		done := 0
		for _, p := range r.pays[:plan.SlotPrefix] {
			if o, _ := p.get(); o == c08Success || o == c08Failed {
				done++
			}
		}
		if done > plan.SlotN && r.notifier.count() > 0 {
			lab = append(lab, "opposite_prefix>=refused_index")
		}
	}
	if plan.SlotQuiet && plan.SlotsAB+plan.SlotsBC > 0 {
		lab = append(lab, "slots_quiet_planned")
	}
	if n := r.notifier.count(); n > 0 {
		if r.notifier.last() == r.phase {
			lab = append(lab, "refusal_without_later_restart")
			if r.flaps == 0 {
				lab = append(lab,
					"refusal_without_later_restart_or_flap")
			}
		}
		lab = append(lab, "outgoing_link_refused_add")
		if len(r.restartHits)+r.flaps > 0 {
			lab = append(lab, "outgoing_link_refused_add+restart_or_flap")
		}
	}
	if r.shiftExposed {
		lab = append(lab, "fwdpkg_partially_acked_at_restart")
	}
	if r.stuck != "" {
		lab = append(lab, "stuck_forward")
	}
	if r.nudges > 0 {
		lab = append(lab, fmt.Sprintf("nudged=%d", r.nudges))
	}
	if r.rescued {
		lab = append(lab, "rescue_restart")
	}
	if res.inconclusive != "" {
		why := res.inconclusive
		if i := strings.IndexByte(why, ':'); i > 0 {
			why = why[:i]
		}
		lab = append(lab, "inconclusive:"+why)
	}
	if len(r.linkFailList()) > 0 {
		lab = append(lab, "link_failure")
	}
	if r.tap.peerErrs > 0 {
		lab = append(lab, "peer_error_msg")
	}
	seen := map[string]bool{}
	for _, p := range r.pays {
		o, _ := p.get()
		for _, l := range []string{
			"outcome:" + c08OutcomeNames[o],
			c08PayKindNames[p.plan.Kind] + ":" + c08OutcomeNames[o],
			"class:" + p.plan.Class + ":" + c08OutcomeNames[o],
		} {
			if !seen[l] {
				seen[l] = true
				lab = append(lab, l)
			}
		}
	}
	res.labels = lab
	if vstats.EnvInt("VERIF_C08_DEBUG", 0) > 0 {
		fmt.Fprintf(os.Stderr, "---- case\n%s", plan.String())
		for _, p := range r.pays {
			o, _ := p.get()
			fmt.Fprintf(os.Stderr, "  pay%d -> %s %s\n", p.ix,
				c08OutcomeNames[o], p.failMsg)
		}
		fmt.Fprintf(os.Stderr, "  linkfails=%v inflight=%v cuts=%d "+
			"msgs=%d inconclusive=%q bad=%v\n", r.linkFailList(),
			r.restartHits, cutsFired, len(r.tap.events()),
			res.inconclusive, res.bad)
		if vstats.EnvInt("VERIF_C08_DEBUG", 0) > 1 {
			for _, e := range r.tap.events() {
				fmt.Fprintf(os.Stderr, "    #%d ph%d %s %s id=%d "+
					"h=%x drop=%v\n", e.seq, e.phase,
					c08EdgeNames[e.edge], c08KindNames[e.kind],
					e.id, e.hash[:2], e.dropped)
			}
		}
	}
	outs := make([]string, len(r.pays))
	for i, p := range r.pays {
		o, _ := p.get()
		outs[i] = c08OutcomeNames[o]
	}
	res.sample = map[string]any{
		"plan": plan.String(), "outcomes": outs,
		"restart_inflight": r.restartHits, "cuts_fired": cutsFired,
		"messages": len(r.tap.events()),
	}

	return res
}

func TestVerifC08Atomic(t *testing.T) {
	st := vstats.New("TestVerifC08Atomic")
	defer st.Flush()

	if lvl := vstats.EnvInt("VERIF_C08_LOG", 0); lvl > 0 {
		h := btclog.NewDefaultHandler(os.Stderr)
		lg := btclog.NewSLogger(h)
		if lvl > 1 {
			lg.SetLevel(btclog.LevelDebug)
		} else {
			lg.SetLevel(btclog.LevelWarn)
		}
		UseLogger(lg)
	}

	caseNo := 0
	rapid.Check(t, func(rt *rapid.T) {
		plan := c08DrawPlan(rt)
		caseNo++

		var res *c08Result
		// A subtest per case: its TempDirs, databases and switches are
		// cleaned up when the case ends. It never fails by itself.
		t.Run(fmt.Sprintf("case%d", caseNo), func(sub *testing.T) {
			res = c08RunCase(sub, plan)
		})
		if res == nil {
			st.Count("inconclusive", 1)
			return
		}

		st.Case(vstats.FP(plan.String()), res.nontrivial, res.labels,
			res.sample)
		if res.known != "" {
			st.Known(res.known)
			st.Count("excluded_known", 1)
			return
		}
		if len(res.bad) > 0 {
			rt.Fatalf("C08 violated:\n  %s\nplan:\n%s",
				strings.Join(res.bad, "\n  "), plan.String())
		}
		if res.inconclusive != "" {
			st.Count("inconclusive", 1)
			rt.Logf("inconclusive: %s", res.inconclusive)
		}
	})
}

// TestVerifC08ReproIndexShift is the scripted reproduction of known finding
// C08-fwdpkg-index-shift (not part of the job table): it FAILS while
// channelLink.processRemoteAdds indexes a partially acked forwarding package
// with positions of the unacked subset.
//
//	x  : Alice->Carol, hold invoice. Carol's revoke_and_ack for Bob's
//	     commitment is lost (connection Carol->Bob dies), so Bob cannot sign
//	     on Bob<->Carol any more.
//	a0 : Alice->Carol with a time lock Bob must refuse  } one commitment,
//	a1 : Alice->Carol, valid                            } one fwd package
//	     Bob fails a0 back (acked: index 0). a1 is handed to the outgoing
//	     link, which cannot sign it.
//	restart 1: a1's outgoing add is gone. Reprocessing the package gives a1
//	     index 0 instead of 1; it is failed back to Alice with the wrong
//	     reference, index 1 is never acked.
//	restart 2: the package is reprocessed again, a1 - long failed back and
//	     removed from Alice<->Bob - is forwarded to Carol as a new HTLC and
//	     settled: Bob pays a1 out of his own pocket.
func TestVerifC08ReproIndexShift(t *testing.T) {
	c08IgnoreKnown = true
	defer func() { c08IgnoreKnown = false }()

	for attempt := 1; attempt <= 6; attempt++ {
		plan := &c08Plan{
			SideSat:   1_000_000,
			Restarts:  2,
			RestartAt: []int{1000, 1000}, // i.e. when the wire is idle
			Pays: []c08PayPlan{
				{Class: "mid", Amt: 20_000_000, Kind: c08KindHoldSettle,
					Phase: 0, At: 0, ResPhase: 2, ResAt: 0},
				{Class: "mid", Amt: 30_000_000, Kind: c08KindValid,
					CltvDefect: 1, Phase: 0, At: 1000},
				{Class: "mid", Amt: 40_000_000, Kind: c08KindValid,
					Phase: 0, At: 1000},
			},
			Cuts: []*c08CutPlan{
				{Phase: 0, Edge: c08CtoB, Kind: c08Revoke, Ord: 1},
			},
		}
		plan.Seed[0] = byte(attempt)

		var res *c08Result
		t.Run(fmt.Sprintf("attempt%d", attempt), func(sub *testing.T) {
			res = c08RunCase(sub, plan)
		})
		switch {
		case res == nil || res.inconclusive != "":
			t.Logf("attempt %d inconclusive: %+v", attempt, res)

		case len(res.bad) > 0:
			t.Fatalf("reproduced (attempt %d, partially acked package "+
				"at a restart: %v):\n  %s", attempt, res.exposed,
				strings.Join(res.bad, "\n  "))

		case res.exposed:
			t.Logf("attempt %d: package was partially acked at a "+
				"restart and every oracle held: finding is fixed",
				attempt)

			return

		default:
			t.Logf("attempt %d: a0/a1 did not share a package", attempt)
		}
	}
	t.Skip("could not set the scenario up")
}
