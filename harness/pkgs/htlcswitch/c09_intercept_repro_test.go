//go:build verif

package htlcswitch

// Candidate finding found while building TestVerifC09Intercepted (not a
// violation of the C09 forwarding rules themselves, but of "loses no money"):
// InterceptableSwitch.interceptForward runs the "expires too soon" check
// (handleExpired) BEFORE the "already held" check. A held htlc that the
// incoming link replays (link restart / peer reconnect replays every ADD that
// is not acked, which held htlcs are not) after the chain moved into the
// window
//     incoming_expiry - CltvInterceptDelta < height < incoming_expiry - CltvRejectDelta
// (3 blocks with lnd's defaults 22 / 19) is failed back with expiry_too_soon
// but STAYS in the held set. The interceptor client is still entitled to
// resume it (its auto-fail height has not been reached), and then the htlc is
// forwarded: the incoming htlc is cancelled upstream while the outgoing htlc
// is live.
//
// The random test excludes this input class by construction (counter
// dup_too_soon_not_driven). This deterministic reproduction is gated behind
// the known-finding key below; it is not part of the C09 job table.

import (
	"sync/atomic"
	"testing"

	"github.com/lightningnetwork/lnd/chainntnfs"
	"github.com/lightningnetwork/lnd/graph/db/models"
	"github.com/lightningnetwork/lnd/internal/verif/vstats"
	"github.com/lightningnetwork/lnd/lntest/mock"
	"github.com/lightningnetwork/lnd/lnwire"
)

const c09KnownReplayTooSoon = "C09:intercept-replay-too-soon-double-resolution"

func TestVerifC09InterceptReplayTooSoon(t *testing.T) {
	f := newC09iFixture(t)
	st := vstats.New("TestVerifC09InterceptReplayTooSoon")
	defer st.Flush()

	const (
		height    = uint32(800_000)
		reject    = uint32(19) // lncfg.DefaultFinalCltvRejectDelta
		intercept = uint32(22) // lncfg.DefaultCltvInterceptDelta
	)
	cs := &c09Case{
		Mode: "pinned", Link: 2, BW: f.fx.bw[2], Base: 1000,
		Reject: 3, MaxCltv: 2016, Height: height,
		InAmt: 1_001_000, OutAmt: 1_000_000,
		InExp: height + 30, OutExp: height + 25,
	}
	p := &c09iPkt{ix: 0, cs: cs}
	p.hash = [32]byte{0xc9, 1}
	f.fenceForwarder()
	_ = f.inBox.take()
	for i, l := range f.out {
		if i == 0 {
			l.reset(cs)
		} else {
			l.reset(nil)
		}
	}
	atomic.StoreUint32(&f.s.bestHeight, height)
	pkt := f.newPacket(p, cs.InAmt, cs.OutAmt, nil)
	defer func() {
		f.fenceForwarder()
		_ = f.s.circuits.DeleteCircuits(pkt.inKey())
	}()

	rec := &c09iRecorder{}
	ntf := &mock.ChainNotifier{
		EpochChan: make(chan *chainntnfs.BlockEpoch),
	}
	is, err := NewInterceptableSwitch(&InterceptableSwitchConfig{
		Switch: f.s, Notifier: ntf, CltvRejectDelta: reject,
		CltvInterceptDelta: intercept,
	})
	if err != nil {
		t.Fatal(err)
	}
	if err := is.Start(); err != nil {
		t.Fatal(err)
	}
	defer func() { _ = is.Stop() }()
	ntf.EpochChan <- &chainntnfs.BlockEpoch{Height: int32(height)}
	is.SetInterceptor(rec.intercept)
	fence := func() {
		_ = is.Resolve(&FwdResolution{Key: models.CircuitKey{}})
		f.fenceForwarder()
	}

	// 1. The htlc arrives 30 blocks before its expiry: offered and held.
	if err := is.ForwardPackets(nil, false, pkt); err != nil {
		t.Fatal(err)
	}
	fence()
	offers := rec.take()
	if len(offers) != 1 {
		t.Fatalf("offered %d times", len(offers))
	}
	autoFail := offers[0].AutoFailHeight()

	// 2. Nine blocks later: 21 blocks before the expiry. The auto-fail
	// height (expiry - 19) is not reached, the htlc is still held and the
	// client may still resolve it.
	now := height + 9
	if int32(now) >= autoFail {
		t.Fatalf("scenario: height %d, auto fail height %d", now, autoFail)
	}
	fence()
	atomic.StoreUint32(&f.s.bestHeight, now)
	ntf.EpochChan <- &chainntnfs.BlockEpoch{Height: int32(now)}
	fence()
	if n := len(f.inBox.take()); n != 0 {
		t.Fatalf("%d responses before the auto-fail height", n)
	}

	// 3. The incoming link restarts and replays the ADD (isReplay=true).
	// "Ignore already held htlcs."
	if err := is.ForwardPackets(nil, true, pkt); err != nil {
		t.Fatal(err)
	}
	fence()
	afterReplay := f.inBox.take()

	// 4. The client resumes the htlc it was offered (allowed until the
	// auto-fail height it was told).
	resumeErr := is.Resolve(&FwdResolution{
		Key: models.CircuitKey(pkt.inKey()), Action: FwdActionResume,
	})
	fence()
	handed, _ := f.out[0].take()
	afterResume := f.inBox.take()

	failedBack := 0
	for _, b := range append(afterReplay, afterResume...) {
		if _, ok := b.htlc.(*lnwire.UpdateFailHTLC); ok {
			failedBack++
		}
	}
	labels := []string{"pinned:replay_of_held_htlc_in_too_soon_window"}
	st.Case(vstats.FP("replay_too_soon"), true, labels, nil)

	if failedBack > 0 && len(handed) > 0 {
		msg := "the held htlc was failed back to the incoming link " +
			"(expiry_too_soon on the replay) AND, after the " +
			"interceptor's Resume (err=%v), forwarded to the " +
			"outgoing link: %d msat leave although the incoming " +
			"htlc is cancelled"
		if vstats.IsKnown(c09KnownReplayTooSoon) {
			st.Known(c09KnownReplayTooSoon)
			st.Count("excluded_known", 1)
			t.Logf("known finding %s: "+msg, c09KnownReplayTooSoon,
				resumeErr, handed[0].wireAmt)

			return
		}
		t.Fatalf("C09 "+msg, resumeErr, handed[0].wireAmt)
	}
	if failedBack+len(handed) != 1 {
		t.Fatalf("expected exactly one outcome, got %d failures and %d "+
			"forwards (resume err=%v)", failedBack, len(handed),
			resumeErr)
	}
}
