//go:build verif

package htlcswitch

// C07 part 2: the same statement one level up. A real Switch (real circuit
// map, real mail orchestrator and mailboxes, real channeldb on bbolt) with
// three mock links whose link-side behaviour is played by the harness:
//
//   incoming side:  forward adds, replay adds (as a restarted link does from
//                   its forwarding packages), commit a received response
//                   (DeleteCircuits, then ack the mailbox -- the order of the
//                   real link);
//   outgoing side:  accept an add from the mailbox (OpenCircuits), fail it
//                   locally (MailBox.FailAdd), commit (ack), restart
//                   (TrimOpenCircuits to the committed index + ResetPackets),
//                   relay settles/fails of the remote peer, and duplicates of
//                   those;
//   node:           stop the switch, reopen the DB, start a new switch whose
//                   channels report the committed htlc indexes.
//
// After every action the harness waits for the switch's forwarding goroutine
// with a barrier command (no sleeps, no polling), then compares with an
// explicit prediction: which incoming HTLCs were handed to an outgoing link
// (ChannelLink.handleSwitchPacket calls) and which responses entered which
// incoming mailbox. Invariants on top: an incoming HTLC is handed out at most
// once in the whole history; at most one response per HTLC enters the
// incoming mailbox per switch lifetime, and none after the incoming link
// durably consumed one.

import (
	"errors"
	"fmt"
	"os"
	"sort"
	"strings"
	"sync"
	"testing"
	"time"

	"github.com/btcsuite/btcd/btcec/v2/ecdsa"
	"github.com/lightningnetwork/lnd/chainntnfs"
	"github.com/lightningnetwork/lnd/channeldb"
	"github.com/lightningnetwork/lnd/chanstate"
	"github.com/lightningnetwork/lnd/clock"
	"github.com/lightningnetwork/lnd/internal/verif/vstats"
	"github.com/lightningnetwork/lnd/kvdb"
	"github.com/lightningnetwork/lnd/lnpeer"
	"github.com/lightningnetwork/lnd/lntest/mock"
	"github.com/lightningnetwork/lnd/lntypes"
	"github.com/lightningnetwork/lnd/lnwire"
	"github.com/lightningnetwork/lnd/ticker"
	"pgregory.net/rapid"
)

const c07UnknownChan = 9

type c07Peer struct {
	lnpeer.Peer
	pub [33]byte
}

func (p *c07Peer) PubKey() [33]byte { return p.pub }

// c07Link is the repo's mockChannelLink plus a recorder at the point where
// the switch hands an HTLC to the outgoing channel.
type c07Link struct {
	*mockChannelLink
	rec *c07Recorder

	// life-cycle mode (TestVerifC07LinkLifecycle): the link does at Start
	// and Stop what channelLink.Start / channelLink.Stop do with the
	// circuit map and the mailbox.
	lc     bool
	trimTo uint64
}

// Start: channelLink.Start resets the wire messages, reverts the keystones
// that did not make it into a commitment (TrimOpenCircuits to the channel's
// next local htlc index) and, once the channel is re-established, resets the
// packet courier so that every un-acked packet is handed over again.
func (l *c07Link) Start() error {
	if l.lc {
		err := l.htlcSwitch.circuits.TrimOpenCircuits(
			l.shortChanID, l.trimTo,
		)
		if err != nil {
			return err
		}
	}

	return l.mockChannelLink.Start()
}

// Stop: channelLink.Stop resets the packet courier.
func (l *c07Link) Stop() {
	if l.lc {
		_ = l.mailBox.ResetPackets()
	}
}

type c07Recorder struct {
	mu     sync.Mutex
	handed []string // "in>outChan"
}

func (l *c07Link) handleSwitchPacket(pkt *htlcPacket) error {
	l.rec.mu.Lock()
	l.rec.handed = append(l.rec.handed, fmt.Sprintf("%s>%d",
		c07KeyStr(pkt.inKey()), l.shortChanID.ToUint64()))
	l.rec.mu.Unlock()

	return l.mockChannelLink.handleSwitchPacket(pkt)
}

var _ ChannelLink = (*c07Link)(nil)

// c07Notifier counts the final settle/fail notifications of locally
// initiated payments (the last step of Switch.handleLocalResponse, after the
// result was stored and the circuit torn down).
type c07Notifier struct {
	mockHTLCNotifier

	mu    sync.Mutex
	local int
	sig   chan struct{}
}

func (n *c07Notifier) event(key HtlcKey) {
	if key.IncomingCircuit.ChanID.ToUint64() != 0 {
		return
	}
	n.mu.Lock()
	n.local++
	n.mu.Unlock()
	select {
	case n.sig <- struct{}{}:
	default:
	}
}

func (n *c07Notifier) NotifyForwardingFailEvent(key HtlcKey,
	_ HtlcEventType) {

	n.event(key)
}

func (n *c07Notifier) NotifySettleEvent(key HtlcKey, _ lntypes.Preimage,
	_ HtlcEventType) {

	n.event(key)
}

func (n *c07Notifier) count() int {
	n.mu.Lock()
	defer n.mu.Unlock()

	return n.local
}

var errC07Inconclusive = errors.New("c07: inconclusive")

// c07Htlc is the model of one incoming HTLC.
type c07Htlc struct {
	in     CircuitKey
	target uint64
	hash   [32]byte

	exists   bool // circuit known to the switch
	addEpoch int
	out      *CircuitKey
	closed   bool // a response was accepted in this switch lifetime
	inOutBox bool // add packet in the outgoing mailbox (not acked)
	respBox  bool // response packet in the incoming mailbox (not acked)
	resolved bool // the incoming link durably consumed a response

	// ref is the position of the ADD in the incoming link's forwarding
	// package (set by processRemoteAdds in a real link); acked is the
	// link's bookkeeping: the ADD is acked in the package only by
	// committing a response that carries this very reference. Un-acked
	// ADDs are replayed into the switch when the link restarts.
	ref       channeldb.AddRef
	acked     bool
	responded bool // the remote peer answered (for replays)

	handed      int
	respEntered int // in the current switch lifetime

	// life-cycle mode
	w         *c07World
	unclaimed bool // response parked: incoming link not yet added
	wasParked bool // the response in the mailbox had been parked
	parkedFin bool // a parked response was handed over, committed, acked
	// wantDest is the forwarding-package reference (of the outgoing
	// channel) the accepted response carries, nil for responses that are
	// in no forwarding package (local failures, contract resolutions).
	wantDest *channeldb.SettleFailRef

	// dupClosing: a duplicate of the accepted response arrived while the
	// first copy was still un-committed by the incoming link (circuit only
	// "closing"); dupTick: the switch's ack ticker fired after that.
	dupClosing bool
	dupTick    bool
}

// c07FwdEntry is one settle/fail in a forwarding package of an outgoing
// channel (written when the remote revocation locks the response in, acked by
// the commitment of the incoming link that carries the response).
type c07FwdEntry struct {
	out    CircuitKey
	ref    channeldb.SettleFailRef
	settle bool
	acked  bool

	// queued: the switch legitimately queued the ack of this entry in
	// memory (a copy of the response arrived when its circuit no longer
	// existed, i.e. the incoming link had committed and acked it, or the
	// payment was completed); the next tick of the AckEventTicker
	// persists it, a switch restart forgets it.
	queued bool
}

type c07LinkState struct {
	eligible  bool
	nextIn    uint64 // next incoming htlc id
	nextOut   uint64 // next outgoing htlc id (in-memory)
	watermark uint64 // committed next outgoing htlc id
	accepted  map[CircuitKey]bool
}

type c07World struct {
	dir   string
	cdb   *channeldb.DB
	sw    *Switch
	links [c07NumChans + 1]*c07Link
	rec   *c07Recorder
	ntf   *c07Notifier

	// dev knob: skip the direct sourceRef assertion so that only the
	// forwarding-package bookkeeping + history invariant remain
	noRefCheck bool

	// locally initiated payments
	nextLocal uint64
	localDone int // results that must have been delivered so far

	epoch int
	ls    [c07NumChans + 1]*c07LinkState
	htlcs map[CircuitKey]*c07Htlc
	order []CircuitKey

	// response packets already seen in incoming mailboxes
	seenResp map[*htlcPacket]bool

	// outgoing keys of HTLCs that were resolved durably (their remote
	// responses may still be replayed by the outgoing link)
	resolvedOut []CircuitKey

	labels map[string]bool
	ops    []string

	// life-cycle mode: links are added lazily, removed and re-added.
	lc        bool
	live      [c07NumChans + 1]bool // link registered with the switch
	bound     [c07NumChans + 1]bool // added at least once since Start
	hadParked [c07NumChans + 1]bool
	fwd       [c07NumChans + 1][]*c07FwdEntry
	fwdHeight [c07NumChans + 1]uint64
	fwdByOut  map[CircuitKey]*c07FwdEntry
	fwdByRef  map[channeldb.SettleFailRef]*c07FwdEntry
	resMsgs   map[CircuitKey]bool
	ackTicker *ticker.Force
}

func (w *c07World) up(c int) bool { return !w.lc || w.live[c] }

// newAckTicker: in life-cycle mode the ack ticker only fires when the harness
// forces it (action ackTick); its own interval is out of reach.
func (w *c07World) newAckTicker() ticker.Ticker {
	if !w.lc {
		return ticker.NewForce(DefaultAckInterval)
	}
	w.ackTicker = ticker.NewForce(24 * time.Hour)

	return w.ackTicker
}

// queueAck: a response copy that finds no circuit makes the switch queue the
// ack of its forwarding-package entry.
func (w *c07World) queueAck(fe *c07FwdEntry) {
	if fe != nil && !fe.acked {
		fe.queued = true
	}
}

func (w *c07World) label(l string) { w.labels[l] = true }

func (w *c07World) logf(format string, a ...any) {
	if len(w.ops) < 80 {
		w.ops = append(w.ops, fmt.Sprintf(format, a...))
	}
}

func c07ChanID(c uint64) lnwire.ChannelID {
	var id lnwire.ChannelID
	id[0] = byte(c)
	id[31] = 0xc7

	return id
}

func (w *c07World) startSwitch() error {
	backend, err := c07OpenKV(w.dir, "channel.db")
	if err != nil {
		return err
	}
	cdb, err := channeldb.CreateWithBackend(backend)
	if err != nil {
		return err
	}
	w.cdb = cdb

	cfg := Config{
		DB: cdb,
		FetchAllOpenChannels: func() ([]*chanstate.OpenChannel, error) {
			var chans []*chanstate.OpenChannel
			for c := 1; c <= c07NumChans; c++ {
				chans = append(chans, c07OpenChan(uint64(c), false,
					w.ls[c].watermark, c%2 == 0))
			}

			return chans, nil
		},
		FetchAllChannels: func() ([]*chanstate.OpenChannel, error) {
			if !w.lc {
				return nil, nil
			}
			// reforwardResponses walks the forwarding packages of
			// these channels.
			var chans []*chanstate.OpenChannel
			for c := 1; c <= c07NumChans; c++ {
				chans = append(chans, c07OpenChan(uint64(c), false,
					w.ls[c].watermark, c%2 == 0))
			}

			return chans, nil
		},
		FetchClosedChannels: func(bool) (
			[]*chanstate.ChannelCloseSummary, error) {

			return nil, nil
		},
		SwitchPackager: channeldb.NewSwitchPackager(),
		FwdingLog: &mockForwardingLog{
			events: make(map[time.Time]channeldb.ForwardingEvent),
		},
		FetchLastChannelUpdate: func(scid lnwire.ShortChannelID) (
			*lnwire.ChannelUpdate1, error) {

			return &lnwire.ChannelUpdate1{ShortChannelID: scid}, nil
		},
		Notifier: &mock.ChainNotifier{
			SpendChan: make(chan *chainntnfs.SpendDetail),
			EpochChan: make(chan *chainntnfs.BlockEpoch),
			ConfChan:  make(chan *chainntnfs.TxConfirmation),
		},
		FwdEventTicker:         ticker.NewForce(DefaultFwdEventInterval),
		LogEventTicker:         ticker.NewForce(DefaultLogInterval),
		AckEventTicker:         w.newAckTicker(),
		HtlcNotifier:           w.ntf,
		Clock:                  clock.NewDefaultClock(),
		MailboxDeliveryTimeout: time.Hour,
		MaxFeeExposure:         DefaultMaxFeeExposure,
		SignAliasUpdate: func(*lnwire.ChannelUpdate1) (*ecdsa.Signature,
			error) {

			return testSig, nil
		},
		IsAlias: isAlias,
	}
	s, err := New(cfg, testStartingHeight)
	if err != nil {
		return err
	}
	if err := s.Start(); err != nil {
		return err
	}
	w.sw = s

	// Life-cycle mode: the links are added later, at generated points.
	if w.lc {
		return nil
	}
	for c := 1; c <= c07NumChans; c++ {
		if err := w.plugLink(c); err != nil {
			return err
		}
	}

	return nil
}

// plugLink creates a new link object for channel c (a reconnecting peer gets
// a new link) and registers it with the switch.
func (w *c07World) plugLink(c int) error {
	peer := &c07Peer{}
	peer.pub[0] = 2
	peer.pub[1] = byte(c)
	ml := newMockChannelLink(
		w.sw, c07ChanID(uint64(c)),
		lnwire.NewShortChanIDFromInt(uint64(c)), emptyScid, peer,
		w.ls[c].eligible, false, false, false,
	)
	l := &c07Link{
		mockChannelLink: ml, rec: w.rec, lc: w.lc,
		trimTo: w.ls[c].watermark,
	}
	if err := w.sw.AddLink(l); err != nil {
		return err
	}
	w.links[c] = l

	return nil
}

func (w *c07World) stopSwitch() error {
	if w.sw != nil {
		if err := w.sw.Stop(); err != nil {
			return err
		}
		w.sw = nil

		// Stop waited for every handleLocalResponse goroutine.
		if got := w.ntf.count(); got != w.localDone {
			return fmt.Errorf("AT-MOST-ONCE: %d results delivered "+
				"for locally initiated HTLCs, expected %d", got,
				w.localDone)
		}
	}
	if w.cdb != nil {
		if err := w.cdb.Close(); err != nil {
			return err
		}
		w.cdb = nil
	}

	return nil
}

// barrier returns once the forwarding goroutine has handled everything that
// was queued before. The command carries a message type the switch rejects.
func (w *c07World) barrier() error {
	errChan := make(chan error, 1)
	cmd := &plexPacket{
		pkt: &htlcPacket{htlc: &lnwire.UpdateFee{}},
		err: errChan,
	}
	select {
	case w.sw.htlcPlex <- cmd:
	case <-w.sw.quit:
		return errors.New("switch quit")
	}
	if err := <-errChan; err == nil {
		return errors.New("barrier command accepted")
	}

	return nil
}

func (w *c07World) mailbox(c int) *memoryMailBox {
	if !w.lc {
		return w.links[c].mailBox.(*memoryMailBox)
	}

	// The mailbox of a channel outlives its links (it exists from the
	// first AddLink until the switch stops).
	mo := w.sw.mailOrchestrator
	mo.mu.RLock()
	defer mo.mu.RUnlock()
	if m, ok := mo.mailboxes[c07ChanID(uint64(c))]; ok {
		return m.(*memoryMailBox)
	}

	return nil
}

// boxAdds / boxResps list the unacked packets of a mailbox in queue order.
func (w *c07World) boxAdds(c int) []*htlcPacket {
	m := w.mailbox(c)
	if m == nil {
		return nil
	}
	m.pktCond.L.Lock()
	defer m.pktCond.L.Unlock()

	var pkts []*htlcPacket
	for e := m.addPkts.Front(); e != nil; e = e.Next() {
		pkts = append(pkts, e.Value.(*pktWithExpiry).pkt)
	}

	return pkts
}

func (w *c07World) boxResps(c int) []*htlcPacket {
	m := w.mailbox(c)
	if m == nil {
		return nil
	}
	m.pktCond.L.Lock()
	defer m.pktCond.L.Unlock()

	var pkts []*htlcPacket
	for e := m.repPkts.Front(); e != nil; e = e.Next() {
		pkts = append(pkts, e.Value.(*htlcPacket))
	}

	return pkts
}

// expectation of one action
type c07Expect struct {
	handed []string
	resp   []string // inKey of responses entering the incoming mailbox
	local  int      // results of locally initiated HTLCs
}

// resolveLocal predicts that the response completes a locally initiated
// payment: result stored, circuit torn down, one notification.
func (w *c07World) resolveLocal(h *c07Htlc, exp *c07Expect) {
	exp.local++
	if h.out != nil {
		w.resolvedOut = append(w.resolvedOut, *h.out)
	}
	h.exists, h.out, h.closed = false, nil, false
	h.resolved = true
	w.label("local:resolved")
}

func (e *c07Expect) hand(h *c07Htlc) {
	e.handed = append(e.handed, fmt.Sprintf("%s>%d", c07KeyStr(h.in),
		h.target))
	h.inOutBox = true
}

// respond predicts a response travelling to the incoming mailbox, which
// holds at most one unacked response per incoming key.
func (e *c07Expect) respond(h *c07Htlc) {
	// Life-cycle mode: as long as the incoming channel's link has not
	// been added since the switch started, the response is parked by the
	// mail orchestrator ("unclaimed") and must be handed over when the
	// link is added.
	if w := h.w; w != nil && w.lc && !w.bound[h.in.ChanID.ToUint64()] {
		h.unclaimed = true
		w.label("lc:resp_parked_unclaimed")

		return
	}
	if h.respBox {
		return
	}
	if w := h.w; w != nil && w.lc && !w.live[h.in.ChanID.ToUint64()] {
		// straight into the mailbox that outlives the link
		w.label("lc:resp_while_link_removed")
	}
	h.respBox = true
	e.resp = append(e.resp, c07KeyStr(h.in))
}

// settle waits for the switch and compares observation and prediction.
func (w *c07World) settle(exp *c07Expect) error {
	if err := w.barrier(); err != nil {
		return err
	}

	// Results of local payments are produced by goroutines the switch
	// spawns; each ends with a notification.
	w.localDone += exp.local
	deadline := time.After(60 * time.Second)
	for w.ntf.count() < w.localDone {
		select {
		case <-w.ntf.sig:
		case <-deadline:
			return errC07Inconclusive
		}
	}

	w.rec.mu.Lock()
	handed := append([]string(nil), w.rec.handed...)
	w.rec.handed = nil
	w.rec.mu.Unlock()

	var resp []string
	for c := 1; c <= c07NumChans; c++ {
		for _, pkt := range w.boxResps(c) {
			if w.seenResp[pkt] {
				continue
			}
			w.seenResp[pkt] = true
			in := pkt.inKey()
			if in.ChanID.ToUint64() != uint64(c) {
				return fmt.Errorf("response for %s delivered to "+
					"link %d", c07KeyStr(in), c)
			}
			switch pkt.htlc.(type) {
			case *lnwire.UpdateFulfillHTLC, *lnwire.UpdateFailHTLC:
			default:
				return fmt.Errorf("response of type %T", pkt.htlc)
			}
			resp = append(resp, c07KeyStr(in))

			// The response must reference the original ADD, or
			// the incoming link cannot ack it in its forwarding
			// package: failAddPacket copies the ADD's sourceRef,
			// closeCircuit refills it from the circuit's AddRef
			// for responses of the remote peer, and the mailbox
			// must copy it for the ADDs it gives up on (FailAdd).
			if h := w.htlcs[in]; h != nil && !w.noRefCheck {
				if pkt.sourceRef == nil || *pkt.sourceRef != h.ref {
					return fmt.Errorf("response for HTLC %s "+
						"carries sourceRef %v, the ADD's is "+
						"%v: the incoming link can not ack "+
						"the ADD and will replay it",
						c07KeyStr(in), pkt.sourceRef, h.ref)
				}
			}

			// Life-cycle mode: likewise the reference into the
			// outgoing channel's forwarding package, without which
			// the incoming link's commitment can not ack the
			// settle/fail there (it would be re-forwarded at every
			// start).
			if h := w.htlcs[in]; h != nil && w.lc && !h.resolved {
				got, want := pkt.destRef, h.wantDest
				if (got == nil) != (want == nil) ||
					(got != nil && *got != *want) {

					return fmt.Errorf("response for HTLC %s "+
						"carries destRef %v, expected %v",
						c07KeyStr(in), got, want)
				}
			}
		}
	}

	// Invariants, independent of the prediction.
	for _, hs := range handed {
		in := hs[:strings.Index(hs, ">")]
		for _, h := range w.htlcs {
			if c07KeyStr(h.in) != in {
				continue
			}
			h.handed++
			if h.resolved {
				return fmt.Errorf("AT-MOST-ONCE: HTLC %s handed "+
					"to an outgoing link after a response "+
					"for it was committed on the incoming "+
					"link", in)
			}
			if h.handed > 1 {
				return fmt.Errorf("AT-MOST-ONCE: HTLC %s handed "+
					"to an outgoing link %d times", in, h.handed)
			}
		}
	}
	for _, in := range resp {
		for _, h := range w.htlcs {
			if c07KeyStr(h.in) != in {
				continue
			}
			h.respEntered++
			if h.resolved && w.lc {
				return fmt.Errorf("AT-MOST-ONCE: the incoming link "+
					"is handed another settle/fail for HTLC %s "+
					"after it committed and acked one (circuit "+
					"torn down)", in)
			}
			if h.respEntered > 1 {
				return fmt.Errorf("AT-MOST-ONCE: %d responses for "+
					"HTLC %s entered the incoming mailbox in "+
					"one switch lifetime", h.respEntered, in)
			}
			if h.resolved {
				return fmt.Errorf("AT-MOST-ONCE: response for "+
					"HTLC %s after the incoming link durably "+
					"consumed one", in)
			}
		}
	}

	// Prediction.
	sort.Strings(handed)
	sort.Strings(resp)
	wh := append([]string(nil), exp.handed...)
	wr := append([]string(nil), exp.resp...)
	sort.Strings(wh)
	sort.Strings(wr)
	if strings.Join(handed, " ") != strings.Join(wh, " ") {
		return fmt.Errorf("handed to outgoing links: [%s], expected [%s]",
			strings.Join(handed, " "), strings.Join(wh, " "))
	}
	if strings.Join(resp, " ") != strings.Join(wr, " ") {
		return fmt.Errorf("responses into incoming mailboxes: [%s], "+
			"expected [%s]", strings.Join(resp, " "),
			strings.Join(wr, " "))
	}

	return w.checkWorld()
}

// checkWorld compares circuit map and mailboxes with the model.
func (w *c07World) checkWorld() error {
	pending, open := 0, 0
	for _, in := range w.order {
		h := w.htlcs[in]
		c := w.sw.circuits.LookupCircuit(in)
		if (c != nil) != h.exists {
			return fmt.Errorf("circuit %s: present=%v, expected %v",
				c07KeyStr(in), c != nil, h.exists)
		}
		if !h.exists {
			continue
		}
		pending++
		if (c.Outgoing != nil) != (h.out != nil) ||
			(h.out != nil && *c.Outgoing != *h.out) {

			return fmt.Errorf("circuit %s: keystone %v, expected %v",
				c07KeyStr(in), c.Outgoing, h.out)
		}
		if h.out != nil {
			open++
			oc := w.sw.circuits.LookupOpenCircuit(*h.out)
			if oc == nil || oc.Incoming != in {
				return fmt.Errorf("open circuit %s not found "+
					"for %s", c07KeyStr(*h.out), c07KeyStr(in))
			}
		}
		if in.ChanID.ToUint64() != 0 && c.AddRef != h.ref {
			return fmt.Errorf("circuit %s: AddRef %v, the ADD's is %v",
				c07KeyStr(in), c.AddRef, h.ref)
		}
		if c.LoadedFromDisk != (h.addEpoch < w.epoch) {
			return fmt.Errorf("circuit %s: LoadedFromDisk=%v in "+
				"epoch %d (added in %d)", c07KeyStr(in),
				c.LoadedFromDisk, w.epoch, h.addEpoch)
		}
	}
	if n := w.sw.circuits.NumPending(); n != pending {
		return fmt.Errorf("NumPending=%d expected %d", n, pending)
	}
	if n := w.sw.circuits.NumOpen(); n != open {
		return fmt.Errorf("NumOpen=%d expected %d", n, open)
	}

	for c := 1; c <= c07NumChans; c++ {
		var got, want []string
		for _, p := range w.boxAdds(c) {
			got = append(got, c07KeyStr(p.inKey()))
		}
		for _, in := range w.order {
			h := w.htlcs[in]
			if h.inOutBox && h.target == uint64(c) {
				want = append(want, c07KeyStr(in))
			}
		}
		sort.Strings(got)
		sort.Strings(want)
		if strings.Join(got, " ") != strings.Join(want, " ") {
			return fmt.Errorf("adds in mailbox %d: [%s] expected [%s]",
				c, strings.Join(got, " "), strings.Join(want, " "))
		}

		got, want = nil, nil
		for _, p := range w.boxResps(c) {
			got = append(got, c07KeyStr(p.inKey()))
		}
		for _, in := range w.order {
			h := w.htlcs[in]
			if h.respBox && in.ChanID.ToUint64() == uint64(c) {
				want = append(want, c07KeyStr(in))
			}
		}
		sort.Strings(got)
		sort.Strings(want)
		if strings.Join(got, " ") != strings.Join(want, " ") {
			return fmt.Errorf("responses in mailbox %d: [%s] "+
				"expected [%s]", c, strings.Join(got, " "),
				strings.Join(want, " "))
		}
	}

	return nil
}

// ---------------------------------------------------------------------------
// actions
// ---------------------------------------------------------------------------

func (w *c07World) addPacket(h *c07Htlc) *htlcPacket {
	ref := h.ref

	return &htlcPacket{
		sourceRef:      &ref,
		incomingChanID: h.in.ChanID,
		incomingHTLCID: h.in.HtlcID,
		outgoingChanID: lnwire.NewShortChanIDFromInt(h.target),
		obfuscator:     NewMockObfuscator(),
		incomingAmount: 2,
		amount:         1,
		htlc: &lnwire.UpdateAddHTLC{
			PaymentHash: h.hash,
			Amount:      1,
		},
	}
}

// unresolved returns the ADDs of incoming link c that are not acked in its
// forwarding packages, i.e. what the link replays when it restarts
// (resolveFwdPkgs). On a correct switch acked == resolved.
func (w *c07World) unresolved(c int) []*c07Htlc {
	var hs []*c07Htlc
	for _, in := range w.order {
		h := w.htlcs[in]
		if in.ChanID.ToUint64() == uint64(c) && !h.acked {
			hs = append(hs, h)
		}
	}

	return hs
}

// predictAdd applies the forwarding table to one presented add.
func (w *c07World) predictAdd(h *c07Htlc, exp *c07Expect) string {
	switch {
	case !h.exists:
		h.exists = true
		h.addEpoch = w.epoch
		switch {
		case h.target == c07UnknownChan:
			exp.respond(h)
			return "add:unknown_next_peer"

		case h.target == h.in.ChanID.ToUint64():
			exp.respond(h)
			return "add:circular"

		case !w.up(int(h.target)):
			// no link registered for the outgoing channel
			exp.respond(h)
			return "add:no_link"

		case !w.ls[h.target].eligible:
			exp.respond(h)
			return "add:not_eligible"
		}
		exp.hand(h)

		return "add:handed"

	case h.out != nil:
		return "dup:drop_keystone"

	case h.addEpoch == w.epoch:
		return "dup:drop_inmem"

	default:
		exp.respond(h)
		return "dup:fail_after_restart"
	}
}

func (w *c07World) actForward(t *rapid.T) error {
	c := w.anyLink(t, "inLink")
	if c == 0 {
		return nil
	}
	n := rapid.IntRange(1, 4).Draw(t, "fwdN")
	exp := &c07Expect{}
	var pkts []*htlcPacket
	var desc []string
	for i := 0; i < n; i++ {
		var h *c07Htlc
		cand := w.unresolved(c)
		if len(cand) > 0 && rapid.IntRange(0, 9).Draw(t, "replay") < 5 {
			h = rapid.SampledFrom(cand).Draw(t, "replayOf")
		} else {
			// mostly another channel; sometimes the incoming one
			// (circular) or a channel the switch does not know
			others := []uint64{uint64(c%c07NumChans) + 1,
				uint64((c+1)%c07NumChans) + 1}
			target := rapid.SampledFrom(others).Draw(t, "target")
			switch rapid.IntRange(0, 13).Draw(t, "targetKind") {
			case 5:
				target = uint64(c)
			case 8:
				target = c07UnknownChan
			}
			h = &c07Htlc{
				w:      w,
				in:     c07Key(uint64(c), w.ls[c].nextIn),
				target: target,
				hash: c07Hashes[rapid.IntRange(0, 2).Draw(t,
					"hash")],
				// unique per ADD: (commit height, index in pkg)
				ref: channeldb.AddRef{
					Height: uint64(c)*1000 + w.ls[c].nextIn,
					Index: uint16(rapid.IntRange(0, 5).Draw(t,
						"refIndex")),
				},
			}
			w.ls[c].nextIn++
			w.htlcs[h.in] = h
			w.order = append(w.order, h.in)
		}
		pkts = append(pkts, w.addPacket(h))
		v := w.predictAdd(h, exp)
		w.label(v)
		desc = append(desc, c07KeyStr(h.in)+"="+v)
	}
	w.logf("forward(link%d)[%s]", c, strings.Join(desc, " "))

	if err := w.sw.ForwardPackets(nil, pkts...); err != nil {
		return fmt.Errorf("ForwardPackets: %v", err)
	}

	return w.settle(exp)
}

// actSendLocal: the router sends a payment attempt, or re-sends one whose
// result it does not know yet (same attempt id).
func (w *c07World) actSendLocal(t *rapid.T) error {
	var h *c07Htlc
	var cand []*c07Htlc
	for _, in := range w.order {
		x := w.htlcs[in]
		if in.ChanID.ToUint64() == 0 && !x.resolved {
			cand = append(cand, x)
		}
	}
	if len(cand) > 0 && rapid.IntRange(0, 9).Draw(t, "resend") < 4 {
		h = rapid.SampledFrom(cand).Draw(t, "resendOf")
	} else {
		target := uint64(rapid.IntRange(1, c07NumChans).Draw(t, "firstHop"))
		if rapid.IntRange(0, 11).Draw(t, "unknownHop") == 6 {
			target = c07UnknownChan
		}
		h = &c07Htlc{
			w:      w,
			in:     c07Key(0, w.nextLocal),
			target: target,
			hash:   c07Hashes[rapid.IntRange(0, 2).Draw(t, "hash")],
		}
		w.nextLocal++
		w.htlcs[h.in] = h
		w.order = append(w.order, h.in)
	}

	exp := &c07Expect{}
	var want error
	v := ""
	switch {
	case h.target == c07UnknownChan || !w.up(int(h.target)) ||
		!w.ls[h.target].eligible:
		// rejected before a circuit is created
		v = "local:link_error"
		if !h.exists {
			// the router gives up on this attempt id
			h.resolved = true
		}

	case !h.exists:
		v = "local:handed"
		h.exists = true
		h.addEpoch = w.epoch
		exp.hand(h)

	case h.out != nil || h.addEpoch == w.epoch:
		v = "local:duplicate"
		want = ErrDuplicateAdd

	default:
		v = "local:failed_after_restart"
		want = ErrLocalAddFailed
	}
	w.label(v)
	w.logf("sendLocal(%s>%d)=%s", c07KeyStr(h.in), h.target, v)

	err := w.sw.SendHTLC(
		lnwire.NewShortChanIDFromInt(h.target), h.in.HtlcID,
		&lnwire.UpdateAddHTLC{PaymentHash: h.hash, Amount: 1},
	)
	switch {
	case v == "local:link_error":
		var le *LinkError
		if !errors.As(err, &le) {
			return fmt.Errorf("SendHTLC: err=%v, expected a link "+
				"error", err)
		}
	case !errors.Is(err, want) || (want == nil && err != nil):
		return fmt.Errorf("SendHTLC(%s): err=%v, expected %v",
			c07KeyStr(h.in), err, want)
	}

	return w.settle(exp)
}

// actReplayAll: a restarted incoming link re-forwards every add of its
// forwarding packages that was not yet answered durably.
func (w *c07World) actReplayAll(t *rapid.T) error {
	c := w.anyLink(t, "replayLink")
	if c == 0 {
		return nil
	}

	return w.replayAll(c)
}

func (w *c07World) replayAll(c int) error {
	exp := &c07Expect{}
	var pkts []*htlcPacket
	var desc []string
	for _, h := range w.unresolved(c) {
		pkts = append(pkts, w.addPacket(h))
		v := w.predictAdd(h, exp)
		w.label(v)
		desc = append(desc, c07KeyStr(h.in)+"="+v)
	}
	w.logf("replayAll(link%d)[%s]", c, strings.Join(desc, " "))
	if err := w.mailbox(c).ResetPackets(); err != nil {
		return err
	}
	if err := w.sw.ForwardPackets(nil, pkts...); err != nil {
		return fmt.Errorf("ForwardPackets: %v", err)
	}

	return w.settle(exp)
}

// drawLink draws a link, preferring one for which useful(c) holds.
func (w *c07World) drawLink(t *rapid.T, name string,
	useful func(c int) bool) int {

	var good, all []int
	for c := 1; c <= c07NumChans; c++ {
		if !w.up(c) {
			continue
		}
		all = append(all, c)
		if useful(c) {
			good = append(good, c)
		}
	}
	if len(good) > 0 && rapid.IntRange(0, 9).Draw(t, name+"Useful") != 4 {
		return rapid.SampledFrom(good).Draw(t, name)
	}
	if w.lc {
		// only a registered link can act
		if len(all) == 0 {
			return 0
		}

		return rapid.SampledFrom(all).Draw(t, name)
	}

	return rapid.IntRange(1, c07NumChans).Draw(t, name)
}

// anyLink draws a link that can act (in life-cycle mode: a registered one, 0
// if there is none).
func (w *c07World) anyLink(t *rapid.T, name string) int {
	if !w.lc {
		return rapid.IntRange(1, c07NumChans).Draw(t, name)
	}

	return w.drawLink(t, name, func(int) bool { return false })
}

// actOutProcess: the outgoing link works on the adds in its mailbox.
func (w *c07World) actOutProcess(t *rapid.T) error {
	c := w.drawLink(t, "outLink", func(c int) bool {
		for _, p := range w.boxAdds(c) {
			if !w.ls[c].accepted[p.inKey()] {
				return true
			}
		}

		return false
	})
	if c == 0 {
		return nil
	}
	exp := &c07Expect{}
	var desc []string
	for _, pkt := range w.boxAdds(c) {
		in := pkt.inKey()
		if w.ls[c].accepted[in] {
			continue
		}
		h := w.htlcs[in]
		switch rapid.IntRange(0, 9).Draw(t, "outDecision") {
		case 7:
			// leave it in the mailbox
			desc = append(desc, c07KeyStr(in)+"=leave")

		case 8, 9:
			// channel.AddHTLC failed: fail back through the switch
			w.mailbox(c).FailAdd(pkt)
			h.inOutBox = false
			switch {
			case h.closed:
			case h.in.ChanID.ToUint64() == 0:
				w.resolveLocal(h, exp)
			default:
				h.closed = true
				h.wantDest = nil
				exp.respond(h)
			}
			w.label("out:fail_add")
			desc = append(desc, c07KeyStr(in)+"=failAdd")

		default:
			out := c07Key(uint64(c), w.ls[c].nextOut)
			err := w.sw.circuits.OpenCircuits(Keystone{
				InKey: in, OutKey: out,
			})
			if err != nil {
				return fmt.Errorf("OpenCircuits(%s>%s): %v",
					c07KeyStr(in), c07KeyStr(out), err)
			}
			w.ls[c].nextOut++
			w.ls[c].accepted[in] = true
			h.out = &out
			w.label("out:accept")
			desc = append(desc, c07KeyStr(in)+"=accept:"+
				c07KeyStr(out))
		}
	}
	w.logf("outProcess(link%d)[%s]", c, strings.Join(desc, " "))

	if err := w.settle(exp); err != nil {
		return err
	}
	// Usually the link signs a commitment right away.
	if rapid.IntRange(0, 9).Draw(t, "commitNow") < 6 {
		return w.outCommit(c)
	}

	return nil
}

func (w *c07World) actOutCommit(t *rapid.T) error {
	c := w.anyLink(t, "commitLink")
	if c == 0 {
		return nil
	}

	return w.outCommit(c)
}

func (w *c07World) outCommit(c int) error {
	ls := w.ls[c]
	ls.watermark = ls.nextOut
	n := 0
	for in := range ls.accepted {
		if !w.mailbox(c).AckPacket(in) {
			return fmt.Errorf("accepted add %s missing from mailbox",
				c07KeyStr(in))
		}
		w.htlcs[in].inOutBox = false
		n++
	}
	ls.accepted = make(map[CircuitKey]bool)
	w.logf("outCommit(link%d) acked=%d watermark=%d", c, n, ls.watermark)
	if n > 0 {
		w.label("out:commit")
	}

	return w.settle(&c07Expect{})
}

func (w *c07World) trimModel(c int) int {
	n := 0
	for _, in := range w.order {
		h := w.htlcs[in]
		if h.exists && h.out != nil &&
			h.out.ChanID.ToUint64() == uint64(c) &&
			h.out.HtlcID >= w.ls[c].watermark {

			h.out = nil
			n++
		}
	}
	w.ls[c].nextOut = w.ls[c].watermark
	w.ls[c].accepted = make(map[CircuitKey]bool)

	return n
}

func (w *c07World) actOutRestart(t *rapid.T) error {
	c := w.anyLink(t, "restartLink")
	if c == 0 {
		return nil
	}
	err := w.sw.circuits.TrimOpenCircuits(
		lnwire.NewShortChanIDFromInt(uint64(c)), w.ls[c].watermark,
	)
	if err != nil {
		return fmt.Errorf("TrimOpenCircuits: %v", err)
	}
	if err := w.mailbox(c).ResetPackets(); err != nil {
		return err
	}
	n := w.trimModel(c)
	w.logf("outRestart(link%d) trimmed=%d", c, n)
	if n > 0 {
		w.label("out:restart_trimmed")
	}

	return w.settle(&c07Expect{})
}

// actRespond: the remote peer of outgoing link c settles or fails committed
// HTLCs; a restarted link replays such responses from its forwarding
// packages, so duplicates may come at any time.
func (w *c07World) actRespond(t *rapid.T) error {
	c := w.drawLink(t, "respLink", func(c int) bool {
		for _, in := range w.order {
			x := w.htlcs[in]
			if x.exists && x.out != nil &&
				x.out.ChanID.ToUint64() == uint64(c) &&
				x.out.HtlcID < w.ls[c].watermark {

				return true
			}
		}

		return false
	})
	if c == 0 || w.ls[c].watermark == 0 {
		return nil
	}
	n := rapid.IntRange(1, 3).Draw(t, "respN")
	exp := &c07Expect{}
	var pkts []*htlcPacket
	var desc []string
	var newFwd []channeldb.LogUpdate
	for i := 0; i < n; i++ {
		id := uint64(rapid.IntRange(0, int(w.ls[c].watermark)-1).Draw(t,
			"respID"))
		// prefer HTLCs that are still in flight on this channel
		var live []uint64
		for _, in := range w.order {
			x := w.htlcs[in]
			if x.exists && x.out != nil &&
				x.out.ChanID.ToUint64() == uint64(c) &&
				x.out.HtlcID < w.ls[c].watermark {

				live = append(live, x.out.HtlcID)
			}
		}
		var gone []uint64
		for _, k := range w.resolvedOut {
			if k.ChanID.ToUint64() == uint64(c) {
				gone = append(gone, k.HtlcID)
			}
		}
		r := rapid.IntRange(0, 9).Draw(t, "live")
		switch {
		case len(live) > 0 && r < 6:
			id = rapid.SampledFrom(live).Draw(t, "liveID")
		case len(gone) > 0 && r < 9:
			id = rapid.SampledFrom(gone).Draw(t, "goneID")
		}
		settle := rapid.Bool().Draw(t, "settle")
		out := c07Key(uint64(c), id)

		// Life-cycle mode: the response is locked in by a revocation
		// of the remote peer, which writes it into a forwarding
		// package of this channel; the packet refers to it. A later
		// replay (restarted link) carries the same reference and the
		// same message.
		var fe *c07FwdEntry
		if w.lc {
			fe = w.fwdByOut[out]
			if fe == nil {
				fe = &c07FwdEntry{
					out: out,
					ref: channeldb.SettleFailRef{
						Source: out.ChanID,
						Height: w.fwdHeight[c],
						Index:  uint16(len(newFwd)),
					},
					settle: settle,
				}
				w.fwdByOut[out] = fe
				w.fwdByRef[fe.ref] = fe
				w.fwd[c] = append(w.fwd[c], fe)
				var msg lnwire.Message
				if settle {
					msg = &lnwire.UpdateFulfillHTLC{
						ChanID: c07ChanID(uint64(c)), ID: id,
					}
				} else {
					msg = &lnwire.UpdateFailHTLC{
						ChanID: c07ChanID(uint64(c)), ID: id,
						Reason: lnwire.OpaqueReason(fakeHmac),
					}
				}
				newFwd = append(newFwd, channeldb.LogUpdate{
					LogIndex: id, UpdateMsg: msg,
				})
			}
			settle = fe.settle
		}

		pkt := &htlcPacket{
			outgoingChanID: out.ChanID,
			outgoingHTLCID: id,
			amount:         1,
		}
		if fe != nil {
			ref := fe.ref
			pkt.destRef = &ref
		}
		if settle {
			pkt.htlc = &lnwire.UpdateFulfillHTLC{}
		} else {
			pkt.htlc = &lnwire.UpdateFailHTLC{
				Reason: lnwire.OpaqueReason(fakeHmac),
			}
		}
		pkts = append(pkts, pkt)

		var h *c07Htlc
		for _, in := range w.order {
			x := w.htlcs[in]
			if x.exists && x.out != nil && *x.out == out {
				h = x
			}
		}
		v := "unknown"
		switch {
		case h == nil:
			for _, k := range w.resolvedOut {
				if k == out {
					v = "after_resolved"
				}
			}
			w.queueAck(fe)
		case h.closed:
			v = "dup_closing"
			// Dropped; the ack of the package entry must NOT be
			// queued: the incoming link has not committed the
			// first copy yet.
			if fe != nil && !h.resolved {
				h.dupClosing = true
				w.label("lc:dup_resp_while_uncommitted")
			}
		case h.in.ChanID.ToUint64() == 0:
			v = "first_local"
			w.resolveLocal(h, exp)
			if fe != nil {
				// handleLocalResponse acks the reference
				fe.acked = true
			}
		default:
			v = "first"
			h.closed = true
			h.wantDest = nil
			if fe != nil {
				ref := fe.ref
				h.wantDest = &ref
			}
			exp.respond(h)
		}
		w.label("resp:" + v)
		desc = append(desc, fmt.Sprintf("%s/%v=%s", c07KeyStr(out),
			settle, v))
	}
	w.logf("respond(link%d)[%s]", c, strings.Join(desc, " "))

	if len(newFwd) > 0 {
		scid := lnwire.NewShortChanIDFromInt(uint64(c))
		pkg := channeldb.NewFwdPkg(scid, w.fwdHeight[c], nil, newFwd)
		w.fwdHeight[c]++
		err := kvdb.Update(w.cdb, func(tx kvdb.RwTx) error {
			return channeldb.NewChannelPackager(scid).AddFwdPkg(
				tx, pkg,
			)
		}, func() {})
		if err != nil {
			return fmt.Errorf("AddFwdPkg: %v", err)
		}
	}

	if err := w.sw.ForwardPackets(nil, pkts...); err != nil {
		return fmt.Errorf("ForwardPackets: %v", err)
	}

	return w.settle(exp)
}

// actInCommit: the incoming link commits responses found in its mailbox:
// DeleteCircuits, then ack (the order of the real link).
func (w *c07World) actInCommit(t *rapid.T) error {
	c := w.drawLink(t, "inCommitLink", func(c int) bool {
		return len(w.boxResps(c)) > 0
	})
	if c == 0 {
		return nil
	}
	var keys []CircuitKey
	var dests []channeldb.SettleFailRef
	refs := make(map[CircuitKey]*channeldb.AddRef)
	for _, pkt := range w.boxResps(c) {
		if rapid.IntRange(0, 3).Draw(t, "consume") == 0 {
			continue
		}
		keys = append(keys, pkt.inKey())
		refs[pkt.inKey()] = pkt.sourceRef
		delete(w.seenResp, pkt)
		if w.lc && pkt.destRef != nil {
			dests = append(dests, *pkt.destRef)
		}
	}
	// Life-cycle mode: the commitment that carries the responses acks
	// them in the outgoing channels' forwarding packages (same
	// transaction as the commit diff in the real link), before the
	// circuits are deleted and the mailbox is acked.
	if len(dests) > 0 {
		err := kvdb.Update(w.cdb, func(tx kvdb.RwTx) error {
			return w.sw.cfg.SwitchPackager.AckSettleFails(tx, dests...)
		}, func() {})
		if err != nil {
			return fmt.Errorf("AckSettleFails: %v", err)
		}
		for _, d := range dests {
			if fe := w.fwdByRef[d]; fe != nil {
				fe.acked = true
			}
		}
	}
	if len(keys) > 0 {
		if err := w.sw.circuits.DeleteCircuits(keys...); err != nil {
			return fmt.Errorf("DeleteCircuits: %v", err)
		}
	}
	var desc []string
	var outs []CircuitKey
	for _, in := range keys {
		if !w.mailbox(c).AckPacket(in) {
			return fmt.Errorf("response %s vanished", c07KeyStr(in))
		}
		h := w.htlcs[in]
		if h.out != nil {
			w.resolvedOut = append(w.resolvedOut, *h.out)
			outs = append(outs, *h.out)
		}
		h.exists, h.out, h.closed = false, nil, false
		h.respBox = false
		h.resolved = true
		if h.unclaimed {
			return fmt.Errorf("harness: %s resolved while parked",
				c07KeyStr(in))
		}
		if h.wasParked {
			h.parkedFin = true
			w.label("lc:parked_resp_committed_acked")
		}
		// channel.SettleHTLC/FailHTLC(.., pkt.sourceRef, ..): the
		// commitment that carries the response acks exactly the
		// referenced ADD.
		if r := refs[in]; r != nil && *r == h.ref {
			h.acked = true
		} else {
			w.label("in:resolved_without_ack")
		}
		w.label("in:resolved")
		desc = append(desc, c07KeyStr(in))
	}
	w.logf("inCommit(link%d)[%s]", c, strings.Join(desc, " "))

	if err := w.settle(&c07Expect{}); err != nil {
		return err
	}

	// The outgoing link has not yet learnt that its response was
	// processed (its forwarding package is acked later) and may replay it.
	var pkts []*htlcPacket
	for _, out := range outs {
		if rapid.Bool().Draw(t, "replayResolved") {
			continue
		}
		pkt := &htlcPacket{
			outgoingChanID: out.ChanID,
			outgoingHTLCID: out.HtlcID,
			amount:         1,
		}
		if fe := w.fwdByOut[out]; w.lc && fe != nil {
			ref := fe.ref
			pkt.destRef = &ref
			w.queueAck(fe)
		}
		if rapid.Bool().Draw(t, "settle") {
			pkt.htlc = &lnwire.UpdateFulfillHTLC{}
		} else {
			pkt.htlc = &lnwire.UpdateFailHTLC{
				Reason: lnwire.OpaqueReason(fakeHmac),
			}
		}
		pkts = append(pkts, pkt)
		w.label("resp:after_resolved")
		w.logf("respond(%s) after resolve", c07KeyStr(out))
	}
	if len(pkts) == 0 {
		return nil
	}
	if err := w.sw.ForwardPackets(nil, pkts...); err != nil {
		return fmt.Errorf("ForwardPackets: %v", err)
	}

	return w.settle(&c07Expect{})
}

func (w *c07World) actToggle(t *rapid.T) error {
	c := rapid.IntRange(1, c07NumChans).Draw(t, "toggleLink")
	w.ls[c].eligible = !w.ls[c].eligible
	// only read by the forwarding goroutine while handling a packet;
	// the barrier of the previous action ordered those reads before.
	if w.up(c) {
		w.links[c].eligible = w.ls[c].eligible
	}
	w.logf("eligible(link%d)=%v", c, w.ls[c].eligible)

	return w.settle(&c07Expect{})
}

func (w *c07World) actSwitchRestart(t *rapid.T) error {
	if err := w.stopSwitch(); err != nil {
		return fmt.Errorf("stop: %v", err)
	}
	trimmed := 0
	for c := 1; c <= c07NumChans; c++ {
		trimmed += w.trimModel(c)
	}
	w.epoch++
	for _, in := range w.order {
		h := w.htlcs[in]
		h.closed, h.inOutBox, h.respBox = false, false, false
		h.respEntered = 0
	}
	w.seenResp = make(map[*htlcPacket]bool)
	w.rec.mu.Lock()
	w.rec.handed = nil
	w.rec.mu.Unlock()

	exp := &c07Expect{}
	if w.lc {
		w.predictStart(exp)
	}

	if err := w.startSwitch(); err != nil {
		return fmt.Errorf("start: %v", err)
	}
	w.logf("switchRestart trimmed=%d", trimmed)
	w.label("switch_restart")
	if trimmed > 0 {
		w.label("switch_restart_trimmed")
	}

	if err := w.settle(exp); err != nil {
		return err
	}
	if w.lc {
		return w.plugSome(t, 5)
	}

	return nil
}

func TestVerifC07Switch(t *testing.T) {
	st := vstats.New("TestVerifC07Switch")
	defer st.Flush()
	maxSteps := vstats.EnvInt("VERIF_C07_SWSTEPS", 40)

	rapid.Check(t, func(t *rapid.T) {
		dir, err := os.MkdirTemp("", "c07sw")
		if err != nil {
			t.Fatalf("tempdir: %v", err)
		}
		defer os.RemoveAll(dir)

		w := &c07World{
			dir:        dir,
			rec:        &c07Recorder{},
			ntf:        &c07Notifier{sig: make(chan struct{}, 1)},
			noRefCheck: vstats.EnvInt("VERIF_C07_NOREFCHECK", 0) == 1,
			htlcs:      make(map[CircuitKey]*c07Htlc),
			seenResp:   make(map[*htlcPacket]bool),
			labels:     make(map[string]bool),
		}
		for c := 1; c <= c07NumChans; c++ {
			w.ls[c] = &c07LinkState{
				eligible: true,
				accepted: make(map[CircuitKey]bool),
			}
		}
		if err := w.startSwitch(); err != nil {
			t.Fatalf("start switch: %v", err)
		}
		defer func() { _ = w.stopSwitch() }()

		steps := rapid.IntRange(5, maxSteps).Draw(t, "steps")
		for i := 0; i < steps; i++ {
			kind := rapid.IntRange(0, 99).Draw(t, "action")
			var err error
			switch {
			case kind < 16:
				err = w.actForward(t)
			case kind < 24:
				err = w.actSendLocal(t)
			case kind < 44:
				err = w.actOutProcess(t)
			case kind < 50:
				err = w.actOutCommit(t)
			case kind < 70:
				err = w.actRespond(t)
			case kind < 80:
				err = w.actInCommit(t)
			case kind < 85:
				err = w.actOutRestart(t)
			case kind < 90:
				err = w.actReplayAll(t)
			case kind < 92:
				err = w.actToggle(t)
			default:
				err = w.actSwitchRestart(t)
			}
			if errors.Is(err, errC07Inconclusive) {
				st.Count("inconclusive", 1)
				t.Skip("local payment result not seen in 60s")
			}
			if err != nil {
				t.Fatalf("step %d: %v\nops:\n  %s", i, err,
					strings.Join(w.ops, "\n  "))
			}
		}
		// Stopping waits for all goroutines of the switch and checks
		// the number of local payment results.
		if err := w.stopSwitch(); err != nil {
			t.Fatalf("final stop: %v\nops:\n  %s", err,
				strings.Join(w.ops, "\n  "))
		}

		// Non-trivial: a duplicate forward or duplicate response was
		// presented to the switch, or an add was replayed after a
		// switch restart.
		nontrivial := w.labels["dup:drop_keystone"] ||
			w.labels["dup:drop_inmem"] ||
			w.labels["dup:fail_after_restart"] ||
			w.labels["resp:dup_closing"] ||
			w.labels["resp:after_resolved"] ||
			w.labels["local:duplicate"] ||
			w.labels["local:failed_after_restart"]

		labels := make([]string, 0, len(w.labels))
		for l := range w.labels {
			labels = append(labels, l)
		}
		sort.Strings(labels)
		var fp []any
		for _, o := range w.ops {
			fp = append(fp, o)
		}
		var sample any
		if nontrivial && st.WantSample() {
			sample = w.ops
		}
		st.Case(vstats.FP(fp...), nontrivial, labels, sample)
	})
}
